/-
Helper lemmas for C03 / C14: the exit codes as numbers, a named form of what `verifyOrDiff` computes, and the
`commit` fold.
-/
import MhlModel.Commands

namespace MhlModel

/-! ## exit codes -/

theorem errMissingFiles_eq : errMissingFiles = .exit 10 := by decide
theorem errVerifyFailed_eq : errVerifyFailed = .exit 11 := by decide
theorem errDirVerifyFailed_eq : errDirVerifyFailed = .exit 12 := by decide
theorem errSingleFileNotFound_eq : errSingleFileNotFound = .exit 20 := by decide
theorem errNewFiles_eq : errNewFiles = .exit 21 := by decide
theorem errNoHistory_eq : errNoHistory = .exit 30 := by decide
theorem errModified_eq : errModified = .exit 31 := by decide
theorem errNoChain_eq : errNoChain = .exit 32 := by decide
theorem errMissingManifest_eq : errMissingManifest = .exit 33 := by decide

theorem isEmpty_eq_false_iff {α : Type} (l : List α) : l.isEmpty = false ↔ l ≠ [] := by
  cases l <;> simp

/-! ## the pieces of `verifyOrDiff`, named -/

/-- the matcher a verify / diff run uses: recorded patterns of the latest generation plus the ones given -/
def vHit (env : Env) (rootHist : Hist) (o : VerifyOpts) : RelPath → Bool :=
  env.hit (setPatterns (latestIgnore rootHist.gens) o.ignoreCli o.ignoreFile)

/-- every visited path (files and folders) -/
def vFound (env : Env) (t : Node) (rootHist : Hist) (o : VerifyOpts) : List RelPath :=
  (visiblePaths (vHit env rootHist o) t).map (·.1)

/-- the visited files -/
def vFiles (env : Env) (t : Node) (rootHist : Hist) (o : VerifyOpts) : List RelPath :=
  ((visiblePaths (vHit env rootHist o) t).filter fun x => !x.2).map (·.1)

/-- the visited files that are looked at (all of them, or the single file asked for) -/
def vConsidered (env : Env) (t : Node) (rootHist : Hist) (o : VerifyOpts) : List RelPath :=
  (vFiles env t rootHist o).filter fun p => o.singleFile.isNone || o.singleFile == some p

def vNews (env : Env) (t : Node) (rootHist : Hist) (o : VerifyOpts) (hashing : Bool) : List RelPath :=
  (vConsidered env t rootHist o).filter fun p => judgeFile env t rootHist hashing p == .new

def vMism (env : Env) (t : Node) (rootHist : Hist) (o : VerifyOpts) (hashing : Bool) : List RelPath :=
  (vConsidered env t rootHist o).filter fun p => judgeFile env t rootHist hashing p == .mismatch

def vFoundSingle (env : Env) (t : Node) (rootHist : Hist) (o : VerifyOpts) (hashing : Bool) : Bool :=
  (vConsidered env t rootHist o).any fun p => judgeFile env t rootHist hashing p != .new

def vMissing (env : Env) (t : Node) (rootHist : Hist) (o : VerifyOpts) : List RelPath :=
  missingAfter (vHit env rootHist o)
    ((expectedPaths rootHist).filter fun p => !(vFound env t rootHist o).contains p)

/-- `verifyOrDiff` against the history on disk, once it loaded and is not empty -/
theorem verifyOrDiff_eq (env : Env) (t : Node) (o : VerifyOpts) (hashing : Bool) (rootHist : Hist)
    (hl : loadHistory t = .ok rootHist) (hg : rootHist.gens ≠ []) :
    verifyOrDiff env t o hashing none =
      { err := if hashing then
            verifyExit ((vMism env t rootHist o hashing).map posix) ((vNews env t rootHist o hashing).map posix)
              o.singleFile.isSome (vFoundSingle env t rootHist o hashing) (vMissing env t rootHist o)
          else diffExit ((vNews env t rootHist o hashing).map posix) (vMissing env t rootHist o),
        report := { mismatch := (vMism env t rootHist o hashing).map posix,
                    missing := (vMissing env t rootHist o).map posix,
                    new := (vNews env t rootHist o hashing).map posix } } := by
  have he : rootHist.gens.isEmpty = false := (isEmpty_eq_false_iff _).2 hg
  unfold verifyOrDiff
  simp only [hl, he]
  rfl

theorem verifyOrDiff_load_error (env : Env) (t : Node) (o : VerifyOpts) (hashing : Bool) (e : Err)
    (hl : loadHistory t = .error e) : verifyOrDiff env t o hashing none = { err := some e } := by
  unfold verifyOrDiff
  simp only [hl]

theorem verifyOrDiff_no_gens (env : Env) (t : Node) (o : VerifyOpts) (hashing : Bool) (rootHist : Hist)
    (hl : loadHistory t = .ok rootHist) (hg : rootHist.gens = []) :
    verifyOrDiff env t o hashing none = { err := some errNoHistory } := by
  unfold verifyOrDiff
  simp [hl, hg]

/-! ## membership in the named pieces -/

theorem mem_vFiles (env : Env) (t : Node) (rootHist : Hist) (o : VerifyOpts) (p : RelPath) :
    p ∈ vFiles env t rootHist o ↔ (p, false) ∈ visiblePaths (vHit env rootHist o) t := by
  unfold vFiles
  simp only [List.mem_map, List.mem_filter, Bool.not_eq_true']
  constructor
  · rintro ⟨⟨q, d⟩, ⟨hm, hd⟩, rfl⟩
    simp only at hd
    subst hd
    exact hm
  · intro h
    exact ⟨(p, false), ⟨h, rfl⟩, rfl⟩

theorem mem_vFound (env : Env) (t : Node) (rootHist : Hist) (o : VerifyOpts) (p : RelPath) :
    p ∈ vFound env t rootHist o ↔ ∃ d, (p, d) ∈ visiblePaths (vHit env rootHist o) t := by
  unfold vFound
  simp only [List.mem_map]
  constructor
  · rintro ⟨⟨q, d⟩, hm, rfl⟩
    exact ⟨d, hm⟩
  · rintro ⟨d, h⟩
    exact ⟨(p, d), h, rfl⟩

theorem mem_vConsidered (env : Env) (t : Node) (rootHist : Hist) (o : VerifyOpts) (p : RelPath) :
    p ∈ vConsidered env t rootHist o ↔
      (p, false) ∈ visiblePaths (vHit env rootHist o) t ∧ (o.singleFile = none ∨ o.singleFile = some p) := by
  unfold vConsidered
  rw [List.mem_filter, mem_vFiles]
  cases o.singleFile <;> simp

theorem mem_vNews (env : Env) (t : Node) (rootHist : Hist) (o : VerifyOpts) (hashing : Bool) (p : RelPath) :
    p ∈ vNews env t rootHist o hashing ↔
      p ∈ vConsidered env t rootHist o ∧ judgeFile env t rootHist hashing p = .new := by
  unfold vNews
  simp [List.mem_filter]

theorem mem_vMism (env : Env) (t : Node) (rootHist : Hist) (o : VerifyOpts) (hashing : Bool) (p : RelPath) :
    p ∈ vMism env t rootHist o hashing ↔
      p ∈ vConsidered env t rootHist o ∧ judgeFile env t rootHist hashing p = .mismatch := by
  unfold vMism
  simp [List.mem_filter]

theorem hitAbove_false_iff (hit : RelPath → Bool) (p : RelPath) :
    hitAbove hit p = false ↔ ∀ i, i < p.length → hit (p.take (i + 1)) = false := by
  unfold hitAbove
  rw [Bool.eq_false_iff]
  simp only [ne_eq, List.any_eq_true, List.mem_range, not_exists, not_and, Bool.not_eq_true]

/-- a matched path is excluded (the last prefix is the path itself) -/
theorem hitAbove_of_hit (hit : RelPath → Bool) (p : RelPath) (hne : p ≠ []) (h : hit p = true) :
    hitAbove hit p = true := by
  unfold hitAbove
  rw [List.any_eq_true]
  refine ⟨p.length - 1, ?_, ?_⟩
  · have : 0 < p.length := List.length_pos_iff.mpr hne
    simp only [List.mem_range]; omega
  · have : 0 < p.length := List.length_pos_iff.mpr hne
    have h1 : p.length - 1 + 1 = p.length := by omega
    rw [h1, List.take_length]; exact h

/-- a path none of whose prefixes is matched is not excluded -/
theorem hitAbove_false_of_prefixes (hit : RelPath → Bool) (p : RelPath)
    (h : ∀ q, q ≠ [] → q <+: p → hit q = false) : hitAbove hit p = false := by
  rw [hitAbove_false_iff]
  intro i hi
  apply h
  · intro hnil
    have := congrArg List.length hnil
    simp only [List.length_take, List.length_nil] at this
    omega
  · exact List.take_prefix _ _

theorem hitAbove_false_hit (hit : RelPath → Bool) (p : RelPath) (hne : p ≠ []) (h : hitAbove hit p = false) :
    hit p = false := by
  cases hh : hit p with
  | false => rfl
  | true => rw [hitAbove_of_hit hit p hne hh] at h; exact absurd h (by simp)

theorem mem_missingAfter (hit : RelPath → Bool) (l : List RelPath) (p : RelPath) :
    p ∈ missingAfter hit l ↔ p ∈ l ∧ hitAbove hit p = false := by
  unfold missingAfter
  simp [List.mem_filter]

theorem mem_vMissing (env : Env) (t : Node) (rootHist : Hist) (o : VerifyOpts) (p : RelPath) :
    p ∈ vMissing env t rootHist o ↔
      p ∈ expectedPaths rootHist ∧ p ∉ vFound env t rootHist o ∧ hitAbove (vHit env rootHist o) p = false := by
  unfold vMissing
  rw [mem_missingAfter, List.mem_filter]
  simp [and_assoc]

/-! ## the `commit` fold -/

theorem commitStep_roots (rootHist : Hist) (s : Session) (rn stamp process : String) (cb : Option String)
    (acc : List Written) (h : Hist) (out : List Written)
    (hs : commitStep rootHist s rn stamp process cb acc h = .ok out) :
    out = acc ∨ ∃ w, out = acc ++ [w] ∧ w.histRoot = h.root := by
  unfold commitStep at hs
  dsimp only at hs
  split at hs
  · left
    simp only [pure, Except.pure, Except.ok.injEq] at hs
    exact hs.symm
  · right
    cases hw : writeOne rootHist s rn stamp process cb h
        (acc.filter fun w => parentRoot rootHist w.histRoot == some h.root) with
    | error e => simp [hw, bind, Except.bind] at hs
    | ok w =>
      simp only [hw, bind, Except.bind, pure, Except.pure, Except.ok.injEq] at hs
      refine ⟨w, hs.symm, ?_⟩
      unfold writeOne at hw
      cases hm : (s.get h.root).records.mapM validateRecord with
      | error e => simp [hm, bind, Except.bind] at hw
      | ok recs =>
        simp only [hm, bind, Except.bind, pure, Except.pure, Except.ok.injEq] at hw
        subst hw
        rfl

theorem foldlM_commitStep_roots (rootHist : Hist) (s : Session) (rn stamp process : String) (cb : Option String)
    (hs : List Hist) : ∀ (acc out : List Written),
    hs.foldlM (commitStep rootHist s rn stamp process cb) acc = .ok out →
    ∀ w ∈ out, w ∈ acc ∨ ∃ h ∈ hs, w.histRoot = h.root := by
  induction hs with
  | nil =>
    intro acc out ho w hw
    simp only [List.foldlM_nil, pure, Except.pure, Except.ok.injEq] at ho
    subst ho
    exact Or.inl hw
  | cons h rest ih =>
    intro acc out ho w hw
    rw [List.foldlM_cons] at ho
    cases hstep : commitStep rootHist s rn stamp process cb acc h with
    | error e => simp [hstep, bind, Except.bind] at ho
    | ok mid =>
      simp only [hstep, bind, Except.bind] at ho
      rcases ih mid out ho w hw with hmid | ⟨h', hh', hr⟩
      · rcases commitStep_roots rootHist s rn stamp process cb acc h mid hstep with rfl | ⟨w', rfl, hw'⟩
        · exact Or.inl hmid
        · rcases List.mem_append.1 hmid with ha | hb
          · exact Or.inl ha
          · simp only [List.mem_singleton] at hb
            subst hb
            exact Or.inr ⟨h, List.mem_cons_self, hw'⟩
      · exact Or.inr ⟨h', List.mem_cons_of_mem _ hh', hr⟩

/-- every generation a `commit` writes belongs to a history in scope -/
theorem commit_roots (rootHist : Hist) (s : Session) (rn stamp process : String) (cb : Option String)
    (out : List Written) (ho : commit rootHist s rn stamp process cb = .ok out) :
    ∀ w ∈ out, ∃ h ∈ walkPost rootHist, w.histRoot = h.root := by
  intro w hw
  unfold commit at ho
  rcases foldlM_commitStep_roots rootHist s rn stamp process cb _ [] out ho w hw with h | h
  · cases h
  · exact h

end MhlModel
