/-
Lemmas for C02sf: `create -sf` (commands.py `create_for_single_files_subcommand`).

A. the pieces of `createSingleFiles` with names: `sfTargetStep` / `sfTargets` (the list the model folds over),
   `sfStep` (one sealed file with the failure counters), `sfFold` (the session), `createSingleFiles_eq`
B. `filesBelow` = the visible files of the traversal that starts at the folder
C. membership in `sfTargets`
D. `SfOk` (well-formed named paths); the invariant `SInv` of folder-mode `create` (NestedLemmas) along the sealing
   fold, the visited items being the targets; which lists the session has
E. every record is a file record, whatever is named (`Session.FilesOnly`)
F. the commit for any session: `commit_records`, `commit_written_tree_iff` (a history is written iff it or a
   transitive child has a list), `mem_all_of_prefix` (in a loaded history "rooted at or below" = "is a transitive child")
G. the entries recorded for one file: no earlier record (`sealEntries_fresh`), the C04 judgements on the written
   entries (`written_entries_spec`), at most one entry per format, sorted
-/
import MhlProps.C08part
import MhlProps.Proofs.DhLemmas

namespace MhlModel

/-! ## A. the pieces of `createSingleFiles` -/

/-- one named path: a folder of the tree contributes the files below it (duplicates skipped), anything else — a file
of the tree or a path that does not resolve — contributes itself -/
def sfTargetStep (hit : RelPath → Bool) (t : Node) (acc : List RelPath) (p : RelPath) : List RelPath :=
  match t.at? p with
  | some (.dir _ _ _) => (filesBelow hit t p).foldl appendNew acc
  | _ => appendNew acc p

/-- the list `createSingleFiles` folds `sealFile` over -/
def sfTargets (hit : RelPath → Bool) (t : Node) (named : List RelPath) : List RelPath :=
  named.foldl (sfTargetStep hit t) []

/-- one step of the sealing fold of `createSingleFiles`: seal the file, count a failure of the first format -/
def sfStep (env : Env) (t : Node) (rootHist : Hist) (fmts : List String) (first : String)
    (acc : Session × Nat × List String) (p : RelPath) : Session × Nat × List String :=
  let r := sealFile env.H rootHist acc.1 p (fileContent t p) fmts
  match r.2.find? (fun x => x.1 == first) with
  | some (_, _, ok) => if ok then (r.1, acc.2.1, acc.2.2) else (r.1, acc.2.1 + 1, appendNew acc.2.2 (posix p))
  | none => (r.1, acc.2.1, acc.2.2)

/-- the session part of the fold: `sealFile` folded over the targets -/
def sfFold (env : Env) (t : Node) (rootHist : Hist) (fmts : List String) (s : Session) (ps : List RelPath) :
    Session :=
  ps.foldl (fun s p => (sealFile env.H rootHist s p (fileContent t p) fmts).1) s

theorem sfStep_fst (env : Env) (t : Node) (rootHist : Hist) (fmts : List String) (first : String)
    (acc : Session × Nat × List String) (p : RelPath) :
    (sfStep env t rootHist fmts first acc p).1 = (sealFile env.H rootHist acc.1 p (fileContent t p) fmts).1 := by
  unfold sfStep
  dsimp only
  split
  · split <;> rfl
  · rfl

theorem sfStep_fold_fst (env : Env) (t : Node) (rootHist : Hist) (fmts : List String) (first : String)
    (ps : List RelPath) (acc : Session × Nat × List String) :
    (ps.foldl (sfStep env t rootHist fmts first) acc).1 = sfFold env t rootHist fmts acc.1 ps := by
  induction ps generalizing acc with
  | nil => rfl
  | cons p ps ih =>
    rw [List.foldl_cons, ih, sfStep_fst]
    rfl

/-- the patterns of a `create` run -/
def sfPats (rootHist : Hist) (o : CreateOpts) : List String :=
  setPatterns (latestIgnore rootHist.gens) o.ignoreCli o.ignoreFile

/-- `createSingleFiles` with its pieces named -/
theorem createSingleFiles_eq (env : Env) (t : Node) (o : CreateOpts) (rootHist : Hist)
    (hl : loadHistory t = .ok rootHist) :
    createSingleFiles env t o =
      (let r := (sfTargets (env.hit (sfPats rootHist o)) t o.singleFiles).foldl
          (sfStep env t rootHist (isort strLe o.formats) ((isort strLe o.formats).headD ""))
          (({ patterns := sfPats rootHist o } : Session), 0, [])
       match commit rootHist r.1 env.rootName env.stamp "in-place" with
       | .error e => { err := some e }
       | .ok written =>
         { err := if r.2.1 > 0 then some errVerifyFailed else none,
           report := { mismatch := r.2.2 }, written := written }) := by
  unfold createSingleFiles
  simp only [hl]
  rfl

/-! ## B. `filesBelow` -/

/-- the files `filesBelow` lists are the files the traversal that starts at the folder yields -/
theorem mem_filesBelow (hit : RelPath → Bool) (t : Node) (d p : RelPath) :
    p ∈ filesBelow hit t d ↔ ∃ n, t.at? d = some n ∧ (p, false) ∈ visFrom hit d n := by
  unfold filesBelow
  cases h : t.at? d with
  | none => simp
  | some n =>
    simp only [visFrom, visitPaths, List.mem_flatMap, List.mem_filterMap, List.mem_map, Option.some.injEq,
      exists_eq_left']
    constructor
    · rintro ⟨v, hv, c, hc, hp⟩
      refine ⟨v, hv, c, hc, ?_⟩
      cases hc2 : c.2 with
      | true => simp [hc2] at hp
      | false => simp only [hc2, Bool.false_eq_true, if_false, Option.some.injEq] at hp; rw [hp]
    · rintro ⟨v, hv, c, hc, hp⟩
      obtain ⟨h1, h2⟩ := Prod.mk.inj hp
      exact ⟨v, hv, c, hc, by simp [h2, h1]⟩

/-- … that is: the files of the tree strictly below the folder, none of whose path prefixes LONGER than the folder's
own path is matched by the patterns (the patterns are matched against root-relative paths; the folder itself and the
folders above it are not tested) -/
theorem mem_filesBelow_iff (hit : RelPath → Bool) (t : Node) (hd : t.NamesDistinct) (d p : RelPath) :
    p ∈ filesBelow hit t d ↔
      ∃ n, t.at? d = some n ∧ ∃ q, q ≠ [] ∧ p = d ++ q ∧ (∃ c, t.at? p = some c ∧ c.isDir = false) ∧
        ∀ k, d.length < k → k ≤ p.length → hit (p.take k) = false := by
  rw [mem_filesBelow]
  constructor
  · rintro ⟨n, hn, hv⟩
    obtain ⟨hp, hk⟩ := (mem_visFrom_iff hit n d p false).1 hv
    obtain ⟨q, rfl, hq, -⟩ := Node.paths_shape n d p false hp
    obtain ⟨-, c, hc, hcd⟩ := (Node.mem_paths_iff_at n d q false (Node.NamesDistinct.at? t d n hd hn)).1 hp
    exact ⟨n, hn, q, hq, rfl, ⟨c, by rw [Node.at?_append, hn]; exact hc, hcd⟩, hk⟩
  · rintro ⟨n, hn, q, hq, rfl, ⟨c, hc, hcd⟩, hk⟩
    refine ⟨n, hn, (mem_visFrom_iff hit n d _ false).2 ⟨?_, hk⟩⟩
    rw [Node.at?_append, hn] at hc
    exact (Node.mem_paths_iff_at n d q false (Node.NamesDistinct.at? t d n hd hn)).2 ⟨hq, c, hc, hcd⟩

theorem filesBelow_nodup (hit : RelPath → Bool) (t : Node) (hd : t.NamesDistinct) (d : RelPath) :
    (filesBelow hit t d).Nodup := by
  unfold filesBelow
  cases h : t.at? d with
  | none => simp
  | some n =>
    have hnd := nodup_visFrom hit n d (Node.NamesDistinct.at? t d n hd h)
    simp only
    have : ((traverse hit d n).flatMap fun v =>
        v.children.filterMap fun c => if c.2 = true then none else some (v.folder ++ [c.1])) =
        (visFrom hit d n).filterMap fun x => if x.2 = true then none else some x.1 := by
      simp only [visFrom, visitPaths, List.filterMap_flatMap, List.filterMap_map]
      rfl
    rw [this]
    refine hnd.filterMap ?_
    intro a a' b hb hb'
    obtain ⟨a1, a2⟩ := a
    obtain ⟨b1, b2⟩ := a'
    cases a2 <;> cases b2 <;> simp_all

/-! ## C. the targets -/

theorem mem_sfTargetStep (hit : RelPath → Bool) (t : Node) (acc : List RelPath) (x p : RelPath) :
    p ∈ sfTargetStep hit t acc x ↔
      p ∈ acc ∨ (p = x ∧ ∀ n, t.at? x = some n → n.isDir = false) ∨
        ((∃ n, t.at? x = some n ∧ n.isDir = true) ∧ p ∈ filesBelow hit t x) := by
  unfold sfTargetStep
  split
  · next n cs h heq =>
    rw [mem_foldl_appendNew', heq]
    constructor
    · rintro (h1 | h1)
      · exact Or.inl h1
      · exact Or.inr (Or.inr ⟨⟨_, rfl, rfl⟩, h1⟩)
    · rintro (h1 | ⟨-, h1⟩ | ⟨-, h1⟩)
      · exact Or.inl h1
      · exact absurd (h1 _ rfl) (by simp [Node.isDir])
      · exact Or.inr h1
  · next hnd =>
    rw [mem_appendNew]
    have hfile : ∀ n, t.at? x = some n → n.isDir = false := by
      intro n hn
      cases n with
      | file nm c => rfl
      | dir nm cs h => exact absurd hn (hnd nm cs h)
    constructor
    · rintro (h1 | h1)
      · exact Or.inl h1
      · exact Or.inr (Or.inl ⟨h1, hfile⟩)
    · rintro (h1 | ⟨h1, -⟩ | ⟨⟨n, hn, hnd'⟩, -⟩)
      · exact Or.inl h1
      · exact Or.inr h1
      · rw [hfile n hn] at hnd'; cases hnd'

theorem sfTargetStep_nodup (hit : RelPath → Bool) (t : Node) (acc : List RelPath) (x : RelPath)
    (h : acc.Nodup) : (sfTargetStep hit t acc x).Nodup := by
  unfold sfTargetStep
  split
  · exact (foldl_appendNew_nodup _ _).2 h
  · exact nodup_appendNew _ _ h

theorem mem_sfTargets_fold (hit : RelPath → Bool) (t : Node) (named acc : List RelPath) (p : RelPath) :
    p ∈ named.foldl (sfTargetStep hit t) acc ↔
      p ∈ acc ∨ (p ∈ named ∧ ∀ n, t.at? p = some n → n.isDir = false) ∨
        ∃ d ∈ named, (∃ n, t.at? d = some n ∧ n.isDir = true) ∧ p ∈ filesBelow hit t d := by
  induction named generalizing acc with
  | nil => simp
  | cons x xs ih =>
    rw [List.foldl_cons, ih, mem_sfTargetStep]
    constructor
    · rintro ((h | ⟨rfl, h⟩ | ⟨h1, h2⟩) | ⟨h1, h2⟩ | ⟨d, hd, h⟩)
      · exact Or.inl h
      · exact Or.inr (Or.inl ⟨List.mem_cons_self, h⟩)
      · exact Or.inr (Or.inr ⟨x, List.mem_cons_self, h1, h2⟩)
      · exact Or.inr (Or.inl ⟨List.mem_cons_of_mem _ h1, h2⟩)
      · exact Or.inr (Or.inr ⟨d, List.mem_cons_of_mem _ hd, h⟩)
    · rintro (h | ⟨h1, h2⟩ | ⟨d, hd, h⟩)
      · exact Or.inl (Or.inl h)
      · rcases List.mem_cons.1 h1 with rfl | h1
        · exact Or.inl (Or.inr (Or.inl ⟨rfl, h2⟩))
        · exact Or.inr (Or.inl ⟨h1, h2⟩)
      · rcases List.mem_cons.1 hd with rfl | hd
        · exact Or.inl (Or.inr (Or.inr h))
        · exact Or.inr (Or.inr ⟨d, hd, h⟩)

theorem mem_sfTargets (hit : RelPath → Bool) (t : Node) (named : List RelPath) (p : RelPath) :
    p ∈ sfTargets hit t named ↔
      (p ∈ named ∧ ∀ n, t.at? p = some n → n.isDir = false) ∨
        ∃ d ∈ named, (∃ n, t.at? d = some n ∧ n.isDir = true) ∧ p ∈ filesBelow hit t d := by
  unfold sfTargets
  rw [mem_sfTargets_fold]
  simp

theorem sfTargets_nodup (hit : RelPath → Bool) (t : Node) (named : List RelPath) :
    (sfTargets hit t named).Nodup := by
  unfold sfTargets
  have : ∀ acc : List RelPath, acc.Nodup → (named.foldl (sfTargetStep hit t) acc).Nodup := by
    induction named with
    | nil => intro acc h; exact h
    | cons x xs ih => intro acc h; exact ih _ (sfTargetStep_nodup hit t acc x h)
  exact this [] (by simp)

/-! ## D. the session after the sealing fold -/

/-- the named paths are well-formed: a named path that does NOT resolve in the tree is made of names that can be path
components (no '/', not "."; for paths that resolve this follows from `Node.NamesOk`), and the root itself is only
named when it is a folder (the command is run on a folder; the model also admits a tree that is a single file) -/
def SfOk (t : Node) (named : List RelPath) : Prop :=
  (∀ p ∈ named, t.at? p = none → ∀ n ∈ p, NameOk n) ∧ ([] ∈ named → t.isDir = true)

/-- what a target is: not a folder of the tree; named, or strictly below the root -/
theorem sfTargets_shape (hit : RelPath → Bool) (t : Node) (hd : t.NamesDistinct) (named : List RelPath)
    (p : RelPath) (hp : p ∈ sfTargets hit t named) :
    (∀ n, t.at? p = some n → n.isDir = false) ∧ (p ∈ named ∨ (p ≠ [] ∧ ∃ c, t.at? p = some c)) := by
  rcases (mem_sfTargets hit t named p).1 hp with ⟨h1, h2⟩ | ⟨d, -, -, h⟩
  · exact ⟨h2, Or.inl h1⟩
  · obtain ⟨n, hn, q, hq, rfl, ⟨c, hc, hcd⟩, -⟩ := (mem_filesBelow_iff hit t hd d p).1 h
    refine ⟨?_, Or.inr ⟨by simp [hq], c, hc⟩⟩
    intro n' hn'
    rw [hc] at hn'
    cases hn'
    exact hcd

theorem sfTargets_itemsOk {t : Node} {g : Hist} (hg : HistOK t g) (hit : RelPath → Bool) (hd : t.NamesDistinct)
    (hn : t.NamesOk) (named : List RelPath) (hwf : SfOk t named) :
    ItemsOk g ((sfTargets hit t named).map fun p => (p, false)) := by
  refine ⟨?_, ?_, ?_⟩
  · rw [List.map_map]
    have : ((fun x : RelPath × Bool => x.1) ∘ fun p : RelPath => (p, false)) = id := rfl
    rw [this, List.map_id]
    exact sfTargets_nodup hit t named
  · intro x hx
    obtain ⟨p, hp, rfl⟩ := List.mem_map.1 hx
    obtain ⟨-, hsh⟩ := sfTargets_shape hit t hd named p hp
    cases hat : t.at? p with
    | some c => exact fun n hnm => hn n (Node.at?_names t p c hat n hnm)
    | none =>
      rcases hsh with h | ⟨-, c, hc⟩
      · exact hwf.1 p h hat
      · rw [hat] at hc; cases hc
  · intro p hp hrel
    obtain ⟨q, hq, hqp⟩ := List.mem_map.1 hp
    have hqe : q = p := congrArg Prod.fst hqp
    subst hqe
    obtain ⟨hfile, hsh⟩ := sfTargets_shape hit t hd named q hq
    obtain ⟨-, h0 | ⟨c, hc, hcr⟩⟩ := relOf_nil hg hrel
    · subst h0
      have := hfile t (Node.at?_nil' t)
      rcases hsh with h | ⟨h, -⟩
      · rw [hwf.2 h] at this; cases this
      · exact h rfl
    · obtain ⟨-, n, hn1, hn2⟩ := hg.isDir c hc
      rw [hcr] at hn1
      rw [hfile n hn1] at hn2
      cases hn2

theorem sfFold_cons (env : Env) (t : Node) (g : Hist) (fmts : List String) (s : Session) (p : RelPath)
    (ps : List RelPath) :
    sfFold env t g fmts s (p :: ps) =
      sfFold env t g fmts (sealFile env.H g s p (fileContent t p) fmts).1 ps := rfl

/-- the invariant of folder-mode `create` (`SInv`) holds along the sealing fold of `create -sf`, the visited items
being the targets (all of them files) -/
theorem sfFold_sinv {env : Env} {t : Node} {g : Hist} {fmts pats : List String} (hg : HistOK t g)
    (hfm : fmts ≠ []) (ps : List RelPath) : ∀ (s : Session) (L : List (RelPath × Bool)),
    SInv env t g fmts pats s L → ItemsOk g (L ++ ps.map fun p => (p, false)) →
      SInv env t g fmts pats (sfFold env t g fmts s ps) (L ++ ps.map fun p => (p, false)) := by
  induction ps with
  | nil => intro s L hs _; simpa [sfFold] using hs
  | cons p ps ih =>
    intro s L hs hok
    rw [sfFold_cons]
    have e : L ++ List.map (fun p => (p, false)) (p :: ps) =
        (L ++ [(p, false)]) ++ List.map (fun p => (p, false)) ps := by simp
    rw [e] at hok ⊢
    exact ih _ _ (sinv_file hg hfm hs hok.left) hok

/-- a list of the session belongs to the owner of a sealed file -/
theorem sfFold_roots {env : Env} {t : Node} {g : Hist} {fmts : List String} (hfm : fmts ≠ [])
    (ps : List RelPath) : ∀ (s : Session), ∀ R ∈ (sfFold env t g fmts s ps).roots,
      R ∈ s.roots ∨ ∃ p ∈ ps, R = ownerOf g p := by
  induction ps with
  | nil => intro s R hR; exact Or.inl hR
  | cons p ps ih =>
    intro s R hR
    rw [sfFold_cons] at hR
    rcases ih _ R hR with h | ⟨q, hq, h⟩
    · have hne := sealEntries_ne_nil (route g p).1.gens (posix (relOf g p)) (fun f => env.H f (fileContent t p))
        fmts hfm
      rw [sealFile_addTo env.H g s p (fileContent t p) fmts hne, Session.mem_addTo_roots] at h
      rcases h with h | h
      · exact Or.inl h
      · exact Or.inr ⟨p, List.mem_cons_self, h⟩
    · exact Or.inr ⟨q, List.mem_cons_of_mem _ hq, h⟩

/-- the session `create -sf` commits, for a loaded history and well-formed named paths -/
theorem sfFold_final {env : Env} {t : Node} {g : Hist} {fmts : List String} (pats : List String) (hg : HistOK t g)
    (hfm : fmts ≠ []) (hit : RelPath → Bool) (hd : t.NamesDistinct) (hn : t.NamesOk) (named : List RelPath)
    (hwf : SfOk t named) :
    ItemsOk g ((sfTargets hit t named).map fun p => (p, false)) ∧
    SInv env t g fmts pats (sfFold env t g fmts { patterns := pats } (sfTargets hit t named))
      ((sfTargets hit t named).map fun p => (p, false)) := by
  have hok := sfTargets_itemsOk hg hit hd hn named hwf
  refine ⟨hok, ?_⟩
  have h0 : SInv env t g fmts pats { patterns := pats } [] :=
    sessInv_empty env t g fmts pats ⟨by simp, by simp, by simp⟩
  have := sfFold_sinv (env := env) hg hfm (sfTargets hit t named) _ [] h0 (by simpa using hok)
  simpa using this

/-! ## E. no directory records, whatever is named -/

/-- every record of every list is a file record -/
def Session.FilesOnly (s : Session) : Prop := ∀ l ∈ s.lists, ∀ r ∈ l.records, r.isDir = false

theorem Session.FilesOnly.get {s : Session} (h : s.FilesOnly) (R : RelPath) :
    ∀ r ∈ (s.get R).records, r.isDir = false := by
  unfold Session.get
  cases hf : s.lists.find? (fun l => l.root == R) with
  | none => intro r hr; simp at hr
  | some l => exact h l (List.mem_of_find?_eq_some hf)

theorem Session.FilesOnly.touch {s : Session} (h : s.FilesOnly) (R : RelPath) : (s.touch R).FilesOnly := by
  unfold Session.touch
  split
  · exact h
  · intro l hl r hr
    rcases List.mem_append.1 hl with hl | hl
    · exact h l hl r hr
    · simp only [List.mem_singleton] at hl
      subst hl
      simp at hr

theorem Session.FilesOnly.put {s : Session} (h : s.FilesOnly) (nl : NewList)
    (hnl : ∀ r ∈ nl.records, r.isDir = false) : (s.put nl).FilesOnly := by
  unfold Session.put
  split
  · intro l hl r hr
    obtain ⟨l0, hl0, rfl⟩ := List.mem_map.1 hl
    split at hr
    · exact hnl r hr
    · exact h l0 hl0 r hr
  · intro l hl r hr
    rcases List.mem_append.1 hl with hl | hl
    · exact h l hl r hr
    · simp only [List.mem_singleton] at hl
      subst hl
      exact hnl r hr

theorem NewList.update_filesOnly (nl : NewList) (p : String) (sz : Option Nat) (f : Record → Record)
    (hf : ∀ r, (f r).isDir = r.isDir) (h : ∀ r ∈ nl.records, r.isDir = false) :
    ∀ r ∈ (nl.update p sz f).records, r.isDir = false := by
  unfold NewList.update
  split
  · exact h
  · split
    · intro r hr
      obtain ⟨r0, hr0, rfl⟩ := List.mem_map.1 hr
      split
      · rw [hf]; exact h r0 hr0
      · exact h r0 hr0
    · intro r hr
      rcases List.mem_append.1 hr with hr | hr
      · exact h r hr
      · simp only [List.mem_singleton] at hr
        subst hr
        rw [hf]

theorem sealFile_filesOnly (H : HashFn) (g : Hist) (s : Session) (file : RelPath) (c : Bytes) (fmts : List String)
    (h : s.FilesOnly) : (sealFile H g s file c fmts).1.FilesOnly := by
  unfold sealFile
  generalize route g file = x
  obtain ⟨hh, hrel⟩ := x
  dsimp only
  generalize sealEntries hh.gens (posix hrel) (fun f => H f c) fmts = se
  obtain ⟨ents, res⟩ := se
  dsimp only
  split
  · exact h
  · exact (h.touch _).put _ (NewList.update_filesOnly _ _ _ _ (fun _ => rfl) ((h.touch _).get _))

theorem sfFold_filesOnly (env : Env) (t : Node) (g : Hist) (fmts : List String) (ps : List RelPath) :
    ∀ s : Session, s.FilesOnly → (sfFold env t g fmts s ps).FilesOnly := by
  induction ps with
  | nil => intro s h; exact h
  | cons p ps ih => intro s h; rw [sfFold_cons]; exact ih _ (sealFile_filesOnly _ _ _ _ _ _ h)

/-! ## F. the commit, for any session -/

/-- every written generation holds the finalised records and the root record of its history's list -/
theorem commit_records {g : Hist} {s : Session} {rn stamp process : String} {cb : Option String}
    {ws : List Written} (hcm : commit g s rn stamp process cb = .ok ws) {w : Written} (hw : w ∈ ws) :
    ∃ h ∈ walkPost g, w.histRoot = h.root ∧ w.gen.records = (s.get h.root).records.map finalRec ∧
      w.gen.rootHash = ((s.get h.root).rootRec.bind fun r => if r.entries.isEmpty then none else some r.entries) := by
  obtain ⟨h, hh, refs, hwr⟩ := (commit_written _ _ _ _ _ _ hcm).2 w hw
  exact ⟨h, hh, writeOne_records _ _ _ _ _ _ _ _ _ hwr⟩

/-- a history is written iff it or one of its (transitive) child histories has a list in the session -/
theorem commit_written_tree_iff {t : Node} {g : Hist} (hg : HistOK t g) (s : Session) (rn stamp process : String)
    (cb : Option String) {ws : List Written} (hcm : commit g s rn stamp process cb = .ok ws) (h : Hist) :
    h ∈ g.all → ((∃ w ∈ ws, w.histRoot = h.root) ↔ ∃ x ∈ h.all, x.root ∈ s.roots) := by
  induction h using Hist.induct with
  | mk r gg c e cs ih =>
    intro hh
    rw [commit_written_iff hg s rn stamp process cb hcm _ ((mem_walkPost g _).2 hh)]
    have hkid : ∀ k ∈ cs, k ∈ g.all := fun k hk =>
      List.mem_cons_of_mem _ (child_of_mem_all (x := .mk r gg c e cs) hh hk)
    constructor
    · rintro (h1 | ⟨k, hk, hw⟩)
      · exact ⟨_, Hist.self_mem_all _, h1⟩
      · obtain ⟨x, hx, hxr⟩ := (ih k hk (hkid k hk)).1 hw
        refine ⟨x, ?_, hxr⟩
        rw [Hist.all_eq]
        exact List.mem_cons_of_mem _ (List.mem_flatMap.2 ⟨k, hk, hx⟩)
    · rintro ⟨x, hx, hxr⟩
      rw [Hist.all_eq] at hx
      rcases List.mem_cons.1 hx with rfl | hx
      · exact Or.inl hxr
      · obtain ⟨k, hk, hxk⟩ := List.mem_flatMap.1 hx
        exact Or.inr ⟨k, hk, (ih k hk (hkid k hk)).2 ⟨x, hxk, hxr⟩⟩

/-- in a loaded history, a history whose root folder lies at or below the root folder of another one is that one
or one of its transitive children -/
theorem mem_all_of_prefix {t : Node} {g : Hist} (hg : HistOK t g) : ∀ (n : Nat) (y : Hist), y.root.length = n →
    y ∈ g.all → ∀ x ∈ g.all, x.root <+: y.root → y ∈ x.all := by
  intro n
  induction n using Nat.strongRecOn with
  | ind n ih =>
    intro y hy hyg x hxg hpre
    by_cases heq : x.root = y.root
    · rw [mem_all_root_inj hg.nodup hxg hyg heq]; exact y.self_mem_all
    · have hlt : x.root.length < y.root.length := by
        rcases Nat.lt_or_ge x.root.length y.root.length with h | h
        · exact h
        · exact absurd (List.IsPrefix.eq_of_length_le hpre h) heq
      have hyd : y ∈ allDescendants g := by
        rcases List.mem_cons.1 hyg with rfl | h
        · rw [hg.root] at hlt; simp at hlt
        · exact h
      obtain ⟨z, hz, hyz⟩ := allDescendants_has_parent g y hyd
      obtain ⟨hzp, hzl⟩ := hg.child z hz y hyz
      by_cases hle : x.root.length ≤ z.root.length
      · have h1 : x.root <+: z.root := List.prefix_of_prefix_length_le hpre hzp hle
        have h2 := ih z.root.length (by omega) z rfl hz x hxg h1
        exact all_trans x h2 (List.mem_cons_of_mem _ (child_mem_allDescendants hyz))
      · exfalso
        have h1 : z.root <+: x.root := List.prefix_of_prefix_length_le hzp hpre (by omega)
        have h2 := ih x.root.length (by omega) x rfl hxg z hz h1
        have hxd : x ∈ allDescendants z := by
          rcases List.mem_cons.1 h2 with h | h
          · rw [h] at hle; exact absurd (Nat.le_refl _) hle
          · exact h
        rw [allDescendants_eq, List.mem_flatMap] at hxd
        obtain ⟨k, hk, hxk⟩ := hxd
        have hkg : k ∈ g.all := List.mem_cons_of_mem _ (child_of_mem_all hz hk)
        have hkx : k.root <+: x.root :=
          all_root_prefix k (fun y' hy' c hc => (hg.child y' (all_trans g hkg hy') c hc).1) x hxk
        have hky : k.root <+: y.root := hkx.trans hpre
        by_cases hkeq : k.root = y.root
        · have := (hkeq ▸ hkx).length_le
          omega
        · rcases pairwise_either (hg.order z hz) k.root (List.mem_map_of_mem hk) y.root (List.mem_map_of_mem hyz)
            hkeq with h | h
          · exact h.not_prefix.1 hky
          · exact h.not_prefix.2 hky

/-! ## G. what is recorded for one file -/

theorem existingFormats_fresh (gens : List LGen) (p : String) (h : ∀ g ∈ gens, g.gen.find p = none) :
    existingFormats gens p = [] := by
  unfold existingFormats
  have : ∀ acc : List String, gens.foldl (existingStep p) acc = acc := by
    induction gens with
    | nil => intro acc; rfl
    | cons g gs ih =>
      intro acc
      rw [List.foldl_cons]
      have hg : existingStep p acc g = acc := by
        unfold existingStep
        rw [h g List.mem_cons_self]
      rw [hg]
      exact ih (fun g' hg' => h g' (List.mem_cons_of_mem _ hg')) acc
  exact this []

theorem findOriginal_fresh (gens : List LGen) (p : String) (h : ∀ g ∈ gens, g.gen.find p = none) :
    findOriginal gens p = none := by
  unfold findOriginal
  rw [List.findSome?_eq_none_iff]
  intro g hg
  rw [h g hg]

/-- a file that has no record in any generation of its history: one `original` entry per requested format
(duplicates among the requested formats skipped), each with the digest of the content -/
theorem sealEntries_fresh (gens : List LGen) (p : String) (dig : String → String) (req : List String)
    (h : ∀ g ∈ gens, g.gen.find p = none) :
    (sealEntries gens p dig req).1 =
      (req.foldl appendNew []).map fun f => ({ fmt := f, digest := dig f, action := "original" } : Entry) := by
  have hact : ∀ f, decideAction gens p f (dig f) = "original" := by
    intro f
    unfold decideAction
    rw [findOriginal_fresh gens p h]
  unfold sealEntries
  simp only [existingFormats_fresh gens p h, List.filter_nil, List.map_nil, List.all_nil, if_true, List.nil_append,
    hact]
  have hb : baseFormats [] req = [] := by simp [baseFormats]
  unfold formatsToGenerate
  rw [hb]
  congr 1
  rw [List.filter_eq_self]
  intro f _
  simp

/-- the entries as written (`new` relabelled, any order) of a file against the generations of its history: every
digest is the digest of the current content; with an `original` on record an entry in an already recorded format is
`verified` iff the digest equals the FIRST recorded one and `failed` otherwise (C04 `verified_iff_equal_first`), an
entry in a format new for the file is `verified` and is only there when nothing failed (C04 `new_format_gated`);
when nothing failed every requested format is there; an unaltered file (C04 `FirstOk`) never fails -/
theorem written_entries_spec (gens : List LGen) (p : String) (dig : String → String) (req : List String)
    (E : List Entry) (hE : E.Perm ((sealEntries gens p dig req).1.map relabel)) :
    (∀ e ∈ E, e.digest = dig e.fmt) ∧
    (∀ o0, findOriginal gens p = some o0 →
      (∀ e ∈ E, ∀ e1, findFirstOfFormat gens p e.fmt = some e1 →
        (e.action = "verified" ↔ dig e.fmt = e1.digest) ∧ (e.action = "failed" ↔ dig e.fmt ≠ e1.digest)) ∧
      (∀ e ∈ E, findFirstOfFormat gens p e.fmt = none →
        e.action = "verified" ∧ ∀ e' ∈ E, e'.action ≠ "failed")) ∧
    ((∀ e ∈ E, e.action ≠ "failed") → ∀ f ∈ req, ∃ e ∈ E, e.fmt = f) ∧
    (MhlProps.C04.FirstOk dig gens p → ∀ e ∈ E, e.action ≠ "failed") := by
  have hmem : ∀ e, e ∈ E ↔ ∃ e0 ∈ (sealEntries gens p dig req).1, relabel e0 = e := by
    intro e; rw [hE.mem_iff, List.mem_map]
  have hsh : ∀ e0 ∈ (sealEntries gens p dig req).1,
      e0.digest = dig e0.fmt ∧ e0.action = decideAction gens p e0.fmt (dig e0.fmt) := by
    obtain ⟨ents1, ents2, heq, h1, h2, -⟩ := MhlProps.C04.sealEntries_shape gens p dig req
    rw [heq]
    intro e0 he0
    rcases List.mem_append.1 he0 with h' | h'
    · exact ⟨(h1 e0 h').2.1, by rw [(h1 e0 h').2.2, (h1 e0 h').2.1]⟩
    · exact ⟨(h2 e0 h').2.1, by rw [(h2 e0 h').2.2, (h2 e0 h').2.1]⟩
  have hfail : (∃ e ∈ E, e.action = "failed") → ∃ e0 ∈ (sealEntries gens p dig req).1, e0.action = "failed" := by
    rintro ⟨e, he, hf⟩
    obtain ⟨e0, he0, rfl⟩ := (hmem e).1 he
    exact ⟨e0, he0, (relabel_failed e0).1 hf⟩
  refine ⟨?_, ?_, ?_, ?_⟩
  · intro e he
    obtain ⟨e0, he0, rfl⟩ := (hmem e).1 he
    rw [relabel_digest, relabel_fmt]
    exact (hsh e0 he0).1
  · intro o0 ho
    constructor
    · intro e he e1 he1
      obtain ⟨e0, he0, rfl⟩ := (hmem e).1 he
      rw [relabel_fmt] at he1 ⊢
      obtain ⟨hv, hf⟩ := MhlProps.C04.verified_iff_equal_first gens p e0.fmt (dig e0.fmt) o0 e1 ho he1
      rw [← (hsh e0 he0).2] at hv hf
      have hnn : e0.action ≠ "new" := by
        intro hn
        by_cases hd : dig e0.fmt = e1.digest
        · rw [hv.2 hd] at hn; exact absurd hn (by decide)
        · rw [hf.2 hd] at hn; exact absurd hn (by decide)
      have hre : relabel e0 = e0 := by
        unfold relabel
        rw [if_neg (by simpa using hnn)]
      rw [hre]
      exact ⟨hv, hf⟩
    · intro e he hnone
      obtain ⟨e0, he0, rfl⟩ := (hmem e).1 he
      rw [relabel_fmt] at hnone
      have hnew : e0.action = "new" := by
        rw [(hsh e0 he0).2]
        exact MhlProps.C04.new_format_action gens p e0.fmt _ o0 ho hnone
      refine ⟨by unfold relabel; simp [hnew], ?_⟩
      intro e' he' hf'
      have := MhlProps.C04.new_format_gated gens p dig req (hfail ⟨e', he', hf'⟩) e0 he0
      exact (findFirstOfFormat_none_iff gens p e0.fmt).1 hnone this
  · intro hnf f hf
    have hnf0 : ∀ e0 ∈ (sealEntries gens p dig req).1, e0.action ≠ "failed" := by
      intro e0 he0 hf0
      exact hnf (relabel e0) ((hmem _).2 ⟨e0, he0, rfl⟩) ((relabel_failed e0).2 hf0)
    obtain ⟨e0, he0, hfmt⟩ := sealEntries_requested gens p dig req hnf0 f hf
    exact ⟨relabel e0, (hmem _).2 ⟨e0, he0, rfl⟩, by rw [relabel_fmt, hfmt]⟩
  · intro hok e he hf
    obtain ⟨e0, he0, hf0⟩ := hfail ⟨e, he, hf⟩
    exact MhlProps.C04.unaltered_no_failed dig gens p req hok e0 he0 hf0

/-- at most one entry per format -/
theorem sealEntries_fmts_nodup (gens : List LGen) (p : String) (dig : String → String) (req : List String) :
    ((sealEntries gens p dig req).1.map (·.fmt)).Nodup := by
  have hex := existingFormats_nodup gens p
  have hbase : (baseFormats (existingFormats gens p) req).Nodup := by
    unfold baseFormats
    dsimp only
    split
    · exact (List.take_sublist _ _).nodup hex
    · exact hex.filter _
  have htg : (formatsToGenerate (existingFormats gens p) req).Nodup := by
    unfold formatsToGenerate
    exact (foldl_appendNew_nodup req _).2 hbase
  unfold sealEntries
  dsimp only
  rw [List.map_append, List.nodup_append]
  refine ⟨?_, ?_, ?_⟩
  · rw [List.map_map]
    exact (hex.filter _).map_on (fun a _ b _ h => h)
  · split
    · rw [List.map_map]
      exact (htg.filter _).map_on (fun a _ b _ h => h)
    · simp
  · intro a ha b hb hab
    simp only [List.map_map, List.mem_map, List.mem_filter, Function.comp] at ha
    obtain ⟨f, ⟨hf, -⟩, rfl⟩ := ha
    split at hb
    · simp only [List.map_map, List.mem_map, List.mem_filter, Function.comp] at hb
      obtain ⟨f', ⟨-, hf'⟩, rfl⟩ := hb
      have hab' : f = f' := hab
      subst hab'
      simp [hf] at hf'
    · simp at hb

theorem written_fmts_nodup (gens : List LGen) (p : String) (dig : String → String) (req : List String)
    (E : List Entry) (hE : E.Perm ((sealEntries gens p dig req).1.map relabel)) : (E.map (·.fmt)).Nodup := by
  rw [(hE.map (·.fmt)).nodup_iff, List.map_map]
  have : ((·.fmt) ∘ relabel) = fun e : Entry => e.fmt := by
    funext e; exact relabel_fmt e
  rw [this]
  exact sealEntries_fmts_nodup gens p dig req

/-- the entries of a written file record are sorted by format name -/
theorem finalRec_sorted (r : Record) (hr : r.isDir = false) :
    (finalRec r).entries.Pairwise fun a b => strLe a.fmt b.fmt = true := by
  unfold finalRec
  rw [if_neg (by simp [hr])]
  exact isort_key_sorted (fun e : Entry => e.fmt) _

end MhlModel
