/- C4 text codec: decode ∘ encode, length, alphabet (C01). -/
import MhlProps.Proofs.CodecLemmas

namespace MhlModel.Codec

theorem alphabet_length : c4Alphabet.length = 58 := by decide +kernel
theorem alphabet_nodup : c4Alphabet.Nodup := by decide +kernel

/-- `charset.index(charset[d]) = d` for every digit, checked on the extracted alphabet -/
theorem c4Index_getD : ∀ d, d < 58 → c4Index (c4Alphabet.getD d '?') = some d := by
  decide +kernel

theorem c4Index_zero : c4Index c4ZeroChar = some 0 := by decide +kernel

theorem capacity : (2:Nat) ^ 512 < 58 ^ 88 := by
  set_option exponentiation.threshold 600 in decide +kernel

theorem bytes64 : (256:Nat) ^ 64 = 2 ^ 512 := by
  set_option exponentiation.threshold 600 in decide +kernel

theorem foldl_c4Step_digits (ds : List Nat) (r : Nat) (h : ∀ d ∈ ds, d < 58) :
    (ds.map fun d => c4Alphabet.getD d '?').foldl c4Step (some r)
      = some (ds.foldl (fun r d => r * 58 + d) r) := by
  induction ds generalizing r with
  | nil => simp
  | cons d ds ih =>
    have hd : d < 58 := h d (by simp)
    simp only [List.map_cons, List.foldl_cons]
    have : c4Step (some r) (c4Alphabet.getD d '?') = some (r * 58 + d) := by
      unfold c4Step; rw [c4Index_getD d hd]; rfl
    rw [this]
    exact ih _ (fun x hx => h x (by simp [hx]))

theorem foldl_c4Step_zeros (k : Nat) (r : Nat) :
    (List.replicate k c4ZeroChar).foldl c4Step (some r) = some (r * 58 ^ k) := by
  induction k generalizing r with
  | zero => simp
  | succ k ih =>
    simp only [List.replicate_succ, List.foldl_cons]
    have : c4Step (some r) c4ZeroChar = some (r * 58) := by
      unfold c4Step; rw [c4Index_zero]; rfl
    rw [this, ih]; congr 1; rw [Nat.pow_succ]; ac_rfl

theorem digits_length_le (n : Nat) (h : n < 2 ^ 512) : (digits 58 n).length ≤ 88 := by
  have h' : n < 58 ^ 88 := Nat.lt_trans h capacity
  simpa [digits] using digitsRev_length_le 58 (by omega) n 88 h'

theorem c4EncodeNat_length (n : Nat) (h : n < 2 ^ 512) : (c4EncodeNat n).length = 90 := by
  have := digits_length_le n h
  simp [c4EncodeNat, rjust, Gen.c4Prefix, Gen.c4EncLength, Gen.c4PrefixLen, Gen.c4EncBase]
  omega

theorem c4DecodeNat_encode (n : Nat) (h : n < 2 ^ 512) : c4DecodeNat (c4EncodeNat n) = some n := by
  have hlen := c4EncodeNat_length n h
  have hd := digits_length_le n h
  unfold c4DecodeNat
  rw [if_neg (by simp [hlen, Gen.c4DecLength])]
  have htake : (c4EncodeNat n).take Gen.c4DecLength = c4EncodeNat n := by
    apply List.take_of_length_le; simp [hlen, Gen.c4DecLength]
  rw [htake]
  have hdrop : (c4EncodeNat n).drop Gen.c4DecStart
      = List.replicate (88 - (digits 58 n).length) c4ZeroChar
          ++ (digits 58 n).map fun d => c4Alphabet.getD d '?' := by
    simp [c4EncodeNat, rjust, Gen.c4Prefix, Gen.c4EncLength, Gen.c4PrefixLen, Gen.c4EncBase, Gen.c4DecStart]
  rw [hdrop, List.foldl_append]
  rw [foldl_c4Step_zeros (88 - (digits 58 n).length) 0]
  simp only [Nat.zero_mul]
  rw [foldl_c4Step_digits _ _ (digits_lt 58 n)]
  have := decode_digits 58 (by omega) n
  simpa [decodeDigits] using this

end MhlModel.Codec
