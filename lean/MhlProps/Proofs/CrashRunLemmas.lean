/-
Helper lemmas for `MhlProps/CrashRun.lean`: `evOps` and `readsAfter` over appended / mapped event lists.
-/
import MhlModel.CrashRun

namespace MhlProps.CrashRunLemmas
open MhlModel.Crash

@[simp] theorem evOps_nil : evOps [] = [] := rfl
@[simp] theorem evOps_read (p : String) (evs : List Ev) : evOps (.read p :: evs) = evOps evs := rfl
@[simp] theorem evOps_fs (op : Op) (evs : List Ev) : evOps (.fs op :: evs) = op :: evOps evs := rfl

theorem evOps_append (a b : List Ev) : evOps (a ++ b) = evOps a ++ evOps b := by
  induction a with
  | nil => rfl
  | cons e a ih => cases e <;> simp [ih]

@[simp] theorem evOps_map_read (l : List String) : evOps (l.map .read) = [] := by
  induction l with
  | nil => rfl
  | cons p l ih => simpa using ih

@[simp] theorem evOps_map_fs (l : List Op) : evOps (l.map .fs) = l := by
  induction l with
  | nil => rfl
  | cons p l ih => simpa using ih

/-- `evOps` of a prefix is a prefix of `evOps` -/
theorem evOps_take_prefix (evs : List Ev) (k : Nat) : evOps (evs.take k) <+: evOps evs := by
  conv => rhs; rw [← List.take_append_drop k evs, evOps_append]
  exact List.prefix_append _ _

theorem any_isRead_map_fs (l : List Op) : (l.map Ev.fs).any Ev.isRead = false := by
  induction l with
  | nil => rfl
  | cons p l ih => simp [Ev.isRead]

theorem any_isRead_map_read (l : List String) : (l.map Ev.read).any Ev.isRead = !l.isEmpty := by
  cases l <;> simp [Ev.isRead]

theorem any_isRead_drop_map_fs (l : List Op) (k : Nat) : ((l.map Ev.fs).drop k).any Ev.isRead = false := by
  rw [← List.map_drop]; exact any_isRead_map_fs _

theorem readsAfter_append (a b : List Ev) (k : Nat) :
    readsAfter (a ++ b) k = (readsAfter a k || readsAfter b (k - a.length)) := by
  simp [readsAfter, List.drop_append]

theorem readsAfter_map_fs (l : List Op) (k : Nat) : readsAfter (l.map Ev.fs) k = false :=
  any_isRead_drop_map_fs l k

theorem readsAfter_map_read (l : List String) (k : Nat) :
    readsAfter (l.map Ev.read) k = true ↔ k < l.length := by
  unfold readsAfter
  rw [← List.map_drop, any_isRead_map_read]
  cases h : l.drop k with
  | nil =>
    have := List.drop_eq_nil_iff.1 h
    simp; omega
  | cons x t =>
    have h1 : l.drop k ≠ [] := by rw [h]; simp
    have h2 : ¬ l.length ≤ k := fun hle => h1 (List.drop_eq_nil_iff.2 hle)
    simp; omega

end MhlProps.CrashRunLemmas
