/-
Helper lemmas for C05e2e: the three kinds of damage to an `ascmhl` folder as tree operations (`tamperGen`,
`removeGen`, `removeChain`), what they do to the fault of a store (`storeFault`), to the faults of a tree
(`allFaults`), and what a successful command can never return.
-/
import MhlProps.C06seq
import MhlProps.Proofs.NestedLemmas
import MhlProps.Proofs.PermLemmas

namespace MhlModel
open MhlProps

/-! ## A. the damage, as operations on a store and on a tree -/

/-- set the state of the `k`-th stored manifest (0-based, in stored order) to `st`; nothing else changes, in
particular neither the file names nor the chain -/
def markGens (st : FileState) : Nat → List Generation → List Generation
  | _, [] => []
  | 0, g :: gs => { g with state := st } :: gs
  | k + 1, g :: gs => g :: markGens st k gs

def HistStore.mark (s : HistStore) (k : Nat) (st : FileState) : HistStore :=
  { s with gens := markGens st k s.gens }

/-- the chain file is deleted (the manifests stay) -/
def HistStore.dropChain (s : HistStore) : HistStore := { s with chainPresent := false }

/-- apply `g` to the content of the node's `ascmhl` folder, if it has one -/
def Node.mapStore (g : HistStore → HistStore) : Node → Node
  | .dir nm cs (some s) => .dir nm cs (some (g s))
  | x => x

/-- damage of the `ascmhl` folder of the folder at path `r` (`r = []`: the root history) -/
def damageAt (g : HistStore → HistStore) (t : Node) (r : RelPath) : Node := Node.updateAt (Node.mapStore g) t r

/-- the bytes of the `k`-th stored manifest of the history at `r` no longer are what the chain says -/
def tamperGen (t : Node) (r : RelPath) (k : Nat) : Node := damageAt (·.mark k .modified) t r

/-- the `k`-th stored manifest of the history at `r` is deleted from disk: as the driver's `tamper` operation does
it, the chain entry stays and the file is marked missing -/
def removeGen (t : Node) (r : RelPath) (k : Nat) : Node := damageAt (·.mark k .missing) t r

/-- the chain file of the history at `r` is deleted -/
def removeChain (t : Node) (r : RelPath) : Node := damageAt HistStore.dropChain t r

/-- what is wrong with one manifest -/
def stateFault : FileState → Option Err
  | .ok => none
  | .modified => some errModified
  | .missing => some errMissingManifest

def genFault (g : Generation) : Option Err := stateFault g.state

/-- the driver's `tamper` operation: by file name -/
def markByName (st : FileState) (file : String) (gs : List Generation) : List Generation :=
  gs.map fun g => if g.fileName == file then { g with state := st } else g

/-! ### `markGens` -/

theorem markGens_length (st : FileState) : ∀ (k : Nat) (gs : List Generation),
    (markGens st k gs).length = gs.length
  | k, [] => by cases k <;> rfl
  | 0, _ :: _ => rfl
  | k + 1, _ :: gs => by simp [markGens, markGens_length st k gs]

theorem markGens_names (st : FileState) : ∀ (k : Nat) (gs : List Generation),
    (markGens st k gs).map (·.fileName) = gs.map (·.fileName)
  | k, [] => by cases k <;> rfl
  | 0, _ :: _ => rfl
  | k + 1, _ :: gs => by simp [markGens, markGens_names st k gs]

theorem markGens_eq_modify (st : FileState) : ∀ (k : Nat) (gs : List Generation),
    markGens st k gs = gs.modify k (fun g => { g with state := st })
  | _, [] => by simp [markGens]
  | 0, _ :: _ => by simp [markGens]
  | k + 1, _ :: gs => by simp [markGens, markGens_eq_modify st k gs]

theorem markGens_getElem? (st : FileState) : ∀ (k : Nat) (gs : List Generation) (i : Nat),
    (markGens st k gs)[i]? = if i = k then gs[i]?.map (fun g => { g with state := st }) else gs[i]?
  | _, [], _ => by simp [markGens]
  | 0, _ :: _, 0 => by simp [markGens]
  | 0, _ :: _, i + 1 => by simp [markGens]
  | k + 1, _ :: _, 0 => by simp [markGens]
  | k + 1, _ :: gs, i + 1 => by simp [markGens, markGens_getElem? st k gs i]

theorem markGens_of_le (st : FileState) : ∀ (k : Nat) (gs : List Generation), gs.length ≤ k →
    markGens st k gs = gs
  | k, [], _ => by cases k <;> rfl
  | 0, _ :: _, h => by simp at h
  | k + 1, _ :: gs, h => by
    simp only [markGens, List.cons.injEq, true_and]
    exact markGens_of_le st k gs (by simpa using h)

/-- with pairwise different file names (as in a folder on disk) marking the `k`-th manifest is the driver's
`tamper` operation on its file name -/
theorem markGens_eq_markByName (st : FileState) : ∀ (k : Nat) (gs : List Generation) (g : Generation),
    (gs.map (·.fileName)).Nodup → gs[k]? = some g → markGens st k gs = markByName st g.fileName gs
  | _, [], _, _, h => by simp at h
  | 0, x :: gs, g, hnd, h => by
    simp only [List.getElem?_cons_zero, Option.some.injEq] at h
    subst h
    simp only [List.map_cons, List.nodup_cons, List.mem_map, not_exists, not_and] at hnd
    simp only [markGens, markByName, List.map_cons, beq_self_eq_true, if_true, List.cons.injEq, true_and]
    symm
    rw [List.map_congr_left (g := id)]
    · simp
    · intro y hy
      have : (y.fileName == x.fileName) = false := beq_false_of_ne (hnd.1 y hy)
      simp [this]
  | k + 1, x :: gs, g, hnd, h => by
    simp only [List.getElem?_cons_succ] at h
    simp only [List.map_cons, List.nodup_cons, List.mem_map, not_exists, not_and] at hnd
    have hne : x.fileName ≠ g.fileName := fun he => hnd.1 g (List.mem_of_getElem? h) he.symm
    have ih := markGens_eq_markByName st k gs g hnd.2 h
    simp only [markByName] at ih
    simp [markGens, markByName, hne, ih]

/-! ## B. the fault of a store whose chain lists its manifests one by one -/

theorem find?_name_of_nodup : ∀ (gs : List Generation) (g : Generation), (gs.map (·.fileName)).Nodup → g ∈ gs →
    gs.find? (fun x => x.fileName == g.fileName) = some g
  | [], _, _, h => by cases h
  | x :: gs, g, hnd, h => by
    simp only [List.map_cons, List.nodup_cons, List.mem_map, not_exists, not_and] at hnd
    rcases List.mem_cons.1 h with rfl | h
    · simp
    · have : (x.fileName == g.fileName) = false := beq_false_of_ne (fun he => hnd.1 g h he.symm)
      rw [List.find?_cons, this]
      exact find?_name_of_nodup gs g hnd.2 h

theorem entryFault_of_resolve (s : HistStore) (e : ChainEntry) (g : Generation) (h : resolve s e = some g) :
    entryFault s e = genFault g := by
  unfold entryFault genFault
  rw [h]
  cases hs : g.state <;> simp [stateFault, hs]

theorem entryFault_of_mem (s : HistStore) (hnd : (s.gens.map (·.fileName)).Nodup) (g : Generation)
    (hg : g ∈ s.gens) (i : Nat) : entryFault s ⟨i, g.fileName⟩ = genFault g :=
  entryFault_of_resolve s _ g (find?_name_of_nodup s.gens g hnd hg)

theorem chainFrom_findSome (s : HistStore) (hnd : (s.gens.map (·.fileName)).Nodup) :
    ∀ (l : List Generation) (k0 : Nat), (∀ g ∈ l, g ∈ s.gens) →
      (chainFrom k0 l).findSome? (entryFault s) = l.findSome? genFault
  | [], _, _ => rfl
  | g :: l, k0, h => by
    rw [chainFrom, List.findSome?_cons, List.findSome?_cons, entryFault_of_mem s hnd g (h g (by simp)),
      chainFrom_findSome s hnd l (k0 + 1) (fun x hx => h x (by simp [hx]))]

theorem chainFrom_congr : ∀ (a b : List Generation) (k0 : Nat), a.map (·.fileName) = b.map (·.fileName) →
    chainFrom k0 a = chainFrom k0 b
  | [], [], _, _ => rfl
  | [], _ :: _, _, h => by simp at h
  | _ :: _, [], _, h => by simp at h
  | x :: a, y :: b, k0, h => by
    simp only [List.map_cons, List.cons.injEq] at h
    simp only [chainFrom, h.1, chainFrom_congr a b (k0 + 1) h.2]

/-- THE FAULT OF A STORE IN RUN SHAPE.  The chain lists the stored manifests one by one (as after any run of
creates), the file names are pairwise different: without the chain file the fault is 32 whatever else is wrong;
with it, the fault is that of the FIRST manifest in stored (= chain = generation number) order that is not intact -/
theorem storeFault_listed (gs' : List Generation) (k0 : Nat) (b : Bool) (hnd : (gs'.map (·.fileName)).Nodup) :
    storeFault (some { gens := gs', chain := chainFrom k0 gs', chainPresent := b }) =
      if b then gs'.findSome? genFault else some errNoChain := by
  cases b with
  | false => rfl
  | true =>
    simp only [storeFault, Bool.not_true, Bool.false_eq_true, if_false, if_true]
    exact chainFrom_findSome _ hnd gs' k0 (fun g hg => hg)

/-- the first element with a fault decides -/
theorem findSome?_first {α β : Type} (f : α → Option β) (l : List α) (i : Nat) (a : α) (x : β)
    (hi : l[i]? = some a) (hx : f a = some x) (hlt : ∀ j < i, ∀ a', l[j]? = some a' → f a' = none) :
    l.findSome? f = some x := by
  induction l generalizing i with
  | nil => simp at hi
  | cons y ys ih =>
    rw [List.findSome?_cons]
    cases i with
    | zero =>
      simp only [List.getElem?_cons_zero, Option.some.injEq] at hi
      subst hi; rw [hx]
    | succ i =>
      rw [hlt 0 (by omega) y (by simp)]
      exact ih i (by simpa using hi) (fun j hj a' ha' => hlt (j + 1) (by omega) a' (by simpa using ha'))

theorem findSome?_none_of_all {α β : Type} (f : α → Option β) (l : List α) (h : ∀ a ∈ l, f a = none) :
    l.findSome? f = none := by
  rw [List.findSome?_eq_none_iff]; exact h

theorem stateFault_ne_ok (st : FileState) (h : st ≠ .ok) :
    stateFault st = some (if st = .modified then errModified else errMissingManifest) := by
  cases st
  · exact absurd rfl h
  · rfl
  · rfl

/-- one damaged manifest among intact ones -/
theorem findSome?_markGens (st : FileState) (k : Nat) (gs : List Generation) (hk : k < gs.length)
    (hok : ∀ g ∈ gs, g.state = .ok) : (markGens st k gs).findSome? genFault = stateFault st := by
  cases hst : stateFault st with
  | none =>
    apply findSome?_none_of_all
    intro a ha
    obtain ⟨i, hi, rfl⟩ := List.mem_iff_getElem.1 ha
    have := markGens_getElem? st k gs i
    rw [List.getElem?_eq_getElem hi] at this
    rw [markGens_length] at hi
    rw [List.getElem?_eq_getElem hi] at this
    split at this
    · simp only [Option.map_some, Option.some.injEq] at this
      rw [this]; exact hst
    · simp only [Option.some.injEq] at this
      rw [this]; unfold genFault; rw [hok _ (List.getElem_mem hi)]; rfl
  | some x =>
    refine findSome?_first genFault _ k { gs[k] with state := st } x ?_ hst ?_
    · rw [markGens_getElem?, if_pos rfl, List.getElem?_eq_getElem hk]; rfl
    · intro j hj a' ha'
      rw [markGens_getElem?, if_neg (by omega)] at ha'
      unfold genFault; rw [hok a' (List.mem_of_getElem? ha')]; rfl

/-- one damaged manifest, the ones before it intact (the later ones may be damaged too) -/
theorem findSome?_markGens_low (st : FileState) (hst : st ≠ .ok) (k : Nat) (l : List Generation)
    (hk : k < l.length) (hlow : ∀ j < k, ∀ g, l[j]? = some g → g.state = .ok) :
    (markGens st k l).findSome? genFault = stateFault st := by
  obtain ⟨x, hx⟩ : ∃ x, stateFault st = some x := ⟨_, stateFault_ne_ok st hst⟩
  rw [hx]
  refine findSome?_first genFault _ k { l[k] with state := st } x ?_ hx ?_
  · rw [markGens_getElem?, if_pos rfl, List.getElem?_eq_getElem hk]; rfl
  · intro j hj a' ha'
    rw [markGens_getElem?, if_neg (by omega)] at ha'
    unfold genFault; rw [hlow j hj a' ha']; rfl

/-- damaging two different manifests: the order of the two operations does not matter -/
theorem markGens_comm (s1 s2 : FileState) (k1 k2 : Nat) (h : k1 ≠ k2) (l : List Generation) :
    markGens s2 k2 (markGens s1 k1 l) = markGens s1 k1 (markGens s2 k2 l) := by
  apply List.ext_getElem?
  intro i
  simp only [markGens_getElem?]
  by_cases h1 : i = k1 <;> by_cases h2 : i = k2
  · exact absurd (h1.symm.trans h2) h
  · subst h1; simp [h]
  · subst h2; simp [Ne.symm h]
  · simp [h1, h2]

/-- two damaged manifests j < k among intact ones: the lower one decides -/
theorem findSome?_markGens_two (s1 s2 : FileState) (hs1 : s1 ≠ .ok) (j k : Nat) (hjk : j < k)
    (gs : List Generation) (hk : k < gs.length) (hok : ∀ g ∈ gs, g.state = .ok) :
    (markGens s1 j (markGens s2 k gs)).findSome? genFault = stateFault s1 := by
  apply findSome?_markGens_low s1 hs1 j _ (by rw [markGens_length]; omega)
  intro i hi g hg
  rw [markGens_getElem?, if_neg (by omega)] at hg
  exact hok g (List.mem_of_getElem? hg)

/-! ## C. the fault of an arbitrary store after one manifest was damaged -/

theorem find?_markGens_ne (st : FileState) (nm : String) : ∀ (k : Nat) (gs : List Generation) (g : Generation),
    gs[k]? = some g → g.fileName ≠ nm →
    (markGens st k gs).find? (fun x => x.fileName == nm) = gs.find? (fun x => x.fileName == nm)
  | _, [], _, h, _ => by simp at h
  | 0, x :: gs, g, h, hne => by
    simp only [List.getElem?_cons_zero, Option.some.injEq] at h
    subst h
    have : (x.fileName == nm) = false := beq_false_of_ne hne
    simp [markGens, this]
  | k + 1, x :: gs, g, h, hne => by
    simp only [List.getElem?_cons_succ] at h
    simp only [markGens, List.find?_cons]
    cases x.fileName == nm
    · exact find?_markGens_ne st nm k gs g h hne
    · rfl

theorem find?_markGens_eq (st : FileState) : ∀ (k : Nat) (gs : List Generation) (g : Generation),
    gs[k]? = some g → (∀ j < k, ∀ g', gs[j]? = some g' → g'.fileName ≠ g.fileName) →
    (markGens st k gs).find? (fun x => x.fileName == g.fileName) = some { g with state := st }
  | _, [], _, h, _ => by simp at h
  | 0, x :: gs, g, h, _ => by
    simp only [List.getElem?_cons_zero, Option.some.injEq] at h
    subst h
    simp [markGens]
  | k + 1, x :: gs, g, h, hfirst => by
    simp only [List.getElem?_cons_succ] at h
    have : (x.fileName == g.fileName) = false := beq_false_of_ne (hfirst 0 (by omega) x (by simp))
    simp only [markGens, List.find?_cons, this]
    exact find?_markGens_eq st k gs g h (fun j hj g' hg' => hfirst (j + 1) (by omega) g' (by simpa using hg'))

/-- A store that passes its checks; its `k`-th stored manifest `g` is listed in the chain and is the first stored
manifest of that name (so the chain entry means THIS file).  After the state of that manifest is set to `st`
(modified or missing) the store's fault is that of `st`. -/
theorem storeFault_mark (s : HistStore) (hs : storeFault (some s) = none) (k : Nat) (g : Generation)
    (hk : s.gens[k]? = some g) (hchained : ∃ e ∈ s.chain, e.fileName = g.fileName)
    (hfirst : ∀ j < k, ∀ g', s.gens[j]? = some g' → g'.fileName ≠ g.fileName) (st : FileState) (hst : st ≠ .ok) :
    storeFault (some (s.mark k st)) = stateFault st := by
  have hcp : s.chainPresent = true := by
    cases hc : s.chainPresent with
    | true => rfl
    | false => simp [storeFault, hc] at hs
  have hclean : ∀ p ∈ s.chain, entryFault s p = none := by
    simp only [storeFault, hcp, Bool.not_true, Bool.false_eq_true, if_false] at hs
    exact List.findSome?_eq_none_iff.1 hs
  show (if !s.chainPresent then some errNoChain else s.chain.findSome? (entryFault (s.mark k st))) = _
  simp only [hcp, Bool.not_true, Bool.false_eq_true, if_false]
  have hsame : ∀ p : ChainEntry, p.fileName ≠ g.fileName → entryFault (s.mark k st) p = entryFault s p := by
    intro p hp
    unfold entryFault resolve
    show (match (markGens st k s.gens).find? _ with | some g => _ | none => _) = _
    rw [find?_markGens_ne st p.fileName k s.gens g hk (fun h => hp h.symm)]
    rfl
  have hhit : ∀ p : ChainEntry, p.fileName = g.fileName → entryFault (s.mark k st) p = stateFault st := by
    intro p hp
    rw [entryFault_of_resolve _ p { g with state := st }]
    · rfl
    · unfold resolve
      rw [hp]
      exact find?_markGens_eq st k s.gens g hk hfirst
  obtain ⟨x, hx⟩ : ∃ x, stateFault st = some x := ⟨_, stateFault_ne_ok st hst⟩
  rw [hx]
  have key : ∀ l : List ChainEntry, (∀ p ∈ l, entryFault s p = none) → (∃ e ∈ l, e.fileName = g.fileName) →
      l.findSome? (entryFault (s.mark k st)) = some x := by
    intro l
    induction l with
    | nil => rintro _ ⟨e, he, _⟩; cases he
    | cons p ps ih =>
      intro hcl hex
      rw [List.findSome?_cons]
      by_cases hp : p.fileName = g.fileName
      · rw [hhit p hp, hx]
      · rw [hsame p hp, hcl p (by simp)]
        apply ih (fun q hq => hcl q (by simp [hq]))
        obtain ⟨e, he, hen⟩ := hex
        rcases List.mem_cons.1 he with rfl | he
        · exact absurd hen hp
        · exact ⟨e, he, hen⟩
  exact key s.chain hclean hchained

theorem storeFault_dropChain (s : HistStore) : storeFault (some s.dropChain) = some errNoChain := rfl

/-! ## D. the faults of a tree after the store of one folder was damaged -/

theorem mapStore_name (g : HistStore → HistStore) (x : Node) : (Node.mapStore g x).name = x.name := by
  unfold Node.mapStore; split <;> rfl

theorem mapStore_hist (g : HistStore → HistStore) (x : Node) : (Node.mapStore g x).hist = x.hist.map g := by
  unfold Node.mapStore; split
  · rfl
  · next hne =>
    cases x with
    | file _ _ => rfl
    | dir nm cs h =>
      cases h with
      | none => rfl
      | some s => exact absurd rfl (hne nm cs s)

theorem mapStore_nestedFaults (g : HistStore → HistStore) (x : Node) :
    nestedFaults (Node.mapStore g x) = nestedFaults x := by
  unfold Node.mapStore; split
  · rw [nestedFaults, nestedFaults]
  · rfl

theorem updateAt_nil (f : Node → Node) (t : Node) : Node.updateAt f t [] = f t := by
  cases t <;> rw [Node.updateAt]

theorem damageAt_nil (g : HistStore → HistStore) (t : Node) : damageAt g t [] = Node.mapStore g t :=
  updateAt_nil _ t

theorem updateKids_of_ne (f : Node → Node) (n : String) (rest : RelPath) :
    ∀ cs : List Node, (∀ c ∈ cs, c.name ≠ n) → Node.updateKids f n rest cs = cs
  | [], _ => by rw [Node.updateKids]
  | c :: cs, h => by
    rw [Node.updateKids, updateKids_of_ne f n rest cs (fun x hx => h x (by simp [hx]))]
    have : (c.name == n) = false := beq_false_of_ne (h c (by simp))
    simp [this]

/-- with distinct sibling names exactly one child is replaced -/
theorem updateKids_split (f : Node → Node) (n : String) (rest : RelPath) :
    ∀ (cs : List Node) (c : Node), (cs.map Node.name).Nodup → findChild cs n = some c →
      ∃ pre post, cs = pre ++ c :: post ∧ Node.updateKids f n rest cs = pre ++ Node.updateAt f c rest :: post
  | [], _, _, h => by simp [findChild] at h
  | x :: cs, c, hnd, h => by
    simp only [List.map_cons, List.nodup_cons, List.mem_map, not_exists, not_and] at hnd
    unfold findChild at h
    rw [List.find?_cons] at h
    cases hx : x.name == n with
    | true =>
      rw [hx] at h
      cases h
      have hxn : x.name = n := by simpa using hx
      refine ⟨[], cs, rfl, ?_⟩
      rw [Node.updateKids, hx, updateKids_of_ne f n rest cs (fun y hy he => hnd.1 y hy (he.trans hxn.symm))]
      rfl
    | false =>
      rw [hx] at h
      obtain ⟨pre, post, h1, h2⟩ := updateKids_split f n rest cs c hnd.2 h
      refine ⟨x :: pre, post, by rw [h1]; rfl, ?_⟩
      rw [Node.updateKids, hx, h2]
      rfl

theorem allFaults_eq (t : Node) : allFaults t = (storeFault t.hist).toList ++ nestedFaults t := rfl

/-- a tree without faults: every child of the root is without faults -/
theorem allFaults_nil_kids (nm : String) (cs : List Node) (h : Option HistStore)
    (hnil : allFaults (.dir nm cs h) = []) : storeFault h = none ∧ ∀ c ∈ cs, allFaults c = [] := by
  rw [allFaults_eq, List.append_eq_nil_iff] at hnil
  obtain ⟨h1, h2⟩ := hnil
  refine ⟨by cases hs : storeFault h <;> simp_all [Node.hist], ?_⟩
  intro c hc
  rw [nestedFaults, List.flatMap_eq_nil_iff] at h2
  have := h2 (c.name, allFaults c) ((mem_isort_d _ _ _).2 (by
    rw [nestedFaultsList_eq_map]; exact List.mem_map.2 ⟨c, hc, rfl⟩))
  exact this

/-- … and so is every folder of it -/
theorem allFaults_nil_at : ∀ (r : RelPath) (t d : Node), allFaults t = [] → t.at? r = some d → allFaults d = []
  | [], t, d, hnil, hat => by
    rw [Node.at?_nil'] at hat; cases hat; exact hnil
  | n :: rest, .file _ _, d, _, hat => by simp [Node.at?] at hat
  | n :: rest, .dir nm cs h, d, hnil, hat => by
    rw [Node.at?_dir_cons] at hat
    cases hc : findChild cs n with
    | none => rw [hc] at hat; cases hat
    | some c =>
      rw [hc] at hat
      have hmem : c ∈ cs := List.mem_of_find?_eq_some hc
      exact allFaults_nil_at rest c d ((allFaults_nil_kids nm cs h hnil).2 c hmem) hat

/-- sibling names are pairwise distinct in every folder ALONG the path `r` (all that `Node.updateAt` and `Node.at?`
need to agree on which child is meant) -/
def Node.DistinctAlong : Node → RelPath → Prop
  | _, [] => True
  | .file _ _, _ :: _ => True
  | .dir _ cs _, n :: rest => (cs.map Node.name).Nodup ∧ ∀ c ∈ cs, c.name = n → Node.DistinctAlong c rest

theorem Node.NamesDistinct.distinctAlong : ∀ (r : RelPath) (t : Node), t.NamesDistinct → t.DistinctAlong r
  | [], t, _ => by cases t <;> trivial
  | _ :: _, .file _ _, _ => trivial
  | n :: rest, .dir nm cs h, hd => by
    rw [Node.namesDistinct_dir] at hd
    exact ⟨hd.1, fun c hc _ => Node.NamesDistinct.distinctAlong rest c (hd.2 c hc)⟩

theorem findChild_name {cs : List Node} {n : String} {c : Node} (h : findChild cs n = some c) : c.name = n := by
  have := List.find?_some h
  simpa using this

/-- THE FAULTS AFTER DAMAGE AT ONE FOLDER.  A tree without any fault (it loads) with distinct sibling names along
the path `r`; the folder at path `r` (any depth, `[]` = the root) holds the store `s`; `g` damages it so that its
fault is `x`.  Then `x` is the one and only fault of the tree. -/
theorem allFaults_damageAt (g : HistStore → HistStore) (x : Err) : ∀ (r : RelPath) (t d : Node) (s : HistStore),
    t.DistinctAlong r → allFaults t = [] → t.at? r = some d → d.hist = some s →
    storeFault (some (g s)) = some x → allFaults (damageAt g t r) = [x]
  | [], t, d, s, _, hnil, hat, hs, hx => by
    rw [Node.at?_nil'] at hat; cases hat
    rw [damageAt_nil, allFaults_eq, mapStore_hist, mapStore_nestedFaults, hs, Option.map_some, hx]
    rw [allFaults_eq, List.append_eq_nil_iff] at hnil
    rw [hnil.2]; rfl
  | n :: rest, .file _ _, d, s, _, _, hat, _, _ => by simp [Node.at?] at hat
  | n :: rest, .dir nm cs h, d, s, hd, hnil, hat, hs, hx => by
    rw [Node.at?_dir_cons] at hat
    cases hc : findChild cs n with
    | none => rw [hc] at hat; cases hat
    | some c =>
      rw [hc] at hat
      obtain ⟨hroot, hkids⟩ := allFaults_nil_kids nm cs h hnil
      have hmem : c ∈ cs := List.mem_of_find?_eq_some hc
      have ih := allFaults_damageAt g x rest c d s (hd.2 c hmem (findChild_name hc)) (hkids c hmem) hat hs hx
      obtain ⟨pre, post, hsplit, hupd⟩ := updateKids_split (Node.mapStore g) n rest cs c hd.1 hc
      unfold damageAt at ih ⊢
      rw [updateAt_dir_cons, hupd, allFaults_eq]
      simp only [Node.hist, hroot, Option.toList, List.nil_append]
      rw [nestedFaults, nestedFaultsList_append, nestedFaultsList, flatMap_isort_single]
      · exact ih
      · intro y hy
        rw [nestedFaultsList_eq_map] at hy
        obtain ⟨c', hc', rfl⟩ := List.mem_map.1 hy
        exact hkids c' (by rw [hsplit]; simp [hc'])
      · intro y hy
        rw [nestedFaultsList_eq_map] at hy
        obtain ⟨c', hc', rfl⟩ := List.mem_map.1 hy
        exact hkids c' (by rw [hsplit]; simp [hc'])

/-- a folder whose sub-folders hold no `ascmhl` folder: loading fails exactly with the fault of its own store -/
theorem loadHistory_flat_err (nm : String) (cs : List Node) (hcs : noHistList cs = true) (o : Option HistStore) :
    exceptErr (loadHistory (.dir nm cs o)) = storeFault o := by
  rw [loadHistory_err, allFaults_eq]
  have : nestedFaults (.dir nm cs o) = [] := by
    rw [nestedFaults]
    exact flatMap_isort_nil _ (nestedFaultsList_noHist cs hcs)
  rw [this, List.append_nil]
  show (storeFault o).toList.head? = storeFault o
  cases storeFault o <;> rfl

/-- the content of the `ascmhl` folder of the folder at path `r` -/
def storeAt (t : Node) (r : RelPath) : Option HistStore := (t.at? r).bind Node.hist

theorem storeAt_eq_some (t : Node) (r : RelPath) (s : HistStore) :
    storeAt t r = some s ↔ ∃ d, t.at? r = some d ∧ d.hist = some s := by
  unfold storeAt
  cases t.at? r <;> simp

theorem storeAt_nil (t : Node) : storeAt t [] = t.hist := by
  unfold storeAt; rw [Node.at?_nil']; rfl

/-- a fault of the root's own store is what loading reports, whatever is below -/
theorem loadHistory_of_root_fault (t : Node) (x : Err) (h : storeFault t.hist = some x) :
    loadHistory t = .error x := by
  rw [← exceptErr_eq_some, loadHistory_err, allFaults_eq, h]; rfl

theorem damageAt_nil_hist (g : HistStore → HistStore) (t : Node) : (damageAt g t []).hist = t.hist.map g := by
  rw [damageAt_nil, mapStore_hist]

theorem nodup_map_getElem?_inj {α β : Type} (f : α → β) (l : List α) (hnd : (l.map f).Nodup) (i j : Nat) (a b : α)
    (hi : l[i]? = some a) (hj : l[j]? = some b) (hab : f a = f b) : i = j := by
  obtain ⟨hi', rfl⟩ := List.getElem?_eq_some_iff.1 hi
  obtain ⟨hj', rfl⟩ := List.getElem?_eq_some_iff.1 hj
  have := (List.Nodup.getElem_inj_iff hnd (i := i) (j := j) (hi := by simpa using hi') (hj := by simpa using hj')).1
    (by simpa using hab)
  exact this

/-! ## E. every loaded nested history is the store of a folder of the tree -/

/-- the histories `hs` found at or below the node `c` (whose path is `P`) and all their descendants are the loaded
stores of folders of `c` -/
def StoresAt (c : Node) (P : RelPath) (hs : List Hist) : Prop :=
  ∀ x ∈ descList hs, ∃ q d s, x.root = P ++ q ∧ c.at? q = some d ∧ d.hist = some s ∧
    x.gens = loadGens s ∧ x.chain = s.chain

theorem forall₂_right_mem {α β : Type} {R : α → β → Prop} {l₁ : List α} {l₂ : List β}
    (h : List.Forall₂ R l₁ l₂) : ∀ b ∈ l₂, ∃ a ∈ l₁, R a b := by
  induction h with
  | nil => intro b hb; cases hb
  | cons hab _ ih =>
    intro b hb
    rcases List.mem_cons.1 hb with rfl | hb
    · exact ⟨_, List.mem_cons_self, hab⟩
    · obtain ⟨a, ha, hr⟩ := ih b hb
      exact ⟨a, List.mem_cons_of_mem _ ha, hr⟩

theorem mem_descList_flatten {Ls : List (List Hist)} {x : Hist} (h : x ∈ descList Ls.flatten) :
    ∃ b ∈ Ls, x ∈ descList b := by
  rw [descList_eq, List.mem_flatMap] at h
  obtain ⟨k, hk, hx⟩ := h
  obtain ⟨b, hb, hkb⟩ := List.mem_flatten.1 hk
  exact ⟨b, hb, by rw [descList_eq, List.mem_flatMap]; exact ⟨k, hkb, hx⟩⟩

mutual
theorem findChildren_stores : (t : Node) → (here : RelPath) → t.NamesDistinct → ∀ hs,
    findChildren here t = .ok hs → StoresAt t here hs
  | .file _ _, here, _, hs, h => by
    simp only [findChildren, pure, Except.pure, Except.ok.injEq] at h
    subst h
    intro x hx; simp [descList] at hx
  | .dir n cs st, here, hd, hs, h => by
    rw [Node.namesDistinct_dir] at hd
    have ihl := findChildrenList_stores cs here ((Node.namesDistinctKids_iff cs).2 hd.2)
    rw [findChildren] at h
    cases hm : (isort (fun (a b : String × Except Err (List Hist)) => strLe a.1 b.1)
        (findChildrenList here cs)).mapM (fun (x : String × Except Err (List Hist)) => x.2) with
    | error e => rw [hm] at h; cases h
    | ok Ls =>
      rw [hm] at h
      simp only [Except.map, Except.ok.injEq] at h
      subst h
      have hF := mapM_ok_forall₂ _ _ _ hm
      intro x hx
      obtain ⟨b, hb, hxb⟩ := mem_descList_flatten hx
      obtain ⟨a, ha, hab⟩ := forall₂_right_mem hF b hb
      obtain ⟨c, hc, hac, hst⟩ := ihl a ((mem_isort _ _ _).1 ha)
      obtain ⟨q, d, s, hroot, hat, hs, hg, hch⟩ := hst b hab x hxb
      refine ⟨c.name :: q, d, s, by rw [hroot]; simp, ?_, hs, hg, hch⟩
      rw [Node.at?_dir_cons, findChild_of_mem hd.1 hc]
      exact hat
theorem findChildrenList_stores : (cs : List Node) → (here : RelPath) → Node.NamesDistinctKids cs →
    ∀ x ∈ findChildrenList here cs, ∃ c ∈ cs, x.1 = c.name ∧ ∀ hs, x.2 = .ok hs → StoresAt c (here ++ [c.name]) hs
  | [], _, _ => by simp [findChildrenList]
  | c :: cs, here, hd => by
    rw [Node.NamesDistinctKids] at hd
    have ih1 := findChildren_stores c (here ++ [c.name]) hd.1
    have ih2 := findChildrenList_stores cs here hd.2
    intro x hx
    rw [findChildrenList, List.mem_cons] at hx
    rcases hx with rfl | hx
    · refine ⟨c, List.mem_cons_self, rfl, ?_⟩
      intro hs hok
      simp only at hok
      cases hh : c.hist with
      | none =>
        rw [hh] at hok
        exact ih1 hs hok
      | some s =>
        rw [hh] at hok
        simp only at hok
        cases hcs : checkStore (some s) with
        | error e => simp [hcs, bind, Except.bind] at hok
        | ok u =>
          cases hk : findChildren (here ++ [c.name]) c with
          | error e => simp [hcs, hk, bind, Except.bind] at hok
          | ok kids =>
            simp only [hcs, hk, bind, Except.bind, pure, Except.pure, Except.ok.injEq] at hok
            subst hok
            have hdl : descList [buildHist (here ++ [c.name]) (some s) kids] =
                buildHist (here ++ [c.name]) (some s) kids :: descList kids := by
              simp [descList, buildHist_desc]
            intro x hx
            rw [hdl] at hx
            rcases List.mem_cons.1 hx with rfl | hx
            · exact ⟨[], c, s, by simp [buildHist_root], Node.at?_nil' c, hh, rfl, rfl⟩
            · exact ih1 kids hk x hx
    · obtain ⟨c', hc', h1, h2⟩ := ih2 x hx
      exact ⟨c', List.mem_cons_of_mem _ hc', h1, h2⟩
end

/-- every nested history of a loaded history is the loaded store of the folder at its root path -/
theorem loadHistory_stores (t : Node) (h : Hist) (hl : loadHistory t = .ok h) (hd : t.NamesDistinct) :
    ∀ c ∈ allDescendants h, ∃ d s, t.at? c.root = some d ∧ d.hist = some s ∧ c.gens = loadGens s ∧
      c.chain = s.chain := by
  obtain ⟨kids, hk, rfl⟩ := loadHistory_ok_eq t h hl
  intro c hc
  rw [buildHist_desc] at hc
  obtain ⟨q, d, s, hroot, hat, hs, hg, hch⟩ := findChildren_stores t [] hd kids hk c hc
  rw [List.nil_append] at hroot
  exact ⟨d, s, by rw [hroot]; exact hat, hs, hg, hch⟩

/-! ## E'. damage that loading cannot see: manifests the chain does not list -/

/-- two stores between which `load_from_path` cannot tell the difference: same outcome of the chain check, same
loaded generations, same chain -/
def StoreEquiv (s s' : HistStore) : Prop :=
  checkStore (some s') = checkStore (some s) ∧ loadGens s' = loadGens s ∧ s'.chain = s.chain

theorem childPair_mapStore (g : HistStore → HistStore) (here : RelPath) (c : Node) (s : HistStore)
    (hs : c.hist = some s) (he : StoreEquiv s (g s)) : childPair here (Node.mapStore g c) = childPair here c := by
  cases c with
  | file _ _ => cases hs
  | dir nm cs h =>
    simp only [Node.hist] at hs
    subst hs
    obtain ⟨h1, h2, h3⟩ := he
    show childPair here (.dir nm cs (some (g s))) = childPair here (.dir nm cs (some s))
    unfold childPair
    simp only [Node.hist, Node.name, h1, buildHist, h2, h3]
    rw [findChildren_dir, findChildren_dir]

/-- the walk for nested histories does not see a change of a store BELOW the folder it starts from that loading
cannot tell from the original -/
theorem findChildren_damageAt (g : HistStore → HistStore) : ∀ (r : RelPath) (t d : Node) (s : HistStore)
    (here : RelPath), r ≠ [] → t.DistinctAlong r → t.at? r = some d → d.hist = some s → StoreEquiv s (g s) →
    findChildren here (damageAt g t r) = findChildren here t
  | [], _, _, _, _, hne, _, _, _, _ => absurd rfl hne
  | n :: rest, .file _ _, d, s, _, _, _, hat, _, _ => by simp [Node.at?] at hat
  | n :: rest, .dir nm cs h, d, s, here, _, hd, hat, hs, he => by
    rw [Node.at?_dir_cons] at hat
    cases hc : findChild cs n with
    | none => rw [hc] at hat; cases hat
    | some c =>
      rw [hc] at hat
      have hat : c.at? rest = some d := hat
      have hmem : c ∈ cs := List.mem_of_find?_eq_some hc
      obtain ⟨pre, post, hsplit, hupd⟩ := updateKids_split (Node.mapStore g) n rest cs c hd.1 hc
      unfold damageAt
      rw [updateAt_dir_cons, hupd, findChildren_dir, findChildren_dir, hsplit]
      have hpair : childPair here (Node.updateAt (Node.mapStore g) c rest) = childPair here c := by
        cases rest with
        | nil =>
          rw [Node.at?_nil'] at hat
          have hcd : c = d := Option.some.inj hat
          subst hcd
          rw [updateAt_nil]
          exact childPair_mapStore g here c s hs he
        | cons n' rest' =>
          cases c with
          | file _ _ => simp [Node.at?] at hat
          | dir cn ccs ch =>
            have ih := findChildren_damageAt g (n' :: rest') (.dir cn ccs ch) d s (here ++ [cn]) (by simp)
              (hd.2 _ hmem (findChild_name hc)) hat hs he
            unfold damageAt at ih
            rw [updateAt_dir_cons] at ih ⊢
            unfold childPair
            simp only [Node.hist, Node.name, ih]
      simp only [List.map_append, List.map_cons, hpair]

/-- LOADING CANNOT SEE IT.  The folder at path `r` (any depth; `[]` = the root) holds the store `s`, sibling names
distinct along `r`; `g` changes the store into one that passes the same chain check, loads the same generations and
has the same chain.  Then the tree loads exactly as before (the same history, or the same error). -/
theorem loadHistory_damageAt_equiv (g : HistStore → HistStore) (r : RelPath) (t : Node) (s : HistStore)
    (hd : t.DistinctAlong r) (hs : storeAt t r = some s) (he : StoreEquiv s (g s)) :
    loadHistory (damageAt g t r) = loadHistory t := by
  obtain ⟨d, hat, hds⟩ := (storeAt_eq_some t r s).1 hs
  cases r with
  | nil =>
    rw [Node.at?_nil'] at hat
    cases hat
    cases t with
    | file _ _ => cases hds
    | dir nm cs h =>
      simp only [Node.hist] at hds
      subst hds
      rw [damageAt_nil]
      exact MhlProps.C06.loadHistory_congr_store nm cs s (g s) he.1 he.2.1 he.2.2
  | cons n rest =>
    cases t with
    | file _ _ => simp [Node.at?] at hat
    | dir nm cs h =>
      have hf := findChildren_damageAt g (n :: rest) (.dir nm cs h) d s [] (by simp) hd hat hds he
      unfold damageAt at hf ⊢
      rw [updateAt_dir_cons] at hf ⊢
      unfold loadHistory
      simp only [Node.hist, hf]

theorem filter_markGens_of_false (p : String → Bool) (st : FileState) : ∀ (k : Nat) (gs : List Generation)
    (g : Generation), gs[k]? = some g → p g.fileName = false →
    (markGens st k gs).filter (fun x => p x.fileName) = gs.filter (fun x => p x.fileName)
  | _, [], _, h, _ => by simp at h
  | 0, x :: gs, g, h, hp => by
    simp only [List.getElem?_cons_zero, Option.some.injEq] at h
    subst h
    simp [markGens, hp]
  | k + 1, x :: gs, g, h, hp => by
    simp only [List.getElem?_cons_succ] at h
    simp only [markGens, List.filter_cons, filter_markGens_of_false p st k gs g h hp]

/-- a store and the store without the manifests its chain does not list load alike -/
theorem storeEquiv_dropUnlisted (s : HistStore) : StoreEquiv s (MhlProps.C06.dropUnlisted s) :=
  ⟨MhlProps.C06.checkStore_dropUnlisted s, (MhlProps.C06.loadGens_listed_only s).2.2.symm, rfl⟩

theorem storeEquiv_of_dropUnlisted_eq (s s' : HistStore)
    (h : MhlProps.C06.dropUnlisted s' = MhlProps.C06.dropUnlisted s) : StoreEquiv s s' := by
  refine ⟨?_, ?_, ?_⟩
  · rw [← MhlProps.C06.checkStore_dropUnlisted s', h, MhlProps.C06.checkStore_dropUnlisted]
  · rw [(MhlProps.C06.loadGens_listed_only s').2.2, h, ← (MhlProps.C06.loadGens_listed_only s).2.2]
  · have := congrArg HistStore.chain h
    exact this

/-- setting the state of a manifest that the chain does not list changes nothing that loading looks at -/
theorem storeEquiv_mark_unlisted (s : HistStore) (k : Nat) (g : Generation) (hk : s.gens[k]? = some g)
    (hun : s.lists g.fileName = false) (st : FileState) : StoreEquiv s (s.mark k st) := by
  apply storeEquiv_of_dropUnlisted_eq
  show HistStore.mk ((markGens st k s.gens).filter fun x => s.lists x.fileName) s.chain s.chainPresent = _
  rw [filter_markGens_of_false s.lists st k s.gens g hk hun]
  rfl

/-! ## F. how a command ends when the history loads -/

/-- the three errors of a damaged history -/
def ChainErr (e : Err) : Prop := e = errModified ∨ e = errMissingManifest ∨ e = errNoChain

theorem validateRecord_error (r : Record) (e : Err) (h : validateRecord r = .error e) :
    e = .internal "AssertionError" := by
  unfold validateRecord at h
  split at h
  · dsimp only at h
    split at h
    · cases h; rfl
    · split at h
      · cases h; rfl
      · cases h
  · cases h

theorem mapM_error_mem {ε α β : Type} (f : α → Except ε β) (l : List α) (e : ε) (h : l.mapM f = .error e) :
    ∃ a ∈ l, f a = .error e := by
  have := exceptErr_mapM f l
  rw [h] at this
  simp only [exceptErr_error] at this
  obtain ⟨a, ha, hfa⟩ := List.exists_of_findSome?_eq_some this.symm
  exact ⟨a, ha, (exceptErr_eq_some _ _).1 hfa⟩

theorem writeOne_error (rootHist : Hist) (s : Session) (rn stamp process : String) (cb : Option String) (h : Hist)
    (refs : List Written) (e : Err) (he : writeOne rootHist s rn stamp process cb h refs = .error e) :
    e = .internal "AssertionError" := by
  unfold writeOne at he
  cases hm : (s.get h.root).records.mapM validateRecord with
  | error e' =>
    simp only [hm, bind, Except.bind] at he
    cases he
    obtain ⟨r, -, hr⟩ := mapM_error_mem _ _ _ hm
    exact validateRecord_error r _ hr
  | ok rs => simp [hm, bind, Except.bind, pure, Except.pure] at he

theorem commitStep_error (rootHist : Hist) (s : Session) (rn stamp process : String) (cb : Option String)
    (written : List Written) (h : Hist) (e : Err)
    (he : commitStep rootHist s rn stamp process cb written h = .error e) : e = .internal "AssertionError" := by
  unfold commitStep at he
  simp only at he
  split at he
  · cases he
  · cases hw : writeOne rootHist s rn stamp process cb h
        (written.filter fun w => parentRoot rootHist w.histRoot == some h.root) with
    | error e' =>
      simp only [hw, bind, Except.bind] at he
      cases he
      exact writeOne_error _ _ _ _ _ _ _ _ _ hw
    | ok w => simp [hw, bind, Except.bind, pure, Except.pure] at he

theorem foldlM_error {α β ε : Type} (f : β → α → Except ε β) : ∀ (l : List α) (b : β) (e : ε),
    l.foldlM f b = .error e → ∃ b' a, f b' a = .error e
  | [], b, e, h => by simp [List.foldlM, pure, Except.pure] at h
  | a :: l, b, e, h => by
    rw [List.foldlM_cons] at h
    cases hf : f b a with
    | error e' =>
      simp only [hf, bind, Except.bind] at h
      cases h
      exact ⟨b, a, hf⟩
    | ok b' =>
      simp only [hf, bind, Except.bind] at h
      exact foldlM_error f l b' e h

theorem commit_error (rootHist : Hist) (s : Session) (rn stamp process : String) (cb : Option String) (e : Err)
    (he : commit rootHist s rn stamp process cb = .error e) : e = .internal "AssertionError" := by
  unfold commit at he
  obtain ⟨b, a, h⟩ := foldlM_error _ _ _ _ he
  exact commitStep_error _ _ _ _ _ _ _ _ _ h

theorem chainErr_not_internal (e : Err) (h : ChainErr e) (k : String) : e ≠ .internal k := by
  rcases h with rfl | rfl | rfl <;> (intro h; cases h)

theorem createExit_cases (failed : Nat) (m mh : List RelPath) :
    createExit failed m mh = none ∨ createExit failed m mh = some errVerifyFailed ∨
      createExit failed m mh = some errMissingFiles ∨ createExit failed m mh = some errNoHistory := by
  unfold createExit
  split
  · exact Or.inr (Or.inl rfl)
  · split
    · exact Or.inr (Or.inr (Or.inl rfl))
    · split
      · exact Or.inr (Or.inr (Or.inr rfl))
      · exact Or.inl rfl

/-- the errors a command can end with on its own account (10, 11, 12, 20, 21, 30) are none of 31 / 32 / 33 -/
theorem chainErr_ne_own (e : Err) (h : ChainErr e) :
    e ≠ errVerifyFailed ∧ e ≠ errMissingFiles ∧ e ≠ errNoHistory ∧ e ≠ errNewFiles ∧ e ≠ errSingleFileNotFound ∧
      e ≠ errDirVerifyFailed := by
  rcases h with rfl | rfl | rfl <;> decide

theorem verifyExit_cases (mism news : List String) (a b : Bool) (missing : List RelPath) :
    verifyExit mism news a b missing = none ∨ verifyExit mism news a b missing = some errVerifyFailed ∨
      verifyExit mism news a b missing = some errNewFiles ∨
      verifyExit mism news a b missing = some errSingleFileNotFound ∨
      verifyExit mism news a b missing = some errMissingFiles := by
  unfold verifyExit
  split
  · exact Or.inr (Or.inl rfl)
  · split
    · exact Or.inr (Or.inr (Or.inl rfl))
    · split
      · exact Or.inr (Or.inr (Or.inr (Or.inl rfl)))
      · split
        · exact Or.inr (Or.inr (Or.inr (Or.inr rfl)))
        · exact Or.inl rfl

theorem diffExit_cases (news : List String) (missing : List RelPath) :
    diffExit news missing = none ∨ diffExit news missing = some errMissingFiles ∨
      diffExit news missing = some errNewFiles := by
  unfold diffExit
  split
  · exact Or.inr (Or.inl rfl)
  · split
    · exact Or.inr (Or.inr rfl)
    · exact Or.inl rfl

theorem dhExit_cases (fmts failed : List String) :
    dhExit fmts failed = none ∨ dhExit fmts failed = some errDirVerifyFailed := by
  unfold dhExit
  split
  · exact Or.inr rfl
  · exact Or.inl rfl

/-- how a command can end when the history loads: normally, with an uncaught `AssertionError` of the commit, or with
one of the command's own exit codes -/
def OwnEnd (x : Option Err) : Prop :=
  x = none ∨ x = some (.internal "AssertionError") ∨ x = some errVerifyFailed ∨ x = some errMissingFiles ∨
    x = some errNoHistory ∨ x = some errNewFiles ∨ x = some errSingleFileNotFound ∨ x = some errDirVerifyFailed

theorem ownEnd_not_chain (x : Option Err) (h : OwnEnd x) (e : Err) (he : ChainErr e) : x ≠ some e := by
  obtain ⟨h1, h2, h3, h4, h5, h6⟩ := chainErr_ne_own e he
  have h0 := chainErr_not_internal e he "AssertionError"
  rcases h with rfl | rfl | rfl | rfl | rfl | rfl | rfl | rfl <;> intro hx
  · cases hx
  · exact h0 (Option.some.inj hx).symm
  · exact h1 (Option.some.inj hx).symm
  · exact h2 (Option.some.inj hx).symm
  · exact h3 (Option.some.inj hx).symm
  · exact h4 (Option.some.inj hx).symm
  · exact h5 (Option.some.inj hx).symm
  · exact h6 (Option.some.inj hx).symm

theorem createFolder_ownEnd (env : Env) (t : Node) (o : CreateOpts) (h : Hist) (hl : loadHistory t = .ok h) :
    OwnEnd (createFolder env t o).err := by
  unfold createFolder
  simp only [hl]
  split
  · next e hcm =>
    have := commit_error _ _ _ _ _ _ _ hcm
    subst this
    exact Or.inr (Or.inl rfl)
  · next ws hcm =>
    dsimp only
    rcases createExit_cases _ _ _ with h | h | h | h <;> rw [h]
    · exact Or.inl rfl
    · exact Or.inr (Or.inr (Or.inl rfl))
    · exact Or.inr (Or.inr (Or.inr (Or.inl rfl)))
    · exact Or.inr (Or.inr (Or.inr (Or.inr (Or.inl rfl))))

theorem createSingleFiles_ownEnd (env : Env) (t : Node) (o : CreateOpts) (h : Hist) (hl : loadHistory t = .ok h) :
    OwnEnd (createSingleFiles env t o).err := by
  unfold createSingleFiles
  simp only [hl]
  split
  · next e hcm =>
    have := commit_error _ _ _ _ _ _ _ hcm
    subst this
    exact Or.inr (Or.inl rfl)
  · next ws hcm =>
    dsimp only
    split
    · exact Or.inr (Or.inr (Or.inl rfl))
    · exact Or.inl rfl

theorem create_ownEnd (env : Env) (t : Node) (o : CreateOpts) (h : Hist) (hl : loadHistory t = .ok h) :
    OwnEnd (create env t o).err := by
  unfold create
  split
  · exact createFolder_ownEnd env t o h hl
  · exact createSingleFiles_ownEnd env t o h hl

theorem verifyOrDiff_ownEnd (env : Env) (t : Node) (o : VerifyOpts) (hashing : Bool) (h : Hist)
    (hl : loadHistory t = .ok h) : OwnEnd (verifyOrDiff env t o hashing).err := by
  unfold verifyOrDiff
  simp only [hl]
  split
  · exact Or.inr (Or.inr (Or.inr (Or.inr (Or.inl rfl))))
  · dsimp only
    cases hashing with
    | true =>
      simp only [if_true]
      rcases verifyExit_cases _ _ _ _ _ with h | h | h | h | h <;> rw [h]
      · exact Or.inl rfl
      · exact Or.inr (Or.inr (Or.inl rfl))
      · exact Or.inr (Or.inr (Or.inr (Or.inr (Or.inr (Or.inl rfl)))))
      · exact Or.inr (Or.inr (Or.inr (Or.inr (Or.inr (Or.inr (Or.inl rfl))))))
      · exact Or.inr (Or.inr (Or.inr (Or.inl rfl)))
    | false =>
      simp only [Bool.false_eq_true, if_false]
      rcases diffExit_cases _ _ with h | h | h <;> rw [h]
      · exact Or.inl rfl
      · exact Or.inr (Or.inr (Or.inr (Or.inl rfl)))
      · exact Or.inr (Or.inr (Or.inr (Or.inr (Or.inr (Or.inl rfl)))))

theorem verifyDh_ownEnd (env : Env) (t : Node) (o : DhOpts) (h : Hist) (hl : loadHistory t = .ok h) :
    OwnEnd (verifyDh env t o).err := by
  rw [verifyDh_ok env t o h hl]
  dsimp only
  rcases dhExit_cases _ _ with h | h <;> rw [h]
  · exact Or.inl rfl
  · exact Or.inr (Or.inr (Or.inr (Or.inr (Or.inr (Or.inr (Or.inr rfl))))))

theorem flatten_ownEnd (env : Env) (t : Node) (a b : List String) (h : Hist) (hl : loadHistory t = .ok h) :
    OwnEnd (flatten env t a b).err := by
  unfold flatten
  simp only [hl]
  split
  · exact Or.inr (Or.inr (Or.inr (Or.inr (Or.inl rfl))))
  · exact Or.inl rfl

theorem info_ownEnd (t : Node) (h : Hist) (hl : loadHistory t = .ok h) : OwnEnd (exceptErr (info t)) := by
  unfold info
  simp only [hl, bind, Except.bind]
  split
  · exact Or.inr (Or.inr (Or.inr (Or.inr (Or.inl rfl))))
  · exact Or.inl rfl

theorem infoSingleFile_ownEnd (t : Node) (f : RelPath) (h : Hist) (hl : loadHistory t = .ok h) :
    OwnEnd (exceptErr (infoSingleFile t f)) := by
  unfold infoSingleFile
  simp only [hl, bind, Except.bind]
  split
  · exact Or.inr (Or.inr (Or.inr (Or.inr (Or.inl rfl))))
  · exact Or.inl rfl


end MhlModel
