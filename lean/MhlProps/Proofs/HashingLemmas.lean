/- Streaming/read-loop lemmas (C01, C07). -/
import MhlModel.Hashing

namespace MhlModel.Hashing
open MhlModel.Codec

theorem foldl_update (A : Alg) (cs : List Bytes) (s : A.State) :
    cs.foldl A.update s = A.update s cs.flatten := by
  induction cs generalizing s with
  | nil => simp [A.update_nil]
  | cons c cs ih => simp [List.foldl_cons, ih, A.update_append]

theorem takeWhile_nonempty (cs : List Bytes) (rest : List Bytes) (h : ∀ c ∈ cs, c ≠ []) :
    (cs ++ [] :: rest).takeWhile (fun c => !c.isEmpty) = cs := by
  induction cs with
  | nil => simp
  | cons c cs ih =>
    have hc : c ≠ [] := h c (by simp)
    have : (!c.isEmpty) = true := by cases c <;> simp_all
    simp only [List.cons_append, List.takeWhile_cons, this, if_true]
    rw [ih (fun x hx => h x (by simp [hx]))]

theorem takeWhile_all_nonempty (cs : List Bytes) (h : ∀ c ∈ cs, c ≠ []) :
    cs.takeWhile (fun c => !c.isEmpty) = cs := by
  induction cs with
  | nil => simp
  | cons c cs ih =>
    have hc : c ≠ [] := h c (by simp)
    have : (!c.isEmpty) = true := by cases c <;> simp_all
    simp only [List.takeWhile_cons, this, if_true]
    rw [ih (fun x hx => h x (by simp [hx]))]

/-- the read loop over any schedule of non-empty reads followed by EOF sees exactly the concatenation -/
theorem readLoop_schedule (A : Alg) (cs rest : List Bytes) (h : ∀ c ∈ cs, c ≠ []) :
    A.final (readLoop A (cs ++ [] :: rest)) = A.digest cs.flatten := by
  simp [readLoop, takeWhile_nonempty cs rest h, foldl_update, Alg.digest]

theorem readLoop_all (A : Alg) (cs : List Bytes) (h : ∀ c ∈ cs, c ≠ []) :
    A.final (readLoop A cs) = A.digest cs.flatten := by
  simp [readLoop, takeWhile_all_nonempty cs h, foldl_update, Alg.digest]

theorem chunksOf_flatten (size : Nat) (hs : 0 < size) (content : Bytes) :
    (chunksOf size content).flatten = content := by
  induction hn : content.length using Nat.strongRecOn generalizing content with
  | _ n ih =>
    unfold chunksOf
    split
    · next h =>
      rcases h with h | h
      · omega
      · simp [h]
    · next h =>
      have hne : content ≠ [] := fun h' => h (Or.inr h')
      have hpos : 0 < content.length := List.length_pos_iff.mpr hne
      simp only [List.flatten_cons]
      rw [ih (content.drop size).length (by simp [List.length_drop]; omega) (content.drop size) rfl]
      exact List.take_append_drop size content

theorem chunksOf_nonempty (size : Nat) (content : Bytes) : ∀ c ∈ chunksOf size content, c ≠ [] := by
  induction hn : content.length using Nat.strongRecOn generalizing content with
  | _ n ih =>
    unfold chunksOf
    split
    · simp
    · next h =>
      have hne : content ≠ [] := fun h' => h (Or.inr h')
      have hs : size ≠ 0 := fun h' => h (Or.inl h')
      have hpos : 0 < content.length := List.length_pos_iff.mpr hne
      intro c hc
      simp only [List.mem_cons] at hc
      rcases hc with rfl | hc
      · intro h0
        have := congrArg List.length h0
        simp only [List.length_take, List.length_nil] at this
        omega
      · exact ih (content.drop size).length (by simp [List.length_drop]; omega) (content.drop size) rfl c hc

theorem chunksOf_le (size : Nat) (content : Bytes) : ∀ c ∈ chunksOf size content, c.length ≤ size := by
  induction hn : content.length using Nat.strongRecOn generalizing content with
  | _ n ih =>
    unfold chunksOf
    split
    · simp
    · next h =>
      have hne : content ≠ [] := fun h' => h (Or.inr h')
      have hs : size ≠ 0 := fun h' => h (Or.inl h')
      have hpos : 0 < content.length := List.length_pos_iff.mpr hne
      intro c hc
      simp only [List.mem_cons] at hc
      rcases hc with rfl | hc
      · simp [List.length_take]; omega
      · exact ih (content.drop size).length (by simp [List.length_drop]; omega) (content.drop size) rfl c hc

theorem hashFileReads_eq (h : Hasher) (cs : List Bytes) (hne : ∀ c ∈ cs, c ≠ []) :
    hashFileReads h cs = hashData h cs.flatten := by
  simp [hashFileReads, hashData, readLoop_all h.alg cs hne]

theorem mem_dedup [DecidableEq α] (x : α) (l : List α) : x ∈ dedup l ↔ x ∈ l := by
  induction l with
  | nil => simp [dedup]
  | cons y ys ih =>
    simp only [dedup, List.mem_cons, List.mem_filter, ih]
    constructor
    · rintro (h | ⟨h, _⟩)
      · exact Or.inl h
      · exact Or.inr h
    · rintro (h | h)
      · exact Or.inl h
      · by_cases hxy : x = y
        · exact Or.inl hxy
        · exact Or.inr ⟨h, by simpa using hxy⟩

theorem nodup_dedup [DecidableEq α] (l : List α) : (dedup l).Nodup := by
  induction l with
  | nil => simp [dedup]
  | cons y ys ih =>
    simp only [dedup, List.nodup_cons, List.mem_filter]
    refine ⟨by simp, ih.filter _⟩

theorem mapM_option_spec {α β : Type} (f : α → Option β) (l : List α) (r : List β) (h : l.mapM f = some r) :
    (∀ (g : β → α), (∀ x y, f x = some y → g y = x) → r.map g = l) ∧
    (∀ x ∈ l, ∃ y, f x = some y ∧ y ∈ r) := by
  induction l generalizing r with
  | nil =>
    simp at h; subst h; simp
  | cons a as ih =>
    rw [List.mapM_cons] at h
    cases hfa : f a with
    | none => simp [hfa] at h
    | some b =>
      cases hrest : as.mapM f with
      | none => simp [hfa, hrest] at h
      | some bs =>
        simp [hfa, hrest] at h
        subst h
        obtain ⟨ih1, ih2⟩ := ih bs hrest
        refine ⟨?_, ?_⟩
        · intro g hg
          simp [hg a b hfa, ih1 g hg]
        · intro x hx
          simp only [List.mem_cons] at hx
          rcases hx with rfl | hx
          · exact ⟨b, hfa, by simp⟩
          · obtain ⟨y, hy, hm⟩ := ih2 x hx
            exact ⟨y, hy, by simp [hm]⟩

end MhlModel.Hashing
