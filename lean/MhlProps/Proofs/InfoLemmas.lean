/-
Helper lemmas for C19seq (`info` / `info -sf` end to end).

A. the listing of a history without nested histories
B. every loaded history (root or nested) is built from an `ascmhl` folder of the tree: generations ascending
   (`loaded_all_sorted`), and — with distinct sibling names — exactly what `loadGens` reads from the folder the
   history is rooted at (`loaded_all_on_disk`)
C. the block structure of `infoLines`: pre-order, every subtree contiguous, parents before children, the lines of a
   root are its block, no line twice
D. `fmtList`: the requested formats each once in name order; the entries of a first record as a map over it
E. `GenShape` / `create_flat_gen`: the generation a folder-mode `create` writes on a flat tree as
   `Generation.find` sees it, with the EXACT entries of every visible file (`writtenEntries`)
F. `PInv`: the recorded history of one never-edited file; what a further run appends for it, unaltered
   (`writtenEntries_unaltered`) and altered (`writtenEntries_altered`, `writtenEntries_all_failed`)
G. `sfLines`: the lines of `info -sf` over such a history
H. Boolean checks for concrete trees; a store without usable manifests
-/
import MhlProps.C19
import MhlProps.C06seq
import MhlProps.C03e2e
import MhlProps.Proofs.NestedLemmas

namespace MhlModel
open MhlProps

/-! ## A. the listing of a flat history -/

/-- a history without nested histories lists just its own generations -/
theorem infoLines_flat_hist (h : Hist) (hc : h.children = []) :
    infoLines h = h.gens.map fun g => (h.root, g.number) := by
  cases h with
  | mk r gens c e cs =>
    simp only [Hist.children] at hc
    subst hc
    simp [infoLines, infoLinesList, Hist.gens, Hist.root]

theorem map_pair_of_map_eq {α : Type} (l : List α) (f : α → Nat) (r : RelPath) (ks : List Nat)
    (h : l.map f = ks) : (l.map fun g => (r, f g)) = ks.map fun k => (r, k) := by
  subst h
  rw [List.map_map]
  rfl

/-! ## B. every loaded history is built from an `ascmhl` folder of the tree -/

mutual
/-- every nested history found below a node was built by `buildHist` from some `ascmhl` folder -/
theorem findChildren_built : (t : Node) → (here : RelPath) → ∀ hs, findChildren here t = .ok hs →
    ∀ x ∈ descList hs, ∃ r s kids, x = buildHist r (some s) kids
  | .file _ _, here, hs, h => by
    simp only [findChildren, pure, Except.pure, Except.ok.injEq] at h
    subst h
    simp [descList]
  | .dir n cs st, here, hs, h => by
    have ihl := findChildrenList_built cs here
    rw [findChildren] at h
    cases hm : (isort (fun (a b : String × Except Err (List Hist)) => strLe a.1 b.1)
        (findChildrenList here cs)).mapM (fun (x : String × Except Err (List Hist)) => x.2) with
    | error e => rw [hm] at h; cases h
    | ok Ls =>
      rw [hm] at h
      simp only [Except.map, Except.ok.injEq] at h
      subst h
      have hF := mapM_ok_forall₂ _ _ _ hm
      intro y hy
      rw [descList_eq, List.mem_flatMap] at hy
      obtain ⟨k, hk, hyk⟩ := hy
      obtain ⟨L, hL, hkL⟩ := List.mem_flatten.1 hk
      obtain ⟨a, ha, hab⟩ := forall₂_mem_right_sv hF L hL
      exact ihl a ((mem_isort _ _ _).1 ha) L hab y
        (by rw [descList_eq, List.mem_flatMap]; exact ⟨k, hkL, hyk⟩)
theorem findChildrenList_built : (cs : List Node) → (here : RelPath) →
    ∀ a ∈ findChildrenList here cs, ∀ hs, a.2 = .ok hs →
      ∀ x ∈ descList hs, ∃ r s kids, x = buildHist r (some s) kids
  | [], _ => by simp [findChildrenList]
  | c :: cs, here => by
    have ih1 := findChildren_built c (here ++ [c.name])
    have ih2 := findChildrenList_built cs here
    intro a ha
    rw [findChildrenList, List.mem_cons] at ha
    rcases ha with rfl | ha
    · intro hs hok
      simp only at hok
      cases hh : c.hist with
      | none =>
        rw [hh] at hok
        exact ih1 hs hok
      | some s =>
        rw [hh] at hok
        simp only at hok
        cases hcs : checkStore (some s) with
        | error e => simp [hcs, bind, Except.bind] at hok
        | ok u =>
          cases hk : findChildren (here ++ [c.name]) c with
          | error e => simp [hcs, hk, bind, Except.bind] at hok
          | ok kids =>
            simp only [hcs, hk, bind, Except.bind, pure, Except.pure, Except.ok.injEq] at hok
            subst hok
            intro x hx
            have hdl : descList [buildHist (here ++ [c.name]) (some s) kids] =
                buildHist (here ++ [c.name]) (some s) kids :: descList kids := by
              simp [descList, buildHist_desc]
            rw [hdl] at hx
            rcases List.mem_cons.1 hx with rfl | hx
            · exact ⟨_, _, _, rfl⟩
            · exact ih1 kids hk x hx
    · exact ih2 a ha
end

/-- every history `loadHistory` returns (the root one and every nested one) has the generations `loadGens` reads
from some `ascmhl` folder (or none, for a root folder without `ascmhl` folder) -/
theorem loaded_all_built (t : Node) (h : Hist) (hl : loadHistory t = .ok h) :
    ∀ x ∈ h :: allDescendants h, ∃ st, x.gens = storeGens st := by
  obtain ⟨kids, hk, rfl⟩ := loadHistory_ok_eq t h hl
  intro x hx
  rw [buildHist_desc] at hx
  rcases List.mem_cons.1 hx with rfl | hx
  · refine ⟨t.hist, ?_⟩
    cases t.hist <;> rfl
  · obtain ⟨r, s, kids', rfl⟩ := findChildren_built t [] kids hk x hx
    exact ⟨some s, rfl⟩

theorem storeGens_sorted (st : Option HistStore) : ((storeGens st).map (·.number)).Pairwise (· ≤ ·) := by
  cases st with
  | none => simp [storeGens]
  | some s => exact C06.loadGens_sorted s

/-- in every loaded history (root or nested) the generations are in ascending order of their numbers -/
theorem loaded_all_sorted (t : Node) (h : Hist) (hl : loadHistory t = .ok h) :
    ∀ x ∈ h :: allDescendants h, (x.gens.map (·.number)).Pairwise (· ≤ ·) := by
  intro x hx
  obtain ⟨st, hst⟩ := loaded_all_built t h hl x hx
  rw [hst]
  exact storeGens_sorted st

mutual
/-- with distinct sibling names: every nested history found below a node is rooted at a folder of the tree and holds
exactly the generations `loadGens` reads from THAT folder's `ascmhl` folder -/
theorem findChildren_at : (t : Node) → (here : RelPath) → t.NamesDistinct → ∀ hs, findChildren here t = .ok hs →
    ∀ x ∈ descList hs, ∃ q n s, x.root = here ++ q ∧ t.at? q = some n ∧ n.hist = some s ∧ x.gens = loadGens s
  | .file _ _, here, _, hs, h => by
    simp only [findChildren, pure, Except.pure, Except.ok.injEq] at h
    subst h
    simp [descList]
  | .dir n cs st, here, hd, hs, h => by
    rw [Node.namesDistinct_dir] at hd
    have ihl := findChildrenList_at cs here ((Node.namesDistinctKids_iff cs).2 hd.2)
    rw [findChildren] at h
    cases hm : (isort (fun (a b : String × Except Err (List Hist)) => strLe a.1 b.1)
        (findChildrenList here cs)).mapM (fun (x : String × Except Err (List Hist)) => x.2) with
    | error e => rw [hm] at h; cases h
    | ok Ls =>
      rw [hm] at h
      simp only [Except.map, Except.ok.injEq] at h
      subst h
      have hF := mapM_ok_forall₂ _ _ _ hm
      intro y hy
      rw [descList_eq, List.mem_flatMap] at hy
      obtain ⟨k, hk, hyk⟩ := hy
      obtain ⟨L, hL, hkL⟩ := List.mem_flatten.1 hk
      obtain ⟨a, ha, hab⟩ := forall₂_mem_right_sv hF L hL
      obtain ⟨c, hc, -, hb⟩ := ihl a ((mem_isort _ _ _).1 ha)
      obtain ⟨q, nd, s, hq, hat, hh, hg⟩ := hb L hab y
        (by rw [descList_eq, List.mem_flatMap]; exact ⟨k, hkL, hyk⟩)
      refine ⟨c.name :: q, nd, s, by rw [hq]; simp, ?_, hh, hg⟩
      rw [Node.at?_dir_cons, findChild_of_mem hd.1 hc]
      exact hat
theorem findChildrenList_at : (cs : List Node) → (here : RelPath) → Node.NamesDistinctKids cs →
    ∀ a ∈ findChildrenList here cs, ∃ c ∈ cs, a.1 = c.name ∧ ∀ hs, a.2 = .ok hs →
      ∀ x ∈ descList hs, ∃ q n s, x.root = (here ++ [c.name]) ++ q ∧ c.at? q = some n ∧ n.hist = some s ∧
        x.gens = loadGens s
  | [], _, _ => by simp [findChildrenList]
  | c :: cs, here, hd => by
    rw [Node.NamesDistinctKids] at hd
    have ih1 := findChildren_at c (here ++ [c.name]) hd.1
    have ih2 := findChildrenList_at cs here hd.2
    intro a ha
    rw [findChildrenList, List.mem_cons] at ha
    rcases ha with rfl | ha
    · refine ⟨c, List.mem_cons_self, rfl, ?_⟩
      intro hs hok
      simp only at hok
      cases hh : c.hist with
      | none =>
        rw [hh] at hok
        exact ih1 hs hok
      | some s =>
        rw [hh] at hok
        simp only at hok
        cases hcs : checkStore (some s) with
        | error e => simp [hcs, bind, Except.bind] at hok
        | ok u =>
          cases hk : findChildren (here ++ [c.name]) c with
          | error e => simp [hcs, hk, bind, Except.bind] at hok
          | ok kids =>
            simp only [hcs, hk, bind, Except.bind, pure, Except.pure, Except.ok.injEq] at hok
            subst hok
            intro x hx
            have hdl : descList [buildHist (here ++ [c.name]) (some s) kids] =
                buildHist (here ++ [c.name]) (some s) kids :: descList kids := by
              simp [descList, buildHist_desc]
            rw [hdl] at hx
            rcases List.mem_cons.1 hx with rfl | hx
            · exact ⟨[], c, s, by simp [buildHist_root], Node.at?_nil' c, hh, rfl⟩
            · exact ih1 kids hk x hx
    · obtain ⟨c', hc', h1, h2⟩ := ih2 a ha
      exact ⟨c', List.mem_cons_of_mem _ hc', h1, h2⟩
end

/-- `info` lists what is on disk: with distinct sibling names, every nested history of the loaded history is rooted
at a folder of the tree that has an `ascmhl` folder, and its generations are exactly what `loadGens` reads from that
folder; the root history holds what `loadGens` reads from the root's `ascmhl` folder (nothing if there is none) -/
theorem loaded_all_on_disk (t : Node) (h : Hist) (hl : loadHistory t = .ok h) (hd : t.NamesDistinct) :
    h.root = [] ∧ h.gens = storeGens t.hist ∧
    ∀ x ∈ allDescendants h, ∃ n s, t.at? x.root = some n ∧ n.hist = some s ∧ x.gens = loadGens s := by
  obtain ⟨kids, hk, rfl⟩ := loadHistory_ok_eq t h hl
  refine ⟨buildHist_root _ _ _, by cases t.hist <;> rfl, ?_⟩
  intro x hx
  rw [buildHist_desc] at hx
  obtain ⟨q, n, s, hq, hat, hh, hg⟩ := findChildren_at t [] hd kids hk x hx
  rw [List.nil_append] at hq
  exact ⟨n, s, by rw [hq]; exact hat, hh, hg⟩

/-! ## C. the block structure of the listing -/

open MhlProps.C19 in
theorem ownLines_snd (x : Hist) : (ownLines x).map (·.2) = x.gens.map (·.number) := by
  simp [ownLines, List.map_map, Function.comp_def]

open MhlProps.C19 in
theorem ownLines_fst (x : Hist) : ∀ l ∈ ownLines x, l.1 = x.root := by
  intro l hl
  simp only [ownLines, List.mem_map] at hl
  obtain ⟨g, -, rfl⟩ := hl
  rfl

open MhlProps.C19 in
/-- the listing of a history: its own block, then the listings of its children in order -/
theorem infoLines_eq (x : Hist) : infoLines x = ownLines x ++ x.children.flatMap infoLines := by
  cases x with
  | mk r gens c e cs => exact infoLines_spec r gens c e cs

/-- pre-order: the listing of every (transitively) nested history is a contiguous part of the whole listing -/
theorem infoLines_infix (h : Hist) : ∀ x ∈ h.all, infoLines x <:+: infoLines h := by
  induction h using Hist.induct with
  | mk r gg ch e cs ih =>
    intro x hx
    rw [Hist.all_eq] at hx
    rcases List.mem_cons.1 hx with rfl | hx
    · exact List.infix_refl _
    · obtain ⟨c, hcm, hxc⟩ := List.mem_flatMap.1 hx
      have h1 := ih c hcm x hxc
      have h2 : infoLines c <:+: (Hist.mk r gg ch e cs).children.flatMap infoLines :=
        infix_flatMap_of_mem (f := infoLines) hcm
      rw [infoLines_eq (Hist.mk r gg ch e cs)]
      exact h1.trans (h2.trans (List.suffix_append _ _).isInfix)

open MhlProps.C19 in
/-- the block of a nested history comes after the block of its parent -/
theorem infoLines_parent_first (h : Hist) (x c : Hist) (hx : x ∈ h.all) (hc : c ∈ x.children) :
    ∃ a b d, infoLines h = a ++ ownLines x ++ b ++ ownLines c ++ d := by
  obtain ⟨a, d, had⟩ := infoLines_infix h x hx
  obtain ⟨l1, l2, hl⟩ := List.append_of_mem hc
  refine ⟨a, l1.flatMap infoLines, c.children.flatMap infoLines ++ l2.flatMap infoLines ++ d, ?_⟩
  rw [← had, infoLines_eq x, hl, List.flatMap_append, List.flatMap_cons, infoLines_eq c]
  simp only [List.append_assoc]

open MhlProps.C19 in
/-- with pairwise different roots, the lines that carry the root of a history are exactly its own block -/
theorem filter_root_block (l : List Hist) (hnd : (l.map (·.root)).Nodup) (x : Hist) (hx : x ∈ l) :
    (l.flatMap ownLines).filter (fun ln => ln.1 == x.root) = ownLines x := by
  induction l with
  | nil => cases hx
  | cons y ys ih =>
    rw [List.map_cons, List.nodup_cons] at hnd
    rw [List.flatMap_cons, List.filter_append]
    have hall : ∀ z : Hist, z.root = x.root → (ownLines z).filter (fun ln => ln.1 == x.root) = ownLines z := by
      intro z hz
      rw [List.filter_eq_self]
      intro ln hln
      simp [ownLines_fst z ln hln, hz]
    have hnone : ∀ z : Hist, z.root ≠ x.root → (ownLines z).filter (fun ln => ln.1 == x.root) = [] := by
      intro z hz
      rw [List.filter_eq_nil_iff]
      intro ln hln
      simp [ownLines_fst z ln hln, hz]
    by_cases hyx : y.root = x.root
    · have hxy : x ∉ ys := by
        intro hin
        exact hnd.1 (List.mem_map.2 ⟨x, hin, hyx.symm⟩)
      have hxe : x = y := by
        rcases List.mem_cons.1 hx with h | h
        · exact h
        · exact absurd h hxy
      subst hxe
      rw [hall x rfl]
      have : (ys.flatMap ownLines).filter (fun ln => ln.1 == x.root) = [] := by
        rw [List.filter_eq_nil_iff]
        intro ln hln
        obtain ⟨z, hz, hlz⟩ := List.mem_flatMap.1 hln
        have hzr : z.root ≠ x.root := fun he => hnd.1 (List.mem_map.2 ⟨z, hz, he⟩)
        simp [ownLines_fst z ln hlz, hzr]
      rw [this, List.append_nil]
    · have hxin : x ∈ ys := by
        rcases List.mem_cons.1 hx with h | h
        · exact absurd (h ▸ rfl) hyx
        · exact h
      rw [hnone y hyx, List.nil_append, ih hnd.2 hxin]

open MhlProps.C19 in
/-- no line twice, provided the roots are pairwise different and no history holds a number twice -/
theorem flatMap_ownLines_nodup (l : List Hist) (hnd : (l.map (·.root)).Nodup)
    (hnum : ∀ x ∈ l, (x.gens.map (·.number)).Nodup) : (l.flatMap ownLines).Nodup := by
  induction l with
  | nil => simp
  | cons y ys ih =>
    rw [List.map_cons, List.nodup_cons] at hnd
    rw [List.flatMap_cons, List.nodup_append]
    refine ⟨?_, ih hnd.2 (fun x hx => hnum x (List.mem_cons_of_mem _ hx)), ?_⟩
    · have := hnum y List.mem_cons_self
      rw [← ownLines_snd] at this
      exact List.Nodup.of_map _ this
    · intro a ha b hb hab
      subst hab
      obtain ⟨z, hz, haz⟩ := List.mem_flatMap.1 hb
      have h1 := ownLines_fst y a ha
      have h2 := ownLines_fst z a haz
      exact hnd.1 (List.mem_map.2 ⟨z, hz, h2.symm.trans h1⟩)

/-! ## D. the lines of a file sealed once -/

/-- the requested formats as a first generation records them: each once, in format-name order -/
def fmtList (formats : List String) : List String := isort strLe ((isort strLe formats).foldl appendNew [])

theorem mem_fmtList (formats : List String) (f : String) : f ∈ fmtList formats ↔ f ∈ formats := by
  unfold fmtList
  rw [mem_isort, (dedup_spec _).2, mem_isort]

theorem fmtList_nodup (formats : List String) : (fmtList formats).Nodup := by
  unfold fmtList
  rw [(isort_perm strLe _).nodup_iff]
  exact (dedup_spec _).1

/-- strictly ascending in format name -/
theorem fmtList_sorted (formats : List String) : (fmtList formats).Pairwise (· < ·) := by
  have h1 : (fmtList formats).Pairwise (· ≤ ·) := isort_strLe_sorted _
  have h2 : (fmtList formats).Pairwise (· ≠ ·) := fmtList_nodup formats
  exact (h1.and h2).imp (fun ⟨a, b⟩ => Std.lt_of_le_of_ne a b)

theorem fmtList_ne_nil (formats : List String) (hf : formats ≠ []) : fmtList formats ≠ [] := by
  obtain ⟨f, hfm⟩ := List.exists_mem_of_ne_nil _ hf
  exact List.ne_nil_of_mem ((mem_fmtList formats f).2 hfm)

theorem fmtList_length_le (formats : List String) : (fmtList formats).length ≤ formats.length := by
  unfold fmtList
  rw [length_isort]
  have h1 : ((isort strLe formats).foldl appendNew []).Subperm (isort strLe formats) :=
    List.subperm_of_subset (dedup_spec _).1 (fun x hx => ((dedup_spec _).2 x).1 hx)
  have := h1.length_le
  rwa [length_isort] at this

/-- the entries of a file record of a first generation, as a map over `fmtList` -/
theorem origEntries_eq_map (env : Env) (c : Bytes) (formats : List String) :
    origEntries env c formats = (fmtList formats).map (mkOrig env c) := by
  unfold origEntries fmtList
  exact isort_map strLe (fun (a b : Entry) => strLe a.fmt b.fmt) (mkOrig env c) (fun _ _ => rfl) _

section sealedNone
variable {env : Env} {t : Node} {hit : RelPath → Bool} {formats : List String} {g : Generation}

/-- a path that was not visible when `g` was sealed (ignored, or not there at all) has no record in `g` -/
theorem SealedGen.find_unseen (hs : SealedGen env t hit formats g) (hn : t.NamesOk) (p : RelPath)
    (hpn : p ≠ []) (hpok : ∀ s ∈ p, NameOk s) (hp : ∀ d, (p, d) ∉ visiblePaths hit t) :
    g.find (posix p) = none := by
  have hdot : posix p ≠ "." := fun h => hpn ((posix_eq_dot hpok).1 h)
  unfold Generation.find
  rw [List.find?_eq_none]
  intro x hx
  rw [List.mem_reverse] at hx
  rcases List.mem_append.1 hx with hx | hx
  · cases hrh : g.rootHash with
    | none => simp [hrh] at hx
    | some es =>
      simp only [hrh, List.mem_singleton] at hx
      subst hx
      simpa using fun h => hdot h.symm
  · have hprev := hs.prev x hx
    simp only [hprev, Bool.or_eq_true, beq_iff_eq, reduceCtorEq, or_false]
    intro hxp
    obtain ⟨y, hy, hyp⟩ := (hs.paths (posix p)).1 (List.mem_map.2 ⟨x, hx, hxp⟩)
    obtain ⟨q, d⟩ := y
    have : q = p := posix_inj (visible_names_ok hit t hn _ hy).2 hpok hyp
    subst this
    exact hp d hy

end sealedNone

/-! ## E. the generation a folder-mode `create` writes on a flat tree, as `find` sees it -/

/-- what `Generation.find` needs to know about a generation written from the tree `t` seen through `hit`: record
paths are pairwise different, they are the texts of the visible paths, and no record carries a previous path -/
structure GenShape (hit : RelPath → Bool) (t : Node) (g : Generation) : Prop where
  nodup : (g.records.map (·.path)).Nodup
  paths : ∀ s, s ∈ g.records.map (·.path) ↔ ∃ x ∈ visiblePaths hit t, posix x.1 = s
  prev : ∀ r ∈ g.records, r.prev = none

section genShape
variable {t : Node} {hit : RelPath → Bool} {g : Generation}

/-- a record whose path is the text of a non-root path is what `find` returns for that text -/
theorem GenShape.find_record (hs : GenShape hit t g) (p : RelPath) (hpn : p ≠ []) (hpok : ∀ s ∈ p, NameOk s)
    (r : Record) (hr : r ∈ g.records) (hpath : r.path = posix p) : g.find (posix p) = some r := by
  have hdot : posix p ≠ "." := fun h => hpn ((posix_eq_dot hpok).1 h)
  unfold Generation.find
  apply reverse_find?_unique
  · exact List.mem_append_right _ hr
  · simp [hpath]
  · intro x hx hpx
    rcases List.mem_append.1 hx with hx | hx
    · exfalso
      cases hrh : g.rootHash with
      | none => simp [hrh] at hx
      | some es =>
        simp only [hrh, List.mem_singleton] at hx
        subst hx
        simp at hpx
        exact hdot hpx.symm
    · have hprev := hs.prev x hx
      simp only [hprev, Bool.or_eq_true, beq_iff_eq, reduceCtorEq, or_false] at hpx
      exact record_unique hs.nodup hx hr (hpx.trans hpath.symm)

/-- a path that was not visible has no record -/
theorem GenShape.find_none (hs : GenShape hit t g) (hn : t.NamesOk) (p : RelPath)
    (hpn : p ≠ []) (hpok : ∀ s ∈ p, NameOk s) (hp : ∀ d, (p, d) ∉ visiblePaths hit t) :
    g.find (posix p) = none := by
  have hdot : posix p ≠ "." := fun h => hpn ((posix_eq_dot hpok).1 h)
  unfold Generation.find
  rw [List.find?_eq_none]
  intro x hx
  rw [List.mem_reverse] at hx
  rcases List.mem_append.1 hx with hx | hx
  · cases hrh : g.rootHash with
    | none => simp [hrh] at hx
    | some es =>
      simp only [hrh, List.mem_singleton] at hx
      subst hx
      simpa using fun h => hdot h.symm
  · have hprev := hs.prev x hx
    simp only [hprev, Bool.or_eq_true, beq_iff_eq, reduceCtorEq, or_false]
    intro hxp
    obtain ⟨y, hy, hyp⟩ := (hs.paths (posix p)).1 (List.mem_map.2 ⟨x, hx, hxp⟩)
    obtain ⟨q, d⟩ := y
    have : q = p := posix_inj (visible_names_ok hit t hn _ hy).2 hpok hyp
    subst this
    exact hp d hy

end genShape

/-- the entries of the record a folder-mode `create` writes for a file: what `seal_file_path` appended (`new` turned
into `verified` by the validation), sorted by format name -/
def writtenEntries (env : Env) (gens : List LGen) (sp : String) (c : Bytes) (formats : List String) : List Entry :=
  isort (fun a b => strLe a.fmt b.fmt)
    ((sealEntries gens sp (fun f => env.H f c) (isort strLe formats)).1.map relabel)

open MhlProps.C02rec in
/-- the generation written by a folder-mode `create` (no `-dr`) on a tree whose only history is the one at the
root: its shape, and the record of every visible file with its EXACT entries -/
theorem create_flat_gen (env : Env) (t : Node) (o : CreateOpts) (rootHist : Hist)
    (hl : loadHistory t = .ok rootHist) (hc : rootHist.children = []) (hd : t.NamesDistinct) (hn : t.NamesOk)
    (hf : o.formats ≠ []) (hdr : o.detectRenaming = false) (w : Written)
    (hw : (createFolder env t o).written = [w]) :
    GenShape (cHit env rootHist o) t w.gen ∧
    ∀ p, (p, false) ∈ visiblePaths (cHit env rootHist o) t →
      ∃ r ∈ w.gen.records, r.path = posix p ∧
        r.entries = writtenEntries env rootHist.gens (posix p) (fileContent t p) o.formats := by
  have hr := loadHistory_root t rootHist hl
  have hfm : isort strLe o.formats ≠ [] := by
    intro h0
    have := length_isort strLe o.formats
    rw [h0] at this
    exact hf (List.length_eq_zero_iff.1 this.symm)
  have hwr := createFolder_written env t o rootHist hl hdr
  rw [hw] at hwr
  cases hcm : commit rootHist (cSession env t rootHist o) env.rootName env.stamp "in-place" with
  | error e => rw [hcm] at hwr; cases hwr
  | ok ws =>
    rw [hcm] at hwr
    simp only at hwr
    subst hwr
    rcases commit_flat rootHist hc _ _ _ _ _ _ hcm with ⟨h0, -⟩ | ⟨w', hw', hone⟩
    · cases h0
    · simp only [List.cons.injEq, and_true] at hw'
      subst hw'
      obtain ⟨-, hrecs, -⟩ := writeOne_records _ _ _ _ _ _ _ _ _ hone
      rw [hr] at hrecs
      obtain ⟨-, -, -, hfor, hperm, hnodup, hfiles, -⟩ :=
        createVisit_records env t rootHist hc hr hd hn (isort strLe o.formats) hfm o.noDirHashes
          (setPatterns (latestIgnore rootHist.gens) o.ignoreCli o.ignoreFile) (cHit env rootHist o)
      change List.Forall₂ _ _ ((cSession env t rootHist o).get []).records at hfor
      change (((cSession env t rootHist o).get []).records.map (fun r => (r.path, r.isDir))).Perm _ at hperm
      change (((cSession env t rootHist o).get []).records.map (·.path)).Nodup at hnodup
      change ∀ p, _ → ∃ r ∈ ((cSession env t rootHist o).get []).records, _ at hfiles
      have hpaths : w.gen.records.map (·.path) = ((cSession env t rootHist o).get []).records.map (·.path) := by
        rw [hrecs, List.map_map]
        apply List.map_congr_left
        intro r _
        exact finalRec_path r
      refine ⟨⟨by rw [hpaths]; exact hnodup, ?_, ?_⟩, ?_⟩
      · intro s
        rw [hpaths]
        have h1 : s ∈ ((cSession env t rootHist o).get []).records.map (·.path) ↔
            s ∈ (((cSession env t rootHist o).get []).records.map fun r => (r.path, r.isDir)).map (·.1) := by
          simp [List.map_map, Function.comp_def]
        rw [h1, (hperm.map (·.1)).mem_iff]
        simp only [List.map_map, List.mem_map, Function.comp]
      · intro r hrm
        rw [hrecs] at hrm
        obtain ⟨r0, hr0, rfl⟩ := List.mem_map.1 hrm
        obtain ⟨x, -, hrf⟩ := forall₂_mem_right_sv hfor r0 hr0
        rw [finalRec_prev]
        exact hrf.2.2.1
      · intro p hp
        obtain ⟨r0, hr0, hpath, hdir, -, -, hents⟩ := hfiles p hp
        refine ⟨finalRec r0, by rw [hrecs]; exact List.mem_map_of_mem hr0, by rw [finalRec_path, hpath], ?_⟩
        unfold finalRec writtenEntries
        rw [hdir]
        simp only [Bool.false_eq_true, if_false, hents]

/-! ## F. the recorded history of one file over a run -/

open MhlProps.C04

/-- the recorded history of the file with path text `sp`, as a run over a never-edited file of content `c` leaves
it: every recorded digest is the digest of `c`, and the entries a generation holds for the file are all `original`
if no earlier generation holds an original entry for it, all `verified` otherwise -/
structure PInv (env : Env) (sp : String) (c : Bytes) (gens : List LGen) : Prop where
  digest : ∀ g ∈ gens, ∀ r, g.gen.find sp = some r → ∀ e ∈ r.entries, e.digest = env.H e.fmt c
  action : ∀ i (hi : i < gens.length), ∀ r, gens[i].gen.find sp = some r → ∀ e ∈ r.entries,
    e.action = if findOriginal (gens.take i) sp = none then "original" else "verified"

theorem PInv.nil (env : Env) (sp : String) (c : Bytes) : PInv env sp c [] :=
  ⟨fun g hg => (by cases hg), fun i hi => (by simp at hi)⟩

theorem PInv.firstOk {env : Env} {sp : String} {c : Bytes} {gens : List LGen} (h : PInv env sp c gens) :
    FirstOk (fun f => env.H f c) gens sp := by
  intro fmt e he
  unfold findFirstOfFormat at he
  obtain ⟨g, hg, hh⟩ := List.exists_of_findSome?_eq_some he
  cases hf : g.gen.find sp with
  | none => simp [hf] at hh
  | some r =>
    simp only [hf] at hh
    have hm := List.mem_of_find?_eq_some hh
    have hfmt : e.fmt = fmt := by simpa using List.find?_some hh
    rw [← hfmt]
    exact h.digest g hg r hf e hm

/-- a generation that holds an `original` entry for the path makes `findOriginal` succeed -/
theorem findOriginal_of_entry (pre post : List LGen) (g : LGen) (sp : String) (r : Record) (e : Entry)
    (hf : g.gen.find sp = some r) (he : e ∈ r.entries) (ha : e.action = "original") :
    findOriginal (pre ++ g :: post) sp ≠ none := by
  cases hpre : findOriginal pre sp with
  | some o => rw [original_is_monotone pre _ sp o hpre]; simp
  | none =>
    unfold findOriginal at hpre ⊢
    rw [findSome_append, hpre]
    simp only [Option.orElse, List.findSome?_cons, hf]
    cases hfe : r.entries.find? (fun e => e.action == "original") with
    | none =>
      have := List.find?_eq_none.1 hfe e he
      simp [ha] at this
    | some x => simp

/-- once something is recorded for the file, an `original` entry is recorded for it -/
theorem PInv.orig_of_existing {env : Env} {sp : String} {c : Bytes} {gens : List LGen} (h : PInv env sp c gens)
    (hex : existingFormats gens sp ≠ []) : findOriginal gens sp ≠ none := by
  obtain ⟨f, hf⟩ := List.exists_mem_of_ne_nil _ hex
  obtain ⟨g, hg, r, hr, e, he, -⟩ := (mem_existingFormats gens sp f).1 hf
  obtain ⟨i, hi, rfl⟩ := List.getElem_of_mem hg
  have hact := h.action i hi r hr e he
  have hsplit : gens = gens.take i ++ gens[i] :: gens.drop (i + 1) := by
    rw [List.getElem_cons_drop, List.take_append_drop]
  by_cases h0 : findOriginal (gens.take i) sp = none
  · rw [if_pos h0] at hact
    rw [hsplit]
    exact findOriginal_of_entry _ _ _ sp r e hr he hact
  · cases hpre : findOriginal (gens.take i) sp with
    | none => exact absurd hpre h0
    | some o =>
      rw [hsplit, original_is_monotone _ _ sp o hpre]
      simp

theorem relabel_of_not_new (e : Entry) (h : e.action ≠ "new") : relabel e = e := by
  unfold relabel
  rw [if_neg (by simpa using h)]

theorem relabel_new (e : Entry) (h : e.action = "new") : (relabel e).action = "verified" := by
  unfold relabel
  rw [if_pos (by simpa using h)]

/-- the action `append_file_hash` decides is one of four -/
theorem decideAction_cases (gens : List LGen) (p fmt d : String) :
    decideAction gens p fmt d = "original" ∨ decideAction gens p fmt d = "verified" ∨
    decideAction gens p fmt d = "failed" ∨ decideAction gens p fmt d = "new" := by
  unfold decideAction
  cases findOriginal gens p with
  | none => simp
  | some o =>
    cases findFirstOfFormat gens p fmt with
    | none => simp
    | some e => by_cases h : e.digest = d <;> simp [h]

/-- every entry `seal_file_path` appends carries the digest of the current content and the action decided against
the history -/
theorem sealEntries_entry (gens : List LGen) (p : String) (dig : String → String) (req : List String) :
    ∀ e ∈ (sealEntries gens p dig req).1,
      e.digest = dig e.fmt ∧ e.action = decideAction gens p e.fmt (dig e.fmt) := by
  obtain ⟨ents1, ents2, heq, h1, h2, -⟩ := sealEntries_shape gens p dig req
  rw [heq]
  intro e he
  rcases List.mem_append.1 he with h | h
  · obtain ⟨-, hd, ha⟩ := h1 e h
    exact ⟨hd, by rw [ha, hd]⟩
  · obtain ⟨-, hd, ha⟩ := h2 e h
    exact ⟨hd, by rw [ha, hd]⟩

theorem mem_writtenEntries (env : Env) (gens : List LGen) (sp : String) (c : Bytes) (formats : List String)
    (e : Entry) : e ∈ writtenEntries env gens sp c formats ↔
      ∃ e0 ∈ (sealEntries gens sp (fun f => env.H f c) (isort strLe formats)).1, e = relabel e0 := by
  unfold writtenEntries
  rw [mem_isort, List.mem_map]
  constructor
  · rintro ⟨e0, h0, rfl⟩; exact ⟨e0, h0, rfl⟩
  · rintro ⟨e0, h0, rfl⟩; exact ⟨e0, h0, rfl⟩

theorem writtenEntries_ne_nil (env : Env) (gens : List LGen) (sp : String) (c : Bytes) (formats : List String)
    (hf : formats ≠ []) : writtenEntries env gens sp c formats ≠ [] := by
  have hfm : isort strLe formats ≠ [] := by
    intro h0
    have := length_isort strLe formats
    rw [h0] at this
    exact hf (List.length_eq_zero_iff.1 this.symm)
  obtain ⟨e0, he0⟩ := List.exists_mem_of_ne_nil _
    (sealEntries_ne_nil gens sp (fun f => env.H f c) (isort strLe formats) hfm)
  exact List.ne_nil_of_mem ((mem_writtenEntries env gens sp c formats _).2 ⟨e0, he0, rfl⟩)

/-- the entries written for a file that still has the content `c` all its recorded digests belong to: digests of
`c`; all `original` if no original entry is recorded yet, all `verified` otherwise; never `failed` -/
theorem writtenEntries_unaltered {env : Env} {sp : String} {c : Bytes} {gens : List LGen} (h : PInv env sp c gens)
    (formats : List String) :
    ∀ e ∈ writtenEntries env gens sp c formats, e.digest = env.H e.fmt c ∧
      e.action = if findOriginal gens sp = none then "original" else "verified" := by
  intro e he
  obtain ⟨e0, he0, rfl⟩ := (mem_writtenEntries env gens sp c formats e).1 he
  obtain ⟨hd, ha⟩ := sealEntries_entry gens sp _ _ e0 he0
  rw [relabel_digest, relabel_fmt]
  refine ⟨hd, ?_⟩
  have hnf := action_of_firstOk (fun f => env.H f c) gens sp e0.fmt h.firstOk
  rw [← ha] at hnf
  cases ho : findOriginal gens sp with
  | none =>
    have : e0.action = "original" := by
      rw [ha]; exact (original_iff_first gens sp e0.fmt _).2 ho
    rw [relabel_of_not_new e0 (by rw [this]; decide), this]
    rfl
  | some o =>
    have hno : e0.action ≠ "original" := by
      rw [ha]
      intro h1
      have := (original_iff_first gens sp e0.fmt _).1 h1
      rw [ho] at this; cases this
    simp only [reduceCtorEq, if_false]
    rcases decideAction_cases gens sp e0.fmt (env.H e0.fmt c) with h1 | h1 | h1 | h1
    · exact absurd (ha.trans h1) hno
    · rw [relabel_of_not_new e0 (by rw [ha, h1]; decide), ha, h1]
    · exact absurd (ha.trans h1) hnf
    · exact relabel_new e0 (ha.trans h1)

/-- the entries written for a file whose content changed from `c` (all recorded digests) to `c'`: digests of `c'`;
an entry in an already recorded format is `failed` exactly when the digest of `c'` differs from the digest of `c`
in that format, `verified` exactly when it is the same; and if any entry failed, nothing in a new format is
written -/
theorem writtenEntries_altered {env : Env} {sp : String} {c : Bytes} {gens : List LGen} (h : PInv env sp c gens)
    (c' : Bytes) (formats : List String) :
    ∀ e ∈ writtenEntries env gens sp c' formats, e.digest = env.H e.fmt c' ∧
      (e.fmt ∈ existingFormats gens sp →
        (e.action = "failed" ↔ env.H e.fmt c' ≠ env.H e.fmt c) ∧
        (e.action = "verified" ↔ env.H e.fmt c' = env.H e.fmt c)) ∧
      ((∃ e' ∈ writtenEntries env gens sp c' formats, e'.action = "failed") →
        e.fmt ∈ existingFormats gens sp) := by
  intro e he
  obtain ⟨e0, he0, rfl⟩ := (mem_writtenEntries env gens sp c' formats e).1 he
  obtain ⟨hd, ha⟩ := sealEntries_entry gens sp _ _ e0 he0
  rw [relabel_digest, relabel_fmt]
  refine ⟨hd, ?_, ?_⟩
  · intro hex
    have hne : existingFormats gens sp ≠ [] := List.ne_nil_of_mem hex
    obtain ⟨o, ho⟩ := Option.ne_none_iff_exists'.1 (h.orig_of_existing hne)
    obtain ⟨e1, he1⟩ := Option.ne_none_iff_exists'.1
      (fun hnone => ((findFirstOfFormat_none_iff gens sp e0.fmt).1 hnone) hex)
    have hdig1 : e1.digest = env.H e0.fmt c := h.firstOk e0.fmt e1 he1
    obtain ⟨hv, hfl⟩ := verified_iff_equal_first gens sp e0.fmt (env.H e0.fmt c') o e1 ho he1
    rw [hdig1] at hv hfl
    have hnn : e0.action ≠ "new" := by
      rw [ha]
      intro hnew
      by_cases heq : env.H e0.fmt c' = env.H e0.fmt c
      · rw [hv.2 heq] at hnew; exact absurd hnew (by decide)
      · rw [hfl.2 heq] at hnew; exact absurd hnew (by decide)
    rw [relabel_of_not_new e0 hnn, ha]
    exact ⟨hfl, hv⟩
  · rintro ⟨e', he', hfail⟩
    obtain ⟨e0', he0', rfl⟩ := (mem_writtenEntries env gens sp c' formats e').1 he'
    exact new_format_gated gens sp _ _ ⟨e0', he0', (relabel_failed e0').1 hfail⟩ e0 he0

/-- once something is recorded for the file, a run always checks at least one recorded format -/
theorem writtenEntries_has_checked (env : Env) (gens : List LGen) (sp : String) (c : Bytes) (formats : List String)
    (hex : existingFormats gens sp ≠ []) :
    ∃ e ∈ writtenEntries env gens sp c formats, e.fmt ∈ existingFormats gens sp := by
  have hch := checked_ne (existingFormats gens sp) (isort strLe formats) hex
  obtain ⟨f0, hf0⟩ := List.exists_mem_of_ne_nil _ hch
  have hf0ex : f0 ∈ existingFormats gens sp := (List.mem_filter.1 hf0).1
  have hmem : (⟨f0, env.H f0 c, decideAction gens sp f0 (env.H f0 c), none⟩ : Entry)
        ∈ (sealEntries gens sp (fun f => env.H f c) (isort strLe formats)).1 := by
    unfold sealEntries
    simp only [List.mem_append, List.mem_map]
    exact Or.inl ⟨f0, hf0, rfl⟩
  refine ⟨relabel _, (mem_writtenEntries env gens sp c formats _).2 ⟨_, hmem, rfl⟩, ?_⟩
  rw [relabel_fmt]
  exact hf0ex

/-- if the digest of the new content differs in EVERY recorded format, every entry written for the file is
`failed`, in a recorded format, and there is at least one -/
theorem writtenEntries_all_failed {env : Env} {sp : String} {c : Bytes} {gens : List LGen} (h : PInv env sp c gens)
    (c' : Bytes) (formats : List String) (hex : existingFormats gens sp ≠ [])
    (hdiff : ∀ f ∈ existingFormats gens sp, env.H f c' ≠ env.H f c) :
    writtenEntries env gens sp c' formats ≠ [] ∧
    ∀ e ∈ writtenEntries env gens sp c' formats, e.action = "failed" ∧ e.fmt ∈ existingFormats gens sp := by
  obtain ⟨e1, he1, hf1⟩ := writtenEntries_has_checked env gens sp c' formats hex
  have hfail1 : e1.action = "failed" :=
    ((writtenEntries_altered h c' formats e1 he1).2.1 hf1).1.2 (hdiff _ hf1)
  refine ⟨List.ne_nil_of_mem he1, ?_⟩
  intro e he
  obtain ⟨-, h2, h3⟩ := writtenEntries_altered h c' formats e he
  have hex' := h3 ⟨e1, he1, hfail1⟩
  exact ⟨(h2 hex').1.2 (hdiff _ hex'), hex'⟩

/-- the invariant after one more generation: the new generation has no record for the file, or a record whose
entries are digests of `c`, all `original` / all `verified` as the history before decides -/
theorem PInv.append {env : Env} {sp : String} {c : Bytes} {gens : List LGen} (h : PInv env sp c gens) (x : LGen)
    (hx : ∀ r, x.gen.find sp = some r → ∀ e ∈ r.entries, e.digest = env.H e.fmt c ∧
      e.action = if findOriginal gens sp = none then "original" else "verified") :
    PInv env sp c (gens ++ [x]) := by
  constructor
  · intro g hg r hr e he
    rcases List.mem_append.1 hg with hg | hg
    · exact h.digest g hg r hr e he
    · simp only [List.mem_singleton] at hg
      subst hg
      exact (hx r hr e he).1
  · intro i hi r hr e he
    simp only [List.length_append, List.length_singleton] at hi
    by_cases hlt : i < gens.length
    · rw [List.getElem_append_left hlt] at hr
      rw [List.take_append_of_le_length (by omega)]
      exact h.action i hlt r hr e he
    · have hie : i = gens.length := by omega
      subst hie
      rw [List.getElem_append_right (by omega)] at hr
      simp only [Nat.sub_self, List.getElem_cons_zero] at hr
      rw [List.take_left']
      · exact (hx r hr e he).2
      · rfl

/-- two lists of loaded generations with the same numbers and the same manifests are the same -/
theorem lgens_ext : ∀ (a b : List LGen), a.map (·.number) = b.map (·.number) → a.map (·.gen) = b.map (·.gen) → a = b
  | [], [], _, _ => rfl
  | [], _ :: _, h, _ => by simp at h
  | _ :: _, [], h, _ => by simp at h
  | x :: xs, y :: ys, h1, h2 => by
    simp only [List.map_cons, List.cons.injEq] at h1 h2
    have := lgens_ext xs ys h1.2 h2.2
    subst this
    cases x; cases y
    simp only at h1 h2
    rw [h1.1, h2.1]

/-! ## G. the lines of `info -sf` over such a history -/

/- `sfLines` (the lines `info -sf` prints for the path text `sp` over the generations `gens`) is defined in
MhlProps/C19.lean (moved there unchanged; still `MhlModel.sfLines`). -/

open MhlProps.C19 in
theorem mem_sfLines (gens : List LGen) (sp : String) (ℓ : Nat × String × String × String) :
    ℓ ∈ sfLines gens sp ↔ ∃ g ∈ gens, ∃ r, g.gen.find sp = some r ∧ ∃ e ∈ r.entries,
      ℓ = (g.number, e.fmt, e.digest, e.action) := by
  simp only [sfLines, List.mem_flatMap, List.mem_map]
  constructor
  · rintro ⟨g, hg, e, he, rfl⟩
    unfold recordEntries at he
    cases hf : g.gen.find sp with
    | none => simp [hf] at he
    | some r => simp only [hf] at he; exact ⟨g, hg, r, hf, e, he, rfl⟩
  · rintro ⟨g, hg, r, hf, e, he, rfl⟩
    exact ⟨g, hg, e, by simp [recordEntries, hf, he], rfl⟩

/-- the numbers ascend along the lines whenever they ascend along the generations -/
theorem sfLines_sorted (gens : List LGen) (sp : String) (hs : (gens.map (·.number)).Pairwise (· ≤ ·)) :
    ((sfLines gens sp).map (·.1)).Pairwise (· ≤ ·) := by
  rw [List.pairwise_map] at hs ⊢
  unfold sfLines
  rw [List.pairwise_flatMap]
  constructor
  · intro g _
    rw [List.pairwise_map]
    exact List.pairwise_of_forall (fun _ _ => Nat.le_refl _)
  · refine hs.imp ?_
    intro a b hab x hx y hy
    obtain ⟨_, _, rfl⟩ := List.mem_map.1 hx
    obtain ⟨_, _, rfl⟩ := List.mem_map.1 hy
    exact hab

theorem getElem_number_of_range (gens : List LGen) (N : Nat) (hnum : gens.map (·.number) = List.range' 1 N)
    (i : Nat) (hi : i < gens.length) : gens[i].number = i + 1 := by
  have : (gens.map (·.number))[i]'(by simpa using hi) = (List.range' 1 N)[i]'(by rw [← hnum]; simpa using hi) := by
    simp only [hnum]
  simp only [List.getElem_map, List.getElem_range'] at this
  omega

/-- what the lines look like over a history in which the file was never edited -/
theorem sfLines_unaltered {env : Env} {sp : String} {c : Bytes} {gens : List LGen} (h : PInv env sp c gens)
    (N : Nat) (hnum : gens.map (·.number) = List.range' 1 N) :
    (∀ ℓ ∈ sfLines gens sp, 1 ≤ ℓ.1 ∧ ℓ.1 ≤ N) ∧
    ((sfLines gens sp).map (·.1)).Pairwise (· ≤ ·) ∧
    (∀ ℓ ∈ sfLines gens sp, ℓ.2.2.1 = env.H ℓ.2.1 c) ∧
    (∀ ℓ ∈ sfLines gens sp,
      (ℓ.2.2.2 = "original" ∧ ∀ ℓ' ∈ sfLines gens sp, ℓ.1 ≤ ℓ'.1) ∨
      (ℓ.2.2.2 = "verified" ∧ ∃ ℓ' ∈ sfLines gens sp, ℓ'.1 < ℓ.1 ∧ ℓ'.2.2.2 = "original")) := by
  refine ⟨?_, ?_, ?_, ?_⟩
  · intro ℓ hℓ
    obtain ⟨g, hg, r, hf, e, he, rfl⟩ := (mem_sfLines gens sp ℓ).1 hℓ
    have : g.number ∈ List.range' 1 N := by rw [← hnum]; exact List.mem_map_of_mem hg
    rw [List.mem_range'_1] at this
    exact ⟨this.1, by omega⟩
  · apply sfLines_sorted
    rw [hnum]
    exact List.pairwise_le_range'
  · intro ℓ hℓ
    obtain ⟨g, hg, r, hf, e, he, rfl⟩ := (mem_sfLines gens sp ℓ).1 hℓ
    exact h.digest g hg r hf e he
  · intro ℓ hℓ
    obtain ⟨g, hg, r, hf, e, he, rfl⟩ := (mem_sfLines gens sp ℓ).1 hℓ
    obtain ⟨i, hi, rfl⟩ := List.getElem_of_mem hg
    have hact := h.action i hi r hf e he
    have hni := getElem_number_of_range gens N hnum i hi
    by_cases h0 : findOriginal (gens.take i) sp = none
    · left
      rw [if_pos h0] at hact
      refine ⟨hact, ?_⟩
      intro ℓ' hℓ'
      obtain ⟨g', hg', r', hf', e', he', rfl⟩ := (mem_sfLines gens sp ℓ').1 hℓ'
      obtain ⟨j, hj, rfl⟩ := List.getElem_of_mem hg'
      have hnj := getElem_number_of_range gens N hnum j hj
      show gens[i].number ≤ gens[j].number
      rw [hni, hnj]
      by_contra hlt
      have hji : j < i := by omega
      -- an earlier generation with an entry for the file makes `findOriginal` succeed before `i`
      have hactj := h.action j hj r' hf' e' he'
      have hsplit : gens.take i = gens.take j ++ gens[j] :: (gens.take i).drop (j + 1) := by
        have h1 : (gens.take i).take j = gens.take j := by
          rw [List.take_take]; congr 1; omega
        have h2 : j < (gens.take i).length := by simp; omega
        have h3 : (gens.take i)[j] = gens[j] := by simp
        rw [← h1, ← h3, List.getElem_cons_drop, List.take_append_drop]
      by_cases h0j : findOriginal (gens.take j) sp = none
      · rw [if_pos h0j] at hactj
        exact findOriginal_of_entry _ _ _ sp r' e' hf' he' hactj (hsplit ▸ h0)
      · cases hpre : findOriginal (gens.take j) sp with
        | none => exact h0j hpre
        | some o =>
          rw [hsplit, original_is_monotone _ _ sp o hpre] at h0
          cases h0
    · right
      rw [if_neg h0] at hact
      refine ⟨hact, ?_⟩
      obtain ⟨o, ho⟩ := Option.ne_none_iff_exists'.1 h0
      unfold findOriginal at ho
      obtain ⟨g', hg', hh⟩ := List.exists_of_findSome?_eq_some ho
      cases hf' : g'.gen.find sp with
      | none => simp [hf'] at hh
      | some r' =>
        simp only [hf'] at hh
        have hm := List.mem_of_find?_eq_some hh
        have hoa : o.action = "original" := by simpa using List.find?_some hh
        obtain ⟨j, hj, hgj⟩ := List.getElem_of_mem hg'
        have hj' : j < i ∧ j < gens.length := by
          simp only [List.length_take] at hj
          omega
        have hgj' : gens[j] = g' := by
          rw [← hgj]; simp
        refine ⟨(g'.number, o.fmt, o.digest, o.action), ?_, ?_, hoa⟩
        · exact (mem_sfLines gens sp _).2 ⟨g', List.mem_of_mem_take hg', r', hf', o, hm, rfl⟩
        · show g'.number < gens[i].number
          rw [hni, ← hgj', getElem_number_of_range gens N hnum j hj'.2]
          omega

theorem sfLines_append (a b : List LGen) (sp : String) : sfLines (a ++ b) sp = sfLines a sp ++ sfLines b sp := by
  simp [sfLines, List.flatMap_append]

open MhlProps.C19 in
theorem sfLines_single (g : LGen) (sp : String) :
    sfLines [g] sp = (recordEntries g sp).map fun e => (g.number, e.fmt, e.digest, e.action) := by
  simp [sfLines]

/-- a format is recorded for the file iff some line carries it -/
theorem mem_existing_iff_line (gens : List LGen) (sp f : String) :
    f ∈ existingFormats gens sp ↔ ∃ ℓ ∈ sfLines gens sp, ℓ.2.1 = f := by
  rw [mem_existingFormats]
  constructor
  · rintro ⟨g, hg, r, hr, e, he, rfl⟩
    exact ⟨_, (mem_sfLines gens sp _).2 ⟨g, hg, r, hr, e, he, rfl⟩, rfl⟩
  · rintro ⟨ℓ, hℓ, rfl⟩
    obtain ⟨g, hg, r, hr, e, he, rfl⟩ := (mem_sfLines gens sp ℓ).1 hℓ
    exact ⟨g, hg, r, hr, e, he, rfl⟩

/-- on an unaltered file every requested format gets an entry -/
theorem writtenEntries_requested {env : Env} {sp : String} {c : Bytes} {gens : List LGen} (h : PInv env sp c gens)
    (formats : List String) : ∀ f ∈ formats, ∃ e ∈ writtenEntries env gens sp c formats, e.fmt = f := by
  intro f hf
  have hnf := unaltered_no_failed (fun f => env.H f c) gens sp (isort strLe formats) h.firstOk
  obtain ⟨e0, he0, hfmt⟩ := sealEntries_requested gens sp _ _ hnf f ((mem_isort strLe formats f).2 hf)
  exact ⟨relabel e0, (mem_writtenEntries env gens sp c formats _).2 ⟨e0, he0, rfl⟩, by rw [relabel_fmt, hfmt]⟩

/-- nothing recorded for the file yet = no line yet -/
theorem PInv.orig_none_iff {env : Env} {sp : String} {c : Bytes} {gens : List LGen} (h : PInv env sp c gens) :
    findOriginal gens sp = none ↔ sfLines gens sp = [] := by
  constructor
  · intro h0
    by_contra hne
    obtain ⟨ℓ, hℓ⟩ := List.exists_mem_of_ne_nil _ hne
    have hex : existingFormats gens sp ≠ [] :=
      List.ne_nil_of_mem ((mem_existing_iff_line gens sp _).2 ⟨ℓ, hℓ, rfl⟩)
    exact h.orig_of_existing hex h0
  · intro h0
    cases ho : findOriginal gens sp with
    | none => rfl
    | some o =>
      exfalso
      obtain ⟨f, hf⟩ := List.exists_mem_of_ne_nil _ (existing_ne_of_original gens sp o ho)
      obtain ⟨ℓ, hℓ, -⟩ := (mem_existing_iff_line gens sp f).1 hf
      rw [h0] at hℓ
      cases hℓ

/-! ## H. checks for concrete trees, and a store without usable manifests -/

/-- whatever is at `p` is a file with content `c` (Boolean, for concrete trees) -/
def fileIsB (p : RelPath) (c : Bytes) (t : Node) : Bool :=
  match t.at? p with
  | some (.file _ c') => c' == c
  | some (.dir _ _ _) => false
  | none => true

theorem fileIsB_sound (p : RelPath) (c : Bytes) (t : Node) (h : fileIsB p c t = true) :
    ∀ n, t.at? p = some n → ∃ nm, n = .file nm c := by
  intro n hn
  unfold fileIsB at h
  rw [hn] at h
  cases n with
  | file nm c' =>
    simp only [beq_iff_eq] at h
    exact ⟨nm, by rw [h]⟩
  | dir _ _ _ => cases h

/-- an `ascmhl` folder in which every manifest is gone, is not listed in the chain file, or has a name that does not
parse yields no generation — and only such a folder does -/
theorem loadGens_eq_nil_iff (s : HistStore) :
    loadGens s = [] ↔
      ∀ g ∈ s.gens, g.state = .missing ∨ s.lists g.fileName = false ∨ parseGenName g.fileName = none := by
  constructor
  · intro h g hg
    by_cases hm : g.state = .missing
    · exact Or.inl hm
    by_cases hl : s.lists g.fileName = true
    · right; right
      cases hp : parseGenName g.fileName with
      | none => rfl
      | some k =>
        exfalso
        have : (⟨k, g⟩ : LGen) ∈ loadGens s := (C06.mem_loadGens_iff s ⟨k, g⟩).2 ⟨hg, hm, hl, hp⟩
        rw [h] at this
        cases this
    · right; left; simpa using hl
  · intro h
    apply List.eq_nil_iff_forall_not_mem.2
    intro lg hlg
    obtain ⟨hg, hm, hl, hp⟩ := (C06.mem_loadGens_iff s lg).1 hlg
    rcases h lg.gen hg with h1 | h1 | h1
    · exact hm h1
    · rw [hl] at h1; cases h1
    · rw [hp] at h1; cases h1

/-- in particular (the form before the repair of `load_from_path`): every manifest gone or with a name that does not
parse -/
theorem loadGens_eq_nil_of_unusable (s : HistStore)
    (h : ∀ g ∈ s.gens, g.state = .missing ∨ parseGenName g.fileName = none) : loadGens s = [] :=
  (loadGens_eq_nil_iff s).2 fun g hg => (h g hg).elim Or.inl (fun hp => Or.inr (Or.inr hp))

end MhlModel
