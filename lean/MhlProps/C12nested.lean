/-
C12nested — the remaining clauses of C12 as theorems about whole commands, for trees WITH nested histories.

 "A path matched by the effective ignore patterns (those of the latest generation plus those given on the command
  line or in a pattern file) is never hashed or recorded, does not contribute to any directory hash, and is reported
  neither as new nor as missing; the ascmhl folders themselves and .DS_Store are always excluded.  The pattern list
  written into each new generation contains every pattern of the previous generation in the same order plus the new
  ones without duplicates, and generations written into nested histories during a parent run also contain the
  parent's patterns."

Setting: `t` any tree whose history loads, `loadHistory t = .ok rootHist`; `rootHist` may have children and
grandchildren; `env` (hash function, decoder, MATCHER) arbitrary.  `effective rootHist cli file` is the command's
effective pattern list.  No hypothesis on the options: any formats (also none), with or without `-dr`, with or
without directory hashes.  `t.NamesDistinct` / `t.NamesOk` (sibling names distinct; no "/" in a name, no name ".")
where records are tied to paths.

1. `nested_written_ignore`   (+ `_commit`, `_at`, `_props`, `nested_written_prefix`, `nested_contains_parent`,
                             `nested_written_nodup_preserved`, `prefix_needs_nodup`)
                             the list written into EVERY generation of a run, root or nested, folder mode or -sf
2. `ignored_never_recorded`  (+ `written_visible`, `ignored_history_not_written`, `_commit`)
                             no record for an ignored path, in any history; `sf_records_named_ignored`: FALSE for -sf
3. `ignored_not_in_dirhash`  (+ `_dh` for verify -dh)  what is written depends on the visible entries only
4. `ignored_not_reported`    (+ `_text`, `_verify`, `_diff`, `_create`)  never reported new / altered / missing
5. `always_excluded`         (+ `_first_run`, `_written`, `_param`; `defaults_may_be_absent`: FALSE without `DefaultsIn`)

Helper lemmas: MhlProps/Proofs/IgnoreNestedLemmas.lean.
-/
import MhlProps.Proofs.IgnoreNestedLemmas
import MhlProps.C07impl
import MhlProps.Proofs.NestedSealLemmas

namespace MhlProps.C12nested
open MhlModel MhlProps.C12 MhlProps.IgnoreNested MhlProps.C02rec

/-- the effective pattern list of a command run on a tree whose history loaded as `rootHist`: the patterns of the
root history's latest generation (the defaults if there is none), then the command line's, then the pattern file's -/
def effective (rootHist : Hist) (cli file : List String) : List String :=
  setPatterns (latestIgnore rootHist.gens) cli file

/-! ### 1. the pattern list written into every generation of a run -/

/-- folder mode (with or without `-dr`, with or without directory hashes) -/
theorem createFolder_written_ignore (env : Env) (t : Node) (o : CreateOpts) (rootHist : Hist)
    (hl : loadHistory t = .ok rootHist) :
    ∀ w ∈ (createFolder env t o).written, ∃ h ∈ walkPost rootHist, w.histRoot = h.root ∧
      w.gen.ignore = setPatterns (latestIgnore h.gens) (effective rootHist o.ignoreCli o.ignoreFile) [] := by
  intro w hw
  rcases createFolder_written_pats_seq env t o rootHist hl with h0 | ⟨s, hs, hcm⟩
  · rw [h0] at hw; cases hw
  · have := commit_ignore rootHist s _ _ _ _ _ hcm w hw
    rwa [hs] at this

/-- `create -sf` -/
theorem createSingleFiles_written_ignore (env : Env) (t : Node) (o : CreateOpts) (rootHist : Hist)
    (hl : loadHistory t = .ok rootHist) :
    ∀ w ∈ (createSingleFiles env t o).written, ∃ h ∈ walkPost rootHist, w.histRoot = h.root ∧
      w.gen.ignore = setPatterns (latestIgnore h.gens) (effective rootHist o.ignoreCli o.ignoreFile) [] := by
  intro w hw
  rcases createSingleFiles_written_pats_seq env t o rootHist hl with h0 | ⟨s, hs, hcm⟩
  · rw [h0] at hw; cases hw
  · have := commit_ignore rootHist s _ _ _ _ _ hcm w hw
    rwa [hs] at this

/-- **nested_written_ignore.**  Whatever `create` is asked to do (folder mode or `-sf`, any options): EVERY generation
`w` it writes — into the root history or into a nested one, at any depth — belongs to a history `h` of the walk and
its pattern list is `setPatterns (latestIgnore h.gens) P []`, where `P` is the command's effective list: the previous
list of THAT history (the defaults if it has none), then the patterns of the run. -/
theorem nested_written_ignore (env : Env) (t : Node) (o : CreateOpts) (rootHist : Hist)
    (hl : loadHistory t = .ok rootHist) :
    ∀ w ∈ (create env t o).written, ∃ h ∈ walkPost rootHist, w.histRoot = h.root ∧
      w.gen.ignore = setPatterns (latestIgnore h.gens) (effective rootHist o.ignoreCli o.ignoreFile) [] := by
  unfold create
  split
  · exact createFolder_written_ignore env t o rootHist hl
  · exact createSingleFiles_written_ignore env t o rootHist hl

/-- the same in the form "the commit returned `ws`": for any session carrying the effective list -/
theorem nested_written_ignore_commit (rootHist : Hist) (s : Session) (rn stamp process : String)
    (cb : Option String) (ws : List Written) (hcm : commit rootHist s rn stamp process cb = .ok ws) :
    ∀ w ∈ ws, ∃ h ∈ walkPost rootHist, w.histRoot = h.root ∧
      w.gen.ignore = setPatterns (latestIgnore h.gens) s.patterns [] :=
  commit_ignore rootHist s rn stamp process cb ws hcm

/-- for trees a file system can hold the history is determined by its root folder: the list written into the
generation of the history rooted at `w.histRoot` is computed from THAT history's generations -/
theorem nested_written_ignore_at (env : Env) (t : Node) (o : CreateOpts) (rootHist : Hist)
    (hl : loadHistory t = .ok rootHist) (hd : t.NamesDistinct) :
    ∀ w ∈ (create env t o).written, ∀ h ∈ walkPost rootHist, h.root = w.histRoot →
      w.gen.ignore = setPatterns (latestIgnore h.gens) (effective rootHist o.ignoreCli o.ignoreFile) [] := by
  intro w hw h hh hr
  obtain ⟨h', hh', hr', hig⟩ := nested_written_ignore env t o rootHist hl w hw
  have hg := loadHistory_histOK t rootHist hl hd
  have : h = h' := mem_all_root_inj hg.nodup ((mem_walkPost _ _).1 hh) ((mem_walkPost _ _).1 hh') (hr.trans hr')
  rw [this]; exact hig

/-- **what `basePatterns` / `setPatterns` give for such a list** `I = setPatterns prev P []` (`prev` = the latest list
of the history written into, `P` = the effective list of the run):

(a) the starting list `basePatterns prev` is a PREFIX of `I`; it is the recorded list itself when that is non-empty
    and duplicate-free (without that hypothesis it is the recorded list with repetitions dropped and NOT a prefix,
    `MhlProps.C06seq.step_prefix_needs_nodup`), and the default list when nothing / an empty list is recorded;
    after it come patterns of `P` that were not present, each once, in the order of `P`;
(b) every pattern of `P` is in `I`;
(c) `I` is duplicate-free (so the hypothesis of (a) holds for the next run, `nested_written_nodup_preserved`);
(d) the default patterns are in `I` provided they are in the starting list of the history written into or in `P`
    (they are not in general: `defaults_may_be_absent`). -/
theorem nested_written_ignore_props (prev : Option (List String)) (P : List String) :
    let I := setPatterns prev P []
    (basePatterns prev <+: I) ∧
    (∀ l, prev = some l → l ≠ [] → l.Nodup → l <+: I) ∧
    ((prev = none ∨ prev = some []) → Gen.defaultIgnore <+: I) ∧
    (∃ added, I = basePatterns prev ++ added ∧ ∀ x ∈ added, x ∈ P ∧ x ∉ basePatterns prev) ∧
    (∀ x ∈ P, x ∈ I) ∧
    I.Nodup ∧
    ((∀ x ∈ Gen.defaultIgnore, x ∈ basePatterns prev ∨ x ∈ P) → ∀ x ∈ Gen.defaultIgnore, x ∈ I) := by
  intro I
  have hpre := basePatterns_prefix_setPatterns prev P []
  refine ⟨hpre, ?_, ?_, ?_, (setPatterns_contains_new prev P []).1, setPatterns_nodup prev P [], ?_⟩
  · intro l hl hne hnd
    subst hl
    rw [basePatterns_some_nodup l hne hnd] at hpre
    exact hpre
  · rintro (h | h) <;> subst h
    · rw [basePatterns_none] at hpre; exact hpre
    · rw [basePatterns_some_nil] at hpre; exact hpre
  · obtain ⟨added, h1, h2, -⟩ := setPatterns_shape prev P
    exact ⟨added, h1, h2⟩
  · intro h x hx
    apply (mem_setPatterns prev P [] x).2
    rcases h x hx with h | h
    · exact Or.inl h
    · exact Or.inr (Or.inl h)

/-- (a) on the command: for a tree a file system can hold, the generation written into the history `h` (root or
nested) starts with the default list when `h` had no generation, and with `h`'s latest list — same patterns, same
order — when that list is non-empty and duplicate-free -/
theorem nested_written_prefix (env : Env) (t : Node) (o : CreateOpts) (rootHist : Hist)
    (hl : loadHistory t = .ok rootHist) (hd : t.NamesDistinct) :
    ∀ w ∈ (create env t o).written, ∀ h ∈ walkPost rootHist, h.root = w.histRoot →
      (h.gens = [] → Gen.defaultIgnore <+: w.gen.ignore) ∧
      (∀ l, latestIgnore h.gens = some l → l ≠ [] → l.Nodup → l <+: w.gen.ignore) := by
  intro w hw h hh hr
  have hig := nested_written_ignore_at env t o rootHist hl hd w hw h hh hr
  obtain ⟨-, h2, h3, -⟩ :=
    nested_written_ignore_props (latestIgnore h.gens) (effective rootHist o.ignoreCli o.ignoreFile)
  rw [← hig] at h2 h3
  refine ⟨fun h0 => h3 (Or.inl ?_), fun l hl' hne hnd => h2 l hl' hne hnd⟩
  rw [h0]; rfl

/-- the hypothesis on duplicates in (a) is needed (list level; on a whole run: `MhlProps.C06seq.step_prefix_needs_nodup`):
a recorded list that repeats a pattern is not a prefix of the next list, which drops the repetition -/
theorem prefix_needs_nodup :
    setPatterns (some ["x", "x"]) ["y"] [] = ["x", "y"] ∧ ¬ ["x", "x"] <+: setPatterns (some ["x", "x"]) ["y"] [] := by
  decide

/-- the effective list itself: the root history's starting list is a prefix of it, every pattern given on the command
line or in the pattern file is in it, it is duplicate-free -/
theorem effective_props (rootHist : Hist) (cli file : List String) :
    basePatterns (latestIgnore rootHist.gens) <+: effective rootHist cli file ∧
    (∀ x, x ∈ effective rootHist cli file ↔ x ∈ basePatterns (latestIgnore rootHist.gens) ∨ x ∈ cli ∨ x ∈ file) ∧
    (effective rootHist cli file).Nodup :=
  ⟨basePatterns_prefix_setPatterns _ _ _, mem_setPatterns _ _ _, setPatterns_nodup _ _ _⟩

/-- **generations written into nested histories during a parent run also contain the parent's patterns** — and the
new ones: every generation of the run lists every pattern of the ROOT history's starting list, every `-i` pattern and
every pattern of the pattern file, whichever history it is written into; it also lists the patterns that history
had before (as a prefix), and no pattern twice. -/
theorem nested_contains_parent (env : Env) (t : Node) (o : CreateOpts) (rootHist : Hist)
    (hl : loadHistory t = .ok rootHist) :
    ∀ w ∈ (create env t o).written,
      (∀ x ∈ basePatterns (latestIgnore rootHist.gens), x ∈ w.gen.ignore) ∧
      (∀ x ∈ o.ignoreCli, x ∈ w.gen.ignore) ∧ (∀ x ∈ o.ignoreFile, x ∈ w.gen.ignore) ∧
      w.gen.ignore.Nodup ∧
      ∃ h ∈ walkPost rootHist, w.histRoot = h.root ∧ basePatterns (latestIgnore h.gens) <+: w.gen.ignore := by
  intro w hw
  obtain ⟨h, hh, hr, hig⟩ := nested_written_ignore env t o rootHist hl w hw
  obtain ⟨hpre, -, -, -, hP, hnd, -⟩ :=
    nested_written_ignore_props (latestIgnore h.gens) (effective rootHist o.ignoreCli o.ignoreFile)
  rw [← hig] at hpre hP hnd
  have hmem := (effective_props rootHist o.ignoreCli o.ignoreFile).2.1
  exact ⟨fun x hx => hP x ((hmem x).2 (Or.inl hx)), fun x hx => hP x ((hmem x).2 (Or.inr (Or.inl hx))),
    fun x hx => hP x ((hmem x).2 (Or.inr (Or.inr hx))), hnd, h, hh, hr, hpre⟩

/-- the duplicate-freeness needed for the prefix statement is re-established by every run: once the generation `w` is
the latest one of its history, that history's latest list is duplicate-free, whatever was recorded before -/
theorem nested_written_nodup_preserved (env : Env) (t : Node) (o : CreateOpts) (rootHist : Hist)
    (hl : loadHistory t = .ok rootHist) :
    ∀ w ∈ (create env t o).written, ∀ (gens : List LGen) (n : Nat),
      ∃ l, latestIgnore (gens ++ [⟨n, w.gen⟩]) = some l ∧ l ≠ [] ∧ l.Nodup := by
  intro w hw gens n
  refine ⟨w.gen.ignore, latestIgnore_append _ _, ?_, (nested_contains_parent env t o rootHist hl w hw).2.2.2.1⟩
  obtain ⟨h, -, -, hig⟩ := nested_written_ignore env t o rootHist hl w hw
  rw [hig]
  intro h0
  have hpre := basePatterns_prefix_setPatterns (latestIgnore h.gens) (effective rootHist o.ignoreCli o.ignoreFile) []
  rw [h0, List.prefix_nil] at hpre
  exact basePatterns_ne_nil _ hpre

/-! ### 2. no record for an ignored path, in any history -/

section recorded
variable (env : Env) (t : Node) (o : CreateOpts) (rootHist : Hist) (hl : loadHistory t = .ok rootHist)
  (hd : t.NamesDistinct) (hn : t.NamesOk)
include hl hd hn

omit hl hd hn in
/-- the matcher of the run is the model's matcher applied to the effective list -/
theorem cHit_eq : cHit env rootHist o = env.hit (effective rootHist o.ignoreCli o.ignoreFile) := rfl

/-- the session after the traversal fold (ANY requested formats, the empty list included) only has records that
denote visible paths, and only has lists for histories at or above a visited folder -/
theorem fold_session_sound :
    RecsAll (fun R path isDir => ∃ x ∈ visiblePaths (cHit env rootHist o) t, R ++ splitPath path = x.1 ∧ isDir = x.2)
        (cState env t rootHist o).session ∧
      RootsAll (fun R => ∃ x ∈ recItems (traverse (cHit env rootHist o) [] t), R <+: x.1)
        (cState env t rootHist o).session := by
  have hg := loadHistory_histOK t rootHist hl hd
  have hok := recItems_itemsOk hg (cHit env rootHist o) hd hn
  have hs : SCore rootHist (setPatterns (latestIgnore rootHist.gens) o.ignoreCli o.ignoreFile)
      (cState env t rootHist o).session (recItems (traverse (cHit env rootHist o) [] t)) :=
    createFold_score (env := env) hg hd hn (isort strLe o.formats) o.noDirHashes _ (cHit env rootHist o)
  constructor
  · intro l hlm r hr
    rw [← Session.get_of_mem _ hs.nodup hlm] at hr
    obtain ⟨x, hx, q, hq0, hq, hqx, hdir, -⟩ := hs.recs _ r hr
    have hqn : ∀ n ∈ q, NameOk n := fun n hn' => hok.names x hx n (mem_of_append_eq hqx n hn')
    have hvis : x ∈ visiblePaths (cHit env rootHist o) t := by
      rcases (mem_recItems _ t x).1 hx with h | ⟨h, -⟩
      · exact h
      · exfalso
        rw [h] at hqx
        exact hq0 (List.append_eq_nil_iff.1 hqx).2
    exact ⟨x, hvis, by rw [hq, splitPath_posix hqn]; exact hqx, hdir⟩
  · intro l hlm
    exact hs.rootsJ l.root (List.mem_map_of_mem hlm)

/-- … and so does the session that folder-mode `create` commits, after the optional rename detection -/
theorem final_session_sound :
    RecsAll (fun R path isDir => ∃ x ∈ visiblePaths (cHit env rootHist o) t, R ++ splitPath path = x.1 ∧ isDir = x.2)
        (cRen env t rootHist o).1 ∧
      RootsAll (fun R => ∃ x ∈ recItems (traverse (cHit env rootHist o) [] t), R <+: x.1) (cRen env t rootHist o).1 := by
  have hg := loadHistory_histOK t rootHist hl hd
  obtain ⟨h1, h2⟩ := fold_session_sound env t o rootHist hl hd hn
  unfold cRen
  split
  · refine ⟨detectRenames_recsAll _ _ _ _ _ _ h1, detectRenames_rootsAll _ _ _ ?_ _ _ _ h2⟩
    rintro R pr ⟨x, hx, hpre⟩ hpr
    exact ⟨x, hx, (parentRoot_prefix hg hpr).1.trans hpre⟩
  · exact ⟨h1, h2⟩

/-- **nothing else is recorded, whatever the options** (with or without `-dr`, with or without directory hashes):
every record of every generation folder-mode `create` writes — into the root history or a nested one — denotes a
VISIBLE path and has that entry's kind -/
theorem written_visible :
    ∀ w ∈ (createFolder env t o).written, ∀ r ∈ w.gen.records,
      ∃ x ∈ visiblePaths (cHit env rootHist o) t, w.histRoot ++ splitPath r.path = x.1 ∧ r.isDir = x.2 := by
  intro w hw r hr
  rw [createFolder_eq_gen env t o rootHist hl] at hw
  cases hcm : commit rootHist (cRen env t rootHist o).1 env.rootName env.stamp "in-place" with
  | error e => rw [hcm] at hw; cases hw
  | ok ws =>
    rw [hcm] at hw
    exact commit_recsAll rootHist _ _ _ _ _ ws hcm (final_session_sound env t o rootHist hl hd hn).1 w hw r hr

/-- **ignored_never_recorded.**  If some non-empty initial segment of `p` (`p` itself included) is matched by the
effective patterns, then no generation written by the run — into whichever history — has a record denoting `p`
(`w.histRoot ++ splitPath r.path = p`), be it a file record or a directory record. -/
theorem ignored_never_recorded (p : RelPath) (k : Nat) (hk0 : 0 < k) (hk : k ≤ p.length)
    (hh : env.hit (effective rootHist o.ignoreCli o.ignoreFile) (p.take k) = true) :
    ∀ w ∈ (createFolder env t o).written, ∀ r ∈ w.gen.records, w.histRoot ++ splitPath r.path ≠ p := by
  intro w hw r hr hden
  obtain ⟨x, hx, hx1, -⟩ := written_visible env t o rootHist hl hd hn w hw r hr
  rw [hden] at hx1
  obtain ⟨x1, x2⟩ := x
  simp only at hx1
  subst hx1
  exact MhlProps.C02.ignored_nowhere (cHit env rootHist o) t p x2 k hk0 hk hh hx

/-- the same in the form of the task: for the generations `ws` a successful commit of the run's session returned -/
theorem ignored_never_recorded_commit (ws : List Written)
    (hcm : commit rootHist (cSession env t rootHist o) env.rootName env.stamp "in-place" = .ok ws)
    (p : RelPath) (k : Nat) (hk0 : 0 < k) (hk : k ≤ p.length)
    (hh : env.hit (effective rootHist o.ignoreCli o.ignoreFile) (p.take k) = true) :
    ∀ w ∈ ws, ∀ r ∈ w.gen.records, w.histRoot ++ splitPath r.path ≠ p := by
  intro w hw r hr hden
  obtain ⟨x, hx, hx1, -⟩ := commit_recsAll rootHist _ _ _ _ _ ws hcm
    (fold_session_sound env t o rootHist hl hd hn).1 w hw r hr
  rw [hden] at hx1
  obtain ⟨x1, x2⟩ := x
  simp only at hx1
  subst hx1
  exact MhlProps.C02.ignored_nowhere (cHit env rootHist o) t p x2 k hk0 hk hh hx

/-- **no generation is written into an ignored history**: if a non-empty initial segment of `p` is matched, then no
history rooted at `p` or below `p` gets a new generation (so the root record `"."` / root hash of such a history is
not written either) — although `loadHistory` finds nested histories regardless of the patterns. -/
theorem ignored_history_not_written (p : RelPath) (k : Nat) (hk0 : 0 < k) (hk : k ≤ p.length)
    (hh : env.hit (effective rootHist o.ignoreCli o.ignoreFile) (p.take k) = true) :
    ∀ w ∈ (createFolder env t o).written, ¬ p <+: w.histRoot := by
  intro w hw hpre
  have hg := loadHistory_histOK t rootHist hl hd
  rw [createFolder_eq_gen env t o rootHist hl] at hw
  cases hcm : commit rootHist (cRen env t rootHist o).1 env.rootName env.stamp "in-place" with
  | error e => rw [hcm] at hw; cases hw
  | ok ws =>
    rw [hcm] at hw
    obtain ⟨R, hR, hwR⟩ := commit_session_below hg _ _ _ _ _ hcm w hw
    obtain ⟨l, hlm, rfl⟩ := List.mem_map.1 hR
    obtain ⟨x, hx, hRx⟩ := (final_session_sound env t o rootHist hl hd hn).2 l hlm
    have hpx : p <+: x.1 := (hpre.trans hwR).trans hRx
    rcases (mem_recItems _ t x).1 hx with hv | ⟨rfl, -⟩
    · obtain ⟨x1, x2⟩ := x
      obtain ⟨q, rfl⟩ := hpx
      refine MhlProps.C02.ignored_nowhere (cHit env rootHist o) t (p ++ q) x2 k hk0 ?_ ?_ hv
      · simp only [List.length_append]; omega
      · rw [List.take_append_of_le_length hk]; exact hh
    · have : p = [] := List.prefix_nil.1 hpx
      subst this
      simp at hk
      omega

end recorded

/-! ### 3. what is written — directory hashes included — depends on the visible entries only -/

section dirhash
variable (env : Env) (t₁ t₂ : Node) (o : CreateOpts) (rootHist : Hist)
  (hl₁ : loadHistory t₁ = .ok rootHist) (hl₂ : loadHistory t₂ = .ok rootHist)
  (hd₁ : t₁.NamesDistinct) (hd₂ : t₂.NamesDistinct) (hk : t₁.isDir = t₂.isDir)
  (hvis : visiblePaths (cHit env rootHist o) t₁ = visiblePaths (cHit env rootHist o) t₂)
  (hcont : ∀ p, (p, false) ∈ visiblePaths (cHit env rootHist o) t₁ → fileContent t₁ p = fileContent t₂ p)

include hd₁ hd₂ hk hvis in
/-- the same visible paths ⇒ the same traversal (folders yielded, order, children) -/
theorem same_traverse : traverse (cHit env rootHist o) [] t₁ = traverse (cHit env rootHist o) [] t₂ :=
  traverse_eq_of_visFrom_eq _ t₁ t₂ [] hd₁ hd₂ hk hvis

include hd₁ hd₂ hk hvis hcont in
/-- … ⇒ the same state after the traversal fold: session (all records, all directory hashes), failures, found and
new paths -/
theorem same_state : cState env t₁ rootHist o = cState env t₂ rootHist o := by
  unfold cState
  rw [← same_traverse env t₁ t₂ o rootHist hd₁ hd₂ hk hvis]
  apply foldl_congr_mem_w
  intro st v hv
  apply createVisit_congr
  intro c hc hcf
  apply hcont
  unfold visiblePaths
  exact List.mem_flatMap.2 ⟨v, hv, List.mem_map.2 ⟨c, hc, by rw [hcf]⟩⟩

include hd₁ hd₂ hk hvis hcont in
/-- … ⇒ the same session, not-found paths and renames after the optional rename detection -/
theorem same_ren : cRen env t₁ rootHist o = cRen env t₂ rootHist o := by
  have hst := same_state env t₁ t₂ o rootHist hd₁ hd₂ hk hvis hcont
  unfold cRen cNotFound_u
  rw [hst]
  split
  · rw [detectRenames_congr env t₁ t₂]
    intro np hnp
    obtain ⟨d, hv₂⟩ := cState_newPaths_visible env t₂ rootHist o np hnp
    have hv₁ : (np, d) ∈ visiblePaths (cHit env rootHist o) t₁ := by rw [hvis]; exact hv₂
    exact sameFileAt_of_visible _ t₁ t₂ hd₁ hd₂ np d hv₁ hv₂ (fun hd => hcont np (hd ▸ hv₁))
  · rfl

include hl₁ hl₂ hd₁ hd₂ hk hvis hcont in
/-- **ignored_not_in_dirhash.**  Two trees with the same loaded histories that show the same visible entries
(`visiblePaths` under the effective patterns, as lists) with the same content at the visible files — they may differ
arbitrarily in ignored files and in whatever lies below ignored folders — make folder-mode `create` (any options)
write EQUAL generations: the same records, the same digests, the same directory hashes (content and structure, of
every folder, in every history) and root hashes; and the same report.  The whole outcome is equal if moreover the
same referenced nested histories are present. -/
theorem ignored_not_in_dirhash :
    (createFolder env t₁ o).written = (createFolder env t₂ o).written ∧
    (createFolder env t₁ o).report = (createFolder env t₂ o).report ∧
    (cMissingHist t₁ rootHist = cMissingHist t₂ rootHist → createFolder env t₁ o = createFolder env t₂ o) := by
  rw [createFolder_eq_gen env t₁ o rootHist hl₁, createFolder_eq_gen env t₂ o rootHist hl₂,
    same_state env t₁ t₂ o rootHist hd₁ hd₂ hk hvis hcont, same_ren env t₁ t₂ o rootHist hd₁ hd₂ hk hvis hcont]
  cases commit rootHist (cRen env t₂ rootHist o).1 env.rootName env.stamp "in-place" with
  | error e => exact ⟨rfl, rfl, fun _ => rfl⟩
  | ok ws => exact ⟨rfl, rfl, fun h => by rw [h]⟩

end dirhash

/-- the same for `verify -dh`: the directory hashes it computes and everything it reports depend on the visible
entries and the content of the visible files only -/
theorem ignored_not_in_dirhash_dh (env : Env) (t₁ t₂ : Node) (o : DhOpts) (rootHist : Hist)
    (hl₁ : loadHistory t₁ = .ok rootHist) (hl₂ : loadHistory t₂ = .ok rootHist)
    (hd₁ : t₁.NamesDistinct) (hd₂ : t₂.NamesDistinct) (hk : t₁.isDir = t₂.isDir)
    (hvis : visiblePaths (env.hit (effective rootHist o.ignoreCli o.ignoreFile)) t₁ =
      visiblePaths (env.hit (effective rootHist o.ignoreCli o.ignoreFile)) t₂)
    (hcont : ∀ p, (p, false) ∈ visiblePaths (env.hit (effective rootHist o.ignoreCli o.ignoreFile)) t₁ →
      fileContent t₁ p = fileContent t₂ p) :
    verifyDh env t₁ o = verifyDh env t₂ o := by
  have htr := traverse_eq_of_visFrom_eq _ t₁ t₂ [] hd₁ hd₂ hk hvis
  unfold effective at htr hcont
  have hfold : (traverse (env.hit (setPatterns (latestIgnore rootHist.gens) o.ignoreCli o.ignoreFile)) [] t₁).foldl
        (dhVisit env t₁ rootHist (dhFormats rootHist o.format) o) ({} : DhState) =
      (traverse (env.hit (setPatterns (latestIgnore rootHist.gens) o.ignoreCli o.ignoreFile)) [] t₂).foldl
        (dhVisit env t₂ rootHist (dhFormats rootHist o.format) o) ({} : DhState) := by
    rw [← htr]
    apply foldl_congr_mem_w
    intro st v hv
    apply dhVisit_congr
    intro c hc hcf
    apply hcont
    unfold visiblePaths
    exact List.mem_flatMap.2 ⟨v, hv, List.mem_map.2 ⟨c, hc, by rw [hcf]⟩⟩
  unfold verifyDh
  simp only [hl₁, hl₂, hfold]

/-! ### 4. an ignored path is reported neither as new, nor as altered, nor as missing -/

section reported
variable (env : Env) (t : Node) (o : VerifyOpts) (hashing : Bool) (rootHist : Hist)

/-- the matcher of a verify / diff run is the model's matcher applied to the effective list -/
theorem vHit_eq : vHit env rootHist o = env.hit (effective rootHist o.ignoreCli o.ignoreFile) := rfl

/-- **ignored_not_reported** (on paths).  verify (`hashing = true`) and diff (`hashing = false`), any options: if some
non-empty initial segment of `p` is matched by the effective patterns, `p` is in none of the three lists of paths
whose texts make up the report (`MhlProps.C03.report_shape`). -/
theorem ignored_not_reported (p : RelPath) (k : Nat) (hk0 : 0 < k) (hk : k ≤ p.length)
    (hh : env.hit (effective rootHist o.ignoreCli o.ignoreFile) (p.take k) = true) :
    p ∉ vNews env t rootHist o hashing ∧ p ∉ vMism env t rootHist o hashing ∧ p ∉ vMissing env t rootHist o := by
  obtain ⟨h1, h2⟩ := MhlProps.C03.ignored_irrelevant env t o hashing rootHist p
  have h3 := h2 k hk0 hk hh
  exact ⟨h3.1, h3.2, h1 ((hitAbove_true_iff _ p).2 ⟨k, hk0, hk, hh⟩)⟩

/-- without a generation in the root history verify / diff report nothing at all -/
theorem verifyOrDiff_no_generation (hl : loadHistory t = .ok rootHist) (hg : rootHist.gens = []) :
    verifyOrDiff env t o hashing none = { err := some errNoHistory } := by
  unfold verifyOrDiff
  simp [hl, hg]

/-- **ignored_not_reported** (on the texts of the report), for trees whose names are well formed (`NamesOk`: no "/"
inside a name, no name "."), so that `posix` is injective on the paths in question: the text of an ignored path
made of well-formed names is reported neither as new nor as altered; nor as missing, provided no component of a
recorded (expected) path contains a "/" — which holds for whatever `splitPath` produces from a record. -/
theorem ignored_not_reported_text (hn : t.NamesOk) (hl : loadHistory t = .ok rootHist)
    (p : RelPath) (hp : ∀ s ∈ p, NameOk s) (k : Nat) (hk0 : 0 < k) (hk : k ≤ p.length)
    (hh : env.hit (effective rootHist o.ignoreCli o.ignoreFile) (p.take k) = true) :
    posix p ∉ (verifyOrDiff env t o hashing none).report.new ∧
    posix p ∉ (verifyOrDiff env t o hashing none).report.mismatch ∧
    ((∀ q ∈ expectedPaths rootHist, ∀ s ∈ q, '/' ∉ s.toList) →
      posix p ∉ (verifyOrDiff env t o hashing none).report.missing) := by
  have hpne : p ≠ [] := by
    intro h0; subst h0; simp at hk; omega
  by_cases hg : rootHist.gens = []
  · rw [verifyOrDiff_no_generation env t o hashing rootHist hl hg]
    exact ⟨by simp, by simp, fun _ => by simp⟩
  · obtain ⟨hm, hnw, hms, -, -⟩ := MhlProps.C03.report_shape env t o hashing rootHist hl hg
    obtain ⟨h1, h2, h3⟩ := ignored_not_reported env t o hashing rootHist p k hk0 hk hh
    rw [hm, hnw, hms]
    refine ⟨posix_not_mem_map hp hpne ?_ h1, posix_not_mem_map hp hpne ?_ h2,
      fun hexp => posix_not_mem_map hp hpne ?_ h3⟩
    · intro q hq s hs
      have hv := ((MhlProps.C03.news_iff env t o hashing rootHist q).1 hq).1
      exact ((visible_names_ok _ t hn _ hv).2 s hs).1
    · intro q hq s hs
      have hv := ((MhlProps.C03.mism_iff env t o hashing rootHist q).1 hq).1
      exact ((visible_names_ok _ t hn _ hv).2 s hs).1
    · intro q hq
      exact hexp q ((MhlProps.C03.missing_iff env t o rootHist q).1 hq).1

end reported

/-- the two commands: `verify` -/
theorem ignored_not_reported_verify (env : Env) (t : Node) (o : VerifyOpts) (rootHist : Hist) (hn : t.NamesOk)
    (hl : loadHistory t = .ok rootHist) (p : RelPath) (hp : ∀ s ∈ p, NameOk s) (k : Nat) (hk0 : 0 < k)
    (hk : k ≤ p.length) (hh : env.hit (effective rootHist o.ignoreCli o.ignoreFile) (p.take k) = true) :
    posix p ∉ (verify env t o).report.new ∧ posix p ∉ (verify env t o).report.mismatch ∧
    ((∀ q ∈ expectedPaths rootHist, ∀ s ∈ q, '/' ∉ s.toList) → posix p ∉ (verify env t o).report.missing) :=
  ignored_not_reported_text env t o true rootHist hn hl p hp k hk0 hk hh

/-- … and `diff` -/
theorem ignored_not_reported_diff (env : Env) (t : Node) (o : VerifyOpts) (rootHist : Hist) (hn : t.NamesOk)
    (hl : loadHistory t = .ok rootHist) (p : RelPath) (hp : ∀ s ∈ p, NameOk s) (k : Nat) (hk0 : 0 < k)
    (hk : k ≤ p.length) (hh : env.hit (effective rootHist o.ignoreCli o.ignoreFile) (p.take k) = true) :
    posix p ∉ (diff env t o).report.new ∧ posix p ∉ (diff env t o).report.mismatch ∧
    ((∀ q ∈ expectedPaths rootHist, ∀ s ∈ q, '/' ∉ s.toList) → posix p ∉ (diff env t o).report.missing) :=
  ignored_not_reported_text env t { o with singleFile := none } false rootHist hn hl p hp k hk0 hk hh

/-- the missing paths of a folder-mode `create` run (after the optional rename detection) -/
def cMissing_w (env : Env) (t : Node) (o : CreateOpts) (rootHist : Hist) : List RelPath :=
  missingAfter (cHit env rootHist o) (cRen env t rootHist o).2.1

/-- what folder-mode `create` reports as missing: the texts of `cMissing_w` (nothing if the commit aborted) -/
theorem createFolder_missing (env : Env) (t : Node) (o : CreateOpts) (rootHist : Hist)
    (hl : loadHistory t = .ok rootHist) :
    (createFolder env t o).report.missing = [] ∨
      (createFolder env t o).report.missing = (cMissing_w env t o rootHist).map posix := by
  rw [createFolder_eq_gen env t o rootHist hl]
  cases commit rootHist (cRen env t rootHist o).1 env.rootName env.stamp "in-place" with
  | error e => exact Or.inl rfl
  | ok ws => exact Or.inr rfl

theorem cMissing_expected (env : Env) (t : Node) (o : CreateOpts) (rootHist : Hist) :
    ∀ q ∈ cMissing_w env t o rootHist, q ∈ expectedPaths rootHist ∧ hitAbove (cHit env rootHist o) q = false := by
  intro q hq
  obtain ⟨h1, h2⟩ := (mem_missingAfter _ _ _).1 hq
  refine ⟨?_, h2⟩
  unfold cRen at h1
  split at h1
  · exact (List.mem_filter.1 (List.mem_filter.1 h1).1).1
  · exact (List.mem_filter.1 h1).1

/-- **ignored_not_reported** for folder-mode `create` (any options): an ignored path is not among the missing paths,
and (slash-free recorded components, well-formed `p`) its text is not in `report.missing` -/
theorem ignored_not_reported_create (env : Env) (t : Node) (o : CreateOpts) (rootHist : Hist)
    (hl : loadHistory t = .ok rootHist) (p : RelPath) (k : Nat) (hk0 : 0 < k) (hk : k ≤ p.length)
    (hh : env.hit (effective rootHist o.ignoreCli o.ignoreFile) (p.take k) = true) :
    p ∉ cMissing_w env t o rootHist ∧
    ((∀ s ∈ p, NameOk s) → (∀ q ∈ expectedPaths rootHist, ∀ s ∈ q, '/' ∉ s.toList) →
      posix p ∉ (createFolder env t o).report.missing) := by
  have hpne : p ≠ [] := by
    intro h0; subst h0; simp at hk; omega
  have hnot : p ∉ cMissing_w env t o rootHist := by
    intro hm
    have h1 := (cMissing_expected env t o rootHist p hm).2
    have h2 : hitAbove (cHit env rootHist o) p = true := (hitAbove_true_iff _ p).2 ⟨k, hk0, hk, hh⟩
    rw [h2] at h1
    cases h1
  refine ⟨hnot, fun hp hexp => ?_⟩
  rcases createFolder_missing env t o rootHist hl with h | h
  · rw [h]; simp
  · rw [h]
    exact posix_not_mem_map hp hpne (fun q hq => hexp q (cMissing_expected env t o rootHist q hq).1) hnot

/-! ### 5. `.DS_Store` and the `ascmhl` folders -/

/-- the regenerated default list -/
theorem defaultIgnore_eq : Gen.defaultIgnore = [".DS_Store", "ascmhl", "ascmhl/"] := rfl

/-- the default patterns are in the starting list of a history with these generations: it has no generation, or its
latest list is empty, or its latest list contains them -/
def DefaultsIn (gens : List LGen) : Prop := ∀ x ∈ Gen.defaultIgnore, x ∈ basePatterns (latestIgnore gens)

theorem defaultsIn_nil : DefaultsIn [] := by
  intro x hx
  show x ∈ basePatterns none
  rw [MhlModel.basePatterns_none]; exact hx

theorem defaultsIn_iff (gens : List LGen) :
    DefaultsIn gens ↔
      (latestIgnore gens = none ∨ latestIgnore gens = some []) ∨
        ∃ l, latestIgnore gens = some l ∧ ".DS_Store" ∈ l ∧ "ascmhl" ∈ l ∧ "ascmhl/" ∈ l := by
  unfold DefaultsIn
  constructor
  · intro h
    by_cases h0 : latestIgnore gens = none ∨ latestIgnore gens = some []
    · exact Or.inl h0
    · right
      have key : ∀ x ∈ Gen.defaultIgnore, ∃ l, latestIgnore gens = some l ∧ l ≠ [] ∧ x ∈ l := by
        intro x hx
        rcases (mem_basePatterns _ x).1 (h x hx) with ⟨h1, -⟩ | h1
        · exact absurd h1 h0
        · exact h1
      obtain ⟨l, hl, -, h1⟩ := key ".DS_Store" (by decide)
      obtain ⟨l2, hl2, -, h2⟩ := key "ascmhl" (by decide)
      obtain ⟨l3, hl3, -, h3⟩ := key "ascmhl/" (by decide)
      rw [hl] at hl2 hl3
      cases hl2; cases hl3
      exact ⟨l, hl, h1, h2, h3⟩
  · rintro (h | ⟨l, hl, h1, h2, h3⟩) x hx
    · exact (mem_basePatterns _ x).2 (Or.inl ⟨h, hx⟩)
    · have hne : l ≠ [] := List.ne_nil_of_mem h1
      refine (mem_basePatterns _ x).2 (Or.inr ⟨l, hl, hne, ?_⟩)
      rw [defaultIgnore_eq] at hx
      simp only [List.mem_cons, List.not_mem_nil, or_false] at hx
      rcases hx with rfl | rfl | rfl
      · exact h1
      · exact h2
      · exact h3

/-- **always_excluded** (list level).  The effective list of EVERY command (create, create -sf, verify, verify -sf,
verify -dh, diff, flatten all compute `setPatterns (latestIgnore rootHist.gens) cli file`) contains `.DS_Store`,
`ascmhl` and `ascmhl/` — provided the root history has no generation yet, or its latest list is empty, or its latest
list contains them (`DefaultsIn`); whatever is given on the command line or in the pattern file. -/
theorem always_excluded (rootHist : Hist) (cli file : List String) (h : DefaultsIn rootHist.gens) :
    ".DS_Store" ∈ effective rootHist cli file ∧ "ascmhl" ∈ effective rootHist cli file ∧
      "ascmhl/" ∈ effective rootHist cli file := by
  have key : ∀ x ∈ Gen.defaultIgnore, x ∈ effective rootHist cli file :=
    fun x hx => (mem_setPatterns _ _ _ x).2 (Or.inl (h x hx))
  exact ⟨key _ (by decide), key _ (by decide), key _ (by decide)⟩

/-- in particular on the first run -/
theorem always_excluded_first_run (rootHist : Hist) (cli file : List String) (h : rootHist.gens = []) :
    ".DS_Store" ∈ effective rootHist cli file ∧ "ascmhl" ∈ effective rootHist cli file ∧
      "ascmhl/" ∈ effective rootHist cli file :=
  always_excluded rootHist cli file (h ▸ defaultsIn_nil)

/-- … and the lists WRITTEN: every generation of a run whose root history satisfies `DefaultsIn` lists the three
default patterns, in whichever (nested) history it is written — also one whose own previous list lacked them; and the
property is inherited: once that generation is the latest of its history, `DefaultsIn` holds for that history. -/
theorem always_excluded_written (env : Env) (t : Node) (o : CreateOpts) (rootHist : Hist)
    (hl : loadHistory t = .ok rootHist) (h : DefaultsIn rootHist.gens) :
    ∀ w ∈ (create env t o).written,
      (".DS_Store" ∈ w.gen.ignore ∧ "ascmhl" ∈ w.gen.ignore ∧ "ascmhl/" ∈ w.gen.ignore) ∧
      ∀ (gens : List LGen) (n : Nat), DefaultsIn (gens ++ [⟨n, w.gen⟩]) := by
  intro w hw
  have hpar := (nested_contains_parent env t o rootHist hl w hw).1
  have h3 : ".DS_Store" ∈ w.gen.ignore ∧ "ascmhl" ∈ w.gen.ignore ∧ "ascmhl/" ∈ w.gen.ignore :=
    ⟨hpar _ (h _ (by decide)), hpar _ (h _ (by decide)), hpar _ (h _ (by decide))⟩
  refine ⟨h3, fun gens n => ?_⟩
  rw [defaultsIn_iff]
  exact Or.inr ⟨w.gen.ignore, latestIgnore_append _ _, h3⟩

/-- **the clause "always excluded" is FALSE without `DefaultsIn`**: `set_patterns` only falls back to the defaults
when there is no (or an empty) previous list.  A root history whose latest generation lists just `x` (a manifest
written by another tool, or edited): the effective list of every command is `["x"]`, and so is the list `create`
writes — `.DS_Store`, `ascmhl`, `ascmhl/` are in neither. -/
theorem defaults_may_be_absent :
    let g : Generation := { fileName := "0001_root_2020-01-01_000000Z.mhl", ignore := ["x"] }
    let t : Node := .dir "root" [.file "a" [1]] (some { gens := [g], chain := [⟨1, g.fileName⟩] })
    let rootHist : Hist := .mk [] [⟨1, g⟩] [⟨1, g.fileName⟩] true []
    let env : Env := { H := fun f _ => f, D := fun _ _ => some [], hit := fun _ _ => false, rootName := "root" }
    loadHistory t = .ok rootHist ∧ effective rootHist [] [] = ["x"] ∧
      ".DS_Store" ∉ effective rootHist [] [] ∧
      (create env t {}).written.map (fun w => (w.histRoot, w.number, w.gen.ignore)) = [([], 2, ["x"])] := by
  refine ⟨by rfl, by decide +kernel, by decide +kernel, by decide +kernel⟩

/-- what is assumed of the matcher (`pathspec` "gitwildmatch", a parameter of the model) for the name `n`: a pattern
list that contains the bare name `n` and no negated pattern matches every path whose LAST component is `n` -/
def HonorsName (hit : Matcher) (n : String) : Prop :=
  ∀ (pats : List String) (p : RelPath), n ∈ pats → (∀ q ∈ pats, q.toList.head? ≠ some '!') →
    p.getLast? = some n → hit pats p = true

/-- **always_excluded** (parametric in the matcher).  For a matcher that honours the bare names `.DS_Store` and
`ascmhl`, a root history satisfying `DefaultsIn`, and an effective list without negated patterns: every path with a
component `.DS_Store` or `ascmhl` has a matched initial segment — so (1–4) it is not visited, not hashed, not
recorded in any history, not part of any directory hash, not reported new / altered / missing. -/
theorem always_excluded_param (hit : Matcher) (hDS : HonorsName hit ".DS_Store") (hA : HonorsName hit "ascmhl")
    (rootHist : Hist) (cli file : List String) (hdef : DefaultsIn rootHist.gens)
    (hneg : ∀ q ∈ effective rootHist cli file, q.toList.head? ≠ some '!')
    (p : RelPath) (hp : ".DS_Store" ∈ p ∨ "ascmhl" ∈ p) :
    (∃ k, 0 < k ∧ k ≤ p.length ∧ hit (effective rootHist cli file) (p.take k) = true) ∧
    hitAbove (hit (effective rootHist cli file)) p = true ∧
    ∀ (t : Node) (d : Bool), (p, d) ∉ visiblePaths (hit (effective rootHist cli file)) t := by
  obtain ⟨h1, h2, -⟩ := always_excluded rootHist cli file hdef
  have key : ∀ n, n ∈ p → HonorsName hit n → n ∈ effective rootHist cli file →
      ∃ k, 0 < k ∧ k ≤ p.length ∧ hit (effective rootHist cli file) (p.take k) = true := by
    intro n hn hH hmem
    obtain ⟨a, b, rfl⟩ := List.append_of_mem hn
    refine ⟨a.length + 1, by omega, by simp, ?_⟩
    have : (a ++ n :: b).take (a.length + 1) = a ++ [n] := take_append_succ a n b
    rw [this]
    exact hH _ _ hmem hneg (by simp)
  have hk : ∃ k, 0 < k ∧ k ≤ p.length ∧ hit (effective rootHist cli file) (p.take k) = true := by
    rcases hp with hp | hp
    · exact key _ hp hDS h1
    · exact key _ hp hA h2
  refine ⟨hk, (hitAbove_true_iff _ p).2 hk, ?_⟩
  intro t d
  obtain ⟨k, hk0, hkl, hh⟩ := hk
  exact MhlProps.C02.ignored_nowhere _ t p d k hk0 hkl hh

/-! ### non-vacuity: a nested history at `A/` with its own previous list, root `create -i "*.tmp" -i "*.bak" -i "*.tmp"` -/

section Examples

/-- a toy matcher: the LAST component is compared with every pattern; `*suffix` matches by suffix, anything else
literally -/
def igMatch : Matcher := fun pats p =>
  match p.getLast? with
  | none => false
  | some n => pats.any fun pat =>
      if pat.toList.head? == some '*' then (pat.toList.drop 1).isSuffixOf n.toList else n == pat

def igEnv : Env :=
  { H := fun f c => f ++ ":" ++ toString c.length, D := fun _ _ => some [], hit := igMatch, rootName := "root" }

/-- the generation `A/` was sealed with on its own, with `-i "*.bak"` -/
def igGenA : Generation :=
  { fileName := "0001_A_2020-01-01_000000Z.mhl", ignore := [".DS_Store", "ascmhl", "ascmhl/", "*.bak"],
    records := [{ path := "a.txt", size := some 2,
                  entries := [{ fmt := "md5", digest := "md5:2", action := "original" }] }] }

def igStoreA : HistStore := { gens := [igGenA], chain := [⟨1, igGenA.fileName⟩] }

/-- no history at the root yet, one at `A/`; ignored files at both levels, an ignored folder with content -/
def igTree : Node :=
  .dir "root"
    [ .file "r.txt" [1], .file "x.tmp" [9],
      .dir "A" [ .file "a.txt" [1, 2], .file "old.bak" [3], .file "y.tmp" [4],
                 .dir "cache.tmp" [.file "deep.txt" [5]] none ] (some igStoreA) ] none

/-- the same visible entries; everything ignored is different (changed, gone, new, emptied), stored order differs -/
def igTree2 : Node :=
  .dir "root"
    [ .file "x.tmp" [9, 9, 9], .file "r.txt" [1], .file ".DS_Store" [],
      .dir "A" [ .file "a.txt" [1, 2], .file "old.bak" [], .dir "cache.tmp" [] none ] (some igStoreA) ] none

def igOpts : CreateOpts := { formats := ["md5"], ignoreCli := ["*.tmp", "*.bak", "*.tmp"] }

def igHist : Hist := .mk [] [] [] false [.mk ["A"] [⟨1, igGenA⟩] igStoreA.chain true []]

theorem igTree_loaded : loadHistory igTree = .ok igHist := by rfl
theorem igTree2_loaded : loadHistory igTree2 = .ok igHist := by rfl
theorem igTree_distinct : igTree.NamesDistinct := namesDistinctB_sound _ (by decide +kernel)
theorem igTree2_distinct : igTree2.NamesDistinct := namesDistinctB_sound _ (by decide +kernel)
theorem igTree_namesOk : igTree.NamesOk := by decide +kernel

/-- the effective list of the run: the defaults (no root generation), then the new patterns once each -/
example : effective igHist igOpts.ignoreCli igOpts.ignoreFile = [".DS_Store", "ascmhl", "ascmhl/", "*.tmp", "*.bak"] := by
  decide +kernel

/-- **`A`'s new generation lists `*.tmp`** (and keeps its own previous list as a prefix, in ITS order), evaluated
through the whole command; nothing ignored is recorded, neither the files nor what is below the ignored folder -/
example : ((create igEnv igTree igOpts).written.map fun w =>
      (w.histRoot, w.number, w.gen.ignore, w.gen.records.map (·.path))) =
    [ (["A"], 2, [".DS_Store", "ascmhl", "ascmhl/", "*.bak", "*.tmp"], ["a.txt"]),
      ([], 1, [".DS_Store", "ascmhl", "ascmhl/", "*.tmp", "*.bak"], ["A", "r.txt"]) ] := by decide +kernel

/-- `nested_written_ignore` / `nested_contains_parent` applied to that run -/
example : ∀ w ∈ (create igEnv igTree igOpts).written,
    "*.tmp" ∈ w.gen.ignore ∧ "*.bak" ∈ w.gen.ignore ∧ ".DS_Store" ∈ w.gen.ignore ∧ w.gen.ignore.Nodup ∧
    ∃ h ∈ walkPost igHist, w.histRoot = h.root ∧ basePatterns (latestIgnore h.gens) <+: w.gen.ignore := by
  intro w hw
  obtain ⟨h1, h2, -, h4, h5⟩ := nested_contains_parent igEnv igTree igOpts igHist igTree_loaded w hw
  exact ⟨h2 _ (by decide), h2 _ (by decide), h1 _ (by decide +kernel), h4, h5⟩

/-- the hypotheses of `ignored_never_recorded` hold for an ignored file in the nested history (`k = 2`) and for a file
below an ignored folder (`k = 2` of 3) -/
example : ∀ w ∈ (createFolder igEnv igTree igOpts).written, ∀ r ∈ w.gen.records,
    w.histRoot ++ splitPath r.path ≠ ["A", "y.tmp"] ∧ w.histRoot ++ splitPath r.path ≠ ["A", "cache.tmp", "deep.txt"] :=
  fun w hw r hr =>
    ⟨ignored_never_recorded igEnv igTree igOpts igHist igTree_loaded igTree_distinct igTree_namesOk
        ["A", "y.tmp"] 2 (by decide) (by decide) (by decide +kernel) w hw r hr,
     ignored_never_recorded igEnv igTree igOpts igHist igTree_loaded igTree_distinct igTree_namesOk
        ["A", "cache.tmp", "deep.txt"] 2 (by decide) (by decide) (by decide +kernel) w hw r hr⟩

/-- the hypotheses of `ignored_not_in_dirhash` hold for the two trees: same visible paths, same visible content -/
theorem ig_same_visible :
    visiblePaths (cHit igEnv igHist igOpts) igTree = visiblePaths (cHit igEnv igHist igOpts) igTree2 ∧
    visiblePaths (cHit igEnv igHist igOpts) igTree = [(["A", "a.txt"], false), (["A"], true), (["r.txt"], false)] ∧
    ∀ x ∈ visiblePaths (cHit igEnv igHist igOpts) igTree, fileContent igTree x.1 = fileContent igTree2 x.1 := by
  decide +kernel

example : (createFolder igEnv igTree igOpts).written = (createFolder igEnv igTree2 igOpts).written ∧
    (createFolder igEnv igTree igOpts).report = (createFolder igEnv igTree2 igOpts).report := by
  obtain ⟨h1, -, h3⟩ := ig_same_visible
  obtain ⟨ha, hb, -⟩ := ignored_not_in_dirhash igEnv igTree igTree2 igOpts igHist igTree_loaded igTree2_loaded
    igTree_distinct igTree2_distinct rfl h1 (fun p hp => h3 (p, false) hp)
  exact ⟨ha, hb⟩

/-- after the run: `verify` (no option) finds nothing new, nothing missing, although the ignored files are there
and unrecorded; `verify -dh` agrees with the recorded directory hashes -/
def igSealed : Node := applyWritten igTree (create igEnv igTree igOpts).written

example : (verify igEnv igSealed {}).err = none ∧ (verify igEnv igSealed {}).report.new = [] ∧
    (diff igEnv igSealed {}).err = none ∧ (verifyDh igEnv igSealed {}).err = none ∧
    (verifyDh igEnv igSealed {}).report.dirMismatch = [] := by
  rw [verify_eq_with, diff_eq_with]
  decide +kernel

/-- the toy matcher honours bare names -/
theorem igMatch_honors (n : String) (hn : n.toList.head? ≠ some '*') : HonorsName igMatch n := by
  intro pats p hmem _ hlast
  unfold igMatch
  rw [hlast]
  simp only [List.any_eq_true]
  refine ⟨n, hmem, ?_⟩
  have : (n.toList.head? == some '*') = false := by simpa using hn
  rw [this]
  simp

/-- `always_excluded_param` applies: a `.DS_Store` anywhere, or anything inside an `ascmhl` folder, is excluded -/
example (t : Node) (d : Bool) :
    (["A", "sub", ".DS_Store"], d) ∉ visiblePaths (igMatch (effective igHist igOpts.ignoreCli [])) t ∧
    (["A", "ascmhl", "0001.mhl"], d) ∉ visiblePaths (igMatch (effective igHist igOpts.ignoreCli [])) t :=
  ⟨(always_excluded_param igMatch (igMatch_honors _ (by decide)) (igMatch_honors _ (by decide)) igHist _ []
      defaultsIn_nil (by decide +kernel) _ (Or.inl (by decide))).2.2 t d,
   (always_excluded_param igMatch (igMatch_honors _ (by decide)) (igMatch_honors _ (by decide)) igHist _ []
      defaultsIn_nil (by decide +kernel) _ (Or.inr (by decide))).2.2 t d⟩

/-- **`create -sf` is NOT covered by "never hashed or recorded"**: a file named explicitly is sealed whatever the
patterns say, and a folder named explicitly is traversed although it is itself ignored (only what is below it is
matched).  The effective list matches `x.tmp` and `A/cache.tmp`, yet both get records.  (The code does the same:
`create_for_single_files_subcommand` consults the ignore spec only inside named folders.) -/
theorem sf_records_named_ignored :
    igEnv.hit (effective igHist igOpts.ignoreCli igOpts.ignoreFile) ["x.tmp"] = true ∧
    igEnv.hit (effective igHist igOpts.ignoreCli igOpts.ignoreFile) ["A", "cache.tmp"] = true ∧
    ((create igEnv igTree { igOpts with singleFiles := [["x.tmp"], ["A", "cache.tmp"]] }).written.map fun w =>
      (w.histRoot, w.gen.records.map (·.path))) = [(["A"], ["cache.tmp/deep.txt"]), ([], ["x.tmp"])] := by
  decide +kernel

end Examples

end MhlProps.C12nested
