/-
C11  "every file the tool writes is valid against the published schemas"

Every manifest written by create or flatten (`Xml.toXml g`) validates against the ASC MHL manifest XSD
(`Gen.manifestSchema`), every chain file (`Xml.chainToXml cs`) against the directory XSD (`Gen.directorySchema`) —
including generations that record no file at all and that carry only references.

The validator `Xsd.validate` is GENERIC (it interprets the schema value) and fuel-driven.  Route (a) of the task was
taken: MhlProps/Proofs/XsdLemmas.lean proves general lemmas about `matchRepeat` / `matchParticle` / `matchSeq` /
`matchChoice` for an arbitrary schema, each of the form "for EVERY fuel ≥ K the result is …" with an explicit K; here they
are instantiated per complex type of the two generated schemas, and the explicit bounds are compared with the fuel
`8 * size + 64` that `validate` supplies.  The schema values are only inspected through `lookupType … = …` (by `rfl`).

Main results
  `manifest_valid`     XsdWf g → validate manifestSchema (toXml g) = true
  `no_records_valid`   the same for g.records = []   (no `<hashes>` element is written: the former defect D4a)
  `refs_only_valid`    the same for g.records = [] and g.refs ≠ []
  `chain_valid`        cs ≠ [] → (∀ c ∈ cs, ChainWf c) → validate directorySchema (chainToXml cs) = true
  `chain_valid'`       the same under the hypotheses as worded in the task
  per element builder  `entry_valid`, `path_valid_file`, `path_valid_dir`, `container_valid`, `file_valid`, `dir_valid`,
                       `root_valid`, `author_valid`, `creator_valid`, `ignore_valid`, `process_valid`, `ref_valid`,
                       `hashes_valid`, `references_valid`, `hashlist_valid` (explicit fuel bounds)
  `sorted_formats_sublist` (XsdLemmas)  a strLe-sorted duplicate-free list of supported formats is in schema order
  `sorted_formats_accepted`, `six_valid`  … and is accepted by the six optional elements c4, md5, sha1, xxh128, xxh3, xxh64
  `inOrder_of_sorted`, `InOrder.nodup/.supported/.sorted`  `InOrder` = pairwise distinct ∧ supported ∧ alphabetical
  negative sanity      `empty_hashes_invalid` (D4a), `double_md5_invalid` (D4b), `wrong_order_invalid`,
                       `no_version_invalid`, `action_new_invalid`, `chain_without_c4_invalid`, `text_in_hashlist_invalid`
  positive sanity      `rich_wf`, `rich_valid` (through the theorem), `rich_valid_eval` (by kernel evaluation)
  `fuel_not_monotone`  the generic matcher is NOT monotone in its fuel (on a non-deterministic schema)

What `XsdWf` does NOT need (the validator accepts it, so the condition is weaker than the expected ingredients):
hostname, tool name, tool version, author name, location, comment, record paths, digests, structure hashes, reference path
and reference c4 may be ANY text or absent (their types are xs:string / RelativePathType).
What `XsdWf` needs beyond the expected ingredients, because the WRITER of the model would otherwise produce an element
the schema rejects:
  * a DIRECTORY record must have `size = none`: `pathElem` writes the size attribute for every record that has one, and
    `DirectoryHashType.path` declares no `size` attribute (see `dir_with_size_invalid`);
  * the root hash must have `prev = none`: `dirElem "roothash" false r` appends `prevElems r`, and
    `RootDirectoryHashType` has no `previousPath` child (see `root_with_prev_invalid`).
-/
import MhlProps.Proofs.XsdLemmas

namespace MhlProps.C11
open MhlModel MhlModel.Xml MhlModel.Xsd MhlModel.Gen

/-! ## the well-formedness condition on a generation -/

def emailRe : String := "[^@]+@[^\\.]+\\..+"
def actions : List String := ["original", "verified", "failed"]
def processes : List String := ["in-place", "transfer", "flatten"]

/-- an optional text: absent, or satisfying `p` -/
def OptOk (p : String → Prop) : Option String → Prop
  | none => True
  | some s => p s

/-- a required text: present and satisfying `p` -/
def ReqOk (p : String → Prop) : Option String → Prop
  | none => False
  | some s => p s

instance (p : String → Prop) [DecidablePred p] (o : Option String) : Decidable (OptOk p o) := by
  cases o <;> unfold OptOk <;> infer_instance

instance (p : String → Prop) [DecidablePred p] (o : Option String) : Decidable (ReqOk p o) := by
  cases o <;> unfold ReqOk <;> infer_instance

abbrev IsDate (s : String) : Prop := isDateTime s = true

/-- action ∈ {original, verified, failed} if present; hashdate an xs:dateTime if present -/
def EntryWf (e : XEntry) : Prop := OptOk (· ∈ actions) e.action ∧ OptOk IsDate e.hashdate

/-- the formats are pairwise distinct, supported, and in the order of the schema (= alphabetical) -/
def InOrder (es : List XEntry) : Prop := (es.map (·.fmt)).Sublist fmtOrder

/-- a FILE record: the formats are pairwise distinct and supported (the writer sorts them) -/
def FileWf (r : XRecord) : Prop :=
  OptOk IsDate r.lastmod ∧ (r.entries.map (·.fmt)).Nodup ∧ (∀ e ∈ r.entries, e.fmt ∈ Gen.supportedFormats) ∧
    ∀ e ∈ r.entries, EntryWf e

/-- a DIRECTORY record: the formats are already in order (the writer does not sort them); no size -/
def DirWf (r : XRecord) : Prop :=
  r.size = none ∧ OptOk IsDate r.lastmod ∧ InOrder r.entries ∧ ∀ e ∈ r.entries, EntryWf e

/-- the root hash: not written at all when it has no entry -/
def RootWf (r : XRecord) : Prop :=
  r.entries.isEmpty = true ∨ (r.prev = none ∧ InOrder r.entries ∧ ∀ e ∈ r.entries, EntryWf e)

def RecordWf (r : XRecord) : Prop := if r.isDir then DirWf r else FileWf r

def AuthorWf (a : XAuthor) : Prop := OptOk (fun e => matchesPattern emailRe e = true) a.email

def XsdWf (g : XGen) : Prop :=
  ReqOk IsDate g.creator.creationdate ∧
  (∀ a ∈ g.creator.authors, AuthorWf a) ∧
  ReqOk (· ∈ processes) g.process ∧
  (∀ r, g.rootHash = some r → RootWf r) ∧
  g.ignore ≠ [] ∧
  (∀ r ∈ g.records, RecordWf r)

/-- a chain entry: the sequence number, if present, is an xs:integer; the format is c4 -/
def ChainWf (c : XChainEntry) : Prop := OptOk (fun s => isInteger s = true) c.seq ∧ c.fmt.getD "c4" = "c4"

instance (e : XEntry) : Decidable (EntryWf e) := by unfold EntryWf; infer_instance
instance (es : List XEntry) : Decidable (InOrder es) := by unfold InOrder; infer_instance
instance (r : XRecord) : Decidable (FileWf r) := by unfold FileWf; infer_instance
instance (r : XRecord) : Decidable (DirWf r) := by unfold DirWf; infer_instance
instance (r : XRecord) : Decidable (RootWf r) := by unfold RootWf; infer_instance
instance (r : XRecord) : Decidable (RecordWf r) := by unfold RecordWf; infer_instance
instance (a : XAuthor) : Decidable (AuthorWf a) := by unfold AuthorWf; infer_instance
instance (c : XChainEntry) : Decidable (ChainWf c) := by unfold ChainWf; infer_instance

/-! ### `InOrder` is exactly "pairwise distinct, supported, alphabetical" -/

theorem mem_fmtOrder_iff (f : String) : f ∈ fmtOrder ↔ f ∈ Gen.supportedFormats := by
  simp only [fmtOrder, Gen.supportedFormats, List.mem_cons, List.not_mem_nil, or_false]
  constructor <;> intro h <;> rcases h with h | h | h | h | h | h <;> simp [h]

theorem InOrder.nodup {es : List XEntry} (h : InOrder es) : (es.map (·.fmt)).Nodup :=
  List.Nodup.sublist h (by decide)

theorem InOrder.supported {es : List XEntry} (h : InOrder es) : ∀ e ∈ es, e.fmt ∈ Gen.supportedFormats :=
  fun e he => (mem_fmtOrder_iff _).1 (List.Sublist.subset h (List.mem_map.2 ⟨e, he, rfl⟩))

theorem InOrder.sorted {es : List XEntry} (h : InOrder es) : (es.map (·.fmt)).Pairwise (· < ·) :=
  List.Pairwise.sublist h fmtOrder_sorted

theorem inOrder_of_sorted {es : List XEntry} (hs : (es.map (·.fmt)).Pairwise (· < ·))
    (hsup : ∀ e ∈ es, e.fmt ∈ Gen.supportedFormats) : InOrder es := by
  refine sublist_of_pairwise_lt fmtOrder _ hs fmtOrder_sorted ?_
  intro x hx
  obtain ⟨e, he, rfl⟩ := List.mem_map.1 hx
  exact (mem_fmtOrder_iff _).2 (hsup e he)

/-- what the writer does to a file record -/
theorem inOrder_isort {es : List XEntry} (hnd : (es.map (·.fmt)).Nodup)
    (hsup : ∀ e ∈ es, e.fmt ∈ Gen.supportedFormats) : InOrder (isort (fun a b => strLe a.fmt b.fmt) es) :=
  sorted_formats_sublist es hnd fun e he => (mem_fmtOrder_iff _).2 (hsup e he)

/-! ## the manifest schema, type by type -/

section manifest
local notation "S" => manifestSchema

theorem vt_string (s : String) : validText S "string" s = true := rfl
theorem vt_relpath (s : String) : validText S "RelativePathType" s = true := rfl
theorem vt_dateTime (s : String) : validText S "dateTime" s = isDateTime s := rfl
theorem vt_integer (s : String) : validText S "integer" s = isInteger s := rfl
theorem vt_action (s : String) : validText S "ActionAttributeType" s = actions.contains s := rfl
theorem vt_email (s : String) : validText S "EmailAddressAttributeType" s = matchesPattern emailRe s := rfl

/-- the six optional format elements, in schema order -/
def sixFormats : List Particle := fmtOrder.map fun n => .elem n "HashFormatType" 0 (some 1)

theorem lk_hashFormat : lookupType S "HashFormatType" = some (.simpleContent "string"
    [⟨"action", "ActionAttributeType", false, none⟩, ⟨"hashdate", "dateTime", false, none⟩,
     ⟨"structure", "string", false, none⟩]) := rfl

theorem lk_container : lookupType S "DirectoryHashFormatContainerType" =
    some (.complex (.seq sixFormats 1 (some 1)) []) := rfl

theorem lk_filePath : lookupType S "HashType.path" = some (.simpleContent "RelativePathType"
    [⟨"size", "integer", false, none⟩, ⟨"creationdate", "dateTime", false, none⟩,
     ⟨"lastmodificationdate", "dateTime", false, none⟩]) := rfl

theorem lk_dirPath : lookupType S "DirectoryHashType.path" = some (.simpleContent "RelativePathType"
    [⟨"creationdate", "dateTime", false, none⟩, ⟨"lastmodificationdate", "dateTime", false, none⟩]) := rfl

theorem lk_relpath : lookupType S "RelativePathType" = some (.simple (.base "string")) := rfl

theorem lk_hash : lookupType S "HashType" = some (.complex (.seq
    [.elem "path" "HashType.path" 1 (some 1), .seq sixFormats 1 (some 1),
     .elem "previousPath" "RelativePathType" 0 (some 1), .elem "metadata" "MetadataType" 0 (some 1)] 1 (some 1)) []) := rfl

theorem lk_dirHash : lookupType S "DirectoryHashType" = some (.complex (.seq
    [.elem "path" "DirectoryHashType.path" 1 (some 1), .elem "content" "DirectoryHashFormatContainerType" 1 (some 1),
     .elem "structure" "DirectoryHashFormatContainerType" 1 (some 1),
     .elem "previousPath" "RelativePathType" 0 (some 1), .elem "metadata" "MetadataType" 0 (some 1)] 1 (some 1)) []) := rfl

theorem lk_rootHash : lookupType S "RootDirectoryHashType" = some (.complex (.seq
    [.elem "content" "DirectoryHashFormatContainerType" 1 (some 1),
     .elem "structure" "DirectoryHashFormatContainerType" 1 (some 1)] 1 (some 1)) []) := rfl

theorem lk_hashes : lookupType S "HashesType" = some (.complex (.choice
    ([("hash", "HashType"), ("directoryhash", "DirectoryHashType")].map fun a => .elem a.1 a.2 1 (some 1)) 1 none) []) := rfl

theorem lk_author : lookupType S "AuthorType" = some (.simpleContent "string"
    [⟨"email", "EmailAddressAttributeType", false, none⟩, ⟨"phone", "string", false, none⟩,
     ⟨"role", "string", false, none⟩]) := rfl

theorem lk_tool : lookupType S "ToolType" = some (.simpleContent "string" [⟨"version", "string", false, none⟩]) := rfl

theorem lk_process : lookupType S "ProcessType" = some (.simple (.enum processes)) := rfl

theorem lk_dateTime : lookupType S "dateTime" = none := rfl
theorem lk_string : lookupType S "string" = none := rfl

theorem lk_ignore : lookupType S "IgnoreType" =
    some (.complex (.seq [.elem "pattern" "string" 1 none] 1 (some 1)) []) := rfl

theorem lk_creator : lookupType S "CreatorInfoType" = some (.complex (.seq
    [.elem "creationdate" "dateTime" 1 (some 1), .elem "hostname" "string" 1 (some 1),
     .elem "tool" "ToolType" 1 (some 1), .elem "author" "AuthorType" 0 none, .elem "location" "string" 0 (some 1),
     .elem "comment" "string" 0 (some 1)] 1 (some 1)) []) := rfl

theorem lk_processInfo : lookupType S "ProcessInfoType" = some (.complex (.seq
    [.elem "process" "ProcessType" 1 (some 1), .elem "roothash" "RootDirectoryHashType" 0 (some 1),
     .elem "ignore" "IgnoreType" 0 (some 1)] 1 (some 1)) []) := rfl

theorem lk_ref : lookupType S "HashListReferenceType" = some (.complex (.seq
    [.elem "path" "RelativePathType" 1 (some 1), .elem "c4" "HashFormatType" 1 (some 1)] 1 (some 1)) []) := rfl

theorem lk_references : lookupType S "ReferencesType" =
    some (.complex (.seq [.elem "hashlistreference" "HashListReferenceType" 1 none] 1 (some 1)) []) := rfl

theorem lk_hashList : lookupType S "HashListType" = some (.complex (.seq
    [.elem "creatorinfo" "CreatorInfoType" 1 (some 1), .elem "processinfo" "ProcessInfoType" 1 (some 1),
     .elem "hashes" "HashesType" 0 (some 1), .elem "metadata" "MetadataType" 0 (some 1),
     .elem "references" "ReferencesType" 0 (some 1)] 1 (some 1)) [⟨"version", "string", true, some "2.0"⟩]) := rfl

theorem validAttrs_nil (sch : Schema) : validAttrs sch [] [] = true := rfl

/-- a leaf of type xs:string (any text, or none) -/
theorem string_leaf_valid (tag : String) (t : Option String) : EvValid 1 S "string" (.mk tag [] t []) :=
  evValid_builtin lk_string rfl rfl rfl

/-- a leaf of type RelativePathType (any text, or none) -/
theorem relpath_leaf_valid (tag : String) (t : Option String) : EvValid 1 S "RelativePathType" (.mk tag [] t []) :=
  evValid_simple lk_relpath rfl rfl rfl

/-! ### `<c4>`, `<md5>`, … -/

theorem entry_valid (e : XEntry) (t : Option String) (h : EntryWf e) :
    EvValid 1 S "HashFormatType" (entryElem e t) := by
  refine evValid_simpleContent lk_hashFormat rfl ?_ (vt_string _)
  obtain ⟨h1, h2⟩ := h
  simp only [entryElem, Elem.attrs]
  cases ha : e.action <;> cases hd : e.hashdate <;> simp only [ha, hd, OptOk, IsDate] at h1 h2 <;>
    simp [validAttrs, optAttr, vt_action, vt_dateTime, h1, h2] <;> decide

theorem headNe_prev (r : XRecord) (n : String) (hn : n ≠ "previousPath") : HeadNe n (prevElems r) := by
  unfold prevElems
  cases r.prev with
  | none => exact headNe_nil n
  | some p => exact headNe_cons (by simpa [Elem.tag] using Ne.symm hn)

theorem headNe_prev_fmt (r : XRecord) : ∀ n ∈ fmtOrder, HeadNe n (prevElems r) := by
  intro n hn
  refine headNe_prev r n ?_
  rintro rfl
  revert hn
  decide

/-- the six optional format elements accept the entries of a record whose formats are in order, whatever the texts -/
theorem six_valid (es : List XEntry) (txt : XEntry → Option String) (rest : List Elem) (ho : InOrder es)
    (hw : ∀ e ∈ es, EntryWf e) (hrest : ∀ n ∈ fmtOrder, HeadNe n rest) :
    EvSeq 10 S sixFormats (es.map (fun e => entryElem e (txt e)) ++ rest) rest := by
  have := evSeq_optionals (K := 1) S "HashFormatType" rest fmtOrder (by decide) hrest
    (es.map fun e => entryElem e (txt e)) (by simpa [InOrder, List.map_map, Function.comp_def, entryElem, Elem.tag] using ho)
    (by
      intro x hx
      obtain ⟨e, he, rfl⟩ := List.mem_map.1 hx
      exact entry_valid e _ (hw e he))
  exact this.mono (by decide)

/-- the alphabetical order of the writer is the order of the schema: the `strLe`-sorted, duplicate-free, supported formats
of a file record are accepted by the six optional elements -/
theorem sorted_formats_accepted (es : List XEntry) (rest : List Elem) (hnd : (es.map (·.fmt)).Nodup)
    (hsup : ∀ e ∈ es, e.fmt ∈ Gen.supportedFormats) (hw : ∀ e ∈ es, EntryWf e)
    (hrest : ∀ n ∈ fmtOrder, HeadNe n rest) :
    EvSeq 10 S sixFormats
      ((isort (fun a b => strLe a.fmt b.fmt) es).map (fun e => entryElem e (some e.digest)) ++ rest) rest :=
  six_valid _ _ rest (inOrder_isort hnd hsup) (fun e he => hw e ((mem_isort_d _ _ _).1 he)) hrest

/-- `<content>` / `<structure>` -/
theorem container_valid (tag : String) (es : List XEntry) (txt : XEntry → Option String) (ho : InOrder es)
    (hw : ∀ e ∈ es, EntryWf e) :
    EvValid 14 S "DirectoryHashFormatContainerType" (.mk tag [] none (es.map fun e => entryElem e (txt e))) := by
  refine evValid_complex (K := 13) lk_container rfl rfl ?_
  have := six_valid es txt [] ho hw (fun n _ => headNe_nil n)
  rw [List.append_nil] at this
  exact evPart_seq this

/-! ### `<path>` -/

theorem path_valid_file (r : XRecord) (h : OptOk IsDate r.lastmod) : EvValid 1 S "HashType.path" (pathElem r) := by
  refine evValid_simpleContent lk_filePath rfl ?_ (vt_relpath _)
  have hi : ∀ n : Nat, isInteger n.repr = true := fun n => isInteger_toString n
  simp only [pathElem, Elem.attrs]
  cases hs : r.size <;> cases hl : r.lastmod <;> simp only [hl, OptOk, IsDate] at h <;>
    simp [validAttrs, optAttr, vt_integer, vt_dateTime, hi, h] <;> decide

theorem path_valid_dir (r : XRecord) (hs : r.size = none) (h : OptOk IsDate r.lastmod) :
    EvValid 1 S "DirectoryHashType.path" (pathElem r) := by
  refine evValid_simpleContent lk_dirPath rfl ?_ (vt_relpath _)
  simp only [pathElem, Elem.attrs, hs]
  cases hl : r.lastmod <;> simp only [hl, OptOk, IsDate] at h <;>
    simp [validAttrs, optAttr, vt_dateTime, h] <;> decide

/-- the tail of a `<hash>` / `<directoryhash>`: optional previousPath, no metadata -/
theorem tail_valid (r : XRecord) :
    EvSeq 6 S [.elem "previousPath" "RelativePathType" 0 (some 1), .elem "metadata" "MetadataType" 0 (some 1)]
      (prevElems r) [] := by
  have hmeta : EvPart 2 S (.elem "metadata" "MetadataType" 0 (some 1)) [] [] :=
    evPart_elem_skip S _ _ _ (headNe_nil _)
  have hend : EvSeq 3 S [.elem "metadata" "MetadataType" 0 (some 1)] [] [] :=
    evSeq_cons' [] hmeta (evSeq_nil S []) (by decide) (by decide)
  unfold prevElems
  cases r.prev with
  | none =>
    exact evSeq_cons' [] (evPart_elem_skip S _ _ _ (headNe_nil _)) hend (by decide) (by decide)
  | some p =>
    exact evSeq_cons' [] (evPart_elem_hit 0 [] (by decide) rfl (relpath_leaf_valid "previousPath" (some p))) hend
      (by decide) (by decide)

/-! ### `<hash>` -/

theorem file_valid (r : XRecord) (h : FileWf r) : EvValid 21 S "HashType" (fileElem r) := by
  obtain ⟨hl, hnd, hsup, hw⟩ := h
  refine evValid_complex (K := 20) lk_hash rfl rfl ?_
  refine evPart_seq (K := 17) ?_
  show EvSeq 17 S _ (pathElem r :: ((isort (fun a b => strLe a.fmt b.fmt) r.entries).map
    (fun e => entryElem e (some e.digest)) ++ prevElems r)) []
  refine evSeq_cons' _ (evPart_elem_hit 1 _ (by decide) rfl (path_valid_file r hl)) ?_ (by decide : 4 < 17)
    (by decide : 16 < 17)
  refine evSeq_cons' (prevElems r) (evPart_seq (six_valid _ _ _ (inOrder_isort hnd hsup) ?_ (headNe_prev_fmt r)))
    (tail_valid r) (by decide : 13 < 16) (by decide)
  intro e he
  exact hw e ((mem_isort_d _ _ _).1 he)

/-! ### `<directoryhash>`, `<roothash>` -/

theorem dir_valid (r : XRecord) (h : DirWf r) :
    EvValid 27 S "DirectoryHashType" (dirElem "directoryhash" true r) := by
  obtain ⟨hs, hl, ho, hw⟩ := h
  refine evValid_complex (K := 26) lk_dirHash rfl rfl ?_
  refine evPart_seq (K := 23) ?_
  show EvSeq 23 S _ (pathElem r :: .mk "content" [] none (r.entries.map fun e => entryElem e (some e.digest)) ::
    .mk "structure" [] none (r.entries.map fun e => entryElem e e.shash) :: prevElems r) []
  refine evSeq_cons' _ (evPart_elem_hit 1 _ (by decide) rfl (path_valid_dir r hs hl)) ?_ (by decide : 4 < 23)
    (by decide : 22 < 23)
  refine evSeq_cons' _ (evPart_elem_hit 1 _ (by decide) rfl (container_valid "content" _ _ ho hw)) ?_
    (by decide : 17 < 22) (by decide : 21 < 22)
  exact evSeq_cons' _ (evPart_elem_hit 1 _ (by decide) rfl (container_valid "structure" _ _ ho hw)) (tail_valid r)
    (by decide : 17 < 21) (by decide)

theorem root_valid (r : XRecord) (hp : r.prev = none) (ho : InOrder r.entries) (hw : ∀ e ∈ r.entries, EntryWf e) :
    EvValid 24 S "RootDirectoryHashType" (dirElem "roothash" false r) := by
  refine evValid_complex (K := 23) lk_rootHash rfl rfl ?_
  refine evPart_seq (K := 20) ?_
  have hch : (dirElem "roothash" false r).children =
      [.mk "content" [] none (r.entries.map fun e => entryElem e (some e.digest)),
       .mk "structure" [] none (r.entries.map fun e => entryElem e e.shash)] := by
    simp [dirElem, Elem.children, prevElems, hp]
  rw [hch]
  refine evSeq_cons' _ (evPart_elem_hit 1 _ (by decide) rfl (container_valid "content" _ _ ho hw)) ?_
    (by decide : 17 < 20) (by decide : 19 < 20)
  exact evSeq_cons' _ (evPart_elem_hit 1 _ (by decide) rfl (container_valid "structure" _ _ ho hw)) (evSeq_nil S [])
    (by decide : 17 < 19) (by decide)

/-! ### `<hashes>` -/

theorem record_valid (r : XRecord) (h : RecordWf r) :
    ∃ ty, alookup (if r.isDir then dirElem "directoryhash" true r else fileElem r).tag
        [("hash", "HashType"), ("directoryhash", "DirectoryHashType")] = some ty ∧
      EvValid 27 S ty (if r.isDir then dirElem "directoryhash" true r else fileElem r) := by
  unfold RecordWf at h
  cases hd : r.isDir
  · simp only [hd, Bool.false_eq_true, if_false] at h ⊢
    exact ⟨"HashType", rfl, (file_valid r h).mono (by decide)⟩
  · simp only [hd, if_true] at h ⊢
    exact ⟨"DirectoryHashType", rfl, dir_valid r h⟩

/-- a NON-EMPTY list of records -/
theorem hashes_valid (rs : List XRecord) (hne : rs ≠ []) (h : ∀ r ∈ rs, RecordWf r) :
    EvValid (rs.length + 35) S "HashesType"
      (.mk "hashes" [] none (rs.map fun r => if r.isDir then dirElem "directoryhash" true r else fileElem r)) := by
  have := evPart_choice_many (K := 27) S [("hash", "HashType"), ("directoryhash", "DirectoryHashType")]
    (rs.map fun r => if r.isDir then dirElem "directoryhash" true r else fileElem r)
    (by
      intro c hc
      obtain ⟨r, hr, rfl⟩ := List.mem_map.1 hc
      exact record_valid r (h r hr))
    (by simpa using hne)
  refine (evValid_complex lk_hashes rfl rfl this).mono ?_
  simp; omega

/-! ### `<creatorinfo>` -/

theorem author_valid (a : XAuthor) (h : AuthorWf a) : EvValid 1 S "AuthorType" (authorElem a) := by
  refine evValid_simpleContent lk_author rfl ?_ (vt_string _)
  simp only [authorElem, Elem.attrs]
  unfold AuthorWf at h
  cases hr : a.role <;> cases he : a.email <;> cases hp : a.phone <;> simp only [he, OptOk] at h <;>
    simp [validAttrs, optAttr, vt_email, vt_string, h] <;> decide

theorem tool_valid (name version : Option String) :
    EvValid 1 S "ToolType" (.mk "tool" (optAttr "version" version) name []) := by
  refine evValid_simpleContent lk_tool rfl ?_ (vt_string _)
  cases version <;> simp [validAttrs, optAttr, vt_string, Elem.attrs] <;> decide

theorem creator_valid (c : XCreator) (hd : ReqOk IsDate c.creationdate) (ha : ∀ a ∈ c.authors, AuthorWf a) :
    EvValid (c.authors.length + 16) S "CreatorInfoType" (creatorElem c) := by
  refine evValid_complex (K := c.authors.length + 15) lk_creator rfl rfl ?_
  refine evPart_seq (K := c.authors.length + 12) ?_
  -- the optional tail
  have hcom : ∀ x : Option String, EvSeq 6 S [.elem "comment" "string" 0 (some 1)]
      (match x with | some l => [.mk "comment" [] (some l) []] | none => []) [] := by
    intro x
    cases x with
    | none => exact evSeq_cons' [] (evPart_elem_skip S _ _ _ (headNe_nil _)) (evSeq_nil S []) (by decide) (by decide)
    | some l =>
      exact evSeq_cons' [] (evPart_elem_hit 0 [] (by decide) rfl (string_leaf_valid "comment" (some l)))
        (evSeq_nil S []) (by decide) (by decide)
  have hne : ∀ x : Option String, ∀ n, n ≠ "comment" →
      HeadNe n (match x with | some l => [Elem.mk "comment" [] (some l) []] | none => []) := by
    intro x n hn
    cases x with
    | none => exact headNe_nil n
    | some l => exact headNe_cons (by simpa [Elem.tag] using Ne.symm hn)
  have htail : EvSeq 8 S [.elem "location" "string" 0 (some 1), .elem "comment" "string" 0 (some 1)]
      ((match c.location with | some l => [.mk "location" [] (some l) []] | none => []) ++
       (match c.comment with | some l => [.mk "comment" [] (some l) []] | none => [])) [] := by
    cases c.location with
    | none =>
      exact evSeq_cons' _ (evPart_elem_skip S _ _ _ (by simpa using hne c.comment "location" (by decide)))
        (by simpa using hcom c.comment) (by decide : 2 < 8) (by decide : 6 < 8)
    | some l =>
      exact evSeq_cons' _ (evPart_elem_hit 0 _ (by decide) rfl (string_leaf_valid "location" (some l)))
        (by simpa using hcom c.comment) (by decide : 4 < 8) (by decide : 6 < 8)
  have hrestNe : HeadNe "author"
      ((match c.location with | some l => [Elem.mk "location" [] (some l) []] | none => []) ++
       (match c.comment with | some l => [Elem.mk "comment" [] (some l) []] | none => [])) := by
    cases c.location with
    | none => simpa using hne c.comment "author" (by decide)
    | some l => exact headNe_cons (by simp [Elem.tag])
  have hauth := evPart_elem_many (K := 1) (sch := S) (name := "author") (ty := "AuthorType") 0
    (c.authors.map authorElem) _ (by
      intro x hx
      obtain ⟨a, ha', rfl⟩ := List.mem_map.1 hx
      exact ⟨rfl, author_valid a (ha a ha')⟩) (Nat.zero_le _) hrestNe
  rw [List.length_map] at hauth
  obtain ⟨s, hs, hdt⟩ : ∃ s, c.creationdate = some s ∧ isDateTime s = true := by
    cases hc : c.creationdate with
    | none => simp [hc, ReqOk] at hd
    | some s => exact ⟨s, rfl, by simpa [hc, ReqOk] using hd⟩
  have hcd : EvValid 1 S "dateTime" (.mk "creationdate" [] c.creationdate []) :=
    evValid_builtin lk_dateTime rfl rfl (by simpa [hs, Elem.text, validSimple] using hdt)
  have hch : (creatorElem c).children = .mk "creationdate" [] c.creationdate [] :: .mk "hostname" [] c.hostname [] ::
      .mk "tool" (optAttr "version" c.toolVersion) c.toolName [] :: (c.authors.map authorElem ++
        ((match c.location with | some l => [.mk "location" [] (some l) []] | none => []) ++
         (match c.comment with | some l => [.mk "comment" [] (some l) []] | none => []))) := by
    simp [creatorElem, Elem.children]
    rfl
  rw [hch]
  refine evSeq_cons' _ (evPart_elem_hit 1 _ (by decide) rfl hcd) ?_ (by omega : 4 < c.authors.length + 12)
    (by omega : c.authors.length + 11 < c.authors.length + 12)
  refine evSeq_cons' _ (evPart_elem_hit 1 _ (by decide) rfl (string_leaf_valid "hostname" c.hostname)) ?_
    (by omega : 4 < c.authors.length + 11) (by omega : c.authors.length + 10 < c.authors.length + 11)
  refine evSeq_cons' _ (evPart_elem_hit 1 _ (by decide) rfl (tool_valid c.toolName c.toolVersion)) ?_
    (by omega : 4 < c.authors.length + 10) (by omega : c.authors.length + 9 < c.authors.length + 10)
  exact evSeq_cons' _ hauth htail (by omega) (by omega)

/-! ### `<processinfo>` -/

/-- a NON-EMPTY list of ignore patterns -/
theorem ignore_valid (ps : List String) (hne : ps ≠ []) :
    EvValid (ps.length + 8) S "IgnoreType" (.mk "ignore" [] none (ps.map fun p => .mk "pattern" [] (some p) [])) := by
  refine evValid_complex (K := ps.length + 7) lk_ignore rfl rfl ?_
  refine evPart_seq (K := ps.length + 4) ?_
  have hmany := evPart_elem_many (K := 1) (sch := S) (name := "pattern") (ty := "string") 1
    (ps.map fun p => .mk "pattern" [] (some p) []) [] (by
      intro x hx
      obtain ⟨p, _, rfl⟩ := List.mem_map.1 hx
      exact ⟨rfl, string_leaf_valid "pattern" (some p)⟩)
    (by cases ps with
      | nil => exact absurd rfl hne
      | cons _ _ => simp) (headNe_nil _)
  rw [List.append_nil, List.length_map] at hmany
  exact evSeq_cons' [] hmany (evSeq_nil S []) (by omega) (by omega)

/-- the optional `<roothash>` as `processElem` writes it -/
def rootPart (g : XGen) : List Elem :=
  match g.rootHash with
  | some r => if r.entries.isEmpty then [] else [dirElem "roothash" false r]
  | none => []

theorem process_valid (g : XGen) (hp : ReqOk (· ∈ processes) g.process) (hr : ∀ r, g.rootHash = some r → RootWf r)
    (hi : g.ignore ≠ []) : EvValid (g.ignore.length + 33) S "ProcessInfoType" (processElem g) := by
  refine evValid_complex (K := g.ignore.length + 32) lk_processInfo rfl rfl ?_
  refine evPart_seq (K := g.ignore.length + 29) ?_
  have hch : (processElem g).children = .mk "process" [] g.process [] ::
      (rootPart g ++ [.mk "ignore" [] none (g.ignore.map fun p => .mk "pattern" [] (some p) [])]) := rfl
  rw [hch]
  obtain ⟨p, hpe, hpm⟩ : ∃ p, g.process = some p ∧ p ∈ processes := by
    cases hc : g.process with
    | none => simp [hc, ReqOk] at hp
    | some p => exact ⟨p, rfl, by simpa [hc, ReqOk] using hp⟩
  have hproc : EvValid 1 S "ProcessType" (.mk "process" [] g.process []) :=
    evValid_simple lk_process rfl rfl (by simpa [hpe, Elem.text, validSimple] using hpm)
  have hign : EvSeq (g.ignore.length + 12) S [.elem "ignore" "IgnoreType" 0 (some 1)]
      [.mk "ignore" [] none (g.ignore.map fun p => .mk "pattern" [] (some p) [])] [] :=
    evSeq_cons' [] (evPart_elem_hit 0 [] (by decide) rfl (ignore_valid g.ignore hi)) (evSeq_nil S [])
      (by omega) (by omega)
  have hroot : EvSeq (g.ignore.length + 28) S
      [.elem "roothash" "RootDirectoryHashType" 0 (some 1), .elem "ignore" "IgnoreType" 0 (some 1)]
      (rootPart g ++ [.mk "ignore" [] none (g.ignore.map fun p => .mk "pattern" [] (some p) [])]) [] := by
    have hskip : EvSeq (g.ignore.length + 28) S
        [.elem "roothash" "RootDirectoryHashType" 0 (some 1), .elem "ignore" "IgnoreType" 0 (some 1)]
        ([] ++ [.mk "ignore" [] none (g.ignore.map fun p => .mk "pattern" [] (some p) [])]) [] :=
      evSeq_cons' _ (evPart_elem_skip S _ _ _ (headNe_cons (by simp [Elem.tag]))) hign (by omega) (by omega)
    unfold rootPart
    cases hg : g.rootHash with
    | none => exact hskip
    | some r =>
      by_cases he : r.entries.isEmpty = true
      · simpa [he] using hskip
      · rcases hr r hg with h | ⟨h1, h2, h3⟩
        · exact absurd h he
        · simp only [he]
          exact evSeq_cons' _ (evPart_elem_hit 0 _ (by decide) rfl (root_valid r h1 h2 h3)) hign (by omega) (by omega)
  exact evSeq_cons' _ (evPart_elem_hit 1 _ (by decide) rfl hproc) hroot (by omega) (by omega)

/-! ### `<references>` -/

/-- a reference is valid whatever its path and c4 are -/
theorem ref_valid (r : XRef) : EvValid 10 S "HashListReferenceType" (refElem r) := by
  refine evValid_complex (K := 9) lk_ref rfl rfl ?_
  refine evPart_seq (K := 6) ?_
  have hc4 : EvValid 1 S "HashFormatType" (.mk "c4" [] r.c4 []) :=
    evValid_simpleContent lk_hashFormat rfl (by show validAttrs S _ [] = true; decide) (vt_string _)
  show EvSeq 6 S _ [.mk "path" [] r.path [], .mk "c4" [] r.c4 []] []
  refine evSeq_cons' _ (evPart_elem_hit 1 _ (by decide) rfl (relpath_leaf_valid "path" r.path)) ?_
    (by decide : 4 < 6) (by decide : 5 < 6)
  exact evSeq_cons' _ (evPart_elem_hit 1 _ (by decide) rfl hc4) (evSeq_nil S []) (by decide : 4 < 5) (by decide)

/-- a NON-EMPTY list of references -/
theorem references_valid (rs : List XRef) (hne : rs ≠ []) :
    EvValid (rs.length + 17) S "ReferencesType" (.mk "references" [] none (rs.map refElem)) := by
  refine evValid_complex (K := rs.length + 16) lk_references rfl rfl ?_
  refine evPart_seq (K := rs.length + 13) ?_
  have hmany := evPart_elem_many (K := 10) (sch := S) (name := "hashlistreference") (ty := "HashListReferenceType") 1
    (rs.map refElem) [] (by
      intro x hx
      obtain ⟨r, _, rfl⟩ := List.mem_map.1 hx
      exact ⟨rfl, ref_valid r⟩)
    (by cases rs with
      | nil => exact absurd rfl hne
      | cons _ _ => simp) (headNe_nil _)
  rw [List.append_nil, List.length_map] at hmany
  exact evSeq_cons' [] hmany (evSeq_nil S []) (by omega) (by omega)

/-! ### `<hashlist>` -/

/-- the optional `<hashes>` as `toXml` writes it: none for a generation without records -/
def hashesPart (g : XGen) : List Elem :=
  if g.records.isEmpty then [] else
    [.mk "hashes" [] none (g.records.map fun r => if r.isDir then dirElem "directoryhash" true r else fileElem r)]

/-- the optional `<references>` as `toXml` writes it -/
def refsPart (g : XGen) : List Elem :=
  if g.refs.isEmpty then [] else [.mk "references" [] none (g.refs.map refElem)]

theorem toXml_children (g : XGen) :
    (toXml g).children = creatorElem g.creator :: processElem g :: (hashesPart g ++ refsPart g) := rfl

theorem refsPart_headNe (g : XGen) (n : String) (hn : n ≠ "references") : HeadNe n (refsPart g) := by
  unfold refsPart
  split
  · exact headNe_nil n
  · exact headNe_cons (by simpa [Elem.tag] using Ne.symm hn)

theorem refsPart_valid (g : XGen) :
    EvSeq (g.refs.length + 22) S [.elem "references" "ReferencesType" 0 (some 1)] (refsPart g) [] := by
  unfold refsPart
  by_cases h : g.refs = []
  · simp only [h, List.isEmpty_nil, if_true]
    exact evSeq_cons' [] (evPart_elem_skip S _ _ _ (headNe_nil _)) (evSeq_nil S []) (by simp) (by simp)
  · have h' : g.refs.isEmpty = false := by simpa using h
    simp only [h', Bool.false_eq_true, if_false]
    exact evSeq_cons' [] (evPart_elem_hit 0 [] (by decide) rfl (references_valid g.refs h)) (evSeq_nil S [])
      (by omega) (by omega)

theorem hashesPart_valid (g : XGen) (hrec : ∀ r ∈ g.records, RecordWf r) :
    EvSeq (g.records.length + g.refs.length + 40) S
      [.elem "hashes" "HashesType" 0 (some 1), .elem "metadata" "MetadataType" 0 (some 1),
       .elem "references" "ReferencesType" 0 (some 1)] (hashesPart g ++ refsPart g) [] := by
  have hmeta : EvSeq (g.refs.length + 23) S
      [.elem "metadata" "MetadataType" 0 (some 1), .elem "references" "ReferencesType" 0 (some 1)] (refsPart g) [] :=
    evSeq_cons' _ (evPart_elem_skip S _ _ _ (refsPart_headNe g _ (by decide))) (refsPart_valid g) (by omega) (by omega)
  unfold hashesPart
  by_cases h : g.records = []
  · simp only [h, List.isEmpty_nil, if_true, List.nil_append]
    exact evSeq_cons' _ (evPart_elem_skip S _ _ _ (refsPart_headNe g _ (by decide))) hmeta (by omega) (by omega)
  · have h' : g.records.isEmpty = false := by simpa using h
    simp only [h', Bool.false_eq_true, if_false]
    exact evSeq_cons' _ (evPart_elem_hit 0 _ (by decide) rfl (hashes_valid g.records h hrec)) hmeta
      (by omega) (by omega)

/-- the bound, in terms of the four list lengths the matcher has to iterate over -/
def need (g : XGen) : Nat := g.creator.authors.length + g.ignore.length + g.records.length + g.refs.length + 47

theorem hashlist_valid (g : XGen) (h : XsdWf g) : EvValid (need g) S "HashListType" (toXml g) := by
  obtain ⟨hd, ha, hp, hr, hi, hrec⟩ := h
  unfold need
  refine evValid_complex (K := g.creator.authors.length + g.ignore.length + g.records.length + g.refs.length + 46)
    lk_hashList rfl (by show validAttrs S _ [("version", "2.0")] = true; decide) ?_
  refine evPart_seq
    (K := g.creator.authors.length + g.ignore.length + g.records.length + g.refs.length + 43) ?_
  rw [toXml_children]
  refine evSeq_cons' _ (evPart_elem_hit 1 _ (by decide) rfl (creator_valid g.creator hd ha)) ?_
    (by omega : g.creator.authors.length + 16 + 3 <
      g.creator.authors.length + g.ignore.length + g.records.length + g.refs.length + 43)
    (by omega : g.creator.authors.length + g.ignore.length + g.records.length + g.refs.length + 42 < _)
  exact evSeq_cons' _ (evPart_elem_hit 1 _ (by decide) rfl (process_valid g hp hr hi)) (hashesPart_valid g hrec)
    (by omega) (by omega)

/-! ### the fuel `validate` supplies is enough -/

theorem size_toXml (g : XGen) :
    g.creator.authors.length + g.ignore.length + g.records.length + g.refs.length ≤ Elem.size (toXml g) := by
  have h1 := length_le_sizeList (g.creator.authors.map authorElem)
  have h2 := length_le_sizeList (g.ignore.map fun p => Elem.mk "pattern" [] (some p) [])
  have h3 := length_le_sizeList
    (g.records.map fun r => if r.isDir then dirElem "directoryhash" true r else fileElem r)
  have h4 := length_le_sizeList (g.refs.map refElem)
  rw [List.length_map] at h1 h2 h3 h4
  have hc : g.creator.authors.length ≤ Elem.size (creatorElem g.creator) := by
    simp only [creatorElem, size_mk, sizeList_append]
    omega
  have hp : g.ignore.length ≤ Elem.size (processElem g) := by
    simp only [processElem, size_mk, sizeList_append, Elem.size.sizeList]
    omega
  have hh : g.records.length ≤ Elem.size.sizeList (hashesPart g) := by
    unfold hashesPart
    by_cases h : g.records = []
    · simp [h]
    · have h' : g.records.isEmpty = false := by simpa using h
      simp only [h', Bool.false_eq_true, if_false, Elem.size.sizeList, size_mk]
      omega
  have hr : g.refs.length ≤ Elem.size.sizeList (refsPart g) := by
    unfold refsPart
    by_cases h : g.refs = []
    · simp [h]
    · have h' : g.refs.isEmpty = false := by simpa using h
      simp only [h', Bool.false_eq_true, if_false, Elem.size.sizeList, size_mk]
      omega
  have : Elem.size (toXml g) = 1 + (Elem.size (creatorElem g.creator) + (Elem.size (processElem g) +
      (Elem.size.sizeList (hashesPart g) + Elem.size.sizeList (refsPart g)))) := by
    show Elem.size (.mk "hashlist" [("version", "2.0")] none
      (creatorElem g.creator :: processElem g :: (hashesPart g ++ refsPart g))) = _
    simp only [size_mk, Elem.size.sizeList, sizeList_append]
  omega

end manifest

/-! ## C11, manifests -/

/-- every manifest the tool writes validates against the ASC MHL manifest schema -/
theorem manifest_valid (g : XGen) (h : XsdWf g) : validate manifestSchema (toXml g) = true := by
  have hv := hashlist_valid g h (8 * Elem.size (toXml g) + 64) (by
    have := size_toXml g
    unfold need
    omega)
  unfold validate
  rw [show manifestSchema.rootType = "HashListType" from rfl, hv]
  rfl

/-- a generation that records no file at all (the former defect: an empty `<hashes/>` was written) -/
theorem no_records_valid (g : XGen) (h : XsdWf g) (_h0 : g.records = []) : validate manifestSchema (toXml g) = true :=
  manifest_valid g h

/-- for a generation without records the condition does not mention records at all -/
theorem no_records_valid' (g : XGen) (h0 : g.records = [])
    (hd : ReqOk IsDate g.creator.creationdate) (ha : ∀ a ∈ g.creator.authors, AuthorWf a)
    (hp : ReqOk (· ∈ processes) g.process) (hr : ∀ r, g.rootHash = some r → RootWf r) (hi : g.ignore ≠ []) :
    validate manifestSchema (toXml g) = true ∧
      ∀ c ∈ (toXml g).children, c.tag ≠ "hashes" := by
  refine ⟨manifest_valid g ⟨hd, ha, hp, hr, hi, by simp [h0]⟩, ?_⟩
  intro c hc
  rw [toXml_children] at hc
  simp only [hashesPart, h0, List.isEmpty_nil, if_true, List.nil_append, List.mem_cons] at hc
  rcases hc with rfl | rfl | hc
  · simp [creatorElem, Elem.tag]
  · simp [processElem, Elem.tag]
  · unfold refsPart at hc
    split at hc
    · simp at hc
    · have : c = .mk "references" [] none (g.refs.map refElem) := by simpa using hc
      subst this
      simp [Elem.tag]

/-- a generation that carries only references -/
theorem refs_only_valid (g : XGen) (h : XsdWf g) (_h0 : g.records = []) (_h1 : g.refs ≠ []) :
    validate manifestSchema (toXml g) = true :=
  manifest_valid g h

/-! ## C11, chain files -/

section chain
local notation "D" => directorySchema

theorem dvt_string (s : String) : validText D "string" s = true := rfl
theorem dvt_integer (s : String) : validText D "integer" s = isInteger s := rfl

theorem dlk_directory : lookupType D "DirectoryType" =
    some (.complex (.seq [.elem "hashlist" "HashlistType" 1 none] 1 (some 1)) []) := rfl

theorem dlk_hashlist : lookupType D "HashlistType" = some (.complex (.seq
    [.elem "path" "RelativePathType" 1 (some 1), .elem "c4" "HashFormatType" 1 (some 1)] 1 (some 1))
    [⟨"sequencenr", "integer", false, none⟩]) := rfl

theorem dlk_relpath : lookupType D "RelativePathType" = some (.simple (.base "string")) := rfl

theorem dlk_hashFormat : lookupType D "HashFormatType" = some (.simpleContent "string"
    [⟨"action", "ActionAttributeType", false, none⟩, ⟨"hashdate", "dateTime", false, none⟩,
     ⟨"structure", "string", false, none⟩]) := rfl

theorem chain_entry_valid (c : XChainEntry) (h : ChainWf c) : EvValid 10 D "HashlistType" (chainEntryElem c) := by
  obtain ⟨hs, hf⟩ := h
  refine evValid_complex (K := 9) dlk_hashlist rfl ?_ ?_
  · simp only [chainEntryElem, Elem.attrs]
    cases hq : c.seq <;> simp only [hq, OptOk] at hs <;> simp [validAttrs, optAttr, dvt_integer, hs] <;> decide
  · refine evPart_seq (K := 6) ?_
    have hpath : EvValid 1 D "RelativePathType" (.mk "path" [] c.path []) := evValid_simple dlk_relpath rfl rfl rfl
    have hc4 : EvValid 1 D "HashFormatType" (.mk (c.fmt.getD "c4") [] c.digest []) :=
      evValid_simpleContent dlk_hashFormat rfl (by show validAttrs D _ [] = true; decide) (dvt_string _)
    show EvSeq 6 D _ [.mk "path" [] c.path [], .mk (c.fmt.getD "c4") [] c.digest []] []
    refine evSeq_cons' _ (evPart_elem_hit 1 _ (by decide) rfl hpath) ?_ (by decide : 4 < 6) (by decide : 5 < 6)
    exact evSeq_cons' _ (evPart_elem_hit 1 _ (by decide) hf hc4) (evSeq_nil D []) (by decide : 4 < 5) (by decide)

theorem directory_valid (cs : List XChainEntry) (hne : cs ≠ []) (h : ∀ c ∈ cs, ChainWf c) :
    EvValid (cs.length + 17) D "DirectoryType" (chainToXml cs) := by
  refine evValid_complex (K := cs.length + 16) dlk_directory rfl rfl ?_
  refine evPart_seq (K := cs.length + 13) ?_
  have hmany := evPart_elem_many (K := 10) (sch := D) (name := "hashlist") (ty := "HashlistType") 1
    (cs.map chainEntryElem) [] (by
      intro x hx
      obtain ⟨c, hc, rfl⟩ := List.mem_map.1 hx
      exact ⟨rfl, chain_entry_valid c (h c hc)⟩)
    (by cases cs with
      | nil => exact absurd rfl hne
      | cons _ _ => simp) (headNe_nil _)
  rw [List.append_nil, List.length_map] at hmany
  exact evSeq_cons' [] hmany (evSeq_nil D []) (by omega) (by omega)

end chain

/-- every chain file the tool writes validates against the ASC MHL directory schema -/
theorem chain_valid (cs : List XChainEntry) (hne : cs ≠ []) (h : ∀ c ∈ cs, ChainWf c) :
    validate directorySchema (chainToXml cs) = true := by
  have hsz : cs.length ≤ Elem.size (chainToXml cs) := by
    have := length_le_sizeList (cs.map chainEntryElem)
    rw [List.length_map] at this
    simp only [chainToXml, size_mk]
    omega
  have hv := directory_valid cs hne h (8 * Elem.size (chainToXml cs) + 64) (by omega)
  unfold validate
  rw [show directorySchema.rootType = "DirectoryType" from rfl, hv]
  rfl

/-- `chain_valid` under the hypotheses as the tool establishes them: the sequence number is the decimal text of a
number, the format is c4, path and digest are present -/
theorem chain_valid' (cs : List XChainEntry) (hne : cs ≠ [])
    (h : ∀ c ∈ cs, (∃ n : Nat, c.seq = some (toString n)) ∧ c.fmt = some "c4" ∧ c.path.isSome ∧ c.digest.isSome) :
    validate directorySchema (chainToXml cs) = true := by
  refine chain_valid cs hne ?_
  intro c hc
  obtain ⟨⟨n, hn⟩, hf, _, _⟩ := h c hc
  exact ⟨by simpa [hn, OptOk] using isInteger_toString n, by simp [hf]⟩

/-! ## negative sanity: the validator is not trivially true -/

def okCreator : Elem :=
  .mk "creatorinfo" [] none [.mk "creationdate" [] (some "2020-01-01T00:00:00+00:00") [], .mk "hostname" [] (some "h") [],
    .mk "tool" [("version", "1.0")] (some "ascmhl") []]

def okProcess : Elem :=
  .mk "processinfo" [] none [.mk "process" [] (some "in-place") [],
    .mk "ignore" [] none [.mk "pattern" [] (some ".DS_Store") []]]

def okHash (kids : List Elem) : Elem := .mk "hash" [] none (.mk "path" [("size", "1")] (some "a.txt") [] :: kids)

def okList (attrs : List (String × String)) (text : Option String) (more : List Elem) : Elem :=
  .mk "hashlist" attrs text ([okCreator, okProcess] ++ more)

/-- the base line the negative examples deviate from is VALID -/
theorem base_valid :
    validate manifestSchema (okList [("version", "2.0")] none
      [.mk "hashes" [] none [okHash [.mk "c4" [("action", "original")] (some "c4x") [], .mk "md5" [] (some "ff") []]]])
      = true := by decide

/-- D4a: an empty `<hashes/>` element is invalid -/
theorem empty_hashes_invalid :
    validate manifestSchema (okList [("version", "2.0")] none [.mk "hashes" [] none []]) = false := by decide

/-- D4b: a `<hash>` with two `<md5>` children is invalid -/
theorem double_md5_invalid :
    validate manifestSchema (okList [("version", "2.0")] none
      [.mk "hashes" [] none [okHash [.mk "md5" [] (some "ff") [], .mk "md5" [] (some "ff") []]]]) = false := by decide

/-- formats in the order md5, c4 -/
theorem wrong_order_invalid :
    validate manifestSchema (okList [("version", "2.0")] none
      [.mk "hashes" [] none [okHash [.mk "md5" [] (some "ff") [], .mk "c4" [] (some "c4x") []]]]) = false := by decide

/-- no version attribute -/
theorem no_version_invalid :
    validate manifestSchema (okList [] none
      [.mk "hashes" [] none [okHash [.mk "c4" [] (some "c4x") []]]]) = false := by decide

/-- an action outside the enumeration -/
theorem action_new_invalid :
    validate manifestSchema (okList [("version", "2.0")] none
      [.mk "hashes" [] none [okHash [.mk "c4" [("action", "new")] (some "c4x") []]]]) = false := by decide

/-- character data in an element-only content -/
theorem text_in_hashlist_invalid :
    validate manifestSchema (okList [("version", "2.0")] (some "x")
      [.mk "hashes" [] none [okHash [.mk "c4" [] (some "c4x") []]]]) = false := by decide

/-- … while white space there is fine -/
theorem blank_in_hashlist_valid :
    validate manifestSchema (okList [("version", "2.0")] (some "\n  ")
      [.mk "hashes" [] none [okHash [.mk "c4" [] (some "c4x") []]]]) = true := by decide

/-- a chain entry without c4 (here: with md5 instead; and with nothing at all) -/
theorem chain_without_c4_invalid :
    validate directorySchema (chainToXml [{ seq := some "1", path := some "0001.mhl", fmt := some "md5", digest := some "ff" }])
      = false ∧
    validate directorySchema (.mk "ascmhldirectory" [] none
      [.mk "hashlist" [("sequencenr", "1")] none [.mk "path" [] (some "0001.mhl") []]]) = false := by decide

/-- an empty chain file is invalid (`chain_valid` needs `cs ≠ []`) -/
theorem empty_chain_invalid : validate directorySchema (chainToXml []) = false := by decide

/-- a sequence number that is no integer -/
theorem chain_bad_seq_invalid :
    validate directorySchema (chainToXml [{ seq := some "1a", path := some "p", fmt := some "c4", digest := some "c4x" }])
      = false := by decide

/-! ### the two extra conditions of `XsdWf` are necessary: without them the WRITER produces an invalid file -/

def minimalGen : XGen :=
  { creator := { creationdate := some "2020-01-01T00:00:00Z" }, process := some "in-place", ignore := [".DS_Store"] }

/-- a directory record with a size: `pathElem` writes `size=`, `DirectoryHashType.path` has no such attribute -/
theorem dir_with_size_invalid :
    validate manifestSchema (toXml { minimalGen with
      records := [{ path := "d", isDir := true, size := some 0, entries := [{ fmt := "c4", digest := "x" }] }] }) = false ∧
    validate manifestSchema (toXml { minimalGen with
      records := [{ path := "d", isDir := true, size := none, entries := [{ fmt := "c4", digest := "x" }] }] }) = true := by
  decide

/-- a root hash with a previous path: `dirElem "roothash" false` writes `<previousPath>`, `RootDirectoryHashType` has no
such child -/
theorem root_with_prev_invalid :
    validate manifestSchema (toXml { minimalGen with
      rootHash := some { path := ".", isDir := true, prev := some "old", entries := [{ fmt := "c4", digest := "x" }] } })
      = false ∧
    validate manifestSchema (toXml { minimalGen with
      rootHash := some { path := ".", isDir := true, prev := none, entries := [{ fmt := "c4", digest := "x" }] } })
      = true := by
  decide

/-- directory formats that are NOT in order are written as they are, and rejected -/
theorem dir_unsorted_invalid :
    validate manifestSchema (toXml { minimalGen with
      records := [{ path := "d", isDir := true, entries := [{ fmt := "md5", digest := "x" }, { fmt := "c4", digest := "y" }] }] })
      = false := by decide

/-- … whereas file formats in any order are sorted by the writer, and accepted -/
theorem file_unsorted_valid :
    validate manifestSchema (toXml { minimalGen with
      records := [{ path := "f", entries := [{ fmt := "xxh64", digest := "x" }, { fmt := "md5", digest := "x" },
        { fmt := "c4", digest := "y" }] }] }) = true := by decide

/-- an empty ignore list is written as `<ignore/>` and rejected -/
theorem empty_ignore_invalid : validate manifestSchema (toXml { minimalGen with ignore := [] }) = false := by decide

/-! ### the generic matcher is not monotone in its fuel -/

/-- a NON-deterministic schema (it violates "unique particle attribution"): an optional `a` of a type that needs fuel,
followed by a required `a` of any type -/
def ndSchema : Schema :=
  { rootName := "r", rootType := "R",
    types := [("R", .complex (.seq [.elem "a" "T" 0 (some 1), .elem "a" "Any" 1 (some 1)] 1 (some 1)) []),
              ("T", .complex (.seq [.elem "b" "Any" 0 (some 1)] 1 (some 1)) []),
              ("Any", .any)] }

/-- With little fuel the first particle "fails" on the child (out of fuel = no match = skip) and the second one takes
it; with more fuel the first one takes it and the required second one finds nothing.  So "valid with fuel n" does not
imply "valid with fuel n + k", and the lemmas of XsdLemmas.lean are all stated for EVERY sufficiently large fuel. -/
theorem fuel_not_monotone :
    validElem 7 ndSchema "R" (.mk "r" [] none [.mk "a" [] none []]) = true ∧
    validElem 20 ndSchema "R" (.mk "r" [] none [.mk "a" [] none []]) = false := by decide

/-! ## positive sanity -/

def dt : String := "2020-01-01T00:00:00+00:00"

/-- a rich generation: file record with c4 + md5 + xxh64 (given out of order), directory record, root hash, author with
e-mail, references -/
def rich : XGen :=
  { creator := { creationdate := some dt, hostname := some "h", toolName := some "ascmhl", toolVersion := some "1.0",
                 authors := [{ name := some "A", role := some "DIT", email := some "a@b.c", phone := some "1" },
                             { name := some "B" }],
                 location := some "x", comment := some "y" },
    process := some "in-place",
    rootHash := some { path := ".", isDir := true,
                       entries := [{ fmt := "c4", digest := "c4abc", shash := some "c4s", hashdate := some dt },
                                   { fmt := "xxh64", digest := "00", shash := some "11" }] },
    ignore := [".DS_Store", "ascmhl", "ascmhl/"],
    records := [ { path := "a.txt", size := some 12, lastmod := some dt, prev := some "b.txt",
                   entries := [{ fmt := "xxh64", digest := "0123", action := some "original", hashdate := some dt },
                               { fmt := "c4", digest := "c4x", action := some "verified", hashdate := some dt },
                               { fmt := "md5", digest := "ff", action := some "failed" }] },
                 { path := "d", isDir := true, lastmod := some "2020-01-01T00:00:00.5Z",
                   entries := [{ fmt := "c4", digest := "c4abc", shash := some "c4s", hashdate := some dt },
                               { fmt := "md5", digest := "ee", shash := some "dd" }] },
                 { path := "empty.txt" } ],
    refs := [{ path := some "sub/ascmhl/0001.mhl", c4 := some "c4r" }, {}] }

theorem email_ok : matchesPattern emailRe "a@b.c" = true := by
  have hp : parseRegex (emailRe.length + 1) emailRe.toList =
      [(.cls true ['@'], 1, true), (.lit '@', 1, false), (.cls true ['.'], 1, true), (.lit '.', 1, false),
       (.any, 1, true)] := by decide
  unfold matchesPattern
  rw [hp]
  simp [matchPieces, matchPieces.go, Atom.matches]

theorem rich_wf : XsdWf rich := by
  refine ⟨by decide, ?_, by decide, ?_, by decide, by decide⟩
  · intro a ha
    simp only [rich, List.mem_cons, List.not_mem_nil, or_false] at ha
    rcases ha with rfl | rfl
    · exact email_ok
    · trivial
  · intro r hr
    have : r = _ := (Option.some.inj hr).symm
    subst this
    decide

/-- through the theorem -/
theorem rich_valid : validate manifestSchema (toXml rich) = true := manifest_valid rich rich_wf

/-- by evaluation of the generic validator in the kernel (without the e-mail attribute: the pattern matcher
`matchPieces` is defined by well-founded recursion and does not reduce in the kernel) -/
theorem rich_valid_eval :
    validate manifestSchema (toXml { rich with creator := { rich.creator with authors := [{ name := some "B", role := some "DIT" }] } })
      = true := by decide

/-- the hypotheses of `no_records_valid` / `refs_only_valid` are satisfiable -/
example : XsdWf { minimalGen with refs := [{ path := some "p", c4 := some "c4r" }] } ∧
    ({ minimalGen with refs := [{ path := some "p", c4 := some "c4r" }] } : XGen).records = [] := by
  refine ⟨⟨by decide, by decide, by decide, by decide, by decide, by decide⟩, rfl⟩

example : validate manifestSchema (toXml minimalGen) = true := by decide

/-- the hypotheses of `chain_valid` / `chain_valid'` are satisfiable -/
def chain2 : List XChainEntry :=
  [{ seq := some (toString 1), path := some "0001_a.mhl", fmt := some "c4", digest := some "c4x" },
   { seq := some (toString 2), path := some "0002_a.mhl", fmt := some "c4", digest := some "c4y" }]

example : validate directorySchema (chainToXml chain2) = true :=
  chain_valid' chain2 (by decide) (by
    intro c hc
    simp only [chain2, List.mem_cons, List.not_mem_nil, or_false] at hc
    rcases hc with rfl | rfl
    · exact ⟨⟨1, rfl⟩, rfl, rfl, rfl⟩
    · exact ⟨⟨2, rfl⟩, rfl, rfl, rfl⟩)

example : validate directorySchema (chainToXml chain2) = true := by decide

end MhlProps.C11
