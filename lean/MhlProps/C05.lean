/-
C05 — Any change to a chained manifest is detected before anything else happens.

If a manifest listed in a chain (root or nested history, any generation) is modified or missing, or the chain file of
an existing `ascmhl` folder is missing, every history-reading command refuses with 31 / 33 / 32 and writes nothing.

Property theorems only; helper lemmas live in MhlProps/Proofs/LoadLemmas.lean.  Vocabulary from there:
`resolve s e` = the generation the chain entry `e` names (first generation of `s.gens` with that file name),
`entryFault s e` = what is wrong with it, `storeFault o` = what is wrong with one `ascmhl` folder,
`nestedFaults t` / `allFaults t` = all faults of a tree in the order `loadHistory` meets them.
-/
import MhlProps.Proofs.LoadLemmas

namespace MhlProps.C05
open MhlModel

/-! ### 1. the chain check passes iff every chained manifest is there and unmodified -/

theorem checkChain_ok_iff (s : HistStore) :
    checkChain s = .ok () ↔
      ∀ e ∈ s.chain, ∃ g, s.gens.find? (fun g => g.fileName == e.fileName) = some g ∧ g.state = .ok := by
  rw [checkChain_spec]
  cases h : s.chain.findSome? (entryFault s) with
  | none =>
    rw [List.findSome?_eq_none_iff] at h
    simp only [true_iff]
    intro e he
    exact (entryFault_none_iff s e).1 (h e he)
  | some x =>
    simp only [reduceCtorEq, false_iff]
    intro hall
    obtain ⟨e, he, hx⟩ := List.exists_of_findSome?_eq_some h
    have := (entryFault_none_iff s e).2 (hall e he)
    rw [this] at hx; cases hx

/-! ### 2. the first problem in chain order decides -/

/-- the general form: with a clean prefix, the verdict on the next entry is the verdict on the chain -/
theorem checkChain_first_fault_general (s : HistStore) (pre post : List ChainEntry) (e : ChainEntry) (x : Err)
    (hchain : s.chain = pre ++ e :: post)
    (hpre : ∀ p ∈ pre, ∃ g, s.gens.find? (fun g => g.fileName == p.fileName) = some g ∧ g.state = .ok)
    (he : entryFault s e = some x) :
    checkChain s = .error x := by
  rw [checkChain_spec, hchain, List.findSome?_append]
  have : pre.findSome? (entryFault s) = none := by
    rw [List.findSome?_eq_none_iff]
    intro p hp
    exact (entryFault_none_iff s p).2 (hpre p hp)
  simp [this, he]

theorem checkChain_first_fault (s : HistStore) (pre post : List ChainEntry) (e : ChainEntry)
    (hchain : s.chain = pre ++ e :: post)
    (hpre : ∀ p ∈ pre, ∃ g, s.gens.find? (fun g => g.fileName == p.fileName) = some g ∧ g.state = .ok) :
    (∀ g, s.gens.find? (fun g => g.fileName == e.fileName) = some g → g.state = .modified →
      checkChain s = .error errModified) ∧
    (∀ g, s.gens.find? (fun g => g.fileName == e.fileName) = some g → g.state = .missing →
      checkChain s = .error errMissingManifest) ∧
    (s.gens.find? (fun g => g.fileName == e.fileName) = none →
      checkChain s = .error errMissingManifest) := by
  refine ⟨fun g hg hs => ?_, fun g hg hs => ?_, fun hg => ?_⟩
  · apply checkChain_first_fault_general s pre post e _ hchain hpre
    simp [entryFault, resolve, hg, hs]
  · apply checkChain_first_fault_general s pre post e _ hchain hpre
    simp [entryFault, resolve, hg, hs]
  · apply checkChain_first_fault_general s pre post e _ hchain hpre
    simp [entryFault, resolve, hg]

/-! ### 3. `loadOne` -/

theorem loadOne_no_chain (here : RelPath) (s : HistStore) (kids : List Hist) (h : s.chainPresent = false) :
    loadOne here (some s) kids = .error errNoChain := by
  simp [loadOne, h]; rfl

theorem loadOne_none (here : RelPath) (kids : List Hist) :
    loadOne here none kids = .ok (.mk here [] [] false kids) := rfl

/-- with the chain file present the chain check decides -/
theorem loadOne_chain_fault (here : RelPath) (s : HistStore) (kids : List Hist) (x : Err)
    (hp : s.chainPresent = true) (h : checkChain s = .error x) :
    loadOne here (some s) kids = .error x := by
  simp [loadOne, hp, h, bind, Except.bind]

theorem loadOne_ok (here : RelPath) (s : HistStore) (kids : List Hist)
    (hp : s.chainPresent = true) (h : checkChain s = .ok ()) :
    loadOne here (some s) kids = .ok (.mk here (loadGens s) s.chain true kids) := by
  simp [loadOne, hp, h, bind, Except.bind, pure, Except.pure]

/-- a store is faulty "as in 2/3": no chain file, or a chain whose first problematic entry is modified (31) or
missing / unknown (33) -/
inductive Faulty (s : HistStore) : Err → Prop where
  | noChain (h : s.chainPresent = false) : Faulty s errNoChain
  | modified (hp : s.chainPresent = true) (pre post : List ChainEntry) (e : ChainEntry) (g : Generation)
      (hchain : s.chain = pre ++ e :: post)
      (hpre : ∀ p ∈ pre, ∃ g, s.gens.find? (fun g => g.fileName == p.fileName) = some g ∧ g.state = .ok)
      (hg : s.gens.find? (fun g => g.fileName == e.fileName) = some g) (hs : g.state = .modified) :
      Faulty s errModified
  | missing (hp : s.chainPresent = true) (pre post : List ChainEntry) (e : ChainEntry) (g : Generation)
      (hchain : s.chain = pre ++ e :: post)
      (hpre : ∀ p ∈ pre, ∃ g, s.gens.find? (fun g => g.fileName == p.fileName) = some g ∧ g.state = .ok)
      (hg : s.gens.find? (fun g => g.fileName == e.fileName) = some g) (hs : g.state = .missing) :
      Faulty s errMissingManifest
  | unknown (hp : s.chainPresent = true) (pre post : List ChainEntry) (e : ChainEntry)
      (hchain : s.chain = pre ++ e :: post)
      (hpre : ∀ p ∈ pre, ∃ g, s.gens.find? (fun g => g.fileName == p.fileName) = some g ∧ g.state = .ok)
      (hg : s.gens.find? (fun g => g.fileName == e.fileName) = none) :
      Faulty s errMissingManifest

theorem loadOne_faulty (here : RelPath) (s : HistStore) (kids : List Hist) (x : Err) (h : Faulty s x) :
    loadOne here (some s) kids = .error x := by
  cases h with
  | noChain h => exact loadOne_no_chain here s kids h
  | modified hp pre post e g hchain hpre hg hs =>
    exact loadOne_chain_fault here s kids _ hp ((checkChain_first_fault s pre post e hchain hpre).1 g hg hs)
  | missing hp pre post e g hchain hpre hg hs =>
    exact loadOne_chain_fault here s kids _ hp ((checkChain_first_fault s pre post e hchain hpre).2.1 g hg hs)
  | unknown hp pre post e hchain hpre hg =>
    exact loadOne_chain_fault here s kids _ hp ((checkChain_first_fault s pre post e hchain hpre).2.2 hg)

theorem storeFault_of_faulty (s : HistStore) (x : Err) (h : Faulty s x) : storeFault (some s) = some x := by
  rw [← loadOne_err [] (some s) [], loadOne_faulty [] s [] x h]; rfl

/-- `Faulty` is exactly "loading this folder fails": the characterisation is complete -/
theorem faulty_iff (s : HistStore) (x : Err) : Faulty s x ↔ ∀ here kids, loadOne here (some s) kids = .error x := by
  constructor
  · intro h here kids; exact loadOne_faulty here s kids x h
  · intro h
    have h0 := h [] []
    have hsf : storeFault (some s) = some x := by rw [← loadOne_err [] (some s) [], h0]; rfl
    unfold storeFault at hsf
    cases hp : s.chainPresent with
    | false =>
      simp [hp] at hsf; subst hsf; exact .noChain hp
    | true =>
      simp only [hp, Bool.not_true, Bool.false_eq_true, if_false] at hsf
      -- split the chain at the first entry at fault
      have key : ∀ (l acc : List ChainEntry), s.chain = acc ++ l →
          (∀ p ∈ acc, entryFault s p = none) → l.findSome? (entryFault s) = some x → Faulty s x := by
        intro l
        induction l with
        | nil => intro acc _ _ h; simp at h
        | cons e es ih =>
          intro acc hacc hclean hf
          rw [List.findSome?_cons] at hf
          cases he : entryFault s e with
          | none =>
            rw [he] at hf
            apply ih (acc ++ [e]) (by simp [hacc]) _ hf
            intro p hp'
            rcases List.mem_append.1 hp' with h1 | h1
            · exact hclean p h1
            · simp at h1; subst h1; exact he
          | some y =>
            rw [he] at hf
            cases hf
            have hpre : ∀ p ∈ acc, ∃ g, s.gens.find? (fun g => g.fileName == p.fileName) = some g ∧
                g.state = .ok := fun p hp' => (entryFault_none_iff s p).1 (hclean p hp')
            unfold entryFault resolve at he
            cases hg : s.gens.find? (fun g => g.fileName == e.fileName) with
            | none =>
              simp [hg] at he; subst he
              exact .unknown hp acc es e hacc hpre hg
            | some g =>
              cases hs : g.state with
              | ok => simp [hg, hs] at he
              | modified =>
                simp [hg, hs] at he; subst he
                exact .modified hp acc es e g hacc hpre hg hs
              | missing =>
                simp [hg, hs] at he; subst he
                exact .missing hp acc es e g hacc hpre hg hs
      exact key s.chain [] rfl (by simp) hsf

/-! ### 4. `loadHistory`: the root first, then the nested histories -/

/-- the root is checked before the children are looked for -/
theorem loadHistory_root_error (t : Node) (x : Err) (h : loadOne [] t.hist [] = .error x) :
    loadHistory t = .error x := by
  simp [loadHistory, h, bind, Except.bind]

theorem loadHistory_root_fault (n : String) (cs : List Node) (s : HistStore) (x : Err) (h : Faulty s x) :
    loadHistory (.dir n cs (some s)) = .error x :=
  loadHistory_root_error _ x (loadOne_faulty [] s [] x h)

/-- general nesting, first form: an error while looking for the children is the result when the root is fine -/
theorem loadHistory_children_error (t : Node) (r : Hist) (x : Err)
    (hroot : loadOne [] t.hist [] = .ok r) (h : findChildren [] t = .error x) :
    loadHistory t = .error x := by
  simp [loadHistory, hroot, h, bind, Except.bind]

/-- general nesting, complete form: `loadHistory` fails with the FIRST fault of the tree in evaluation order (root
store, then the children in stored order, each after what is below it), and succeeds iff there is no fault at all -/
theorem loadHistory_error_iff (t : Node) (x : Err) :
    loadHistory t = .error x ↔ (allFaults t).head? = some x := by
  rw [← loadHistory_err, exceptErr_eq_some]

theorem loadHistory_ok_iff (t : Node) : (∃ h, loadHistory t = .ok h) ↔ allFaults t = [] := by
  rw [← exceptErr_eq_none, loadHistory_err]
  cases allFaults t <;> simp

/-- a single fault ANYWHERE (root or nested at any depth): that one is reported -/
theorem loadHistory_single_fault (t : Node) (x : Err) (h : allFaults t = [x]) : loadHistory t = .error x := by
  rw [loadHistory_error_iff, h]; rfl

/-- whatever `loadHistory` reports is the fault of some store of the tree -/
theorem loadHistory_error_mem (t : Node) (x : Err) (h : loadHistory t = .error x) : x ∈ allFaults t := by
  rw [loadHistory_error_iff] at h
  exact List.mem_of_head? h

/-- exactly one nested history, a direct child of the root, and it is faulty -/
theorem loadHistory_child_fault_single (rn n : String) (rootStore : Option HistStore) (r : Hist)
    (pre post cs : List Node) (s : HistStore) (x : Err)
    (hroot : loadOne [] rootStore [] = .ok r)
    (hpre : ∀ c ∈ pre, noHist c = true) (hpost : ∀ c ∈ post, noHist c = true)
    (hcs : ∀ c ∈ cs, noHist c = true)
    (h : Faulty s x) :
    loadHistory (.dir rn (pre ++ .dir n cs (some s) :: post) rootStore) = .error x := by
  apply loadHistory_single_fault
  have h1 : storeFault rootStore = none := by
    rw [← loadOne_err [] rootStore [], hroot]; rfl
  have hp := nestedFaultsList_noHist pre ((noHistList_iff pre).2 hpre)
  have hq := nestedFaultsList_noHist post ((noHistList_iff post).2 hpost)
  have hc := nestedFaultsList_noHist cs ((noHistList_iff cs).2 hcs)
  simp [allFaults, Node.hist, h1, nestedFaults, nestedFaultsList_append, nestedFaultsList, hp, hq, hc,
    storeFault_of_faulty s x h]

/-- the same at any depth: the faulty history sits below a chain of history-free folders -/
theorem nestedFaults_single_deep (n : String) (pre post : List Node) (c : Node) (hh : Option HistStore) (x : Err)
    (hpre : ∀ c ∈ pre, noHist c = true) (hpost : ∀ c ∈ post, noHist c = true)
    (hc : nestedFaults c ++ (storeFault c.hist).toList = [x]) :
    nestedFaults (.dir n (pre ++ c :: post) hh) = [x] := by
  have hp := nestedFaultsList_noHist pre ((noHistList_iff pre).2 hpre)
  have hq := nestedFaultsList_noHist post ((noHistList_iff post).2 hpost)
  simp [nestedFaults, nestedFaultsList_append, nestedFaultsList, hp, hq, hc]

/-! ### 5. every history-reading command refuses and writes nothing -/

/-- the outcome of a refusal: the error, an empty report, nothing written -/
def refusal (e : Err) : Outcome := { err := some e, report := {}, written := [] }

theorem commands_refuse (env : Env) (t : Node) (e : Err) (h : loadHistory t = .error e)
    (o : CreateOpts) (vo : VerifyOpts) (dop : DhOpts) (a b : List String) (f : RelPath) :
    createFolder env t o = refusal e ∧ createSingleFiles env t o = refusal e ∧ create env t o = refusal e ∧
    verify env t vo = refusal e ∧ diff env t vo = refusal e ∧ verifyDh env t dop = refusal e ∧
    flatten env t a b = refusal e ∧ info t = .error e ∧ infoSingleFile t f = .error e := by
  have h1 : createFolder env t o = refusal e := by simp [createFolder, h, refusal]
  have h2 : createSingleFiles env t o = refusal e := by simp [createSingleFiles, h, refusal]
  refine ⟨h1, h2, ?_, ?_, ?_, ?_, ?_, ?_, ?_⟩
  · unfold create; split <;> assumption
  · simp [verify, verifyOrDiff, h, refusal]
  · simp [diff, verifyOrDiff, h, refusal]
  · simp [verifyDh, h, refusal]
  · simp [flatten, h, refusal]
  · simp [info, h, bind, Except.bind]
  · simp [infoSingleFile, h, bind, Except.bind]

/-- spelled out: error set, nothing written, nothing reported, exit code that of the error -/
theorem refusal_fields (e : Err) :
    (refusal e).err = some e ∧ (refusal e).written = [] ∧
    (refusal e).report.mismatch = [] ∧ (refusal e).report.missing = [] ∧ (refusal e).report.new = [] ∧
    (refusal e).report.renamed = [] ∧ (refusal e).report.dirMismatch = [] ∧ (refusal e).report.lines = [] :=
  ⟨rfl, rfl, rfl, rfl, rfl, rfl, rfl, rfl⟩

/-! ### 6. the exit codes -/

theorem exit_codes : errModified = .exit 31 ∧ errNoChain = .exit 32 ∧ errMissingManifest = .exit 33 := by decide

/-- end to end: a faulty root store makes `verify` end with 31 / 32 / 33 -/
theorem refusal_exitCode (e : Err) (h : e = errModified ∨ e = errMissingManifest ∨ e = errNoChain) :
    (refusal e).exitCode = 31 ∨ (refusal e).exitCode = 33 ∨ (refusal e).exitCode = 32 := by
  rcases h with rfl | rfl | rfl
  · exact Or.inl (by decide)
  · exact Or.inr (Or.inl (by decide))
  · exact Or.inr (Or.inr (by decide))

/-! ### non-vacuity -/

section Examples

def gOk (nm : String) : Generation := { fileName := nm }
def gMod (nm : String) : Generation := { fileName := nm, state := .modified }
def gMiss (nm : String) : Generation := { fileName := nm, state := .missing }

/-- two generations, the second one modified -/
def sMod : HistStore :=
  { gens := [gOk "0001_a_2020-01-01_000000Z.mhl", gMod "0002_a_2020-01-02_000000Z.mhl"],
    chain := [⟨1, "0001_a_2020-01-01_000000Z.mhl"⟩, ⟨2, "0002_a_2020-01-02_000000Z.mhl"⟩] }

def sFine : HistStore :=
  { gens := [gOk "0001_a_2020-01-01_000000Z.mhl"], chain := [⟨1, "0001_a_2020-01-01_000000Z.mhl"⟩] }

def sNoChain : HistStore := { sFine with chainPresent := false }

/-- first entry deleted from disk, second one modified: the first problem (33) wins -/
def sBoth : HistStore :=
  { gens := [gMod "0002_a_2020-01-02_000000Z.mhl"],
    chain := [⟨1, "0001_a_2020-01-01_000000Z.mhl"⟩, ⟨2, "0002_a_2020-01-02_000000Z.mhl"⟩] }

/-- `Except` has no decidable equality: decide the error component -/
theorem error_of_decide {α : Type} (x : Except Err α) (e : Err) (h : exceptErr x = some e) : x = .error e :=
  (exceptErr_eq_some x e).1 h

example : checkChain sFine = .ok () := by
  obtain ⟨⟨⟩, h⟩ := (exceptErr_eq_none (checkChain sFine)).1 (by decide); exact h
example : checkChain sMod = .error (.exit 31) := error_of_decide _ _ (by decide)
example : checkChain sBoth = .error (.exit 33) := error_of_decide _ _ (by decide)

example : Faulty sMod errModified :=
  .modified rfl [⟨1, "0001_a_2020-01-01_000000Z.mhl"⟩] [] ⟨2, "0002_a_2020-01-02_000000Z.mhl"⟩
    (gMod "0002_a_2020-01-02_000000Z.mhl") rfl (by decide) (by decide) rfl

example : Faulty sNoChain errNoChain := .noChain rfl

/-- a fine root history, files, a history-free folder, and ONE nested history which is damaged -/
def tree1 : Node :=
  .dir "root" ([.file "a.txt" [1], .dir "plain" [.file "b.txt" [2]] none] ++
    .dir "card" [.file "c.txt" [3]] (some sMod) :: [.file "z.txt" [4]]) (some sFine)

example : loadHistory tree1 = .error (.exit 31) := error_of_decide _ _ (by decide)

/-- the hypotheses of `loadHistory_child_fault_single` are satisfiable (and give the same answer) -/
example : loadHistory tree1 = .error errModified :=
  loadHistory_child_fault_single "root" "card" (some sFine) (.mk [] (loadGens sFine) sFine.chain true [])
    [.file "a.txt" [1], .dir "plain" [.file "b.txt" [2]] none] [.file "z.txt" [4]] [.file "c.txt" [3]] sMod
    errModified rfl (by decide) (by decide) (by decide)
    (.modified rfl [⟨1, "0001_a_2020-01-01_000000Z.mhl"⟩] [] ⟨2, "0002_a_2020-01-02_000000Z.mhl"⟩
      (gMod "0002_a_2020-01-02_000000Z.mhl") rfl (by decide) (by decide) rfl)

/-- deeper nesting: the damaged history two levels down, below a fine nested history -/
def tree2 : Node :=
  .dir "root" [.dir "reel" [.dir "card" [.file "c.txt" [3]] (some sNoChain)] (some sFine)] (some sFine)

example : allFaults tree2 = [errNoChain] := by decide
example : loadHistory tree2 = .error (.exit 32) := error_of_decide _ _ (by decide)

/-- the model's stored-order evaluation: two damaged histories, the first in stored order is reported -/
example : allFaults (.dir "r" [.dir "b" [] (some sNoChain), .dir "a" [] (some sMod)] none)
    = [errNoChain, errModified] := by decide

/-- a command on the damaged tree -/
example : (verify { H := fun _ _ => "", D := fun _ _ => none, hit := fun _ _ => false, rootName := "root" } tree1 {})
    = refusal (.exit 31) := by
  have h : loadHistory tree1 = .error (.exit 31) := error_of_decide _ _ (by decide)
  exact (commands_refuse _ tree1 _ h {} {} {} [] [] []).2.2.2.1

end Examples

end MhlProps.C05
