/-
C05 — Any change to a chained manifest is detected before anything else happens.

If a manifest listed in a chain (root or nested history, any generation) is modified or missing, or the chain file of
an existing `ascmhl` folder is missing, every history-reading command refuses with 31 / 33 / 32 and writes nothing.

Property theorems only; helper lemmas live in MhlProps/Proofs/LoadLemmas.lean.  Vocabulary from there:
`resolve s e` = the generation the chain entry `e` names (first generation of `s.gens` with that file name),
`entryFault s e` = what is wrong with it, `storeFault o` = what is wrong with one `ascmhl` folder,
`nestedFaults t` / `allFaults t` = all faults of a tree in the order `loadHistory` meets them.
-/
import MhlProps.Proofs.LoadLemmas

namespace MhlProps.C05
open MhlModel

/-! ### 1. the chain check passes iff every chained manifest is there and unmodified -/

theorem checkChain_ok_iff (s : HistStore) :
    checkChain s = .ok () ↔
      ∀ e ∈ s.chain, ∃ g, s.gens.find? (fun g => g.fileName == e.fileName) = some g ∧ g.state = .ok := by
  rw [checkChain_spec]
  cases h : s.chain.findSome? (entryFault s) with
  | none =>
    rw [List.findSome?_eq_none_iff] at h
    simp only [true_iff]
    intro e he
    exact (entryFault_none_iff s e).1 (h e he)
  | some x =>
    simp only [reduceCtorEq, false_iff]
    intro hall
    obtain ⟨e, he, hx⟩ := List.exists_of_findSome?_eq_some h
    have := (entryFault_none_iff s e).2 (hall e he)
    rw [this] at hx; cases hx

/-! ### 2. the first problem in chain order decides -/

/-- the general form: with a clean prefix, the verdict on the next entry is the verdict on the chain -/
theorem checkChain_first_fault_general (s : HistStore) (pre post : List ChainEntry) (e : ChainEntry) (x : Err)
    (hchain : s.chain = pre ++ e :: post)
    (hpre : ∀ p ∈ pre, ∃ g, s.gens.find? (fun g => g.fileName == p.fileName) = some g ∧ g.state = .ok)
    (he : entryFault s e = some x) :
    checkChain s = .error x := by
  rw [checkChain_spec, hchain, List.findSome?_append]
  have : pre.findSome? (entryFault s) = none := by
    rw [List.findSome?_eq_none_iff]
    intro p hp
    exact (entryFault_none_iff s p).2 (hpre p hp)
  simp [this, he]

theorem checkChain_first_fault (s : HistStore) (pre post : List ChainEntry) (e : ChainEntry)
    (hchain : s.chain = pre ++ e :: post)
    (hpre : ∀ p ∈ pre, ∃ g, s.gens.find? (fun g => g.fileName == p.fileName) = some g ∧ g.state = .ok) :
    (∀ g, s.gens.find? (fun g => g.fileName == e.fileName) = some g → g.state = .modified →
      checkChain s = .error errModified) ∧
    (∀ g, s.gens.find? (fun g => g.fileName == e.fileName) = some g → g.state = .missing →
      checkChain s = .error errMissingManifest) ∧
    (s.gens.find? (fun g => g.fileName == e.fileName) = none →
      checkChain s = .error errMissingManifest) := by
  refine ⟨fun g hg hs => ?_, fun g hg hs => ?_, fun hg => ?_⟩
  · apply checkChain_first_fault_general s pre post e _ hchain hpre
    simp [entryFault, resolve, hg, hs]
  · apply checkChain_first_fault_general s pre post e _ hchain hpre
    simp [entryFault, resolve, hg, hs]
  · apply checkChain_first_fault_general s pre post e _ hchain hpre
    simp [entryFault, resolve, hg]

/-! ### 3. `loadOne` -/

theorem loadOne_no_chain (here : RelPath) (s : HistStore) (kids : List Hist) (h : s.chainPresent = false) :
    loadOne here (some s) kids = .error errNoChain := by
  rw [loadOne_spec]; simp [storeFault, h]

/-- the folder's own checks (`checkStore`) are all that can make `loadOne` fail -/
theorem loadOne_eq (here : RelPath) (store : Option HistStore) (kids : List Hist) :
    loadOne here store kids = (checkStore store).map fun _ => buildHist here store kids := by
  unfold loadOne; cases checkStore store <;> rfl

theorem checkStore_no_chain (s : HistStore) (h : s.chainPresent = false) :
    checkStore (some s) = .error errNoChain := by
  simp [checkStore, h]; rfl

theorem checkStore_chain (s : HistStore) (h : s.chainPresent = true) : checkStore (some s) = checkChain s := by
  simp [checkStore, h]

theorem loadOne_none (here : RelPath) (kids : List Hist) :
    loadOne here none kids = .ok (.mk here [] [] false kids) := rfl

/-- with the chain file present the chain check decides -/
theorem loadOne_chain_fault (here : RelPath) (s : HistStore) (kids : List Hist) (x : Err)
    (hp : s.chainPresent = true) (h : checkChain s = .error x) :
    loadOne here (some s) kids = .error x := by
  rw [loadOne_eq, checkStore_chain s hp, h]; rfl

theorem loadOne_ok (here : RelPath) (s : HistStore) (kids : List Hist)
    (hp : s.chainPresent = true) (h : checkChain s = .ok ()) :
    loadOne here (some s) kids = .ok (.mk here (loadGens s) s.chain true kids) := by
  rw [loadOne_eq, checkStore_chain s hp, h]; rfl

/-- a store is faulty "as in 2/3": no chain file, or a chain whose first problematic entry is modified (31) or
missing / unknown (33) -/
inductive Faulty (s : HistStore) : Err → Prop where
  | noChain (h : s.chainPresent = false) : Faulty s errNoChain
  | modified (hp : s.chainPresent = true) (pre post : List ChainEntry) (e : ChainEntry) (g : Generation)
      (hchain : s.chain = pre ++ e :: post)
      (hpre : ∀ p ∈ pre, ∃ g, s.gens.find? (fun g => g.fileName == p.fileName) = some g ∧ g.state = .ok)
      (hg : s.gens.find? (fun g => g.fileName == e.fileName) = some g) (hs : g.state = .modified) :
      Faulty s errModified
  | missing (hp : s.chainPresent = true) (pre post : List ChainEntry) (e : ChainEntry) (g : Generation)
      (hchain : s.chain = pre ++ e :: post)
      (hpre : ∀ p ∈ pre, ∃ g, s.gens.find? (fun g => g.fileName == p.fileName) = some g ∧ g.state = .ok)
      (hg : s.gens.find? (fun g => g.fileName == e.fileName) = some g) (hs : g.state = .missing) :
      Faulty s errMissingManifest
  | unknown (hp : s.chainPresent = true) (pre post : List ChainEntry) (e : ChainEntry)
      (hchain : s.chain = pre ++ e :: post)
      (hpre : ∀ p ∈ pre, ∃ g, s.gens.find? (fun g => g.fileName == p.fileName) = some g ∧ g.state = .ok)
      (hg : s.gens.find? (fun g => g.fileName == e.fileName) = none) :
      Faulty s errMissingManifest

theorem loadOne_faulty (here : RelPath) (s : HistStore) (kids : List Hist) (x : Err) (h : Faulty s x) :
    loadOne here (some s) kids = .error x := by
  cases h with
  | noChain h => exact loadOne_no_chain here s kids h
  | modified hp pre post e g hchain hpre hg hs =>
    exact loadOne_chain_fault here s kids _ hp ((checkChain_first_fault s pre post e hchain hpre).1 g hg hs)
  | missing hp pre post e g hchain hpre hg hs =>
    exact loadOne_chain_fault here s kids _ hp ((checkChain_first_fault s pre post e hchain hpre).2.1 g hg hs)
  | unknown hp pre post e hchain hpre hg =>
    exact loadOne_chain_fault here s kids _ hp ((checkChain_first_fault s pre post e hchain hpre).2.2 hg)

theorem storeFault_of_faulty (s : HistStore) (x : Err) (h : Faulty s x) : storeFault (some s) = some x := by
  rw [← loadOne_err [] (some s) [], loadOne_faulty [] s [] x h]; rfl

/-- `Faulty` is exactly "loading this folder fails": the characterisation is complete -/
theorem faulty_iff (s : HistStore) (x : Err) : Faulty s x ↔ ∀ here kids, loadOne here (some s) kids = .error x := by
  constructor
  · intro h here kids; exact loadOne_faulty here s kids x h
  · intro h
    have h0 := h [] []
    have hsf : storeFault (some s) = some x := by rw [← loadOne_err [] (some s) [], h0]; rfl
    unfold storeFault at hsf
    cases hp : s.chainPresent with
    | false =>
      simp [hp] at hsf; subst hsf; exact .noChain hp
    | true =>
      simp only [hp, Bool.not_true, Bool.false_eq_true, if_false] at hsf
      -- split the chain at the first entry at fault
      have key : ∀ (l acc : List ChainEntry), s.chain = acc ++ l →
          (∀ p ∈ acc, entryFault s p = none) → l.findSome? (entryFault s) = some x → Faulty s x := by
        intro l
        induction l with
        | nil => intro acc _ _ h; simp at h
        | cons e es ih =>
          intro acc hacc hclean hf
          rw [List.findSome?_cons] at hf
          cases he : entryFault s e with
          | none =>
            rw [he] at hf
            apply ih (acc ++ [e]) (by simp [hacc]) _ hf
            intro p hp'
            rcases List.mem_append.1 hp' with h1 | h1
            · exact hclean p h1
            · simp at h1; subst h1; exact he
          | some y =>
            rw [he] at hf
            cases hf
            have hpre : ∀ p ∈ acc, ∃ g, s.gens.find? (fun g => g.fileName == p.fileName) = some g ∧
                g.state = .ok := fun p hp' => (entryFault_none_iff s p).1 (hclean p hp')
            unfold entryFault resolve at he
            cases hg : s.gens.find? (fun g => g.fileName == e.fileName) with
            | none =>
              simp [hg] at he; subst he
              exact .unknown hp acc es e hacc hpre hg
            | some g =>
              cases hs : g.state with
              | ok => simp [hg, hs] at he
              | modified =>
                simp [hg, hs] at he; subst he
                exact .modified hp acc es e g hacc hpre hg hs
              | missing =>
                simp [hg, hs] at he; subst he
                exact .missing hp acc es e g hacc hpre hg hs
      exact key s.chain [] rfl (by simp) hsf

/-! ### 4. `loadHistory`: the root first, then the nested histories -/

/-- the root is checked before the children are looked for -/
theorem loadHistory_root_error (t : Node) (x : Err) (h : loadOne [] t.hist [] = .error x) :
    loadHistory t = .error x := by
  have hs : storeFault t.hist = some x := by rw [← loadOne_err [] t.hist [], h]; rfl
  have hc : checkStore t.hist = .error x := by rw [checkStore_spec, hs]
  simp [loadHistory, hc, bind, Except.bind]

theorem loadHistory_root_fault (n : String) (cs : List Node) (s : HistStore) (x : Err) (h : Faulty s x) :
    loadHistory (.dir n cs (some s)) = .error x :=
  loadHistory_root_error _ x (loadOne_faulty [] s [] x h)

/-- general nesting, first form: an error while looking for the children is the result when the root is fine -/
theorem loadHistory_children_error (t : Node) (r : Hist) (x : Err)
    (hroot : loadOne [] t.hist [] = .ok r) (h : findChildren [] t = .error x) :
    loadHistory t = .error x := by
  have hs : storeFault t.hist = none := by rw [← loadOne_err [] t.hist [], hroot]; rfl
  have hc : checkStore t.hist = .ok () := by rw [checkStore_spec, hs]
  simp [loadHistory, hc, h, bind, Except.bind]

/-- general nesting, complete form: `loadHistory` fails with the FIRST fault of the tree in walk order (`allFaults`:
the root's own store, then the children in NAME order, each child's own store before what is below it), and succeeds
iff there is no fault at all.  Sibling names need not be distinct for this to be well defined: the stable sort keeps
the stored order among equal names (which a real directory never has). -/
theorem loadHistory_error_iff (t : Node) (x : Err) :
    loadHistory t = .error x ↔ (allFaults t).head? = some x := by
  rw [← loadHistory_err, exceptErr_eq_some]

theorem loadHistory_ok_iff (t : Node) : (∃ h, loadHistory t = .ok h) ↔ allFaults t = [] := by
  rw [← exceptErr_eq_none, loadHistory_err]
  cases allFaults t <;> simp

/-- a single fault ANYWHERE (root or nested at any depth): that one is reported -/
theorem loadHistory_single_fault (t : Node) (x : Err) (h : allFaults t = [x]) : loadHistory t = .error x := by
  rw [loadHistory_error_iff, h]; rfl

/-- whatever `loadHistory` reports is the fault of some store of the tree -/
theorem loadHistory_error_mem (t : Node) (x : Err) (h : loadHistory t = .error x) : x ∈ allFaults t := by
  rw [loadHistory_error_iff] at h
  exact List.mem_of_head? h

/-- exactly one nested history, a direct child of the root, and it is faulty -/
theorem loadHistory_child_fault_single (rn n : String) (rootStore : Option HistStore) (r : Hist)
    (pre post cs : List Node) (s : HistStore) (x : Err)
    (hroot : loadOne [] rootStore [] = .ok r)
    (hpre : ∀ c ∈ pre, noHist c = true) (hpost : ∀ c ∈ post, noHist c = true)
    (hcs : ∀ c ∈ cs, noHist c = true)
    (h : Faulty s x) :
    loadHistory (.dir rn (pre ++ .dir n cs (some s) :: post) rootStore) = .error x := by
  apply loadHistory_single_fault
  have h1 : storeFault rootStore = none := by
    rw [← loadOne_err [] rootStore [], hroot]; rfl
  have hp := nestedFaultsList_noHist pre ((noHistList_iff pre).2 hpre)
  have hq := nestedFaultsList_noHist post ((noHistList_iff post).2 hpost)
  have hc : nestedFaults (.dir n cs (some s)) = [] := by
    rw [nestedFaults]
    exact flatMap_isort_nil _ (nestedFaultsList_noHist cs ((noHistList_iff cs).2 hcs))
  simp only [allFaults, Node.hist, h1, Option.toList, List.nil_append]
  rw [nestedFaults, nestedFaultsList_append, nestedFaultsList, flatMap_isort_single _ _ _ hp hq]
  simp [Node.hist, hc, storeFault_of_faulty s x h]

/-- the same at any depth: the faulty history sits below a chain of history-free folders -/
theorem nestedFaults_single_deep (n : String) (pre post : List Node) (c : Node) (hh : Option HistStore) (x : Err)
    (hpre : ∀ c ∈ pre, noHist c = true) (hpost : ∀ c ∈ post, noHist c = true)
    (hc : (storeFault c.hist).toList ++ nestedFaults c = [x]) :
    nestedFaults (.dir n (pre ++ c :: post) hh) = [x] := by
  have hp := nestedFaultsList_noHist pre ((noHistList_iff pre).2 hpre)
  have hq := nestedFaultsList_noHist post ((noHistList_iff post).2 hpost)
  rw [nestedFaults, nestedFaultsList_append, nestedFaultsList, flatMap_isort_single _ _ _ hp hq]
  exact hc

/-! ### 4b. the order in which damage is reported -/

/-- the faults a child folder contributes: its own store first, then what is nested in it -/
theorem nestedFaults_dir (n : String) (cs : List Node) (h : Option HistStore) :
    nestedFaults (.dir n cs h) =
      (isort keyLe (cs.map fun c => (c.name, (storeFault c.hist).toList ++ nestedFaults c))).flatMap (·.2) := by
  rw [nestedFaults, nestedFaultsList_eq_map]

/-- THE ORDER OF REPORTING.  The root store is fine; a child `c` has a damaged store of its own (fault `x`); every
other child either has a strictly greater name or is free of faults (itself and everything below it).  Then
`loadHistory` reports `x` — whatever else is damaged INSIDE `c` (a damaged parent history is reported before any
damage in its nested histories) and whatever is damaged in the siblings with greater names (of two damaged sibling
histories the one with the smaller name is reported), and wherever the children are listed in the stored order. -/
theorem loadHistory_fault_order (rn : String) (pre post : List Node) (c : Node) (rootStore : Option HistStore)
    (x : Err) (hroot : storeFault rootStore = none) (hc : storeFault c.hist = some x)
    (hothers : ∀ c' ∈ pre ++ post,
      strLe c'.name c.name = false ∨ (storeFault c'.hist = none ∧ nestedFaults c' = [])) :
    loadHistory (.dir rn (pre ++ c :: post) rootStore) = .error x := by
  rw [loadHistory_error_iff]
  simp only [allFaults, Node.hist, hroot, Option.toList, List.nil_append]
  rw [nestedFaults, head?_flatMap]
  let p : String × List Err := (c.name, (storeFault c.hist).toList ++ nestedFaults c)
  have hpv : p.2.head? = some x := by simp [p, hc]
  rw [← hpv]
  have hmem : ∀ q ∈ nestedFaultsList (pre ++ c :: post), q = p ∨ ∃ c' ∈ pre ++ post,
      q = (c'.name, (storeFault c'.hist).toList ++ nestedFaults c') := by
    intro q hq
    rw [nestedFaultsList_eq_map, List.mem_map] at hq
    obtain ⟨c', hc', rfl⟩ := hq
    rcases List.mem_append.1 hc' with h | h
    · exact Or.inr ⟨c', List.mem_append_left _ h, rfl⟩
    · rcases List.mem_cons.1 h with rfl | h
      · exact Or.inl rfl
      · exact Or.inr ⟨c', List.mem_append_right _ h, rfl⟩
  apply findSome?_sorted_first keyLe (fun q : String × List Err => q.2.head?) _ p
  · exact isort_pairwise_d keyLe keyLe_total keyLe_trans _
  · rw [mem_isort_d, nestedFaultsList_eq_map, List.mem_map]
    exact ⟨c, by simp, rfl⟩
  · rw [hpv]; simp
  · intro q hq
    rw [mem_isort_d] at hq
    rcases hmem q hq with rfl | ⟨c', hc', rfl⟩
    · exact Or.inl rfl
    · rcases hothers c' hc' with h | ⟨h1, h2⟩
      · exact Or.inr (Or.inr h)
      · exact Or.inr (Or.inl (by simp [h1, h2]))

/-- special case: a damaged parent history is reported before any damage in its nested histories -/
theorem loadHistory_parent_before_nested (rn n : String) (cs : List Node) (s : HistStore)
    (rootStore : Option HistStore) (x : Err) (hroot : storeFault rootStore = none) (h : Faulty s x) :
    loadHistory (.dir rn [.dir n cs (some s)] rootStore) = .error x :=
  loadHistory_fault_order rn [] [] (.dir n cs (some s)) rootStore x hroot (storeFault_of_faulty s x h)
    (by simp)

/-- special case: of two damaged sibling histories the one with the smaller name is reported, in either stored
order and whatever is nested in them -/
theorem loadHistory_smaller_sibling_first (rn a b : String) (csa csb : List Node) (sa sb : HistStore)
    (rootStore : Option HistStore) (x : Err) (hroot : storeFault rootStore = none)
    (hab : a < b) (h : Faulty sa x) :
    loadHistory (.dir rn [.dir a csa (some sa), .dir b csb (some sb)] rootStore) = .error x ∧
    loadHistory (.dir rn [.dir b csb (some sb), .dir a csa (some sa)] rootStore) = .error x := by
  have hlt : strLe b a = false := by
    simp only [strLe, decide_eq_false_iff_not]
    exact String.not_le.2 hab
  constructor
  · exact loadHistory_fault_order rn [] [.dir b csb (some sb)] (.dir a csa (some sa)) rootStore x hroot
      (storeFault_of_faulty sa x h) (by simpa [Node.name] using Or.inl hlt)
  · exact loadHistory_fault_order rn [.dir b csb (some sb)] [] (.dir a csa (some sa)) rootStore x hroot
      (storeFault_of_faulty sa x h) (by simpa [Node.name] using Or.inl hlt)

/-- with distinct sibling names two children with the same name are the same child -/
theorem eq_of_name_eq {cs : List Node} (hnd : (cs.map Node.name).Nodup) {c c' : Node} (hc : c ∈ cs) (hc' : c' ∈ cs)
    (h : c.name = c'.name) : c = c' := by
  induction cs with
  | nil => cases hc
  | cons d ds ih =>
    rw [List.map_cons, List.nodup_cons] at hnd
    rcases List.mem_cons.1 hc with rfl | hc1 <;> rcases List.mem_cons.1 hc' with rfl | hc2
    · rfl
    · exact absurd (List.mem_map.2 ⟨c', hc2, h.symm⟩) hnd.1
    · exact absurd (List.mem_map.2 ⟨c, hc1, h⟩) hnd.1
    · exact ih hnd.2 hc1 hc2

/-- the reported damage does not depend on the order in which the OS lists a folder (distinct names, as on disk) -/
theorem nestedFaults_listing_order (n n' : String) {cs₁ cs₂ : List Node} (h h' : Option HistStore)
    (hp : cs₁.Perm cs₂) (hnd : (cs₁.map Node.name).Nodup) :
    nestedFaults (.dir n cs₁ h) = nestedFaults (.dir n' cs₂ h') := by
  rw [nestedFaults_dir, nestedFaults_dir]
  congr 1
  let f : Node → String × List Err := fun c => (c.name, (storeFault c.hist).toList ++ nestedFaults c)
  refine List.Perm.eq_of_pairwise (le := fun a b => keyLe a b = true) ?_
    (isort_pairwise_d keyLe keyLe_total keyLe_trans _) (isort_pairwise_d keyLe keyLe_total keyLe_trans _)
    ((isort_perm_d keyLe _).trans ((hp.map f).trans (isort_perm_d keyLe _).symm))
  intro a b ha hb hab hba
  rw [mem_isort_d, List.mem_map] at ha hb
  obtain ⟨c, hc, rfl⟩ := ha
  obtain ⟨c', hc', rfl⟩ := hb
  have hn : c.name = c'.name := strLe_antisymm _ _ hab hba
  rw [eq_of_name_eq hnd hc (hp.symm.subset hc') hn]

theorem loadHistory_error_listing_order (n n' : String) {cs₁ cs₂ : List Node} (h : Option HistStore)
    (hp : cs₁.Perm cs₂) (hnd : (cs₁.map Node.name).Nodup) (x : Err) :
    loadHistory (.dir n cs₁ h) = .error x ↔ loadHistory (.dir n' cs₂ h) = .error x := by
  rw [loadHistory_error_iff, loadHistory_error_iff, allFaults, allFaults,
    nestedFaults_listing_order n n' h h hp hnd]
  rfl

/-! ### 5. every history-reading command refuses and writes nothing -/

/-- the outcome of a refusal: the error, an empty report, nothing written -/
def refusal (e : Err) : Outcome := { err := some e, report := {}, written := [] }

theorem commands_refuse (env : Env) (t : Node) (e : Err) (h : loadHistory t = .error e)
    (o : CreateOpts) (vo : VerifyOpts) (dop : DhOpts) (a b : List String) (f : RelPath) :
    createFolder env t o = refusal e ∧ createSingleFiles env t o = refusal e ∧ create env t o = refusal e ∧
    verify env t vo = refusal e ∧ diff env t vo = refusal e ∧ verifyDh env t dop = refusal e ∧
    flatten env t a b = refusal e ∧ info t = .error e ∧ infoSingleFile t f = .error e := by
  have h1 : createFolder env t o = refusal e := by simp [createFolder, h, refusal]
  have h2 : createSingleFiles env t o = refusal e := by simp [createSingleFiles, h, refusal]
  refine ⟨h1, h2, ?_, ?_, ?_, ?_, ?_, ?_, ?_⟩
  · unfold create; split <;> assumption
  · simp [verify, verifyOrDiff, h, refusal]
  · simp [diff, verifyOrDiff, h, refusal]
  · simp [verifyDh, h, refusal]
  · simp [flatten, h, refusal]
  · simp [info, h, bind, Except.bind]
  · simp [infoSingleFile, h, bind, Except.bind]

/-- spelled out: error set, nothing written, nothing reported, exit code that of the error -/
theorem refusal_fields (e : Err) :
    (refusal e).err = some e ∧ (refusal e).written = [] ∧
    (refusal e).report.mismatch = [] ∧ (refusal e).report.missing = [] ∧ (refusal e).report.new = [] ∧
    (refusal e).report.renamed = [] ∧ (refusal e).report.dirMismatch = [] ∧ (refusal e).report.lines = [] :=
  ⟨rfl, rfl, rfl, rfl, rfl, rfl, rfl, rfl⟩

/-! ### 6. the exit codes -/

theorem exit_codes : errModified = .exit 31 ∧ errNoChain = .exit 32 ∧ errMissingManifest = .exit 33 := by decide

/-- end to end: a faulty root store makes `verify` end with 31 / 32 / 33 -/
theorem refusal_exitCode (e : Err) (h : e = errModified ∨ e = errMissingManifest ∨ e = errNoChain) :
    (refusal e).exitCode = 31 ∨ (refusal e).exitCode = 33 ∨ (refusal e).exitCode = 32 := by
  rcases h with rfl | rfl | rfl
  · exact Or.inl (by decide)
  · exact Or.inr (Or.inl (by decide))
  · exact Or.inr (Or.inr (by decide))

/-! ### non-vacuity -/

section Examples

def gOk (nm : String) : Generation := { fileName := nm }
def gMod (nm : String) : Generation := { fileName := nm, state := .modified }
def gMiss (nm : String) : Generation := { fileName := nm, state := .missing }

/-- two generations, the second one modified -/
def sMod : HistStore :=
  { gens := [gOk "0001_a_2020-01-01_000000Z.mhl", gMod "0002_a_2020-01-02_000000Z.mhl"],
    chain := [⟨1, "0001_a_2020-01-01_000000Z.mhl"⟩, ⟨2, "0002_a_2020-01-02_000000Z.mhl"⟩] }

def sFine : HistStore :=
  { gens := [gOk "0001_a_2020-01-01_000000Z.mhl"], chain := [⟨1, "0001_a_2020-01-01_000000Z.mhl"⟩] }

def sNoChain : HistStore := { sFine with chainPresent := false }

/-- first entry deleted from disk, second one modified: the first problem (33) wins -/
def sBoth : HistStore :=
  { gens := [gMod "0002_a_2020-01-02_000000Z.mhl"],
    chain := [⟨1, "0001_a_2020-01-01_000000Z.mhl"⟩, ⟨2, "0002_a_2020-01-02_000000Z.mhl"⟩] }

/-- `Except` has no decidable equality: decide the error component -/
theorem error_of_decide {α : Type} (x : Except Err α) (e : Err) (h : exceptErr x = some e) : x = .error e :=
  (exceptErr_eq_some x e).1 h

example : checkChain sFine = .ok () := by
  obtain ⟨⟨⟩, h⟩ := (exceptErr_eq_none (checkChain sFine)).1 (by decide); exact h
example : checkChain sMod = .error (.exit 31) := error_of_decide _ _ (by decide)
example : checkChain sBoth = .error (.exit 33) := error_of_decide _ _ (by decide)

example : Faulty sMod errModified :=
  .modified rfl [⟨1, "0001_a_2020-01-01_000000Z.mhl"⟩] [] ⟨2, "0002_a_2020-01-02_000000Z.mhl"⟩
    (gMod "0002_a_2020-01-02_000000Z.mhl") rfl (by decide) (by decide) rfl

example : Faulty sNoChain errNoChain := .noChain rfl

/-- a fine root history, files, a history-free folder, and ONE nested history which is damaged -/
def tree1 : Node :=
  .dir "root" ([.file "a.txt" [1], .dir "plain" [.file "b.txt" [2]] none] ++
    .dir "card" [.file "c.txt" [3]] (some sMod) :: [.file "z.txt" [4]]) (some sFine)

example : loadHistory tree1 = .error (.exit 31) := error_of_decide _ _ (by decide)

/-- the hypotheses of `loadHistory_child_fault_single` are satisfiable (and give the same answer) -/
example : loadHistory tree1 = .error errModified :=
  loadHistory_child_fault_single "root" "card" (some sFine) (.mk [] (loadGens sFine) sFine.chain true [])
    [.file "a.txt" [1], .dir "plain" [.file "b.txt" [2]] none] [.file "z.txt" [4]] [.file "c.txt" [3]] sMod
    errModified rfl (by decide) (by decide) (by decide)
    (.modified rfl [⟨1, "0001_a_2020-01-01_000000Z.mhl"⟩] [] ⟨2, "0002_a_2020-01-02_000000Z.mhl"⟩
      (gMod "0002_a_2020-01-02_000000Z.mhl") rfl (by decide) (by decide) rfl)

/-- deeper nesting: the damaged history two levels down, below a fine nested history -/
def tree2 : Node :=
  .dir "root" [.dir "reel" [.dir "card" [.file "c.txt" [3]] (some sNoChain)] (some sFine)] (some sFine)

example : allFaults tree2 = [errNoChain] := by decide
example : loadHistory tree2 = .error (.exit 32) := error_of_decide _ _ (by decide)

/-- walk order, not stored order: of two damaged sibling histories the one with the smaller name is reported,
whichever way round they are listed -/
example : allFaults (.dir "r" [.dir "b" [] (some sNoChain), .dir "a" [] (some sMod)] none)
    = [errModified, errNoChain] := by decide
example : allFaults (.dir "r" [.dir "a" [] (some sMod), .dir "b" [] (some sNoChain)] none)
    = [errModified, errNoChain] := by decide
example : loadHistory (.dir "r" [.dir "b" [] (some sNoChain), .dir "a" [] (some sMod)] none)
    = .error (.exit 31) := error_of_decide _ _ (by decide)

/-- a damaged parent history is reported before the damage in the history nested in it (31 before 32), and the
nested damage of "a" before the sibling "b" -/
def tree3 : Node :=
  .dir "root" [.dir "b" [] (some sBoth),
               .dir "a" [.dir "inner" [] (some sNoChain)] (some sMod)] (some sFine)

example : allFaults tree3 = [errModified, errNoChain, errMissingManifest] := by decide
example : loadHistory tree3 = .error (.exit 31) := error_of_decide _ _ (by decide)

/-- the hypotheses of `loadHistory_fault_order` are satisfiable on that tree -/
example : loadHistory tree3 = .error errModified :=
  loadHistory_fault_order "root" [.dir "b" [] (some sBoth)] []
    (.dir "a" [.dir "inner" [] (some sNoChain)] (some sMod)) (some sFine) errModified
    (by decide) (by decide) (by decide)

/-- a command on the damaged tree -/
example : (verify { H := fun _ _ => "", D := fun _ _ => none, hit := fun _ _ => false, rootName := "root" } tree1 {})
    = refusal (.exit 31) := by
  have h : loadHistory tree1 = .error (.exit 31) := error_of_decide _ _ (by decide)
  exact (commands_refuse _ tree1 _ h {} {} {} [] [] []).2.2.2.1

end Examples

end MhlProps.C05
