/-
C03nested — property C03 END TO END for trees WITH NESTED HISTORIES: seal from the outer root, then verify / diff.

MhlProps/C03e2e.lean proves the pipeline `createFolder` → `applyWritten` → `verify` / `diff` for ONE flat history.  Here
the tree `t` is arbitrary: its loaded history `h` (`loadHistory t = .ok h`) may have children and grand-children that
already have generations (reels sealed on their own earlier); the ROOT folder has no `ascmhl` folder yet — the common
"seal the card folder that contains sealed reels" case.  `env` (digest function, decoder, matcher, names) is arbitrary.

Setting_n2 (`Setting_n2 env t o h`): `t.NamesDistinct`, `t.NamesOk`, `t` is a folder without `ascmhl` folder of its own;
`env.rootName`, `env.stamp` and the names of the folders that hold nested histories are free of line feeds (else the
new manifest's name does not parse, C06; `folder_names_needed` shows this cannot be dropped); `o` is a folder-mode
`create` without `-dr` and with at least one format; every visible file is consistent with the history that owns it
(C04nested's `AllConsistent`).

  out := createFolder env t o      t' := applyWritten t out.written  (`sealedTree_n2`)     h' := addWritten out.written h

  1. `nested_sealed_tree_loads`   `loadHistory t' = .ok h'`; h' has the shape of h (same roots, same children in the
                                  same order, `route` agrees: `owner_sealed`); a history that wrote has its old
                                  generations followed by exactly the new one, numbered latest + 1; one that did not
                                  is unchanged; the root history is generation 1.
     `sealed_ignore_stable_n2`       verify / diff on t' use the matcher of the sealing run and see the same paths.
  2. `nested_every_file_recorded` on t' every file the run saw is, in the history that owns it, looked up under its own
                                  name, has an ORIGINAL entry that is the reference entry of its format, and all
                                  reference digests are those of the content (`RecordedConsistent`).
  3. `nested_verify_after_seal`   verify and diff on t': `err = none`, exit code 0, the three lists empty.
  4. `nested_altered_detected`    content of a visible file p (any history, any depth) replaced, digest differing in
                                  the format of the entry `findOriginal` picks in p's OWNER history: verify ends with
                                  11, mismatch = [posix p] (path from the command root), new = [], missing = [].
     `altered_diff_blind`         diff on the altered tree: exit 0, nothing reported.
  5. `nested_removed_detected`    a visible file removed: diff and verify end with 10, missing = [posix p], rest empty.
     `nested_added_detected`      a file added to a visible folder, not ignored, new to its history: verify and diff
                                  end with 21, new = [posix q], rest empty.
     `altered_detected_any`, `added_detected_any`, `removed_detected_any`
                                  the same for ANY tree that loads as h' (several changes at once): each discrepancy
                                  is in its list and the exit code follows the precedence of the model — verify:
                                  11 over 21 over 10; diff: 10 over 21.
  6. `setting_big1`, `setting_c1` and the examples after them: all hypotheses hold on the two- and three-level trees
                                  of C04nested; 1.–5. through the theorems; `closed_single_changes`,
                                  `closed_precedence`, `closed_after_reseal`, `closed_three_levels` by evaluation.
  7. `old_shape_needed`, `folder_names_needed`: the extra hypotheses cannot be dropped.

ALL of 1.–5. hold for nesting of any depth, at full strength.  Hypotheses beyond the setting stated in the task:
  * `OldShaped` (2.–5.): in the OLDER generations of the nested histories a visible file either has no record at all,
    or is recorded under its own name with an original entry that is the reference entry of its format — the shape
    `create` leaves, and the invariant 2. re-establishes.  Without it (a) is FALSE of the model: `old_shape_needed`
    (a loadable nested history with a recorded rename; `AllConsistent` holds, the outer seal ends with 0, verify on
    the unchanged sealed tree ends with 11).
  * `ExpectedPresent` (3.–5.): everything the older nested generations recorded is still there or ignored (for the
    NEW generations this is proved: `sealed_expected_present`).
  * for 5b. `Unrecorded h q`: the added file is new to the history that owns it (no older generation of that history
    has a record for it; vacuous for the root history and for nested histories without generations) — otherwise the
    model judges it against the old record (mismatch or ok), not as new.
  * for 4. the digests differ in the format compared (`env.H` is arbitrary).
Helper lemmas: MhlProps/Proofs/NestedVerifyLemmas.lean.
-/
import MhlProps.Proofs.NestedVerifyLemmas

namespace MhlProps.C03nested
open MhlModel MhlProps.C02rec MhlProps.C04 MhlProps.C04nested MhlProps.C08part

/-! ### the setting -/

/-- the hypotheses on the tree, its loaded history, the environment and the options of the sealing `create` -/
structure Setting_n2 (env : Env) (t : Node) (o : CreateOpts) (h : Hist) : Prop where
  load : loadHistory t = .ok h
  distinct : t.NamesDistinct
  namesOk : t.NamesOk
  /-- the command root is a folder … -/
  isDir : t.isDir = true
  /-- … that has no `ascmhl` folder yet (the nested ones may have, with generations) -/
  rootFresh : t.hist = none
  rootName : '\n' ∉ env.rootName.toList
  stamp : '\n' ∉ env.stamp.toList
  /-- no folder holding a nested history has a line feed in its name (else the new manifest's name does not parse) -/
  folderNames : ∀ c ∈ allDescendants h, ∀ n, c.root.getLast? = some n → '\n' ∉ n.toList
  singleFiles : o.singleFiles = []
  noRename : o.detectRenaming = false
  formats : o.formats ≠ []
  /-- every visible file is consistent with the history that owns it (C04nested) -/
  consistent : AllConsistent env t h o

/-- the tree after the sealing run: the written generations put into the `ascmhl` folders -/
def sealedTree_n2 (env : Env) (t : Node) (o : CreateOpts) : Node := applyWritten t (createFolder env t o).written

/-- the history the sealed tree loads as -/
def sealedHist_n2 (env : Env) (t : Node) (o : CreateOpts) (h : Hist) : Hist :=
  addWritten (createFolder env t o).written h

/-- the pattern list of the sealing run -/
abbrev pats_n2 (o : CreateOpts) : List String := setPatterns none o.ignoreCli o.ignoreFile

/-- the matcher of the sealing run -/
abbrev hit0_n2 (env : Env) (o : CreateOpts) : RelPath → Bool := env.hit (pats_n2 o)

section
variable {env : Env} {t : Node} {o : CreateOpts} {h : Hist}

theorem root_gens_nil (hS : Setting_n2 env t o h) : h.gens = [] ∧ h.root = [] := by
  obtain ⟨kids, -, rfl⟩ := loadHistory_ok_eq t h hS.load
  rw [hS.rootFresh]
  exact ⟨rfl, rfl⟩

theorem cHit_eq_n2 (hS : Setting_n2 env t o h) : cHit env h o = hit0_n2 env o := by
  unfold cHit
  rw [(root_gens_nil hS).1]
  rfl

theorem cRen_eq (hS : Setting_n2 env t o h) : (cRen env t h o).1 = cSession env t h o := by
  unfold cRen
  simp only [hS.noRename, Bool.false_eq_true, if_false]
  rfl

/-- the generations of every history of a loaded tree are ascending -/
theorem gens_sorted (hS : Setting_n2 env t o h) : ∀ x ∈ h.all, (x.gens.map (·.number)).Pairwise (· ≤ ·) := by
  intro x hx
  rcases List.mem_cons.1 hx with rfl | hx
  · rw [(root_gens_nil hS).1]; exact List.Pairwise.nil
  · obtain ⟨d, s, -, -, hg, -⟩ := loadHistory_stores t h hS.load hS.distinct x hx
    rw [hg]
    exact MhlProps.C06.loadGens_sorted s

/-- everything the later theorems use about the sealing run -/
theorem run_facts (hS : Setting_n2 env t o h) :
    ∃ ws, commit h (cSession env t h o) env.rootName env.stamp "in-place" = .ok ws ∧
      (createFolder env t o).written = ws ∧ (ws.map (·.histRoot)).Nodup ∧
      (∀ w ∈ ws, WriteOk h w ∧ ∃ x ∈ h.all, x.root = w.histRoot ∧ w.number = latestGenerationNumber x.gens + 1) ∧
      (∃ w ∈ ws, w.histRoot = [] ∧ w.number = 1 ∧ w.gen.ignore = pats_n2 o) := by
  obtain ⟨ws, hcm, hwr, -, -⟩ := nested_commit_ok hS.load hS.consistent
  rw [cRen_eq hS] at hcm
  have hg := loadHistory_histOK t h hS.load hS.distinct
  have hnd := commit_roots_nodup hg _ _ _ _ _ hcm
  have hall : ∀ w ∈ ws, ∃ x ∈ walkPost h, ∃ refs,
      writeOne h (cSession env t h o) env.rootName env.stamp "in-place" none x refs = .ok w :=
    (commit_written _ _ _ _ _ _ hcm).2
  have hok : ∀ w ∈ ws, WriteOk h w ∧
      ∃ x ∈ h.all, x.root = w.histRoot ∧ w.number = latestGenerationNumber x.gens + 1 := by
    intro w hw
    obtain ⟨x, hx, refs, hwo⟩ := hall w hw
    have hxa : x ∈ h.all := (mem_walkPost _ _).1 hx
    obtain ⟨hnum, hroot, hname⟩ := MhlProps.C06.writeOne_number _ _ _ _ _ _ _ _ hwo
    obtain ⟨hstate, -, -⟩ := MhlProps.C06.writeOne_state _ _ _ _ _ _ _ _ _ hwo
    have hfolder : '\n' ∉ ((x.root.getLast?).getD env.rootName).toList := by
      rcases List.mem_cons.1 hxa with rfl | hxd
      · rw [(root_gens_nil hS).2]; exact hS.rootName
      · cases hl : x.root.getLast? with
        | none => exact hS.rootName
        | some n => exact hS.folderNames x hxd n hl
    refine ⟨⟨?_, hstate, x, hxa, hroot.symm, ?_⟩, x, hxa, hroot.symm, hnum⟩
    · rw [hname]
      exact MhlProps.C06.parseGenName_genFileName _ _ _ hfolder hS.stamp
    · intro g hg'
      have := (MhlProps.C06.latest_is_max_of_sorted x.gens (gens_sorted hS x hxa)).1 g hg'
      omega
  refine ⟨ws, hcm, hwr, hnd, hok, ?_⟩
  obtain ⟨w, hw, hwroot⟩ := nested_root_writes hS.load hS.consistent hS.isDir
  rw [hwr] at hw
  obtain ⟨x, hx, refs, hwo⟩ := hall w hw
  have hxa : x ∈ h.all := (mem_walkPost _ _).1 hx
  obtain ⟨hnum, hroot, -⟩ := MhlProps.C06.writeOne_number _ _ _ _ _ _ _ _ hwo
  have hxh : x = h := by
    apply mem_all_root_inj hg.nodup hxa h.self_mem_all
    rw [← hroot, hwroot, (root_gens_nil hS).2]
  rw [hxh] at hwo hnum
  refine ⟨w, hw, hwroot, ?_, ?_⟩
  · rw [hnum, (root_gens_nil hS).1]; rfl
  · rw [MhlProps.C12.written_ignore _ _ _ _ _ _ _ _ _ hwo, (root_gens_nil hS).1]
    have hp : (cSession env t h o).patterns = pats_n2 o := by
      have hfm := isort_ne_nil hS.formats
      obtain ⟨-, -, hs⟩ := fold_facts env t h hS.load hS.distinct hS.namesOk (isort strLe o.formats) hfm
        o.noDirHashes (setPatterns (latestIgnore h.gens) o.ignoreCli o.ignoreFile) (cHit env h o)
      rw [← cSession_eq] at hs
      rw [hs.core.pats, (root_gens_nil hS).1]
      rfl
    rw [hp]
    exact setPatterns_none_own o.ignoreCli o.ignoreFile

/-! ### 1. the sealed tree loads -/

/-- 1. `nested_sealed_tree_loads`: the tree with the written generations loads, as `addWritten written h`: the same
tree of histories (same roots, same children in the same order); a history that wrote has its old generations
followed by exactly the new one, numbered one above its latest; a history that did not write is unchanged; the root
history now consists of generation 1. -/
theorem nested_sealed_tree_loads (hS : Setting_n2 env t o h) :
    loadHistory (sealedTree_n2 env t o) = .ok (sealedHist_n2 env t o h) ∧
    (sealedHist_n2 env t o h).root = [] ∧
    (sealedHist_n2 env t o h).all.map (·.root) = h.all.map (·.root) ∧
    (sealedHist_n2 env t o h).all = h.all.map (addWritten (createFolder env t o).written) ∧
    (∀ x, (addWritten (createFolder env t o).written x).root = x.root ∧
      (addWritten (createFolder env t o).written x).children =
        x.children.map (addWritten (createFolder env t o).written)) ∧
    (∀ x ∈ h.all,
      (∃ w ∈ (createFolder env t o).written, w.histRoot = x.root ∧
        w.number = latestGenerationNumber x.gens + 1 ∧
        (addWritten (createFolder env t o).written x).gens = x.gens ++ [⟨w.number, w.gen⟩] ∧
        (addWritten (createFolder env t o).written x).chain = x.chain ++ [⟨w.number, w.gen.fileName⟩]) ∨
      ((∀ w ∈ (createFolder env t o).written, w.histRoot ≠ x.root) ∧
        (addWritten (createFolder env t o).written x).gens = x.gens ∧
        (addWritten (createFolder env t o).written x).chain = x.chain)) ∧
    (∃ w ∈ (createFolder env t o).written, w.histRoot = [] ∧ w.number = 1 ∧
      (sealedHist_n2 env t o h).gens = [⟨1, w.gen⟩]) := by
  obtain ⟨ws, -, hwr, hnd, hok, w0, hw0, hw0r, hw0n, -⟩ := run_facts hS
  unfold sealedTree_n2 sealedHist_n2
  rw [hwr]
  refine ⟨load_applyWritten ws t h hS.load hS.distinct hS.isDir hnd (fun w hw => (hok w hw).1), ?_, ?_,
    all_addWritten ws h, fun x => ⟨addWritten_root ws x, addWritten_children ws x⟩, ?_, ?_⟩
  · rw [addWritten_root]; exact (root_gens_nil hS).2
  · rw [all_addWritten, List.map_map]
    apply List.map_congr_left
    intro x _
    exact addWritten_root ws x
  · intro x hx
    by_cases hw : ∃ w ∈ ws, w.histRoot = x.root
    · obtain ⟨w, hwm, hwx⟩ := hw
      left
      obtain ⟨-, x', hx', hxr', hnum⟩ := hok w hwm
      have hg := loadHistory_histOK t h hS.load hS.distinct
      have : x' = x := mem_all_root_inj hg.nodup hx' hx (hxr'.trans hwx)
      subst this
      refine ⟨w, hwm, hwx, hnum, ?_, ?_⟩
      · rw [addWritten_gens, ← hwx, newGens_single ws hnd w hwm]
      · rw [addWritten_chain, ← hwx]
        unfold newChain_n2
        rw [filter_root_single ws hnd w hwm]
        rfl
    · right
      have hne : ∀ w ∈ ws, w.histRoot ≠ x.root := fun w hwm he => hw ⟨w, hwm, he⟩
      exact ⟨hne, by rw [addWritten_gens, newGens_of_ne ws _ hne, List.append_nil],
        by rw [addWritten_chain, newChain_of_ne ws _ hne, List.append_nil]⟩
  · refine ⟨w0, hw0, hw0r, hw0n, ?_⟩
    rw [addWritten_gens, (root_gens_nil hS).1, (root_gens_nil hS).2, ← hw0r, newGens_single ws hnd w0 hw0, hw0n]
    rfl

/-! ### 1'. what verify / diff see on the sealed tree -/

theorem sameFiles_sealed (env : Env) (t : Node) (o : CreateOpts) : SameFiles (sealedTree_n2 env t o) t :=
  sameFiles_applyWritten t _

/-- the sealed tree is as well-formed as the tree was -/
theorem sealedTree_names_n2 (hS : Setting_n2 env t o h) :
    (sealedTree_n2 env t o).NamesDistinct ∧ (sealedTree_n2 env t o).NamesOk ∧ (sealedTree_n2 env t o).isDir = true :=
  ⟨(sameFiles_sealed env t o).namesDistinct.2 hS.distinct, (sameFiles_sealed env t o).namesOk.2 hS.namesOk,
    by rw [(sameFiles_sealed env t o).isDir]; exact hS.isDir⟩

theorem sealedHist_gens_ne_n2 (hS : Setting_n2 env t o h) : (sealedHist_n2 env t o h).gens ≠ [] := by
  obtain ⟨-, -, -, -, -, -, w, -, -, -, hg⟩ := nested_sealed_tree_loads hS
  rw [hg]; simp

/-- the pattern list verify / diff (without options) build on the sealed tree is the list of the sealing run; so
they use the same matcher and see the same visible paths as `create` saw -/
theorem sealed_ignore_stable_n2 (hS : Setting_n2 env t o h) :
    setPatterns (latestIgnore (sealedHist_n2 env t o h).gens) [] [] = pats_n2 o ∧
    vHit env (sealedHist_n2 env t o h) {} = hit0_n2 env o ∧
    visiblePaths (vHit env (sealedHist_n2 env t o h) {}) (sealedTree_n2 env t o) = visiblePaths (hit0_n2 env o) t := by
  obtain ⟨ws, -, hwr, hnd, -, w0, hw0, hw0r, hw0n, hign⟩ := run_facts hS
  have hg : (sealedHist_n2 env t o h).gens = [⟨1, w0.gen⟩] := by
    unfold sealedHist_n2
    rw [hwr, addWritten_gens, (root_gens_nil hS).1, (root_gens_nil hS).2, ← hw0r, newGens_single ws hnd w0 hw0, hw0n]
    rfl
  have hlat : latestIgnore (sealedHist_n2 env t o h).gens = some (pats_n2 o) := by
    rw [hg]; simp [latestIgnore, hign]
  have hset : setPatterns (latestIgnore (sealedHist_n2 env t o h).gens) [] [] = pats_n2 o := by
    rw [hlat]
    exact setPatterns_some_own (pats_n2 o) [] [] (setPatterns_fresh_ne_nil _ _)
      (MhlProps.C12.setPatterns_nodup _ _ _) (by simp) (by simp)
  have hhit : vHit env (sealedHist_n2 env t o h) {} = hit0_n2 env o := by
    unfold vHit
    rw [show ({} : VerifyOpts).ignoreCli = [] from rfl, show ({} : VerifyOpts).ignoreFile = [] from rfl, hset]
  exact ⟨hset, hhit, by rw [hhit]; exact (sameFiles_sealed env t o).visiblePaths _⟩

/-! ### 2. every visible file is recorded -/

/-- the shape `create` leaves in the OLDER generations of the nested histories: in the history that owns it a visible
file either has no record at all (always so for the files of the root history and of nested histories without
generations), or it is recorded under its own name with an ORIGINAL entry that is the reference entry of its
format.  This is the invariant of `create`: it holds again on the sealed tree (`nested_every_file_recorded`); it
cannot be dropped (`old_shape_needed`). -/
def OldShaped (env : Env) (t : Node) (o : CreateOpts) (h : Hist) : Prop :=
  ∀ p, (p, false) ∈ visiblePaths (hit0_n2 env o) t →
    Unrecorded h p ∨ RecordedOriginal (owner_u h p).gens (ownerRel h p)

/-- the owner of a path and its relative name are the same before and after the run; the owner has its new
generation -/
theorem owner_sealed (env : Env) (t : Node) (o : CreateOpts) (h : Hist) (p : RelPath) :
    owner_u (sealedHist_n2 env t o h) p = addWritten (createFolder env t o).written (owner_u h p) ∧
    (owner_u (sealedHist_n2 env t o h) p).root = (owner_u h p).root ∧
    ownerRel (sealedHist_n2 env t o h) p = ownerRel h p := by
  unfold owner_u ownerRel sealedHist_n2
  rw [route_addWritten]
  exact ⟨rfl, addWritten_root _ _, rfl⟩

/-- the facts about the record of a visible file in the generation written for its owner -/
theorem written_record (hS : Setting_n2 env t o h) (p : RelPath) (hp : (p, false) ∈ visiblePaths (hit0_n2 env o) t) :
    ∃ w ∈ (createFolder env t o).written, ∃ r,
      w.histRoot = (owner_u h p).root ∧
      (owner_u (sealedHist_n2 env t o h) p).gens = (owner_u h p).gens ++ [⟨w.number, w.gen⟩] ∧
      (∀ x ∈ w.gen.records, x.prev = none) ∧
      w.gen.find (ownerRel h p) = some r ∧ r ∈ w.gen.records ∧ r.path = ownerRel h p ∧ r.isDir = false ∧
      r.entries.Perm ((sealEntries (owner_u h p).gens (ownerRel h p)
        (fun f => env.H f (fileContent t p)) (isort strLe o.formats)).1.map relabel) := by
  obtain ⟨ws, hcm, hwr, hnd, -, -⟩ := run_facts hS
  have hg := loadHistory_histOK t h hS.load hS.distinct
  rw [← cHit_eq_n2 hS] at hp
  obtain ⟨-, hpaths, hfiles⟩ := written_partition env t o h hS.load hS.distinct hS.namesOk hS.formats ws hcm
  obtain ⟨⟨w, hw, hwroot, r, hr, hpath, hdir, -, -, hents⟩, -⟩ := hfiles p hp
  have hprev : ∀ x ∈ w.gen.records, x.prev = none := by
    obtain ⟨x, -, hroot, hrecs, -⟩ := written_of env t o h ws hcm hw
    intro y hy
    rw [hrecs] at hy
    obtain ⟨y0, hy0, rfl⟩ := List.mem_map.1 hy
    rw [finalRec_prev]
    exact Session.noPrev_get (cSession_noPrev env t h o) _ y0 hy0
  have hrelne : (route h p).2 ≠ [] := by
    have hok := recItems_itemsOk hg (cHit env h o) hS.distinct hS.namesOk
    exact hok.files p ((mem_recItems _ t _).2 (Or.inl hp))
  have hnames : ∀ s ∈ (route h p).2, NameOk s := by
    intro s hs
    apply (visible_names_ok _ t hS.namesOk _ hp).2 s
    rw [← owner_append hg p]
    exact List.mem_append_right _ hs
  have hdot : r.path ≠ "." := by
    rw [hpath]
    exact fun h0 => hrelne ((posix_eq_dot hnames).1 h0)
  have hfind := find_of_record w.gen r (hpaths w hw) hprev hr hdot
  rw [hpath] at hfind
  refine ⟨w, hwr ▸ hw, r, hwroot, ?_, hprev, hfind, hr, hpath, hdir, hents⟩
  rw [(owner_sealed env t o h p).1, addWritten_gens, hwr]
  have : (owner_u h p).root = w.histRoot := hwroot.symm
  rw [this, newGens_single ws hnd w hw]

/-- 2. `nested_every_file_recorded`: on the sealed tree every file the sealing run saw is, in the history that owns
it (the same history as before the run, with its new generation), looked up under its own name, has an ORIGINAL entry
— from an older generation of a nested history, or from the new generation when the path had no record yet — which is
the reference entry of its format, and every reference digest is the digest of the (unchanged) content.  So the
invariant `OldShaped` ∧ `AllConsistent` holds again, with "recorded" in place of "unrecorded or recorded". -/
theorem nested_every_file_recorded (hS : Setting_n2 env t o h) (hshape : OldShaped env t o h) (p : RelPath)
    (hp : (p, false) ∈ visiblePaths (hit0_n2 env o) t) :
    RecordedConsistent env (sealedTree_n2 env t o) (sealedHist_n2 env t o h) p ∧
    recordedName (owner_u (sealedHist_n2 env t o h) p).gens (ownerRel (sealedHist_n2 env t o h) p) =
      ownerRel (sealedHist_n2 env t o h) p ∧
    ∃ e, findOriginal (owner_u (sealedHist_n2 env t o h) p).gens (ownerRel (sealedHist_n2 env t o h) p) = some e ∧
      e.action = "original" ∧ e.digest = env.H e.fmt (fileContent t p) := by
  obtain ⟨w, hw, r, hwroot, hgens, hprev, hfind, hr, hpath, hdir, hents⟩ := written_record hS p hp
  have hrel := (owner_sealed env t o h p).2.2
  have hcont := (sameFiles_sealed env t o).fileContent p
  have hcons : OwnerFirstOk env t h p :=
    (consistent_iff env t h p).1 (hS.consistent p (by rw [cHit_eq_n2 hS]; exact hp))
  -- the entries of the new record carry the digests of the content
  have hdig : ∀ e ∈ r.entries, e.digest = env.H e.fmt (fileContent t p) := by
    intro e he
    obtain ⟨e0, he0, rfl⟩ := List.mem_map.1 (hents.mem_iff.1 he)
    rw [relabel_digest, relabel_fmt]
    exact sealEntries_digest _ _ _ _ e0 he0
  have hfirst : OwnerFirstOk env (sealedTree_n2 env t o) (sealedHist_n2 env t o h) p := by
    unfold OwnerFirstOk
    rw [hrel, hgens, hcont]
    apply firstOk_append_gen _ _ _ _ hcons
    intro r' hr'
    rw [hfind] at hr'
    cases hr'
    exact hdig
  have hrec : RecordedOriginal (owner_u (sealedHist_n2 env t o h) p).gens (ownerRel (sealedHist_n2 env t o h) p) := by
    rw [hrel, hgens]
    rcases hshape p hp with hun | hold
    · have hnone := findOriginal_none_of_unrecorded _ _ hun
      refine recordedOriginal_new _ _ _ r hprev hun hfind ?_ ?_
      · intro h0
        have := hents.length_eq
        rw [h0, List.length_map] at this
        exact sealEntries_ne_nil _ _ _ _ (isort_ne_nil hS.formats) (List.length_eq_zero_iff.1 this.symm)
      · intro e he
        obtain ⟨e0, he0, rfl⟩ := List.mem_map.1 (hents.mem_iff.1 he)
        have h0 := sealEntries_original _ _ _ _ hnone e0 he0
        rw [relabel_original e0 h0]
        exact h0
    · exact recordedOriginal_append _ _ _ hprev hold
  refine ⟨⟨hrec, hfirst⟩, hrec.1, ?_⟩
  obtain ⟨-, e, ho, hf⟩ := hrec
  refine ⟨e, ho, ?_, ?_⟩
  · unfold findOriginal at ho
    obtain ⟨g, -, hg⟩ := List.exists_of_findSome?_eq_some ho
    cases hgf : g.gen.find (ownerRel (sealedHist_n2 env t o h) p) with
    | none => rw [hgf] at hg; cases hg
    | some r' =>
      rw [hgf] at hg
      simpa using List.find?_some hg
  · have := hfirst e.fmt e hf
    rw [hcont] at this
    exact this

/-! ### 3. verify and diff on the unchanged sealed tree -/

/-- everything the histories expect after the run is on disk or ignored: what the older generations of the nested
histories expected is (hypothesis `ExpectedPresent`: "everything the older nested generations recorded is still
there"), and what the new generations record is a visible path -/
theorem sealed_expected_present (hS : Setting_n2 env t o h) (hexp : ExpectedPresent env t h o) :
    ∀ p ∈ expectedPaths (sealedHist_n2 env t o h),
      (∃ d, (p, d) ∈ visiblePaths (hit0_n2 env o) t) ∨ hitAbove (hit0_n2 env o) p = true := by
  obtain ⟨ws, hcm, hwr, hnd, -, -⟩ := run_facts hS
  intro p hp
  unfold sealedHist_n2 at hp
  rw [hwr] at hp
  rcases mem_expectedPaths_addWritten ws hnd h p hp with hold | ⟨w, hw, r, hr, rfl⟩
  · have := hexp p hold
    rwa [cHit_eq_n2 hS] at this
  · obtain ⟨x, hx, hden, -, -⟩ := written_sound env t o h hS.load hS.distinct hS.namesOk hS.formats ws hcm w hw r hr
    left
    rw [cHit_eq_n2 hS] at hx
    exact ⟨x.2, by rw [hden]; exact hx⟩

/-- 3. `nested_verify_after_seal`: on the tree unchanged since it was sealed from the outer root, `verify` and `diff`
end with exit code 0 and report no mismatch, no new file, no missing file.  Hypotheses beyond the setting: the older
generations of the nested histories have the shape `create` leaves (`OldShaped`; without it the statement is false:
`old_shape_needed`), and everything they recorded is still there or ignored (`ExpectedPresent`). -/
theorem nested_verify_after_seal (hS : Setting_n2 env t o h) (hshape : OldShaped env t o h)
    (hexp : ExpectedPresent env t h o) :
    ((verify env (sealedTree_n2 env t o) {}).err = none ∧ (verify env (sealedTree_n2 env t o) {}).exitCode = 0 ∧
      (verify env (sealedTree_n2 env t o) {}).report.mismatch = [] ∧
      (verify env (sealedTree_n2 env t o) {}).report.new = [] ∧
      (verify env (sealedTree_n2 env t o) {}).report.missing = []) ∧
    ((diff env (sealedTree_n2 env t o) {}).err = none ∧ (diff env (sealedTree_n2 env t o) {}).exitCode = 0 ∧
      (diff env (sealedTree_n2 env t o) {}).report.mismatch = [] ∧
      (diff env (sealedTree_n2 env t o) {}).report.new = [] ∧
      (diff env (sealedTree_n2 env t o) {}).report.missing = []) := by
  obtain ⟨hl, -⟩ := nested_sealed_tree_loads hS
  obtain ⟨-, hhit, hvis⟩ := sealed_ignore_stable_n2 hS
  apply nested_verify_ok_partial hl (sealedHist_gens_ne_n2 hS) rfl
  · intro p hp
    rw [hvis] at hp
    exact (nested_every_file_recorded hS hshape p hp).1
  · intro p hp
    rw [hvis, hhit]
    exact sealed_expected_present hS hexp p hp

/-! ### 4. an altered file is detected, whichever history owns it -/

/-- how verify / diff judge a file the sealing run saw, on ANY tree that loads as the sealed history: against the
original entry of its owner history, which carries the digest of the content at seal time -/
theorem judge_on_sealed (hS : Setting_n2 env t o h) (hshape : OldShaped env t o h) (T : Node) (hashing : Bool)
    (q : RelPath) (hq : (q, false) ∈ visiblePaths (hit0_n2 env o) t) :
    ∃ e, findOriginal (owner_u (sealedHist_n2 env t o h) q).gens (ownerRel (sealedHist_n2 env t o h) q) = some e ∧
      e.digest = env.H e.fmt (fileContent t q) ∧
      judgeFile env T (sealedHist_n2 env t o h) hashing q =
        if hashing && env.H e.fmt (fileContent T q) != e.digest then .mismatch else .ok := by
  obtain ⟨-, hname, e, ho, -, hd⟩ := nested_every_file_recorded hS hshape q hq
  refine ⟨e, ho, hd, ?_⟩
  unfold judgeFile
  unfold owner_u ownerRel at hname ho
  generalize route (sealedHist_n2 env t o h) q = x at hname ho
  obtain ⟨hh, hrel⟩ := x
  dsimp only at hname ho ⊢
  rw [hname, ho]

/-- a tree that has the files of the sealed tree, possibly with other contents, and loads as the sealed history:
nothing is new, nothing is missing, and the mismatches are the files whose digest in the format of their original
entry changed -/
theorem verdicts_same_files (hS : Setting_n2 env t o h) (hshape : OldShaped env t o h)
    (hexp : ExpectedPresent env t h o) (T : Node)
    (hvis : ∀ hit, visiblePaths hit T = visiblePaths hit t) (hashing : Bool) :
    vNews env T (sealedHist_n2 env t o h) {} hashing = [] ∧ vMissing env T (sealedHist_n2 env t o h) {} = [] ∧
    ∀ q, q ∈ vConsidered env T (sealedHist_n2 env t o h) {} ↔ (q, false) ∈ visiblePaths (hit0_n2 env o) t := by
  obtain ⟨-, hhit, -⟩ := sealed_ignore_stable_n2 hS
  have hvis' : visiblePaths (vHit env (sealedHist_n2 env t o h) {}) T = visiblePaths (hit0_n2 env o) t := by
    rw [hhit, hvis]
  have hcons : ∀ q, q ∈ vConsidered env T (sealedHist_n2 env t o h) {} ↔
      (q, false) ∈ visiblePaths (hit0_n2 env o) t := by
    intro q
    rw [mem_vConsidered, hvis']
    simp
  refine ⟨?_, ?_, hcons⟩
  · apply List.eq_nil_iff_forall_not_mem.2
    intro q hq
    obtain ⟨hq1, hq2⟩ := (mem_vNews _ _ _ _ _ _).1 hq
    obtain ⟨e, -, -, hj⟩ := judge_on_sealed hS hshape T hashing q ((hcons q).1 hq1)
    rw [hj] at hq2
    split at hq2 <;> cases hq2
  · apply List.eq_nil_iff_forall_not_mem.2
    intro q hq
    obtain ⟨he, hnv, hh⟩ := (MhlProps.C03.missing_iff env _ {} (sealedHist_n2 env t o h) q).1 hq
    rcases sealed_expected_present hS hexp q he with ⟨d, hd⟩ | hi
    · exact hnv d (by rw [hvis']; exact hd)
    · rw [hhit, hi] at hh; cases hh

/-- the sealed tree with the content of the file at `p` replaced by `c'` -/
def alteredTree_n2 (env : Env) (t : Node) (o : CreateOpts) (p : RelPath) (c' : Bytes) : Node :=
  Node.updateAt (setContent c') (sealedTree_n2 env t o) p

/-- what changes and what does not when the content of a visible file of the sealed tree is replaced -/
theorem alteredTree_facts_n2 (hS : Setting_n2 env t o h) (p : RelPath)
    (hp : (p, false) ∈ visiblePaths (hit0_n2 env o) t) (c' : Bytes) :
    loadHistory (alteredTree_n2 env t o p c') = .ok (sealedHist_n2 env t o h) ∧
    (∀ hit, visiblePaths hit (alteredTree_n2 env t o p c') = visiblePaths hit t) ∧
    fileContent (alteredTree_n2 env t o p c') p = c' ∧
    ∀ q, (q, false) ∈ visiblePaths (hit0_n2 env o) t → q ≠ p →
      fileContent (alteredTree_n2 env t o p c') q = fileContent t q := by
  obtain ⟨hd', -, -⟩ := sealedTree_names_n2 hS
  obtain ⟨hl, -⟩ := nested_sealed_tree_loads hS
  have hsf := sameFiles_sealed env t o
  have hfile : ∀ r, (r, false) ∈ visiblePaths (hit0_n2 env o) t →
      ∃ nm c, (sealedTree_n2 env t o).at? r = some (.file nm c) := by
    intro r hr
    rw [← hsf.visiblePaths] at hr
    obtain ⟨c0, hat, hfile⟩ := MhlProps.C02.visible_on_disk _ _ hd' r false hr
    cases c0 with
    | dir _ _ _ => cases hfile
    | file nm c => exact ⟨nm, c, hat⟩
  obtain ⟨nm, c, hat⟩ := hfile p hp
  refine ⟨?_, ?_, (fileContent_updateAt_setContent c' _ _ nm c hat).2, ?_⟩
  · unfold alteredTree_n2
    rw [loadHistory_setContent c' p _ hd']
    exact hl
  · intro hit
    unfold alteredTree_n2 MhlModel.visiblePaths
    rw [(updateAt_setContent c' hit p (sealedTree_n2 env t o)).2.2 [], hsf.traverse]
  · intro q hq hne
    obtain ⟨nm', c'', hat'⟩ := hfile q hq
    have := updateAt_at?_other_file (setContent c') (setContent_name c') _ p q nm c nm' c'' hat hat' hne
    rw [← hsf.fileContent q]
    unfold alteredTree_n2 fileContent
    rw [this, hat']

/-- 4. `nested_altered_detected`: replace the content of a visible file `p` of the sealed tree by `c'` — `p` may
belong to the root history or to a nested one at any depth.  If the digest of `c'` differs from that of the sealed
content in the format of the entry `findOriginal` picks in the history that OWNS `p`, then `verify` from the outer
root ends with `VerificationFailedException` (exit code 11) and reports exactly `p`, with its path from the command
root: mismatch `[posix p]`, nothing new, nothing missing. -/
theorem nested_altered_detected (hS : Setting_n2 env t o h) (hshape : OldShaped env t o h)
    (hexp : ExpectedPresent env t h o) (p : RelPath) (hp : (p, false) ∈ visiblePaths (hit0_n2 env o) t)
    (c' : Bytes) (e : Entry)
    (he : findOriginal (owner_u (sealedHist_n2 env t o h) p).gens (ownerRel (sealedHist_n2 env t o h) p) = some e)
    (hdig : env.H e.fmt c' ≠ env.H e.fmt (fileContent t p)) :
    (verify env (alteredTree_n2 env t o p c') {}).err = some errVerifyFailed ∧
    (verify env (alteredTree_n2 env t o p c') {}).exitCode = 11 ∧
    posix p ∈ (verify env (alteredTree_n2 env t o p c') {}).report.mismatch ∧
    (verify env (alteredTree_n2 env t o p c') {}).report.mismatch = [posix p] ∧
    (verify env (alteredTree_n2 env t o p c') {}).report.new = [] ∧
    (verify env (alteredTree_n2 env t o p c') {}).report.missing = [] := by
  obtain ⟨hl, hvis, hcont, hother⟩ := alteredTree_facts_n2 hS p hp c'
  obtain ⟨hnews, hmiss, hcons⟩ := verdicts_same_files hS hshape hexp _ hvis true
  have hg := sealedHist_gens_ne_n2 hS
  have hjudge : ∀ q, (q, false) ∈ visiblePaths (hit0_n2 env o) t →
      judgeFile env (alteredTree_n2 env t o p c') (sealedHist_n2 env t o h) true q =
        if q = p then .mismatch else .ok := by
    intro q hq
    obtain ⟨e', he', hd', hj⟩ := judge_on_sealed hS hshape (alteredTree_n2 env t o p c') true q hq
    rw [hj]
    by_cases hqp : q = p
    · subst hqp
      rw [he] at he'
      cases he'
      rw [hcont, hd']
      simp [hdig]
    · rw [hother q hq hqp, hd']
      simp [hqp]
  have hmism : vMism env (alteredTree_n2 env t o p c') (sealedHist_n2 env t o h) {} true = [p] := by
    unfold vMism
    apply filter_eq_singleton
    · unfold vConsidered vFiles
      obtain ⟨-, hhit, -⟩ := sealed_ignore_stable_n2 hS
      rw [hhit, hvis]
      exact List.Nodup.sublist List.filter_sublist (visibleFiles_nodup _ _ hS.distinct hS.namesOk)
    · exact (hcons p).2 hp
    · intro q hq
      rw [hjudge q ((hcons q).1 hq)]
      by_cases hqp : q = p <;> simp [hqp]
  obtain ⟨r1, r2, r3, -, -⟩ := MhlProps.C03.report_shape env (alteredTree_n2 env t o p c') {} true
    (sealedHist_n2 env t o h) hl hg
  have hv : (p, false) ∈ visiblePaths (vHit env (sealedHist_n2 env t o h) {}) (alteredTree_n2 env t o p c') := by
    obtain ⟨-, hhit, -⟩ := sealed_ignore_stable_n2 hS
    rw [hhit, hvis]; exact hp
  obtain ⟨-, h2, h3, h4⟩ := MhlProps.C03.mismatch_complete env (alteredTree_n2 env t o p c') {} true
    (sealedHist_n2 env t o h) hl hg p hv (Or.inl rfl) (by rw [hjudge p hp]; simp)
  rw [MhlProps.C03.verify_def]
  refine ⟨h3, h4, h2, ?_, ?_, ?_⟩
  · rw [r1, hmism]; rfl
  · rw [r2, hnews]; rfl
  · rw [r3, hmiss]; rfl

/-! ### 5a. a removed file is detected -/

/-- the sealed tree with the file named `na` removed from the folder `pa` -/
def removedTree (env : Env) (t : Node) (o : CreateOpts) (pa : RelPath) (na : String) : Node :=
  Node.updateAt (removeChild na) (sealedTree_n2 env t o) pa

/-- what changes and what does not when a visible file of the sealed tree is removed -/
theorem removedTree_facts (hS : Setting_n2 env t o h) (pa : RelPath) (na : String)
    (hp : (pa ++ [na], false) ∈ visiblePaths (hit0_n2 env o) t) :
    loadHistory (removedTree env t o pa na) = .ok (sealedHist_n2 env t o h) ∧
    (∀ hit q d, (q, d) ∈ visiblePaths hit (removedTree env t o pa na) ↔
      (q, d) ∈ visiblePaths hit t ∧ q ≠ pa ++ [na]) ∧
    ∀ q, (q, false) ∈ visiblePaths (hit0_n2 env o) t → q ≠ pa ++ [na] →
      fileContent (removedTree env t o pa na) q = fileContent t q := by
  obtain ⟨hd', -, -⟩ := sealedTree_names_n2 hS
  obtain ⟨hl, -⟩ := nested_sealed_tree_loads hS
  have hsf := sameFiles_sealed env t o
  have hfile : ∀ r, (r, false) ∈ visiblePaths (hit0_n2 env o) t →
      ∃ nm c, (sealedTree_n2 env t o).at? r = some (.file nm c) := by
    intro r hr
    rw [← hsf.visiblePaths] at hr
    obtain ⟨c0, hat, hfile⟩ := MhlProps.C02.visible_on_disk _ _ hd' r false hr
    cases c0 with
    | dir _ _ _ => cases hfile
    | file nm c => exact ⟨nm, c, hat⟩
  obtain ⟨nm, c, hat⟩ := hfile _ hp
  have hdR : (removedTree env t o pa na).NamesDistinct := (removeAt_props na pa _).1 hd'
  refine ⟨?_, ?_, ?_⟩
  · unfold removedTree
    rw [loadHistory_updateAt_at _ (removeChild_name na) (removeChild_hist na) pa _ hd']
    · exact hl
    · intro d hdat here
      apply findChildren_removeChild na d (Node.NamesDistinct.at? _ pa d hd' hdat) nm c _ here
      have := Node.at?_append (sealedTree_n2 env t o) pa [na]
      rw [hat, hdat] at this
      exact this.symm
  · intro hit q d
    rw [MhlProps.C02.visible_iff_at hit _ hdR q d, ← hsf.visiblePaths, MhlProps.C02.visible_iff_at hit _ hd' q d]
    have := removeAt_has (sealedTree_n2 env t o) pa na nm c hat q d
    unfold Has removedTree at *
    rw [this]
    constructor
    · rintro ⟨⟨hne, hh, hq⟩, hfree⟩
      exact ⟨⟨⟨hne, hh⟩, hfree⟩, hq⟩
    · rintro ⟨⟨⟨hne, hh⟩, hfree⟩, hq⟩
      exact ⟨⟨hne, hh, hq⟩, hfree⟩
  · intro q hq hne
    obtain ⟨nm', c'', hat'⟩ := hfile q hq
    have := removeAt_file (sealedTree_n2 env t o) pa na nm c hat q nm' c'' hat' hne
    rw [← hsf.fileContent q]
    unfold removedTree fileContent
    rw [this, hat']

/-- the path of a file the sealing run saw is expected afterwards -/
theorem sealed_file_expected (hS : Setting_n2 env t o h) (p : RelPath) (hp : (p, false) ∈ visiblePaths (hit0_n2 env o) t) :
    p ∈ expectedPaths (sealedHist_n2 env t o h) := by
  obtain ⟨w, hw, r, hwroot, -, -, -, hr, hpath, -, -⟩ := written_record hS p hp
  obtain ⟨ws, -, hwr, hnd, -, -⟩ := run_facts hS
  have hg := loadHistory_histOK t h hS.load hS.distinct
  rw [hwr] at hw
  have := expected_of_written ws hnd h w hw (owner_u h p) (route_mem hg p) hwroot.symm r hr
  unfold sealedHist_n2
  rw [hwr]
  have hnames : ∀ s ∈ (route h p).2, NameOk s := by
    intro s hs
    apply (visible_names_ok _ t hS.namesOk _ hp).2 s
    rw [← owner_append hg p]
    exact List.mem_append_right _ hs
  have hsplit : w.histRoot ++ splitPath r.path = p := by
    rw [hpath]
    unfold ownerRel
    rw [splitPath_posix hnames, hwroot]
    exact owner_append hg p
  rwa [hsplit] at this

/-- 5a. `nested_removed_detected`: remove a visible file `p = pa ++ [na]` of the sealed tree (the node is taken out of
its folder; `p` may belong to a nested history at any depth).  Then `diff` and `verify` from the outer root end with
`CompletenessCheckFailedException` (exit code 10) and report exactly `p`, with its path from the command root, as
missing; nothing is new, nothing mismatches. -/
theorem nested_removed_detected (hS : Setting_n2 env t o h) (hshape : OldShaped env t o h)
    (hexp : ExpectedPresent env t h o) (pa : RelPath) (na : String)
    (hp : (pa ++ [na], false) ∈ visiblePaths (hit0_n2 env o) t) :
    ((diff env (removedTree env t o pa na) {}).err = some errMissingFiles ∧
      (diff env (removedTree env t o pa na) {}).exitCode = 10 ∧
      (diff env (removedTree env t o pa na) {}).report.missing = [posix (pa ++ [na])] ∧
      (diff env (removedTree env t o pa na) {}).report.new = [] ∧
      (diff env (removedTree env t o pa na) {}).report.mismatch = []) ∧
    ((verify env (removedTree env t o pa na) {}).err = some errMissingFiles ∧
      (verify env (removedTree env t o pa na) {}).exitCode = 10 ∧
      (verify env (removedTree env t o pa na) {}).report.missing = [posix (pa ++ [na])] ∧
      (verify env (removedTree env t o pa na) {}).report.new = [] ∧
      (verify env (removedTree env t o pa na) {}).report.mismatch = []) := by
  obtain ⟨hl, hvis, hcont⟩ := removedTree_facts hS pa na hp
  obtain ⟨-, hhit, -⟩ := sealed_ignore_stable_n2 hS
  have hg := sealedHist_gens_ne_n2 hS
  -- every file that is still there is judged ok
  have hjudge : ∀ hashing q, q ∈ vConsidered env (removedTree env t o pa na) (sealedHist_n2 env t o h) {} →
      judgeFile env (removedTree env t o pa na) (sealedHist_n2 env t o h) hashing q = .ok := by
    intro hashing q hq
    rw [mem_vConsidered, hhit, hvis] at hq
    obtain ⟨⟨hq1, hq2⟩, -⟩ := hq
    obtain ⟨e, -, hd, hj⟩ := judge_on_sealed hS hshape (removedTree env t o pa na) hashing q hq1
    rw [hj, hcont q hq1 hq2, hd]
    simp
  have hmism : ∀ hashing, vMism env (removedTree env t o pa na) (sealedHist_n2 env t o h) {} hashing = [] := by
    intro hashing
    apply List.eq_nil_iff_forall_not_mem.2
    intro q hq
    obtain ⟨hq1, hq2⟩ := (mem_vMism _ _ _ _ _ _).1 hq
    rw [hjudge hashing q hq1] at hq2
    cases hq2
  have hnews : ∀ hashing, vNews env (removedTree env t o pa na) (sealedHist_n2 env t o h) {} hashing = [] := by
    intro hashing
    apply List.eq_nil_iff_forall_not_mem.2
    intro q hq
    obtain ⟨hq1, hq2⟩ := (mem_vNews _ _ _ _ _ _).1 hq
    rw [hjudge hashing q hq1] at hq2
    cases hq2
  have hmiss : vMissing env (removedTree env t o pa na) (sealedHist_n2 env t o h) {} = [pa ++ [na]] := by
    unfold vMissing
    apply missing_single_or _ _ _ _ (expectedPaths_nodup _) (sealed_file_expected hS _ hp)
    · rw [mem_vFound]
      rintro ⟨d, hd⟩
      rw [hhit, hvis] at hd
      exact hd.2 rfl
    · rw [hhit]
      exact MhlProps.C03.hitAbove_false_of_visible _ t _ false hp
    · intro q hq hne
      rcases sealed_expected_present hS hexp q hq with ⟨d, hd⟩ | hi
      · left
        rw [mem_vFound]
        exact ⟨d, by rw [hhit, hvis]; exact ⟨hd, hne⟩⟩
      · right
        rw [hhit]; exact hi
  have hrun : ∀ hashing,
      (verifyOrDiff env (removedTree env t o pa na) {} hashing none).err = some errMissingFiles ∧
      (verifyOrDiff env (removedTree env t o pa na) {} hashing none).exitCode = 10 ∧
      (verifyOrDiff env (removedTree env t o pa na) {} hashing none).report.missing = [posix (pa ++ [na])] ∧
      (verifyOrDiff env (removedTree env t o pa na) {} hashing none).report.new = [] ∧
      (verifyOrDiff env (removedTree env t o pa na) {} hashing none).report.mismatch = [] := by
    intro hashing
    obtain ⟨r1, r2, r3, -, -⟩ := MhlProps.C03.report_shape env (removedTree env t o pa na) {} hashing
      (sealedHist_n2 env t o h) hl hg
    have herr : (verifyOrDiff env (removedTree env t o pa na) {} hashing none).err = some errMissingFiles := by
      rw [MhlProps.C03.run_err env _ {} hashing (sealedHist_n2 env t o h) hl hg, hmism, hnews, hmiss]
      cases hashing <;> rfl
    refine ⟨herr, ?_, ?_, ?_, ?_⟩
    · exact MhlProps.C03.exitCode_of_err _ 10 (by rw [herr, errMissingFiles_eq])
    · rw [r3, hmiss]; rfl
    · rw [r2, hnews]; rfl
    · rw [r1, hmism]; rfl
  exact ⟨hrun false, hrun true⟩

/-! ### 5b. an added file is detected -/

/-- the sealed tree with a new file `nb` (content `c`) added to the folder `pb` -/
def addedTree (env : Env) (t : Node) (o : CreateOpts) (pb : RelPath) (nb : String) (c : Bytes) : Node :=
  Node.updateAt (addChild (.file nb c)) (sealedTree_n2 env t o) pb

/-- what changes and what does not when a file is added to a visible folder of the sealed tree -/
theorem addedTree_facts (hS : Setting_n2 env t o h) (pb : RelPath) (nb : String) (c : Bytes)
    (hpb : pb = [] ∨ (pb, true) ∈ visiblePaths (hit0_n2 env o) t) (hnb : NameOk nb)
    (hfresh : t.at? (pb ++ [nb]) = none) :
    loadHistory (addedTree env t o pb nb c) = .ok (sealedHist_n2 env t o h) ∧
    (∀ hit q d, (q, d) ∈ visiblePaths hit (addedTree env t o pb nb c) ↔
      (q, d) ∈ visiblePaths hit t ∨
        (q = pb ++ [nb] ∧ d = false ∧ ∀ k, 0 < k → k ≤ (pb ++ [nb]).length → hit ((pb ++ [nb]).take k) = false)) ∧
    ∀ q, (q, false) ∈ visiblePaths (hit0_n2 env o) t →
      fileContent (addedTree env t o pb nb c) q = fileContent t q := by
  obtain ⟨hd', -, hdir'⟩ := sealedTree_names_n2 hS
  obtain ⟨hl, -⟩ := nested_sealed_tree_loads hS
  have hsf := sameFiles_sealed env t o
  have hfresh' : (sealedTree_n2 env t o).at? (pb ++ [nb]) = none := (hsf.at?_none _).2 hfresh
  have hHas : Has (sealedTree_n2 env t o) pb true := by
    rcases hpb with rfl | hv
    · exact ⟨_, Node.at?_nil _, hdir'⟩
    · rw [← hsf.visiblePaths] at hv
      exact MhlProps.C02.visible_on_disk _ _ hd' _ true hv
  obtain ⟨hdA, -, -⟩ := addAt_props nb c hnb pb _ hd' hfresh'
  refine ⟨?_, ?_, ?_⟩
  · unfold addedTree
    rw [loadHistory_updateAt_at _ (addChild_name _) (addChild_hist _) pb _ hd']
    · exact hl
    · intro d hdat here
      apply findChildren_addChild nb c d (Node.NamesDistinct.at? _ pb d hd' hdat) _ here
      have := Node.at?_append (sealedTree_n2 env t o) pb [nb]
      rw [hfresh', hdat] at this
      exact this.symm
  · intro hit q d
    have hdA' : (addedTree env t o pb nb c).NamesDistinct := hdA
    rw [MhlProps.C02.visible_iff_at hit _ hdA' q d, ← hsf.visiblePaths, MhlProps.C02.visible_iff_at hit _ hd' q d]
    have := addAt_has (sealedTree_n2 env t o) pb nb c hHas hfresh' q d
    unfold Has addedTree at *
    rw [this]
    constructor
    · rintro ⟨⟨hne, hh | ⟨rfl, rfl⟩⟩, hfree⟩
      · exact Or.inl ⟨⟨hne, hh⟩, hfree⟩
      · exact Or.inr ⟨rfl, rfl, hfree⟩
    · rintro (⟨⟨hne, hh⟩, hfree⟩ | ⟨rfl, rfl, hfree⟩)
      · exact ⟨⟨hne, Or.inl hh⟩, hfree⟩
      · exact ⟨⟨by simp, Or.inr ⟨rfl, rfl⟩⟩, hfree⟩
  · intro q hq
    rw [← hsf.visiblePaths] at hq
    obtain ⟨c0, hat, hfile⟩ := MhlProps.C02.visible_on_disk _ _ hd' q false hq
    cases c0 with
    | dir _ _ _ => cases hfile
    | file nm c' =>
      have := addAt_file (sealedTree_n2 env t o) pb nb c hHas hfresh' q nm c' hat
      rw [← hsf.fileContent q]
      unfold addedTree fileContent
      rw [this, hat]

/-- a path that is not on disk at seal time, and for which the older generations of the history that owns it have no
record, has no record at all after the run: the new generations only record what the run saw -/
theorem added_unrecorded (hS : Setting_n2 env t o h) (q : RelPath) (hne : q ≠ []) (hnames : ∀ s ∈ q, NameOk s)
    (hfresh : t.at? q = none) (hnew : Unrecorded h q) : Unrecorded (sealedHist_n2 env t o h) q := by
  obtain ⟨ws, hcm, hwr, hnd, -, -⟩ := run_facts hS
  have hg := loadHistory_histOK t h hS.load hS.distinct
  obtain ⟨hown, -, hrel⟩ := owner_sealed env t o h q
  unfold Unrecorded
  rw [hrel, hown, addWritten_gens, hwr]
  intro g hgm
  rcases List.mem_append.1 hgm with hgo | hgn
  · exact hnew g hgo
  · unfold newGens at hgn
    obtain ⟨w, hwf, rfl⟩ := List.mem_map.1 hgn
    obtain ⟨hw, hwroot⟩ := List.mem_filter.1 hwf
    have hwroot : w.histRoot = (owner_u h q).root := by simpa using hwroot
    have happ : (owner_u h q).root ++ (route h q).2 = q := owner_append hg q
    have hrelnames : ∀ s ∈ (route h q).2, NameOk s := by
      intro s hs
      apply hnames s
      rw [← happ]
      exact List.mem_append_right _ hs
    have hrelne : (route h q).2 ≠ [] := by
      intro h0
      rcases (relOf_nil hg h0).2 with h1 | ⟨c, hc, hcr⟩
      · exact hne h1
      · obtain ⟨-, n, hn, -⟩ := hg.isDir c hc
        rw [hcr, hfresh] at hn
        cases hn
    have hdot : ownerRel h q ≠ "." := fun h0 => hrelne ((posix_eq_dot hrelnames).1 h0)
    have hprev : ∀ x ∈ w.gen.records, x.prev = none := by
      obtain ⟨x, -, hroot, hrecs, -⟩ := written_of env t o h ws hcm hw
      intro y hy
      rw [hrecs] at hy
      obtain ⟨y0, hy0, rfl⟩ := List.mem_map.1 hy
      rw [finalRec_prev]
      exact Session.noPrev_get (cSession_noPrev env t h o) _ y0 hy0
    show w.gen.find (ownerRel h q) = none
    unfold Generation.find
    rw [List.find?_eq_none]
    intro x hx
    rw [List.mem_reverse, List.mem_append] at hx
    rcases hx with hx | hx
    · cases hrh : w.gen.rootHash with
      | none => simp [hrh] at hx
      | some es =>
        simp only [hrh, List.mem_singleton] at hx
        subst hx
        simp only [Bool.or_eq_true, beq_iff_eq, reduceCtorEq, or_false]
        exact fun h0 => hdot h0.symm
    · simp only [hprev x hx, Bool.or_eq_true, beq_iff_eq, reduceCtorEq, or_false]
      intro hpath
      obtain ⟨y, hy, hden, -, -⟩ := written_sound env t o h hS.load hS.distinct hS.namesOk hS.formats ws hcm w hw x hx
      have : y.1 = q := by
        rw [← hden, hpath]
        unfold ownerRel
        rw [splitPath_posix hrelnames, hwroot]
        exact happ
      obtain ⟨n, hn, -⟩ := MhlProps.C02.visible_on_disk _ t hS.distinct y.1 y.2 hy
      rw [this, hfresh] at hn
      cases hn

/-- a file without any record in the history that owns it is judged NEW by verify and by diff -/
theorem judge_new_of_unrecorded (env : Env) (T : Node) (H : Hist) (hashing : Bool) (q : RelPath)
    (hun : Unrecorded H q) : judgeFile env T H hashing q = .new := by
  unfold judgeFile
  unfold Unrecorded owner_u ownerRel at hun
  generalize route H q = x at hun
  obtain ⟨hh, hrel⟩ := x
  dsimp only at hun ⊢
  rw [recordedName_of_unrecorded _ _ hun, findOriginal_none_of_unrecorded _ _ hun]

/-- 5b. `nested_added_detected`: add a new file `q = pb ++ [nb]` to a visible folder `pb` of the sealed tree (below a
nested history root or not), not ignored, and new to the history that owns it (no older generation of that history
has a record for it — nothing to assume when the owner is the root history or a nested history without generations).
Then `verify` and `diff` from the outer root end with `NewFilesFoundException` (exit code 21) and report exactly `q`,
with its path from the command root, as new; nothing mismatches, nothing is missing. -/
theorem nested_added_detected (hS : Setting_n2 env t o h) (hshape : OldShaped env t o h)
    (hexp : ExpectedPresent env t h o) (pb : RelPath) (nb : String) (c : Bytes)
    (hpb : pb = [] ∨ (pb, true) ∈ visiblePaths (hit0_n2 env o) t) (hnb : NameOk nb)
    (hfresh : t.at? (pb ++ [nb]) = none) (hhit : hit0_n2 env o (pb ++ [nb]) = false)
    (hnew : Unrecorded h (pb ++ [nb])) :
    ((verify env (addedTree env t o pb nb c) {}).err = some errNewFiles ∧
      (verify env (addedTree env t o pb nb c) {}).exitCode = 21 ∧
      (verify env (addedTree env t o pb nb c) {}).report.new = [posix (pb ++ [nb])] ∧
      (verify env (addedTree env t o pb nb c) {}).report.mismatch = [] ∧
      (verify env (addedTree env t o pb nb c) {}).report.missing = []) ∧
    ((diff env (addedTree env t o pb nb c) {}).err = some errNewFiles ∧
      (diff env (addedTree env t o pb nb c) {}).exitCode = 21 ∧
      (diff env (addedTree env t o pb nb c) {}).report.new = [posix (pb ++ [nb])] ∧
      (diff env (addedTree env t o pb nb c) {}).report.mismatch = [] ∧
      (diff env (addedTree env t o pb nb c) {}).report.missing = []) := by
  obtain ⟨hl, hvis, hcont⟩ := addedTree_facts hS pb nb c hpb hnb hfresh
  obtain ⟨-, hhit0, -⟩ := sealed_ignore_stable_n2 hS
  have hg := sealedHist_gens_ne_n2 hS
  obtain ⟨hd', hn', -⟩ := sealedTree_names_n2 hS
  have hfresh' : (sealedTree_n2 env t o).at? (pb ++ [nb]) = none :=
    ((sameFiles_sealed env t o).at?_none _).2 hfresh
  obtain ⟨hdA, hnA, -⟩ := addAt_props nb c hnb pb _ hd' hfresh'
  have hnA := hnA hn'
  have hqnames : ∀ s ∈ pb ++ [nb], NameOk s := by
    intro s hs
    rcases List.mem_append.1 hs with h1 | h1
    · rcases hpb with rfl | hv
      · cases h1
      · exact (visible_names_ok _ t hS.namesOk _ hv).2 s h1
    · simp only [List.mem_singleton] at h1
      subst h1; exact hnb
  have hbfree : ∀ k, 0 < k → k ≤ (pb ++ [nb]).length → hit0_n2 env o ((pb ++ [nb]).take k) = false := by
    intro k hk0 hk
    by_cases hk' : k ≤ pb.length
    · rw [List.take_append_of_le_length hk']
      rcases hpb with rfl | hv
      · simp at hk'; omega
      · exact ((MhlProps.C02.visible_iff_at _ t hS.distinct pb true).1 hv).2 k hk0 hk'
    · have : k = (pb ++ [nb]).length := by simp at hk ⊢; omega
      rw [this, List.take_length]
      exact hhit
  have hnotvis : ∀ d, (pb ++ [nb], d) ∉ visiblePaths (hit0_n2 env o) t := by
    intro d hv
    obtain ⟨n, hn1, -⟩ := MhlProps.C02.visible_on_disk _ t hS.distinct _ d hv
    rw [hfresh] at hn1
    cases hn1
  have hcons : ∀ q, q ∈ vConsidered env (addedTree env t o pb nb c) (sealedHist_n2 env t o h) {} ↔
      ((q, false) ∈ visiblePaths (hit0_n2 env o) t ∨ q = pb ++ [nb]) := by
    intro q
    rw [mem_vConsidered, hhit0, hvis]
    constructor
    · rintro ⟨h1 | ⟨h1, -, -⟩, -⟩
      · exact Or.inl h1
      · exact Or.inr h1
    · rintro (h1 | h1)
      · exact ⟨Or.inl h1, Or.inl rfl⟩
      · exact ⟨Or.inr ⟨h1, rfl, hbfree⟩, Or.inl rfl⟩
  have hjudge : ∀ hashing q, q ∈ vConsidered env (addedTree env t o pb nb c) (sealedHist_n2 env t o h) {} →
      judgeFile env (addedTree env t o pb nb c) (sealedHist_n2 env t o h) hashing q =
        if q = pb ++ [nb] then .new else .ok := by
    intro hashing q hq
    rcases (hcons q).1 hq with hq1 | rfl
    · have hne : q ≠ pb ++ [nb] := fun he => hnotvis false (he ▸ hq1)
      obtain ⟨e, -, hd, hj⟩ := judge_on_sealed hS hshape (addedTree env t o pb nb c) hashing q hq1
      rw [hj, hcont q hq1, hd]
      simp [hne]
    · rw [judge_new_of_unrecorded env _ _ hashing _
        (added_unrecorded hS _ (by simp) hqnames hfresh hnew)]
      simp
  have hmism : ∀ hashing, vMism env (addedTree env t o pb nb c) (sealedHist_n2 env t o h) {} hashing = [] := by
    intro hashing
    apply List.eq_nil_iff_forall_not_mem.2
    intro q hq
    obtain ⟨hq1, hq2⟩ := (mem_vMism _ _ _ _ _ _).1 hq
    rw [hjudge hashing q hq1] at hq2
    split at hq2 <;> cases hq2
  have hnews : ∀ hashing,
      vNews env (addedTree env t o pb nb c) (sealedHist_n2 env t o h) {} hashing = [pb ++ [nb]] := by
    intro hashing
    unfold vNews
    apply filter_eq_singleton
    · unfold vConsidered vFiles
      exact List.Nodup.sublist List.filter_sublist (visibleFiles_nodup _ _ hdA hnA)
    · exact (hcons _).2 (Or.inr rfl)
    · intro q hq
      rw [hjudge hashing q hq]
      by_cases hqp : q = pb ++ [nb] <;> simp [hqp]
  have hmiss : vMissing env (addedTree env t o pb nb c) (sealedHist_n2 env t o h) {} = [] := by
    apply List.eq_nil_iff_forall_not_mem.2
    intro q hq
    obtain ⟨he, hnv, hh⟩ := (MhlProps.C03.missing_iff env _ {} (sealedHist_n2 env t o h) q).1 hq
    rcases sealed_expected_present hS hexp q he with ⟨d, hd⟩ | hi
    · exact hnv d (by rw [hhit0, hvis]; exact Or.inl hd)
    · rw [hhit0, hi] at hh; cases hh
  have hrun : ∀ hashing,
      (verifyOrDiff env (addedTree env t o pb nb c) {} hashing none).err = some errNewFiles ∧
      (verifyOrDiff env (addedTree env t o pb nb c) {} hashing none).exitCode = 21 ∧
      (verifyOrDiff env (addedTree env t o pb nb c) {} hashing none).report.new = [posix (pb ++ [nb])] ∧
      (verifyOrDiff env (addedTree env t o pb nb c) {} hashing none).report.mismatch = [] ∧
      (verifyOrDiff env (addedTree env t o pb nb c) {} hashing none).report.missing = [] := by
    intro hashing
    obtain ⟨r1, r2, r3, -, -⟩ := MhlProps.C03.report_shape env (addedTree env t o pb nb c) {} hashing
      (sealedHist_n2 env t o h) hl hg
    have herr : (verifyOrDiff env (addedTree env t o pb nb c) {} hashing none).err = some errNewFiles := by
      rw [MhlProps.C03.run_err env _ {} hashing (sealedHist_n2 env t o h) hl hg, hmism, hnews, hmiss]
      cases hashing <;> rfl
    refine ⟨herr, ?_, ?_, ?_, ?_⟩
    · exact MhlProps.C03.exitCode_of_err _ 21 (by rw [herr, errNewFiles_eq])
    · rw [r2, hnews]; rfl
    · rw [r1, hmism]; rfl
    · rw [r3, hmiss]; rfl
  exact ⟨hrun true, hrun false⟩

end

/-! ### 5c. in any company: the precedence of the exit codes

The theorems 4., 5a., 5b. change ONE thing.  The following hold for ANY tree `T` that loads as the sealed history
(whatever else was altered, removed or added): each discrepancy is in its list, and the exit code follows the
precedence of the model — verify: mismatch (11) over new (21) over missing (10); diff: missing (10) over new (21). -/

section
variable {env : Env} {t : Node} {o : CreateOpts} {h : Hist}

/-- an altered file is named and `verify` ends with 11, whatever else happened to the tree -/
theorem altered_detected_any (hS : Setting_n2 env t o h) (hshape : OldShaped env t o h) (T : Node)
    (hl : loadHistory T = .ok (sealedHist_n2 env t o h)) (p : RelPath)
    (hp : (p, false) ∈ visiblePaths (hit0_n2 env o) t) (hpT : (p, false) ∈ visiblePaths (hit0_n2 env o) T) (e : Entry)
    (he : findOriginal (owner_u (sealedHist_n2 env t o h) p).gens (ownerRel (sealedHist_n2 env t o h) p) = some e)
    (hdig : env.H e.fmt (fileContent T p) ≠ env.H e.fmt (fileContent t p)) :
    posix p ∈ (verify env T {}).report.mismatch ∧ (verify env T {}).err = some errVerifyFailed ∧
    (verify env T {}).exitCode = 11 := by
  obtain ⟨-, hhit, -⟩ := sealed_ignore_stable_n2 hS
  obtain ⟨e', he', hd', hj⟩ := judge_on_sealed hS hshape T true p hp
  rw [he] at he'
  cases he'
  have hjm : judgeFile env T (sealedHist_n2 env t o h) true p = .mismatch := by
    rw [hj, hd']; simp [hdig]
  obtain ⟨-, h2, h3, h4⟩ := MhlProps.C03.mismatch_complete env T {} true (sealedHist_n2 env t o h) hl
    (sealedHist_gens_ne_n2 hS) p (by rw [hhit]; exact hpT) (Or.inl rfl) hjm
  exact ⟨h2, h3, h4⟩

/-- a file that was not there at seal time and is new to its history is named as new by verify and diff, the exit
code is not 0; it is 21 for verify unless a mismatch takes precedence, and for diff unless something is missing -/
theorem added_detected_any (hS : Setting_n2 env t o h) (T : Node)
    (hl : loadHistory T = .ok (sealedHist_n2 env t o h)) (q : RelPath) (hne : q ≠ []) (hnames : ∀ s ∈ q, NameOk s)
    (hqT : (q, false) ∈ visiblePaths (hit0_n2 env o) T) (hfresh : t.at? q = none) (hnew : Unrecorded h q) :
    posix q ∈ (verify env T {}).report.new ∧ posix q ∈ (diff env T {}).report.new ∧
    (verify env T {}).exitCode ≠ 0 ∧ (diff env T {}).exitCode ≠ 0 ∧
    (vMism env T (sealedHist_n2 env t o h) {} true = [] → (verify env T {}).exitCode = 21) ∧
    (vMissing env T (sealedHist_n2 env t o h) {} = [] → (diff env T {}).exitCode = 21) := by
  obtain ⟨-, hhit, -⟩ := sealed_ignore_stable_n2 hS
  have hg := sealedHist_gens_ne_n2 hS
  have hun := added_unrecorded hS q hne hnames hfresh hnew
  have hv : (q, false) ∈ visiblePaths (vHit env (sealedHist_n2 env t o h) {}) T := by rw [hhit]; exact hqT
  obtain ⟨-, a2, a3, -, a5⟩ := MhlProps.C03.new_complete env T {} true (sealedHist_n2 env t o h) hl hg q hv
    (Or.inl rfl) (judge_new_of_unrecorded env T _ true q hun)
  obtain ⟨-, b2, -, b4, b5⟩ := MhlProps.C03.new_complete env T {} false (sealedHist_n2 env t o h) hl hg q hv
    (Or.inl rfl) (judge_new_of_unrecorded env T _ false q hun)
  exact ⟨a2, b2, a5, b5, fun hm => (a3 rfl hm).2, fun hm => (b4 rfl hm).2⟩

/-- a file the sealing run saw that is gone is named as missing by diff and verify; diff ends with 10, verify does
not end with 0, and ends with 10 unless a mismatch or a new file takes precedence -/
theorem removed_detected_any (hS : Setting_n2 env t o h) (T : Node)
    (hl : loadHistory T = .ok (sealedHist_n2 env t o h)) (p : RelPath)
    (hp : (p, false) ∈ visiblePaths (hit0_n2 env o) t) (hgone : ∀ d, (p, d) ∉ visiblePaths (hit0_n2 env o) T) :
    posix p ∈ (diff env T {}).report.missing ∧ posix p ∈ (verify env T {}).report.missing ∧
    (diff env T {}).exitCode = 10 ∧ (verify env T {}).exitCode ≠ 0 ∧
    (vMism env T (sealedHist_n2 env t o h) {} true = [] → vNews env T (sealedHist_n2 env t o h) {} true = [] →
      (verify env T {}).exitCode = 10) := by
  obtain ⟨-, hhit, -⟩ := sealed_ignore_stable_n2 hS
  have hg := sealedHist_gens_ne_n2 hS
  have he := sealed_file_expected hS p hp
  have hnv : ∀ d, (p, d) ∉ visiblePaths (vHit env (sealedHist_n2 env t o h) {}) T := by rw [hhit]; exact hgone
  have hh : hitAbove (vHit env (sealedHist_n2 env t o h) {}) p = false := by
    rw [hhit]; exact MhlProps.C03.hitAbove_false_of_visible _ t _ false hp
  obtain ⟨-, a2, a3, -, a5⟩ := MhlProps.C03.missing_complete env T {} true (sealedHist_n2 env t o h) hl hg p he hnv hh
  obtain ⟨-, b2, -, b4, -⟩ := MhlProps.C03.missing_complete env T {} false (sealedHist_n2 env t o h) hl hg p he hnv hh
  exact ⟨b2, a2, b4 rfl, a3, fun h1 h2 => a5 rfl h1 h2 (by simp)⟩

/-- `diff` does not hash: on the sealed tree with any file altered it still ends with 0 and reports nothing -/
theorem altered_diff_blind (hS : Setting_n2 env t o h) (hshape : OldShaped env t o h)
    (hexp : ExpectedPresent env t h o) (p : RelPath) (hp : (p, false) ∈ visiblePaths (hit0_n2 env o) t) (c' : Bytes) :
    (diff env (alteredTree_n2 env t o p c') {}).err = none ∧ (diff env (alteredTree_n2 env t o p c') {}).exitCode = 0 ∧
    (diff env (alteredTree_n2 env t o p c') {}).report.mismatch = [] ∧
    (diff env (alteredTree_n2 env t o p c') {}).report.new = [] ∧
    (diff env (alteredTree_n2 env t o p c') {}).report.missing = [] := by
  obtain ⟨hl, hvis, -, -⟩ := alteredTree_facts_n2 hS p hp c'
  obtain ⟨-, hhit, -⟩ := sealed_ignore_stable_n2 hS
  apply MhlProps.C03.clean_exit_zero env _ {} false (sealedHist_n2 env t o h) hl (sealedHist_gens_ne_n2 hS) rfl
  · intro q hq
    rw [hhit, hvis] at hq
    obtain ⟨e, -, -, hj⟩ := judge_on_sealed hS hshape (alteredTree_n2 env t o p c') false q hq
    rw [hj]
    simp
  · intro q hq
    rw [hhit, hvis]
    exact sealed_expected_present hS hexp q hq

end

/-! ### Boolean tests for the hypotheses (to establish them on concrete trees by evaluation) -/

/-- no folder holding a nested history has a line feed in its name -/
def folderNamesB (h : Hist) : Bool :=
  (allDescendants h).all fun c =>
    match c.root.getLast? with
    | some n => !n.toList.contains '\n'
    | none => true

theorem folderNamesB_spec (h : Hist) (hb : folderNamesB h = true) :
    ∀ c ∈ allDescendants h, ∀ n, c.root.getLast? = some n → '\n' ∉ n.toList := by
  intro c hc n hn
  have := List.all_eq_true.1 hb c hc
  rw [hn] at this
  simpa using this

/-- every visible file is unrecorded, or recorded with an original reference entry, in the history that owns it -/
def oldShapedB (t : Node) (h : Hist) (hit : RelPath → Bool) : Bool :=
  (visiblePaths hit t).all fun x =>
    x.2 || ((route h x.1).1.gens.all fun g => (g.gen.find (posix (route h x.1).2)).isNone) ||
      recordedOriginalB (route h x.1).1.gens (posix (route h x.1).2)

theorem oldShapedB_spec (env : Env) (t : Node) (o : CreateOpts) (h : Hist)
    (hb : oldShapedB t h (hit0_n2 env o) = true) : OldShaped env t o h := by
  intro p hp
  have := List.all_eq_true.1 hb (p, false) hp
  simp only [Bool.false_or, Bool.or_eq_true] at this
  rcases this with h1 | h1
  · left
    intro g hg
    have := List.all_eq_true.1 h1 g hg
    unfold ownerRel
    simpa using this
  · exact Or.inr ((recordedOriginalB_iff _ _).1 h1)

theorem oldShaped_iff (env : Env) (t : Node) (o : CreateOpts) (h : Hist) :
    OldShaped env t o h ↔ oldShapedB t h (hit0_n2 env o) = true := by
  refine ⟨fun hs => ?_, oldShapedB_spec env t o h⟩
  unfold oldShapedB
  rw [List.all_eq_true]
  rintro ⟨p, d⟩ hx
  cases d with
  | true => rfl
  | false =>
    simp only [Bool.false_or, Bool.or_eq_true]
    rcases hs p hx with h1 | h1
    · left
      rw [List.all_eq_true]
      intro g hg
      have := h1 g hg
      unfold ownerRel at this
      simp [this]
    · exact Or.inr ((recordedOriginalB_iff _ _).2 h1)

/-! ### 6. non-vacuity: the two- and three-level trees of C04nested, through the theorems -/

set_option maxRecDepth 100000

/-- the setting holds on `big1`: the big tree with the nested history at `A/` (generation 1, sealed on its own with
md5) grafted in, no history at the root; the outer seal asks for xxh64 and md5 -/
theorem setting_big1 : Setting_n2 envR big1 o1 (loadD big1) where
  load := load1
  distinct := namesDistinctB_spec _ (by decide +kernel)
  namesOk := by decide +kernel
  isDir := by decide +kernel
  rootFresh := by decide +kernel
  rootName := by decide
  stamp := by decide
  folderNames := folderNamesB_spec _ (by decide +kernel)
  singleFiles := rfl
  noRename := rfl
  formats := by decide
  consistent := hyps1.1

theorem shaped_big1 : OldShaped envR big1 o1 (loadD big1) := oldShapedB_spec _ _ _ _ (by decide +kernel)

/-- `big2` of C04nested IS the sealed tree -/
example : big2 = sealedTree_n2 envR big1 o1 := rfl

/-- 1. on `big1`: the sealed tree loads; the root history has generation 1, the nested one generations 1, 2 -/
example : loadHistory big2 = .ok (sealedHist_n2 envR big1 o1 (loadD big1)) := (nested_sealed_tree_loads setting_big1).1

example : ((sealedHist_n2 envR big1 o1 (loadD big1)).all.map fun x => (x.root, x.gens.map (·.number))) =
    [([], [1]), (["A"], [1, 2])] := by
  unfold sealedHist_n2
  rw [createFolder_eq_with]
  decide +kernel

/-- 3. verify / diff on the sealed tree through the theorem -/
example : (verify envR big2 {}).exitCode = 0 ∧ (diff envR big2 {}).exitCode = 0 :=
  ⟨(nested_verify_after_seal setting_big1 shaped_big1 hyps1.2.1).1.2.1,
    (nested_verify_after_seal setting_big1 shaped_big1 hyps1.2.1).2.2.1⟩

/-- 4. a file of the NESTED history altered (four bytes instead of three): the entry verify compares is the original
entry of A's own generation 1 (md5, sealed on its own), not one of the outer seal; through the theorem -/
example :
    (verify envR (alteredTree_n2 envR big1 o1 ["A", "x.mov"] [1, 2, 3, 4]) {}).exitCode = 11 ∧
    (verify envR (alteredTree_n2 envR big1 o1 ["A", "x.mov"] [1, 2, 3, 4]) {}).report.mismatch = ["A/x.mov"] ∧
    (verify envR (alteredTree_n2 envR big1 o1 ["A", "x.mov"] [1, 2, 3, 4]) {}).report.new = [] ∧
    (verify envR (alteredTree_n2 envR big1 o1 ["A", "x.mov"] [1, 2, 3, 4]) {}).report.missing = [] := by
  have h := nested_altered_detected setting_big1 shaped_big1 hyps1.2.1 ["A", "x.mov"] (by decide +kernel) [1, 2, 3, 4]
    { fmt := "md5", digest := "md5:3", action := "original" }
    (by unfold sealedHist_n2; rw [createFolder_eq_with]; decide +kernel) (by decide +kernel)
  exact ⟨h.2.1, h.2.2.2.1, h.2.2.2.2.1, h.2.2.2.2.2⟩

/-- … and a file of the ROOT history: the entry is the one of the outer seal with the least format name -/
example :
    (verify envR (alteredTree_n2 envR big1 o1 ["B", "z"] [1]) {}).exitCode = 11 ∧
    (verify envR (alteredTree_n2 envR big1 o1 ["B", "z"] [1]) {}).report.mismatch = ["B/z"] := by
  have h := nested_altered_detected setting_big1 shaped_big1 hyps1.2.1 ["B", "z"] (by decide +kernel) [1]
    { fmt := "md5", digest := "md5:0", action := "original" }
    (by unfold sealedHist_n2; rw [createFolder_eq_with]; decide +kernel) (by decide +kernel)
  exact ⟨h.2.1, h.2.2.2.1⟩

/-- 5a. a file of the nested history removed; through the theorem -/
example :
    (diff envR (removedTree envR big1 o1 ["A"] "y.mov") {}).exitCode = 10 ∧
    (diff envR (removedTree envR big1 o1 ["A"] "y.mov") {}).report.missing = ["A/y.mov"] ∧
    (verify envR (removedTree envR big1 o1 ["A"] "y.mov") {}).exitCode = 10 ∧
    (verify envR (removedTree envR big1 o1 ["A"] "y.mov") {}).report.missing = ["A/y.mov"] := by
  have h := nested_removed_detected setting_big1 shaped_big1 hyps1.2.1 ["A"] "y.mov" (by decide +kernel)
  exact ⟨h.1.2.1, h.1.2.2.1, h.2.2.1, h.2.2.2.1⟩

/-- 5b. a file added two folders below the nested history root; through the theorem -/
example :
    (verify envR (addedTree envR big1 o1 ["A", "sub"] "new.mov" [5]) {}).exitCode = 21 ∧
    (verify envR (addedTree envR big1 o1 ["A", "sub"] "new.mov" [5]) {}).report.new = ["A/sub/new.mov"] ∧
    (diff envR (addedTree envR big1 o1 ["A", "sub"] "new.mov" [5]) {}).exitCode = 21 ∧
    (diff envR (addedTree envR big1 o1 ["A", "sub"] "new.mov" [5]) {}).report.new = ["A/sub/new.mov"] := by
  have h := nested_added_detected setting_big1 shaped_big1 hyps1.2.1 ["A", "sub"] "new.mov" [5]
    (Or.inr (by decide +kernel)) (by decide) (by decide +kernel) (by decide +kernel)
    (by unfold Unrecorded owner_u ownerRel; decide +kernel)
  exact ⟨h.1.2.1, h.1.2.2.1, h.2.2.1, h.2.2.2.1⟩

/-! ### 6'. three levels: a grand-child history at `A/sub/` -/

theorem load_c1 : loadHistory c1 = .ok (loadD c1) := loadD_spec c1 (by decide +kernel)

theorem setting_c1 : Setting_n2 envR c1 o1 (loadD c1) where
  load := load_c1
  distinct := namesDistinctB_spec _ (by decide +kernel)
  namesOk := by decide +kernel
  isDir := by decide +kernel
  rootFresh := by decide +kernel
  rootName := by decide
  stamp := by decide
  folderNames := folderNamesB_spec _ (by decide +kernel)
  singleFiles := rfl
  noRename := rfl
  formats := by decide
  consistent := allConsistentB_spec _ _ _ _ (by decide +kernel)

theorem shaped_c1 : OldShaped envR c1 o1 (loadD c1) := oldShapedB_spec _ _ _ _ (by decide +kernel)

theorem expected_c1 : ExpectedPresent envR c1 (loadD c1) o1 := expectedPresentB_spec _ _ _ (by decide +kernel)

example : c2 = sealedTree_n2 envR c1 o1 := rfl

/-- every history wrote: the root has generation 1, `A` generations 1, 2, `A/sub` generations 1, 2, 3 -/
example : ((sealedHist_n2 envR c1 o1 (loadD c1)).all.map fun x => (x.root, x.gens.map (·.number))) =
    [([], [1]), (["A"], [1, 2]), (["A", "sub"], [1, 2, 3])] := by
  unfold sealedHist_n2
  rw [createFolder_eq_with]
  decide +kernel

example : (verify envR c2 {}).exitCode = 0 ∧ (diff envR c2 {}).exitCode = 0 :=
  ⟨(nested_verify_after_seal setting_c1 shaped_c1 expected_c1).1.2.1,
    (nested_verify_after_seal setting_c1 shaped_c1 expected_c1).2.2.1⟩

/-- a file of the GRAND-CHILD history altered: judged against the sha1 entry of that history's own generation 1,
reported with its path from the outer root; removed: missing; a new file beside it: new — through the theorems -/
example :
    (verify envR (alteredTree_n2 envR c1 o1 ["A", "sub", "s"] [6]) {}).exitCode = 11 ∧
    (verify envR (alteredTree_n2 envR c1 o1 ["A", "sub", "s"] [6]) {}).report.mismatch = ["A/sub/s"] ∧
    (diff envR (removedTree envR c1 o1 ["A", "sub"] "s") {}).exitCode = 10 ∧
    (diff envR (removedTree envR c1 o1 ["A", "sub"] "s") {}).report.missing = ["A/sub/s"] ∧
    (verify envR (addedTree envR c1 o1 ["A", "sub"] "n" []) {}).exitCode = 21 ∧
    (verify envR (addedTree envR c1 o1 ["A", "sub"] "n" []) {}).report.new = ["A/sub/n"] := by
  have h1 := nested_altered_detected setting_c1 shaped_c1 expected_c1 ["A", "sub", "s"] (by decide +kernel) [6]
    { fmt := "sha1", digest := "sha1:2", action := "original" }
    (by unfold sealedHist_n2; rw [createFolder_eq_with]; decide +kernel) (by decide +kernel)
  have h2 := nested_removed_detected setting_c1 shaped_c1 expected_c1 ["A", "sub"] "s" (by decide +kernel)
  have h3 := nested_added_detected setting_c1 shaped_c1 expected_c1 ["A", "sub"] "n" []
    (Or.inr (by decide +kernel)) (by decide) (by decide +kernel) (by decide +kernel)
    (by unfold Unrecorded owner_u ownerRel; decide +kernel)
  exact ⟨h1.2.1, h1.2.2.2.1, h2.1.2.1, h2.1.2.2.1, h3.1.2.1, h3.1.2.2.1⟩

/-! ### 6''. the same by evaluation, and the precedence of the exit codes when several things happen at once -/

/-- independent of the theorems: the three single changes on the two-level tree, evaluated -/
theorem closed_single_changes :
    (verify envR (alteredTree_n2 envR big1 o1 ["A", "x.mov"] [1, 2, 3, 4]) {}).exitCode = 11 ∧
    (verify envR (alteredTree_n2 envR big1 o1 ["A", "x.mov"] [1, 2, 3, 4]) {}).report.mismatch = ["A/x.mov"] ∧
    (verify envR (alteredTree_n2 envR big1 o1 ["A", "x.mov"] [1, 2, 3, 4]) {}).report.new = [] ∧
    (verify envR (alteredTree_n2 envR big1 o1 ["A", "x.mov"] [1, 2, 3, 4]) {}).report.missing = [] ∧
    (diff envR (alteredTree_n2 envR big1 o1 ["A", "x.mov"] [1, 2, 3, 4]) {}).exitCode = 0 ∧
    (verify envR (removedTree envR big1 o1 ["A"] "y.mov") {}).exitCode = 10 ∧
    (verify envR (removedTree envR big1 o1 ["A"] "y.mov") {}).report.missing = ["A/y.mov"] ∧
    (diff envR (removedTree envR big1 o1 ["A"] "y.mov") {}).exitCode = 10 ∧
    (verify envR (addedTree envR big1 o1 ["A", "sub"] "new.mov" [5]) {}).exitCode = 21 ∧
    (verify envR (addedTree envR big1 o1 ["A", "sub"] "new.mov" [5]) {}).report.new = ["A/sub/new.mov"] ∧
    (diff envR (addedTree envR big1 o1 ["A", "sub"] "new.mov" [5]) {}).exitCode = 21 := by
  unfold alteredTree_n2 removedTree addedTree sealedTree_n2
  simp only [verify_eq_with, diff_eq_with, createFolder_eq_with]
  decide +kernel

/-- all three at once below the nested history root: a file altered, one removed, one added -/
def big2Mixed : Node :=
  Node.updateAt (addChild (.file "new.mov" [5]))
    (Node.updateAt (removeChild "y.mov") (Node.updateAt (setContent [1, 2, 3, 4]) big2 ["A", "x.mov"]) ["A"])
    ["A", "sub"]

/-- only removed and added -/
def big2RemAdd : Node :=
  Node.updateAt (addChild (.file "new.mov" [5])) (Node.updateAt (removeChild "y.mov") big2 ["A"]) ["A", "sub"]

/-- the precedence of the model: verify — mismatch (11) over new (21) over missing (10); diff — missing (10) over
new (21); every discrepancy is in its list whatever the exit code is -/
theorem closed_precedence :
    (verify envR big2Mixed {}).exitCode = 11 ∧
    (verify envR big2Mixed {}).report.mismatch = ["A/x.mov"] ∧
    (verify envR big2Mixed {}).report.new = ["A/sub/new.mov"] ∧
    (verify envR big2Mixed {}).report.missing = ["A/y.mov"] ∧
    (diff envR big2Mixed {}).exitCode = 10 ∧
    (diff envR big2Mixed {}).report.mismatch = [] ∧
    (diff envR big2Mixed {}).report.new = ["A/sub/new.mov"] ∧
    (diff envR big2Mixed {}).report.missing = ["A/y.mov"] ∧
    (verify envR big2RemAdd {}).exitCode = 21 ∧
    (verify envR big2RemAdd {}).report.new = ["A/sub/new.mov"] ∧
    (verify envR big2RemAdd {}).report.missing = ["A/y.mov"] ∧
    (diff envR big2RemAdd {}).exitCode = 10 := by
  unfold big2Mixed big2RemAdd big2
  simp only [verify_eq_with, diff_eq_with, createFolder_eq_with]
  decide +kernel

/-- the same changes after a reseal (`big3`: generations 1, 2 at the root and 1, 2, 3 at `A/`): the entry compared is
still the one of A's generation 1 -/
theorem closed_after_reseal :
    (verify envR (Node.updateAt (setContent [1, 2, 3, 4]) big3 ["A", "x.mov"]) {}).exitCode = 11 ∧
    (verify envR (Node.updateAt (setContent [1, 2, 3, 4]) big3 ["A", "x.mov"]) {}).report.mismatch = ["A/x.mov"] ∧
    (diff envR (Node.updateAt (removeChild "y.mov") big3 ["A"]) {}).exitCode = 10 ∧
    (diff envR (Node.updateAt (removeChild "y.mov") big3 ["A"]) {}).report.missing = ["A/y.mov"] ∧
    (verify envR (Node.updateAt (addChild (.file "new.mov" [5])) big3 ["A", "sub"]) {}).exitCode = 21 ∧
    (verify envR (Node.updateAt (addChild (.file "new.mov" [5])) big3 ["A", "sub"]) {}).report.new =
      ["A/sub/new.mov"] := by
  unfold big3 big2
  simp only [verify_eq_with, diff_eq_with, createFolder_eq_with]
  decide +kernel

/-- three levels, evaluated: the file of the grand-child history -/
theorem closed_three_levels :
    (verify envR (alteredTree_n2 envR c1 o1 ["A", "sub", "s"] [6]) {}).exitCode = 11 ∧
    (verify envR (alteredTree_n2 envR c1 o1 ["A", "sub", "s"] [6]) {}).report.mismatch = ["A/sub/s"] ∧
    (verify envR (removedTree envR c1 o1 ["A", "sub"] "s") {}).exitCode = 10 ∧
    (verify envR (removedTree envR c1 o1 ["A", "sub"] "s") {}).report.missing = ["A/sub/s"] ∧
    (diff envR (addedTree envR c1 o1 ["A", "sub"] "n" []) {}).exitCode = 21 ∧
    (diff envR (addedTree envR c1 o1 ["A", "sub"] "n" []) {}).report.new = ["A/sub/n"] := by
  unfold alteredTree_n2 removedTree addedTree sealedTree_n2
  simp only [verify_eq_with, diff_eq_with, createFolder_eq_with]
  decide +kernel

/-! ### 7. the two extra hypotheses cannot be dropped -/

/-- a nested history at `A/` as no `create` leaves it but as it loads: generation 1 records `old.txt` (original),
generation 2 records `a.txt` as renamed from `old.txt` with the digest of the present content -/
def wnG1 : Generation :=
  { fileName := "0001_A_2020-01-16_091500Z.mhl", ignore := wIgnore,
    records := [{ path := "old.txt", size := some 7,
                  entries := [{ fmt := "md5", digest := "md5:7", action := "original" }] }] }
def wnG2 : Generation :=
  { fileName := "0002_A_2020-01-17_091500Z.mhl", ignore := wIgnore,
    records := [{ path := "a.txt", size := some 2, prev := some "old.txt",
                  entries := [{ fmt := "md5", digest := "md5:2", action := "verified" }] }] }
def wnStore : HistStore := { gens := [wnG1, wnG2], chain := [⟨1, wnG1.fileName⟩, ⟨2, wnG2.fileName⟩] }
def wnTree : Node := .dir "root" [.dir "A" [.file "a.txt" [1, 2]] (some wnStore)] none
def wnOpts : CreateOpts := { formats := ["md5"] }

theorem wn_load : loadHistory wnTree = .ok (loadD wnTree) := loadD_spec wnTree (by decide +kernel)

theorem wn_setting : Setting_n2 wEnv wnTree wnOpts (loadD wnTree) where
  load := wn_load
  distinct := namesDistinctB_spec _ (by decide +kernel)
  namesOk := by decide +kernel
  isDir := by decide +kernel
  rootFresh := by decide +kernel
  rootName := by decide
  stamp := by decide
  folderNames := folderNamesB_spec _ (by decide +kernel)
  singleFiles := rfl
  noRename := rfl
  formats := by decide
  consistent := allConsistentB_spec _ _ _ _ (by decide +kernel)

/-- `old_shape_needed`: THE STATEMENT (a) OF THE PROPERTY IS FALSE OF THE MODEL WITHOUT `OldShaped`.  The whole
setting holds (in particular every visible file is consistent with its owner history, C04nested's `AllConsistent`),
everything the older generations recorded is still there, the outer seal ends with exit code 0 — and `verify` on the
unchanged sealed tree ends with 11 and names `A/a.txt`: it follows the recorded rename to `old.txt` and compares
with that record's original entry.  (`create` looks the file up under its own name and is content.) -/
theorem old_shape_needed :
    Setting_n2 wEnv wnTree wnOpts (loadD wnTree) ∧ ExpectedPresent wEnv wnTree (loadD wnTree) wnOpts ∧
    ¬ OldShaped wEnv wnTree wnOpts (loadD wnTree) ∧
    (createFolder wEnv wnTree wnOpts).exitCode = 0 ∧
    (verify wEnv (sealedTree_n2 wEnv wnTree wnOpts) {}).exitCode = 11 ∧
    (verify wEnv (sealedTree_n2 wEnv wnTree wnOpts) {}).report.mismatch = ["A/a.txt"] := by
  refine ⟨wn_setting, expectedPresentB_spec _ _ _ (by decide +kernel), ?_, ?_⟩
  · rw [oldShaped_iff]; decide +kernel
  · unfold sealedTree_n2
    rw [verify_eq_with, createFolder_eq_with]
    decide +kernel

/-- a nested history (no generation yet) in a folder whose name contains a line feed -/
def nlTree : Node := .dir "root" [.dir "a\nb" [.file "x" [1]] (some {})] none

/-- `folder_names_needed`: without the hypothesis on the folder names of the nested histories, 1. and 3. fail: every
other hypothesis holds, the outer seal ends with 0 and writes generation 1 of the nested history, but its manifest
name `0001_a\nb_….mhl` is not recognised (the `.+` of the file-name pattern does not match a line feed, C06), so the
nested history reloads WITHOUT generations and `verify` calls its file new (21) -/
theorem folder_names_needed :
    loadHistory nlTree = .ok (loadD nlTree) ∧ nlTree.NamesDistinct ∧ nlTree.NamesOk ∧
    AllConsistent wEnv nlTree (loadD nlTree) wnOpts ∧ OldShaped wEnv nlTree wnOpts (loadD nlTree) ∧
    ExpectedPresent wEnv nlTree (loadD nlTree) wnOpts ∧ folderNamesB (loadD nlTree) = false ∧
    (createFolder wEnv nlTree wnOpts).exitCode = 0 ∧
    ((createFolder wEnv nlTree wnOpts).written.map fun w => (w.histRoot, w.number)) = [(["a\nb"], 1), ([], 1)] ∧
    histShape (sealedTree_n2 wEnv nlTree wnOpts) = some [([], [1]), (["a\nb"], [])] ∧
    (verify wEnv (sealedTree_n2 wEnv nlTree wnOpts) {}).exitCode = 21 ∧
    (verify wEnv (sealedTree_n2 wEnv nlTree wnOpts) {}).report.new = ["a\nb/x"] := by
  refine ⟨loadD_spec nlTree (by decide +kernel), namesDistinctB_spec _ (by decide +kernel), by decide +kernel,
    allConsistentB_spec _ _ _ _ (by decide +kernel), oldShapedB_spec _ _ _ _ (by decide +kernel),
    expectedPresentB_spec _ _ _ (by decide +kernel), by decide +kernel, ?_⟩
  unfold sealedTree_n2 histShape
  rw [verify_eq_with, createFolder_eq_with]
  decide +kernel

end MhlProps.C03nested
