/-
C05e2e — C05 END TO END, composed from the model's own operations.

  After any run of creates, if the bytes of any manifest listed in a chain differ from what was hashed when it was
  written (state `.modified`), or such a manifest is missing (state `.missing`), or the chain file of an existing
  `ascmhl` folder is missing, then every command refuses with the dedicated code (31 modified / 33 manifest missing /
  32 chain missing), reports nothing and writes nothing; an untouched history never refuses.

The damage is a tree operation (`Node.updateAt` at the history root `r`; `r = []` is the root history), defined in
MhlProps/Proofs/TamperLemmas.lean:
  `tamperGen t r k`   the `k`-th stored manifest (0-based, stored order) of the store at `r` gets state `.modified`
  `removeGen t r k`   … gets state `.missing` (as the driver's `tamper` operation: the chain entry stays)
  `removeChain t r`   `chainPresent := false`
  `damageAt g t r`    the general form: the store at `r` is replaced by `g` of it.
`markGens_eq_markByName`: with pairwise different file names `tamperGen` / `removeGen` are the driver's by-name
operation.

Theorems
  1. `untouched_run_loads`        after ANY run of C06seq steps from a folder without history `loadHistory` is `.ok`;
     `ok_never_chain_error`       when `loadHistory` is `.ok` no command form ends with 31 / 32 / 33 (each ends
                                  normally, with an `AssertionError` of the commit, or with 10/11/12/20/21/30: `OwnEnd`);
     `untouched_never_refuses`    the two together;
     `chain_error_iff_load_fails` a command ends with e ∈ {31, 32, 33} IFF `loadHistory` fails with e.
  2. `tamper_refuses`             run with n ≥ 1 generations, k < n: tamper → 31, remove → 33, chain removed → 32;
     `tamper_all_commands_refuse` hence all nine command forms are `refusal (.exit 31 / 33 / 32)`;
     `refusal_spelled`            exit code, empty report, `written = []`.
  3. `first_fault_wins`           the manifests of the run replaced by ANY manifests of the same names (any states),
                                  chain file present or not: loading fails with 32 if the chain file is missing,
                                  else with the fault of the FIRST manifest (generation order) that is not intact,
                                  and succeeds iff there is none;
     `first_fault_lowest`, `two_faults_lowest_wins`, `missing_chain_wins`   the special cases spelled out.
  4. `nested_tamper_refuses_at`   ANY tree that loads (sibling names distinct along the path), the folder at ANY path `r`
                                  (any depth) holding a store: damage of ONE manifest that the chain lists (and that
                                  is the first of its name) → 31 / 33, chain file removed → 32;
     `nested_tamper_refuses_partial`  the same for the root `c.root` of ANY nested history `c ∈ allDescendants h` of
                                  the loaded history (any depth), per-manifest hypotheses;
     `nested_tamper_loaded_refuses`   every LOADED generation of the nested history (first stored manifest of its
                                  name) qualifies: what the history shows is protected by the chain;
     `nested_tamper_refuses`      names pairwise different: EVERY stored manifest `k` is either listed in the chain —
                                  damage is refused with 31 / 33 — or not listed — then it is not part of the history
                                  and damaging it changes nothing: the tree loads as the same history;
     `nested_tamper_refuses_listed`, `nested_all_commands_refuse`
                                  for a store in the shape the tool leaves (`Listed`) EVERY `k` is refused;
     `unlisted_not_loaded`        (after the repair of `load_from_path`) a stored manifest that the chain does not
                                  list is not loaded under any number, and altering / deleting it — or removing all
                                  unlisted manifests, `unlisted_removed_same_history` — leaves `loadGens`, the chain
                                  check and `loadHistory` of the whole tree as they are;
     `unlisted_not_loaded_witness`, `nested_tamper_shadowed_false`   concrete trees by `decide +kernel`;
     `grafted_run_tamper_refuses` a C06seq run grafted as a sub-folder of an outer history: every k < n.
  5. `refusal_preserves_tree`     `applyWritten t' (create / flatten …).written = t'` on a tree that does not load;
     `damaged_stays_damaged`      a damaged flat history stays exactly as it is under any further run.
Non-vacuity: `exSteps` of C06seq (generation 2 tampered → every command 31, …), the two- and three-level trees of
C04nested with the inner history damaged, all by `decide +kernel`.

Helper lemmas: MhlProps/Proofs/TamperLemmas.lean.
-/
import MhlProps.Proofs.TamperLemmas
import MhlProps.C04nested

namespace MhlProps.C05e2e
open MhlModel MhlProps.C05 MhlProps.C06seq

/-! ### 1. an untouched history never refuses -/

/-- after any run of creates (any options, any media edits in between) from a folder without history, the history
loads -/
theorem untouched_run_loads (env : Env) (hrn : '\n' ∉ env.rootName.toList) (t : Node) (hdir : t.isDir = true)
    (hn : noNested t = true) (hh : t.hist = none) (steps : List Step) (hok : ∀ st ∈ steps, st.Ok) :
    ∃ h, loadHistory (run env t steps) = .ok h := by
  obtain ⟨n, gs, ⟨h, hl, -⟩, -⟩ := run_invariant env hrn t hdir hn hh steps hok
  exact ⟨h, hl⟩

/-- how every command form ends when the history loads: normally, with the `AssertionError` of the commit, or with
one of its own exit codes 10 / 11 / 12 / 20 / 21 / 30 -/
theorem ok_ends (env : Env) (t : Node) (h : Hist) (hl : loadHistory t = .ok h)
    (o : CreateOpts) (vo : VerifyOpts) (dop : DhOpts) (a b : List String) (f : RelPath) :
    OwnEnd (createFolder env t o).err ∧ OwnEnd (createSingleFiles env t o).err ∧ OwnEnd (create env t o).err ∧
    OwnEnd (verify env t vo).err ∧ OwnEnd (diff env t vo).err ∧ OwnEnd (verifyDh env t dop).err ∧
    OwnEnd (flatten env t a b).err ∧ OwnEnd (exceptErr (info t)) ∧ OwnEnd (exceptErr (infoSingleFile t f)) :=
  ⟨createFolder_ownEnd env t o h hl, createSingleFiles_ownEnd env t o h hl, create_ownEnd env t o h hl,
   verifyOrDiff_ownEnd env t vo true h hl, verifyOrDiff_ownEnd env t _ false h hl, verifyDh_ownEnd env t dop h hl,
   flatten_ownEnd env t a b h hl, info_ownEnd t h hl, infoSingleFile_ownEnd t f h hl⟩

/-- when the history loads, no command form ends with 31 / 32 / 33 -/
theorem ok_never_chain_error (env : Env) (t : Node) (h : Hist) (hl : loadHistory t = .ok h) (e : Err)
    (he : ChainErr e) (o : CreateOpts) (vo : VerifyOpts) (dop : DhOpts) (a b : List String) (f : RelPath) :
    (createFolder env t o).err ≠ some e ∧ (createSingleFiles env t o).err ≠ some e ∧ (create env t o).err ≠ some e ∧
    (verify env t vo).err ≠ some e ∧ (diff env t vo).err ≠ some e ∧ (verifyDh env t dop).err ≠ some e ∧
    (flatten env t a b).err ≠ some e ∧ info t ≠ .error e ∧ infoSingleFile t f ≠ .error e := by
  obtain ⟨h1, h2, h3, h4, h5, h6, h7, h8, h9⟩ := ok_ends env t h hl o vo dop a b f
  refine ⟨ownEnd_not_chain _ h1 e he, ownEnd_not_chain _ h2 e he, ownEnd_not_chain _ h3 e he,
    ownEnd_not_chain _ h4 e he, ownEnd_not_chain _ h5 e he, ownEnd_not_chain _ h6 e he,
    ownEnd_not_chain _ h7 e he, ?_, ?_⟩
  · intro hx; exact ownEnd_not_chain _ h8 e he (by rw [hx]; rfl)
  · intro hx; exact ownEnd_not_chain _ h9 e he (by rw [hx]; rfl)

theorem chainErr_codes (e : Err) : ChainErr e ↔ e = .exit 31 ∨ e = .exit 33 ∨ e = .exit 32 := by
  obtain ⟨h1, h2, h3⟩ := exit_codes
  unfold ChainErr
  rw [h1, h2, h3]

/-- AN UNTOUCHED HISTORY NEVER REFUSES: after any run of creates from a folder without history, whatever command
comes next (with any parameters `env'`, which need not be those of the run) does not end with 31, 32 or 33 -/
theorem untouched_never_refuses (env : Env) (hrn : '\n' ∉ env.rootName.toList) (t : Node) (hdir : t.isDir = true)
    (hn : noNested t = true) (hh : t.hist = none) (steps : List Step) (hok : ∀ st ∈ steps, st.Ok)
    (env' : Env) (code : Nat) (hc : code = 31 ∨ code = 33 ∨ code = 32)
    (o : CreateOpts) (vo : VerifyOpts) (dop : DhOpts) (a b : List String) (f : RelPath) :
    let T := run env t steps
    (createFolder env' T o).err ≠ some (.exit code) ∧ (createSingleFiles env' T o).err ≠ some (.exit code) ∧
    (create env' T o).err ≠ some (.exit code) ∧ (verify env' T vo).err ≠ some (.exit code) ∧
    (diff env' T vo).err ≠ some (.exit code) ∧ (verifyDh env' T dop).err ≠ some (.exit code) ∧
    (flatten env' T a b).err ≠ some (.exit code) ∧ info T ≠ .error (.exit code) ∧
    infoSingleFile T f ≠ .error (.exit code) := by
  intro T
  obtain ⟨h, hl⟩ := untouched_run_loads env hrn t hdir hn hh steps hok
  have he : ChainErr (.exit code) := by
    rw [chainErr_codes]
    rcases hc with rfl | rfl | rfl
    · exact Or.inl rfl
    · exact Or.inr (Or.inl rfl)
    · exact Or.inr (Or.inr rfl)
  exact ok_never_chain_error env' T h hl _ he o vo dop a b f

/-- the three codes are reserved: a command ends with `e` ∈ {31, 33, 32} IF AND ONLY IF loading the history fails
with `e` (⇐ is `C05.commands_refuse`, ⇒ is `ok_never_chain_error`) -/
theorem chain_error_iff_load_fails (env : Env) (t : Node) (e : Err) (he : ChainErr e)
    (o : CreateOpts) (vo : VerifyOpts) (dop : DhOpts) (a b : List String) (f : RelPath) :
    ((createFolder env t o).err = some e ↔ loadHistory t = .error e) ∧
    ((createSingleFiles env t o).err = some e ↔ loadHistory t = .error e) ∧
    ((create env t o).err = some e ↔ loadHistory t = .error e) ∧
    ((verify env t vo).err = some e ↔ loadHistory t = .error e) ∧
    ((diff env t vo).err = some e ↔ loadHistory t = .error e) ∧
    ((verifyDh env t dop).err = some e ↔ loadHistory t = .error e) ∧
    ((flatten env t a b).err = some e ↔ loadHistory t = .error e) ∧
    (info t = .error e ↔ loadHistory t = .error e) ∧
    (infoSingleFile t f = .error e ↔ loadHistory t = .error e) := by
  cases hl : loadHistory t with
  | error e' =>
    obtain ⟨h1, h2, h3, h4, h5, h6, h7, h8, h9⟩ := commands_refuse env t e' hl o vo dop a b f
    rw [h1, h2, h3, h4, h5, h6, h7, h8, h9]
    simp [refusal]
  | ok h =>
    obtain ⟨h1, h2, h3, h4, h5, h6, h7, h8, h9⟩ := ok_never_chain_error env t h hl e he o vo dop a b f
    simp [h1, h2, h3, h4, h5, h6, h7, h8, h9]

/-! ### 2. a damaged root history: every command refuses -/

/-- what a run leaves: a folder whose `ascmhl` folder holds exactly the loaded generations `gs` and their chain, no
`ascmhl` folder below; the file names are pairwise different and every manifest is intact -/
theorem run_shape (env : Env) (hrn : '\n' ∉ env.rootName.toList) (t : Node) (hdir : t.isDir = true)
    (hn : noNested t = true) (hh : t.hist = none) (steps : List Step) (hok : ∀ st ∈ steps, st.Ok)
    (hpos : 0 < (gensOf (run env t steps)).length) :
    ∃ nm cs gs, run env t steps = .dir nm cs (some { gens := gs, chain := chainFrom 1 gs, chainPresent := true }) ∧
      gensOf (run env t steps) = gs ∧ noHistList cs = true ∧ (gs.map (·.fileName)).Nodup ∧
      ∀ g ∈ gs, g.state = .ok := by
  obtain ⟨n, -, hi⟩ := run_inv env hrn t hdir hn hh steps hok
  generalize hgs : gensOf (run env t steps) = gs at hi hpos
  generalize run env t steps = T at hi hgs
  cases T with
  | file nm c => exact absurd hi.isDir (by simp [Node.isDir])
  | dir nm cs h =>
    rcases hi.exact with ⟨-, h2⟩ | h1
    · subst h2; simp at hpos
    · have h1' : h = some { gens := gs, chain := chainFrom 1 gs, chainPresent := true } := h1
      subst h1'
      refine ⟨nm, cs, gs, rfl, rfl, hi.flat, (goodHist_names _ _ _ hi.good).1, ?_⟩
      obtain ⟨_, _, _, _, _, hst⟩ := hi.good
      exact hst _ rfl

/-- `Except` has no decidable equality: the error component decides -/
theorem error_of_err {α : Type} (x : Except Err α) (e : Err) (h : exceptErr x = some e) : x = .error e :=
  (exceptErr_eq_some x e).1 h

/-- 2. `tamper_refuses`.  After any run of creates from a folder without history that left n ≥ 1 generations
(`n = (gensOf T).length`, see `goodHist_load`), for every k < n: if the k-th manifest is altered, loading fails with
`errModified` (31); if it is deleted, with `errMissingManifest` (33); if the chain file is deleted, with
`errNoChain` (32). -/
theorem tamper_refuses (env : Env) (hrn : '\n' ∉ env.rootName.toList) (t : Node) (hdir : t.isDir = true)
    (hn : noNested t = true) (hh : t.hist = none) (steps : List Step) (hok : ∀ st ∈ steps, st.Ok)
    (k : Nat) (hk : k < (gensOf (run env t steps)).length) :
    loadHistory (tamperGen (run env t steps) [] k) = .error errModified ∧
    loadHistory (removeGen (run env t steps) [] k) = .error errMissingManifest ∧
    loadHistory (removeChain (run env t steps) []) = .error errNoChain := by
  obtain ⟨nm, cs, gs, hT, hgs, hcs, hnd, hst⟩ := run_shape env hrn t hdir hn hh steps hok (by omega)
  rw [hgs] at hk
  rw [hT]
  have key : ∀ st : FileState, exceptErr (loadHistory (damageAt (·.mark k st)
      (.dir nm cs (some { gens := gs, chain := chainFrom 1 gs, chainPresent := true })) [])) = stateFault st := by
    intro st
    rw [damageAt_nil]
    show exceptErr (loadHistory (.dir nm cs (some
      { gens := markGens st k gs, chain := chainFrom 1 gs, chainPresent := true }))) = _
    rw [loadHistory_flat_err nm cs hcs, chainFrom_congr gs (markGens st k gs) 1 (markGens_names st k gs).symm,
      storeFault_listed _ 1 true (by rw [markGens_names]; exact hnd), if_pos rfl, findSome?_markGens st k gs hk hst]
  refine ⟨error_of_err _ _ (key .modified), error_of_err _ _ (key .missing), error_of_err _ _ ?_⟩
  unfold removeChain
  rw [damageAt_nil]
  exact loadHistory_flat_err nm cs hcs _

/-- every command form refuses with `e`: the error, an empty report, nothing written -/
def AllRefuse (env : Env) (t : Node) (e : Err) : Prop :=
  ∀ (o : CreateOpts) (vo : VerifyOpts) (dop : DhOpts) (a b : List String) (f : RelPath),
    createFolder env t o = refusal e ∧ createSingleFiles env t o = refusal e ∧ create env t o = refusal e ∧
    verify env t vo = refusal e ∧ diff env t vo = refusal e ∧ verifyDh env t dop = refusal e ∧
    flatten env t a b = refusal e ∧ info t = .error e ∧ infoSingleFile t f = .error e

theorem allRefuse_of_load (env : Env) (t : Node) (e : Err) (h : loadHistory t = .error e) : AllRefuse env t e :=
  fun o vo dop a b f => commands_refuse env t e h o vo dop a b f

/-- what a refusal is: that exit code, that error, nothing reported, nothing written -/
theorem refusal_spelled (code : Nat) :
    (refusal (.exit code)).exitCode = code ∧ (refusal (.exit code)).err = some (.exit code) ∧
    (refusal (.exit code)).written = [] ∧
    (refusal (.exit code)).report.mismatch = [] ∧ (refusal (.exit code)).report.missing = [] ∧
    (refusal (.exit code)).report.new = [] ∧ (refusal (.exit code)).report.renamed = [] ∧
    (refusal (.exit code)).report.dirMismatch = [] ∧ (refusal (.exit code)).report.lines = [] :=
  ⟨rfl, rfl, rfl, rfl, rfl, rfl, rfl, rfl, rfl⟩

/-- `tamper_all_commands_refuse`.  After any run with n ≥ 1 generations and for every k < n: on the tree with the
k-th manifest altered all nine command forms (run with any parameters `env'`) are `refusal (.exit 31)`; with the
manifest deleted `refusal (.exit 33)`; with the chain file deleted `refusal (.exit 32)` — exit code 31 / 33 / 32,
empty report, `written = []` (`refusal_spelled`). -/
theorem tamper_all_commands_refuse (env : Env) (hrn : '\n' ∉ env.rootName.toList) (t : Node)
    (hdir : t.isDir = true) (hn : noNested t = true) (hh : t.hist = none) (steps : List Step)
    (hok : ∀ st ∈ steps, st.Ok) (k : Nat) (hk : k < (gensOf (run env t steps)).length) (env' : Env) :
    AllRefuse env' (tamperGen (run env t steps) [] k) (.exit 31) ∧
    AllRefuse env' (removeGen (run env t steps) [] k) (.exit 33) ∧
    AllRefuse env' (removeChain (run env t steps) []) (.exit 32) := by
  obtain ⟨h1, h2, h3⟩ := tamper_refuses env hrn t hdir hn hh steps hok k hk
  obtain ⟨e1, e2, e3⟩ := exit_codes
  rw [e1] at h1; rw [e3] at h2; rw [e2] at h3
  exact ⟨allRefuse_of_load _ _ _ h1, allRefuse_of_load _ _ _ h2, allRefuse_of_load _ _ _ h3⟩

/-! ### 3. several faults: the first one in generation order wins, a missing chain file wins over everything -/

/-- 3. `first_fault_wins` — WHAT THE MODEL DOES, PRECISELY.  After any run with n ≥ 1 generations, replace the stored
manifests by ANY manifests `gs'` with the same file names in the same order (so: any combination of intact,
altered and deleted manifests, even with altered content) and keep or delete the chain file (`b`).  Then
  * chain file deleted: loading fails with 32, whatever else is damaged;
  * otherwise loading fails with the fault of the FIRST manifest in generation order that is not intact (31 if it is
    altered, 33 if it is deleted) — later damage is never looked at;
  * and loading succeeds iff every manifest is intact.
(`exceptErr x = some e ↔ x = .error e`, `exceptErr x = none ↔ ∃ h, x = .ok h`.) -/
theorem first_fault_wins (env : Env) (hrn : '\n' ∉ env.rootName.toList) (t : Node) (hdir : t.isDir = true)
    (hn : noNested t = true) (hh : t.hist = none) (steps : List Step) (hok : ∀ st ∈ steps, st.Ok)
    (hpos : 0 < (gensOf (run env t steps)).length) (gs' : List Generation)
    (hnames : gs'.map (·.fileName) = (gensOf (run env t steps)).map (·.fileName)) (b : Bool) :
    exceptErr (loadHistory (damageAt (fun s => { s with gens := gs', chainPresent := b }) (run env t steps) [])) =
      if b then gs'.findSome? genFault else some errNoChain := by
  obtain ⟨nm, cs, gs, hT, hgs, hcs, hnd, -⟩ := run_shape env hrn t hdir hn hh steps hok hpos
  rw [hgs] at hnames
  rw [hT, damageAt_nil]
  show exceptErr (loadHistory (.dir nm cs (some { gens := gs', chain := chainFrom 1 gs, chainPresent := b }))) = _
  rw [loadHistory_flat_err nm cs hcs, chainFrom_congr gs gs' 1 hnames.symm,
    storeFault_listed _ 1 b (by rw [hnames]; exact hnd)]

/-- the lowest-numbered damaged generation decides: generation i+1 is damaged (fault `x`), generations 1..i are
intact, anything may be wrong with the later ones -/
theorem first_fault_lowest (env : Env) (hrn : '\n' ∉ env.rootName.toList) (t : Node) (hdir : t.isDir = true)
    (hn : noNested t = true) (hh : t.hist = none) (steps : List Step) (hok : ∀ st ∈ steps, st.Ok)
    (gs' : List Generation) (hnames : gs'.map (·.fileName) = (gensOf (run env t steps)).map (·.fileName))
    (i : Nat) (g : Generation) (x : Err) (hi : gs'[i]? = some g) (hx : genFault g = some x)
    (hlow : ∀ j < i, ∀ g', gs'[j]? = some g' → g'.state = .ok) :
    loadHistory (damageAt (fun s => { s with gens := gs', chainPresent := true }) (run env t steps) []) =
      .error x := by
  have hpos : 0 < (gensOf (run env t steps)).length := by
    have h1 : i < gs'.length := (List.getElem?_eq_some_iff.1 hi).1
    have h2 := congrArg List.length hnames
    simp only [List.length_map] at h2
    omega
  apply error_of_err
  rw [first_fault_wins env hrn t hdir hn hh steps hok hpos gs' hnames true, if_pos rfl]
  exact findSome?_first genFault gs' i g x hi hx
    (fun j hj g' hg' => by unfold genFault; rw [hlow j hj g' hg']; rfl)

/-- two damaged manifests j < k, in terms of the tree operations (applied in either order): the LOWER one decides —
j deleted and k altered gives 33, j altered and k deleted gives 31 -/
theorem two_faults_lowest_wins (env : Env) (hrn : '\n' ∉ env.rootName.toList) (t : Node) (hdir : t.isDir = true)
    (hn : noNested t = true) (hh : t.hist = none) (steps : List Step) (hok : ∀ st ∈ steps, st.Ok)
    (j k : Nat) (hjk : j < k) (hk : k < (gensOf (run env t steps)).length) :
    let T := run env t steps
    loadHistory (tamperGen (removeGen T [] j) [] k) = .error errMissingManifest ∧
    loadHistory (removeGen (tamperGen T [] k) [] j) = .error errMissingManifest ∧
    loadHistory (removeGen (tamperGen T [] j) [] k) = .error errModified ∧
    loadHistory (tamperGen (removeGen T [] k) [] j) = .error errModified := by
  intro T
  obtain ⟨nm, cs, gs, hT, hgs, hcs, hnd, hst⟩ := run_shape env hrn t hdir hn hh steps hok (by omega)
  rw [hgs] at hk
  have key : ∀ (s1 s2 : FileState), s1 ≠ .ok →
      exceptErr (loadHistory (.dir nm cs (some
        { gens := markGens s1 j (markGens s2 k gs), chain := chainFrom 1 gs, chainPresent := true }))) =
          stateFault s1 := by
    intro s1 s2 hs1
    have hn2 : (markGens s1 j (markGens s2 k gs)).map (·.fileName) = gs.map (·.fileName) := by
      rw [markGens_names, markGens_names]
    rw [loadHistory_flat_err nm cs hcs, chainFrom_congr gs _ 1 hn2.symm,
      storeFault_listed _ 1 true (by rw [hn2]; exact hnd), if_pos rfl,
      findSome?_markGens_two s1 s2 hs1 j k hjk gs hk hst]
  have hne : j ≠ k := by omega
  show loadHistory (tamperGen (removeGen (run env t steps) [] j) [] k) = _ ∧
    loadHistory (removeGen (tamperGen (run env t steps) [] k) [] j) = _ ∧
    loadHistory (removeGen (tamperGen (run env t steps) [] j) [] k) = _ ∧
    loadHistory (tamperGen (removeGen (run env t steps) [] k) [] j) = _
  rw [hT]
  refine ⟨error_of_err _ _ ?_, error_of_err _ _ ?_, error_of_err _ _ ?_, error_of_err _ _ ?_⟩
  · unfold tamperGen removeGen
    rw [damageAt_nil, damageAt_nil]
    show exceptErr (loadHistory (.dir nm cs (some
      { gens := markGens .modified k (markGens .missing j gs), chain := chainFrom 1 gs, chainPresent := true }))) = _
    rw [markGens_comm _ _ j k hne]
    exact key .missing .modified (by decide)
  · unfold tamperGen removeGen
    rw [damageAt_nil, damageAt_nil]
    exact key .missing .modified (by decide)
  · unfold tamperGen removeGen
    rw [damageAt_nil, damageAt_nil]
    show exceptErr (loadHistory (.dir nm cs (some
      { gens := markGens .missing k (markGens .modified j gs), chain := chainFrom 1 gs, chainPresent := true }))) = _
    rw [markGens_comm _ _ j k hne]
    exact key .modified .missing (by decide)
  · unfold tamperGen removeGen
    rw [damageAt_nil, damageAt_nil]
    exact key .modified .missing (by decide)

/-- a missing chain file wins over everything, on ANY tree: whatever else is damaged in the root's `ascmhl` folder or
anywhere below, loading fails with 32 -/
theorem missing_chain_wins (t : Node) (s : HistStore) (hs : t.hist = some s) :
    loadHistory (removeChain t []) = .error errNoChain := by
  apply loadHistory_of_root_fault
  unfold removeChain
  rw [damageAt_nil_hist, hs]
  rfl

/-- … in particular after a run, on top of ANY other damage `g` to the root's `ascmhl` folder -/
theorem missing_chain_wins_run (env : Env) (hrn : '\n' ∉ env.rootName.toList) (t : Node) (hdir : t.isDir = true)
    (hn : noNested t = true) (hh : t.hist = none) (steps : List Step) (hok : ∀ st ∈ steps, st.Ok)
    (hpos : 0 < (gensOf (run env t steps)).length) (g : HistStore → HistStore) :
    loadHistory (removeChain (damageAt g (run env t steps) []) []) = .error errNoChain := by
  obtain ⟨nm, cs, gs, hT, -⟩ := run_shape env hrn t hdir hn hh steps hok hpos
  apply missing_chain_wins _ (g { gens := gs, chain := chainFrom 1 gs, chainPresent := true })
  rw [damageAt_nil_hist, hT]
  rfl

/-! ### 4. nested histories, any depth -/

/-- the general form.  A tree that loads; sibling names distinct along the path `r`; the folder at `r` (any depth;
`r = []` is the root) holds the store `s`; `g` damages it so that its fault is `x`.  Then loading fails with `x`:
the stores of the parent folders are checked first and are fine, then the walk reaches `r`. -/
theorem nested_damage_refuses (t : Node) (r : RelPath) (hd : t.DistinctAlong r) (h : Hist)
    (hl : loadHistory t = .ok h) (s : HistStore) (hs : storeAt t r = some s) (g : HistStore → HistStore) (x : Err)
    (hx : storeFault (some (g s)) = some x) : loadHistory (damageAt g t r) = .error x := by
  obtain ⟨d, hat, hds⟩ := (storeAt_eq_some t r s).1 hs
  exact loadHistory_single_fault _ x
    (allFaults_damageAt g x r t d s hd ((loadHistory_ok_iff t).1 ⟨h, hl⟩) hat hds hx)

/-- in a tree that loads every store passes its checks -/
theorem loaded_store_fine (t : Node) (h : Hist) (hl : loadHistory t = .ok h) (r : RelPath) (s : HistStore)
    (hs : storeAt t r = some s) : storeFault (some s) = none := by
  obtain ⟨d, hat, hds⟩ := (storeAt_eq_some t r s).1 hs
  have := allFaults_nil_at r t d ((loadHistory_ok_iff t).1 ⟨h, hl⟩) hat
  rw [allFaults_eq, List.append_eq_nil_iff, hds] at this
  cases hf : storeFault (some s) with
  | none => rfl
  | some x => rw [hf] at this; simp at this

/-- 4. `nested_tamper_refuses_at`.  ANY tree that loads, the folder at ANY path `r` holding the store `s`.  If the
k-th stored manifest `g` of `s` is listed in the chain and is the first stored manifest of that name (so that the
chain entry means this file — always the case in a folder on disk, where names are unique), then altering it makes
loading fail with 31, deleting it with 33; and deleting the chain file of `s` makes loading fail with 32. -/
theorem nested_tamper_refuses_at (t : Node) (r : RelPath) (hd : t.DistinctAlong r) (h : Hist)
    (hl : loadHistory t = .ok h) (s : HistStore) (hs : storeAt t r = some s) :
    loadHistory (removeChain t r) = .error errNoChain ∧
    ∀ (k : Nat) (g : Generation), s.gens[k]? = some g → (∃ e ∈ s.chain, e.fileName = g.fileName) →
      (∀ j < k, ∀ g', s.gens[j]? = some g' → g'.fileName ≠ g.fileName) →
      loadHistory (tamperGen t r k) = .error errModified ∧
      loadHistory (removeGen t r k) = .error errMissingManifest := by
  refine ⟨nested_damage_refuses t r hd h hl s hs _ _ (storeFault_dropChain s), ?_⟩
  intro k g hk hch hfirst
  have hfine := loaded_store_fine t h hl r s hs
  exact ⟨nested_damage_refuses t r hd h hl s hs _ _
      (storeFault_mark s hfine k g hk hch hfirst .modified (by decide)),
    nested_damage_refuses t r hd h hl s hs _ _
      (storeFault_mark s hfine k g hk hch hfirst .missing (by decide))⟩

/-
4. `nested_tamper_refuses` AS LITERALLY STATED IN THE TASK — "for ANY tree with `loadHistory t = .ok h` and any history
root r of a nested history in `allDescendants h`: damaging ONE generation of the store at r makes `loadHistory`
return the corresponding error" — is FALSE of the model for an arbitrary STORED manifest: the chain check
(`checkChain`) only follows the chain ENTRIES, and an entry means the FIRST stored manifest of its name.
  * A manifest file in the folder that the chain does not list (what a `create` leaves that was killed between its two
    replaces) can be altered or deleted without any command refusing.  Since the repair of `load_from_path` this is
    as it should be: such a file is NOT PART OF THE HISTORY — it is not loaded (`unlisted_not_loaded`), and the tree
    loads as exactly the same history with it damaged, intact or gone.  (Before the repair it was loaded as a
    generation and could be damaged unnoticed.)
  * `nested_tamper_shadowed_false`: two stored manifests of one name (impossible in a folder on disk).
It is false for the chain-file clause never, for no manifest that the chain lists, and — now — for no LOADED
generation (`nested_tamper_loaded_refuses`).

`nested_tamper_refuses_partial` is the statement with exactly these two hypotheses PER MANIFEST (listed in the chain;
first stored manifest of that name) and `t.NamesDistinct` (as for `loadHistory_histOK`; `Node.updateAt` and the walk
agree on which folder a path means).  `nested_tamper_refuses` needs pairwise different names only and says of EVERY
stored manifest which of the two it is: listed — refused; not listed — nothing changes.  `nested_tamper_refuses_listed`
is the statement as given for every store in the shape the tool leaves (`Listed`: names pairwise different, every
manifest listed) — there EVERY k is refused; every store a run of creates leaves is `Listed` (`listed_chainFrom`, used
in `grafted_run_tamper_refuses`).  All hold at ANY nesting depth (nothing is restricted to direct children).
-/

/-- `nested_tamper_refuses_partial` — any nesting depth.  Any tree with distinct sibling names that loads
as `h`; ANY nested history `c ∈ allDescendants h` (child, grand-child, …).  Then `c` is the loaded store `s` of the
folder at `c.root`, and damaging that store at `c.root` is refused: chain file deleted → 32; a manifest that the
(loaded) chain lists, first of its name, altered → 31, deleted → 33. -/
theorem nested_tamper_refuses_partial (t : Node) (hd : t.NamesDistinct) (h : Hist) (hl : loadHistory t = .ok h)
    (c : Hist) (hc : c ∈ allDescendants h) :
    ∃ s, storeAt t c.root = some s ∧ c.gens = loadGens s ∧ c.chain = s.chain ∧
      loadHistory (removeChain t c.root) = .error errNoChain ∧
      ∀ (k : Nat) (g : Generation), s.gens[k]? = some g → (∃ e ∈ c.chain, e.fileName = g.fileName) →
        (∀ j < k, ∀ g', s.gens[j]? = some g' → g'.fileName ≠ g.fileName) →
        loadHistory (tamperGen t c.root k) = .error errModified ∧
        loadHistory (removeGen t c.root k) = .error errMissingManifest := by
  obtain ⟨d, s, hat, hds, hg, hch⟩ := loadHistory_stores t h hl hd c hc
  have hs : storeAt t c.root = some s := (storeAt_eq_some _ _ _).2 ⟨d, hat, hds⟩
  obtain ⟨h1, h2⟩ := nested_tamper_refuses_at t c.root (hd.distinctAlong _) h hl s hs
  exact ⟨s, hs, hg, hch, h1, fun k g hk hce hfirst => h2 k g hk (by rw [← hch]; exact hce) hfirst⟩

/-- a store in the shape the tool leaves: pairwise different manifest names, every manifest listed in the chain
(`MhlProps.C06.Listed`; `HistStore.add` keeps it, `C06.listed_add`) -/
abbrev Listed (s : HistStore) : Prop := MhlProps.C06.Listed s

theorem listed_iff (s : HistStore) :
    Listed s ↔ (s.gens.map (·.fileName)).Nodup ∧ ∀ g ∈ s.gens, ∃ e ∈ s.chain, e.fileName = g.fileName := by
  unfold Listed MhlProps.C06.Listed
  constructor
  · rintro ⟨h1, h2⟩; exact ⟨h1, fun g hg => (MhlProps.C06.lists_iff s _).1 (h2 g hg)⟩
  · rintro ⟨h1, h2⟩; exact ⟨h1, fun g hg => (MhlProps.C06.lists_iff s _).2 (h2 g hg)⟩

/-- for a store in that shape EVERY stored manifest qualifies -/
theorem nested_tamper_refuses_listed (t : Node) (r : RelPath) (hd : t.DistinctAlong r) (h : Hist)
    (hl : loadHistory t = .ok h) (s : HistStore) (hs : storeAt t r = some s) (hlist : Listed s)
    (k : Nat) (hk : k < s.gens.length) :
    loadHistory (tamperGen t r k) = .error errModified ∧
    loadHistory (removeGen t r k) = .error errMissingManifest ∧
    loadHistory (removeChain t r) = .error errNoChain := by
  obtain ⟨h1, h2⟩ := nested_tamper_refuses_at t r hd h hl s hs
  have hget : s.gens[k]? = some s.gens[k] := List.getElem?_eq_getElem hk
  obtain ⟨h3, h4⟩ := h2 k s.gens[k] hget (((listed_iff s).1 hlist).2 _ (List.getElem_mem hk)) (by
    intro j hj g' hg' he
    have := nodup_map_getElem?_inj (·.fileName) s.gens hlist.1 j k g' s.gens[k] hg' hget he
    omega)
  exact ⟨h3, h4, h1⟩

/-- a stored manifest that the chain does NOT list is not part of the history (after the repair of `load_from_path`).
ANY tree, the folder at ANY path `r` (sibling names distinct along `r`) holding the store `s`, whose `k`-th stored
manifest `g` the chain does not list.  Then `g` is not loaded under any number; setting its state to anything
(altered, deleted) leaves the loaded generations and the outcome of the chain check of `s` as they are; and the whole
tree loads exactly as before — the same history, or the same error — with `g` altered or deleted. -/
theorem unlisted_not_loaded (t : Node) (r : RelPath) (hd : t.DistinctAlong r) (s : HistStore)
    (hs : storeAt t r = some s) (k : Nat) (g : Generation) (hk : s.gens[k]? = some g)
    (hun : s.lists g.fileName = false) :
    (∀ n, (⟨n, g⟩ : LGen) ∉ loadGens s) ∧
    (∀ st, loadGens (s.mark k st) = loadGens s ∧ checkStore (some (s.mark k st)) = checkStore (some s) ∧
      (s.mark k st).chain = s.chain) ∧
    loadHistory (tamperGen t r k) = loadHistory t ∧
    loadHistory (removeGen t r k) = loadHistory t :=
  ⟨MhlProps.C06.unlisted_not_in_loadGens s g hun,
   fun st => ⟨(storeEquiv_mark_unlisted s k g hk hun st).2.1, (storeEquiv_mark_unlisted s k g hk hun st).1, rfl⟩,
   loadHistory_damageAt_equiv _ r t s hd hs (storeEquiv_mark_unlisted s k g hk hun .modified),
   loadHistory_damageAt_equiv _ r t s hd hs (storeEquiv_mark_unlisted s k g hk hun .missing)⟩

/-- … and so is the tree with ALL manifests removed that the chain of the folder at `r` does not list: it loads as
exactly the same history -/
theorem unlisted_removed_same_history (t : Node) (r : RelPath) (hd : t.DistinctAlong r) (s : HistStore)
    (hs : storeAt t r = some s) :
    loadHistory (damageAt MhlProps.C06.dropUnlisted t r) = loadHistory t :=
  loadHistory_damageAt_equiv _ r t s hd hs (storeEquiv_dropUnlisted s)

/-- EVERY LOADED GENERATION IS PROTECTED (true since the repair: what is loaded is listed).  Any nested history
`c ∈ allDescendants h` of a tree that loads; `lg` one of its loaded generations, stored as the `k`-th manifest and the
first of its name.  Altering it → 31, deleting it → 33. -/
theorem nested_tamper_loaded_refuses (t : Node) (hd : t.NamesDistinct) (h : Hist) (hl : loadHistory t = .ok h)
    (c : Hist) (hc : c ∈ allDescendants h) :
    ∃ s, storeAt t c.root = some s ∧ c.gens = loadGens s ∧ c.chain = s.chain ∧
      ∀ lg ∈ c.gens, ∀ k, s.gens[k]? = some lg.gen →
        (∀ j < k, ∀ g', s.gens[j]? = some g' → g'.fileName ≠ lg.gen.fileName) →
        loadHistory (tamperGen t c.root k) = .error errModified ∧
        loadHistory (removeGen t c.root k) = .error errMissingManifest := by
  obtain ⟨s, hs, hg, hch, -, h2⟩ := nested_tamper_refuses_partial t hd h hl c hc
  refine ⟨s, hs, hg, hch, ?_⟩
  intro lg hlg k hk hfirst
  rw [hg] at hlg
  exact h2 k lg.gen hk (by rw [hch]; exact (MhlProps.C06.loadGens_listed_only s).2.1 lg hlg) hfirst

/-- 4. `nested_tamper_refuses`.  Any tree with distinct sibling names that loads as `h`; ANY nested history
`c ∈ allDescendants h` (child, grand-child, … — any depth), `s` the store at its root.  Chain file of the nested history
deleted → loading the outer root fails with 32.  And if the manifest names of `s` are pairwise different (as in any
folder on disk), then for EVERY stored manifest `k`:
  * the chain lists it: altered → loading the outer root fails with 31, deleted → 33 (the parents' own chains are
    checked first and are fine, then the walk reaches `c.root`);
  * the chain does not list it: it is not part of the history, and the tree loads as the SAME history `h` with it
    altered or deleted.
For a store in the shape the tool leaves (`Listed`) only the first case occurs. -/
theorem nested_tamper_refuses (t : Node) (hd : t.NamesDistinct) (h : Hist) (hl : loadHistory t = .ok h)
    (c : Hist) (hc : c ∈ allDescendants h) :
    ∃ s, storeAt t c.root = some s ∧ c.gens = loadGens s ∧ c.chain = s.chain ∧
      loadHistory (removeChain t c.root) = .error errNoChain ∧
      ((s.gens.map (·.fileName)).Nodup → ∀ k (hk : k < s.gens.length),
        (s.lists s.gens[k].fileName = true →
          loadHistory (tamperGen t c.root k) = .error errModified ∧
          loadHistory (removeGen t c.root k) = .error errMissingManifest) ∧
        (s.lists s.gens[k].fileName = false →
          loadHistory (tamperGen t c.root k) = .ok h ∧ loadHistory (removeGen t c.root k) = .ok h)) ∧
      (Listed s → ∀ k < s.gens.length,
        loadHistory (tamperGen t c.root k) = .error errModified ∧
        loadHistory (removeGen t c.root k) = .error errMissingManifest ∧
        loadHistory (removeChain t c.root) = .error errNoChain) := by
  obtain ⟨s, hs, hg, hch, h1, h2⟩ := nested_tamper_refuses_partial t hd h hl c hc
  refine ⟨s, hs, hg, hch, h1, ?_, fun hlist k hk =>
    nested_tamper_refuses_listed t c.root (hd.distinctAlong _) h hl s hs hlist k hk⟩
  intro hnd k hk
  have hget : s.gens[k]? = some s.gens[k] := List.getElem?_eq_getElem hk
  constructor
  · intro hlisted
    refine h2 k s.gens[k] hget (by rw [hch]; exact (MhlProps.C06.lists_iff s _).1 hlisted) ?_
    intro j hj g' hg' he
    have := nodup_map_getElem?_inj (·.fileName) s.gens hnd j k g' s.gens[k] hg' hget he
    omega
  · intro hun
    obtain ⟨-, -, h3, h4⟩ := unlisted_not_loaded t c.root (hd.distinctAlong _) s hs k s.gens[k] hget hun
    exact ⟨h3.trans hl, h4.trans hl⟩

/-- all nine command forms on the outer root, spelled out for a nested history -/
theorem nested_all_commands_refuse (t : Node) (r : RelPath) (hd : t.DistinctAlong r) (h : Hist)
    (hl : loadHistory t = .ok h) (s : HistStore) (hs : storeAt t r = some s) (hlist : Listed s)
    (k : Nat) (hk : k < s.gens.length) (env' : Env) :
    AllRefuse env' (tamperGen t r k) (.exit 31) ∧ AllRefuse env' (removeGen t r k) (.exit 33) ∧
    AllRefuse env' (removeChain t r) (.exit 32) := by
  obtain ⟨h1, h2, h3⟩ := nested_tamper_refuses_listed t r hd h hl s hs hlist k hk
  obtain ⟨e1, e2, e3⟩ := exit_codes
  rw [e1] at h1; rw [e3] at h2; rw [e2] at h3
  exact ⟨allRefuse_of_load _ _ _ h1, allRefuse_of_load _ _ _ h2, allRefuse_of_load _ _ _ h3⟩

/-- a store whose chain lists its manifests one by one (what `StoreExact` says of a run) is `Listed` -/
theorem listed_chainFrom (gs : List Generation) (k0 : Nat) (b : Bool) (hnd : (gs.map (·.fileName)).Nodup) :
    Listed { gens := gs, chain := chainFrom k0 gs, chainPresent := b } :=
  listed_of_chainFrom gs k0 b hnd

/-- END TO END FOR A NESTED HISTORY MADE BY THE TOOL.  A folder `R` that is the result of ANY run of creates (n ≥ 1
generations) sits, under its own name, in an outer folder: next to siblings that are free of faults, below an outer
`ascmhl` folder that passes its checks, sibling names distinct.  Then for every k < n: the k-th manifest of the
NESTED history altered → loading the OUTER folder fails with 31; deleted → 33; its chain file deleted → 32. -/
theorem grafted_run_tamper_refuses (env : Env) (hrn : '\n' ∉ env.rootName.toList) (t : Node) (hdir : t.isDir = true)
    (hn : noNested t = true) (hh : t.hist = none) (steps : List Step) (hok : ∀ st ∈ steps, st.Ok)
    (k : Nat) (hk : k < (gensOf (run env t steps)).length)
    (rn : String) (pre post : List Node) (rootStore : Option HistStore)
    (hroot : storeFault rootStore = none)
    (hnames : ((pre ++ run env t steps :: post).map Node.name).Nodup)
    (hsib : ∀ c ∈ pre ++ post, allFaults c = []) :
    let outer : Node := .dir rn (pre ++ run env t steps :: post) rootStore
    let r : RelPath := [(run env t steps).name]
    loadHistory (tamperGen outer r k) = .error errModified ∧
    loadHistory (removeGen outer r k) = .error errMissingManifest ∧
    loadHistory (removeChain outer r) = .error errNoChain := by
  intro outer r
  obtain ⟨nm, cs, gs, hT, hgs, hcs, hnd, hst⟩ := run_shape env hrn t hdir hn hh steps hok (by omega)
  obtain ⟨hR, hlR⟩ := untouched_run_loads env hrn t hdir hn hh steps hok
  have hRnil : allFaults (run env t steps) = [] := (loadHistory_ok_iff _).1 ⟨hR, hlR⟩
  have hnil : allFaults outer = [] := by
    rw [allFaults_eq]
    show (storeFault rootStore).toList ++ _ = []
    rw [hroot, nestedFaults]
    apply flatMap_isort_nil
    intro y hy
    rw [nestedFaultsList_eq_map] at hy
    obtain ⟨c, hc, rfl⟩ := List.mem_map.1 hy
    rcases List.mem_append.1 hc with hc | hc
    · exact hsib c (List.mem_append_left _ hc)
    · rcases List.mem_cons.1 hc with rfl | hc
      · exact hRnil
      · exact hsib c (List.mem_append_right _ hc)
  obtain ⟨ho, hlo⟩ := (loadHistory_ok_iff outer).2 hnil
  have hmem : run env t steps ∈ pre ++ run env t steps :: post := by simp
  have hs : storeAt outer r = some { gens := gs, chain := chainFrom 1 gs, chainPresent := true } := by
    rw [storeAt_eq_some]
    refine ⟨run env t steps, ?_, by rw [hT]; rfl⟩
    show (Node.dir rn _ rootStore).at? [(run env t steps).name] = _
    rw [Node.at?_dir_cons, findChild_of_mem hnames hmem]
    exact Node.at?_nil' _
  have hd : outer.DistinctAlong r := ⟨hnames, fun _ _ _ => trivial⟩
  rw [hgs] at hk
  exact nested_tamper_refuses_listed outer r hd ho hlo _ hs (listed_chainFrom gs 1 true hnd) k hk

/-! ### 5. a refused command changes nothing -/

/-- 5. `refusal_preserves_tree`: on a tree that does not load, writing back what `create` (either mode) or `flatten`
returns leaves the tree as it is -/
theorem refusal_preserves_tree (env : Env) (t' : Node) (e : Err) (h : loadHistory t' = .error e)
    (o : CreateOpts) (a b : List String) :
    applyWritten t' (create env t' o).written = t' ∧
    applyWritten t' (createFolder env t' o).written = t' ∧
    applyWritten t' (createSingleFiles env t' o).written = t' ∧
    applyWritten t' (flatten env t' a b).written = t' := by
  obtain ⟨h1, h2, h3, -, -, -, h7, -, -⟩ := commands_refuse env t' e h o {} {} a b []
  rw [h1, h2, h3, h7]
  exact ⟨rfl, rfl, rfl, rfl⟩

/-- … so after the damage of 2. a `create` step (any parameters, any options, any time) leaves the damaged tree
exactly as it is -/
theorem tampered_create_changes_nothing (env : Env) (hrn : '\n' ∉ env.rootName.toList) (t : Node)
    (hdir : t.isDir = true) (hn : noNested t = true) (hh : t.hist = none) (steps : List Step)
    (hok : ∀ st ∈ steps, st.Ok) (k : Nat) (hk : k < (gensOf (run env t steps)).length)
    (env' : Env) (stamp : String) (o : CreateOpts) :
    createStep env' stamp o (tamperGen (run env t steps) [] k) = tamperGen (run env t steps) [] k ∧
    createStep env' stamp o (removeGen (run env t steps) [] k) = removeGen (run env t steps) [] k ∧
    createStep env' stamp o (removeChain (run env t steps) []) = removeChain (run env t steps) [] := by
  obtain ⟨h1, h2, h3⟩ := tamper_refuses env hrn t hdir hn hh steps hok k hk
  exact ⟨(refusal_preserves_tree _ _ _ h1 o [] []).1, (refusal_preserves_tree _ _ _ h2 o [] []).1,
    (refusal_preserves_tree _ _ _ h3 o [] []).1⟩

/-- A DAMAGED HISTORY STAYS AS IT IS.  The root's `ascmhl` folder has the fault `x`.  Then under ANY further run
(media edits and creates with any options) every create is refused with `x` and the `ascmhl` folder is never
touched: the run does to the tree what the media edits alone do. -/
theorem damaged_stays_damaged (env : Env) (steps : List Step) (hok : ∀ st ∈ steps, st.Ok) :
    ∀ (t' : Node) (x : Err), t'.isDir = true → storeFault t'.hist = some x →
      (run env t' steps).hist = t'.hist ∧ loadHistory (run env t' steps) = .error x ∧
      run env t' steps = steps.foldl (fun t st => st.edit t) t' := by
  induction steps with
  | nil =>
    intro t' x _ hf
    exact ⟨rfl, loadHistory_of_root_fault t' x hf, rfl⟩
  | cons st steps ih =>
    intro t' x hdir hf
    have hst := hok st (by simp)
    have hh : (st.edit t').hist = t'.hist := hst.edit.hist_eq t' hdir
    have hl : loadHistory (st.edit t') = .error x := loadHistory_of_root_fault _ x (by rw [hh]; exact hf)
    have hstep : stepTree env t' st = st.edit t' := (refusal_preserves_tree _ _ _ hl st.opts [] []).1
    obtain ⟨h1, h2, h3⟩ := ih (fun s hs => hok s (by simp [hs])) (st.edit t') x (hst.edit.isDir t' hdir)
      (by rw [hh]; exact hf)
    rw [run_cons, hstep]
    exact ⟨h1.trans hh, h2, h3⟩

/-! ### non-vacuity -/

section Examples
open MhlProps.C04nested

set_option maxRecDepth 100000
set_option synthInstance.maxSize 4096

/-- what is observable of an outcome: exit code, number of manifests written, the six report lists -/
def observe (o : Outcome) :
    Nat × Nat × List String × List String × List String × List (String × String) × List String × List String :=
  (o.exitCode, o.written.length, o.report.mismatch, o.report.missing, o.report.new, o.report.renamed,
    o.report.dirMismatch, o.report.lines)

/-- the run of C06seq (four steps, four generations; the second one ended with exit code 11) -/
def exT : Node := run exEnv exTree exSteps

/-- the three-step run -/
def exT3 : Node := run exEnv exTree (exSteps.take 3)

theorem exSteps3_ok : ∀ st ∈ exSteps.take 3, st.Ok := fun st hst => exSteps_ok st (List.mem_of_mem_take hst)

example : (gensOf exT).length = 4 ∧ (gensOf exT3).length = 3 := by decide +kernel

/-- untouched: the run loads, and (say) `verify` and `create` do not end with 31 / 32 / 33 -/
example : ∃ h, loadHistory exT = .ok h := untouched_run_loads exEnv (by decide) exTree rfl (by rfl) rfl exSteps exSteps_ok

example : (info exT3).toOption.isSome = true ∧ (info exT).toOption.isSome = true := by decide +kernel

/-- the 3-step run, generation 2 (index 1) tampered: EVERY command form ends with 31, reports nothing, writes
nothing — evaluated -/
example :
    observe (createFolder exEnv (tamperGen exT3 [] 1) {}) = (31, 0, [], [], [], [], [], []) ∧
    observe (createSingleFiles exEnv (tamperGen exT3 [] 1) { singleFiles := [["a.txt"]] }) =
      (31, 0, [], [], [], [], [], []) ∧
    observe (create exEnv (tamperGen exT3 [] 1) { formats := ["md5"], detectRenaming := true }) =
      (31, 0, [], [], [], [], [], []) ∧
    observe (verify exEnv (tamperGen exT3 [] 1) {}) = (31, 0, [], [], [], [], [], []) ∧
    observe (verify exEnv (tamperGen exT3 [] 1) { singleFile := some ["a.txt"] }) = (31, 0, [], [], [], [], [], []) ∧
    observe (diff exEnv (tamperGen exT3 [] 1) {}) = (31, 0, [], [], [], [], [], []) := by
  decide +kernel

example :
    observe (verifyDh exEnv (tamperGen exT3 [] 1) {}) = (31, 0, [], [], [], [], [], []) ∧
    observe (flatten exEnv (tamperGen exT3 [] 1) [] []) = (31, 0, [], [], [], [], [], []) ∧
    exceptErr (info (tamperGen exT3 [] 1)) = some (.exit 31) ∧
    exceptErr (infoSingleFile (tamperGen exT3 [] 1) ["a.txt"]) = some (.exit 31) := by
  decide +kernel

/-- the same from the theorem: its hypotheses hold on this run -/
example : AllRefuse exEnv (tamperGen exT3 [] 1) (.exit 31) ∧ AllRefuse exEnv (removeGen exT3 [] 1) (.exit 33) ∧
    AllRefuse exEnv (removeChain exT3 []) (.exit 32) :=
  tamper_all_commands_refuse exEnv (by decide) exTree rfl (by rfl) rfl (exSteps.take 3) exSteps3_ok 1
    (by decide +kernel) exEnv

/-- every generation of the four-step run, each of the three kinds of damage — evaluated -/
example : ∀ k ∈ [0, 1, 2, 3],
    exceptErr (loadHistory (tamperGen exT [] k)) = some (.exit 31) ∧
    exceptErr (loadHistory (removeGen exT [] k)) = some (.exit 33) ∧
    exceptErr (loadHistory (removeChain exT [])) = some (.exit 32) := by
  decide +kernel

/-- an index beyond the stored manifests damages nothing -/
example : exceptErr (loadHistory (tamperGen exT [] 4)) = none := by decide +kernel

/-- several faults — evaluated: generation 2 deleted and generation 4 altered → 33; generation 1 altered and
generation 2 deleted → 31; anything plus a deleted chain file → 32 -/
example :
    exceptErr (loadHistory (tamperGen (removeGen exT [] 1) [] 3)) = some (.exit 33) ∧
    exceptErr (loadHistory (removeGen (tamperGen exT [] 3) [] 1)) = some (.exit 33) ∧
    exceptErr (loadHistory (removeGen (tamperGen exT [] 0) [] 1)) = some (.exit 31) ∧
    exceptErr (loadHistory (removeChain (removeGen (tamperGen exT [] 0) [] 1) [])) = some (.exit 32) ∧
    exceptErr (loadHistory (tamperGen (removeChain exT []) [] 0)) = some (.exit 32) := by
  decide +kernel

/-- the hypotheses of `two_faults_lowest_wins` and `first_fault_wins` hold on the run -/
example : loadHistory (tamperGen (removeGen exT [] 1) [] 3) = .error errMissingManifest :=
  (two_faults_lowest_wins exEnv (by decide) exTree rfl (by rfl) rfl exSteps exSteps_ok 1 3 (by decide)
    (by decide +kernel)).1

/-- generation 2 altered, generation 3 deleted, the others intact -/
def exDamaged : List Generation := markGens .missing 2 (markGens .modified 1 (gensOf exT))

example : exceptErr (loadHistory (damageAt (fun s => { s with gens := exDamaged, chainPresent := true }) exT [])) =
    some errModified := by
  unfold exT
  rw [first_fault_wins exEnv (by decide) exTree rfl (by rfl) rfl exSteps exSteps_ok (by decide +kernel) _
    (by rw [exDamaged, markGens_names, markGens_names]; rfl) true]
  decide +kernel

/-- a refused create leaves the damaged tree as it is; a further run of three creates too -/
example : (run exEnv (tamperGen exT3 [] 1) (exSteps.drop 3)).hist = (tamperGen exT3 [] 1).hist ∧
    loadHistory (run exEnv (tamperGen exT3 [] 1) (exSteps.drop 3)) = .error (.exit 31) := by
  obtain ⟨h1, h2, -⟩ := damaged_stays_damaged exEnv (exSteps.drop 3)
    (fun st hst => exSteps_ok st (List.mem_of_mem_drop hst)) (tamperGen exT3 [] 1) (.exit 31) (by decide +kernel)
    (by decide +kernel)
  exact ⟨h1, h2⟩

/-! #### nested: the two-level and three-level trees of C04nested, the INNER history damaged -/

/-- `big2`: root history (1 generation) and the nested history `A` (2 generations).  Evaluated: damage in `A` is
reported when the OUTER root is loaded, every command form on the outer root ends with it -/
example :
    exceptErr (loadHistory (tamperGen big2 ["A"] 0)) = some (.exit 31) ∧
    exceptErr (loadHistory (tamperGen big2 ["A"] 1)) = some (.exit 31) ∧
    exceptErr (loadHistory (removeGen big2 ["A"] 1)) = some (.exit 33) ∧
    exceptErr (loadHistory (removeChain big2 ["A"])) = some (.exit 32) ∧
    observe (createFolder envR (tamperGen big2 ["A"] 1) o2) = (31, 0, [], [], [], [], [], []) ∧
    observe (verify envR (removeGen big2 ["A"] 0) {}) = (33, 0, [], [], [], [], [], []) ∧
    observe (flatten envR (removeChain big2 ["A"]) [] []) = (32, 0, [], [], [], [], [], []) ∧
    -- the root's own history damaged as well: the root is checked first
    exceptErr (loadHistory (removeGen (tamperGen big2 ["A"] 1) [] 0)) = some (.exit 33) := by
  decide +kernel

/-- the hypotheses of `nested_tamper_refuses_listed` hold on `big2` at `["A"]` -/
example : loadHistory (tamperGen big2 ["A"] 1) = .error errModified ∧
    loadHistory (removeGen big2 ["A"] 1) = .error errMissingManifest ∧
    loadHistory (removeChain big2 ["A"]) = .error errNoChain :=
  nested_tamper_refuses_listed big2 ["A"]
    ((namesDistinctB_spec _ (by decide +kernel)).distinctAlong _) (loadD big2) load2
    ((storeAt big2 ["A"]).getD {}) (by decide +kernel) (by decide +kernel) 1 (by decide +kernel)

/-- … and those of `nested_tamper_refuses`: `A` is a nested history of the loaded history, its store is `Listed` -/
example : (∃ c ∈ allDescendants (loadD big2), c.root = ["A"] ∧ c.gens.map (·.number) = [1, 2]) ∧
    Listed ((storeAt big2 ["A"]).getD {}) ∧ ((storeAt big2 ["A"]).getD {}).gens.length = 2 := by
  decide +kernel

/-- `c2`: three levels (root, `A`, `A/sub`).  The GRAND-CHILD history damaged: reported at the outer root -/
example :
    exceptErr (loadHistory c2) = none ∧
    exceptErr (loadHistory (tamperGen c2 ["A", "sub"] 0)) = some (.exit 31) ∧
    exceptErr (loadHistory (removeGen c2 ["A", "sub"] 0)) = some (.exit 33) ∧
    exceptErr (loadHistory (removeChain c2 ["A", "sub"])) = some (.exit 32) ∧
    -- parent before child: `A` damaged too
    exceptErr (loadHistory (removeChain (tamperGen c2 ["A", "sub"] 0) ["A"])) = some (.exit 32) ∧
    observe (verify envR (tamperGen c2 ["A", "sub"] 0) {}) = (31, 0, [], [], [], [], [], []) := by
  decide +kernel

example : loadHistory (tamperGen c2 ["A", "sub"] 0) = .error errModified ∧
    loadHistory (removeGen c2 ["A", "sub"] 0) = .error errMissingManifest ∧
    loadHistory (removeChain c2 ["A", "sub"]) = .error errNoChain :=
  nested_tamper_refuses_listed c2 ["A", "sub"]
    ((namesDistinctB_spec _ (by decide +kernel)).distinctAlong _) (loadD c2) load_c2
    ((storeAt c2 ["A", "sub"]).getD {}) (by decide +kernel) (by decide +kernel) 0 (by decide +kernel)

/-! #### the extra hypotheses of 4. are needed: the statement for an ARBITRARY stored manifest is false -/

/-- a nested `ascmhl` folder with a manifest file that the chain does not list (copied in by hand, say) -/
def sOrphan : HistStore :=
  { gens := [C05.gOk "0001_A_2020-01-01_000000Z.mhl", C05.gOk "0002_A_2020-01-02_000000Z.mhl"],
    chain := [⟨1, "0001_A_2020-01-01_000000Z.mhl"⟩] }

def tOrphan : Node := .dir "root" [.dir "A" [.file "x" [5]] (some sOrphan)] none

/-- the unlisted manifest is NOT loaded (the nested history has generation 1 only — before the repair it was loaded
as generation 2 and could be damaged unnoticed); the tree loads; altering or deleting the unlisted manifest leaves the
tree loading, as the same generations; the listed manifest (generation 1) damaged is reported -/
theorem unlisted_not_loaded_witness :
    (namesDistinctB tOrphan = true) ∧ exceptErr (loadHistory tOrphan) = none ∧
    (∃ c ∈ allDescendants (loadD tOrphan), c.root = ["A"] ∧ c.gens.map (·.number) = [1] ∧
      c.gens.map (·.gen.fileName) = ["0001_A_2020-01-01_000000Z.mhl"]) ∧
    storeAt tOrphan ["A"] = some sOrphan ∧ 1 < sOrphan.gens.length ∧
    sOrphan.lists "0002_A_2020-01-02_000000Z.mhl" = false ∧
    exceptErr (loadHistory (tamperGen tOrphan ["A"] 1)) = none ∧
    exceptErr (loadHistory (removeGen tOrphan ["A"] 1)) = none ∧
    (∃ c ∈ allDescendants (loadD (tamperGen tOrphan ["A"] 1)), c.root = ["A"] ∧ c.gens.map (·.number) = [1]) ∧
    exceptErr (loadHistory (tamperGen tOrphan ["A"] 0)) = some (.exit 31) := by
  decide +kernel

/-- the hypotheses of `unlisted_not_loaded` hold on this tree: the damaged trees load as the same history -/
example : loadHistory (tamperGen tOrphan ["A"] 1) = loadHistory tOrphan ∧
    loadHistory (removeGen tOrphan ["A"] 1) = loadHistory tOrphan :=
  (unlisted_not_loaded tOrphan ["A"] ((namesDistinctB_spec _ (by decide +kernel)).distinctAlong _) sOrphan
    (by decide +kernel) 1 _ rfl (by decide +kernel)).2.2

/-- two stored manifests of the same name (impossible in a folder on disk): the chain entry means the first one, the
second one can be damaged unnoticed — hence "the first stored manifest of that name" -/
def sTwice : HistStore :=
  { gens := [C05.gOk "0001_A_2020-01-01_000000Z.mhl", C05.gOk "0001_A_2020-01-01_000000Z.mhl"],
    chain := [⟨1, "0001_A_2020-01-01_000000Z.mhl"⟩] }

theorem nested_tamper_shadowed_false :
    exceptErr (loadHistory (tamperGen (.dir "root" [.dir "A" [] (some sTwice)] none) ["A"] 1)) = none ∧
    exceptErr (loadHistory (tamperGen (.dir "root" [.dir "A" [] (some sTwice)] none) ["A"] 0)) = some (.exit 31) := by
  decide +kernel

/-- the run of C06seq grafted as the folder `root` into an outer folder with a history of its own and a sibling -/
example :
    let outer : Node := .dir "vol" ([.file "readme" [1]] ++ run exEnv exTree exSteps ::
      [.dir "z" [.file "q" []] none]) (some C05.sFine)
    let r : RelPath := [(run exEnv exTree exSteps).name]
    loadHistory (tamperGen outer r 2) = .error errModified ∧
    loadHistory (removeGen outer r 2) = .error errMissingManifest ∧
    loadHistory (removeChain outer r) = .error errNoChain :=
  grafted_run_tamper_refuses exEnv (by decide) exTree rfl (by rfl) rfl exSteps exSteps_ok 2 (by decide +kernel)
    "vol" [.file "readme" [1]] [.dir "z" [.file "q" []] none] (some C05.sFine) (by decide) (by decide +kernel)
    (by decide)

end Examples

end MhlProps.C05e2e
