/-
C10 — Manifests and chain files read back exactly what was written.

About `MhlModel/Xml.lean`: the writer `toXml` (hashlist_xml_parser.write_hash_list and its element builders), the event
stream `events` that `etree.iterparse` delivers, the event-driven reader `parse` (a fold of `step` over the events), the
representation shift `norm`, and the chain file writer / reader `chainToXml` / `parseChain`.

Main results
* `parse_toXml`        : `WfGen g → parse (toXml g) = norm g`
* `roundtrip_iff_wf`   : `parse (toXml g) = norm g ↔ WfGen g`  — `WfGen` is EXACTLY the weakest condition
* `norm_idempotent`, `toXml_determines`
* `parseChain_chainToXml`, `chain_append`, `parseChain_append`, `parseChain_roundtrip_iff`
* `size_zero_roundtrips`, `dash_author_roundtrips`
* `reader_returns_supported_formats` : on ANY tree the reader returns supported formats only, and no record named "."

Which ingredient of `WfGen` is needed for which field (and what is NOT needed)
* entry `fmt` supported (`FormatsOk`)         – the reader takes only supported format tags for digests; any other
                                                 tag is ignored or is one of its own structural tags.
* record `path ≠ "."`                          – `append_hash` files such a record as the root hash.
                                                 (An EMPTY path is fine in the model: `text.getD ""` gives it back.)
* `prev ≠ some ""`, `process`, creator texts (creation date, host name, tool name, location, comment, author NAME),
  reference `path` / `c4` `≠ some ""`          – an empty text reads back as absent.  Absent (`none`) is fine everywhere.
* attributes (tool version, author role/email/phone, action, hash date, size, sequence number) – NO condition: an
  attribute with an empty value stays an attribute.
* digests and ignore patterns                  – NO condition: they are read with `getD ""`, so also "" comes back.
* file entries `shash = none`                  – a file record's structure hash is never written.
* directory entries `shash ≠ some ""`          – empty text; `shash = none` is fine (an empty element is written).
* `DupFree` for directory records / root hash  – structure hashes are re-attached to the FIRST entry of the format;
                                                 weaker than "formats pairwise distinct": a format may repeat as long
                                                 as none of its entries carries a structure hash.  File records may
                                                 repeat formats freely (the sort is stable).
* `size` of directory records                  – NO condition: it is written and read like a file size.
                                                 The root hash's size and path are dropped by `norm` itself.
* root hash `isDir = true` or already sorted   – `norm` sorts the entries of a non-directory record, the writer writes
                                                 the root hash in stored order.  No condition at all when the root hash
                                                 has no entries (nothing is written, `norm` gives `none`).
-/
import MhlProps.Proofs.XmlLemmas

namespace MhlProps.C10
open MhlModel MhlModel.Xml

/-! ### 1. the objects the round trip holds for -/

/-- an optional text that survives a file: an empty text reads back as absent -/
def TextOk (x : Option String) : Prop := x ≠ some ""

instance (x : Option String) : Decidable (TextOk x) := by unfold TextOk; infer_instance

/-- every format element carries a supported format name (other elements are not read as digests) -/
def FormatsOk (es : List XEntry) : Prop := ∀ e ∈ es, isFormatTag e.fmt = true

instance (es : List XEntry) : Decidable (FormatsOk es) := by unfold FormatsOk; infer_instance

instance (es : List XEntry) : Decidable (DupFree es) := by unfold DupFree; infer_instance

/-- entries of a directory record / of the root hash: supported formats; a structure hash that is present is not
empty; and where a format occurs twice none of its entries carries a structure hash (`DupFree`: the structure hashes
are re-attached to the FIRST entry of the format) -/
def DirEntriesOk (es : List XEntry) : Prop :=
  FormatsOk es ∧ (∀ e ∈ es, TextOk e.shash) ∧ DupFree es

instance (es : List XEntry) : Decidable (DirEntriesOk es) := by unfold DirEntriesOk; infer_instance

/-- entries of a file record: supported formats, no structure hash (it is not written) -/
def FileEntriesOk (es : List XEntry) : Prop :=
  FormatsOk es ∧ ∀ e ∈ es, e.shash = none

instance (es : List XEntry) : Decidable (FileEntriesOk es) := by unfold FileEntriesOk; infer_instance

/-- a record of `<hashes>`: not named "." (that would be taken for the root hash); a previous path is not empty;
path, size, digests, actions, hash dates are arbitrary -/
def WfRecord (r : XRecord) : Prop :=
  r.path ≠ "." ∧ TextOk r.prev ∧ (if r.isDir then DirEntriesOk r.entries else FileEntriesOk r.entries)

instance (r : XRecord) : Decidable (WfRecord r) := by unfold WfRecord; infer_instance

/-- the root hash: nothing is asked when it has no entries (then nothing is written); otherwise its entries are those
of a directory record, and it is a directory record or its entries are already in format order (`norm` sorts the
entries of a non-directory record, the writer writes the root hash in the stored order); path and size are arbitrary -/
def WfRoot (r : XRecord) : Prop :=
  r.entries = [] ∨
    (TextOk r.prev ∧ DirEntriesOk r.entries ∧ (r.isDir = true ∨ isort fmtLe r.entries = r.entries))

instance (r : XRecord) : Decidable (WfRoot r) := by unfold WfRoot; infer_instance

/-- creator information: the texts are not empty; attributes (tool version, role, email, phone) are arbitrary -/
def WfCreator (c : XCreator) : Prop :=
  TextOk c.creationdate ∧ TextOk c.hostname ∧ TextOk c.toolName ∧ TextOk c.location ∧ TextOk c.comment ∧
  ∀ a ∈ c.authors, TextOk a.name

instance (c : XCreator) : Decidable (WfCreator c) := by unfold WfCreator; infer_instance

def WfRef (r : XRef) : Prop := TextOk r.path ∧ TextOk r.c4

instance (r : XRef) : Decidable (WfRef r) := by unfold WfRef; infer_instance

/-- the manifests the round trip holds for.  The ignore patterns are arbitrary. -/
def WfGen (g : XGen) : Prop :=
  WfCreator g.creator ∧ TextOk g.process ∧ (∀ r ∈ g.rootHash, WfRoot r) ∧ (∀ r ∈ g.records, WfRecord r) ∧
  ∀ r ∈ g.refs, WfRef r

instance (g : XGen) : Decidable (WfGen g) := by unfold WfGen; infer_instance

/-! ### 2. reader ∘ writer = `norm` -/

theorem wf_shape {g : XGen} (h : WfGen g) : Shape g := by
  obtain ⟨_, _, hroot, hrecs, _⟩ := h
  refine ⟨?_, ?_⟩
  · intro r hr e he
    rcases hroot r (by simp [hr]) with h0 | ⟨_, hd, _⟩
    · rw [h0] at he; cases he
    · exact hd.1 e he
  · intro r hr
    obtain ⟨hp, _, he⟩ := hrecs r hr
    refine ⟨hp, ?_⟩
    by_cases hd : r.isDir = true
    · simp only [hd, ↓reduceIte] at he; exact he.1
    · simp only [hd, Bool.false_eq_true, ↓reduceIte] at he; exact he.1

theorem readDirEntries_ok {es : List XEntry} (h : DirEntriesOk es) : readDirEntries es = es :=
  struct_pass es h.2.1 h.2.2

theorem map_strip_ok {es : List XEntry} (h : ∀ e ∈ es, e.shash = none) : es.map strip = es := by
  induction es with
  | nil => rfl
  | cons e es ih =>
    have he : strip e = e := by
      have := h e (by simp)
      cases e; simp_all [strip]
    simp [he, ih (fun x hx => h x (by simp [hx]))]

theorem readRec_ok {r : XRecord} (h : WfRecord r) : readRec r = nrec r := by
  obtain ⟨_, hp, he⟩ := h
  by_cases hd : r.isDir = true
  · simp only [hd, ↓reduceIte] at he
    cases r
    simp_all [readRec, readDir, nrec, readDirEntries_ok he, normText_of_ne hp]
  · simp only [hd, Bool.false_eq_true, ↓reduceIte] at he
    have hs : (isort fmtLe r.entries).map strip = isort fmtLe r.entries :=
      map_strip_ok fun e hx => he.2 e ((mem_isort_d _ _ _).1 hx)
    have hs' : (isort (fun a b => strLe a.fmt b.fmt) r.entries).map strip = isort fmtLe r.entries := hs
    cases r
    simp_all [readRec, readFile, nrec, normText_of_ne hp]

theorem readRoot_ok {r : XRecord} (h : WfRoot r) (hne : r.entries ≠ []) : readRoot r = nroot r := by
  rcases h with h | ⟨hp, he, hs⟩
  · exact absurd h hne
  · unfold readRoot nroot nrec
    rw [readDirEntries_ok he, normText_of_ne hp]
    rcases hs with hs | hs
    · simp [hs]
    · cases hd : r.isDir <;> simp [hs]

theorem normCreator_ok {c : XCreator} (h : WfCreator c) : normCreator c = c := by
  obtain ⟨h1, h2, h3, h4, h5, ha⟩ := h
  have hm : c.authors.map normAuthor = c.authors := by
    have : ∀ l : List XAuthor, (∀ a ∈ l, TextOk a.name) → l.map normAuthor = l := by
      intro l hl
      induction l with
      | nil => rfl
      | cons a as ih =>
        have : normAuthor a = a := by
          unfold normAuthor; rw [normText_of_ne (hl a (by simp))]
        simp [this, ih (fun x hx => hl x (by simp [hx]))]
    exact this _ ha
  unfold normCreator
  rw [normText_of_ne h1, normText_of_ne h2, normText_of_ne h3, normText_of_ne h4, normText_of_ne h5, hm]

theorem normRef_ok {r : XRef} (h : WfRef r) : normRef r = r := by
  unfold normRef; rw [normText_of_ne h.1, normText_of_ne h.2]

theorem map_eq_of_forall {α : Type} {f g : α → α} {l : List α} (h : ∀ a ∈ l, f a = g a) : l.map f = l.map g :=
  List.map_congr_left h

/-- on a well-formed manifest what the reader rebuilds is `norm` of the manifest -/
theorem readBack_eq_norm {g : XGen} (h : WfGen g) : readBack g = norm g := by
  obtain ⟨hc, hp, hroot, hrecs, hrefs⟩ := h
  rw [norm_eq]
  unfold readBack
  have e1 : g.records.map readRec = g.records.map nrec := map_eq_of_forall fun r hr => readRec_ok (hrecs r hr)
  have e2 : g.refs.map normRef = g.refs := by
    have := map_eq_of_forall (f := normRef) (g := id) fun r hr => normRef_ok (hrefs r hr)
    simpa using this
  have e3 : readRootOpt g.rootHash
      = g.rootHash.bind fun r => if r.entries.isEmpty then none else some (nroot r) := by
    unfold readRootOpt
    cases hr : g.rootHash with
    | none => rfl
    | some r =>
      by_cases he : r.entries = []
      · simp [he]
      · simp [he, readRoot_ok (hroot r (by simp [hr])) he]
  rw [normCreator_ok hc, normText_of_ne hp, e1, e2, e3]

/-- **the round trip**: the reader applied to what the writer produced gives back the object, up to `norm` -/
theorem parse_toXml (g : XGen) (h : WfGen g) : parse (toXml g) = norm g := by
  rw [parse_toXml_readBack g (wf_shape h), readBack_eq_norm h]

/-! ### 3. `norm` is a normal form; the infoset determines the object -/

/-- normalising twice is normalising once (for every manifest, well-formed or not) -/
theorem norm_idempotent (g : XGen) : norm (norm g) = norm g := norm_idem g

/-- what the reader returns is already in normal form -/
theorem parse_toXml_normal (g : XGen) (h : WfGen g) : norm (parse (toXml g)) = parse (toXml g) := by
  rw [parse_toXml g h, norm_idempotent]

/-- two well-formed manifests that are written as the same tree carry the same values: an independent reader of the
same infoset extracts the same object -/
theorem toXml_determines (g₁ g₂ : XGen) (h₁ : WfGen g₁) (h₂ : WfGen g₂) (h : toXml g₁ = toXml g₂) :
    norm g₁ = norm g₂ := by
  rw [← parse_toXml g₁ h₁, ← parse_toXml g₂ h₂, h]

/-! ### 4. chain file -/

/-- a chain entry as the tool writes it (the format in the statement of the task): a supported format and the three
other fields present and non-empty -/
def FullChainEntry (c : XChainEntry) : Prop :=
  (∃ f, c.fmt = some f ∧ isFormatTag f = true) ∧
  (∃ s, c.seq = some s ∧ s ≠ "") ∧ (∃ p, c.path = some p ∧ p ≠ "") ∧ (∃ d, c.digest = some d ∧ d ≠ "")

/-- the condition really needed is weaker (`WfChainEntry`): the sequence number is an attribute and may be anything,
path and digest may be absent, only not the empty text -/
theorem FullChainEntry.wf {c : XChainEntry} (h : FullChainEntry c) : WfChainEntry c := by
  obtain ⟨hf, _, ⟨p, hp, hpne⟩, ⟨d, hd, hdne⟩⟩ := h
  refine ⟨hf, ?_, ?_⟩
  · rw [hp]; intro e; exact hpne (Option.some.inj e)
  · rw [hd]; intro e; exact hdne (Option.some.inj e)

theorem parseChain_chainToXml_wf (cs : List XChainEntry) (h : ∀ c ∈ cs, WfChainEntry c) :
    parseChain (chainToXml cs) = cs := by
  rw [parseChain_eq]
  induction cs with
  | nil => rfl
  | cons c cs ih =>
    rw [List.flatMap_cons, readChainEntry_wf c (h c (by simp)), ih (fun x hx => h x (by simp [hx]))]
    rfl

/-- the chain file reads back exactly the entries that were written -/
theorem parseChain_chainToXml (cs : List XChainEntry) (h : ∀ c ∈ cs, FullChainEntry c) :
    parseChain (chainToXml cs) = cs :=
  parseChain_chainToXml_wf cs fun c hc => (h c hc).wf

/-- entries are read one by one, independently of each other: for arbitrary entries (well-formed or not) reading a
concatenation is concatenating the readings -/
theorem parseChain_append (cs ds : List XChainEntry) :
    parseChain (chainToXml (cs ++ ds)) = parseChain (chainToXml cs) ++ parseChain (chainToXml ds) := by
  simp [parseChain_eq]

/-- appending one entry to a chain file: the earlier entries (whatever they are) read as before and in order, and
exactly the new one is added -/
theorem chain_append (cs : List XChainEntry) (e : XChainEntry) (he : WfChainEntry e) :
    parseChain (chainToXml (cs ++ [e])) = parseChain (chainToXml cs) ++ [e] := by
  rw [parseChain_append, parseChain_chainToXml_wf [e] (by simpa using he)]

/-- an entry without a format is written as `<c4>` and so does NOT read back unchanged: the format is needed -/
example : parseChain (chainToXml [{ seq := some "1", path := some "0001_A.mhl", fmt := none, digest := some "c4x" }])
    = [{ seq := some "1", path := some "0001_A.mhl", fmt := some "c4", digest := some "c4x" }] := by decide

/-! ### 5. the two former defects -/

/-- every size, also 0, is written as a `size` attribute -/
theorem size_written (r : XRecord) : attr (pathElem r) "size" = r.size.map toString := by
  unfold attr pathElem
  cases r.size <;> cases r.lastmod <;> simp [Elem.attrs, optAttr, alookup]

theorem size_zero_written (r : XRecord) (h : r.size = some 0) : attr (pathElem r) "size" = some "0" := by
  rw [size_written, h]; rfl

/-- all sizes of the records (files and directories, also size 0, also absent sizes) read back unchanged -/
theorem sizes_roundtrip (g : XGen) (h : WfGen g) :
    (parse (toXml g)).records.map (·.size) = g.records.map (·.size) := by
  rw [parse_toXml g h, norm_eq]
  simp only [List.map_map]
  apply List.map_congr_left
  intro r _
  simp [nrec]

/-- a record of size 0 (a file record, or a directory record) is written with a size attribute and reads back with
size 0 -/
theorem size_zero_roundtrips (r : XRecord) (h : WfRecord r) (hs : r.size = some 0) :
    attr (pathElem r) "size" = some "0" ∧
    (parse (toXml { records := [r] })).records.map (·.size) = [some 0] := by
  refine ⟨size_zero_written r hs, ?_⟩
  have hg : WfGen { records := [r] } := by
    refine ⟨by simp [WfCreator, TextOk], by simp [TextOk], by simp, by simpa using h, by simp⟩
  rw [sizes_roundtrip _ hg]
  simp [hs]

def exEmptyFile : XRecord :=
  { path := "empty.bin", size := some 0,
    entries := [{ fmt := "xxh64", digest := "ef46db3751d8e999", action := some "original" }] }

example : attr (pathElem exEmptyFile) "size" = some "0" ∧
    (parse (toXml { records := [exEmptyFile] })).records = [exEmptyFile] := by decide

/-- the creator information — all authors with name, role, email, phone, whatever the name — reads back unchanged -/
theorem creator_roundtrips (g : XGen) (h : WfGen g) : (parse (toXml g)).creator = g.creator := by
  rw [parse_toXml g h, norm_eq]

/-- an author whose name is "-" reads back with the name "-" -/
theorem dash_author_roundtrips (a : XAuthor) (h : a.name = some "-") :
    (parse (toXml { creator := { authors := [a] } })).creator.authors = [a] := by
  have hg : WfGen { creator := { authors := [a] } } := by
    refine ⟨?_, by simp [TextOk], by simp, by simp, by simp⟩
    simp [WfCreator, TextOk, h]
  rw [creator_roundtrips _ hg]

example : (parse (toXml { creator := { authors := [{ name := some "-", role := some "DIT" }, { name := some "Ann" }] } })
    ).creator.authors = [{ name := some "-", role := some "DIT" }, { name := some "Ann" }] := by decide

/-! ### 6. non-vacuity -/

/-- two file records (three formats in unsorted order; one with an empty path, an empty digest and a repeated format),
a directory record with two formats, a root hash, two authors, location and comment, two references, an ignore list
with a repetition and an empty pattern -/
def exGen : XGen :=
  { creator := { creationdate := some "2026-01-01T00:00:00+00:00", hostname := some "host.local",
                 toolName := some "ascmhl", toolVersion := some "1.2",
                 authors := [{ name := some "-", role := some "DIT", email := some "a@b.c" },
                             { name := some "Bob", phone := some "" }],
                 location := some "Set 3", comment := some "a comment" },
    process := some "in-place",
    rootHash := some { path := "whatever", isDir := true, size := some 3, lastmod := some "x", entries :=
      [{ fmt := "xxh64", digest := "aa", shash := some "bb" },
       { fmt := "c4", digest := "c41", hashdate := some "d", shash := some "c42" }] },
    ignore := [".DS_Store", "*.tmp", "*.tmp", ""],
    records := [
      { path := "A/b.mov", size := some 0, lastmod := some "2025-12-31T00:00:00+00:00", entries :=
          [{ fmt := "xxh64", digest := "0ea03b369a463d9d", action := some "original", hashdate := some "2026-01-01" },
           { fmt := "md5", digest := "9e107d9d372bb6826bd81d3542a419d6", action := some "verified" },
           { fmt := "c4", digest := "c44aMtvPeo", action := some "new" }] },
      { path := "A", isDir := true, size := some 12, prev := none, entries :=
          [{ fmt := "xxh64", digest := "d1", hashdate := some "h", shash := some "s1" },
           { fmt := "c4", digest := "d2", shash := some "s2" }] },
      { path := "", size := some 1234567, prev := some "old/name.txt", entries :=
          [{ fmt := "sha1", digest := "", action := some "failed" }, { fmt := "md5", digest := "x" },
           { fmt := "md5", digest := "y" }] }],
    refs := [{ path := some "B/ascmhl/0001_B.mhl", c4 := some "c4abc" },
             { path := some "C/ascmhl/0001_C.mhl", c4 := none }] }

example : WfGen exGen := by decide

/-- the round trip on the example, computed — independent of the general proof -/
example : parse (toXml exGen) = norm exGen := by
  set_option maxRecDepth 100000 in decide

/-- `norm` really moves this example (dates dropped, entries sorted, root path, ignore list de-duplicated) … -/
example : norm exGen ≠ exGen := by decide

/-- … and the parts that `norm` leaves alone come back literally -/
example : (parse (toXml exGen)).creator = exGen.creator ∧ (parse (toXml exGen)).process = exGen.process ∧
    (parse (toXml exGen)).refs = exGen.refs ∧
    (parse (toXml exGen)).ignore = [".DS_Store", "*.tmp", ""] ∧
    ((parse (toXml exGen)).records.map fun r => (r.path, r.size, r.prev, r.entries.map (·.fmt)))
      = [("A/b.mov", some 0, none, ["c4", "md5", "xxh64"]), ("A", some 12, none, ["xxh64", "c4"]),
         ("", some 1234567, some "old/name.txt", ["md5", "md5", "sha1"])] := by
  set_option maxRecDepth 100000 in decide

/-- an empty manifest: the defaults come back as the ignore list -/
example : WfGen {} ∧ parse (toXml {}) = { ignore := [".DS_Store", "ascmhl", "ascmhl/"] } := by decide

/-- a manifest with one record and nothing else -/
def one (r : XRecord) : XGen := { records := [r] }

/-- a directory record where a format occurs twice, without structure hashes, is still well-formed -/
example : WfGen (one { path := "D", isDir := true, entries := [{ fmt := "md5", digest := "a" }, { fmt := "md5", digest := "b" }] }) := by
  decide

def exChain : List XChainEntry :=
  [{ seq := some "1", path := some "0001_A_2026-01-01_000000Z.mhl", fmt := some "c4", digest := some "c41x" },
   { seq := some "2", path := some "0002_A_2026-01-02_000000Z.mhl", fmt := some "c4", digest := some "c42y" }]

example : (∀ c ∈ exChain, FullChainEntry c) := by
  intro c hc
  simp only [exChain, List.mem_cons, List.not_mem_nil, or_false] at hc
  rcases hc with rfl | rfl <;>
    exact ⟨⟨_, rfl, by decide⟩, ⟨_, rfl, by decide⟩, ⟨_, rfl, by decide⟩, ⟨_, rfl, by decide⟩⟩

example : parseChain (chainToXml exChain) = exChain := by decide

/-! ### 7. every ingredient of `WfGen` is needed

For each ingredient a smallest manifest that violates only that ingredient, and for which the round trip fails. -/

/-- the round trip fails -/
def Fails (g : XGen) : Prop := parse (toXml g) ≠ norm g

instance (g : XGen) : Decidable (Fails g) := by unfold Fails; infer_instance

/-- an unsupported format name: the element is not read as a digest -/
example : Fails (one { path := "a", entries := [{ fmt := "sha256", digest := "d" }] }) := by decide

/-- a record named ".": it is taken for the root hash -/
example : Fails (one { path := ".", entries := [{ fmt := "md5", digest := "d" }] }) := by decide

/-- an empty previous path reads back as absent -/
example : Fails (one { path := "a", prev := some "" }) := by decide

/-- a structure hash on an entry of a file record is not written -/
example : Fails (one { path := "a", entries := [{ fmt := "md5", digest := "d", shash := some "s" }] }) := by decide

/-- an empty structure hash on an entry of a directory record reads back as absent -/
example : Fails (one { path := "a", isDir := true, entries := [{ fmt := "md5", digest := "d", shash := some "" }] }) := by
  decide

def exTwice : XRecord :=
  { path := "a", isDir := true,
    entries := [{ fmt := "md5", digest := "d", shash := some "s" }, { fmt := "md5", digest := "e", shash := some "t" }] }

/-- a directory record with the same format twice and structure hashes: both go to the first entry -/
example : Fails (one exTwice) ∧
    (parse (toXml (one exTwice))).records.map (·.entries.map (·.shash)) = [[some "t", none]] := by decide

def exRootFile : XRecord :=
  { path := ".", isDir := false,
    entries := [{ fmt := "xxh64", digest := "d", shash := some "s" }, { fmt := "c4", digest := "e", shash := some "t" }] }

/-- a root hash that is not a directory record and whose entries are not in format order -/
example : Fails { rootHash := some exRootFile } := by decide

/-- … whereas with the entries in format order, or as a directory record, it is fine -/
example : WfGen { rootHash := some { exRootFile with entries := exRootFile.entries.reverse } } ∧
    WfGen { rootHash := some { exRootFile with isDir := true } } := by decide

/-- empty texts in the creator information, the process type, a reference -/
example : Fails { creator := { hostname := some "" } } := by decide
example : Fails { creator := { authors := [{ name := some "" }] } } := by decide
example : Fails { process := some "" } := by decide
example : Fails { refs := [{ path := some "", c4 := some "c4x" }] } := by decide

/-! ### 8. `WfGen` is the weakest condition -/

theorem wfRecord_of_readRec {r : XRecord} (hp : r.path ≠ ".") (hf : FormatsOk r.entries) (h : readRec r = nrec r) :
    WfRecord r := by
  refine ⟨hp, ?_, ?_⟩
  · by_cases hd : r.isDir = true
    · have : normText r.prev = r.prev := by
        have := congrArg XRecord.prev h
        simpa [readRec, hd, readDir, nrec] using this
      exact normText_eq_self this
    · have : normText r.prev = r.prev := by
        have := congrArg XRecord.prev h
        simpa [readRec, hd, readFile, nrec] using this
      exact normText_eq_self this
  · by_cases hd : r.isDir = true
    · simp only [hd, ↓reduceIte]
      have : readDirEntries r.entries = r.entries := by
        have := congrArg XRecord.entries h
        simpa [readRec, hd, readDir, nrec] using this
      obtain ⟨h1, h2⟩ := struct_pass_conv _ this
      exact ⟨hf, h1, h2⟩
    · simp only [hd, Bool.false_eq_true, ↓reduceIte]
      have : (isort fmtLe r.entries).map strip = isort fmtLe r.entries := by
        have := congrArg XRecord.entries h
        simp only [readRec, hd, readFile, nrec, Bool.false_eq_true, ↓reduceIte] at this
        exact this
      refine ⟨hf, ?_⟩
      intro e he
      have := map_eq_self this e ((mem_isort_d _ _ _).2 he)
      rw [← this]; rfl

theorem wfRoot_of_readRoot {r : XRecord} (hf : FormatsOk r.entries) (h : readRoot r = nroot r) : WfRoot r := by
  right
  have hp : normText r.prev = r.prev := by
    have := congrArg XRecord.prev h
    simpa [readRoot, nroot, nrec] using this
  have he : readDirEntries r.entries = if r.isDir then r.entries else isort fmtLe r.entries := by
    have := congrArg XRecord.entries h
    simpa [readRoot, nroot, nrec] using this
  have hsorted : r.isDir = true ∨ isort fmtLe r.entries = r.entries := by
    by_cases hd : r.isDir = true
    · exact Or.inl hd
    · right
      simp only [hd, Bool.false_eq_true, ↓reduceIte] at he
      apply isort_eq_of_map_fmt
      rw [← he, readDirEntries_map_fmt]
  have he' : readDirEntries r.entries = r.entries := by
    rcases hsorted with hd | hs
    · simpa [hd] using he
    · by_cases hd : r.isDir = true
      · simpa [hd] using he
      · simpa [hd, hs] using he
  obtain ⟨h1, h2⟩ := struct_pass_conv _ he'
  exact ⟨normText_eq_self hp, ⟨hf, h1, h2⟩, hsorted⟩

/-- given the structural conditions, the reader returns `norm g` ONLY for well-formed `g` -/
theorem wf_of_readBack {g : XGen} (hs : Shape g) (h : readBack g = norm g) : WfGen g := by
  rw [norm_eq] at h
  obtain ⟨hsroot, hsrecs⟩ := hs
  have hc : normCreator g.creator = g.creator := congrArg XGen.creator h
  have hp : normText g.process = g.process := congrArg XGen.process h
  have hroot : readRootOpt g.rootHash = g.rootHash.bind fun r => if r.entries.isEmpty then none else some (nroot r) :=
    congrArg XGen.rootHash h
  have hrecs : g.records.map readRec = g.records.map nrec := congrArg XGen.records h
  have hrefs : g.refs.map normRef = g.refs := congrArg XGen.refs h
  refine ⟨?_, normText_eq_self hp, ?_, ?_, ?_⟩
  · refine ⟨normText_eq_self (congrArg XCreator.creationdate hc), normText_eq_self (congrArg XCreator.hostname hc),
      normText_eq_self (congrArg XCreator.toolName hc), normText_eq_self (congrArg XCreator.location hc),
      normText_eq_self (congrArg XCreator.comment hc), ?_⟩
    have ha : g.creator.authors.map normAuthor = g.creator.authors := congrArg XCreator.authors hc
    intro a hm
    have : normText a.name = a.name := congrArg XAuthor.name (map_eq_self ha a hm)
    exact normText_eq_self this
  · intro r hr
    have hr' : g.rootHash = some r := by simpa using hr
    by_cases he : r.entries = []
    · exact Or.inl he
    · rw [hr'] at hroot
      have : readRoot r = nroot r := by simpa [readRootOpt, he] using hroot
      exact wfRoot_of_readRoot (hsroot r hr') this
  · intro r hr
    obtain ⟨hp, hf⟩ := hsrecs r hr
    exact wfRecord_of_readRec hp hf (List.map_inj_left.1 hrecs r hr)
  · intro r hr
    have := map_eq_self hrefs r hr
    exact ⟨normText_eq_self (congrArg XRef.path this), normText_eq_self (congrArg XRef.c4 this)⟩

theorem mem_nrec_entries (r : XRecord) (e : XEntry) : e ∈ (nrec r).entries ↔ e ∈ r.entries := by
  unfold nrec
  cases r.isDir <;> simp [mem_isort_d]

/-- if the round trip holds then the formats are supported and no record is named "." — because the reader never
returns anything else (`parse_good`) -/
theorem shape_of_roundtrip {g : XGen} (h : parse (toXml g) = norm g) : Shape g := by
  obtain ⟨hrecs, hroot⟩ := parse_good (toXml g)
  rw [h, norm_eq] at hrecs hroot
  simp only at hrecs hroot
  refine ⟨?_, ?_⟩
  · intro r hr e he
    have hne : r.entries ≠ [] := fun h0 => by rw [h0] at he; cases he
    have := hroot (nroot r) (by simp [hr, hne])
    exact this e ((mem_nrec_entries r e).2 he)
  · intro r hr
    obtain ⟨hp, hg⟩ := hrecs (nrec r) (List.mem_map.2 ⟨r, hr, rfl⟩)
    exact ⟨hp, fun e he => hg e ((mem_nrec_entries r e).2 he)⟩

/-- **`WfGen` is exactly the condition under which the round trip holds** -/
theorem roundtrip_iff_wf (g : XGen) : parse (toXml g) = norm g ↔ WfGen g := by
  constructor
  · intro h
    have hs := shape_of_roundtrip h
    rw [parse_toXml_readBack g hs] at h
    exact wf_of_readBack hs h
  · exact parse_toXml g

/-- the reader on ANY tree (not only on what the writer wrote): it never returns an entry whose format is not a
supported one, nor a record named "." among the records -/
theorem reader_returns_supported_formats (e : Elem) :
    (∀ r ∈ (parse e).records, r.path ≠ "." ∧ FormatsOk r.entries) ∧ ∀ r ∈ (parse e).rootHash, FormatsOk r.entries :=
  parse_good e

/-- what the reader returns when only the structural conditions hold (supported formats, no record named "."):
`readBack g`, i.e. every optional text through `normText` (empty ⇒ absent), structure hashes re-attached to the first
entry of their format, file entries sorted and without structure hash -/
theorem parse_toXml_shape (g : XGen) (h : Shape g) : parse (toXml g) = readBack g := parse_toXml_readBack g h

/-- the chain file reads back as written exactly when every entry is well-formed -/
theorem parseChain_roundtrip_iff (cs : List XChainEntry) :
    parseChain (chainToXml cs) = cs ↔ ∀ c ∈ cs, WfChainEntry c := parseChain_eq_self_iff cs

end MhlProps.C10
