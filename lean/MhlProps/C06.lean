/-
C06 — Histories are append-only and generations are numbered without gaps.

The new manifest is numbered one above the highest existing generation and named `NNNN_<folder>_<UTC time>Z.mhl`;
the chain file afterwards lists all earlier entries unchanged and in order followed by exactly one new entry;
reloading yields generations 1..n ascending.

About `MhlModel.parseGenChars` / `genFileNameChars` (history.py `_new_generation_filename`, the file-name regex of
`load_from_path`), `latestGenerationNumber`, `loadGens`, `writeOne`, `HistStore.add`, `Node.updateAt`,
`applyWritten`.
-/
import MhlProps.Proofs.NameLemmas

namespace MhlProps.C06
open MhlModel

/-! ### 1. the generated name parses back to its number -/

/-- the exact behaviour of the parser on a generated name: the number comes back unless the folder name or the
time stamp contains a line feed (the `.+` of the regular expression does not match `\n`).  Nothing else about the
folder name matters: it may be empty, start with digits, contain `_` or `.mhl`. -/
theorem parse_genFileName_exact (n : Nat) (folder stamp : List Char) :
    parseGenChars (genFileNameChars n folder stamp)
      = if folder.contains '\n' || stamp.contains '\n' then none else some n := by
  have hshape : genFileNameChars n folder stamp
      = (pad4Chars n ++ '_' :: (folder ++ '_' :: stamp)) ++ extChars := by
    simp [genFileNameChars]
  have hlen := pad4Chars_length n
  have hdig := pad4Chars_isDigit n
  obtain ⟨c, tl, hp⟩ : ∃ c tl, pad4Chars n = c :: tl := by
    cases h : pad4Chars n with
    | nil => rw [h] at hlen; simp at hlen
    | cons c tl => exact ⟨c, tl, rfl⟩
  have hc : isDigit c = true := hdig c (by simp [hp])
  rw [hshape, hp, List.cons_append, parseGenChars_stem c _ hc, ← List.cons_append, ← hp,
    parseGenStem_block _ _ hdig hlen, decVal_pad4Chars]
  have h1 : (folder ++ '_' :: stamp).isEmpty = false := by
    cases folder <;> rfl
  have h2 : (folder ++ '_' :: stamp).contains '\n' = (folder.contains '\n' || stamp.contains '\n') := by
    simp only [List.contains_eq_mem, List.mem_append, List.mem_cons]
    have : ('\n' = '_') = False := by decide
    simp [this]
  rw [h1, h2, Bool.false_or]

theorem parse_genFileName (n : Nat) (folder stamp : List Char) (hf : '\n' ∉ folder) (hs : '\n' ∉ stamp) :
    parseGenChars (genFileNameChars n folder stamp) = some n := by
  rw [parse_genFileName_exact, if_neg]
  simp [hf, hs]

/-- the side condition of `parse_genFileName` is exactly what is needed -/
theorem parse_genFileName_iff (n : Nat) (folder stamp : List Char) :
    parseGenChars (genFileNameChars n folder stamp) = some n ↔ '\n' ∉ folder ∧ '\n' ∉ stamp := by
  rw [parse_genFileName_exact]
  by_cases hf : '\n' ∈ folder <;> by_cases hs : '\n' ∈ stamp <;> simp [hf, hs]

/-- a generated name with a line feed in the folder name or the stamp is not recognised as a manifest at all -/
theorem parse_genFileName_newline (n : Nat) (folder stamp : List Char) (h : '\n' ∈ folder ∨ '\n' ∈ stamp) :
    parseGenChars (genFileNameChars n folder stamp) = none := by
  rw [parse_genFileName_exact, if_pos]
  rcases h with h | h <;> simp [h]

/-- the same on strings -/
theorem parseGenName_genFileName (n : Nat) (folder stamp : String)
    (hf : '\n' ∉ folder.toList) (hs : '\n' ∉ stamp.toList) :
    parseGenName (genFileName n folder stamp) = some n := by
  unfold parseGenName genFileName
  rw [String.toList_ofList]
  exact parse_genFileName n _ _ hf hs

/-- names of different generations differ (same folder, same second) -/
theorem genFileName_injective_number (n m : Nat) (folder stamp folder' stamp' : String)
    (hf : '\n' ∉ folder.toList) (hs : '\n' ∉ stamp.toList)
    (hf' : '\n' ∉ folder'.toList) (hs' : '\n' ∉ stamp'.toList)
    (h : genFileName n folder stamp = genFileName m folder' stamp') : n = m := by
  have h1 := parseGenName_genFileName n folder stamp hf hs
  have h2 := parseGenName_genFileName m folder' stamp' hf' hs'
  rw [h, h2] at h1
  exact (Option.some.inj h1).symm

example : parseGenChars (genFileNameChars 12 "A002R2EC".toList "2020-01-16_091500Z".toList) = some 12 :=
  parse_genFileName _ _ _ (by decide) (by decide)
/-- a folder whose own name looks like a manifest name -/
example : parseGenChars (genFileNameChars 12345 "0007_x.mhl".toList "Z".toList) = some 12345 :=
  parse_genFileName _ _ _ (by decide) (by decide)
example : genFileNameChars 12 "A002R2EC".toList "2020-01-16_091500Z".toList
    = "0012_A002R2EC_2020-01-16_091500Z.mhl".toList := by
  simp [genFileNameChars, pad4Chars, decChars, Codec.digits, Codec.digitsRev, Codec.rjust, extChars_eq]
/-- non-vacuity of the negative side: a folder called "a\nb" -/
example : parseGenChars (genFileNameChars 1 "a\nb".toList "Z".toList) = none :=
  parse_genFileName_newline _ _ _ (Or.inl (by decide))

/-! ### 2. the zero-padded number -/

theorem pad4_length (n : Nat) :
    4 ≤ (pad4Chars n).length ∧ (∀ c ∈ pad4Chars n, isDigit c = true) :=
  ⟨pad4Chars_length n, pad4Chars_isDigit n⟩

theorem pad4_injective : Function.Injective pad4Chars := pad4Chars_injective

/-- `pad4Chars` is inverted by the digit loop of the parser -/
theorem pad4_decode (n : Nat) : (pad4Chars n).foldl (fun r c => r * 10 + (c.toNat - 48)) 0 = n :=
  decVal_pad4Chars n

example : pad4Chars 7 = "0007".toList ∧ pad4Chars 0 = "0000".toList ∧ pad4Chars 123456 = "123456".toList := by
  simp [pad4Chars, decChars, Codec.digits, Codec.digitsRev, Codec.rjust]

/-! ### 3. what `write_new_generation` numbers and names -/

theorem writeOne_number (rootHist : Hist) (s : Session) (folderName stamp process : String) (h : Hist)
    (refs : List Written) (w : Written)
    (hw : writeOne rootHist s folderName stamp process none h refs = .ok w) :
    w.number = latestGenerationNumber h.gens + 1 ∧ w.histRoot = h.root ∧
      w.gen.fileName = genFileName w.number ((h.root.getLast?).getD folderName) stamp := by
  unfold writeOne at hw
  cases hm : (s.get h.root).records.mapM validateRecord with
  | error e => simp [hm, bind, Except.bind] at hw
  | ok recs =>
    simp only [hm, bind, Except.bind, pure, Except.pure, Except.ok.injEq] at hw
    subst hw
    exact ⟨rfl, rfl, rfl⟩

/-- the new manifest is present and unaltered -/
theorem writeOne_state (rootHist : Hist) (s : Session) (folderName stamp process : String)
    (customBase : Option String) (h : Hist) (refs : List Written) (w : Written)
    (hw : writeOne rootHist s folderName stamp process customBase h refs = .ok w) :
    w.gen.state = .ok ∧ w.number = latestGenerationNumber h.gens + 1 ∧ w.histRoot = h.root := by
  unfold writeOne at hw
  cases hm : (s.get h.root).records.mapM validateRecord with
  | error e => simp [hm, bind, Except.bind] at hw
  | ok recs =>
    simp only [hm, bind, Except.bind, pure, Except.pure, Except.ok.injEq] at hw
    subst hw
    exact ⟨rfl, rfl, rfl⟩

/-! ### 4. the latest generation number is the maximum / the last -/

theorem latest_le_of_bound (gens : List LGen) (b : Nat) (h : ∀ g ∈ gens, g.number ≤ b) :
    latestGenerationNumber gens ≤ b := by
  induction gens using List.reverseRecOn with
  | nil => simp [latestGenerationNumber]
  | append_singleton l x ih =>
    rw [latestGenerationNumber_append_one]
    split
    · exact h x (by simp)
    · exact ih (fun g hg => h g (by simp [hg]))

/-- ascending numbers suffice (positivity is not needed: if the last number is 0, all are) -/
theorem latest_is_max_of_sorted (gens : List LGen)
    (hasc : (gens.map (·.number)).Pairwise (· ≤ ·)) :
    (∀ g ∈ gens, g.number ≤ latestGenerationNumber gens) ∧
      latestGenerationNumber gens = (gens.getLast?.map (·.number)).getD 0 := by
  induction gens using List.reverseRecOn with
  | nil => simp [latestGenerationNumber]
  | append_singleton l x ih =>
    rw [List.map_append, List.pairwise_append] at hasc
    obtain ⟨_, _, hlx⟩ := hasc
    have hle : ∀ g ∈ l, g.number ≤ x.number := fun g hg =>
      hlx g.number (List.mem_map.2 ⟨g, hg, rfl⟩) x.number (by simp)
    rw [latestGenerationNumber_append_one]
    by_cases hx : x.number = 0
    · have h0 : latestGenerationNumber l = 0 :=
        Nat.le_zero.1 (latest_le_of_bound l 0 (fun g hg => hx ▸ hle g hg))
      simp only [hx, bne_self_eq_false, Bool.false_eq_true, if_false, h0]
      refine ⟨?_, by simp [hx]⟩
      intro g hg
      rcases List.mem_append.1 hg with hg | hg
      · exact hx ▸ hle g hg
      · simp at hg; subst hg; omega
    · have : (x.number != 0) = true := by simpa using hx
      simp only [this, if_true]
      refine ⟨?_, by simp⟩
      intro g hg
      rcases List.mem_append.1 hg with hg | hg
      · exact hle g hg
      · simp at hg; subst hg; exact Nat.le_refl _

theorem latest_is_max (gens : List LGen)
    (hasc : (gens.map (·.number)).Pairwise (· ≤ ·)) (_hpos : ∀ g ∈ gens, 0 < g.number) :
    (∀ g ∈ gens, g.number ≤ latestGenerationNumber gens) ∧
      latestGenerationNumber gens = (gens.getLast?.map (·.number)).getD 0 :=
  latest_is_max_of_sorted gens hasc

/-- without the ordering the latest number is NOT the maximum (it is the last non-zero one) -/
example : latestGenerationNumber [⟨3, default⟩, ⟨1, default⟩] = 1 := by decide

theorem loadGens_sorted (s : HistStore) : ((loadGens s).map (·.number)).Pairwise (· ≤ ·) := by
  rw [List.pairwise_map]
  exact isort_pairwise LGen.number _

/-- so for a loaded history the next number is one above every number present -/
theorem loadGens_latest_is_max (s : HistStore) :
    (∀ g ∈ loadGens s, g.number ≤ latestGenerationNumber (loadGens s)) ∧
      latestGenerationNumber (loadGens s) = ((loadGens s).getLast?.map (·.number)).getD 0 :=
  latest_is_max_of_sorted _ (loadGens_sorted s)

/-- for generations 1..n the latest number is n -/
theorem latest_of_contiguous (gens : List LGen) (n : Nat) (h : gens.map (·.number) = List.range' 1 n) :
    latestGenerationNumber gens = n := by
  have hs : (gens.map (·.number)).Pairwise (· ≤ ·) := by
    rw [h]; exact (List.pairwise_lt_range' (s := 1) (n := n)).imp (fun h => Nat.le_of_lt h)
  rw [(latest_is_max_of_sorted gens hs).2, ← List.getLast?_map, h]
  cases n with
  | zero => rfl
  | succ n => rw [List.range'_1_concat]; simp; omega

/-! ### 5. the new name is fresh -/

theorem new_name_fresh (rootHist : Hist) (s : Session) (folderName stamp process : String) (h : Hist)
    (refs : List Written) (w : Written)
    (hw : writeOne rootHist s folderName stamp process none h refs = .ok w)
    (hasc : (h.gens.map (·.number)).Pairwise (· ≤ ·))
    (hfolder : '\n' ∉ ((h.root.getLast?).getD folderName).toList) (hstamp : '\n' ∉ stamp.toList) :
    parseGenName w.gen.fileName = some (latestGenerationNumber h.gens + 1) ∧
      ∀ g ∈ h.gens, parseGenName g.gen.fileName = some g.number → w.gen.fileName ≠ g.gen.fileName := by
  obtain ⟨hnum, _, hname⟩ := writeOne_number rootHist s folderName stamp process h refs w hw
  have hparse : parseGenName w.gen.fileName = some (latestGenerationNumber h.gens + 1) := by
    rw [hname, hnum]; exact parseGenName_genFileName _ _ _ hfolder hstamp
  refine ⟨hparse, ?_⟩
  intro g hg hgp heq
  rw [heq, hgp] at hparse
  have := (latest_is_max_of_sorted h.gens hasc).1 g hg
  have := Option.some.inj hparse
  omega

/-! ### 6. append-only -/

theorem add_appends (s : HistStore) (w : Written) :
    (s.add w).gens = s.gens ++ [w.gen] ∧ (s.add w).chain = s.chain ++ [⟨w.number, w.gen.fileName⟩] :=
  ⟨rfl, rfl⟩

/-- every old manifest and every old chain entry is still there, at the same position -/
theorem add_preserves (s : HistStore) (w : Written) :
    (∀ i (hi : i < s.gens.length), (s.add w).gens[i]? = some s.gens[i]) ∧
    (∀ i (hi : i < s.chain.length), (s.add w).chain[i]? = some s.chain[i]) ∧
    (s.add w).gens.length = s.gens.length + 1 ∧ (s.add w).chain.length = s.chain.length + 1 := by
  refine ⟨?_, ?_, by simp [HistStore.add], by simp [HistStore.add]⟩
  · intro i hi; simp [HistStore.add, List.getElem?_append_left hi]
  · intro i hi; simp [HistStore.add, List.getElem?_append_left hi]

theorem addGeneration_name (w : Written) (x : Node) : (Node.addGeneration w x).name = x.name := by
  cases x <;> rfl

/-- `Node.updateAt f t p` leaves the `hist` (the `ascmhl` folder) of every node untouched whose path `q` does not
have `p` as a prefix — i.e. every node that is not at or below `p`.  (Nodes above `p` get new children but keep their
own `hist`.)  No distinctness of sibling names is needed because `at?` and `updateKids` agree on the first child of a
given name; `f` only has to keep the name of the node. -/
theorem updateAt_at?_hist (f : Node → Node) (hf : ∀ x, (f x).name = x.name) (t : Node) (p q : RelPath)
    (h : ¬ p <+: q) :
    ((Node.updateAt f t p).at? q).map Node.hist = (t.at? q).map Node.hist := by
  induction q generalizing t p with
  | nil =>
    cases p with
    | nil => exact absurd (List.prefix_refl _) h
    | cons n rest => cases t <;> simp [Node.updateAt, Node.at?, Node.hist]
  | cons m q' ih =>
    cases p with
    | nil => exact absurd (List.nil_prefix) h
    | cons n rest =>
      cases t with
      | file nm c => simp [Node.updateAt]
      | dir nm cs hs =>
        simp only [Node.updateAt, Node.at?]
        by_cases hmn : m = n
        · subst hmn
          rw [findChild_updateKids_eq f hf]
          cases findChild cs m with
          | none => rfl
          | some c =>
            have : ¬ rest <+: q' := fun hp => h (List.cons_prefix_cons.2 ⟨rfl, hp⟩)
            exact ih c rest this
        · rw [findChild_updateKids_ne f hf n m rest cs hmn]

/-- nodes neither above, at, nor below `p` are not changed at all -/
theorem updateAt_at?_disjoint (f : Node → Node) (hf : ∀ x, (f x).name = x.name) (t : Node) (p q : RelPath)
    (h : ¬ p <+: q) (h' : ¬ q <+: p) :
    (Node.updateAt f t p).at? q = t.at? q := by
  induction q generalizing t p with
  | nil => exact absurd (List.nil_prefix) h'
  | cons m q' ih =>
    cases p with
    | nil => exact absurd (List.nil_prefix) h
    | cons n rest =>
      cases t with
      | file nm c => simp [Node.updateAt]
      | dir nm cs hs =>
        simp only [Node.updateAt, Node.at?]
        by_cases hmn : m = n
        · subst hmn
          rw [findChild_updateKids_eq f hf]
          cases findChild cs m with
          | none => rfl
          | some c =>
            have h1 : ¬ rest <+: q' := fun hp => h (List.cons_prefix_cons.2 ⟨rfl, hp⟩)
            have h2 : ¬ q' <+: rest := fun hp => h' (List.cons_prefix_cons.2 ⟨rfl, hp⟩)
            exact ih c rest h1 h2
        · rw [findChild_updateKids_ne f hf n m rest cs hmn]

/-- the node at `p` itself becomes `f` of it -/
theorem updateAt_at?_self (f : Node → Node) (hf : ∀ x, (f x).name = x.name) (t : Node) (p : RelPath) :
    (Node.updateAt f t p).at? p = (t.at? p).map f := by
  induction p generalizing t with
  | nil => cases t <;> simp [Node.updateAt, Node.at?]
  | cons n rest ih =>
    cases t with
    | file nm c => simp [Node.updateAt, Node.at?]
    | dir nm cs hs =>
      simp only [Node.updateAt, Node.at?]
      rw [findChild_updateKids_eq f hf]
      cases findChild cs n with
      | none => rfl
      | some c => exact ih c

/-- writing generations only touches the `ascmhl` folders at or below the roots of the histories that wrote -/
theorem applyWritten_other_untouched (t : Node) (ws : List Written) (q : RelPath)
    (h : ∀ w ∈ ws, ¬ w.histRoot <+: q) :
    ((applyWritten t ws).at? q).map Node.hist = (t.at? q).map Node.hist := by
  unfold applyWritten
  induction ws generalizing t with
  | nil => rfl
  | cons w ws ih =>
    simp only [List.foldl_cons]
    rw [ih _ (fun x hx => h x (by simp [hx]))]
    exact updateAt_at?_hist _ (addGeneration_name w) t w.histRoot q (h w (by simp))

/-- in particular the root's `ascmhl` folder is unchanged when only nested histories wrote -/
theorem applyWritten_root_untouched (t : Node) (ws : List Written) (h : ∀ w ∈ ws, w.histRoot ≠ []) :
    (applyWritten t ws).hist = t.hist := by
  have := applyWritten_other_untouched t ws [] (fun w hw hp => h w hw (List.prefix_nil.1 hp))
  have e : ∀ x : Node, x.at? [] = some x := by intro x; cases x <;> rfl
  simpa [e] using this

/-- and the folder of the history that wrote gets exactly `HistStore.add` -/
theorem applyWritten_single_at (t : Node) (w : Written) (nm : String) (cs : List Node) (hs : Option HistStore)
    (h : t.at? w.histRoot = some (.dir nm cs hs)) :
    (applyWritten t [w]).at? w.histRoot = some (.dir nm cs (some ((hs.getD {}).add w))) := by
  simp only [applyWritten, List.foldl_cons, List.foldl_nil]
  rw [updateAt_at?_self _ (addGeneration_name w), h]
  rfl

/-! ### 7. reloading after a write gives 1..n+1 -/

theorem loadGens_add (s : HistStore) (w : Written) (k : Nat)
    (hparse : parseGenName w.gen.fileName = some k) (hstate : w.gen.state = .ok)
    (hmax : ∀ g ∈ loadGens s, g.number ≤ k) :
    loadGens (s.add w) = loadGens s ++ [⟨k, w.gen⟩] := by
  unfold loadGens at hmax ⊢
  have hadd : (s.add w).gens = s.gens ++ [w.gen] := rfl
  simp only [hadd, List.filterMap_append]
  have hlast : List.filterMap (fun g : Generation =>
      if g.state == .missing then none else (parseGenName g.fileName).map fun n => (⟨n, g⟩ : LGen)) [w.gen]
      = [⟨k, w.gen⟩] := by
    simp [hparse, hstate]
  rw [hlast]
  apply isort_append_last
  intro a ha
  have := hmax a ((mem_isort_n _ a _).2 ha)
  simpa using this

theorem reload_contiguous (s : HistStore) (w : Written) (n : Nat)
    (hgens : (loadGens s).map (·.number) = List.range' 1 n)
    (hparse : parseGenName w.gen.fileName = some (n + 1)) (hstate : w.gen.state = .ok) :
    (loadGens (s.add w)).map (·.number) = List.range' 1 (n + 1) := by
  have hmax : ∀ g ∈ loadGens s, g.number ≤ n + 1 := by
    intro g hg
    have : g.number ∈ List.range' 1 n := hgens ▸ List.mem_map.2 ⟨g, hg, rfl⟩
    rw [List.mem_range'_1] at this
    omega
  rw [loadGens_add s w (n + 1) hparse hstate hmax, List.map_append, hgens, List.range'_1_concat]
  simp [Nat.add_comm]

/-- end to end: a history loaded from a folder with generations 1..n, after `write_new_generation` and a reload, has
generations 1..n+1; all loaded generations are the old ones, in the old order, followed by the new one -/
theorem writeOne_reload_contiguous (rootHist : Hist) (sess : Session) (folderName stamp process : String)
    (h : Hist) (refs : List Written) (w : Written) (s : HistStore) (n : Nat)
    (hload : h.gens = loadGens s)
    (hgens : (loadGens s).map (·.number) = List.range' 1 n)
    (hw : writeOne rootHist sess folderName stamp process none h refs = .ok w)
    (hfolder : '\n' ∉ ((h.root.getLast?).getD folderName).toList) (hstamp : '\n' ∉ stamp.toList) :
    w.number = n + 1 ∧
      loadGens (s.add w) = loadGens s ++ [⟨n + 1, w.gen⟩] ∧
      (loadGens (s.add w)).map (·.number) = List.range' 1 (n + 1) ∧
      (s.add w).chain = s.chain ++ [⟨n + 1, w.gen.fileName⟩] := by
  have hlatest : latestGenerationNumber h.gens = n := by
    rw [hload]; exact latest_of_contiguous _ n hgens
  have hasc : (h.gens.map (·.number)).Pairwise (· ≤ ·) := by
    rw [hload]; exact loadGens_sorted s
  obtain ⟨hparse, _⟩ := new_name_fresh rootHist sess folderName stamp process h refs w hw hasc hfolder hstamp
  obtain ⟨hstate, hnum, _⟩ := writeOne_state rootHist sess folderName stamp process none h refs w hw
  rw [hlatest] at hparse hnum
  have hmax : ∀ g ∈ loadGens s, g.number ≤ n + 1 := by
    intro g hg
    have : g.number ∈ List.range' 1 n := hgens ▸ List.mem_map.2 ⟨g, hg, rfl⟩
    rw [List.mem_range'_1] at this
    omega
  refine ⟨hnum, loadGens_add s w (n + 1) hparse hstate hmax,
    reload_contiguous s w n hgens hparse hstate, ?_⟩
  rw [(add_appends s w).2, hnum]

/-! ### non-vacuity -/

def exStore : HistStore :=
  { gens := [{ fileName := "0001_A_2020-01-16_091500Z.mhl" }, { fileName := "0002_A_2020-01-17_143000Z.mhl" }],
    chain := [⟨1, "0001_A_2020-01-16_091500Z.mhl"⟩, ⟨2, "0002_A_2020-01-17_143000Z.mhl"⟩] }

def exHist : Hist := .mk [] (loadGens exStore) exStore.chain true []

example : (loadGens exStore).map (·.number) = List.range' 1 2 := by decide

/-- all hypotheses of `writeOne_reload_contiguous` hold on this history -/
example : ∃ w, writeOne exHist {} "A" "2020-01-18_101010Z" "in-place" none exHist [] = .ok w ∧
    w.number = 3 ∧ (loadGens (exStore.add w)).map (·.number) = [1, 2, 3] ∧
    (exStore.add w).chain.map (·.seq) = [1, 2, 3] := by
  refine ⟨_, rfl, ?_⟩
  have h := writeOne_reload_contiguous exHist {} "A" "2020-01-18_101010Z" "in-place" exHist [] _ exStore 2
    rfl (by decide) rfl (by decide) (by decide)
  refine ⟨h.1, h.2.2.1, ?_⟩
  rw [h.2.2.2]; rfl

/-- a tree with two nested histories: writing into `A` leaves the `ascmhl` folder of `B` and of the root alone and
appends to that of `A` -/
def exTree : Node :=
  .dir "R" [.dir "A" [.file "a.mov" []] (some {}), .dir "B" [] (some exStore)] (some exStore)

example (w : Written) (hw : w.histRoot = ["A"]) :
    ((applyWritten exTree [w]).at? ["B"]).map Node.hist = some (some exStore) ∧
    (applyWritten exTree [w]).hist = some exStore ∧
    ((applyWritten exTree [w]).at? ["A"]).map Node.hist = some (some (({} : HistStore).add w)) := by
  refine ⟨?_, ?_, ?_⟩
  · rw [applyWritten_other_untouched exTree [w] ["B"] (by simp [hw])]; rfl
  · rw [applyWritten_root_untouched exTree [w] (by simp [hw])]; rfl
  · have := applyWritten_single_at exTree w "A" [.file "a.mov" []] (some {}) (by rw [hw]; rfl)
    rw [hw] at this; rw [this]; rfl

end MhlProps.C06
