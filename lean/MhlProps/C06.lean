/-
C06 — Histories are append-only and generations are numbered without gaps.

The new manifest is numbered one above the highest existing generation and named `NNNN_<folder>_<UTC time>Z.mhl`;
the chain file afterwards lists all earlier entries unchanged and in order followed by exactly one new entry;
reloading yields generations 1..n ascending.

About `MhlModel.parseGenChars` / `genFileNameChars` (history.py `_new_generation_filename`, the file-name regex of
`load_from_path`), `latestGenerationNumber`, `HistStore.lists`, `loadGens`, `writeOne`, `HistStore.add`,
`Node.updateAt`, `applyWritten`.

After the repair of `load_from_path` (manifests the chain file does not list are ignored) and of the model
(`loadGens` drops them; `HistStore.add` overwrites a stored manifest of the same name):
  5. `mem_loadGens_iff`, `loadGens_listed_only`, `dropUnlisted`, `checkStore_dropUnlisted`, `loadHistory_dropUnlisted`:
     what is loaded is listed, and loading does not depend on what is not listed;
  6. `new_name_fresh` (fresh among the LOADED manifests), `new_name_fresh_listed` (on disk: fresh among the listed
     manifests, and not listed itself);
  7. `Listed` (names pairwise different, all manifests listed — the shape the tool leaves), `listed_add`;
     `add_appends` / `add_preserves` for a fresh name, `add_gens` / `add_chain_preserves` / `add_keeps_others` in general;
  8. `loadGens_add` (+ `_lt`, `_unlisted`), `reload_contiguous`, `writeOne_reload_contiguous`;
  9. `interrupted_generation_absent`, `interrupted_create_absent`: a `create` killed between its two replaces.
For a `Listed` store `dropUnlisted` is the identity and a fresh name makes `add` the plain append of before.
-/
import MhlProps.Proofs.NameLemmas

namespace MhlProps.C06
open MhlModel

/-! ### 1. the generated name parses back to its number -/

/-- the exact behaviour of the parser on a generated name: the number comes back unless the folder name or the
time stamp contains a line feed (the `.+` of the regular expression does not match `\n`).  Nothing else about the
folder name matters: it may be empty, start with digits, contain `_` or `.mhl`. -/
theorem parse_genFileName_exact (n : Nat) (folder stamp : List Char) :
    parseGenChars (genFileNameChars n folder stamp)
      = if folder.contains '\n' || stamp.contains '\n' then none else some n := by
  have hshape : genFileNameChars n folder stamp
      = (pad4Chars n ++ '_' :: (folder ++ '_' :: stamp)) ++ extChars := by
    simp [genFileNameChars]
  have hlen := pad4Chars_length n
  have hdig := pad4Chars_isDigit n
  obtain ⟨c, tl, hp⟩ : ∃ c tl, pad4Chars n = c :: tl := by
    cases h : pad4Chars n with
    | nil => rw [h] at hlen; simp at hlen
    | cons c tl => exact ⟨c, tl, rfl⟩
  have hc : isDigit c = true := hdig c (by simp [hp])
  rw [hshape, hp, List.cons_append, parseGenChars_stem c _ hc, ← List.cons_append, ← hp,
    parseGenStem_block _ _ hdig hlen, decVal_pad4Chars]
  have h1 : (folder ++ '_' :: stamp).isEmpty = false := by
    cases folder <;> rfl
  have h2 : (folder ++ '_' :: stamp).contains '\n' = (folder.contains '\n' || stamp.contains '\n') := by
    simp only [List.contains_eq_mem, List.mem_append, List.mem_cons]
    have : ('\n' = '_') = False := by decide
    simp [this]
  rw [h1, h2, Bool.false_or]

theorem parse_genFileName (n : Nat) (folder stamp : List Char) (hf : '\n' ∉ folder) (hs : '\n' ∉ stamp) :
    parseGenChars (genFileNameChars n folder stamp) = some n := by
  rw [parse_genFileName_exact, if_neg]
  simp [hf, hs]

/-- the side condition of `parse_genFileName` is exactly what is needed -/
theorem parse_genFileName_iff (n : Nat) (folder stamp : List Char) :
    parseGenChars (genFileNameChars n folder stamp) = some n ↔ '\n' ∉ folder ∧ '\n' ∉ stamp := by
  rw [parse_genFileName_exact]
  by_cases hf : '\n' ∈ folder <;> by_cases hs : '\n' ∈ stamp <;> simp [hf, hs]

/-- a generated name with a line feed in the folder name or the stamp is not recognised as a manifest at all -/
theorem parse_genFileName_newline (n : Nat) (folder stamp : List Char) (h : '\n' ∈ folder ∨ '\n' ∈ stamp) :
    parseGenChars (genFileNameChars n folder stamp) = none := by
  rw [parse_genFileName_exact, if_pos]
  rcases h with h | h <;> simp [h]

/-- the same on strings -/
theorem parseGenName_genFileName (n : Nat) (folder stamp : String)
    (hf : '\n' ∉ folder.toList) (hs : '\n' ∉ stamp.toList) :
    parseGenName (genFileName n folder stamp) = some n := by
  unfold parseGenName genFileName
  rw [String.toList_ofList]
  exact parse_genFileName n _ _ hf hs

/-- names of different generations differ (same folder, same second) -/
theorem genFileName_injective_number (n m : Nat) (folder stamp folder' stamp' : String)
    (hf : '\n' ∉ folder.toList) (hs : '\n' ∉ stamp.toList)
    (hf' : '\n' ∉ folder'.toList) (hs' : '\n' ∉ stamp'.toList)
    (h : genFileName n folder stamp = genFileName m folder' stamp') : n = m := by
  have h1 := parseGenName_genFileName n folder stamp hf hs
  have h2 := parseGenName_genFileName m folder' stamp' hf' hs'
  rw [h, h2] at h1
  exact (Option.some.inj h1).symm

example : parseGenChars (genFileNameChars 12 "A002R2EC".toList "2020-01-16_091500Z".toList) = some 12 :=
  parse_genFileName _ _ _ (by decide) (by decide)
/-- a folder whose own name looks like a manifest name -/
example : parseGenChars (genFileNameChars 12345 "0007_x.mhl".toList "Z".toList) = some 12345 :=
  parse_genFileName _ _ _ (by decide) (by decide)
example : genFileNameChars 12 "A002R2EC".toList "2020-01-16_091500Z".toList
    = "0012_A002R2EC_2020-01-16_091500Z.mhl".toList := by
  simp [genFileNameChars, pad4Chars, decChars, Codec.digits, Codec.digitsRev, Codec.rjust, extChars_eq]
/-- non-vacuity of the negative side: a folder called "a\nb" -/
example : parseGenChars (genFileNameChars 1 "a\nb".toList "Z".toList) = none :=
  parse_genFileName_newline _ _ _ (Or.inl (by decide))

/-! ### 2. the zero-padded number -/

theorem pad4_length (n : Nat) :
    4 ≤ (pad4Chars n).length ∧ (∀ c ∈ pad4Chars n, isDigit c = true) :=
  ⟨pad4Chars_length n, pad4Chars_isDigit n⟩

theorem pad4_injective : Function.Injective pad4Chars := pad4Chars_injective

/-- `pad4Chars` is inverted by the digit loop of the parser -/
theorem pad4_decode (n : Nat) : (pad4Chars n).foldl (fun r c => r * 10 + (c.toNat - 48)) 0 = n :=
  decVal_pad4Chars n

example : pad4Chars 7 = "0007".toList ∧ pad4Chars 0 = "0000".toList ∧ pad4Chars 123456 = "123456".toList := by
  simp [pad4Chars, decChars, Codec.digits, Codec.digitsRev, Codec.rjust]

/-! ### 3. what `write_new_generation` numbers and names -/

theorem writeOne_number (rootHist : Hist) (s : Session) (folderName stamp process : String) (h : Hist)
    (refs : List Written) (w : Written)
    (hw : writeOne rootHist s folderName stamp process none h refs = .ok w) :
    w.number = latestGenerationNumber h.gens + 1 ∧ w.histRoot = h.root ∧
      w.gen.fileName = genFileName w.number ((h.root.getLast?).getD folderName) stamp := by
  unfold writeOne at hw
  cases hm : (s.get h.root).records.mapM validateRecord with
  | error e => simp [hm, bind, Except.bind] at hw
  | ok recs =>
    simp only [hm, bind, Except.bind, pure, Except.pure, Except.ok.injEq] at hw
    subst hw
    exact ⟨rfl, rfl, rfl⟩

/-- the new manifest is present and unaltered -/
theorem writeOne_state (rootHist : Hist) (s : Session) (folderName stamp process : String)
    (customBase : Option String) (h : Hist) (refs : List Written) (w : Written)
    (hw : writeOne rootHist s folderName stamp process customBase h refs = .ok w) :
    w.gen.state = .ok ∧ w.number = latestGenerationNumber h.gens + 1 ∧ w.histRoot = h.root := by
  unfold writeOne at hw
  cases hm : (s.get h.root).records.mapM validateRecord with
  | error e => simp [hm, bind, Except.bind] at hw
  | ok recs =>
    simp only [hm, bind, Except.bind, pure, Except.pure, Except.ok.injEq] at hw
    subst hw
    exact ⟨rfl, rfl, rfl⟩

/-! ### 4. the latest generation number is the maximum / the last -/

theorem latest_le_of_bound (gens : List LGen) (b : Nat) (h : ∀ g ∈ gens, g.number ≤ b) :
    latestGenerationNumber gens ≤ b := by
  induction gens using List.reverseRecOn with
  | nil => simp [latestGenerationNumber]
  | append_singleton l x ih =>
    rw [latestGenerationNumber_append_one]
    split
    · exact h x (by simp)
    · exact ih (fun g hg => h g (by simp [hg]))

/-- ascending numbers suffice (positivity is not needed: if the last number is 0, all are) -/
theorem latest_is_max_of_sorted (gens : List LGen)
    (hasc : (gens.map (·.number)).Pairwise (· ≤ ·)) :
    (∀ g ∈ gens, g.number ≤ latestGenerationNumber gens) ∧
      latestGenerationNumber gens = (gens.getLast?.map (·.number)).getD 0 := by
  induction gens using List.reverseRecOn with
  | nil => simp [latestGenerationNumber]
  | append_singleton l x ih =>
    rw [List.map_append, List.pairwise_append] at hasc
    obtain ⟨_, _, hlx⟩ := hasc
    have hle : ∀ g ∈ l, g.number ≤ x.number := fun g hg =>
      hlx g.number (List.mem_map.2 ⟨g, hg, rfl⟩) x.number (by simp)
    rw [latestGenerationNumber_append_one]
    by_cases hx : x.number = 0
    · have h0 : latestGenerationNumber l = 0 :=
        Nat.le_zero.1 (latest_le_of_bound l 0 (fun g hg => hx ▸ hle g hg))
      simp only [hx, bne_self_eq_false, Bool.false_eq_true, if_false, h0]
      refine ⟨?_, by simp [hx]⟩
      intro g hg
      rcases List.mem_append.1 hg with hg | hg
      · exact hx ▸ hle g hg
      · simp at hg; subst hg; omega
    · have : (x.number != 0) = true := by simpa using hx
      simp only [this, if_true]
      refine ⟨?_, by simp⟩
      intro g hg
      rcases List.mem_append.1 hg with hg | hg
      · exact hle g hg
      · simp at hg; subst hg; exact Nat.le_refl _

theorem latest_is_max (gens : List LGen)
    (hasc : (gens.map (·.number)).Pairwise (· ≤ ·)) (_hpos : ∀ g ∈ gens, 0 < g.number) :
    (∀ g ∈ gens, g.number ≤ latestGenerationNumber gens) ∧
      latestGenerationNumber gens = (gens.getLast?.map (·.number)).getD 0 :=
  latest_is_max_of_sorted gens hasc

/-- without the ordering the latest number is NOT the maximum (it is the last non-zero one) -/
example : latestGenerationNumber [⟨3, default⟩, ⟨1, default⟩] = 1 := by decide

theorem loadGens_sorted (s : HistStore) : ((loadGens s).map (·.number)).Pairwise (· ≤ ·) := by
  rw [List.pairwise_map]
  exact isort_pairwise LGen.number _

/-- so for a loaded history the next number is one above every number present -/
theorem loadGens_latest_is_max (s : HistStore) :
    (∀ g ∈ loadGens s, g.number ≤ latestGenerationNumber (loadGens s)) ∧
      latestGenerationNumber (loadGens s) = ((loadGens s).getLast?.map (·.number)).getD 0 :=
  latest_is_max_of_sorted _ (loadGens_sorted s)

/-- for generations 1..n the latest number is n -/
theorem latest_of_contiguous (gens : List LGen) (n : Nat) (h : gens.map (·.number) = List.range' 1 n) :
    latestGenerationNumber gens = n := by
  have hs : (gens.map (·.number)).Pairwise (· ≤ ·) := by
    rw [h]; exact (List.pairwise_lt_range' (s := 1) (n := n)).imp (fun h => Nat.le_of_lt h)
  rw [(latest_is_max_of_sorted gens hs).2, ← List.getLast?_map, h]
  cases n with
  | zero => rfl
  | succ n => rw [List.range'_1_concat]; simp; omega

/-! ### 5. what the chain lists, and what is loaded -/

theorem lists_iff (s : HistStore) (nm : String) : s.lists nm = true ↔ ∃ e ∈ s.chain, e.fileName = nm := by
  simp [HistStore.lists]

theorem lists_eq_false_iff (s : HistStore) (nm : String) : s.lists nm = false ↔ ∀ e ∈ s.chain, e.fileName ≠ nm := by
  rw [← Bool.not_eq_true, lists_iff]
  constructor
  · intro h e he hn; exact h ⟨e, he, hn⟩
  · rintro h ⟨e, he, hn⟩; exact h e he hn

/-- exactly which stored manifests are loaded, and under which number: present, listed in the chain, and named
like a generation -/
theorem mem_loadGens_iff (s : HistStore) (lg : LGen) :
    lg ∈ loadGens s ↔ lg.gen ∈ s.gens ∧ lg.gen.state ≠ .missing ∧ s.lists lg.gen.fileName = true ∧
      parseGenName lg.gen.fileName = some lg.number := by
  unfold loadGens
  rw [mem_isort_n, List.mem_filterMap]
  constructor
  · rintro ⟨g, hg, hx⟩
    by_cases hc : (g.state == .missing || !s.lists g.fileName) = true
    · rw [if_pos hc] at hx; cases hx
    · rw [if_neg hc] at hx
      cases hp : parseGenName g.fileName with
      | none => rw [hp] at hx; cases hx
      | some k =>
        rw [hp] at hx
        simp only [Option.map_some, Option.some.injEq] at hx
        subst hx
        simp only [Bool.or_eq_true, beq_iff_eq, Bool.not_eq_true', not_or, Bool.not_eq_false] at hc
        exact ⟨hg, hc.1, hc.2, hp⟩
  · rintro ⟨hg, hst, hl, hp⟩
    refine ⟨lg.gen, hg, ?_⟩
    have hc : ¬ (lg.gen.state == .missing || !s.lists lg.gen.fileName) = true := by
      simp [hst, hl]
    rw [if_neg hc, hp]
    rfl

/-- the store with every manifest removed that the chain does not list -/
def dropUnlisted (s : HistStore) : HistStore := { s with gens := s.gens.filter fun g => s.lists g.fileName }

theorem dropUnlisted_lists (s : HistStore) (nm : String) : (dropUnlisted s).lists nm = s.lists nm := rfl

/-- `filterMap` does not see elements it maps to `none` -/
theorem filterMap_filter_of_none {α β : Type} (f : α → Option β) (p : α → Bool) (l : List α)
    (h : ∀ a ∈ l, p a = false → f a = none) : (l.filter p).filterMap f = l.filterMap f := by
  induction l with
  | nil => rfl
  | cons a l ih =>
    have ih' := ih (fun x hx => h x (by simp [hx]))
    cases hp : p a with
    | true => rw [List.filter_cons_of_pos (by simpa using hp), List.filterMap_cons, List.filterMap_cons, ih']
    | false =>
      rw [List.filter_cons_of_neg (by simp [hp]), List.filterMap_cons, h a (by simp) hp, ih']

theorem filterMap_congr_mem {α β : Type} (f g : α → Option β) (l : List α) (h : ∀ a ∈ l, f a = g a) :
    l.filterMap f = l.filterMap g := by
  induction l with
  | nil => rfl
  | cons a l ih =>
    rw [List.filterMap_cons, List.filterMap_cons, h a (by simp), ih (fun x hx => h x (by simp [hx]))]

theorem find?_congr_mem {α : Type} (p q : α → Bool) (l : List α) (h : ∀ a ∈ l, p a = q a) :
    l.find? p = l.find? q := by
  induction l with
  | nil => rfl
  | cons a l ih =>
    rw [List.find?_cons, List.find?_cons, h a (by simp), ih (fun x hx => h x (by simp [hx]))]

/-- THE REPAIRED BEHAVIOUR.  Every loaded generation is listed in the chain file, and what is loaded does not depend
on the manifests the chain does not list: the store loads exactly like the store without them. -/
theorem loadGens_listed_only (s : HistStore) :
    (∀ g ∈ loadGens s, s.lists g.gen.fileName = true) ∧
    (∀ g ∈ loadGens s, ∃ e ∈ s.chain, e.fileName = g.gen.fileName) ∧
    loadGens s = loadGens (dropUnlisted s) := by
  refine ⟨fun g hg => ((mem_loadGens_iff s g).1 hg).2.2.1,
    fun g hg => (lists_iff s _).1 ((mem_loadGens_iff s g).1 hg).2.2.1, ?_⟩
  show isort _ (List.filterMap (fun g : Generation =>
      if g.state == .missing || !s.lists g.fileName then none
      else (parseGenName g.fileName).map fun n => (⟨n, g⟩ : LGen)) s.gens) =
    isort _ (List.filterMap (fun g : Generation =>
      if g.state == .missing || !s.lists g.fileName then none
      else (parseGenName g.fileName).map fun n => (⟨n, g⟩ : LGen)) (s.gens.filter fun g => s.lists g.fileName))
  rw [filterMap_filter_of_none]
  intro g _ hl
  simp [hl]

/-- a manifest the chain does not list is not loaded, whatever its state and content -/
theorem unlisted_not_in_loadGens (s : HistStore) (g : Generation) (h : s.lists g.fileName = false) (n : Nat) :
    (⟨n, g⟩ : LGen) ∉ loadGens s := by
  intro hm
  have := ((mem_loadGens_iff s ⟨n, g⟩).1 hm).2.2.1
  rw [h] at this; cases this

/-- the chain check follows the chain entries only: it does not see the manifests the chain does not list -/
theorem find?_filter_listed (s : HistStore) (e : ChainEntry) (he : e ∈ s.chain) :
    (s.gens.filter fun g => s.lists g.fileName).find? (fun g => g.fileName == e.fileName)
      = s.gens.find? (fun g => g.fileName == e.fileName) := by
  rw [List.find?_filter]
  apply find?_congr_mem
  intro g _
  by_cases hn : g.fileName = e.fileName
  · have : s.lists e.fileName = true := (lists_iff s _).2 ⟨e, he, rfl⟩
    simp [this, hn]
  · simp [hn]

theorem foldlM_congr_mem {α β ε : Type} (f g : β → α → Except ε β) (l : List α) (b : β)
    (h : ∀ a ∈ l, ∀ b, f b a = g b a) : l.foldlM f b = l.foldlM g b := by
  induction l generalizing b with
  | nil => rfl
  | cons a l ih =>
    rw [List.foldlM_cons, List.foldlM_cons, h a (by simp) b]
    congr 1
    funext b'
    exact ih b' (fun x hx => h x (by simp [hx]))

/-- two stores with the same chain whose chain entries resolve to the same manifests pass or fail the chain check
alike -/
theorem checkChain_congr (s s' : HistStore) (hc : s'.chain = s.chain)
    (h : ∀ e ∈ s.chain, s'.gens.find? (fun g => g.fileName == e.fileName)
      = s.gens.find? (fun g => g.fileName == e.fileName)) : checkChain s' = checkChain s := by
  unfold checkChain
  rw [hc]
  apply foldlM_congr_mem
  intro e he _
  rw [h e he]

theorem checkStore_dropUnlisted (s : HistStore) : checkStore (some (dropUnlisted s)) = checkStore (some s) := by
  show (if !s.chainPresent then throw errNoChain else checkChain (dropUnlisted s)) =
    (if !s.chainPresent then throw errNoChain else checkChain s)
  rw [checkChain_congr s (dropUnlisted s) rfl (fun e he => find?_filter_listed s e he)]

/-- the loaded history of a folder is the same with and without the manifests the chain does not list -/
theorem loadHistory_dropUnlisted (nm : String) (cs : List Node) (s : HistStore) :
    loadHistory (.dir nm cs (some (dropUnlisted s))) = loadHistory (.dir nm cs (some s)) := by
  unfold loadHistory
  simp only [Node.hist, checkStore_dropUnlisted, buildHist, ← (loadGens_listed_only s).2.2]
  rfl

/-! ### 6. the new name is fresh -/

/-- the name of the new manifest parses to its number, which is above every loaded number, so it is the name of
no LOADED manifest.  (Loaded manifests are listed in the chain, `loadGens_listed_only`: a manifest file the chain
does not list — what a `create` leaves that was killed between its two replaces — may well carry the same name, see
`new_name_fresh_listed` and `exLeftover`.) -/
theorem new_name_fresh (rootHist : Hist) (s : Session) (folderName stamp process : String) (h : Hist)
    (refs : List Written) (w : Written)
    (hw : writeOne rootHist s folderName stamp process none h refs = .ok w)
    (hasc : (h.gens.map (·.number)).Pairwise (· ≤ ·))
    (hfolder : '\n' ∉ ((h.root.getLast?).getD folderName).toList) (hstamp : '\n' ∉ stamp.toList) :
    parseGenName w.gen.fileName = some (latestGenerationNumber h.gens + 1) ∧
      ∀ g ∈ h.gens, parseGenName g.gen.fileName = some g.number → w.gen.fileName ≠ g.gen.fileName := by
  obtain ⟨hnum, _, hname⟩ := writeOne_number rootHist s folderName stamp process h refs w hw
  have hparse : parseGenName w.gen.fileName = some (latestGenerationNumber h.gens + 1) := by
    rw [hname, hnum]; exact parseGenName_genFileName _ _ _ hfolder hstamp
  refine ⟨hparse, ?_⟩
  intro g hg hgp heq
  rw [heq, hgp] at hparse
  have := (latest_is_max_of_sorted h.gens hasc).1 g hg
  have := Option.some.inj hparse
  omega

/-- a name that parses to a number above every loaded number is the name of no stored manifest that is present and
listed in the chain; and if the chain check passes, the chain does not list it at all -/
theorem fresh_of_parse_above (s : HistStore) (nm : String) (k : Nat) (hparse : parseGenName nm = some k)
    (hlt : ∀ g ∈ loadGens s, g.number < k) :
    (∀ g ∈ s.gens, s.lists g.fileName = true → g.state ≠ .missing → g.fileName ≠ nm) ∧
    (checkChain s = .ok () → s.lists nm = false) := by
  have h1 : ∀ g ∈ s.gens, s.lists g.fileName = true → g.state ≠ .missing → g.fileName ≠ nm := by
    intro g hg hl hst hn
    have hm : (⟨k, g⟩ : LGen) ∈ loadGens s := (mem_loadGens_iff s ⟨k, g⟩).2 ⟨hg, hst, hl, by rw [hn]; exact hparse⟩
    exact Nat.lt_irrefl _ (hlt _ hm)
  refine ⟨h1, ?_⟩
  intro hchk
  rw [lists_eq_false_iff]
  intro e he hn
  -- the entry resolves to a present manifest of that name
  have hres : ∃ g, s.gens.find? (fun g => g.fileName == e.fileName) = some g ∧ g.state ≠ .missing := by
    have key : ∀ (l : List ChainEntry), (l.foldlM (fun (_ : Unit) e =>
        match s.gens.find? (fun g => g.fileName == e.fileName) with
        | some g =>
          match g.state with
          | .ok => (pure () : Except Err Unit)
          | .modified => throw errModified
          | .missing => throw errMissingManifest
        | none => throw errMissingManifest) ()) = .ok () → ∀ e ∈ l,
          ∃ g, s.gens.find? (fun g => g.fileName == e.fileName) = some g ∧ g.state ≠ .missing := by
      intro l
      induction l with
      | nil => intro _ e he; cases he
      | cons x l ih =>
        intro hok e he
        rw [List.foldlM_cons] at hok
        cases hf : s.gens.find? (fun g => g.fileName == x.fileName) with
        | none => simp [hf, bind, Except.bind, throw, throwThe, MonadExceptOf.throw] at hok
        | some g =>
          cases hst : g.state with
          | ok =>
            simp only [hf, hst, bind, Except.bind, pure, Except.pure] at hok
            rcases List.mem_cons.1 he with rfl | he
            · exact ⟨g, hf, by rw [hst]; intro h; cases h⟩
            · exact ih hok e he
          | modified => simp [hf, hst, bind, Except.bind, throw, throwThe, MonadExceptOf.throw] at hok
          | missing => simp [hf, hst, bind, Except.bind, throw, throwThe, MonadExceptOf.throw] at hok
    exact key s.chain hchk e he
  obtain ⟨g, hf, hst⟩ := hres
  have hgn : g.fileName = e.fileName := by simpa using List.find?_some hf
  exact h1 g (List.mem_of_find?_eq_some hf) ((lists_iff s _).2 ⟨e, he, hgn.symm⟩) hst (hgn.trans hn)

/-- WHAT `new_name_fresh` MEANS FOR THE FOLDER ON DISK, after the repair: the name of the new manifest is fresh among
the LISTED manifests — it is the name of no stored manifest that is present and listed in the chain, and (when the
chain check passes, as it has when the history was loaded) the chain does not list it.  It may be the name of a stale
manifest file the chain does not list; `HistStore.add` overwrites that one. -/
theorem new_name_fresh_listed (rootHist : Hist) (sess : Session) (folderName stamp process : String) (h : Hist)
    (refs : List Written) (w : Written) (s : HistStore) (hload : h.gens = loadGens s)
    (hw : writeOne rootHist sess folderName stamp process none h refs = .ok w)
    (hfolder : '\n' ∉ ((h.root.getLast?).getD folderName).toList) (hstamp : '\n' ∉ stamp.toList) :
    (∀ g ∈ s.gens, s.lists g.fileName = true → g.state ≠ .missing → g.fileName ≠ w.gen.fileName) ∧
    (checkChain s = .ok () → s.lists w.gen.fileName = false) := by
  have hasc : (h.gens.map (·.number)).Pairwise (· ≤ ·) := by rw [hload]; exact loadGens_sorted s
  obtain ⟨hparse, -⟩ := new_name_fresh rootHist sess folderName stamp process h refs w hw hasc hfolder hstamp
  apply fresh_of_parse_above s _ _ hparse
  intro g hg
  have := (latest_is_max_of_sorted h.gens hasc).1 g (hload ▸ hg)
  omega

/-! ### 7. append-only -/

/-- the shape the tool leaves: manifest names pairwise different, every stored manifest listed in the chain -/
def Listed (s : HistStore) : Prop :=
  (s.gens.map (·.fileName)).Nodup ∧ ∀ g ∈ s.gens, s.lists g.fileName = true

instance (s : HistStore) : Decidable (Listed s) :=
  inferInstanceAs (Decidable ((s.gens.map (·.fileName)).Nodup ∧ ∀ g ∈ s.gens, s.lists g.fileName = true))

theorem listed_empty : Listed {} := ⟨List.nodup_nil, fun _ h => by cases h⟩

theorem dropUnlisted_of_listed (s : HistStore) (h : Listed s) : dropUnlisted s = s := by
  unfold dropUnlisted
  rw [List.filter_eq_self.2 (fun g hg => h.2 g hg)]

/-- the manifests of `s.add w`: those of `s` under another name, then the new one; the chain: one more entry -/
theorem add_gens (s : HistStore) (w : Written) :
    (s.add w).gens = s.gens.filter (fun g => g.fileName != w.gen.fileName) ++ [w.gen] ∧
    (s.add w).chain = s.chain ++ [⟨w.number, w.gen.fileName⟩] ∧ (s.add w).chainPresent = true :=
  ⟨rfl, rfl, rfl⟩

theorem add_lists (s : HistStore) (w : Written) (nm : String) :
    (s.add w).lists nm = (s.lists nm || w.gen.fileName == nm) := by
  simp [HistStore.lists, HistStore.add]

theorem mem_add_gens (s : HistStore) (w : Written) (g : Generation) :
    g ∈ (s.add w).gens ↔ (g ∈ s.gens ∧ g.fileName ≠ w.gen.fileName) ∨ g = w.gen := by
  simp [HistStore.add]

/-- when no stored manifest carries the new name (`os.replace` overwrites nothing) the new manifest is appended -/
theorem add_gens_of_fresh (s : HistStore) (w : Written) (hfresh : ∀ g ∈ s.gens, g.fileName ≠ w.gen.fileName) :
    (s.add w).gens = s.gens ++ [w.gen] := by
  show s.gens.filter (fun g => g.fileName != w.gen.fileName) ++ [w.gen] = _
  rw [List.filter_eq_self.2 (fun g hg => by simpa using hfresh g hg)]

/-- in a store where every manifest is listed, a name the chain does not list is the name of no stored manifest -/
theorem fresh_of_unlisted (s : HistStore) (hl : ∀ g ∈ s.gens, s.lists g.fileName = true) (nm : String)
    (h : s.lists nm = false) : ∀ g ∈ s.gens, g.fileName ≠ nm := by
  intro g hg hn
  have := hl g hg
  rw [hn, h] at this; cases this

/-- `add_appends`: the chain always gets exactly one more entry at the end; the new manifest is appended to the
stored ones when its name is fresh (otherwise it REPLACES the stored manifest of that name, `add_gens`) -/
theorem add_appends (s : HistStore) (w : Written) (hfresh : ∀ g ∈ s.gens, g.fileName ≠ w.gen.fileName) :
    (s.add w).gens = s.gens ++ [w.gen] ∧ (s.add w).chain = s.chain ++ [⟨w.number, w.gen.fileName⟩] :=
  ⟨add_gens_of_fresh s w hfresh, rfl⟩

/-- every old chain entry is still there, at the same position, whatever the new name is -/
theorem add_chain_preserves (s : HistStore) (w : Written) :
    (∀ i (hi : i < s.chain.length), (s.add w).chain[i]? = some s.chain[i]) ∧
    (s.add w).chain.length = s.chain.length + 1 := by
  refine ⟨?_, by simp [HistStore.add]⟩
  intro i hi; simp [HistStore.add, List.getElem?_append_left hi]

/-- every old manifest under another name than the new one is still there, in the old order -/
theorem add_keeps_others (s : HistStore) (w : Written) :
    (s.gens.filter fun g => g.fileName != w.gen.fileName) <+: (s.add w).gens :=
  List.prefix_append _ _

/-- every old manifest and every old chain entry is still there, at the same position (the name of the new
manifest being fresh) -/
theorem add_preserves (s : HistStore) (w : Written) (hfresh : ∀ g ∈ s.gens, g.fileName ≠ w.gen.fileName) :
    (∀ i (hi : i < s.gens.length), (s.add w).gens[i]? = some s.gens[i]) ∧
    (∀ i (hi : i < s.chain.length), (s.add w).chain[i]? = some s.chain[i]) ∧
    (s.add w).gens.length = s.gens.length + 1 ∧ (s.add w).chain.length = s.chain.length + 1 := by
  have hg := add_gens_of_fresh s w hfresh
  refine ⟨?_, (add_chain_preserves s w).1, by rw [hg]; simp, (add_chain_preserves s w).2⟩
  intro i hi; rw [hg]; simp [List.getElem?_append_left hi]

/-- `add` keeps the shape: all manifests listed, names pairwise different — whatever the new name is (a stored
manifest of the same name is overwritten) -/
theorem listed_add (s : HistStore) (w : Written) (h : Listed s) : Listed (s.add w) := by
  obtain ⟨hnd, hl⟩ := h
  constructor
  · show ((s.gens.filter (fun g => g.fileName != w.gen.fileName) ++ [w.gen]).map (·.fileName)).Nodup
    rw [List.map_append, List.nodup_append]
    refine ⟨(hnd.sublist ((List.filter_sublist).map _)), by simp, ?_⟩
    intro a ha b hb
    simp only [List.map_cons, List.map_nil, List.mem_singleton] at hb
    subst hb
    obtain ⟨g, hg, rfl⟩ := List.mem_map.1 ha
    have := (List.mem_filter.1 hg).2
    simpa using this
  · intro g hg
    rw [add_lists]
    rcases (mem_add_gens s w g).1 hg with ⟨hg, _⟩ | rfl
    · rw [hl g hg]; rfl
    · simp

/-- all manifests listed is kept on its own, too -/
theorem allListed_add (s : HistStore) (w : Written) (hl : ∀ g ∈ s.gens, s.lists g.fileName = true) :
    ∀ g ∈ (s.add w).gens, (s.add w).lists g.fileName = true := by
  intro g hg
  rw [add_lists]
  rcases (mem_add_gens s w g).1 hg with ⟨hg, _⟩ | rfl
  · rw [hl g hg]; rfl
  · simp

theorem addGeneration_name (w : Written) (x : Node) : (Node.addGeneration w x).name = x.name := by
  cases x <;> rfl

/-- `Node.updateAt f t p` leaves the `hist` (the `ascmhl` folder) of every node untouched whose path `q` does not
have `p` as a prefix — i.e. every node that is not at or below `p`.  (Nodes above `p` get new children but keep their
own `hist`.)  No distinctness of sibling names is needed because `at?` and `updateKids` agree on the first child of a
given name; `f` only has to keep the name of the node. -/
theorem updateAt_at?_hist (f : Node → Node) (hf : ∀ x, (f x).name = x.name) (t : Node) (p q : RelPath)
    (h : ¬ p <+: q) :
    ((Node.updateAt f t p).at? q).map Node.hist = (t.at? q).map Node.hist := by
  induction q generalizing t p with
  | nil =>
    cases p with
    | nil => exact absurd (List.prefix_refl _) h
    | cons n rest => cases t <;> simp [Node.updateAt, Node.at?, Node.hist]
  | cons m q' ih =>
    cases p with
    | nil => exact absurd (List.nil_prefix) h
    | cons n rest =>
      cases t with
      | file nm c => simp [Node.updateAt]
      | dir nm cs hs =>
        simp only [Node.updateAt, Node.at?]
        by_cases hmn : m = n
        · subst hmn
          rw [findChild_updateKids_eq f hf]
          cases findChild cs m with
          | none => rfl
          | some c =>
            have : ¬ rest <+: q' := fun hp => h (List.cons_prefix_cons.2 ⟨rfl, hp⟩)
            exact ih c rest this
        · rw [findChild_updateKids_ne f hf n m rest cs hmn]

/-- nodes neither above, at, nor below `p` are not changed at all -/
theorem updateAt_at?_disjoint (f : Node → Node) (hf : ∀ x, (f x).name = x.name) (t : Node) (p q : RelPath)
    (h : ¬ p <+: q) (h' : ¬ q <+: p) :
    (Node.updateAt f t p).at? q = t.at? q := by
  induction q generalizing t p with
  | nil => exact absurd (List.nil_prefix) h'
  | cons m q' ih =>
    cases p with
    | nil => exact absurd (List.nil_prefix) h
    | cons n rest =>
      cases t with
      | file nm c => simp [Node.updateAt]
      | dir nm cs hs =>
        simp only [Node.updateAt, Node.at?]
        by_cases hmn : m = n
        · subst hmn
          rw [findChild_updateKids_eq f hf]
          cases findChild cs m with
          | none => rfl
          | some c =>
            have h1 : ¬ rest <+: q' := fun hp => h (List.cons_prefix_cons.2 ⟨rfl, hp⟩)
            have h2 : ¬ q' <+: rest := fun hp => h' (List.cons_prefix_cons.2 ⟨rfl, hp⟩)
            exact ih c rest h1 h2
        · rw [findChild_updateKids_ne f hf n m rest cs hmn]

/-- the node at `p` itself becomes `f` of it -/
theorem updateAt_at?_self (f : Node → Node) (hf : ∀ x, (f x).name = x.name) (t : Node) (p : RelPath) :
    (Node.updateAt f t p).at? p = (t.at? p).map f := by
  induction p generalizing t with
  | nil => cases t <;> simp [Node.updateAt, Node.at?]
  | cons n rest ih =>
    cases t with
    | file nm c => simp [Node.updateAt, Node.at?]
    | dir nm cs hs =>
      simp only [Node.updateAt, Node.at?]
      rw [findChild_updateKids_eq f hf]
      cases findChild cs n with
      | none => rfl
      | some c => exact ih c

/-- writing generations only touches the `ascmhl` folders at or below the roots of the histories that wrote -/
theorem applyWritten_other_untouched (t : Node) (ws : List Written) (q : RelPath)
    (h : ∀ w ∈ ws, ¬ w.histRoot <+: q) :
    ((applyWritten t ws).at? q).map Node.hist = (t.at? q).map Node.hist := by
  unfold applyWritten
  induction ws generalizing t with
  | nil => rfl
  | cons w ws ih =>
    simp only [List.foldl_cons]
    rw [ih _ (fun x hx => h x (by simp [hx]))]
    exact updateAt_at?_hist _ (addGeneration_name w) t w.histRoot q (h w (by simp))

/-- in particular the root's `ascmhl` folder is unchanged when only nested histories wrote -/
theorem applyWritten_root_untouched (t : Node) (ws : List Written) (h : ∀ w ∈ ws, w.histRoot ≠ []) :
    (applyWritten t ws).hist = t.hist := by
  have := applyWritten_other_untouched t ws [] (fun w hw hp => h w hw (List.prefix_nil.1 hp))
  have e : ∀ x : Node, x.at? [] = some x := by intro x; cases x <;> rfl
  simpa [e] using this

/-- and the folder of the history that wrote gets exactly `HistStore.add` -/
theorem applyWritten_single_at (t : Node) (w : Written) (nm : String) (cs : List Node) (hs : Option HistStore)
    (h : t.at? w.histRoot = some (.dir nm cs hs)) :
    (applyWritten t [w]).at? w.histRoot = some (.dir nm cs (some ((hs.getD {}).add w))) := by
  simp only [applyWritten, List.foldl_cons, List.foldl_nil]
  rw [updateAt_at?_self _ (addGeneration_name w), h]
  rfl

/-! ### 8. reloading after a write gives 1..n+1 -/

/-- the general form: the new name parses to `k`, no loaded number is above `k`, and the new name is the name of no
LOADED manifest (it may be the name of a stale manifest file the chain does not list — that one is overwritten and
was never loaded) -/
theorem loadGens_add (s : HistStore) (w : Written) (k : Nat)
    (hparse : parseGenName w.gen.fileName = some k) (hstate : w.gen.state = .ok)
    (hmax : ∀ g ∈ loadGens s, g.number ≤ k)
    (hfresh : ∀ g ∈ loadGens s, g.gen.fileName ≠ w.gen.fileName) :
    loadGens (s.add w) = loadGens s ++ [⟨k, w.gen⟩] := by
  have hmem := mem_loadGens_iff s
  unfold loadGens at hmax ⊢
  have hadd : (s.add w).gens = s.gens.filter (fun g => g.fileName != w.gen.fileName) ++ [w.gen] := rfl
  simp only [hadd, List.filterMap_append]
  have hlast : List.filterMap (fun g : Generation =>
      if g.state == .missing || !(s.add w).lists g.fileName then none
      else (parseGenName g.fileName).map fun n => (⟨n, g⟩ : LGen)) [w.gen]
      = [⟨k, w.gen⟩] := by
    simp [hparse, hstate, add_lists]
  have hold : List.filterMap (fun g : Generation =>
      if g.state == .missing || !(s.add w).lists g.fileName then none
      else (parseGenName g.fileName).map fun n => (⟨n, g⟩ : LGen))
        (s.gens.filter (fun g => g.fileName != w.gen.fileName))
      = List.filterMap (fun g : Generation =>
      if g.state == .missing || !s.lists g.fileName then none
      else (parseGenName g.fileName).map fun n => (⟨n, g⟩ : LGen)) s.gens := by
    rw [← filterMap_filter_of_none _ (fun g => g.fileName != w.gen.fileName) s.gens]
    · apply filterMap_congr_mem
      intro g hg
      have hne : (w.gen.fileName == g.fileName) = false := by
        have := (List.mem_filter.1 hg).2
        simp only [bne_iff_ne, ne_eq] at this
        exact beq_false_of_ne (fun h => this h.symm)
      rw [add_lists, hne, Bool.or_false]
    · intro g hg hn
      have hn' : g.fileName = w.gen.fileName := by simpa using hn
      by_cases hc : (g.state == .missing || !s.lists g.fileName) = true
      · rw [if_pos hc]
      · exfalso
        simp only [Bool.or_eq_true, beq_iff_eq, Bool.not_eq_true', not_or, Bool.not_eq_false] at hc
        exact hfresh ⟨k, g⟩ ((hmem ⟨k, g⟩).2 ⟨hg, hc.1, hc.2, by rw [hn']; exact hparse⟩) hn'
  rw [hlast, hold]
  apply isort_append_last
  intro a ha
  have := hmax a ((mem_isort_n _ a _).2 ha)
  simpa using this

/-- a loaded manifest is numbered by its own name -/
theorem loadGens_parse (s : HistStore) : ∀ g ∈ loadGens s, parseGenName g.gen.fileName = some g.number :=
  fun g hg => ((mem_loadGens_iff s g).1 hg).2.2.2

/-- the form used for a run: the new name parses to a number ABOVE every loaded number (so it is the name of no
loaded manifest) -/
theorem loadGens_add_lt (s : HistStore) (w : Written) (k : Nat)
    (hparse : parseGenName w.gen.fileName = some k) (hstate : w.gen.state = .ok)
    (hlt : ∀ g ∈ loadGens s, g.number < k) :
    loadGens (s.add w) = loadGens s ++ [⟨k, w.gen⟩] := by
  apply loadGens_add s w k hparse hstate (fun g hg => Nat.le_of_lt (hlt g hg))
  intro g hg hn
  have h1 := loadGens_parse s g hg
  rw [hn, hparse] at h1
  have := hlt g hg
  have := Option.some.inj h1
  omega

/-- … or a name the chain does not list -/
theorem loadGens_add_unlisted (s : HistStore) (w : Written) (k : Nat)
    (hparse : parseGenName w.gen.fileName = some k) (hstate : w.gen.state = .ok)
    (hmax : ∀ g ∈ loadGens s, g.number ≤ k) (hun : s.lists w.gen.fileName = false) :
    loadGens (s.add w) = loadGens s ++ [⟨k, w.gen⟩] := by
  apply loadGens_add s w k hparse hstate hmax
  intro g hg hn
  have := (loadGens_listed_only s).1 g hg
  rw [hn, hun] at this; cases this

theorem reload_contiguous (s : HistStore) (w : Written) (n : Nat)
    (hgens : (loadGens s).map (·.number) = List.range' 1 n)
    (hparse : parseGenName w.gen.fileName = some (n + 1)) (hstate : w.gen.state = .ok) :
    (loadGens (s.add w)).map (·.number) = List.range' 1 (n + 1) := by
  have hmax : ∀ g ∈ loadGens s, g.number < n + 1 := by
    intro g hg
    have : g.number ∈ List.range' 1 n := hgens ▸ List.mem_map.2 ⟨g, hg, rfl⟩
    rw [List.mem_range'_1] at this
    omega
  rw [loadGens_add_lt s w (n + 1) hparse hstate hmax, List.map_append, hgens, List.range'_1_concat]
  simp [Nat.add_comm]

/-- end to end: a history loaded from a folder with generations 1..n, after `write_new_generation` and a reload, has
generations 1..n+1; all loaded generations are the old ones, in the old order, followed by the new one -/
theorem writeOne_reload_contiguous (rootHist : Hist) (sess : Session) (folderName stamp process : String)
    (h : Hist) (refs : List Written) (w : Written) (s : HistStore) (n : Nat)
    (hload : h.gens = loadGens s)
    (hgens : (loadGens s).map (·.number) = List.range' 1 n)
    (hw : writeOne rootHist sess folderName stamp process none h refs = .ok w)
    (hfolder : '\n' ∉ ((h.root.getLast?).getD folderName).toList) (hstamp : '\n' ∉ stamp.toList) :
    w.number = n + 1 ∧
      loadGens (s.add w) = loadGens s ++ [⟨n + 1, w.gen⟩] ∧
      (loadGens (s.add w)).map (·.number) = List.range' 1 (n + 1) ∧
      (s.add w).chain = s.chain ++ [⟨n + 1, w.gen.fileName⟩] := by
  have hlatest : latestGenerationNumber h.gens = n := by
    rw [hload]; exact latest_of_contiguous _ n hgens
  have hasc : (h.gens.map (·.number)).Pairwise (· ≤ ·) := by
    rw [hload]; exact loadGens_sorted s
  obtain ⟨hparse, _⟩ := new_name_fresh rootHist sess folderName stamp process h refs w hw hasc hfolder hstamp
  obtain ⟨hstate, hnum, _⟩ := writeOne_state rootHist sess folderName stamp process none h refs w hw
  rw [hlatest] at hparse hnum
  have hmax : ∀ g ∈ loadGens s, g.number < n + 1 := by
    intro g hg
    have : g.number ∈ List.range' 1 n := hgens ▸ List.mem_map.2 ⟨g, hg, rfl⟩
    rw [List.mem_range'_1] at this
    omega
  refine ⟨hnum, loadGens_add_lt s w (n + 1) hparse hstate hmax,
    reload_contiguous s w n hgens hparse hstate, ?_⟩
  rw [(add_gens s w).2.1, hnum]

/-! ### 9. a `create` that was killed between its two replaces

`write_hash_list` moves the new manifest into place, then `write_chain` moves the new chain file into place
(MhlModel/Crash.lean `HistCommit.ops`; MhlProps/C15.lean `Phase.manifestDone` is the state in between).  A kill between
the two leaves the complete new manifest in the folder and the OLD chain file, which does not list it.  After the
repair that manifest is not part of the history: the folder loads exactly as before the interrupted run, and the
re-run writes generation `latest+1` again. -/

/-- the manifest `g` moved into place, the chain not yet rewritten -/
def withLeftover (s : HistStore) (g : Generation) : HistStore := { s with gens := s.gens ++ [g] }

theorem withLeftover_lists (s : HistStore) (g : Generation) (nm : String) :
    (withLeftover s g).lists nm = s.lists nm := rfl

theorem loadGens_withLeftover (s : HistStore) (g : Generation) (hun : s.lists g.fileName = false) :
    loadGens (withLeftover s g) = loadGens s := by
  show isort _ (List.filterMap (fun g : Generation =>
      if g.state == .missing || !s.lists g.fileName then none
      else (parseGenName g.fileName).map fun n => (⟨n, g⟩ : LGen)) (s.gens ++ [g])) = _
  rw [List.filterMap_append]
  have : List.filterMap (fun g : Generation =>
      if g.state == .missing || !s.lists g.fileName then none
      else (parseGenName g.fileName).map fun n => (⟨n, g⟩ : LGen)) [g] = [] := by simp [hun]
  rw [this, List.append_nil]
  rfl

theorem checkStore_withLeftover (s : HistStore) (g : Generation) (hun : s.lists g.fileName = false) :
    checkStore (some (withLeftover s g)) = checkStore (some s) := by
  show (if !s.chainPresent then throw errNoChain else checkChain (withLeftover s g)) =
    (if !s.chainPresent then throw errNoChain else checkChain s)
  rw [checkChain_congr s (withLeftover s g) rfl]
  intro e he
  show (s.gens ++ [g]).find? _ = _
  have hne : (g.fileName == e.fileName) = false :=
    beq_false_of_ne (fun h => (lists_eq_false_iff s _).1 hun e he h.symm)
  rw [List.find?_append]
  simp [hne]

/-- a folder whose store passes the same check, loads the same generations and has the same chain loads as the same
history (the walk for nested histories does not look at the folder's own `ascmhl` folder) -/
theorem loadHistory_congr_store (nm : String) (cs : List Node) (s s' : HistStore)
    (hc : checkStore (some s') = checkStore (some s)) (hg : loadGens s' = loadGens s) (hch : s'.chain = s.chain) :
    loadHistory (.dir nm cs (some s')) = loadHistory (.dir nm cs (some s)) := by
  unfold loadHistory
  simp only [Node.hist, hc, buildHist, hg, hch]
  rfl

/-- the leftover of an interrupted `create` together with a manifest `w'` that a later run writes: after removing
what the chain does not list, the folder is exactly what the later run would have produced without the
interruption -/
theorem dropUnlisted_add_withLeftover (s : HistStore) (hl : ∀ g ∈ s.gens, s.lists g.fileName = true)
    (g : Generation) (hun : s.lists g.fileName = false) (w' : Written) :
    dropUnlisted ((withLeftover s g).add w') = dropUnlisted (s.add w') ∧ dropUnlisted (s.add w') = s.add w' := by
  have h2 : dropUnlisted (s.add w') = s.add w' := by
    unfold dropUnlisted
    rw [List.filter_eq_self.2 (allListed_add s w' hl)]
  refine ⟨?_, h2⟩
  rw [h2]
  unfold dropUnlisted
  have hlists : ∀ nm, ((withLeftover s g).add w').lists nm = (s.add w').lists nm := fun _ => rfl
  have hgens : ((withLeftover s g).add w').gens =
      s.gens.filter (fun x => x.fileName != w'.gen.fileName) ++
        ([g].filter (fun x => x.fileName != w'.gen.fileName) ++ [w'.gen]) := by
    show (s.gens ++ [g]).filter _ ++ [w'.gen] = _
    rw [List.filter_append, List.append_assoc]
  have hdrop : ([g].filter (fun x => x.fileName != w'.gen.fileName)).filter
      (fun x => (s.add w').lists x.fileName) = [] := by
    by_cases hn : g.fileName = w'.gen.fileName
    · simp [hn]
    · have hn' : (w'.gen.fileName == g.fileName) = false := beq_false_of_ne (fun h => hn h.symm)
      simp [hn, add_lists, hun, hn']
  have hkeep : (s.gens.filter (fun x => x.fileName != w'.gen.fileName) ++ [w'.gen]).filter
      (fun x => (s.add w').lists x.fileName) =
      s.gens.filter (fun x => x.fileName != w'.gen.fileName) ++ [w'.gen] :=
    List.filter_eq_self.2 (allListed_add s w' hl)
  simp only [hgens, hlists, List.filter_append, hdrop, List.nil_append] at hkeep ⊢
  show ({ gens := _, chain := _, chainPresent := _ } : HistStore) = s.add w'
  rw [hkeep]
  rfl

/-- INTERRUPTED GENERATION ABSENT.  `s`: a store in the shape the tool leaves (names pairwise different, every
manifest listed).  `w`: a generation whose name the chain of `s` does not list (what `write_new_generation` produces:
`new_name_fresh_listed`).  `withLeftover s w.gen` is `s` with the manifest of `w` moved into place and the chain not
yet rewritten — the state a kill between the two replaces leaves.  Then
  * that state loads EXACTLY like `s`: same generations, same outcome of the chain check, same chain, hence the same
    loaded history of the folder;
  * the re-run — `HistStore.add` of ANY generation `w'` that is numbered and named one above the `n` loaded
    generations — loads as generations 1..n+1, the old ones followed by `w'`, exactly as if it had been added to `s`
    itself; apart from what the chain does not list the folder IS `s.add w'`, which is again in the shape the tool
    leaves; and when `w'` carries the name of the leftover (same second) the leftover is overwritten and the folder is
    literally `s.add w'`. -/
theorem interrupted_generation_absent (s : HistStore) (hl : Listed s) (w : Written)
    (hun : s.lists w.gen.fileName = false) :
    -- the leftover is invisible
    loadGens (withLeftover s w.gen) = loadGens s ∧
    checkStore (some (withLeftover s w.gen)) = checkStore (some s) ∧
    (withLeftover s w.gen).chain = s.chain ∧
    (∀ nm cs, loadHistory (.dir nm cs (some (withLeftover s w.gen))) = loadHistory (.dir nm cs (some s))) ∧
    -- the re-run
    ∀ (n : Nat) (w' : Written), (loadGens s).map (·.number) = List.range' 1 n →
      parseGenName w'.gen.fileName = some (n + 1) → w'.gen.state = .ok →
      loadGens ((withLeftover s w.gen).add w') = loadGens s ++ [⟨n + 1, w'.gen⟩] ∧
      loadGens ((withLeftover s w.gen).add w') = loadGens (s.add w') ∧
      (loadGens ((withLeftover s w.gen).add w')).map (·.number) = List.range' 1 (n + 1) ∧
      ((withLeftover s w.gen).add w').chain = s.chain ++ [⟨w'.number, w'.gen.fileName⟩] ∧
      checkStore (some ((withLeftover s w.gen).add w')) = checkStore (some (s.add w')) ∧
      dropUnlisted ((withLeftover s w.gen).add w') = s.add w' ∧
      Listed (s.add w') ∧
      (w'.gen.fileName = w.gen.fileName → (withLeftover s w.gen).add w' = s.add w' ∧
        Listed ((withLeftover s w.gen).add w')) := by
  have h1 := loadGens_withLeftover s w.gen hun
  have h2 := checkStore_withLeftover s w.gen hun
  refine ⟨h1, h2, rfl, fun nm cs => loadHistory_congr_store nm cs s _ h2 h1 rfl, ?_⟩
  intro n w' hgens hparse hstate
  have hlt : ∀ g ∈ loadGens s, g.number < n + 1 := by
    intro g hg
    have : g.number ∈ List.range' 1 n := hgens ▸ List.mem_map.2 ⟨g, hg, rfl⟩
    rw [List.mem_range'_1] at this
    omega
  have ha : loadGens ((withLeftover s w.gen).add w') = loadGens s ++ [⟨n + 1, w'.gen⟩] := by
    rw [loadGens_add_lt _ w' (n + 1) hparse hstate (by rw [h1]; exact hlt), h1]
  have hb : loadGens (s.add w') = loadGens s ++ [⟨n + 1, w'.gen⟩] := loadGens_add_lt s w' (n + 1) hparse hstate hlt
  obtain ⟨hd1, hd2⟩ := dropUnlisted_add_withLeftover s hl.2 w.gen hun w'
  refine ⟨ha, by rw [ha, hb], ?_, rfl, ?_, hd1.trans hd2, listed_add s w' hl, ?_⟩
  · rw [ha, List.map_append, hgens, List.range'_1_concat]
    simp [Nat.add_comm]
  · rw [← checkStore_dropUnlisted, hd1, hd2]
  · intro hn
    have heq : (withLeftover s w.gen).add w' = s.add w' := by
      show ({ gens := (s.gens ++ [w.gen]).filter _ ++ [w'.gen], chain := _, chainPresent := true } : HistStore) = _
      rw [List.filter_append]
      have : [w.gen].filter (fun g => g.fileName != w'.gen.fileName) = [] := by simp [hn]
      rw [this, List.append_nil]
      rfl
    exact ⟨heq, heq ▸ listed_add s w' hl⟩

/-- composed with `write_new_generation`: a history loaded from `s` (chain check passed), the generation `w` the
tool writes for it.  If the run is killed after the manifest was moved into place, the folder loads exactly like `s`
— and so the re-run computes the same number `latest+1` again. -/
theorem interrupted_create_absent (rootHist : Hist) (sess : Session) (folderName stamp process : String) (h : Hist)
    (refs : List Written) (w : Written) (s : HistStore) (hload : h.gens = loadGens s)
    (hchk : checkStore (some s) = .ok ())
    (hw : writeOne rootHist sess folderName stamp process none h refs = .ok w)
    (hfolder : '\n' ∉ ((h.root.getLast?).getD folderName).toList) (hstamp : '\n' ∉ stamp.toList) :
    s.lists w.gen.fileName = false ∧
    loadGens (withLeftover s w.gen) = loadGens s ∧
    checkStore (some (withLeftover s w.gen)) = .ok () ∧
    latestGenerationNumber (loadGens (withLeftover s w.gen)) + 1 = w.number ∧
    ∀ nm cs, loadHistory (.dir nm cs (some (withLeftover s w.gen))) = loadHistory (.dir nm cs (some s)) := by
  have hcc : checkChain s = .ok () := by
    unfold checkStore at hchk
    simp only at hchk
    split at hchk
    · cases hchk
    · exact hchk
  have hun := (new_name_fresh_listed rootHist sess folderName stamp process h refs w s hload hw hfolder hstamp).2 hcc
  have h1 := loadGens_withLeftover s w.gen hun
  have h2 := checkStore_withLeftover s w.gen hun
  refine ⟨hun, h1, h2.trans hchk, ?_, fun nm cs => loadHistory_congr_store nm cs s _ h2 h1 rfl⟩
  rw [h1, ← hload]
  exact (writeOne_number rootHist sess folderName stamp process h refs w hw).1.symm

/-! ### non-vacuity -/

def exStore : HistStore :=
  { gens := [{ fileName := "0001_A_2020-01-16_091500Z.mhl" }, { fileName := "0002_A_2020-01-17_143000Z.mhl" }],
    chain := [⟨1, "0001_A_2020-01-16_091500Z.mhl"⟩, ⟨2, "0002_A_2020-01-17_143000Z.mhl"⟩] }

def exHist : Hist := .mk [] (loadGens exStore) exStore.chain true []

example : (loadGens exStore).map (·.number) = List.range' 1 2 := by decide

/-- all hypotheses of `writeOne_reload_contiguous` hold on this history -/
example : ∃ w, writeOne exHist {} "A" "2020-01-18_101010Z" "in-place" none exHist [] = .ok w ∧
    w.number = 3 ∧ (loadGens (exStore.add w)).map (·.number) = [1, 2, 3] ∧
    (exStore.add w).chain.map (·.seq) = [1, 2, 3] := by
  refine ⟨_, rfl, ?_⟩
  have h := writeOne_reload_contiguous exHist {} "A" "2020-01-18_101010Z" "in-place" exHist [] _ exStore 2
    rfl (by decide) rfl (by decide) (by decide)
  refine ⟨h.1, h.2.2.1, ?_⟩
  rw [h.2.2.2]; rfl

/-- a tree with two nested histories: writing into `A` leaves the `ascmhl` folder of `B` and of the root alone and
appends to that of `A` -/
def exTree : Node :=
  .dir "R" [.dir "A" [.file "a.mov" []] (some {}), .dir "B" [] (some exStore)] (some exStore)

example (w : Written) (hw : w.histRoot = ["A"]) :
    ((applyWritten exTree [w]).at? ["B"]).map Node.hist = some (some exStore) ∧
    (applyWritten exTree [w]).hist = some exStore ∧
    ((applyWritten exTree [w]).at? ["A"]).map Node.hist = some (some (({} : HistStore).add w)) := by
  refine ⟨?_, ?_, ?_⟩
  · rw [applyWritten_other_untouched exTree [w] ["B"] (by simp [hw])]; rfl
  · rw [applyWritten_root_untouched exTree [w] (by simp [hw])]; rfl
  · have := applyWritten_single_at exTree w "A" [.file "a.mov" []] (some {}) (by rw [hw]; rfl)
    rw [hw] at this; rw [this]; rfl

/-- `exStore` after a third `create` was killed between its two replaces: manifest 3 is in the folder, the chain
lists 1 and 2 -/
def exLeftover : HistStore :=
  withLeftover exStore { fileName := "0003_A_2020-01-18_101010Z.mhl" }

/-- the leftover is not loaded; the folder loads as generations 1, 2 and the next number is 3 again -/
example : (loadGens exLeftover).map (·.number) = [1, 2] ∧
    latestGenerationNumber (loadGens exLeftover) + 1 = 3 ∧
    ¬ Listed exLeftover ∧ Listed exStore ∧ dropUnlisted exLeftover = exStore := by decide +kernel

example : loadGens exLeftover = loadGens exStore := loadGens_withLeftover _ _ (by decide +kernel)

example : checkStore (some exLeftover) = .ok () := by
  rw [exLeftover, checkStore_withLeftover _ _ (by decide +kernel)]; rfl

/-- the re-run in the same second writes the SAME name: the leftover is overwritten; in another second the leftover
stays behind, unlisted and not loaded -/
example : ∃ w, writeOne exHist {} "A" "2020-01-18_101010Z" "in-place" none exHist [] = .ok w ∧
    w.gen.fileName = "0003_A_2020-01-18_101010Z.mhl" ∧ exLeftover.add w = exStore.add w ∧
    (loadGens (exLeftover.add w)).map (·.number) = [1, 2, 3] ∧ Listed (exLeftover.add w) :=
  ⟨_, rfl, by decide +kernel, by decide +kernel, by decide +kernel, by decide +kernel⟩

example : ∃ w, writeOne exHist {} "A" "2020-01-18_101011Z" "in-place" none exHist [] = .ok w ∧
    w.gen.fileName = "0003_A_2020-01-18_101011Z.mhl" ∧
    (loadGens (exLeftover.add w)).map (·.number) = [1, 2, 3] ∧
    (loadGens (exLeftover.add w)).map (·.gen.fileName) =
      ["0001_A_2020-01-16_091500Z.mhl", "0002_A_2020-01-17_143000Z.mhl", "0003_A_2020-01-18_101011Z.mhl"] ∧
    ¬ Listed (exLeftover.add w) ∧ dropUnlisted (exLeftover.add w) = exStore.add w :=
  ⟨_, rfl, by decide +kernel, by decide +kernel, by decide +kernel, by decide +kernel, by decide +kernel⟩

/-- the hypotheses of `interrupted_generation_absent` hold on this store -/
example : Listed exStore ∧ exStore.lists "0003_A_2020-01-18_101010Z.mhl" = false := by decide +kernel

/-- without the freshness hypothesis `add_appends` is false: the stored manifest of the same name is replaced -/
example : (exLeftover.add ⟨[], 3, { fileName := "0003_A_2020-01-18_101010Z.mhl", process := "flatten" }⟩).gens.length
    = 3 := by decide +kernel

end MhlProps.C06
