/-
C04nested — "unchanged tree ⇒ every later create succeeds" (C03 / C04 end to end) for trees WITH NESTED HISTORIES.

MhlProps/C03e2e.lean proves `reseal_ok` for a tree with ONE history.  Here the tree `t` is arbitrary: its loaded
history `rootHist` (`loadHistory t = .ok rootHist`) may have children and grand-children; `env` (digest function,
decoder, matcher, names) is arbitrary.  Every file is sealed / judged in the history that OWNS it:
`owner_u rootHist p = (route rootHist p).1`, under the name `ownerRel rootHist p = posix (route rootHist p).2`.

A visible file `p` is `Consistent` when, in its owner_u history, either NO generation has a record for it
(`Unrecorded`), or C04's `FirstOk` holds there for `dig f = env.H f (fileContent t p)` (`OwnerFirstOk`): the earliest
recorded digest of every format is the digest of the current content.  (`consistent_iff`: the first case is a special
case of the second.)  `AllConsistent env t rootHist o`: every file the traversal of the run comes across is.

  1. `nested_no_failed`     AllConsistent ⇒ after the traversal fold `failed = 0` and `mismatch = []`
  2. `nested_commit_ok`     … ⇒ `commit` does not raise (`nested_records_validate`: every record of every list of the
                            session validates) and `createFolder` returns what it wrote: the roots that wrote are
                            `writtenRoots`, in commit order — a history writes iff it has a list in the session or a
                            history that wrote before it names it as its parent — each generation numbered latest + 1.
     `nested_owner_writes`, `nested_root_writes`, `nested_written_only_if`: the history owning any yielded folder
                            (so every nested history whose folder is not ignored, and the root history) writes; and
                            nothing else writes than a history in the session or the parent of one that wrote.
     `nested_no_internal_error`: the run never ends with an uncaught exception.
  3. `nested_create_exit`   … ⇒ `err = createExit 0 missing missingHist`, no mismatch reported;
     `nested_create_ok`     if moreover every expected path (all nested histories, re-rooted) is visible or ignored
                            (`ExpectedPresent`) and every nested history referenced by the latest root generation still
                            has its folder (`RefsPresent`): `err = none`, exit code 0, empty report.
  4. `nested_verify_ok_partial`  verify / diff end with 0 and empty reports — with two hypotheses more than the task
                            states, because the literal statement is FALSE of the model: `nested_verify_false` and
                            the witnesses `nested_verify_false_witness`, `_new`, `_renamed`, `_no_root_gens`.
  5. `nested_two_level_e2e` a concrete tree with a nested history at `A/`: sealed on its own, grafted, sealed from
                            the outer root, resealed with another format, verified — all exit codes 0 by evaluation;
     `nested_three_level_e2e`  the same with a grand-child history `A/sub/`;
     `hyps1`, `hyps2`, `hyps3`, `hyps_c2`: the hypotheses of 1.–4. hold on these trees; `reseal_any_formats`,
                            `reseal_any_formats3`: hence EVERY reseal (any formats, ± directory hashes, ± `-dr`) ends 0.
  6. `graft_owner`, `graft_preserves_records`  the general theorem on grafting: a path below the graft is owned, in
                            the big tree, by the history that owns it in the sub-tree on its own, re-rooted (same
                            generations, same relative name); `create`, `verify`, `diff` treat the file identically.

1.–3. hold WITH OR WITHOUT `-dr`, with or without directory hashes, for any ignore options and ANY list of formats
(`o.formats ≠ []` is not needed); they need neither `NamesDistinct` nor `NamesOk` (the invariant used,
`Session.Good`, is insensitive to two paths having the same text) and `loadHistory t = .ok rootHist` only to connect
the named pieces to `createFolder`.  Helper lemmas: MhlProps/Proofs/NestedSealLemmas.lean.
-/
import MhlProps.Proofs.NestedSealLemmas
import MhlProps.C03e2e

namespace MhlProps.C04nested
open MhlModel MhlProps.C02rec MhlProps.C04

/-! ### the setting -/

/-- the history that owns a path: the deepest (transitive) nested history whose root is a prefix of it -/
def owner_u (rootHist : Hist) (p : RelPath) : Hist := (route rootHist p).1

/-- the text under which the owner_u records the path: relative to the owner's root -/
def ownerRel (rootHist : Hist) (p : RelPath) : String := posix (route rootHist p).2

/-- the owner_u history has no record at all for the path -/
def Unrecorded (rootHist : Hist) (p : RelPath) : Prop :=
  ∀ g ∈ (owner_u rootHist p).gens, g.gen.find (ownerRel rootHist p) = none

/-- C04's `FirstOk` in the owner_u history, for the file's current content -/
def OwnerFirstOk (env : Env) (t : Node) (rootHist : Hist) (p : RelPath) : Prop :=
  FirstOk (fun f => env.H f (fileContent t p)) (owner_u rootHist p).gens (ownerRel rootHist p)

/-- a visible file is consistent: no record at all in the history that owns it, or unaltered with respect to the
first recorded digest of every format there -/
def Consistent (env : Env) (t : Node) (rootHist : Hist) (p : RelPath) : Prop :=
  Unrecorded rootHist p ∨ OwnerFirstOk env t rootHist p

/-- a path without record is vacuously `FirstOk`: there is no reference digest -/
theorem firstOk_of_unrecorded (dig : String → String) (gens : List LGen) (p : String)
    (h : ∀ g ∈ gens, g.gen.find p = none) : FirstOk dig gens p := by
  intro fmt e he
  unfold findFirstOfFormat at he
  obtain ⟨g, hg, hh⟩ := List.exists_of_findSome?_eq_some he
  rw [h g hg] at hh
  cases hh

theorem consistent_iff (env : Env) (t : Node) (rootHist : Hist) (p : RelPath) :
    Consistent env t rootHist p ↔ OwnerFirstOk env t rootHist p :=
  ⟨fun h => h.elim (firstOk_of_unrecorded _ _ _) id, Or.inr⟩

/-- every file the traversal of this `create` run comes across is consistent -/
def AllConsistent (env : Env) (t : Node) (rootHist : Hist) (o : CreateOpts) : Prop :=
  ∀ p, (p, false) ∈ visiblePaths (cHit env rootHist o) t → Consistent env t rootHist p

section
variable {env : Env} {t : Node} {o : CreateOpts} {rootHist : Hist}

/-! ### 1. nothing fails -/

/-- 1. `nested_no_failed`: if every visible file is consistent in the history that owns it, the traversal of a
folder-mode `create` counts no failure and names no mismatch — for ANY list of requested formats, any ignore options,
with or without directory hashes.  (`cState` is the state after the fold of `createVisit` over the traversal, exactly
the `st` of `createFolder`, see `createFolder_eq_gen`.) -/
theorem nested_no_failed (hcons : AllConsistent env t rootHist o) :
    (cState env t rootHist o).failed = 0 ∧ (cState env t rootHist o).mismatch = [] := by
  unfold cState
  apply createFold_failed
  · intro v hv ch hch hfile s r hr
    rw [sealFile_snd] at hr
    have hvis : (v.folder ++ [ch.1], false) ∈ visiblePaths (cHit env rootHist o) t := by
      have := mem_visible_of_visit hv hch
      rwa [hfile] at this
    exact unaltered_all_success _ _ _ _ ((consistent_iff env t rootHist _).1 (hcons _ hvis)) r hr
  · exact ⟨rfl, rfl⟩

/-! ### 2. the commit does not raise -/

/-- the session after the traversal is good: every record of every list passes `_validate_new_hash_list` -/
theorem nested_session_good (hcons : AllConsistent env t rootHist o) :
    (cState env t rootHist o).session.Good := by
  unfold cState
  apply createFold_good
  · exact Session.good_empty _
  · intro v hv ch hch hfile
    have hvis : (v.folder ++ [ch.1], false) ∈ visiblePaths (cHit env rootHist o) t := by
      have := mem_visible_of_visit hv hch
      rwa [hfile] at this
    exact goodEntries_sealEntries _ _ _ _ ((consistent_iff env t rootHist _).1 (hcons _ hvis))

/-- … and stays good through rename detection (`-dr`), which only sets previous paths -/
theorem nested_final_session_good (hcons : AllConsistent env t rootHist o) :
    (cRen env t rootHist o).1.Good := by
  unfold cRen
  split
  · exact detectRenames_good env t rootHist _ (nested_session_good hcons) _ _
  · exact nested_session_good hcons

/-- every record of every list of the session validates (`validateRecord` succeeds): per file record by
`unaltered_validate_ok`, directory records carry no action -/
theorem nested_records_validate (hcons : AllConsistent env t rootHist o) :
    ∀ l ∈ (cRen env t rootHist o).1.lists, ∀ r ∈ l.records, ∃ r', validateRecord r = .ok r' :=
  fun l hl r hr => validate_of_good r (nested_final_session_good hcons l hl r hr)

/-- 2. `nested_commit_ok`: under the same hypothesis `commit` does not raise, so `createFolder` returns what the
commit wrote.  The histories that write, in commit order (post-order), are `writtenRoots`: a history writes iff it
has a list in the session or a history that wrote before it names it as its parent; every written generation belongs
to a history in scope, is numbered one above that history's latest generation, and is stored unaltered. -/
theorem nested_commit_ok (hl : loadHistory t = .ok rootHist) (hcons : AllConsistent env t rootHist o) :
    ∃ ws, commit rootHist (cRen env t rootHist o).1 env.rootName env.stamp "in-place" = .ok ws ∧
      (createFolder env t o).written = ws ∧
      ws.map (·.histRoot) = writtenRoots rootHist (cRen env t rootHist o).1 ∧
      (∀ w ∈ ws, ∃ h ∈ walkPost rootHist, w.histRoot = h.root ∧
        w.number = latestGenerationNumber h.gens + 1 ∧ w.gen.state = .ok) := by
  obtain ⟨ws, h1, h2, h3⟩ := commit_good rootHist _ (nested_final_session_good hcons) env.rootName env.stamp
    "in-place" none
  refine ⟨ws, h1, ?_, h2, h3⟩
  rw [createFolder_eq_gen env t o rootHist hl, h1]

/-- in particular the run never ends with an internal error (an uncaught `AssertionError` of the validation) -/
theorem nested_no_internal_error (hl : loadHistory t = .ok rootHist) (hcons : AllConsistent env t rootHist o)
    (k : String) : (createFolder env t o).err ≠ some (.internal k) := by
  obtain ⟨ws, h1, -⟩ := nested_commit_ok hl hcons
  rw [createFolder_eq_gen env t o rootHist hl, h1]
  dsimp only
  unfold createExit errVerifyFailed errMissingFiles errNoHistory
  split
  · simp
  · split
    · simp
    · split <;> simp

/-! ### 2'. which histories write -/

/-- the history that owns a folder the traversal yields has a list in the session that is committed (the folder's
record is created even when no directory hashes are computed) -/
theorem nested_session_has_owner (v : Visit) (hv : v ∈ traverse (cHit env rootHist o) [] t) :
    (cRen env t rootHist o).1.has (owner_u rootHist v.folder).root := by
  have h0 : (cState env t rootHist o).session.has (owner_u rootHist v.folder).root := by
    unfold cState
    exact createFold_has_owner env t rootHist _ _ _ _ v hv
  unfold cRen
  split
  · exact detectRenames_has_mono env t rootHist _ _ _ h0
  · exact h0

theorem owner_mem_walkPost (hl : loadHistory t = .ok rootHist) (p : RelPath) :
    owner_u rootHist p ∈ walkPost rootHist := by
  rw [mem_walkPost_u]
  exact (MhlProps.C08.route_deepest rootHist p (loadHistory_root t rootHist hl)).1

/-- 2'a. every history that owns a yielded folder writes a generation: in particular every nested history whose
root folder is not ignored, and (2'b) the root history -/
theorem nested_owner_writes (hl : loadHistory t = .ok rootHist) (hcons : AllConsistent env t rootHist o)
    (v : Visit) (hv : v ∈ traverse (cHit env rootHist o) [] t) :
    ∃ w ∈ (createFolder env t o).written, w.histRoot = (owner_u rootHist v.folder).root := by
  obtain ⟨ws, -, hw, hroots, -⟩ := nested_commit_ok hl hcons
  have hmem : (owner_u rootHist v.folder).root ∈ writtenRoots rootHist (cRen env t rootHist o).1 :=
    mem_foldl_writesStep_of_has rootHist _ _ [] _ (owner_mem_walkPost hl v.folder)
      (nested_session_has_owner v hv)
  rw [← hroots] at hmem
  obtain ⟨w, hw1, hw2⟩ := List.mem_map.1 hmem
  exact ⟨w, hw ▸ hw1, hw2⟩

theorem nested_root_writes (hl : loadHistory t = .ok rootHist) (hcons : AllConsistent env t rootHist o)
    (hdir : t.isDir = true) : ∃ w ∈ (createFolder env t o).written, w.histRoot = [] := by
  cases t with
  | file n c => cases hdir
  | dir n cs hs =>
    have hv : (⟨[], (visKids (cHit env rootHist o) [] cs).map fun k => (k.name, k.isDir)⟩ : Visit) ∈
        traverse (cHit env rootHist o) [] (.dir n cs hs) := by
      rw [traverse_dir]
      simp
    obtain ⟨w, hw, hr⟩ := nested_owner_writes hl hcons _ hv
    refine ⟨w, hw, ?_⟩
    rw [hr]
    unfold owner_u
    rw [route_nil_u]
    exact loadHistory_root _ rootHist hl

/-- 2'c. conversely a generation is only written for a history in scope that has a list in the session or that a
written generation names as its parent (`parentRoot`, the model's notion of "direct child") -/
theorem nested_written_only_if (hl : loadHistory t = .ok rootHist) (hcons : AllConsistent env t rootHist o)
    (w : Written) (hw : w ∈ (createFolder env t o).written) :
    ∃ h ∈ walkPost rootHist, h.root = w.histRoot ∧
      ((cRen env t rootHist o).1.has w.histRoot ∨
        ∃ w' ∈ (createFolder env t o).written, parentRoot rootHist w'.histRoot = some w.histRoot) := by
  obtain ⟨ws, -, hws, hroots, -⟩ := nested_commit_ok hl hcons
  rw [hws] at hw ⊢
  have hmem : w.histRoot ∈ writtenRoots rootHist (cRen env t rootHist o).1 := by
    rw [← hroots]; exact List.mem_map_of_mem hw
  rcases mem_foldl_writesStep_cases rootHist _ _ [] _ hmem with h0 | ⟨h, hh, hroot, hwhy⟩
  · cases h0
  · refine ⟨h, hh, hroot, ?_⟩
    rcases hwhy with h1 | ⟨r, hr, hp⟩
    · exact Or.inl h1
    · right
      have : r ∈ ws.map (·.histRoot) := by rw [hroots]; exact hr
      obtain ⟨w', hw', rfl⟩ := List.mem_map.1 this
      exact ⟨w', hw', hp⟩


/-! ### 3. the exit code -/

/-- the missing paths of the run: the expected paths not come across (less the ones `-dr` found renamed) that the
ignore patterns do not match — `missing` of `createFolder` -/
def cMissingGen (env : Env) (t : Node) (rootHist : Hist) (o : CreateOpts) : List RelPath :=
  missingAfter (cHit env rootHist o) (cRen env t rootHist o).2.1

/-- 3a. `nested_create_exit`: hence the run ends as `createExit 0 missing missingHist` says (missing files: 10,
a vanished nested history: 30, else 0), reports no mismatch, and reports exactly the missing paths -/
theorem nested_create_exit (hl : loadHistory t = .ok rootHist) (hcons : AllConsistent env t rootHist o) :
    (createFolder env t o).err = createExit 0 (cMissingGen env t rootHist o) (cMissingHist t rootHist) ∧
    (createFolder env t o).report.mismatch = [] ∧
    (createFolder env t o).report.missing = (cMissingGen env t rootHist o).map posix := by
  obtain ⟨ws, h1, -⟩ := nested_commit_ok hl hcons
  obtain ⟨hf, hm⟩ := nested_no_failed hcons
  rw [createFolder_eq_gen env t o rootHist hl, h1]
  dsimp only
  rw [hf, hm]
  exact ⟨rfl, rfl, rfl⟩

theorem foldl_const_id {α β : Type} (l : List β) (a : α) : l.foldl (fun acc _ => acc) a = a := by
  induction l with
  | nil => rfl
  | cons b bs ih => exact ih

/-- with nothing missing, rename detection has nothing to do -/
theorem detectRenames_nil (env : Env) (t : Node) (rootHist : Hist) (s : Session) (newPaths : List RelPath) :
    detectRenames env t rootHist s newPaths [] = (s, [], []) := by
  unfold detectRenames
  simp only [List.foldl_nil]
  exact foldl_const_id _ _

/-- every expected path (of the root history and of all nested histories, re-rooted) is visible or ignored -/
def ExpectedPresent (env : Env) (t : Node) (rootHist : Hist) (o : CreateOpts) : Prop :=
  ∀ p ∈ expectedPaths rootHist, (∃ d, (p, d) ∈ visiblePaths (cHit env rootHist o) t) ∨ hitAbove (cHit env rootHist o) p = true

/-- every nested history the latest root generation references still has its `ascmhl` folder -/
def RefsPresent (t : Node) (rootHist : Hist) : Prop :=
  ∀ g, rootHist.gens.getLast? = some g → ∀ ref ∈ g.gen.refs,
    ∃ n, t.at? (splitPath ref).dropLast.dropLast = some n ∧ n.hist.isSome = true

theorem cNotFound_nil (hexp : ExpectedPresent env t rootHist o) :
    (cNotFound_u env t rootHist o).filter (fun p => !hitAbove (cHit env rootHist o) p) = [] := by
  have hfound : (cState env t rootHist o).found = (visiblePaths (cHit env rootHist o) t).map (·.1) := by
    unfold cState
    rw [createFold_found, visiblePaths_map_fst]
    rfl
  apply List.eq_nil_iff_forall_not_mem.2
  intro p hp
  unfold cNotFound_u at hp
  rw [List.mem_filter, List.mem_filter, hfound] at hp
  obtain ⟨⟨hpe, hnf⟩, hh⟩ := hp
  rcases hexp p hpe with ⟨d, hd'⟩ | hi
  · have : p ∈ (visiblePaths (cHit env rootHist o) t).map (·.1) := List.mem_map.2 ⟨(p, d), hd', rfl⟩
    simp [this] at hnf
  · simp [hi] at hh

theorem cMissingGen_nil (hexp : ExpectedPresent env t rootHist o) : cMissingGen env t rootHist o = [] := by
  have h0 := cNotFound_nil hexp
  apply List.eq_nil_iff_forall_not_mem.2
  intro p hp
  unfold cMissingGen at hp
  rw [mem_missingAfter] at hp
  obtain ⟨hp1, hp2⟩ := hp
  have hin : p ∈ cNotFound_u env t rootHist o := by
    unfold cRen at hp1
    split at hp1
    · exact (List.mem_filter.1 hp1).1
    · exact hp1
  have : p ∈ (cNotFound_u env t rootHist o).filter (fun p => !hitAbove (cHit env rootHist o) p) := by
    rw [List.mem_filter]
    exact ⟨hin, by simp [hp2]⟩
  rw [h0] at this
  cases this

theorem cMissingHist_nil (hrefs : RefsPresent t rootHist) : cMissingHist t rootHist = [] := by
  unfold cMissingHist
  cases hg : rootHist.gens.getLast? with
  | none => rfl
  | some g =>
    apply List.eq_nil_iff_forall_not_mem.2
    intro p hp
    obtain ⟨ref, href, hsome⟩ := List.mem_filterMap.1 hp
    obtain ⟨n, hn1, hn2⟩ := hrefs g hg ref href
    dsimp only at hsome
    rw [hn1] at hsome
    simp [hn2] at hsome

/-- 3b. `nested_create_ok`: if moreover every expected path is visible or ignored and every nested history the
latest root generation references still has its folder, the run ends with exit code 0 and reports nothing -/
theorem nested_create_ok (hl : loadHistory t = .ok rootHist) (hcons : AllConsistent env t rootHist o)
    (hexp : ExpectedPresent env t rootHist o) (hrefs : RefsPresent t rootHist) :
    (createFolder env t o).err = none ∧ (createFolder env t o).exitCode = 0 ∧
    (createFolder env t o).report.mismatch = [] ∧ (createFolder env t o).report.missing = [] := by
  obtain ⟨h1, h2, h3⟩ := nested_create_exit hl hcons
  rw [cMissingGen_nil hexp, cMissingHist_nil hrefs] at h1
  rw [cMissingGen_nil hexp] at h3
  have herr : (createFolder env t o).err = none := h1
  refine ⟨herr, ?_, h2, h3⟩
  unfold Outcome.exitCode
  rw [herr]

/-- the same at command level (`create` without `-sf`) -/
theorem nested_create_ok_cmd (hsf : o.singleFiles = []) (hl : loadHistory t = .ok rootHist)
    (hcons : AllConsistent env t rootHist o) (hexp : ExpectedPresent env t rootHist o)
    (hrefs : RefsPresent t rootHist) :
    (create env t o).err = none ∧ (create env t o).exitCode = 0 := by
  have : create env t o = createFolder env t o := by unfold create; simp [hsf]
  rw [this]
  exact ⟨(nested_create_ok hl hcons hexp hrefs).1, (nested_create_ok hl hcons hexp hrefs).2.1⟩

end


/-! ### 4. verify and diff -/

section
variable {env : Env} {t : Node} {o : VerifyOpts} {rootHist : Hist}

/-- the hypothesis of 4. on one visible file: in the history that owns it the file is recorded under its own name
with an ORIGINAL entry that is the reference entry of its format (`RecordedOriginal`, what `create` produces: see
`recordedOriginal_of_first`, `recordedName_of_noPrev`), and it is unaltered (`OwnerFirstOk`) -/
def RecordedConsistent (env : Env) (t : Node) (rootHist : Hist) (p : RelPath) : Prop :=
  RecordedOriginal (owner_u rootHist p).gens (ownerRel rootHist p) ∧ OwnerFirstOk env t rootHist p

/-- `verify` / `diff` route the file to the history that owns it (`judgeFile` uses `route` as `sealFile` does) and
judge it ok there -/
theorem nested_judge_ok (hashing : Bool) (p : RelPath) (h : RecordedConsistent env t rootHist p) :
    judgeFile env t rootHist hashing p = .ok :=
  judgeFile_ok env t rootHist hashing p h.1 h.2

/- 4. `nested_verify_ok` AS STATED IN THE TASK:

     if every visible file HAS a record in its owner_u history and is consistent, and every expected path is visible or
     ignored, then `verify env t {}` and `diff env t {}` have `err = none` with empty reports

   is FALSE of the model when "has a record" is read literally (`HasRecord`: some generation of the owner_u history
   finds a record for the path): see `nested_verify_false` (an original entry that is not the first recorded digest of
   its format: exit 11), `nested_verify_false_new` (a record without original entry: exit 21),
   `nested_verify_false_renamed` (a record reached through a recorded rename: exit 11) and
   `nested_verify_false_no_root_gens` (only the nested history has generations: exit 30).  The extra hypotheses of the
   partial version are exactly what excludes these four: `RecordedOriginal` instead of `HasRecord`, and
   `rootHist.gens ≠ []`. -/

/-- 4. `nested_verify_ok_partial`: if the root history has a generation, every visible file is recorded-and-consistent
in the history that owns it, and every expected path (of all nested histories, re-rooted) is visible or ignored,
then `verify` and `diff` (any ignore options, no single file) end with exit code 0 and report nothing.
Extra hypotheses with respect to the task statement: `rootHist.gens ≠ []` (otherwise verify ends with 30,
`nested_verify_false_no_root_gens`) and `RecordedOriginal` in place of "has a record" (otherwise
`nested_verify_false*`). -/
theorem nested_verify_ok_partial (hl : loadHistory t = .ok rootHist) (hg : rootHist.gens ≠ [])
    (hsf : o.singleFile = none)
    (hrec : ∀ p, (p, false) ∈ visiblePaths (vHit env rootHist o) t → RecordedConsistent env t rootHist p)
    (hexp : ∀ p ∈ expectedPaths rootHist,
      (∃ d, (p, d) ∈ visiblePaths (vHit env rootHist o) t) ∨ hitAbove (vHit env rootHist o) p = true) :
    ((verify env t o).err = none ∧ (verify env t o).exitCode = 0 ∧ (verify env t o).report.mismatch = [] ∧
      (verify env t o).report.new = [] ∧ (verify env t o).report.missing = []) ∧
    ((diff env t o).err = none ∧ (diff env t o).exitCode = 0 ∧ (diff env t o).report.mismatch = [] ∧
      (diff env t o).report.new = [] ∧ (diff env t o).report.missing = []) := by
  have hjudge : ∀ hashing p, (p, false) ∈ visiblePaths (vHit env rootHist o) t →
      judgeFile env t rootHist hashing p ≠ .mismatch ∧ judgeFile env t rootHist hashing p ≠ .new := by
    intro hashing p hp
    rw [nested_judge_ok hashing p (hrec p hp)]
    exact ⟨by decide, by decide⟩
  refine ⟨?_, ?_⟩
  · exact MhlProps.C03.clean_exit_zero env t o true rootHist hl hg hsf (hjudge true) hexp
  · have hd : diff env t o = verifyOrDiff env t { o with singleFile := none } false none := rfl
    rw [hd]
    exact MhlProps.C03.clean_exit_zero env t { o with singleFile := none } false rootHist hl hg rfl
      (hjudge false) hexp

end

/-! ### Boolean tests for the hypotheses (to establish them on concrete trees by evaluation) -/

/-- every visible file is consistent -/
def allConsistentB (env : Env) (t : Node) (rootHist : Hist) (hit : RelPath → Bool) : Bool :=
  (visiblePaths hit t).all fun x =>
    x.2 || firstOkB (fun f => env.H f (fileContent t x.1)) (route rootHist x.1).1.gens (posix (route rootHist x.1).2)

theorem allConsistentB_spec (env : Env) (t : Node) (rootHist : Hist) (hit : RelPath → Bool)
    (h : allConsistentB env t rootHist hit = true) :
    ∀ p, (p, false) ∈ visiblePaths hit t → Consistent env t rootHist p := by
  intro p hp
  have := List.all_eq_true.1 h (p, false) hp
  simp only [Bool.false_or] at this
  exact Or.inr ((firstOkB_iff _ _ _).1 this)

/-- every visible file is recorded with an original reference entry and consistent -/
def allRecordedB (env : Env) (t : Node) (rootHist : Hist) (hit : RelPath → Bool) : Bool :=
  (visiblePaths hit t).all fun x =>
    x.2 || (recordedOriginalB (route rootHist x.1).1.gens (posix (route rootHist x.1).2) &&
      firstOkB (fun f => env.H f (fileContent t x.1)) (route rootHist x.1).1.gens (posix (route rootHist x.1).2))

theorem allRecordedB_spec (env : Env) (t : Node) (rootHist : Hist) (hit : RelPath → Bool)
    (h : allRecordedB env t rootHist hit = true) :
    ∀ p, (p, false) ∈ visiblePaths hit t → RecordedConsistent env t rootHist p := by
  intro p hp
  have := List.all_eq_true.1 h (p, false) hp
  simp only [Bool.false_or, Bool.and_eq_true] at this
  exact ⟨(recordedOriginalB_iff _ _).1 this.1, (firstOkB_iff _ _ _).1 this.2⟩

/-- every expected path is visible or ignored -/
def expectedPresentB (t : Node) (rootHist : Hist) (hit : RelPath → Bool) : Bool :=
  (expectedPathsWith splitPathL rootHist).all fun p => ((visiblePaths hit t).any fun x => x.1 == p) || hitAbove hit p

theorem expectedPresentB_spec (t : Node) (rootHist : Hist) (hit : RelPath → Bool)
    (h : expectedPresentB t rootHist hit = true) :
    ∀ p ∈ expectedPaths rootHist, (∃ d, (p, d) ∈ visiblePaths hit t) ∨ hitAbove hit p = true := by
  intro p hp
  rw [expectedPaths_eq_with] at hp
  have := List.all_eq_true.1 h p hp
  rcases Bool.or_eq_true_iff.1 this with h1 | h1
  · left
    obtain ⟨x, hx, hxp⟩ := List.any_eq_true.1 h1
    obtain ⟨q, d⟩ := x
    have : q = p := by simpa using hxp
    subst this
    exact ⟨d, hx⟩
  · exact Or.inr h1

theorem refsPresent_iff (t : Node) (rootHist : Hist) : RefsPresent t rootHist ↔ cMissingHist t rootHist = [] := by
  constructor
  · exact cMissingHist_nil
  · intro h g hg ref href
    unfold cMissingHist at h
    rw [hg] at h
    dsimp only at h
    have hnone := (List.filterMap_eq_nil_iff.1 h) ref href
    cases hat : t.at? (splitPath ref).dropLast.dropLast with
    | none => simp [hat] at hnone
    | some n =>
      refine ⟨n, rfl, ?_⟩
      simp only [hat] at hnone
      by_contra hc
      simp [hc] at hnone

theorem refsPresentB_spec (t : Node) (rootHist : Hist) (h : cMissingHistWith splitPathL t rootHist = []) :
    RefsPresent t rootHist := by
  rw [refsPresent_iff, cMissingHist_eq_with]
  exact h

/-! ### 4'. the literal statement of 4. is false: four witnesses -/

/-- the literal reading of "the file has a record in the history that owns it" -/
def HasRecord (rootHist : Hist) (p : RelPath) : Prop :=
  ∃ g ∈ (owner_u rootHist p).gens, (g.gen.find (ownerRel rootHist p)).isSome = true

/-- the hypotheses of the literal statement, for one environment / tree / history -/
def LiteralHyps (env : Env) (t : Node) (rootHist : Hist) : Prop :=
  loadHistory t = .ok rootHist ∧ t.NamesDistinct ∧ t.NamesOk ∧
  (∀ p, (p, false) ∈ visiblePaths (vHit env rootHist {}) t → HasRecord rootHist p ∧ Consistent env t rootHist p) ∧
  (∀ p ∈ expectedPaths rootHist,
    (∃ d, (p, d) ∈ visiblePaths (vHit env rootHist {}) t) ∨ hitAbove (vHit env rootHist {}) p = true)

/-- a Boolean test for the two quantified hypotheses -/
theorem literalHyps_of_tests (env : Env) (t : Node) (rootHist : Hist) (hl : loadHistory t = .ok rootHist)
    (hd : t.NamesDistinct) (hn : t.NamesOk)
    (h1 : ((visiblePaths (vHit env rootHist {}) t).all fun x => x.2 ||
      (route rootHist x.1).1.gens.any fun g => (g.gen.find (posix (route rootHist x.1).2)).isSome) = true)
    (h2 : allConsistentB env t rootHist (vHit env rootHist {}) = true)
    (h3 : expectedPresentB t rootHist (vHit env rootHist {}) = true) : LiteralHyps env t rootHist := by
  refine ⟨hl, hd, hn, ?_, expectedPresentB_spec t rootHist _ h3⟩
  intro p hp
  refine ⟨?_, allConsistentB_spec env t rootHist _ h2 p hp⟩
  have := List.all_eq_true.1 h1 (p, false) hp
  simp only [Bool.false_or] at this
  obtain ⟨g, hg, hs⟩ := List.any_eq_true.1 this
  exact ⟨g, hg, hs⟩

/-- the literal statement of 4. -/
def LiteralVerifyStatement : Prop :=
  ∀ (env : Env) (t : Node) (rootHist : Hist), LiteralHyps env t rootHist →
    (verify env t {}).err = none ∧ (diff env t {}).err = none

def wEnv : Env := MhlProps.C03e2e.exEnv

def wIgnore : List String := [".DS_Store", "ascmhl", "ascmhl/"]

/-- generation 1 records the digest of the content as `verified` (no original); generation 2 records ANOTHER digest
as `original` — a history `create` never writes, but a loadable one -/
def wG1 : Generation :=
  { fileName := "0001_root_2020-01-16_091500Z.mhl", ignore := wIgnore,
    records := [{ path := "a.txt", size := some 2, entries := [{ fmt := "md5", digest := "md5:2", action := "verified" }] }] }
def wG2 : Generation :=
  { fileName := "0002_root_2020-01-17_091500Z.mhl", ignore := wIgnore,
    records := [{ path := "a.txt", size := some 2, entries := [{ fmt := "md5", digest := "md5:999", action := "original" }] }] }

def wStore : HistStore := { gens := [wG1, wG2], chain := [⟨1, wG1.fileName⟩, ⟨2, wG2.fileName⟩] }
def wTree : Node := .dir "root" [.file "a.txt" [1, 2]] (some wStore)
def wHist : Hist := .mk [] [⟨1, wG1⟩, ⟨2, wG2⟩] wStore.chain true []


/-- first witness: all hypotheses of the literal statement hold, yet `verify` ends with 11 and names the (unaltered)
file: the ORIGINAL entry verify compares with is not the first recorded digest of its format, which is what
`FirstOk` (and `create`) look at -/
theorem nested_verify_false_witness : LiteralHyps wEnv wTree wHist ∧
    (verify wEnv wTree {}).err = some errVerifyFailed ∧ (verify wEnv wTree {}).exitCode = 11 ∧
    (verify wEnv wTree {}).report.mismatch = ["a.txt"] := by
  refine ⟨literalHyps_of_tests _ _ _ (by rfl) ?_ (by decide) (by decide +kernel) (by decide +kernel)
    (by decide +kernel), ?_, ?_, ?_⟩
  · simp [wTree, Node.NamesDistinct, Node.NamesDistinctKids, Node.name]
  · rw [verify_eq_with]; decide +kernel
  · rw [verify_eq_with]; decide +kernel
  · rw [verify_eq_with]; decide +kernel

/-- 4. as literally stated is FALSE of the model -/
theorem nested_verify_false : ¬ LiteralVerifyStatement := by
  intro h
  have h1 := (h wEnv wTree wHist nested_verify_false_witness.1).1
  rw [nested_verify_false_witness.2.1] at h1
  cases h1

/-- second witness: the only record of the file has no `original` entry: verify and diff call the file NEW (21) -/
def wStoreNew : HistStore := { gens := [wG1], chain := [⟨1, wG1.fileName⟩] }
def wTreeNew : Node := .dir "root" [.file "a.txt" [1, 2]] (some wStoreNew)
def wHistNew : Hist := .mk [] [⟨1, wG1⟩] wStoreNew.chain true []

theorem nested_verify_false_new : LiteralHyps wEnv wTreeNew wHistNew ∧
    (verify wEnv wTreeNew {}).err = some errNewFiles ∧ (verify wEnv wTreeNew {}).report.new = ["a.txt"] ∧
    (diff wEnv wTreeNew {}).err = some errNewFiles := by
  refine ⟨literalHyps_of_tests _ _ _ (by rfl) ?_ (by decide) (by decide +kernel) (by decide +kernel)
    (by decide +kernel), ?_, ?_, ?_⟩
  · simp [wTreeNew, Node.NamesDistinct, Node.NamesDistinctKids, Node.name]
  · rw [verify_eq_with]; decide +kernel
  · rw [verify_eq_with]; decide +kernel
  · rw [diff_eq_with]; decide +kernel

/-- third witness: the record is reached through a recorded rename; the digests recorded under the new name are those
of the content, the original recorded under the old name is not: verify follows the rename and reports a mismatch -/
def wG1r : Generation :=
  { fileName := "0001_root_2020-01-16_091500Z.mhl", ignore := wIgnore,
    records := [{ path := "old.txt", size := some 7, entries := [{ fmt := "md5", digest := "md5:7", action := "original" }] }] }
def wG2r : Generation :=
  { fileName := "0002_root_2020-01-17_091500Z.mhl", ignore := wIgnore,
    records := [{ path := "a.txt", size := some 2, prev := some "old.txt",
                  entries := [{ fmt := "md5", digest := "md5:2", action := "verified" }] }] }
def wStoreRen : HistStore := { gens := [wG1r, wG2r], chain := [⟨1, wG1r.fileName⟩, ⟨2, wG2r.fileName⟩] }
def wTreeRen : Node := .dir "root" [.file "a.txt" [1, 2]] (some wStoreRen)
def wHistRen : Hist := .mk [] [⟨1, wG1r⟩, ⟨2, wG2r⟩] wStoreRen.chain true []

theorem nested_verify_false_renamed : LiteralHyps wEnv wTreeRen wHistRen ∧
    (verify wEnv wTreeRen {}).err = some errVerifyFailed ∧ (verify wEnv wTreeRen {}).report.mismatch = ["a.txt"] := by
  refine ⟨literalHyps_of_tests _ _ _ (by rfl) ?_ (by decide) (by decide +kernel) (by decide +kernel)
    (by decide +kernel), ?_, ?_⟩
  · simp [wTreeRen, Node.NamesDistinct, Node.NamesDistinctKids, Node.name]
  · rw [verify_eq_with]; decide +kernel
  · rw [verify_eq_with]; decide +kernel

/-- fourth witness: only the nested history at `A/` has a generation, the root has no `ascmhl` folder: every file is
recorded and consistent in the history that owns it, yet verify and diff from the outer root end with 30 -/
def wGA : Generation :=
  { fileName := "0001_A_2020-01-16_091500Z.mhl", ignore := wIgnore,
    records := [{ path := "x", size := some 1, entries := [{ fmt := "md5", digest := "md5:1", action := "original" }] }] }
def wStoreA : HistStore := { gens := [wGA], chain := [⟨1, wGA.fileName⟩] }
def wTreeA : Node := .dir "root" [.dir "A" [.file "x" [5]] (some wStoreA)] none
def wHistA : Hist := .mk [] [] [] false [.mk ["A"] [⟨1, wGA⟩] wStoreA.chain true []]

theorem nested_verify_false_no_root_gens : LiteralHyps wEnv wTreeA wHistA ∧
    (verify wEnv wTreeA {}).err = some errNoHistory ∧ (diff wEnv wTreeA {}).err = some errNoHistory := by
  refine ⟨literalHyps_of_tests _ _ _ (by rfl) ?_ (by decide) (by decide +kernel) (by decide +kernel)
    (by decide +kernel), ?_, ?_⟩
  · simp [wTreeA, Node.NamesDistinct, Node.NamesDistinctKids, Node.name]
  · rw [verify_eq_with]; decide +kernel
  · rw [diff_eq_with]; decide +kernel

/-! ### 5. a closed end-to-end instance with a nested history -/

/-- the loaded history of a tree (the empty history if it does not load) -/
def loadD (t : Node) : Hist :=
  match loadHistory t with
  | .ok h => h
  | .error _ => .mk [] [] [] false []

theorem loadD_spec (t : Node) (h : (match loadHistory t with | .ok _ => true | .error _ => false) = true) :
    loadHistory t = .ok (loadD t) := by
  unfold loadD
  cases hl : loadHistory t with
  | ok x => rfl
  | error e => rw [hl] at h; cases h

/-- toy parameters (those of C03e2e): the "digest" is the format name and the content length; a path is ignored when
one of its components is literally in the pattern list.  `envA` is the same with the command run on the folder `A`. -/
def envR : Env := MhlProps.C03e2e.exEnv
def envA : Env := { MhlProps.C03e2e.exEnv with rootName := "A" }

/-- the sub-tree `A`, sealed first on its own (as its own command root) with md5 -/
def treeA : Node := .dir "A" [.file "x.mov" [1, 2, 3], .file "y.mov" [4], .dir "sub" [.file "s" [6, 6]] none] none
def oA : CreateOpts := { formats := ["md5"] }
def sealedA : Node := applyWritten treeA (createFolder envA treeA oA).written

/-- the big tree, without any history, and with the sealed `A` grafted in (its `ascmhl` store comes along) -/
def big0 : Node :=
  .dir "root" [.file "top.txt" [9], treeA, .dir "B" [.file "z" []] none, .file ".DS_Store" [0]] none
def big1 : Node := Node.updateAt (fun _ => sealedA) big0 ["A"]

/-- sealed from the outer root with two formats … -/
def o1 : CreateOpts := { formats := ["xxh64", "md5"] }
def big2 : Node := applyWritten big1 (createFolder envR big1 o1).written

/-- … and resealed with a format recorded nowhere, without directory hashes -/
def o2 : CreateOpts := { formats := ["sha1"], noDirHashes := true }
def big3 : Node := applyWritten big2 (createFolder envR big2 o2).written

/-- what a run wrote: history root, generation number, record paths, references -/
def summary (out : Outcome) : List (RelPath × Nat × List String × List String) :=
  out.written.map fun w => (w.histRoot, w.number, w.gen.records.map (·.path), w.gen.refs)

/-- what a tree loads as: per history (root first, then the nested ones) its root and generation numbers -/
def histShape (t : Node) : Option (List (RelPath × List Nat)) :=
  match loadHistory t with
  | .ok h => some ((h :: allDescendants h).map fun x => (x.root, x.gens.map (·.number)))
  | .error _ => none

set_option maxRecDepth 100000 in
set_option synthInstance.maxSize 2048 in
/-- 5. `nested_two_level_e2e`: seal `A` on its own, graft it into the big tree, seal from the outer root, reseal with
another format, verify, diff — every step EVALUATED (`decide +kernel`; `splitPath` through `splitPathL`): all exit
codes are 0, every run writes one generation per history (the nested one first, the root one referencing it), and the
final reports are empty. -/
theorem nested_two_level_e2e :
    -- the inner seal
    (createFolder envA treeA oA).exitCode = 0 ∧
    summary (createFolder envA treeA oA) = [([], 1, ["sub/s", "sub", "x.mov", "y.mov"], [])] ∧
    -- the grafted tree: no history at the root, the nested one at A with its generation 1
    histShape big1 = some [([], []), (["A"], [1])] ∧
    -- the outer seal: exit code 0; A writes generation 2 (files verified against generation 1), then the root
    -- writes generation 1 with the folder A as a record and a reference to A's new manifest
    (createFolder envR big1 o1).exitCode = 0 ∧ (createFolder envR big1 o1).report.mismatch = [] ∧
    (createFolder envR big1 o1).report.missing = [] ∧
    summary (createFolder envR big1 o1) =
      [(["A"], 2, ["sub/s", "sub", "x.mov", "y.mov"], []),
       ([], 1, ["A", "B/z", "B", "top.txt"], ["A/ascmhl/0002_A_2020-01-16_091500Z.mhl"])] ∧
    histShape big2 = some [([], [1]), (["A"], [1, 2])] ∧
    -- the reseal with a new format: exit code 0, generation 3 / 2
    (createFolder envR big2 o2).exitCode = 0 ∧ (createFolder envR big2 o2).report.mismatch = [] ∧
    (createFolder envR big2 o2).report.missing = [] ∧
    (summary (createFolder envR big2 o2)).map (fun x => (x.1, x.2.1)) = [(["A"], 3), ([], 2)] ∧
    histShape big3 = some [([], [1, 2]), (["A"], [1, 2, 3])] ∧
    -- verify and diff on the result
    (verify envR big3 {}).exitCode = 0 ∧ (verify envR big3 {}).report.mismatch = [] ∧
    (verify envR big3 {}).report.new = [] ∧ (verify envR big3 {}).report.missing = [] ∧
    (diff envR big3 {}).exitCode = 0 ∧ (diff envR big3 {}).report.new = [] ∧
    (diff envR big3 {}).report.missing = [] := by
  rw [createFolder_eq_with, verify_eq_with, diff_eq_with]
  decide +kernel

/-! ### the hypotheses of 1.–4. hold on these trees (non-vacuity), and the theorems give the same exit codes -/

set_option maxRecDepth 100000

theorem load1 : loadHistory big1 = .ok (loadD big1) := loadD_spec big1 (by decide +kernel)
theorem load2 : loadHistory big2 = .ok (loadD big2) := loadD_spec big2 (by decide +kernel)
theorem load3 : loadHistory big3 = .ok (loadD big3) := loadD_spec big3 (by decide +kernel)

/-- the setting of the task holds: sibling names distinct, names well-formed -/
example : big1.NamesOk ∧ big2.NamesOk ∧ big3.NamesOk := ⟨by decide +kernel, by decide +kernel, by decide +kernel⟩

example : big1.NamesDistinct ∧ big2.NamesDistinct ∧ big3.NamesDistinct :=
  ⟨namesDistinctB_spec _ (by decide +kernel), namesDistinctB_spec _ (by decide +kernel),
    namesDistinctB_spec _ (by decide +kernel)⟩

/-- routing on the sealed tree: the files below `A/` are owned by the nested history (root `["A"]`, relative name),
the others by the root history; both have records there — so `Consistent` is not the vacuous `Unrecorded` case -/
example : (owner_u (loadD big2) ["A", "sub", "s"]).root = ["A"] ∧ ownerRel (loadD big2) ["A", "sub", "s"] = "sub/s" ∧
    existingFormats (owner_u (loadD big2) ["A", "sub", "s"]).gens "sub/s" = ["md5", "xxh64"] ∧
    (owner_u (loadD big2) ["B", "z"]).root = [] ∧ ownerRel (loadD big2) ["B", "z"] = "B/z" ∧
    existingFormats (owner_u (loadD big2) ["B", "z"]).gens "B/z" = ["md5", "xxh64"] ∧
    existingFormats (loadD big2).gens "A/x.mov" = [] := by
  decide +kernel

/-- on the grafted tree (outer root not sealed yet) the files below `A/` are recorded in the nested history, the
others nowhere: every visible file is consistent, nothing is expected elsewhere, no reference can dangle -/
theorem hyps1 : AllConsistent envR big1 (loadD big1) o1 ∧ ExpectedPresent envR big1 (loadD big1) o1 ∧
    RefsPresent big1 (loadD big1) :=
  ⟨allConsistentB_spec _ _ _ _ (by decide +kernel), expectedPresentB_spec _ _ _ (by decide +kernel),
    refsPresentB_spec _ _ (by decide +kernel)⟩

/-- the outer seal through the theorems -/
example : (createFolder envR big1 o1).err = none ∧ (createFolder envR big1 o1).exitCode = 0 :=
  ⟨(nested_create_ok load1 hyps1.1 hyps1.2.1 hyps1.2.2).1, (nested_create_ok load1 hyps1.1 hyps1.2.1 hyps1.2.2).2.1⟩

/-- on the sealed tree every visible file is recorded in the history that owns it and unaltered; the hypotheses
only depend on the ignore options of the run, not on the formats, `-dr` or directory hashes -/
theorem hyps2 (fmts : List String) (nd dr : Bool) :
    AllConsistent envR big2 (loadD big2) { formats := fmts, noDirHashes := nd, detectRenaming := dr } ∧
    ExpectedPresent envR big2 (loadD big2) { formats := fmts, noDirHashes := nd, detectRenaming := dr } ∧
    RefsPresent big2 (loadD big2) :=
  ⟨allConsistentB_spec envR big2 (loadD big2) (cHit envR (loadD big2) {}) (by decide +kernel),
    expectedPresentB_spec big2 (loadD big2) (cHit envR (loadD big2) {}) (by decide +kernel),
    refsPresentB_spec _ _ (by decide +kernel)⟩

/-- hence EVERY reseal of the sealed tree — any list of formats (empty, recorded, new, mixed), with or without
directory hashes, with or without `-dr` — ends with exit code 0 and without mismatch: the general theorem at work on
a tree with a nested history (this cannot be had by evaluation) -/
theorem reseal_any_formats (fmts : List String) (nd dr : Bool) :
    (createFolder envR big2 { formats := fmts, noDirHashes := nd, detectRenaming := dr }).err = none ∧
    (createFolder envR big2 { formats := fmts, noDirHashes := nd, detectRenaming := dr }).report.mismatch = [] :=
  ⟨(nested_create_ok load2 (hyps2 fmts nd dr).1 (hyps2 fmts nd dr).2.1 (hyps2 fmts nd dr).2.2).1,
    (nested_create_ok load2 (hyps2 fmts nd dr).1 (hyps2 fmts nd dr).2.1 (hyps2 fmts nd dr).2.2).2.2.1⟩

/-- the hypotheses of 4. on the sealed and on the resealed tree, and verify / diff through the theorem -/
theorem hyps3 : (loadD big3).gens ≠ [] ∧
    (∀ p, (p, false) ∈ visiblePaths (vHit envR (loadD big3) {}) big3 → RecordedConsistent envR big3 (loadD big3) p) ∧
    (∀ p ∈ expectedPaths (loadD big3),
      (∃ d, (p, d) ∈ visiblePaths (vHit envR (loadD big3) {}) big3) ∨ hitAbove (vHit envR (loadD big3) {}) p = true) :=
  ⟨by decide +kernel, allRecordedB_spec _ _ _ _ (by decide +kernel), expectedPresentB_spec _ _ _ (by decide +kernel)⟩

example : (verify envR big3 {}).err = none ∧ (diff envR big3 {}).err = none :=
  ⟨(nested_verify_ok_partial load3 hyps3.1 rfl hyps3.2.1 hyps3.2.2).1.1,
    (nested_verify_ok_partial load3 hyps3.1 rfl hyps3.2.1 hyps3.2.2).2.1⟩

/-- an altered file below `A/` is caught by the NESTED history: `create` from the outer root ends with 11 and names
it with its path from the command root; the hypothesis `AllConsistent` fails exactly there -/
def big2Altered : Node := Node.updateAt (setContent [1, 2, 3, 4]) big2 ["A", "x.mov"]

example : (createFolder envR big2Altered o2).exitCode = 11 ∧
    (createFolder envR big2Altered o2).report.mismatch = ["A/x.mov"] ∧
    allConsistentB envR big2Altered (loadD big2Altered) (cHit envR (loadD big2Altered) o2) = false := by
  rw [createFolder_eq_with]
  decide +kernel


/-! ### 5'. three levels: a grand-child history -/

def envS : Env := { MhlProps.C03e2e.exEnv with rootName := "sub" }
def treeS : Node := .dir "sub" [.file "s" [6, 6], .file "r" []] none
def oS : CreateOpts := { formats := ["sha1"] }
def sealedS : Node := applyWritten treeS (createFolder envS treeS oS).written

def treeA3 : Node := .dir "A" [.file "x.mov" [1, 2, 3], treeS] none
def a1 : Node := Node.updateAt (fun _ => sealedS) treeA3 ["sub"]
def a2 : Node := applyWritten a1 (createFolder envA a1 oA).written

def c0 : Node := .dir "root" [.file "top.txt" [9], treeA3, .dir "B" [.file "z" []] none] none
def c1 : Node := Node.updateAt (fun _ => a2) c0 ["A"]
def c2 : Node := applyWritten c1 (createFolder envR c1 o1).written
def c3 : Node := applyWritten c2 (createFolder envR c2 o2).written

set_option maxRecDepth 100000 in
set_option synthInstance.maxSize 2048 in
/-- 5'. `nested_three_level_e2e`: the same with a GRAND-CHILD history: `A/sub` sealed on its own (sha1), grafted into
`A`; `A` sealed on its own (md5; `sub` writes its generation 2 and is referenced by A's generation 1), grafted into
the big tree; sealed from the outer root (every history writes, innermost first, each parent referencing its child's
new manifest); resealed with another format; verified.  All exit codes 0, by evaluation. -/
theorem nested_three_level_e2e :
    summary (createFolder envS treeS oS) = [([], 1, ["r", "s"], [])] ∧
    histShape a1 = some [([], []), (["sub"], [1])] ∧
    (createFolder envA a1 oA).exitCode = 0 ∧
    summary (createFolder envA a1 oA) =
      [(["sub"], 2, ["r", "s"], []),
       ([], 1, ["sub", "x.mov"], ["sub/ascmhl/0002_sub_2020-01-16_091500Z.mhl"])] ∧
    histShape c1 = some [([], []), (["A"], [1]), (["A", "sub"], [1, 2])] ∧
    (createFolder envR c1 o1).exitCode = 0 ∧ (createFolder envR c1 o1).report.mismatch = [] ∧
    (createFolder envR c1 o1).report.missing = [] ∧
    summary (createFolder envR c1 o1) =
      [(["A", "sub"], 3, ["r", "s"], []),
       (["A"], 2, ["sub", "x.mov"], ["sub/ascmhl/0003_sub_2020-01-16_091500Z.mhl"]),
       ([], 1, ["A", "B/z", "B", "top.txt"], ["A/ascmhl/0002_A_2020-01-16_091500Z.mhl"])] ∧
    histShape c2 = some [([], [1]), (["A"], [1, 2]), (["A", "sub"], [1, 2, 3])] ∧
    (createFolder envR c2 o2).exitCode = 0 ∧ (createFolder envR c2 o2).report.mismatch = [] ∧
    (summary (createFolder envR c2 o2)).map (fun x => (x.1, x.2.1)) = [(["A", "sub"], 4), (["A"], 3), ([], 2)] ∧
    histShape c3 = some [([], [1, 2]), (["A"], [1, 2, 3]), (["A", "sub"], [1, 2, 3, 4])] ∧
    (verify envR c3 {}).exitCode = 0 ∧ (verify envR c3 {}).report.mismatch = [] ∧
    (verify envR c3 {}).report.new = [] ∧ (verify envR c3 {}).report.missing = [] ∧
    (diff envR c3 {}).exitCode = 0 ∧ (diff envR c3 {}).report.new = [] ∧ (diff envR c3 {}).report.missing = [] := by
  rw [createFolder_eq_with, verify_eq_with, diff_eq_with]
  decide +kernel

set_option maxRecDepth 100000

theorem load_c2 : loadHistory c2 = .ok (loadD c2) := loadD_spec c2 (by decide +kernel)

/-- the hypotheses of 1.–3. on the three-level tree, for every list of formats; a file two histories deep is owned by
the grand-child history -/
theorem hyps_c2 (fmts : List String) (nd dr : Bool) :
    AllConsistent envR c2 (loadD c2) { formats := fmts, noDirHashes := nd, detectRenaming := dr } ∧
    ExpectedPresent envR c2 (loadD c2) { formats := fmts, noDirHashes := nd, detectRenaming := dr } ∧
    RefsPresent c2 (loadD c2) :=
  ⟨allConsistentB_spec envR c2 (loadD c2) (cHit envR (loadD c2) {}) (by decide +kernel),
    expectedPresentB_spec c2 (loadD c2) (cHit envR (loadD c2) {}) (by decide +kernel),
    refsPresentB_spec _ _ (by decide +kernel)⟩

example : (owner_u (loadD c2) ["A", "sub", "s"]).root = ["A", "sub"] ∧ ownerRel (loadD c2) ["A", "sub", "s"] = "s" ∧
    (owner_u (loadD c2) ["A", "x.mov"]).root = ["A"] ∧ (owner_u (loadD c2) ["top.txt"]).root = [] ∧
    existingFormats (owner_u (loadD c2) ["A", "sub", "s"]).gens "s" = ["sha1", "md5", "xxh64"] := by decide +kernel

theorem reseal_any_formats3 (fmts : List String) (nd dr : Bool) :
    (createFolder envR c2 { formats := fmts, noDirHashes := nd, detectRenaming := dr }).err = none :=
  (nested_create_ok load_c2 (hyps_c2 fmts nd dr).1 (hyps_c2 fmts nd dr).2.1 (hyps_c2 fmts nd dr).2.2).1


/-! ### 6. grafting preserves what the inner history recorded -/

section
variable {rn : String} {cs : List Node} {hs : Option HistStore} {inner : Node} {s : HistStore} {hin hout : Hist}

theorem findChild_graft (cs : List Node) (inner : Node) (hmem : ∃ c ∈ cs, c.name = inner.name) :
    findChild (cs.map fun c => if c.name == inner.name then inner else c) inner.name = some inner := by
  induction cs with
  | nil => obtain ⟨c, hc, -⟩ := hmem; cases hc
  | cons c cs ih =>
    unfold findChild
    rw [List.map_cons, List.find?_cons]
    by_cases hc : c.name = inner.name
    · simp [hc]
    · have hne : (c.name == inner.name) = false := by simpa using hc
      simp only [hne, Bool.false_eq_true, if_false]
      obtain ⟨c', hc', hcn⟩ := hmem
      have : c' ∈ cs := by
        rcases List.mem_cons.1 hc' with rfl | h
        · exact absurd hcn hc
        · exact h
      exact ih ⟨c', this, hcn⟩

/-- the content of a file below the graft is its content in the sub-tree -/
theorem fileContent_graft (hmem : ∃ c ∈ cs, c.name = inner.name) (q : RelPath) :
    fileContent (graft (.dir rn cs hs) inner.name inner) (inner.name :: q) = fileContent inner q := by
  unfold fileContent
  rw [graft_dir, Node.at?_dir_cons, findChild_graft cs inner hmem]
  rfl

/-- 6a. `graft_owner`: in the big tree a path below the graft is owned by the same history as in the sub-tree on its
own (re-rooted): same generations, same relative name -/
theorem graft_owner (hst : inner.hist = some s) (hnd : (cs.map Node.name).Nodup)
    (hmem : ∃ c ∈ cs, c.name = inner.name) (hlin : loadHistory inner = .ok hin)
    (hlout : loadHistory (graft (.dir rn cs hs) inner.name inner) = .ok hout) (q : RelPath) :
    owner_u hout (inner.name :: q) = rerootH [inner.name] (owner_u hin q) ∧
    (owner_u hout (inner.name :: q)).root = inner.name :: (owner_u hin q).root ∧
    (owner_u hout (inner.name :: q)).gens = (owner_u hin q).gens ∧
    (owner_u hout (inner.name :: q)).chain = (owner_u hin q).chain ∧
    ownerRel hout (inner.name :: q) = ownerRel hin q := by
  have h := graft_route rn cs hs inner s hst hnd hmem hin hout hlin hlout q
  unfold owner_u ownerRel
  rw [h]
  exact ⟨rfl, by rw [rerootH_root]; rfl, rerootH_gens _ _, rerootH_chain _ _, rfl⟩

/-- 6b. `graft_preserves_records`: hence `create` from the outer root judges and records every file of the grafted
sub-tree exactly as `create` from the sub-tree's own root does (same entries, same results, for every list of
formats), verify / diff give the same verdict, and the file is consistent in the big tree iff it is in the
sub-tree -/
theorem graft_preserves_records (env : Env) (hst : inner.hist = some s) (hnd : (cs.map Node.name).Nodup)
    (hmem : ∃ c ∈ cs, c.name = inner.name) (hlin : loadHistory inner = .ok hin)
    (hlout : loadHistory (graft (.dir rn cs hs) inner.name inner) = .ok hout) (q : RelPath) :
    (∀ req, sealEntries (owner_u hout (inner.name :: q)).gens (ownerRel hout (inner.name :: q))
        (fun f => env.H f (fileContent (graft (.dir rn cs hs) inner.name inner) (inner.name :: q))) req =
      sealEntries (owner_u hin q).gens (ownerRel hin q) (fun f => env.H f (fileContent inner q)) req) ∧
    (∀ hashing, judgeFile env (graft (.dir rn cs hs) inner.name inner) hout hashing (inner.name :: q) =
      judgeFile env inner hin hashing q) ∧
    (Consistent env (graft (.dir rn cs hs) inner.name inner) hout (inner.name :: q) ↔ Consistent env inner hin q) := by
  obtain ⟨-, -, hg, -, hr⟩ := graft_owner hst hnd hmem hlin hlout q
  have hc := fileContent_graft (rn := rn) (hs := hs) hmem q
  refine ⟨?_, ?_, ?_⟩
  · intro req
    rw [hg, hr, hc]
  · intro hashing
    have h := graft_route rn cs hs inner s hst hnd hmem hin hout hlin hlout q
    unfold judgeFile
    rw [h, hc]
    simp only [rerootH_gens]
  · unfold Consistent Unrecorded OwnerFirstOk
    rw [hg, hr, hc]

end

/-- the grafted tree of 5. is a graft in this sense; so in the big tree the files below `A/` are owned by A's own
history with A's own generations, and are consistent because they are in `sealedA` -/
example : big1 = graft big0 "A" sealedA := rfl

set_option maxRecDepth 100000 in
example : (owner_u (loadD big1) ["A", "sub", "s"]).gens = (owner_u (loadD sealedA) ["sub", "s"]).gens ∧
    ownerRel (loadD big1) ["A", "sub", "s"] = "sub/s" := by
  have hname : sealedA.name = "A" := by decide +kernel
  have hst : ∃ s, sealedA.hist = some s := by
    cases h : sealedA.hist with
    | none => exact absurd h (by decide +kernel)
    | some s => exact ⟨s, rfl⟩
  obtain ⟨s, hst⟩ := hst
  have hlin : loadHistory sealedA = .ok (loadD sealedA) := loadD_spec _ (by decide +kernel)
  have hlout : loadHistory (graft (.dir "root" [.file "top.txt" [9], treeA, .dir "B" [.file "z" []] none,
      .file ".DS_Store" [0]] none) sealedA.name sealedA) = .ok (loadD big1) := by
    rw [hname]; exact load1
  obtain ⟨-, -, hg, -, hr⟩ := graft_owner hst (by decide) ⟨treeA, by simp, by rw [hname]; rfl⟩ hlin hlout ["sub", "s"]
  rw [hname] at hg hr
  refine ⟨hg, ?_⟩
  rw [hr]
  decide +kernel


end MhlProps.C04nested
