/-
C03e2e — the END-TO-END statement of C03 for a freshly sealed tree:

  on a tree that is unchanged since it was sealed, `verify`, `diff` and a second `create` end with exit code 0
  (and an altered file makes `verify` end with 11 and name the file)

obtained by COMPOSING the model's own `createFolder`, `applyWritten` and `verify` / `diff` / `createFolder`.

Setting (`Setting env rn cs o`): the tree `t = .dir rn cs none` has no `ascmhl` folder anywhere (`noNested t`, root
`hist = none`), sibling names distinct, every name free of '/' and different from "." (`Node.NamesOk`), the folder
name `env.rootName` and the stamp `env.stamp` free of '\n' (else the manifest name does not parse, C06); the digest
function, decoder and matcher of `env` are arbitrary; `o` is a folder-mode `create` without `-dr` and with at least
one format.

  out := createFolder env t o          t' := applyWritten t out.written   (`sealedTree env rn cs o`)

  1. `first_seal_ok`                out.err = none, out.written = [w], w.histRoot = [], w.number = 1
  2. `sealed_tree_loads`            loadHistory t' = .ok (sealedHist w): root [], no children, gens = [⟨1, w.gen⟩]
  3. `sealed_ignore_stable`         the pattern list / matcher / visible paths of verify on t' are those of create on t
  4. `verify_after_seal`            verify and diff on t' end with exit code 0 and report nothing
  5. `reseal_ok`                    a second create on t' with ANY non-empty format list ends with 0, writes number 2
  6. `original_entry_after_seal`, `altered_detected_after_seal`, `altered_report_exact`, `altered_undetected`
                                    which entry verify compares; an altered file gives exit 11 and is named (alone)

All statements are at full strength; nothing is partial.  The only hypotheses beyond the setting are, for 5., that
the ignore options of the second run only name patterns already recorded (same options, or none), and for 6., that
the digest of the new content DIFFERS in the format verify compares (`env.H` is arbitrary, so this cannot follow
from the contents being different; `altered_undetected` shows the hypothesis is exactly what is needed).

Helper lemmas are in MhlProps/Proofs/SealVerifyLemmas.lean.  The last section instantiates everything on a concrete
tree (two files, a sub-folder with a file, two ignored files, two formats) and evaluates the pipeline by `decide`.
-/
import MhlProps.Proofs.SealVerifyLemmas

namespace MhlProps.C03e2e
open MhlModel MhlProps.C02rec MhlProps.C04

/-- the hypotheses on the tree, the environment and the options of the first `create` -/
structure Setting (env : Env) (rn : String) (cs : List Node) (o : CreateOpts) : Prop where
  flat : noNested (.dir rn cs none) = true
  distinct : (Node.dir rn cs none).NamesDistinct
  namesOk : (Node.dir rn cs none).NamesOk
  rootName : '\n' ∉ env.rootName.toList
  stamp : '\n' ∉ env.stamp.toList
  singleFiles : o.singleFiles = []
  noRename : o.detectRenaming = false
  formats : o.formats ≠ []

section
variable {env : Env} {rn : String} {cs : List Node} {o : CreateOpts}

/-- the pattern list of the first `create` -/
abbrev pats (o : CreateOpts) : List String := setPatterns none o.ignoreCli o.ignoreFile

/-- the matcher of the first `create` -/
abbrev hit0 (env : Env) (o : CreateOpts) : RelPath → Bool := env.hit (pats o)

theorem load_fresh (hS : Setting env rn cs o) : loadHistory (.dir rn cs none) = .ok emptyHist :=
  loadHistory_fresh rn cs hS.flat

theorem cHit_fresh (env : Env) (o : CreateOpts) : cHit env emptyHist o = hit0 env o := rfl

/-- with `-sf` absent the command is the folder-mode `create` -/
theorem create_eq (hS : Setting env rn cs o) (t : Node) : create env t o = createFolder env t o := by
  unfold create
  simp [hS.singleFiles]

/-! ### 1. the first seal cannot fail -/

/-- everything the later theorems use about the first run, in one statement -/
theorem first_seal_core (hS : Setting env rn cs o) :
    ∃ w, (createFolder env (.dir rn cs none) o).err = none ∧
      (createFolder env (.dir rn cs none) o).written = [w] ∧
      (createFolder env (.dir rn cs none) o).report.mismatch = [] ∧
      (createFolder env (.dir rn cs none) o).report.missing = [] ∧
      writeOne emptyHist (cSession env (.dir rn cs none) emptyHist o) env.rootName env.stamp "in-place" none
        emptyHist [] = .ok w := by
  obtain ⟨w, h1, h2, h3, h4, -, h6⟩ := createFolder_flat_ok env (.dir rn cs none) o emptyHist (load_fresh hS) rfl
    hS.distinct hS.namesOk hS.formats hS.noRename rfl
    (fun p _ => firstOk_nil _ _)
    (fun p hp => by rw [expectedPaths_emptyHist] at hp; cases hp)
    (fun g hg => by rw [emptyHist_gens] at hg; cases hg)
  exact ⟨w, h1, h2, h3, h4, h6⟩

/-- 1. `first_seal_ok`: on a tree without history the first `create` ends with exit code 0, reports nothing, and
writes exactly one generation: number 1 of the root history -/
theorem first_seal_ok (hS : Setting env rn cs o) :
    (createFolder env (.dir rn cs none) o).err = none ∧
    (createFolder env (.dir rn cs none) o).exitCode = 0 ∧
    (createFolder env (.dir rn cs none) o).report.mismatch = [] ∧
    (createFolder env (.dir rn cs none) o).report.missing = [] ∧
    ∃ w, (createFolder env (.dir rn cs none) o).written = [w] ∧ w.histRoot = [] ∧ w.number = 1 ∧
      w.gen.state = .ok ∧ w.gen.fileName = genFileName 1 env.rootName env.stamp := by
  obtain ⟨w, h1, h2, h3, h4, hw⟩ := first_seal_core hS
  obtain ⟨hnum, hroot, hname⟩ := MhlProps.C06.writeOne_number _ _ _ _ _ _ _ _ hw
  obtain ⟨hstate, -, -⟩ := MhlProps.C06.writeOne_state _ _ _ _ _ _ _ _ _ hw
  have hnum1 : w.number = 1 := hnum
  refine ⟨h1, ?_, h3, h4, w, h2, hroot, hnum1, hstate, ?_⟩
  · unfold Outcome.exitCode; rw [h1]
  · rw [hname, hnum1]; rfl

/-- the same for the command `create` -/
theorem first_seal_ok_create (hS : Setting env rn cs o) :
    (create env (.dir rn cs none) o).err = none ∧
    ∃ w, (create env (.dir rn cs none) o).written = [w] ∧ w.histRoot = [] ∧ w.number = 1 := by
  rw [create_eq hS]
  obtain ⟨h1, -, -, -, w, hw, h2, h3, -⟩ := first_seal_ok hS
  exact ⟨h1, w, hw, h2, h3⟩

/-- the facts about the written generation `w`, from `written = [w]` -/
theorem written_facts (hS : Setting env rn cs o) (w : Written)
    (hw : (createFolder env (.dir rn cs none) o).written = [w]) :
    w.histRoot = [] ∧ w.number = 1 ∧ w.gen.state = .ok ∧ parseGenName w.gen.fileName = some 1 ∧
      w.gen.refs = [] ∧ w.gen.ignore = pats o ∧
      SealedGen env (.dir rn cs none) (hit0 env o) o.formats w.gen := by
  obtain ⟨w', -, h2, -, -, hw'⟩ := first_seal_core hS
  rw [hw] at h2
  obtain rfl : w = w' := by simpa using h2
  obtain ⟨hnum, hroot, hname⟩ := MhlProps.C06.writeOne_number _ _ _ _ _ _ _ _ hw'
  obtain ⟨hstate, -, -⟩ := MhlProps.C06.writeOne_state _ _ _ _ _ _ _ _ _ hw'
  have hnum1 : w.number = 1 := hnum
  refine ⟨hroot, hnum1, hstate, ?_, writeOne_refs_nil _ _ _ _ _ _ _ _ hw', ?_, ?_⟩
  · rw [hname, hnum1]
    exact MhlProps.C06.parseGenName_genFileName 1 _ _ hS.rootName hS.stamp
  · rw [MhlProps.C12.written_ignore _ _ _ _ _ _ _ _ _ hw']
    have hp : (cSession env (.dir rn cs none) emptyHist o).patterns = pats o :=
      (createVisit_records env (.dir rn cs none) emptyHist rfl rfl hS.distinct hS.namesOk (isort strLe o.formats)
        (by
          intro h0
          have := length_isort strLe o.formats
          rw [h0] at this
          exact hS.formats (List.length_eq_zero_iff.1 this.symm))
        o.noDirHashes _ (cHit env emptyHist o)).1
    rw [hp]
    exact setPatterns_none_own o.ignoreCli o.ignoreFile
  · exact first_seal_gen env (.dir rn cs none) o hS.distinct hS.namesOk hS.formats w hw'

/-! ### 2. the sealed tree loads -/

/-- the tree after the first `create`: the written generation put into the (new) `ascmhl` folder -/
def sealedTree (env : Env) (rn : String) (cs : List Node) (o : CreateOpts) : Node :=
  applyWritten (.dir rn cs none) (createFolder env (.dir rn cs none) o).written

/-- the history that tree loads as -/
def sealedHist (w : Written) : Hist := .mk [] [⟨1, w.gen⟩] [⟨1, w.gen.fileName⟩] true []

theorem sealedTree_eq (hS : Setting env rn cs o) (w : Written)
    (hw : (createFolder env (.dir rn cs none) o).written = [w]) :
    sealedTree env rn cs o = .dir rn cs (some (firstStore w)) := by
  unfold sealedTree
  rw [hw, applyWritten_root rn cs none w (written_facts hS w hw).1]
  rfl

/-- 2. `sealed_tree_loads`: the tree with the written generation loads; the history is rooted at the command root,
has no nested histories, and its generations are exactly the written one, numbered 1 by its name; the chain has
the one entry for it -/
theorem sealed_tree_loads (hS : Setting env rn cs o) (w : Written)
    (hw : (createFolder env (.dir rn cs none) o).written = [w]) :
    loadHistory (sealedTree env rn cs o) = .ok (sealedHist w) ∧
    (sealedHist w).root = [] ∧ (sealedHist w).children = [] ∧ (sealedHist w).gens = [⟨1, w.gen⟩] ∧
    (sealedHist w).chain = [⟨1, w.gen.fileName⟩] := by
  obtain ⟨-, hnum, hstate, hparse, -⟩ := written_facts hS w hw
  refine ⟨?_, rfl, rfl, rfl, rfl⟩
  rw [sealedTree_eq hS w hw, loadHistory_firstStore rn cs hS.flat w 1 hparse hstate, hnum]
  rfl

/-- in the existential form of the task statement -/
theorem sealed_tree_loads' (hS : Setting env rn cs o) :
    ∃ w h, (createFolder env (.dir rn cs none) o).written = [w] ∧
      loadHistory (sealedTree env rn cs o) = .ok h ∧ h.root = [] ∧ h.children = [] ∧ h.gens = [⟨1, w.gen⟩] := by
  obtain ⟨w, -, hw, -⟩ := first_seal_core hS
  obtain ⟨h1, h2, h3, h4, -⟩ := sealed_tree_loads hS w hw
  exact ⟨w, _, hw, h1, h2, h3, h4⟩

/-! ### 3. the pattern list is stable -/

/-- 3. `sealed_ignore_stable`: the generation carries exactly the pattern list `create` used; the list `verify` /
`diff` (without options) build from it is that list again; so both commands use the same matcher and see the SAME
visible paths on the sealed tree as `create` saw on the original one -/
theorem sealed_ignore_stable (hS : Setting env rn cs o) (w : Written)
    (hw : (createFolder env (.dir rn cs none) o).written = [w]) :
    w.gen.ignore = setPatterns none o.ignoreCli o.ignoreFile ∧
    setPatterns (latestIgnore (sealedHist w).gens) [] [] = setPatterns none o.ignoreCli o.ignoreFile ∧
    vHit env (sealedHist w) {} = hit0 env o ∧
    visiblePaths (vHit env (sealedHist w) {}) (sealedTree env rn cs o) =
      visiblePaths (hit0 env o) (.dir rn cs none) := by
  obtain ⟨-, -, -, -, -, hign, -⟩ := written_facts hS w hw
  have hlat : latestIgnore (sealedHist w).gens = some (pats o) := by
    simp [latestIgnore, sealedHist, Hist.gens, hign]
  have hset : setPatterns (latestIgnore (sealedHist w).gens) [] [] = pats o := by
    rw [hlat]
    exact setPatterns_some_own (pats o) [] [] (setPatterns_fresh_ne_nil _ _)
      (MhlProps.C12.setPatterns_nodup _ _ _) (by simp) (by simp)
  have hhit : vHit env (sealedHist w) {} = hit0 env o := by
    unfold vHit
    rw [show ({} : VerifyOpts).ignoreCli = [] from rfl, show ({} : VerifyOpts).ignoreFile = [] from rfl, hset]
  refine ⟨hign, hset, hhit, ?_⟩
  rw [hhit, sealedTree_eq hS w hw]
  exact visiblePaths_root_hist _ _ _ _ _

/-- the same for a second `create` whose ignore options only name patterns already recorded (in particular: the
same options again, or none) -/
theorem sealed_ignore_stable_create (hS : Setting env rn cs o) (w : Written)
    (hw : (createFolder env (.dir rn cs none) o).written = [w]) (o₂ : CreateOpts)
    (hcli : ∀ x ∈ o₂.ignoreCli, x ∈ setPatterns none o.ignoreCli o.ignoreFile)
    (hfile : ∀ x ∈ o₂.ignoreFile, x ∈ setPatterns none o.ignoreCli o.ignoreFile) :
    cHit env (sealedHist w) o₂ = hit0 env o := by
  obtain ⟨-, -, -, -, -, hign, -⟩ := written_facts hS w hw
  have hlat : latestIgnore (sealedHist w).gens = some (pats o) := by
    simp [latestIgnore, sealedHist, Hist.gens, hign]
  unfold cHit
  rw [hlat, setPatterns_some_own (pats o) _ _ (setPatterns_fresh_ne_nil _ _)
    (MhlProps.C12.setPatterns_nodup _ _ _) hcli hfile]

/-! ### 4. verify and diff on the unchanged sealed tree -/

theorem sealedHist_gens_ne (w : Written) : (sealedHist w).gens ≠ [] := by simp [sealedHist, Hist.gens]

/-- every file `create` saw is judged ok by verify and by diff -/
theorem judge_sealed (hS : Setting env rn cs o) (w : Written)
    (hw : (createFolder env (.dir rn cs none) o).written = [w]) (hashing : Bool) (p : RelPath)
    (hp : (p, false) ∈ visiblePaths (hit0 env o) (.dir rn cs none)) :
    judgeFile env (sealedTree env rn cs o) (sealedHist w) hashing p = .ok := by
  obtain ⟨-, -, -, -, -, -, hsg⟩ := written_facts hS w hw
  unfold sealedHist
  rw [hsg.judgeFile_eq hS.namesOk hS.formats _ _ _ _ _ _ hp, sealedTree_eq hS w hw,
    fileContent_root_hist rn cs _ none]
  simp

/-- the run of `verifyOrDiff` without options on the unchanged sealed tree -/
theorem verifyOrDiff_after_seal (hS : Setting env rn cs o) (hashing : Bool) :
    (verifyOrDiff env (sealedTree env rn cs o) {} hashing none).err = none ∧
    (verifyOrDiff env (sealedTree env rn cs o) {} hashing none).exitCode = 0 ∧
    (verifyOrDiff env (sealedTree env rn cs o) {} hashing none).report.mismatch = [] ∧
    (verifyOrDiff env (sealedTree env rn cs o) {} hashing none).report.new = [] ∧
    (verifyOrDiff env (sealedTree env rn cs o) {} hashing none).report.missing = [] := by
  obtain ⟨w, -, hw, -⟩ := first_seal_core hS
  obtain ⟨hl, -⟩ := sealed_tree_loads hS w hw
  obtain ⟨-, -, hhit, hvis⟩ := sealed_ignore_stable hS w hw
  obtain ⟨-, -, -, -, -, -, hsg⟩ := written_facts hS w hw
  apply MhlProps.C03.clean_exit_zero env _ {} hashing (sealedHist w) hl (sealedHist_gens_ne w) rfl
  · intro p hp
    rw [hvis] at hp
    rw [judge_sealed hS w hw hashing p hp]
    exact ⟨by decide, by decide⟩
  · intro p hp
    left
    rw [hvis]
    exact hsg.expected hS.namesOk 1 _ _ p hp

/-- 4. `verify_after_seal`: on the tree unchanged since it was sealed, `verify` ends with exit code 0 and reports
no mismatch, no new file, no missing file; and so does `diff` -/
theorem verify_after_seal (hS : Setting env rn cs o) :
    (verify env (sealedTree env rn cs o) {}).err = none ∧
    (verify env (sealedTree env rn cs o) {}).exitCode = 0 ∧
    (verify env (sealedTree env rn cs o) {}).report.mismatch = [] ∧
    (verify env (sealedTree env rn cs o) {}).report.new = [] ∧
    (verify env (sealedTree env rn cs o) {}).report.missing = [] ∧
    (diff env (sealedTree env rn cs o) {}).err = none ∧
    (diff env (sealedTree env rn cs o) {}).exitCode = 0 ∧
    (diff env (sealedTree env rn cs o) {}).report.mismatch = [] ∧
    (diff env (sealedTree env rn cs o) {}).report.new = [] ∧
    (diff env (sealedTree env rn cs o) {}).report.missing = [] := by
  obtain ⟨a1, a2, a3, a4, a5⟩ := verifyOrDiff_after_seal hS true
  obtain ⟨b1, b2, b3, b4, b5⟩ := verifyOrDiff_after_seal hS false
  exact ⟨a1, a2, a3, a4, a5, b1, b2, b3, b4, b5⟩

/-! ### 5. a second `create` on the unchanged sealed tree -/

theorem sealedTree_names (hS : Setting env rn cs o) (w : Written)
    (hw : (createFolder env (.dir rn cs none) o).written = [w]) :
    (sealedTree env rn cs o).NamesDistinct ∧ (sealedTree env rn cs o).NamesOk ∧
      (sealedTree env rn cs o).isDir = true := by
  rw [sealedTree_eq hS w hw]
  refine ⟨?_, ?_, rfl⟩
  · exact (Node.namesDistinct_dir _ _ _).2 ((Node.namesDistinct_dir _ _ _).1 hS.distinct)
  · intro s hs
    exact hS.namesOk s ((Node.mem_descNames_dir _ _ _ _).2 ((Node.mem_descNames_dir _ _ _ _).1 hs))

/-- 5. `reseal_ok`: a second folder-mode `create` on the unchanged sealed tree, with ANY non-empty list of formats
(a subset, a superset, disjoint from the first ones, with or without directory hashes), no `-dr`, and ignore
options that only name patterns already recorded, ends with exit code 0, reports nothing and writes generation 2 -/
theorem reseal_ok (hS : Setting env rn cs o) (o₂ : CreateOpts) (hf₂ : o₂.formats ≠ [])
    (hdr₂ : o₂.detectRenaming = false)
    (hcli : ∀ x ∈ o₂.ignoreCli, x ∈ setPatterns none o.ignoreCli o.ignoreFile)
    (hfile : ∀ x ∈ o₂.ignoreFile, x ∈ setPatterns none o.ignoreCli o.ignoreFile) :
    (createFolder env (sealedTree env rn cs o) o₂).err = none ∧
    (createFolder env (sealedTree env rn cs o) o₂).exitCode = 0 ∧
    (createFolder env (sealedTree env rn cs o) o₂).report.mismatch = [] ∧
    (createFolder env (sealedTree env rn cs o) o₂).report.missing = [] ∧
    ∃ w₂, (createFolder env (sealedTree env rn cs o) o₂).written = [w₂] ∧ w₂.histRoot = [] ∧ w₂.number = 2 := by
  obtain ⟨w, -, hw, -⟩ := first_seal_core hS
  obtain ⟨hl, -⟩ := sealed_tree_loads hS w hw
  obtain ⟨-, -, -, -, hrefs, -, hsg⟩ := written_facts hS w hw
  obtain ⟨hd', hn', hdir'⟩ := sealedTree_names hS w hw
  have hhit := sealed_ignore_stable_create hS w hw o₂ hcli hfile
  have hvis : visiblePaths (cHit env (sealedHist w) o₂) (sealedTree env rn cs o) =
      visiblePaths (hit0 env o) (.dir rn cs none) := by
    rw [hhit, sealedTree_eq hS w hw]
    exact visiblePaths_root_hist _ _ _ _ _
  obtain ⟨w₂, h1, h2, h3, h4, -, hw₂⟩ := createFolder_flat_ok env (sealedTree env rn cs o) o₂ (sealedHist w) hl rfl
    hd' hn' hf₂ hdr₂ hdir'
    (by
      intro p hp
      rw [hvis] at hp
      have := hsg.firstOk hS.namesOk 1 p hp
      rw [sealedTree_eq hS w hw, fileContent_root_hist rn cs _ none]
      exact this)
    (by
      intro p hp
      left
      rw [hvis]
      exact hsg.expected hS.namesOk 1 _ _ p hp)
    (by
      intro g hg
      have : g = ⟨1, w.gen⟩ := by
        simp [sealedHist, Hist.gens] at hg
        exact hg.symm
      rw [this]
      exact hrefs)
  obtain ⟨hnum, hroot, -⟩ := MhlProps.C06.writeOne_number _ _ _ _ _ _ _ _ hw₂
  refine ⟨h1, ?_, h3, h4, w₂, h2, hroot, ?_⟩
  · unfold Outcome.exitCode; rw [h1]
  · rw [hnum]
    rfl

/-- in particular with the very same options, and with default ones and other formats -/
theorem reseal_same_ok (hS : Setting env rn cs o) :
    (createFolder env (sealedTree env rn cs o) o).err = none :=
  (reseal_ok hS o hS.formats hS.noRename (MhlProps.C12.setPatterns_contains_new _ _ _).1
    (MhlProps.C12.setPatterns_contains_new _ _ _).2).1

theorem reseal_formats_ok (hS : Setting env rn cs o) (fmts : List String) (hf : fmts ≠ []) (noDir : Bool) :
    (createFolder env (sealedTree env rn cs o) { formats := fmts, noDirHashes := noDir }).err = none :=
  (reseal_ok hS { formats := fmts, noDirHashes := noDir } hf rfl (by simp) (by simp)).1

/-- the same at command level (`create` without `-sf`) -/
theorem reseal_ok_create (hS : Setting env rn cs o) (o₂ : CreateOpts) (hsf₂ : o₂.singleFiles = [])
    (hf₂ : o₂.formats ≠ []) (hdr₂ : o₂.detectRenaming = false)
    (hcli : ∀ x ∈ o₂.ignoreCli, x ∈ setPatterns none o.ignoreCli o.ignoreFile)
    (hfile : ∀ x ∈ o₂.ignoreFile, x ∈ setPatterns none o.ignoreCli o.ignoreFile) :
    (create env (applyWritten (.dir rn cs none) (create env (.dir rn cs none) o).written) o₂).err = none ∧
    (create env (applyWritten (.dir rn cs none) (create env (.dir rn cs none) o).written) o₂).exitCode = 0 := by
  have h2 : ∀ t, create env t o₂ = createFolder env t o₂ := by
    intro t; unfold create; simp [hsf₂]
  rw [create_eq hS, h2]
  exact ⟨(reseal_ok hS o₂ hf₂ hdr₂ hcli hfile).1, (reseal_ok hS o₂ hf₂ hdr₂ hcli hfile).2.1⟩

/-! ### 6. an altered file is detected -/

/-- which entry verify compares a sealed file with.  The writer sorts the entries of a file record by format NAME
(`_media_hash_xml_element`), all entries of a first generation are `original`, and `findOriginal` takes the first
`original` entry of the record; so it is the entry of `firstFormat o.formats`, the LEAST requested format name in
string order (not the first one given on the command line), carrying the digest of the content at seal time -/
theorem original_entry_after_seal (hS : Setting env rn cs o) (w : Written)
    (hw : (createFolder env (.dir rn cs none) o).written = [w]) (p : RelPath)
    (hp : (p, false) ∈ visiblePaths (hit0 env o) (.dir rn cs none)) :
    findOriginal (sealedHist w).gens (posix p) =
      some { fmt := firstFormat o.formats,
             digest := env.H (firstFormat o.formats) (fileContent (.dir rn cs none) p),
             action := "original" } ∧
    firstFormat o.formats ∈ o.formats ∧ ∀ f ∈ o.formats, firstFormat o.formats ≤ f := by
  obtain ⟨-, -, -, -, -, -, hsg⟩ := written_facts hS w hw
  obtain ⟨h1, h2⟩ := firstFormat_spec o.formats hS.formats
  refine ⟨hsg.findOriginal_eq hS.namesOk hS.formats 1 p hp, h1, ?_⟩
  intro f hf
  simpa [strLe] using h2 f hf

/-- the sealed tree with the content of the file at `p` replaced by `c'` -/
def alteredTree (env : Env) (rn : String) (cs : List Node) (o : CreateOpts) (p : RelPath) (c' : Bytes) : Node :=
  Node.updateAt (setContent c') (sealedTree env rn cs o) p

/-- what changes and what does not when the content of a visible file is replaced -/
theorem alteredTree_facts (hS : Setting env rn cs o) (w : Written)
    (hw : (createFolder env (.dir rn cs none) o).written = [w]) (p : RelPath)
    (hp : (p, false) ∈ visiblePaths (hit0 env o) (.dir rn cs none)) (c' : Bytes) :
    loadHistory (alteredTree env rn cs o p c') = .ok (sealedHist w) ∧
    (∀ hit, visiblePaths hit (alteredTree env rn cs o p c') = visiblePaths hit (.dir rn cs none)) ∧
    (∃ nm, (alteredTree env rn cs o p c').at? p = some (.file nm c')) ∧
    fileContent (alteredTree env rn cs o p c') p = c' := by
  obtain ⟨-, hnum, hstate, hparse, -⟩ := written_facts hS w hw
  obtain ⟨hne, -⟩ := visible_names_ok _ _ hS.namesOk _ hp
  obtain ⟨c0, hat, hfile⟩ := MhlProps.C02.visible_on_disk _ _ hS.distinct p false hp
  obtain ⟨n, rest, rfl⟩ : ∃ n rest, p = n :: rest := by
    cases p with
    | nil => exact absurd rfl hne
    | cons n rest => exact ⟨n, rest, rfl⟩
  obtain ⟨nm, c, rfl⟩ : ∃ nm c, c0 = .file nm c := by
    cases c0 with
    | file nm c => exact ⟨nm, c, rfl⟩
    | dir _ _ _ => cases hfile
  have hat' : (sealedTree env rn cs o).at? (n :: rest) = some (.file nm c) := by
    rw [sealedTree_eq hS w hw, Node.at?_dir_cons, ← Node.at?_dir_cons rn cs none]
    exact hat
  obtain ⟨ha1, ha2⟩ := fileContent_updateAt_setContent c' _ _ nm c hat'
  have htree : alteredTree env rn cs o (n :: rest) c' =
      .dir rn (Node.updateKids (setContent c') n rest cs) (some (firstStore w)) := by
    unfold alteredTree
    rw [sealedTree_eq hS w hw, updateAt_dir_cons]
  refine ⟨?_, ?_, ⟨nm, ha1⟩, ha2⟩
  · have hflat' : noNested (.dir rn (Node.updateKids (setContent c') n rest cs) none) = true := by
      have h1 := (updateAt_setContent c' (fun _ => false) (n :: rest) (.dir rn cs none)).2.1
      rw [updateAt_dir_cons] at h1
      have h2 : noHistList cs = true := hS.flat
      simp only [noHist, Option.isNone_none, Bool.true_and] at h1
      rw [h2] at h1
      exact h1
    rw [htree, loadHistory_firstStore rn _ hflat' w 1 hparse hstate, hnum]
    rfl
  · intro hit
    have h1 := (updateAt_setContent c' hit (n :: rest) (sealedTree env rn cs o)).2.2 []
    unfold alteredTree visiblePaths
    rw [h1, sealedTree_eq hS w hw, traverse_dir, traverse_dir]

/-- 6. `altered_detected_after_seal`: replace the content of a visible file `p` of the sealed tree by `c'`.  If the
digest of `c'` in the format verify compares (`firstFormat o.formats`, see `original_entry_after_seal`) differs from
that of the sealed content, `verify` ends with `VerificationFailedException` (exit code 11) and names `p` as a
mismatch.  (With `env.H` arbitrary nothing forces different contents to have different digests, hence the
hypothesis on the digests.) -/
theorem altered_detected_after_seal (hS : Setting env rn cs o) (p : RelPath)
    (hp : (p, false) ∈ visiblePaths (hit0 env o) (.dir rn cs none)) (c' : Bytes)
    (hdig : env.H (firstFormat o.formats) c' ≠
      env.H (firstFormat o.formats) (fileContent (.dir rn cs none) p)) :
    (verify env (alteredTree env rn cs o p c') {}).err = some errVerifyFailed ∧
    (verify env (alteredTree env rn cs o p c') {}).exitCode = 11 ∧
    posix p ∈ (verify env (alteredTree env rn cs o p c') {}).report.mismatch := by
  obtain ⟨w, -, hw, -⟩ := first_seal_core hS
  obtain ⟨hl, hvis, -, hcont⟩ := alteredTree_facts hS w hw p hp c'
  obtain ⟨-, -, hhit, -⟩ := sealed_ignore_stable hS w hw
  obtain ⟨-, -, -, -, -, -, hsg⟩ := written_facts hS w hw
  have hj : judgeFile env (alteredTree env rn cs o p c') (sealedHist w) true p = .mismatch := by
    unfold sealedHist
    rw [hsg.judgeFile_eq hS.namesOk hS.formats _ _ _ _ _ _ hp, hcont]
    simp [hdig]
  have hv : (p, false) ∈ visiblePaths (vHit env (sealedHist w) {}) (alteredTree env rn cs o p c') := by
    rw [hhit, hvis]; exact hp
  obtain ⟨-, h2, h3, h4⟩ := MhlProps.C03.mismatch_complete env (alteredTree env rn cs o p c') {} true (sealedHist w)
    hl (sealedHist_gens_ne w) p hv (Or.inl rfl) hj
  exact ⟨h3, h4, h2⟩

/-- every other visible file keeps its content -/
theorem alteredTree_other (hS : Setting env rn cs o) (p : RelPath)
    (hp : (p, false) ∈ visiblePaths (hit0 env o) (.dir rn cs none)) (c' : Bytes) (q : RelPath)
    (hq : (q, false) ∈ visiblePaths (hit0 env o) (.dir rn cs none)) (hne : q ≠ p) :
    fileContent (alteredTree env rn cs o p c') q = fileContent (.dir rn cs none) q := by
  obtain ⟨w, -, hw, -⟩ := first_seal_core hS
  have hfile : ∀ r, (r, false) ∈ visiblePaths (hit0 env o) (.dir rn cs none) →
      ∃ nm c, (sealedTree env rn cs o).at? r = some (.file nm c) ∧ (Node.dir rn cs none).at? r = some (.file nm c) := by
    intro r hr
    obtain ⟨hne, -⟩ := visible_names_ok _ _ hS.namesOk _ hr
    obtain ⟨c0, hat, hfile⟩ := MhlProps.C02.visible_on_disk _ _ hS.distinct r false hr
    cases c0 with
    | dir _ _ _ => cases hfile
    | file nm c =>
      refine ⟨nm, c, ?_, hat⟩
      cases r with
      | nil => exact absurd rfl hne
      | cons n rest =>
        rw [sealedTree_eq hS w hw, Node.at?_dir_cons, ← Node.at?_dir_cons rn cs none]
        exact hat
  obtain ⟨nm, c, hp1, -⟩ := hfile p hp
  obtain ⟨nm', c'', hq1, hq2⟩ := hfile q hq
  have := updateAt_at?_other_file (setContent c') (setContent_name c') _ p q nm c nm' c'' hp1 hq1 hne
  unfold alteredTree fileContent
  rw [this, hq2]

/-- 6'. exactly the altered file is reported: the mismatch list is `[p]`, nothing is new, nothing is missing -/
theorem altered_report_exact (hS : Setting env rn cs o) (p : RelPath)
    (hp : (p, false) ∈ visiblePaths (hit0 env o) (.dir rn cs none)) (c' : Bytes)
    (hdig : env.H (firstFormat o.formats) c' ≠
      env.H (firstFormat o.formats) (fileContent (.dir rn cs none) p)) :
    (verify env (alteredTree env rn cs o p c') {}).report.mismatch = [posix p] ∧
    (verify env (alteredTree env rn cs o p c') {}).report.new = [] ∧
    (verify env (alteredTree env rn cs o p c') {}).report.missing = [] := by
  obtain ⟨w, -, hw, -⟩ := first_seal_core hS
  obtain ⟨hl, hvis, -, hcont⟩ := alteredTree_facts hS w hw p hp c'
  obtain ⟨-, -, hhit, -⟩ := sealed_ignore_stable hS w hw
  obtain ⟨-, -, -, -, -, -, hsg⟩ := written_facts hS w hw
  have hvis' : visiblePaths (vHit env (sealedHist w) {}) (alteredTree env rn cs o p c') =
      visiblePaths (hit0 env o) (.dir rn cs none) := by rw [hhit, hvis]
  -- the verdict on every visible file
  have hjudge : ∀ q, (q, false) ∈ visiblePaths (hit0 env o) (.dir rn cs none) →
      judgeFile env (alteredTree env rn cs o p c') (sealedHist w) true q = if q = p then .mismatch else .ok := by
    intro q hq
    unfold sealedHist
    rw [hsg.judgeFile_eq hS.namesOk hS.formats _ _ _ _ _ _ hq]
    by_cases hqp : q = p
    · subst hqp
      rw [hcont]; simp [hdig]
    · rw [alteredTree_other hS p hp c' q hq hqp]; simp [hqp]
  obtain ⟨r1, r2, r3, -, -⟩ := MhlProps.C03.report_shape env (alteredTree env rn cs o p c') {} true (sealedHist w) hl
    (sealedHist_gens_ne w)
  rw [MhlProps.C03.verify_def, r1, r2, r3]
  have hcons : ∀ q, q ∈ vConsidered env (alteredTree env rn cs o p c') (sealedHist w) {} ↔
      (q, false) ∈ visiblePaths (hit0 env o) (.dir rn cs none) := by
    intro q
    rw [mem_vConsidered, hvis']
    simp
  refine ⟨?_, ?_, ?_⟩
  · have : vMism env (alteredTree env rn cs o p c') (sealedHist w) {} true = [p] := by
      unfold vMism
      apply filter_eq_singleton
      · unfold vConsidered vFiles
        rw [hvis']
        exact List.Nodup.sublist List.filter_sublist (visibleFiles_nodup _ _ hS.distinct hS.namesOk)
      · exact (hcons p).2 hp
      · intro q hq
        rw [hjudge q ((hcons q).1 hq)]
        by_cases hqp : q = p <;> simp [hqp]
    rw [this]; rfl
  · have : vNews env (alteredTree env rn cs o p c') (sealedHist w) {} true = [] := by
      apply List.eq_nil_iff_forall_not_mem.2
      intro q hq
      obtain ⟨hq1, hq2⟩ := (mem_vNews _ _ _ _ _ _).1 hq
      rw [hjudge q ((hcons q).1 hq1)] at hq2
      by_cases hqp : q = p <;> simp [hqp] at hq2
    rw [this]; rfl
  · have : vMissing env (alteredTree env rn cs o p c') (sealedHist w) {} = [] := by
      apply List.eq_nil_iff_forall_not_mem.2
      intro q hq
      obtain ⟨he, hnv, -⟩ := (MhlProps.C03.missing_iff env _ {} (sealedHist w) q).1 hq
      obtain ⟨d, hd⟩ := hsg.expected hS.namesOk 1 _ _ q he
      exact hnv d (by rw [hvis']; exact hd)
    rw [this]; rfl

/-- the hypothesis on the digests is exactly what is needed: if the digest in that one format is unchanged, verify
judges the altered file ok (whatever digests the other recorded formats would give), and `diff`, which does not
hash, never notices a change of content -/
theorem altered_undetected (hS : Setting env rn cs o) (w : Written)
    (hw : (createFolder env (.dir rn cs none) o).written = [w]) (p : RelPath)
    (hp : (p, false) ∈ visiblePaths (hit0 env o) (.dir rn cs none)) (c' : Bytes) (hashing : Bool)
    (hdig : hashing = true → env.H (firstFormat o.formats) c' =
      env.H (firstFormat o.formats) (fileContent (.dir rn cs none) p)) :
    loadHistory (alteredTree env rn cs o p c') = .ok (sealedHist w) ∧
    judgeFile env (alteredTree env rn cs o p c') (sealedHist w) hashing p = .ok := by
  obtain ⟨hl, -, -, hcont⟩ := alteredTree_facts hS w hw p hp c'
  obtain ⟨-, -, -, -, -, -, hsg⟩ := written_facts hS w hw
  refine ⟨hl, ?_⟩
  unfold sealedHist
  rw [hsg.judgeFile_eq hS.namesOk hS.formats _ _ _ _ _ _ hp, hcont]
  cases hashing with
  | false => simp
  | true => simp [hdig rfl]

end

/-! ### non-vacuity and an independent evaluation of the pipeline -/

/-- two files, a sub-folder with a file, a file ignored by default and one ignored by option -/
def exKids : List Node :=
  [ .file "b.txt" [7], .file "a.txt" [1, 2], .dir "sub" [.file "x" [3]] none,
    .file "skip.tmp" [9], .file ".DS_Store" [] ]

def exTree : Node := .dir "root" exKids none

/-- toy parameters: the "digest" is the format name and the content length; a path is ignored when one of its
components is literally in the pattern list -/
def exEnv : Env :=
  { H := fun f c => f ++ ":" ++ toString c.length, D := fun _ _ => some [],
    hit := fun pats p => p.any fun s => pats.contains s, rootName := "root", stamp := "2020-01-16_091500Z" }

def exOpts : CreateOpts := { formats := ["xxh64", "md5"], ignoreCli := ["skip.tmp"] }

theorem exSetting : Setting exEnv "root" exKids exOpts where
  flat := by rfl
  distinct := by simp [exKids, Node.NamesDistinct, Node.NamesDistinctKids, Node.name]
  namesOk := by decide
  rootName := by decide
  stamp := by decide
  singleFiles := rfl
  noRename := rfl
  formats := by decide

/-- the first run, evaluated: exit 0, one generation, number 1, named after folder and stamp, carrying the
pattern list of the run, with one record per visible entry (the two ignored files have none) -/
example : (createFolder exEnv exTree exOpts).err = none ∧
    ((createFolder exEnv exTree exOpts).written.map fun w => (w.histRoot, w.number)) = [([], 1)] ∧
    ((createFolder exEnv exTree exOpts).written.map fun w => w.gen.fileName.toList) =
      ["0001_root_2020-01-16_091500Z.mhl".toList] ∧
    ((createFolder exEnv exTree exOpts).written.map fun w => w.gen.ignore) =
      [[".DS_Store", "ascmhl", "ascmhl/", "skip.tmp"]] ∧
    ((createFolder exEnv exTree exOpts).written.map fun w =>
      w.gen.records.map fun r => (r.path, r.isDir, r.entries.map fun e => (e.digest, e.action))) =
      [[("sub/x", false, [("md5:1", "original"), ("xxh64:1", "original")]),
        ("sub", true, [("md5:0", ""), ("xxh64:0", "")]),
        ("a.txt", false, [("md5:2", "original"), ("xxh64:2", "original")]),
        ("b.txt", false, [("md5:1", "original"), ("xxh64:1", "original")])]] :=
  ⟨by decide +kernel, by decide +kernel, by decide +kernel, by decide +kernel, by decide +kernel⟩

/-- the sealed tree loads, evaluated -/
example : (match loadHistory (sealedTree exEnv "root" exKids exOpts) with
    | .ok h => some (h.root, h.gens.map (·.number), h.chain.map (·.seq), h.children.length)
    | .error _ => none) = some ([], [1], [1], 0) := by decide +kernel

/-- the written generation and the sealed tree of the example -/
def exW : Written := (createFolder exEnv exTree exOpts).written.headD default
def exSealed : Node := sealedTree exEnv "root" exKids exOpts

theorem exW_written : (createFolder exEnv exTree exOpts).written = [exW] := by
  obtain ⟨-, -, -, -, w, hw, -⟩ := first_seal_ok exSetting
  have : exW = w := by
    unfold exW
    rw [show exTree = Node.dir "root" exKids none from rfl, hw]
    rfl
  rw [this]; exact hw

theorem ex_load : loadHistory exSealed = .ok (sealedHist exW) :=
  (sealed_tree_loads exSetting exW exW_written).1

/-- the matcher verify / diff use on the sealed tree, the visible paths, the expected paths: evaluated -/
example : setPatterns (latestIgnore (sealedHist exW).gens) [] [] = [".DS_Store", "ascmhl", "ascmhl/", "skip.tmp"] ∧
    (visiblePaths (vHit exEnv (sealedHist exW) {}) exSealed).map (fun x => (posix x.1, x.2)) =
      [("sub/x", false), ("a.txt", false), ("b.txt", false), ("sub", true)] :=
  ⟨by decide +kernel, by decide +kernel⟩

theorem ex_expected : expectedPaths (sealedHist exW) = [["sub", "x"], ["sub"], ["a.txt"], ["b.txt"]] := by
  unfold sealedHist
  rw [expectedPaths_single]
  decide +kernel

theorem ex_missing : vMissing exEnv exSealed (sealedHist exW) {} = [] := by
  unfold vMissing; rw [ex_expected]; decide +kernel

/-- verify and diff on the unchanged sealed tree, EVALUATED (independently of the theorems above, except that the
history is the one `sealed_tree_loads` gives and `splitPath` is evaluated through `splitPathL`): exit code 0 and
empty reports -/
example : (verify exEnv exSealed {}).exitCode = 0 ∧ (verify exEnv exSealed {}).report.mismatch = [] ∧
    (verify exEnv exSealed {}).report.new = [] ∧ (verify exEnv exSealed {}).report.missing = [] ∧
    (diff exEnv exSealed {}).exitCode = 0 ∧ (diff exEnv exSealed {}).report.new = [] := by
  have hd : diff exEnv exSealed {} = verifyOrDiff exEnv exSealed {} false none := rfl
  rw [hd, MhlProps.C03.verify_def, verifyOrDiff_eq _ _ _ _ (sealedHist exW) ex_load (sealedHist_gens_ne exW),
    verifyOrDiff_eq _ _ _ _ (sealedHist exW) ex_load (sealedHist_gens_ne exW), ex_missing]
  decide +kernel

/-- the same through the theorem -/
example : (verify exEnv exSealed {}).exitCode = 0 ∧ (diff exEnv exSealed {}).exitCode = 0 :=
  ⟨(verify_after_seal exSetting).2.1, (verify_after_seal exSetting).2.2.2.2.2.2.1⟩

/-- a second `create` with a format disjoint from the first ones, on the unchanged sealed tree: exit code 0 by the
theorem; what it writes, evaluated: generation 2, the first recorded format verified, the new one added -/
def exOpts2 : CreateOpts := { formats := ["sha1"] }

example : (createFolder exEnv exSealed exOpts2).err = none ∧ (createFolder exEnv exSealed exOpts).err = none :=
  ⟨(reseal_ok exSetting exOpts2 (by decide) rfl (by simp [exOpts2]) (by simp [exOpts2])).1, reseal_same_ok exSetting⟩

example : ((createFolder exEnv exSealed exOpts2).written.map fun w => (w.histRoot, w.number)) = [([], 2)] ∧
    ((createFolder exEnv exSealed exOpts2).written.map fun w =>
      w.gen.records.map fun r => (r.path, r.entries.map fun e => (e.digest, e.action))) =
      [[("sub/x", [("md5:1", "verified"), ("sha1:1", "verified")]), ("sub", [("sha1:0", "")]),
        ("a.txt", [("md5:2", "verified"), ("sha1:2", "verified")]),
        ("b.txt", [("md5:1", "verified"), ("sha1:1", "verified")])]] ∧
    (createFolder exEnv exSealed exOpts2).report.mismatch = [] :=
  ⟨by decide +kernel, by decide +kernel, by decide +kernel⟩

/-- the format verify compares: the least format NAME, not the first one given -/
example : firstFormat exOpts.formats = "md5" ∧ exOpts.formats.head? = some "xxh64" := by decide +kernel

/-- `a.txt` altered (three bytes instead of two): detected, by the theorem … -/
def exAltered : Node := alteredTree exEnv "root" exKids exOpts ["a.txt"] [1, 2, 3]

example : (verify exEnv exAltered {}).err = some errVerifyFailed ∧ (verify exEnv exAltered {}).exitCode = 11 ∧
    "a.txt" ∈ (verify exEnv exAltered {}).report.mismatch :=
  altered_detected_after_seal exSetting ["a.txt"] (by decide +kernel) [1, 2, 3] (by decide +kernel)

/-- … and evaluated: exit code 11, exactly `a.txt` reported, nothing new or missing; `diff` still says 0 -/
theorem ex_load_altered : loadHistory exAltered = .ok (sealedHist exW) :=
  (alteredTree_facts exSetting exW exW_written ["a.txt"] (by decide +kernel) [1, 2, 3]).1

theorem ex_missing_altered : vMissing exEnv exAltered (sealedHist exW) {} = [] := by
  unfold vMissing; rw [ex_expected]; decide +kernel

example : (verify exEnv exAltered {}).exitCode = 11 ∧ (verify exEnv exAltered {}).report.mismatch = ["a.txt"] ∧
    (verify exEnv exAltered {}).report.new = [] ∧ (verify exEnv exAltered {}).report.missing = [] ∧
    (diff exEnv exAltered {}).exitCode = 0 := by
  have hd : diff exEnv exAltered {} = verifyOrDiff exEnv exAltered {} false none := rfl
  rw [hd, MhlProps.C03.verify_def,
    verifyOrDiff_eq _ _ _ _ (sealedHist exW) ex_load_altered (sealedHist_gens_ne exW),
    verifyOrDiff_eq _ _ _ _ (sealedHist exW) ex_load_altered (sealedHist_gens_ne exW), ex_missing_altered]
  decide +kernel

example : (verify exEnv exAltered {}).report.mismatch = ["a.txt"] ∧ (verify exEnv exAltered {}).report.new = [] ∧
    (verify exEnv exAltered {}).report.missing = [] :=
  altered_report_exact exSetting ["a.txt"] (by decide +kernel) [1, 2, 3] (by decide +kernel)

/-- a file in the sub-folder -/
example : (verify exEnv (alteredTree exEnv "root" exKids exOpts ["sub", "x"] []) {}).exitCode = 11 ∧
    "sub/x" ∈ (verify exEnv (alteredTree exEnv "root" exKids exOpts ["sub", "x"] []) {}).report.mismatch :=
  (altered_detected_after_seal exSetting ["sub", "x"] (by decide +kernel) [] (by decide +kernel)).2

/-- the hypothesis on the digests cannot be dropped: the toy digest only sees the length, a change that keeps the
length is judged ok -/
example : judgeFile exEnv (alteredTree exEnv "root" exKids exOpts ["a.txt"] [9, 9]) (sealedHist exW) true ["a.txt"]
    = .ok := by decide +kernel


end MhlProps.C03e2e
