/-
C09 (end to end, positive half) — `verify -dh` exits 0 on the tree a fresh `create` has just sealed; and the
refinement of the directory-hash computation inside `verifyDh` to the compositional definition `nodeHashes`.

Property theorems only; the lemmas are in MhlProps/Proofs/DhLemmas.lean.

  1. `dhVisit_fold_dirHashes`      REFINEMENT for `verify -dh`: the fold of `dhVisit` over the traversal of a directory
                                   `d` found at `here`, from ANY state with no `dirHashes` key at or below `here`,
                                   appends exactly `(here, specified hashes of d)`; any list of formats, any options,
                                   any history.  Corollary `verifyDh_root_hashes_spec`: the root hashes `verifyDh`
                                   compares the root entries with are the specified ones.
  2. `dhVisit_compare_sound`       SOUNDNESS of the sub-folder comparison: if every visible sub-folder is recorded (as
                                   `dhVisit` looks it up: `route`, `dirEntriesFor`) with the specified hashes in every
                                   computed format, the fold leaves `failedFormats` untouched.
  3. `verifyDh_after_seal`         END TO END: `t` a folder without any `ascmhl` folder; `create` (folder mode,
                                   directory hashes, no `-dr`, at least one format) seals it; `verify -dh` on the
                                   resulting tree ends with exit code 0.  Companions: `create_seals_once` (what
                                   `create` writes), `loadHistory_after_seal` (the loaded history of the sealed tree
                                   is exactly the written generation, number 1), `patterns_after_seal`.
  4. `verifyDh_detects_content_change_partial`
                                   on the sealed history, a tree whose ROOT content hash differs from the sealed
                                   one in every requested format makes `verify -dh` end with 12.

Hypotheses (all shown satisfiable on `exT` below, where `verifyDh` is also evaluated by `decide`):
sibling names distinct (`Node.NamesDistinct`), names free of '/' and not "." (`Node.NamesOk`), the folder name and the
stamp free of line feeds (else the generation just written is not recognised as a manifest, C06), at least one format
(the CLI always has one; with none, files get no record and the lemmas of C02rec do not apply).
-/
import MhlProps.Proofs.DhLemmas
import MhlProps.C07impl
import MhlProps.C09
import MhlProps.C06

namespace MhlProps.C09e2e
open MhlModel
open MhlProps.C07impl (specHashes)

/-! ### 1. the refinement theorem for `verify -dh` -/

/-- REFINEMENT.  `d` is a directory found at `here` below the root `t`, sibling names distinct everywhere in `d`; `st`
is ANY state whose `dirHashes` has no key at or below `here`.  Then the fold of `dhVisit` over the traversal of `d`
appends to `dirHashes` exactly one entry: `here` with the hashes `nodeHashes` specifies, for each computed format
(repetitions dropped).  No hypothesis on `H`, `D`, the matcher, the history, the options. -/
theorem dhVisit_fold_dirHashes (env : Env) (t : Node) (rootHist : Hist) (fmts : List String) (o : DhOpts)
    (hit : RelPath → Bool) (here : RelPath) (d : Node) (st : DhState)
    (hdir : d.isDir = true) (hat : t.at? here = some d) (hnd : d.NamesDistinct)
    (hst : ∀ x ∈ st.dirHashes, ¬ here <+: x.1) :
    ((traverse hit here d).foldl (dhVisit env t rootHist fmts o) st).dirHashes =
      st.dirHashes ++ [(here, specHashes env hit (ctxKeys fmts) here d)] :=
  foldl_dhVisit_dirHashes env t rootHist fmts o hit d hdir here st hat hnd hst

/-- the same for duplicate-free formats (as the formats of `verifyDh` are, `dhFormats_nodup`) -/
theorem dhVisit_fold_dirHashes_nodup (env : Env) (t : Node) (rootHist : Hist) (fmts : List String) (o : DhOpts)
    (hit : RelPath → Bool) (here : RelPath) (d : Node) (st : DhState)
    (hfm : fmts.Nodup) (hdir : d.isDir = true) (hat : t.at? here = some d) (hnd : d.NamesDistinct)
    (hst : ∀ x ∈ st.dirHashes, ¬ here <+: x.1) :
    ((traverse hit here d).foldl (dhVisit env t rootHist fmts o) st).dirHashes =
      st.dirHashes ++ [(here, fmts.map fun f =>
        (f, (nodeHashes env.H env.D f hit here d).1, (nodeHashes env.H env.D f hit here d).2))] := by
  have := dhVisit_fold_dirHashes env t rootHist fmts o hit here d st hdir hat hnd hst
  rwa [ctxKeys_of_nodup fmts hfm] at this

/-- the hashes `verify -dh` and `create` compute for the same folder from the same visible entries are the same:
both are the specified ones -/
theorem dhVisit_agrees_with_createVisit (env : Env) (t : Node) (rootHist rootHist' : Hist) (fmts : List String)
    (o : DhOpts) (hit : RelPath → Bool) (here : RelPath) (d : Node) (st : DhState) (st' : CreateState)
    (hdir : d.isDir = true) (hat : t.at? here = some d) (hnd : d.NamesDistinct)
    (hst : ∀ x ∈ st.dirHashes, ¬ here <+: x.1) (hst' : ∀ x ∈ st'.dirHashes, ¬ here <+: x.1) :
    ((traverse hit here d).foldl (dhVisit env t rootHist fmts o) st).dirHashes.drop st.dirHashes.length =
    ((traverse hit here d).foldl (createVisit env t rootHist' fmts false) st').dirHashes.drop st'.dirHashes.length := by
  rw [dhVisit_fold_dirHashes env t rootHist fmts o hit here d st hdir hat hnd hst,
    MhlProps.C07impl.createVisit_fold_dirHashes_general env t rootHist' fmts hit here d st' hdir hat hnd hst']
  simp

/-- COROLLARY for `verifyDh`: after the traversal `dirHashes` is the single entry of the root folder … -/
theorem verifyDh_fold_dirHashes (env : Env) (t : Node) (h : Hist) (o : DhOpts)
    (hdir : t.isDir = true) (hnd : t.NamesDistinct) :
    (dhFold env t h o).dirHashes =
      [([], specHashes env (env.hit (setPatterns (latestIgnore h.gens) o.ignoreCli o.ignoreFile))
        (dhFormats h o.format) [] t)] := by
  rw [MhlProps.C09.dhFold_def,
    dhVisit_fold_dirHashes env t h (dhFormats h o.format) o _ [] t {} hdir rfl hnd (by simp),
    ctxKeys_of_nodup _ (dhFormats_nodup h o.format)]
  rfl

/-- … so the root hashes the root entries of all generations are compared with are, for every computed format, the
content and structure hash of `nodeHashes … [] t` -/
theorem verifyDh_root_hashes_spec (env : Env) (t : Node) (h : Hist) (o : DhOpts)
    (hdir : t.isDir = true) (hnd : t.NamesDistinct) :
    dhRootHashes env t h o =
      specHashes env (env.hit (setPatterns (latestIgnore h.gens) o.ignoreCli o.ignoreFile))
        (dhFormats h o.format) [] t := by
  unfold dhRootHashes
  rw [verifyDh_fold_dirHashes env t h o hdir hnd]
  simp [alookup]

/-! ### 2. soundness of the sub-folder comparison -/

/-- SOUNDNESS.  A format is added to `failedFormats` during the fold only if some recorded entry of some visible
sub-folder, in a computed format, differs from the specified hashes of that sub-folder.  Contrapositive, as proved:
if for every visible sub-folder `q` (a `(q, true)` among the paths the traversal of `d` lists; `c` the node there)
every entry `e` that `dhVisit` finds recorded for `q` (`dirEntriesFor` in the history `route` sends `q` to) with
`e.fmt ∈ fmts` carries the specified content and structure hash of `c`, then `failedFormats` stays as it was. -/
theorem dhVisit_compare_sound (env : Env) (t : Node) (rootHist : Hist) (fmts : List String) (o : DhOpts)
    (hit : RelPath → Bool) (here : RelPath) (d : Node) (st : DhState)
    (hdir : d.isDir = true) (hat : t.at? here = some d) (hnd : d.NamesDistinct)
    (hst : ∀ x ∈ st.dirHashes, ¬ here <+: x.1)
    (hrec : ∀ q c, (q, true) ∈ visFrom hit here d → t.at? q = some c →
      ∀ e ∈ dirEntriesFor (route rootHist q).1 (posix (route rootHist q).2), e.fmt ∈ fmts →
        e.digest = (nodeHashes env.H env.D e.fmt hit q c).1 ∧
        e.shash = some (nodeHashes env.H env.D e.fmt hit q c).2) :
    ((traverse hit here d).foldl (dhVisit env t rootHist fmts o) st).failedFormats = st.failedFormats :=
  foldl_dhVisit_failed env t rootHist fmts o hit d hdir here st hat hnd hst hrec

/-- for `verifyDh` itself: sub-folders recorded with their specified hashes ⇒ nothing is marked by the traversal -/
theorem verifyDh_fold_marks_nothing (env : Env) (t : Node) (h : Hist) (o : DhOpts)
    (hdir : t.isDir = true) (hnd : t.NamesDistinct)
    (hrec : ∀ q c,
      (q, true) ∈ visiblePaths (env.hit (setPatterns (latestIgnore h.gens) o.ignoreCli o.ignoreFile)) t →
      t.at? q = some c →
      ∀ e ∈ dirEntriesFor (route h q).1 (posix (route h q).2), e.fmt ∈ dhFormats h o.format →
        e.digest = (nodeHashes env.H env.D e.fmt
          (env.hit (setPatterns (latestIgnore h.gens) o.ignoreCli o.ignoreFile)) q c).1 ∧
        e.shash = some (nodeHashes env.H env.D e.fmt
          (env.hit (setPatterns (latestIgnore h.gens) o.ignoreCli o.ignoreFile)) q c).2) :
    (dhFold env t h o).failedFormats = [] := by
  rw [MhlProps.C09.dhFold_def]
  exact dhVisit_compare_sound env t h (dhFormats h o.format) o _ [] t {} hdir rfl hnd (by simp) hrec

/-! ### 3. end to end: seal, then `verify -dh` -/

/-- the matcher of the sealing run (no history yet: the defaults plus what is given) -/
def sealHit (env : Env) (o : CreateOpts) : RelPath → Bool :=
  env.hit (setPatterns none o.ignoreCli o.ignoreFile)

/-- WHAT THE SEAL WRITES.  On a folder without any `ascmhl` folder, folder-mode `create` with directory hashes
writes exactly one generation: for the root history, number 1, intact, named `0001_<folder>_<stamp>.mhl`, carrying
the pattern list of the run; its root hash is the specified hash of the tree in every requested format; no record has
a previous path; every directory record belongs to a folder of the tree and carries its specified hashes. -/
theorem create_seals_once (env : Env) (t : Node) (o : CreateOpts) (hnh : noHist t = true) (hdir : t.isDir = true)
    (hd : t.NamesDistinct) (hn : t.NamesOk) (hf : o.formats ≠ []) (hno : o.noDirHashes = false)
    (hdr : o.detectRenaming = false) :
    ∃ w, (createFolder env t o).written = [w] ∧ w.histRoot = [] ∧ w.number = 1 ∧ w.gen.state = .ok ∧
      w.gen.fileName = genFileName 1 env.rootName env.stamp ∧
      w.gen.ignore = setPatterns none (setPatterns none o.ignoreCli o.ignoreFile) [] ∧
      w.gen.rootHash.getD [] =
        dirEnts (specHashes env (sealHit env o) (ctxKeys (isort strLe o.formats)) [] t) ∧
      (∀ r ∈ w.gen.records, r.prev = none) ∧
      (∀ r ∈ w.gen.records, r.isDir = true → ∃ q c, r.path = posix q ∧ t.at? q = some c ∧
        r.entries = dirEnts (specHashes env (sealHit env o) (ctxKeys (isort strLe o.formats)) q c)) :=
  createFolder_sealed env t o hnh hdir hd hn hf hno hdr

/-- the sealed tree: the generations `create` wrote, put into the `ascmhl` folders -/
def sealed (env : Env) (t : Node) (o : CreateOpts) : Node := applyWritten t (createFolder env t o).written

/-- THE LOADED HISTORY OF THE SEALED TREE is exactly the written generation, as generation 1 of a history without
nested histories.  (The line-feed conditions are what `parseGenName` needs to recognise the new file name, C06.) -/
theorem loadHistory_after_seal (env : Env) (t : Node) (o : CreateOpts) (hnh : noHist t = true)
    (hdir : t.isDir = true) (hd : t.NamesDistinct) (hn : t.NamesOk) (hf : o.formats ≠ [])
    (hno : o.noDirHashes = false) (hdr : o.detectRenaming = false)
    (hrn : '\n' ∉ env.rootName.toList) (hstamp : '\n' ∉ env.stamp.toList) :
    ∃ w, (createFolder env t o).written = [w] ∧
      (sealed env t o).hist = some (({} : HistStore).add w) ∧
      (sealed env t o).children = t.children ∧ (sealed env t o).name = t.name ∧
      loadHistory (sealed env t o) = .ok (.mk [] [⟨1, w.gen⟩] [⟨1, w.gen.fileName⟩] true []) := by
  obtain ⟨w, hw, f1, f2, f3, f4, -⟩ := create_seals_once env t o hnh hdir hd hn hf hno hdr
  refine ⟨w, hw, ?_⟩
  cases t with
  | file n c => simp [Node.isDir] at hdir
  | dir n cs hs =>
    simp only [noHist, Bool.and_eq_true, Option.isNone_iff_eq_none] at hnh
    obtain ⟨rfl, hcs⟩ := hnh
    unfold sealed
    rw [hw, applyWritten_root_single n cs w f1]
    refine ⟨rfl, rfl, rfl, ?_⟩
    have hparse : parseGenName w.gen.fileName = some 1 := by
      rw [f4]; exact MhlProps.C06.parseGenName_genFileName 1 _ _ hrn hstamp
    rw [loadHistory_sealed n cs w hcs f3 1 hparse, f2]

/-- the pattern list `verify -dh` (without `-i`) uses on the sealed tree is the list of the sealing run -/
theorem patterns_after_seal (cli file : List String) (k : Nat) (g : Generation)
    (hg : g.ignore = setPatterns none (setPatterns none cli file) []) :
    setPatterns (latestIgnore [⟨k, g⟩]) [] [] = setPatterns none cli file := by
  have : latestIgnore [⟨k, g⟩] = some g.ignore := rfl
  rw [this, hg, setPatterns_roundtrip]

/-- what `verify -dh` finds recorded for a visible sub-folder of the sealed tree are its specified hashes -/
theorem sealed_subfolder_recorded (env : Env) (n : String) (cs : List Node) (o : CreateOpts) (w : Written)
    (ch : List ChainEntry) (hn : (Node.dir n cs none).NamesOk)
    (hprev : ∀ r ∈ w.gen.records, r.prev = none)
    (hdirs : ∀ r ∈ w.gen.records, r.isDir = true → ∃ q c, r.path = posix q ∧ (Node.dir n cs none).at? q = some c ∧
      r.entries = dirEnts (specHashes env (sealHit env o) (ctxKeys (isort strLe o.formats)) q c))
    (hs : Option HistStore) (q : RelPath) (c : Node) (hq : q ≠ []) (hqok : ∀ s ∈ q, NameOk s)
    (hat : (Node.dir n cs hs).at? q = some c) (e : Entry)
    (he : e ∈ dirEntriesFor (.mk [] [⟨1, w.gen⟩] ch true []) (posix q)) :
    e.fmt ∈ ctxKeys (isort strLe o.formats) ∧
    e.digest = (nodeHashes env.H env.D e.fmt (sealHit env o) q c).1 ∧
    e.shash = some (nodeHashes env.H env.D e.fmt (sealHit env o) q c).2 := by
  have hdot : posix q ≠ "." := fun h0 => hq ((posix_eq_dot hqok).1 h0)
  obtain ⟨r, hr, hpath, hrd, her⟩ := dirEntriesFor_single 1 w.gen ch true [] (posix q) hdot hprev e he
  obtain ⟨q', c', hp', hat', hents⟩ := hdirs r hr hrd
  have hq'ok : ∀ s ∈ q', NameOk s := fun s hs' => hn s (Node.at?_names _ q' c' hat' s hs')
  have hqq : q' = q := posix_inj hq'ok hqok (hp'.symm.trans hpath)
  subst hqq
  rw [at?_root_hist n cs hs none q' hq, hat'] at hat
  cases hat
  rw [hents] at her
  exact mem_dirEnts_spec env (sealHit env o) _ q' _ e her

/-- THE SEALED TREE IS RECORDED WITH ITS SPECIFIED HASHES.  The sealed tree loads as a history `h`; the pattern list
`verify -dh` reads back is that of the sealing run; every entry `verify -dh` finds recorded for a visible sub-folder
`q` carries the specified content and structure hash of the node at `q`; and so does every root hash entry for the
tree itself, in exactly the requested formats. -/
theorem sealed_recorded_spec (env : Env) (t : Node) (o : CreateOpts) (hnh : noHist t = true)
    (hdir : t.isDir = true) (hd : t.NamesDistinct) (hn : t.NamesOk) (hf : o.formats ≠ [])
    (hno : o.noDirHashes = false) (hdr : o.detectRenaming = false)
    (hrn : '\n' ∉ env.rootName.toList) (hstamp : '\n' ∉ env.stamp.toList) :
    ∃ h, loadHistory (sealed env t o) = .ok h ∧
      setPatterns (latestIgnore h.gens) [] [] = setPatterns none o.ignoreCli o.ignoreFile ∧
      (sealed env t o).isDir = true ∧ (sealed env t o).NamesDistinct ∧
      (∀ q c, (q, true) ∈ visiblePaths (sealHit env o) (sealed env t o) → (sealed env t o).at? q = some c →
        ∀ e ∈ dirEntriesFor (route h q).1 (posix (route h q).2),
          e.digest = (nodeHashes env.H env.D e.fmt (sealHit env o) q c).1 ∧
          e.shash = some (nodeHashes env.H env.D e.fmt (sealHit env o) q c).2) ∧
      (∀ g ∈ h.gens, ∀ e ∈ g.gen.rootHash.getD [], e.fmt ∈ o.formats ∧
        e.digest = (nodeHashes env.H env.D e.fmt (sealHit env o) [] (sealed env t o)).1 ∧
        e.shash = some (nodeHashes env.H env.D e.fmt (sealHit env o) [] (sealed env t o)).2) ∧
      (∀ f ∈ o.formats, ∃ g ∈ h.gens, ∃ e ∈ g.gen.rootHash.getD [], e.fmt = f) := by
  obtain ⟨w, hw, -, -, -, -, hign, hroot, hprev, hdirs⟩ := create_seals_once env t o hnh hdir hd hn hf hno hdr
  obtain ⟨w', hw', hhist, hkids, hname, hl⟩ := loadHistory_after_seal env t o hnh hdir hd hn hf hno hdr hrn hstamp
  rw [hw] at hw'
  obtain rfl : w = w' := by simpa using hw'
  have hK : ∀ f, f ∈ ctxKeys (isort strLe o.formats) ↔ f ∈ o.formats := fun f => by
    rw [mem_ctxKeys, mem_isort]
  cases t with
  | file n c => simp [Node.isDir] at hdir
  | dir n cs hs =>
    simp only [noHist, Bool.and_eq_true, Option.isNone_iff_eq_none] at hnh
    obtain ⟨rfl, hcs⟩ := hnh
    -- the sealed tree is the same folder with the new `ascmhl` content
    have hT : sealed env (.dir n cs none) o = .dir n cs (some (({} : HistStore).add w)) := by
      generalize sealed env (.dir n cs none) o = T at hhist hkids hname
      cases T with
      | file n' c' => simp [Node.hist] at hhist
      | dir n' cs' hs' =>
        simp only [Node.hist, Node.children, Node.name] at hhist hkids hname
        rw [hhist, hkids, hname]
    rw [hT] at hl ⊢
    have hnd' : (Node.dir n cs (some (({} : HistStore).add w))).NamesDistinct := by
      rw [Node.namesDistinct_dir] at hd ⊢; exact hd
    have hn' : (Node.dir n cs (some (({} : HistStore).add w))).NamesOk := by
      unfold Node.NamesOk at hn ⊢
      rw [Node.descNames] at hn ⊢
      exact hn
    refine ⟨_, hl, patterns_after_seal o.ignoreCli o.ignoreFile 1 w.gen hign, rfl, hnd', ?_, ?_, ?_⟩
    · intro q c hq hat e he
      obtain ⟨hq0, hqok⟩ := visible_names_ok _ _ hn' _ hq
      rw [route_flat _ rfl] at he
      exact (sealed_subfolder_recorded env n cs o w _ hn hprev hdirs _ q c hq0 hqok hat e he).2
    · intro g hg e he
      simp only [Hist.gens, List.mem_singleton] at hg
      subst hg
      rw [hroot] at he
      obtain ⟨hk, h1, h2⟩ := mem_dirEnts_spec env (sealHit env o) _ [] _ e he
      rw [nodeHashes_root_hist env.H env.D e.fmt _ [] n cs _ none]
      exact ⟨(hK e.fmt).1 hk, h1, h2⟩
    · intro f hfm
      obtain ⟨e, he, hef⟩ := dirEnts_spec_mem env (sealHit env o) _ [] (.dir n cs none) f ((hK f).2 hfm)
      exact ⟨⟨1, w.gen⟩, by simp [Hist.gens], e, by rw [hroot]; exact he, hef⟩

/-- END TO END (C09, positive half).  `t` is a folder without any `ascmhl` folder; `create` in folder mode with
directory hashes, without `-dr`, in at least one format, seals it; the written generation is put into the tree.  Then
`verify -dh` (no options) ends normally: exit code 0.

Why: every directory record and the root hash written by `create` carry the specified hashes (`create_seals_once`,
from C07impl's refinement applied at every visit); the sealed tree loads as exactly that generation
(`loadHistory_after_seal`); the pattern list read back is that of the sealing run (`patterns_after_seal`), so the same
entries are visible (together: `sealed_recorded_spec`); `verify -dh` recomputes the specified hashes (item 1) and
compares them with what is recorded (item 2 for the sub-folders, `unchanged_root_ok_partial` for the root) in the
formats found in the root hash. -/
theorem verifyDh_after_seal (env : Env) (t : Node) (o : CreateOpts) (hnh : noHist t = true)
    (hdir : t.isDir = true) (hd : t.NamesDistinct) (hn : t.NamesOk) (hf : o.formats ≠ [])
    (hno : o.noDirHashes = false) (hdr : o.detectRenaming = false)
    (hrn : '\n' ∉ env.rootName.toList) (hstamp : '\n' ∉ env.stamp.toList) :
    (verifyDh env (applyWritten t (createFolder env t o).written) {}).err = none ∧
    (verifyDh env (applyWritten t (createFolder env t o).written) {}).exitCode = 0 := by
  obtain ⟨h, hl, hpat, hdirT, hndT, hsub, hrootE, -⟩ :=
    sealed_recorded_spec env t o hnh hdir hd hn hf hno hdr hrn hstamp
  change (verifyDh env (sealed env t o) {}).err = none ∧ (verifyDh env (sealed env t o) {}).exitCode = 0
  have hpat' : setPatterns (latestIgnore h.gens) ({} : DhOpts).ignoreCli ({} : DhOpts).ignoreFile =
      setPatterns none o.ignoreCli o.ignoreFile := hpat
  apply MhlProps.C09.unchanged_root_ok_partial env _ {} h hl
  · -- the sub-folders
    rw [← MhlProps.C09.dhFold_def]
    apply verifyDh_fold_marks_nothing env _ h {} hdirT hndT
    rw [hpat']
    intro q c hq hat e he _
    exact hsub q c hq hat e he
  · -- the root folder
    intro g hg e he k c' s' hfind
    rw [← MhlProps.C09.dhFold_def, verifyDh_fold_dirHashes env _ h {} hdirT hndT, hpat'] at hfind
    simp only [alookup, if_true, Option.getD_some] at hfind
    obtain ⟨-, rfl, rfl⟩ := find?_specEntry env _ _ [] _ e.fmt k c' s' hfind
    obtain ⟨-, h1, h2⟩ := hrootE g hg e he
    simp [compareDir, h1, h2, sealHit]

/-- the same for the command `create` without `-sf` -/
theorem verifyDh_after_create (env : Env) (t : Node) (o : CreateOpts) (hnh : noHist t = true)
    (hdir : t.isDir = true) (hd : t.NamesDistinct) (hn : t.NamesOk) (hf : o.formats ≠ [])
    (hno : o.noDirHashes = false) (hsf : o.singleFiles = []) (hdr : o.detectRenaming = false)
    (hrn : '\n' ∉ env.rootName.toList) (hstamp : '\n' ∉ env.stamp.toList) :
    (verifyDh env (applyWritten t (create env t o).written) {}).exitCode = 0 := by
  rw [MhlProps.C07impl.create_eq_createFolder env t o hsf]
  exact (verifyDh_after_seal env t o hnh hdir hd hn hf hno hdr hrn hstamp).2

/-! ### 4. a change of the content is detected -/

/-- On the history of the sealed tree: a tree `tc` (same `ascmhl` folder at the root, no nested `ascmhl` folder,
distinct sibling names; otherwise arbitrary — files changed, added, removed, the folder renamed) whose ROOT content
hash differs from the sealed one in EVERY requested format makes `verify -dh` end with 12.
(`_partial`: the hypothesis is on the root content hash, i.e. the change must have propagated to the root — which it
does when `H` and `D` are injective enough, C07; a structure-hash-only change is detected the same way, see
`compareDir`.) -/
theorem verifyDh_detects_content_change_partial (env : Env) (t : Node) (o : CreateOpts) (hnh : noHist t = true)
    (hdir : t.isDir = true) (hd : t.NamesDistinct) (hn : t.NamesOk) (hf : o.formats ≠ [])
    (hno : o.noDirHashes = false) (hdr : o.detectRenaming = false)
    (hrn : '\n' ∉ env.rootName.toList) (hstamp : '\n' ∉ env.stamp.toList)
    (tc : Node) (hch : tc.hist = (applyWritten t (createFolder env t o).written).hist)
    (hcdir : tc.isDir = true) (hcnn : noNested tc = true) (hcd : tc.NamesDistinct)
    (hdiff : ∀ f ∈ o.formats, (nodeHashes env.H env.D f (sealHit env o) [] tc).1 ≠
      (nodeHashes env.H env.D f (sealHit env o) [] t).1) :
    (verifyDh env tc {}).err = some errDirVerifyFailed ∧ (verifyDh env tc {}).exitCode = 12 := by
  obtain ⟨w, hw, -, f2, f3, f4, hign, hroot, -, -⟩ := create_seals_once env t o hnh hdir hd hn hf hno hdr
  obtain ⟨w', hw', hhist, -, -, -⟩ := loadHistory_after_seal env t o hnh hdir hd hn hf hno hdr hrn hstamp
  rw [hw] at hw'
  obtain rfl : w = w' := by simpa using hw'
  change tc.hist = (sealed env t o).hist at hch
  rw [hhist] at hch
  have key : (verifyDh env tc {}).err = some errDirVerifyFailed := by
    cases tc with
    | file n c => simp [Node.isDir] at hcdir
    | dir n cs hs =>
      simp only [Node.hist] at hch
      subst hch
      have hparse : parseGenName w.gen.fileName = some 1 := by
        rw [f4]; exact MhlProps.C06.parseGenName_genFileName 1 _ _ hrn hstamp
      have hl := loadHistory_sealed n cs w hcnn f3 1 hparse
      have hpat : setPatterns (latestIgnore (Hist.mk [] [⟨1, w.gen⟩] [⟨w.number, w.gen.fileName⟩] true []).gens)
          ({} : DhOpts).ignoreCli ({} : DhOpts).ignoreFile = setPatterns none o.ignoreCli o.ignoreFile :=
        patterns_after_seal o.ignoreCli o.ignoreFile 1 w.gen hign
      obtain ⟨f0, hf0⟩ := List.exists_mem_of_ne_nil _ hf
      have hK : ∀ f, f ∈ ctxKeys (isort strLe o.formats) ↔ f ∈ o.formats := fun f => by
        rw [mem_ctxKeys, mem_isort]
      have hsome : ∃ g ∈ (Hist.mk [] [⟨1, w.gen⟩] [⟨w.number, w.gen.fileName⟩] true []).gens,
          ∃ e, e ∈ g.gen.rootHash.getD [] := by
        obtain ⟨e, he, -⟩ := dirEnts_spec_mem env (sealHit env o) _ [] t f0 ((hK f0).2 hf0)
        exact ⟨⟨1, w.gen⟩, by simp [Hist.gens], e, by rw [hroot]; exact he⟩
      apply MhlProps.C09.root_change_detected_general env _ {} _ rfl rfl hl hsome
      intro g hg e he
      refine ⟨g, hg, e, he, rfl, ?_⟩
      have hefmt : e.fmt ∈ dhFormats (Hist.mk [] [⟨1, w.gen⟩] [⟨w.number, w.gen.fileName⟩] true []) none :=
        ((MhlProps.C09.dhFormats_spec _ hsome).2.2 e.fmt).2 ⟨g, hg, e, he, rfl⟩
      simp only [Hist.gens, List.mem_singleton] at hg
      subst hg
      rw [verifyDh_fold_dirHashes env _ _ {} rfl hcd, hpat]
      simp only [alookup, if_true, Option.getD_some]
      refine ⟨_, _, find?_keyed _ (fun f => ((nodeHashes env.H env.D f _ [] _).1, (nodeHashes env.H env.D f _ [] _).2))
        e.fmt hefmt, ?_⟩
      rw [hroot] at he
      obtain ⟨hk, h1, -⟩ := mem_dirEnts_spec env (sealHit env o) _ [] t e he
      have hne := hdiff e.fmt ((hK e.fmt).1 hk)
      have hd1 : e.digest ≠ (nodeHashes env.H env.D e.fmt (sealHit env o) []
          (Node.dir n cs (some (({} : HistStore).add w)))).1 := by
        rw [h1]; exact Ne.symm hne
      simp only [sealHit] at hd1
      simp [compareDir, hd1]
  exact ⟨key, by rw [Outcome.exitCode, key]; decide⟩

/-! ### non-vacuity -/

section Examples

/-- toy hashing layer: the "digest" is the format name followed by the sum of the input bytes -/
def exEnv : Env :=
  { H := fun f c => f ++ toString (c.foldl (fun a u => a + u.toNat) 0), D := fun _ s => some s.toUTF8.toList,
    hit := fun pats p => pats.contains (posix p) || p.getLast? == some ".DS_Store", rootName := "root" }

/-- a folder without any `ascmhl` folder: a file, a nested folder with a file and a deeper folder, an ignored file -/
def exT : Node :=
  .dir "root"
    [ .file "a.txt" [7],
      .dir "sub" [.file "b.txt" [1, 2], .dir "deep" [.file "c" [5]] none] none,
      .file ".DS_Store" [9] ] none

def exO : CreateOpts := { formats := ["xxh64", "md5"] }

theorem exT_distinct : exT.NamesDistinct := by
  simp [exT, Node.NamesDistinct, Node.NamesDistinctKids, Node.name]

/-- every hypothesis of `verifyDh_after_seal` holds on `exT` -/
example : noHist exT = true ∧ exT.isDir = true ∧ exT.NamesDistinct ∧ exT.NamesOk ∧ exO.formats ≠ [] ∧
    exO.noDirHashes = false ∧ exO.singleFiles = [] ∧ exO.detectRenaming = false ∧
    '\n' ∉ exEnv.rootName.toList ∧ '\n' ∉ exEnv.stamp.toList :=
  ⟨by rfl, rfl, exT_distinct, by decide, by decide, rfl, rfl, rfl, by decide, by decide⟩

/-- the theorem applied … -/
example : (verifyDh exEnv (applyWritten exT (createFolder exEnv exT exO).written) {}).exitCode = 0 :=
  (verifyDh_after_seal exEnv exT exO (by rfl) rfl exT_distinct (by decide) (by decide) rfl rfl
    (by decide) (by decide)).2

/-- … and the same by evaluation of the model -/
example : (verifyDh exEnv (applyWritten exT (createFolder exEnv exT exO).written) {}).exitCode = 0 := by
  decide +kernel

/-- what the seal recorded for the folders: two formats each, sorted, the root as root hash -/
example : (createFolder exEnv exT exO).written.map (fun w =>
      (w.gen.fileName, (w.gen.records.filter (·.isDir)).map (fun r => (r.path, r.entries.map (·.fmt))),
        (w.gen.rootHash.getD []).map (·.fmt))) =
    [("0001_root_1970-01-01_000000Z.mhl", [("sub/deep", ["md5", "xxh64"]), ("sub", ["md5", "xxh64"])],
      ["md5", "xxh64"])] := by
  decide +kernel

/-- the sealed tree with `sub/b.txt` altered -/
def exChanged : Node :=
  .dir "root"
    [ .file "a.txt" [7],
      .dir "sub" [.file "b.txt" [1, 3], .dir "deep" [.file "c" [5]] none] none,
      .file ".DS_Store" [9] ] (applyWritten exT (createFolder exEnv exT exO).written).hist

/-- the hypotheses of `verifyDh_detects_content_change_partial` hold for it (the toy digest of the root content
changes in both formats) … -/
example : exChanged.hist = (applyWritten exT (createFolder exEnv exT exO).written).hist ∧ exChanged.isDir = true ∧
    noNested exChanged = true ∧
    ∀ f ∈ exO.formats, (nodeHashes exEnv.H exEnv.D f (sealHit exEnv exO) [] exChanged).1 ≠
      (nodeHashes exEnv.H exEnv.D f (sealHit exEnv exO) [] exT).1 :=
  ⟨rfl, rfl, by rfl, by decide +kernel⟩

/-- … and `verify -dh` ends with 12 -/
example : (verifyDh exEnv exChanged {}).exitCode = 12 := by decide +kernel

/-- item 1 on the sealed tree: the root hashes `verify -dh` computes are the specified ones -/
example (h : Hist) :
    dhRootHashes exEnv exT h {} =
      specHashes exEnv (exEnv.hit (setPatterns (latestIgnore h.gens) [] [])) (dhFormats h none) [] exT :=
  verifyDh_root_hashes_spec exEnv exT h {} rfl exT_distinct

/-- the hypothesis of item 2 holds on the sealed `exT` (history `h` as loaded), and it is about something: two visible
sub-folders, one nested in the other -/
example : ∃ h, loadHistory (sealed exEnv exT exO) = .ok h ∧
    ∀ q c, (q, true) ∈ visiblePaths (sealHit exEnv exO) (sealed exEnv exT exO) →
      (sealed exEnv exT exO).at? q = some c →
      ∀ e ∈ dirEntriesFor (route h q).1 (posix (route h q).2),
        e.digest = (nodeHashes exEnv.H exEnv.D e.fmt (sealHit exEnv exO) q c).1 ∧
        e.shash = some (nodeHashes exEnv.H exEnv.D e.fmt (sealHit exEnv exO) q c).2 := by
  obtain ⟨h, hl, -, -, -, hsub, -⟩ := sealed_recorded_spec exEnv exT exO (by rfl) rfl exT_distinct (by decide)
    (by decide) rfl rfl (by decide) (by decide)
  exact ⟨h, hl, hsub⟩

example : (visiblePaths (sealHit exEnv exO) (sealed exEnv exT exO)).filter (·.2) =
    [(["sub", "deep"], true), (["sub"], true)] := by decide +kernel

/-- item 2 is not vacuous and its hypothesis is needed: with a sub-folder recorded under a wrong content hash the
traversal marks the format -/
example :
    let g : Generation :=
      { fileName := "0001_root_2020-01-01_000000Z.mhl",
        rootHash := some [{ fmt := "md5", digest := "x", shash := some "y" }],
        records := [{ path := "sub", isDir := true, entries := [{ fmt := "md5", digest := "WRONG", shash := some "z" }] }] }
    let t : Node := .dir "root" [.dir "sub" [.file "b.txt" [1, 2]] none]
      (some { gens := [g], chain := [⟨1, "0001_root_2020-01-01_000000Z.mhl"⟩] })
    ((traverse (fun _ => false) [] t).foldl
      (dhVisit exEnv t (.mk [] [⟨1, g⟩] [] true []) ["md5"] {}) {}).failedFormats = ["md5"] := by
  decide +kernel

end Examples

end MhlProps.C09e2e
