/-
The civil-date rendering behind the manifest file names and the ISO dates (`MhlModel/Civil.lean`: Hinnant's
`civil_from_days` / `days_from_civil` on floor division, the time of day, the texts).

1. `civil_month_range`, `civil_day_range`, `civil_day_le_31`
                                   every day count yields a date of the calendar: 1 ≤ m ≤ 12, 1 ≤ d ≤ daysInMonth y m
2. `days_civil_roundtrip`          daysFromCivil (civilFromDays z) = z for EVERY z (also before 1970 and before year 0)
3. `civil_days_roundtrip`          civilFromDays (daysFromCivil y m d) = (y, m, d) for EVERY date of the calendar
                                   (full statement, every year, no restriction to an era)
4. `daysFromCivil_strictMono`, `civil_monotone`, `civil_injective`
                                   the day count and the date order agree; different days have different dates
5. `hms_range`, `hms_roundtrip`    hour < 24, minute < 60, second < 60, h*3600 + m*60 + s = second of the day
6. `fields_injective`              the six fields determine the second count (no restriction on the year)
   `year_range_of_epoch`           -30610224000 ≤ t < 253402300800 (1000-01-01 … 9999-12-31) ⇒ 1000 ≤ year ≤ 9999
   `stamp_length`, `stamp_shape`   the stamp has 17 characters, '-' at 4 and 7, '_' at 10, digits elsewhere
   `stamp_injective`, `stamp_injective_epoch`
                                   two different seconds never produce the same stamp (string level)
   `iso_length`, `iso_injective`   the ISO text "YYYY-MM-DDTHH:MM:SS±HH:MM" has 25 characters; for one offset it
                                   determines the local second count
7. `new_year_is_calendar_year` examples: the year of the stamp is the calendar year (%Y), not the ISO week-based year
   (%G), on the days where the two differ.

The year restriction 1000 ≤ y ≤ 9999 in the text theorems is where the model's `pad4` is what Python prints (glibc's
`%Y` does not pad below 1000); the proofs themselves only need 0 ≤ y ≤ 9999.

Helper lemmas: `MhlProps/Proofs/CivilLemmas.lean`.  The only non-`omega` ingredient is `yearOk_all`: the year-of-era
formula `(doe - doe/1460 + doe/36524 - doe/146096) / 365` is checked by kernel evaluation (`decide +kernel`) on the
first and the last day of each of the 400 years of an era, and extended to all 146097 days by monotonicity.
-/
import MhlProps.Proofs.CivilLemmas

namespace MhlModel.Civil

open MhlModel.Time (pad2 pad2Chars offsetText offsetChars)

/-! ### 1. ranges -/

/-- the month is 1..12 -/
theorem civil_month_range (z : Int) : 1 ≤ (civilFromDays z).2.1 ∧ (civilFromDays z).2.1 ≤ 12 :=
  ⟨(civilFromDays_valid z).1, (civilFromDays_valid z).2.1⟩

/-- the day is 1..length of the month (of THAT year: 29 only in a leap February) -/
theorem civil_day_range (z : Int) : 1 ≤ (civilFromDays z).2.2 ∧
    (civilFromDays z).2.2 ≤ daysInMonth (civilFromDays z).1 (civilFromDays z).2.1 :=
  ⟨(civilFromDays_valid z).2.2.1, (civilFromDays_valid z).2.2.2⟩

theorem civil_day_le_31 (z : Int) : (civilFromDays z).2.2 ≤ 31 :=
  Nat.le_trans (civil_day_range z).2 (daysInMonth_le _ _)

example : civilFromDays 0 = (1970, 1, 1) := by decide
example : civilFromDays (-1) = (1969, 12, 31) := by decide
example : civilFromDays 11016 = (2000, 2, 29) ∧ civilFromDays 11017 = (2000, 3, 1) := by decide
example : civilFromDays (-25509) = (1900, 2, 28) ∧ civilFromDays (-25508) = (1900, 3, 1) := by decide
example : civilFromDays (-719468) = (0, 3, 1) ∧ civilFromDays (-719469) = (0, 2, 29) := by decide
example : civilFromDays (-719528) = (0, 1, 1) ∧ civilFromDays (-719529) = (-1, 12, 31) := by decide
example : civilFromDays 2932896 = (9999, 12, 31) := by decide
example : isLeap 2000 = true ∧ isLeap 1900 = false ∧ isLeap 2024 = true ∧ isLeap 2100 = false ∧ isLeap 0 = true ∧
    isLeap (-4) = true ∧ isLeap (-100) = false := by decide
example : daysInMonth 2024 2 = 29 ∧ daysInMonth 2023 2 = 28 ∧ daysInMonth 2023 12 = 31 ∧ daysInMonth 2023 13 = 0 := by
  decide

/-! ### 2., 3. round trips -/

/-- days → date → days, for every day count (negative ones included) -/
theorem days_civil_roundtrip (z : Int) :
    daysFromCivil (civilFromDays z).1 (civilFromDays z).2.1 (civilFromDays z).2.2 = z :=
  days_civil_roundtrip' z

/-- date → days → date, for every date of the proleptic Gregorian calendar (every year, also ≤ 0) -/
theorem civil_days_roundtrip (y : Int) (m d : Nat) (hm : 1 ≤ m ∧ m ≤ 12) (hd : 1 ≤ d ∧ d ≤ daysInMonth y m) :
    civilFromDays (daysFromCivil y m d) = (y, m, d) :=
  civil_days_roundtrip' y m d hm.1 hm.2 hd.1 hd.2

example : daysFromCivil 1970 1 1 = 0 ∧ daysFromCivil 2000 2 29 = 11016 ∧ daysFromCivil 1900 1 1 = -25567 ∧
    daysFromCivil 1 1 1 = -719162 ∧ daysFromCivil 9999 12 31 = 2932896 := by decide
/-- the hypothesis of `civil_days_roundtrip` is needed: Feb 29 of a common year comes back as Mar 1 -/
example : civilFromDays (daysFromCivil 1900 2 29) = (1900, 3, 1) := by decide

/-! ### 4. order -/

/-- on the dates of the calendar the day count is strictly monotone in the (year, month, day) order -/
theorem daysFromCivil_strictMono (a b : Int × Nat × Nat) (va : validDate a) (vb : validDate b) (h : dateLt a b) :
    daysFromCivil a.1 a.2.1 a.2.2 < daysFromCivil b.1 b.2.1 b.2.2 :=
  daysFromCivil_lt a b va vb h

/-- a later day has a later date -/
theorem civil_monotone (z₁ z₂ : Int) (h : z₁ < z₂) : dateLt (civilFromDays z₁) (civilFromDays z₂) := by
  have v1 := civilFromDays_valid z₁
  have v2 := civilFromDays_valid z₂
  have r1 := days_civil_roundtrip z₁
  have r2 := days_civil_roundtrip z₂
  apply Decidable.byContradiction
  intro hn
  -- the order is total: otherwise the dates are equal or the other way round, and so are the day counts
  by_cases e : civilFromDays z₁ = civilFromDays z₂
  · rw [e, r2] at r1; omega
  · have h' : dateLt (civilFromDays z₂) (civilFromDays z₁) := by
      generalize civilFromDays z₁ = a at *
      generalize civilFromDays z₂ = b at *
      obtain ⟨a1, a2, a3⟩ := a
      obtain ⟨b1, b2, b3⟩ := b
      unfold dateLt at hn ⊢
      simp only [Prod.mk.injEq] at e hn ⊢
      omega
    have := daysFromCivil_lt _ _ v2 v1 h'
    omega

/-- different days have different dates -/
theorem civil_injective (z₁ z₂ : Int) (h : civilFromDays z₁ = civilFromDays z₂) : z₁ = z₂ := by
  rw [← days_civil_roundtrip z₁, ← days_civil_roundtrip z₂, h]

example : dateLt (civilFromDays 364) (civilFromDays 365) := by decide
example : civilFromDays 364 = (1970, 12, 31) ∧ civilFromDays 365 = (1971, 1, 1) := by decide

/-! ### 5. time of day -/

theorem hms_range (s : Int) (h0 : 0 ≤ s) (h1 : s < 86400) : (hms s).1 < 24 ∧ (hms s).2.1 < 60 ∧ (hms s).2.2 < 60 :=
  ⟨(hms_spec s h0 h1).1, (hms_spec s h0 h1).2.1, (hms_spec s h0 h1).2.2.1⟩

theorem hms_roundtrip (s : Int) (h0 : 0 ≤ s) (h1 : s < 86400) :
    ((hms s).1 : Int) * 3600 + ((hms s).2.1 : Int) * 60 + ((hms s).2.2 : Int) = s :=
  (hms_spec s h0 h1).2.2.2

example : hms 0 = (0, 0, 0) ∧ hms 86399 = (23, 59, 59) ∧ hms 3661 = (1, 1, 1) := by decide

/-! ### 6. the stamp -/

/-- the six fields (year, month, day, hour, minute, second) determine the second count; every `t`, no year range -/
theorem fields_injective (t₁ t₂ : Int) (h : fields t₁ = fields t₂) : t₁ = t₂ := fields_injective' t₁ t₂ h

/-- the instants of the years 1000..9999 (the range in which `%Y` prints four digits) -/
theorem year_range_of_epoch (t : Int) (h0 : -30610224000 ≤ t) (h1 : t < 253402300800) :
    1000 ≤ (fields t).1 ∧ (fields t).1 ≤ 9999 := by
  rw [fields_eq]
  simp only []
  have v := civilFromDays_valid (t / 86400)
  have r := days_civil_roundtrip (t / 86400)
  have lo : daysFromCivil 1000 1 1 = -354285 := by decide
  have hi : daysFromCivil 9999 12 31 = 2932896 := by decide
  have vlo : validDate (1000, 1, 1) := by decide
  have vhi : validDate (9999, 12, 31) := by decide
  constructor
  · apply Decidable.byContradiction; intro hn
    have := daysFromCivil_lt (civilFromDays (t / 86400)) (1000, 1, 1) v vlo (Or.inl (by simp only []; omega))
    simp only [] at this
    omega
  · apply Decidable.byContradiction; intro hn
    have := daysFromCivil_lt (9999, 12, 31) (civilFromDays (t / 86400)) vhi v (Or.inl (by simp only []; omega))
    simp only [] at this
    omega

/-- "YYYY-MM-DD_HHMMSS": 17 characters -/
theorem stamp_length (t : Int) (hy : 1000 ≤ (fields t).1 ∧ (fields t).1 ≤ 9999) : (stampOfEpoch t).length = 17 := by
  rw [← String.length_toList, stampOfEpoch_toList t (by omega) hy.2]
  simp [stampChars, pad4Chars, pad2Chars]

/-- the separators: '-' at positions 4 and 7, '_' at position 10; every other position is a decimal digit -/
theorem stamp_shape (t : Int) (hy : 1000 ≤ (fields t).1 ∧ (fields t).1 ≤ 9999) :
    (stampOfEpoch t).toList[4]? = some '-' ∧ (stampOfEpoch t).toList[7]? = some '-' ∧
    (stampOfEpoch t).toList[10]? = some '_' ∧
    ∀ i, i < 17 → i ≠ 4 → i ≠ 7 → i ≠ 10 → ∃ c, (stampOfEpoch t).toList[i]? = some c ∧ c.isDigit = true := by
  obtain ⟨r1, r2, r3, r4, r5, r6, r7⟩ := fields_ranges t
  rw [stampOfEpoch_toList t (by omega) hy.2]
  refine ⟨by simp [stampChars, pad4Chars, pad2Chars], by simp [stampChars, pad4Chars, pad2Chars],
    by simp [stampChars, pad4Chars, pad2Chars], ?_⟩
  have dg : ∀ n, n < 10 → (Nat.digitChar n).isDigit = true := Time.digitChar_isDigit
  intro i hi h4 h7 h10
  have hc : i = 0 ∨ i = 1 ∨ i = 2 ∨ i = 3 ∨ i = 5 ∨ i = 6 ∨ i = 8 ∨ i = 9 ∨ i = 11 ∨ i = 12 ∨ i = 13 ∨ i = 14 ∨
    i = 15 ∨ i = 16 := by omega
  rcases hc with rfl | rfl | rfl | rfl | rfl | rfl | rfl | rfl | rfl | rfl | rfl | rfl | rfl | rfl <;>
    simp only [stampChars, pad4Chars, pad2Chars, List.cons_append, List.nil_append, List.getElem?_cons_zero,
      List.getElem?_cons_succ, Option.some.injEq, exists_eq_left'] <;>
    apply dg <;> omega

/-- two different seconds never produce the same stamp (string level) -/
theorem stamp_injective (t₁ t₂ : Int) (h₁ : 1000 ≤ (fields t₁).1 ∧ (fields t₁).1 ≤ 9999)
    (h₂ : 1000 ≤ (fields t₂).1 ∧ (fields t₂).1 ≤ 9999) (e : stampOfEpoch t₁ = stampOfEpoch t₂) : t₁ = t₂ := by
  have e' := congrArg String.toList e
  rw [stampOfEpoch_toList t₁ (by omega) h₁.2, stampOfEpoch_toList t₂ (by omega) h₂.2] at e'
  obtain ⟨a1, a2, a3, a4, a5, a6, a7⟩ := fields_ranges t₁
  obtain ⟨b1, b2, b3, b4, b5, b6, b7⟩ := fields_ranges t₂
  exact fields_injective t₁ t₂ (stampChars_inj _ _ (by omega) h₁.2 (by omega) (by omega) (by omega) (by omega)
    (by omega) (by omega) h₂.2 (by omega) (by omega) (by omega) (by omega) (by omega) e')

/-- the same, with the range given on the instants: 1000-01-01T00:00:00Z … 9999-12-31T23:59:59Z -/
theorem stamp_injective_epoch (t₁ t₂ : Int) (h₁ : -30610224000 ≤ t₁ ∧ t₁ < 253402300800)
    (h₂ : -30610224000 ≤ t₂ ∧ t₂ < 253402300800) (e : stampOfEpoch t₁ = stampOfEpoch t₂) : t₁ = t₂ :=
  stamp_injective t₁ t₂ (year_range_of_epoch t₁ h₁.1 h₁.2) (year_range_of_epoch t₂ h₂.1 h₂.2) e

example : (stampOfEpoch 1735516800).length = 17 := by decide
example : fields 1735516800 = (2024, 12, 30, 0, 0, 0) ∧ fields (-1) = (1969, 12, 31, 23, 59, 59) := by decide
example : fields (-30610224000) = (1000, 1, 1, 0, 0, 0) ∧ fields 253402300799 = (9999, 12, 31, 23, 59, 59) := by decide
example : fields (-30610224001) = (999, 12, 31, 23, 59, 59) ∧ fields 253402300800 = (10000, 1, 1, 0, 0, 0) := by decide

/-! ### the ISO text -/

/-- "YYYY-MM-DDTHH:MM:SS" on characters -/
def isoChars (f : Int × Nat × Nat × Nat × Nat × Nat) : List Char :=
  pad4Chars f.1.toNat ++ '-' :: (pad2Chars f.2.1 ++ '-' :: (pad2Chars f.2.2.1 ++ 'T' :: (pad2Chars f.2.2.2.1 ++
    ':' :: (pad2Chars f.2.2.2.2.1 ++ ':' :: pad2Chars f.2.2.2.2.2))))

theorem isoOfLocal_toList (l off : Int) (h0 : 0 ≤ (fields l).1) (h1 : (fields l).1 ≤ 9999)
    (ho : off.natAbs < 360000) : (isoOfLocal l off).toList = isoChars (fields l) ++ offsetChars off := by
  obtain ⟨r1, r2, r3, r4, r5, r6, r7⟩ := fields_ranges l
  unfold isoOfLocal isoChars
  simp only [String.toList_append, pad4_toList _ h0 h1, Time.pad2_toList _ (by omega : (fields l).2.1 < 100),
    Time.pad2_toList _ (by omega : (fields l).2.2.1 < 100), Time.pad2_toList _ (by omega : (fields l).2.2.2.1 < 100),
    Time.pad2_toList _ (by omega : (fields l).2.2.2.2.1 < 100),
    Time.pad2_toList _ (by omega : (fields l).2.2.2.2.2 < 100), Time.offsetText_toList off ho]
  simp [pad4Chars, pad2Chars]

/-- "YYYY-MM-DDTHH:MM:SS±HH:MM": 25 characters when the offset has whole minutes (28 with "±HH:MM:SS" otherwise) -/
theorem iso_length (l off : Int) (hy : 1000 ≤ (fields l).1 ∧ (fields l).1 ≤ 9999) (ho : off.natAbs < 360000) :
    (isoOfLocal l off).length = if off.natAbs % 60 = 0 then 25 else 28 := by
  rw [← String.length_toList, isoOfLocal_toList l off (by omega) hy.2 ho]
  by_cases c : off.natAbs % 60 = 0 <;> simp [isoChars, offsetChars, pad4Chars, pad2Chars, c]

/-- for one offset the ISO text determines the local second count -/
theorem iso_injective (l₁ l₂ off : Int) (h₁ : 1000 ≤ (fields l₁).1 ∧ (fields l₁).1 ≤ 9999)
    (h₂ : 1000 ≤ (fields l₂).1 ∧ (fields l₂).1 ≤ 9999) (ho : off.natAbs < 360000)
    (e : isoOfLocal l₁ off = isoOfLocal l₂ off) : l₁ = l₂ := by
  have e' := congrArg String.toList e
  rw [isoOfLocal_toList l₁ off (by omega) h₁.2 ho, isoOfLocal_toList l₂ off (by omega) h₂.2 ho] at e'
  have e'' := List.append_cancel_right e'
  obtain ⟨a1, a2, a3, a4, a5, a6, a7⟩ := fields_ranges l₁
  obtain ⟨b1, b2, b3, b4, b5, b6, b7⟩ := fields_ranges l₂
  apply fields_injective
  -- the stamp and the ISO text carry the same digits at other positions
  apply stampChars_inj _ _ (by omega) h₁.2 (by omega) (by omega) (by omega) (by omega)
    (by omega) (by omega) h₂.2 (by omega) (by omega) (by omega) (by omega) (by omega)
  simp only [isoChars, stampChars, pad4Chars, pad2Chars, List.cons_append, List.nil_append, List.cons.injEq,
    and_true, true_and] at e'' ⊢
  obtain ⟨y1, y2, y3, y4, p1, p2, q1, q2, u1, u2, v1, v2, w1, w2⟩ := e''
  exact ⟨y1, y2, y3, y4, p1, p2, q1, q2, u1, u2, v1, v2, w1, w2⟩

example : isoOfLocal 1735516800 (-19800) = "2024-12-30T00:00:00-05:30" := by decide
example : isoOfLocal 951827696 3600 = "2000-02-29T12:34:56+01:00" := by decide
example : isoOfLocal (-1) 0 = "1969-12-31T23:59:59+00:00" := by decide
example : isoOfLocal 0 3661 = "1970-01-01T00:00:00+01:01:01" := by decide

/-! ### 7. the year of the stamp is the calendar year -/

/-- Days on which the ISO week-based year (`%G`) differs from the calendar year (`%Y`): 2024-12-30 belongs to ISO
week 1 of 2025, 2021-01-01 to week 53 of 2020, 2027-01-01 to week 53 of 2026.  The stamp shows the calendar year. -/
theorem new_year_is_calendar_year :
    stampOfEpoch 1735516800 = "2024-12-30_000000" ∧ stampOfEpoch 1609459200 = "2021-01-01_000000" ∧
    stampOfEpoch 1798847999 = "2027-01-01_235959" := by decide

example : stampOfEpoch 1735516800 = "2024-12-30_000000" := by decide
example : stampOfEpoch 1609459200 = "2021-01-01_000000" := by decide
example : stampOfEpoch 1798847999 = "2027-01-01_235959" := by decide
example : stampOfEpoch (-1) = "1969-12-31_235959" := by decide
example : stampOfEpoch 951782400 = "2000-02-29_000000" := by decide
example : stampOfEpoch 0 = "1970-01-01_000000" ∧ stampOfEpoch 86399 = "1970-01-01_235959" ∧
    stampOfEpoch 86400 = "1970-01-02_000000" ∧ stampOfEpoch (-86400) = "1969-12-31_000000" := by decide
example : stampOfEpoch 4102444800 = "2100-01-01_000000" ∧ stampOfEpoch 253402300799 = "9999-12-31_235959" ∧
    stampOfEpoch (-2208988800) = "1900-01-01_000000" := by decide
/-- outside the four-digit range the padded form is not what glibc prints ("999-12-31…" there) -/
example : stampOfEpoch (-30610224001) = "0999-12-31_235959" := by decide

end MhlModel.Civil
