/-
C03 — Verification reports every discrepancy and never a false one.

About `MhlModel.judgeFile`, `verifyExit`, `diffExit`, `createExit`, `verifyOrDiff` (`verify`, `diff`) of
MhlModel/Commands.lean.  Property theorems only; helper lemmas are in MhlProps/Proofs/VerifyLemmas.lean, which also
names the pieces of `verifyOrDiff`:

  vHit env rootHist o          the matcher of the run  (= env.hit (setPatterns (latestIgnore …) o.ignoreCli o.ignoreFile))
  vFound / vFiles              the visited paths / the visited files  (from `visiblePaths (vHit …) t`)
  vConsidered                  the visited files that are judged (all, or the one asked for with -sf)
  vNews / vMism / vMissing     the three lists of PATHS whose `posix` texts make up the report

The reports are lists of POSIX texts; `posix` is not injective on arbitrary component lists (["a/b"] and ["a","b"]
have the same text), so "path p is (not) reported" is stated on the path lists `vNews`/`vMism`/`vMissing`, of which
the report is the image under `posix` (`report_shape`).
-/
import MhlProps.Proofs.VerifyLemmas
import MhlProps.C02

namespace MhlProps.C03
open MhlModel

/-! ### 1. the exit codes of the current source -/

theorem exit_codes :
    errMissingFiles = .exit 10 ∧ errVerifyFailed = .exit 11 ∧ errDirVerifyFailed = .exit 12 ∧
    errSingleFileNotFound = .exit 20 ∧ errNewFiles = .exit 21 ∧ errNoHistory = .exit 30 ∧
    errModified = .exit 31 ∧ errNoChain = .exit 32 ∧ errMissingManifest = .exit 33 := by decide

theorem exit_codes_distinct :
    [errMissingFiles, errVerifyFailed, errDirVerifyFailed, errSingleFileNotFound, errNewFiles, errNoHistory,
      errModified, errNoChain, errMissingManifest].Pairwise (· ≠ ·) := by decide

/-- as process exit statuses: none of them is 0 (success) or 1 (uncaught exception) -/
theorem exit_codes_proper :
    [errMissingFiles, errVerifyFailed, errDirVerifyFailed, errSingleFileNotFound, errNewFiles, errNoHistory,
      errModified, errNoChain, errMissingManifest].map (fun e => ({ err := some e } : Outcome).exitCode) =
      [10, 11, 12, 20, 21, 30, 31, 32, 33] := by decide

/-! ### 2. how the commands end: complete characterisation -/

/-- verify: mismatch (11) over new files (21) over single file not found (20) over missing files (10) -/
theorem verifyExit_spec (mism news : List String) (asked found : Bool) (missing : List RelPath) :
    (verifyExit mism news asked found missing = none ↔
      mism = [] ∧ news = [] ∧ (asked = true → found = true) ∧ missing = []) ∧
    (verifyExit mism news asked found missing = some errVerifyFailed ↔ mism ≠ []) ∧
    (verifyExit mism news asked found missing = some errNewFiles ↔ mism = [] ∧ news ≠ []) ∧
    (verifyExit mism news asked found missing = some errSingleFileNotFound ↔
      mism = [] ∧ news = [] ∧ (asked = true ∧ found = false)) ∧
    (verifyExit mism news asked found missing = some errMissingFiles ↔
      mism = [] ∧ news = [] ∧ ¬ (asked = true ∧ found = false) ∧ missing ≠ []) := by
  unfold verifyExit
  rw [errVerifyFailed_eq, errNewFiles_eq, errSingleFileNotFound_eq, errMissingFiles_eq]
  cases mism <;> cases news <;> cases asked <;> cases found <;> cases missing <;> simp

/-- nothing else comes out of it -/
theorem verifyExit_range (mism news : List String) (asked found : Bool) (missing : List RelPath) :
    verifyExit mism news asked found missing ∈
      [none, some errVerifyFailed, some errNewFiles, some errSingleFileNotFound, some errMissingFiles] := by
  unfold verifyExit
  cases mism <;> cases news <;> cases asked <;> cases found <;> cases missing <;> simp

/-- diff: missing files (10) over new files (21) -/
theorem diffExit_spec (news : List String) (missing : List RelPath) :
    (diffExit news missing = none ↔ news = [] ∧ missing = []) ∧
    (diffExit news missing = some errMissingFiles ↔ missing ≠ []) ∧
    (diffExit news missing = some errNewFiles ↔ missing = [] ∧ news ≠ []) := by
  unfold diffExit
  rw [errNewFiles_eq, errMissingFiles_eq]
  cases news <;> cases missing <;> simp

theorem diffExit_range (news : List String) (missing : List RelPath) :
    diffExit news missing ∈ [none, some errMissingFiles, some errNewFiles] := by
  unfold diffExit
  cases news <;> cases missing <;> simp

/-- create (folder mode): failed verification (11) over missing files (10) over a vanished nested history (30) -/
theorem createExit_spec (failed : Nat) (missing missingHist : List RelPath) :
    (createExit failed missing missingHist = none ↔ failed = 0 ∧ missing = [] ∧ missingHist = []) ∧
    (createExit failed missing missingHist = some errVerifyFailed ↔ 0 < failed) ∧
    (createExit failed missing missingHist = some errMissingFiles ↔ failed = 0 ∧ missing ≠ []) ∧
    (createExit failed missing missingHist = some errNoHistory ↔ failed = 0 ∧ missing = [] ∧ missingHist ≠ []) := by
  unfold createExit
  rw [errVerifyFailed_eq, errNoHistory_eq, errMissingFiles_eq]
  cases failed <;> cases missing <;> cases missingHist <;> simp

theorem createExit_range (failed : Nat) (missing missingHist : List RelPath) :
    createExit failed missing missingHist ∈
      [none, some errVerifyFailed, some errMissingFiles, some errNoHistory] := by
  unfold createExit
  cases failed <;> cases missing <;> cases missingHist <;> simp

/-! ### 3. the per-file verdict -/

/-- `judgeFile` for file `p`, with `h` the history `p` is routed to, `hrel` its path in there, and `name` the name it
was recorded under (renames followed back): new ⇔ no original entry for that name; mismatch ⇔ hashing and the
digest of the CURRENT content in the original entry's format differs from the original digest; ok otherwise. -/
theorem judgeFile_spec (env : Env) (t : Node) (rootHist : Hist) (hashing : Bool) (p : RelPath) :
    let h := (route rootHist p).1
    let hrel := (route rootHist p).2
    let name := recordedName h.gens (posix hrel)
    (judgeFile env t rootHist hashing p = .new ↔ findOriginal h.gens name = none) ∧
    (judgeFile env t rootHist hashing p = .mismatch ↔
      hashing = true ∧ ∃ e, findOriginal h.gens name = some e ∧ env.H e.fmt (fileContent t p) ≠ e.digest) ∧
    (judgeFile env t rootHist hashing p = .ok ↔
      ∃ e, findOriginal h.gens name = some e ∧ (hashing = false ∨ env.H e.fmt (fileContent t p) = e.digest)) := by
  intro h hrel name
  have hj : judgeFile env t rootHist hashing p =
      match findOriginal h.gens name with
      | none => .new
      | some e => if hashing && env.H e.fmt (fileContent t p) != e.digest then .mismatch else .ok := rfl
  rw [hj]
  cases hf : findOriginal h.gens name with
  | none => simp
  | some e =>
    cases hashing
    · simp
    · by_cases hd : env.H e.fmt (fileContent t p) = e.digest <;> simp [hd]

/-- diff does not hash: it never says mismatch -/
theorem judgeFile_diff_never_mismatch (env : Env) (t : Node) (rootHist : Hist) (p : RelPath) :
    judgeFile env t rootHist false p ≠ .mismatch := by
  intro h
  have := ((judgeFile_spec env t rootHist false p).2.1.1 h).1
  exact Bool.noConfusion this

/-- new / not new does not depend on hashing: verify and diff agree on which files are new -/
theorem judgeFile_new_indep (env : Env) (t : Node) (rootHist : Hist) (p : RelPath) (a b : Bool) :
    judgeFile env t rootHist a p = .new ↔ judgeFile env t rootHist b p = .new := by
  rw [(judgeFile_spec env t rootHist a p).1, (judgeFile_spec env t rootHist b p).1]

/-! ### 4. `verifyOrDiff` on a loaded, non-empty history -/

/-- an entry the traversal visits is not excluded: neither it nor a folder above it is matched -/
theorem hitAbove_false_of_visible (hit : RelPath → Bool) (t : Node) (p : RelPath) (d : Bool)
    (hv : (p, d) ∈ visiblePaths hit t) : hitAbove hit p = false := by
  rw [hitAbove_false_iff]
  intro i hi
  exact ((MhlProps.C02.visible_iff hit t p d).1 hv).2 (i + 1) (by omega) (by omega)

section run
variable (env : Env) (t : Node) (o : VerifyOpts) (hashing : Bool) (rootHist : Hist)

theorem vHit_def : vHit env rootHist o = env.hit (setPatterns (latestIgnore rootHist.gens) o.ignoreCli o.ignoreFile) :=
  rfl

/-- the report is the `posix` image of the three path lists; nothing is ever reported as renamed / dir mismatch -/
theorem report_shape (hl : loadHistory t = .ok rootHist) (hg : rootHist.gens ≠ []) :
    (verifyOrDiff env t o hashing none).report.mismatch = (vMism env t rootHist o hashing).map posix ∧
    (verifyOrDiff env t o hashing none).report.new = (vNews env t rootHist o hashing).map posix ∧
    (verifyOrDiff env t o hashing none).report.missing = (vMissing env t rootHist o).map posix ∧
    (verifyOrDiff env t o hashing none).report.renamed = [] ∧
    (verifyOrDiff env t o hashing none).report.dirMismatch = [] := by
  rw [verifyOrDiff_eq env t o hashing rootHist hl hg]
  exact ⟨rfl, rfl, rfl, rfl, rfl⟩

/-- how it ends -/
theorem run_err (hl : loadHistory t = .ok rootHist) (hg : rootHist.gens ≠ []) :
    (verifyOrDiff env t o hashing none).err =
      if hashing then
        verifyExit ((vMism env t rootHist o hashing).map posix) ((vNews env t rootHist o hashing).map posix)
          o.singleFile.isSome (vFoundSingle env t rootHist o hashing) (vMissing env t rootHist o)
      else diffExit ((vNews env t rootHist o hashing).map posix) (vMissing env t rootHist o) := by
  rw [verifyOrDiff_eq env t o hashing rootHist hl hg]

/-- the three path lists, characterised -/
theorem mism_iff (p : RelPath) :
    p ∈ vMism env t rootHist o hashing ↔
      (p, false) ∈ visiblePaths (vHit env rootHist o) t ∧ (o.singleFile = none ∨ o.singleFile = some p) ∧
        judgeFile env t rootHist hashing p = .mismatch := by
  rw [mem_vMism, mem_vConsidered, and_assoc]

theorem news_iff (p : RelPath) :
    p ∈ vNews env t rootHist o hashing ↔
      (p, false) ∈ visiblePaths (vHit env rootHist o) t ∧ (o.singleFile = none ∨ o.singleFile = some p) ∧
        judgeFile env t rootHist hashing p = .new := by
  rw [mem_vNews, mem_vConsidered, and_assoc]

theorem missing_iff (p : RelPath) :
    p ∈ vMissing env t rootHist o ↔
      p ∈ expectedPaths rootHist ∧ (∀ d, (p, d) ∉ visiblePaths (vHit env rootHist o) t) ∧
        hitAbove (vHit env rootHist o) p = false := by
  rw [mem_vMissing, mem_vFound]
  simp

/-- **whatever the patterns (negations included), nothing that is on disk is ever reported missing**: a missing path
is not an entry of the tree.  (Before the repair of D16 the completeness check matched whole paths only, and a file
below an ignored folder that a negated pattern re-included was reported missing although it was there.) -/
theorem missing_not_on_disk (p : RelPath) (hp : p ∈ vMissing env t rootHist o) (d : Bool) :
    (p, d) ∉ Node.paths [] t := by
  obtain ⟨-, hnv, hh⟩ := (missing_iff env t o rootHist p).1 hp
  intro hin
  apply hnv d
  rw [MhlProps.C02.visible_iff]
  refine ⟨hin, ?_⟩
  intro k hk hkl
  have := (hitAbove_false_iff _ p).1 hh (k - 1) (by omega)
  have h1 : k - 1 + 1 = k := by omega
  rwa [h1] at this

/-! #### no false report -/

/-- every reported mismatch is the text of a visible file whose current digest differs from the original one -/
theorem reported_mismatch_genuine (hl : loadHistory t = .ok rootHist) (hg : rootHist.gens ≠ [])
    (s : String) (hs : s ∈ (verifyOrDiff env t o hashing none).report.mismatch) :
    ∃ p, s = posix p ∧ (p, false) ∈ visiblePaths (vHit env rootHist o) t ∧
      (o.singleFile = none ∨ o.singleFile = some p) ∧ judgeFile env t rootHist hashing p = .mismatch := by
  rw [(report_shape env t o hashing rootHist hl hg).1] at hs
  obtain ⟨p, hp, rfl⟩ := List.mem_map.1 hs
  exact ⟨p, rfl, (mism_iff env t o hashing rootHist p).1 hp⟩

/-- every reported new file is the text of a visible file without an original entry in its history -/
theorem reported_new_genuine (hl : loadHistory t = .ok rootHist) (hg : rootHist.gens ≠ [])
    (s : String) (hs : s ∈ (verifyOrDiff env t o hashing none).report.new) :
    ∃ p, s = posix p ∧ (p, false) ∈ visiblePaths (vHit env rootHist o) t ∧
      (o.singleFile = none ∨ o.singleFile = some p) ∧ judgeFile env t rootHist hashing p = .new := by
  rw [(report_shape env t o hashing rootHist hl hg).2.1] at hs
  obtain ⟨p, hp, rfl⟩ := List.mem_map.1 hs
  exact ⟨p, rfl, (news_iff env t o hashing rootHist p).1 hp⟩

/-- every reported missing path is the text of an expected path that was not visited and is not ignored -/
theorem reported_missing_genuine (hl : loadHistory t = .ok rootHist) (hg : rootHist.gens ≠ [])
    (s : String) (hs : s ∈ (verifyOrDiff env t o hashing none).report.missing) :
    ∃ p, s = posix p ∧ p ∈ expectedPaths rootHist ∧ (∀ d, (p, d) ∉ visiblePaths (vHit env rootHist o) t) ∧
      hitAbove (vHit env rootHist o) p = false := by
  rw [(report_shape env t o hashing rootHist hl hg).2.2.1] at hs
  obtain ⟨p, hp, rfl⟩ := List.mem_map.1 hs
  exact ⟨p, rfl, (missing_iff env t o rootHist p).1 hp⟩

/-- with hashing off (diff) no mismatch is ever reported -/
theorem diff_reports_no_mismatch (hl : loadHistory t = .ok rootHist) (hg : rootHist.gens ≠ []) :
    (verifyOrDiff env t o false none).report.mismatch = [] := by
  rw [(report_shape env t o false rootHist hl hg).1]
  have : vMism env t rootHist o false = [] := by
    apply List.eq_nil_iff_forall_not_mem.2
    intro p hp
    exact judgeFile_diff_never_mismatch env t rootHist p ((mism_iff env t o false rootHist p).1 hp).2.2
  rw [this]; rfl

/-! #### every discrepancy is reported -/

/-- the numeric exit code once the way it ends is known -/
theorem exitCode_of_err (out : Outcome) (n : Nat) (h : out.err = some (.exit n)) : out.exitCode = n := by
  unfold Outcome.exitCode; rw [h]

/-- a visible file (the one asked for, if one is) judged mismatch is reported, and verify ends with 11 -/
theorem mismatch_complete (hl : loadHistory t = .ok rootHist) (hg : rootHist.gens ≠ []) (p : RelPath)
    (hv : (p, false) ∈ visiblePaths (vHit env rootHist o) t) (hsf : o.singleFile = none ∨ o.singleFile = some p)
    (hj : judgeFile env t rootHist hashing p = .mismatch) :
    p ∈ vMism env t rootHist o hashing ∧
    posix p ∈ (verifyOrDiff env t o hashing none).report.mismatch ∧
    (verifyOrDiff env t o hashing none).err = some errVerifyFailed ∧
    (verifyOrDiff env t o hashing none).exitCode = 11 := by
  have hm : p ∈ vMism env t rootHist o hashing := (mism_iff env t o hashing rootHist p).2 ⟨hv, hsf, hj⟩
  have hh : hashing = true := ((judgeFile_spec env t rootHist hashing p).2.1.1 hj).1
  have he : (verifyOrDiff env t o hashing none).err = some errVerifyFailed := by
    rw [run_err env t o hashing rootHist hl hg, hh]
    simp only [if_true]
    apply (verifyExit_spec _ _ _ _ _).2.1.2
    intro hnil
    have : posix p ∈ (vMism env t rootHist o true).map posix := List.mem_map.2 ⟨p, hh ▸ hm, rfl⟩
    rw [hnil] at this
    cases this
  refine ⟨hm, ?_, he, ?_⟩
  · rw [(report_shape env t o hashing rootHist hl hg).1]
    exact List.mem_map.2 ⟨p, hm, rfl⟩
  · exact exitCode_of_err _ 11 (by rw [he, errVerifyFailed_eq])

/-- a visible file (the one asked for, if one is) judged new is reported; verify then ends with 21 unless a mismatch
is reported (then 11, by `mismatch_complete`); diff ends with 21 unless something is missing (then 10) -/
theorem new_complete (hl : loadHistory t = .ok rootHist) (hg : rootHist.gens ≠ []) (p : RelPath)
    (hv : (p, false) ∈ visiblePaths (vHit env rootHist o) t) (hsf : o.singleFile = none ∨ o.singleFile = some p)
    (hj : judgeFile env t rootHist hashing p = .new) :
    p ∈ vNews env t rootHist o hashing ∧
    posix p ∈ (verifyOrDiff env t o hashing none).report.new ∧
    (hashing = true → vMism env t rootHist o hashing = [] →
      (verifyOrDiff env t o hashing none).err = some errNewFiles ∧
      (verifyOrDiff env t o hashing none).exitCode = 21) ∧
    (hashing = false → vMissing env t rootHist o = [] →
      (verifyOrDiff env t o hashing none).err = some errNewFiles ∧
      (verifyOrDiff env t o hashing none).exitCode = 21) ∧
    (verifyOrDiff env t o hashing none).exitCode ≠ 0 := by
  have hm : p ∈ vNews env t rootHist o hashing := (news_iff env t o hashing rootHist p).2 ⟨hv, hsf, hj⟩
  have hne : (vNews env t rootHist o hashing).map posix ≠ [] := by
    intro hnil
    have : posix p ∈ (vNews env t rootHist o hashing).map posix := List.mem_map.2 ⟨p, hm, rfl⟩
    rw [hnil] at this
    cases this
  refine ⟨hm, ?_, ?_, ?_, ?_⟩
  · rw [(report_shape env t o hashing rootHist hl hg).2.1]
    exact List.mem_map.2 ⟨p, hm, rfl⟩
  · intro hh hmm
    have he : (verifyOrDiff env t o hashing none).err = some errNewFiles := by
      rw [run_err env t o hashing rootHist hl hg, hh]
      simp only [if_true]
      exact (verifyExit_spec _ _ _ _ _).2.2.1.2 ⟨by rw [← hh, hmm]; rfl, hh ▸ hne⟩
    exact ⟨he, exitCode_of_err _ 21 (by rw [he, errNewFiles_eq])⟩
  · intro hh hmm
    have he : (verifyOrDiff env t o hashing none).err = some errNewFiles := by
      rw [run_err env t o hashing rootHist hl hg, hh]
      simp only [Bool.false_eq_true, if_false]
      exact (diffExit_spec _ _).2.2.2 ⟨hmm, hh ▸ hne⟩
    exact ⟨he, exitCode_of_err _ 21 (by rw [he, errNewFiles_eq])⟩
  · unfold Outcome.exitCode
    rw [run_err env t o hashing rootHist hl hg]
    cases hashing
    · simp only [Bool.false_eq_true, if_false]
      have hr := diffExit_range ((vNews env t rootHist o false).map posix) (vMissing env t rootHist o)
      have hn := (diffExit_spec ((vNews env t rootHist o false).map posix) (vMissing env t rootHist o)).1
      generalize diffExit _ _ = x at hr hn
      simp only [List.mem_cons, List.not_mem_nil, or_false] at hr
      rcases hr with rfl | rfl | rfl
      · exact absurd (hn.1 rfl).1 hne
      · rw [errMissingFiles_eq]; decide
      · rw [errNewFiles_eq]; decide
    · simp only [if_true]
      have hr := verifyExit_range ((vMism env t rootHist o true).map posix) ((vNews env t rootHist o true).map posix)
        o.singleFile.isSome (vFoundSingle env t rootHist o true) (vMissing env t rootHist o)
      have hn := (verifyExit_spec ((vMism env t rootHist o true).map posix)
        ((vNews env t rootHist o true).map posix)
        o.singleFile.isSome (vFoundSingle env t rootHist o true) (vMissing env t rootHist o)).1
      generalize verifyExit _ _ _ _ _ = x at hr hn
      simp only [List.mem_cons, List.not_mem_nil, or_false] at hr
      rcases hr with rfl | rfl | rfl | rfl | rfl
      · exact absurd (hn.1 rfl).2.1 hne
      · rw [errVerifyFailed_eq]; decide
      · rw [errNewFiles_eq]; decide
      · rw [errSingleFileNotFound_eq]; decide
      · rw [errMissingFiles_eq]; decide

/-- an expected path that was not visited and is not ignored is reported missing, the exit code is not 0; it is 10
for diff, and for verify unless a mismatch / a new file / a single file not found takes precedence -/
theorem missing_complete (hl : loadHistory t = .ok rootHist) (hg : rootHist.gens ≠ []) (p : RelPath)
    (he : p ∈ expectedPaths rootHist) (hnv : ∀ d, (p, d) ∉ visiblePaths (vHit env rootHist o) t)
    (hh : hitAbove (vHit env rootHist o) p = false) :
    p ∈ vMissing env t rootHist o ∧
    posix p ∈ (verifyOrDiff env t o hashing none).report.missing ∧
    (verifyOrDiff env t o hashing none).exitCode ≠ 0 ∧
    (hashing = false → (verifyOrDiff env t o hashing none).exitCode = 10) ∧
    (hashing = true → vMism env t rootHist o hashing = [] → vNews env t rootHist o hashing = [] →
      ¬ (o.singleFile.isSome = true ∧ vFoundSingle env t rootHist o hashing = false) →
      (verifyOrDiff env t o hashing none).exitCode = 10) := by
  have hm : p ∈ vMissing env t rootHist o := (missing_iff env t o rootHist p).2 ⟨he, hnv, hh⟩
  have hne : vMissing env t rootHist o ≠ [] := fun hnil => by rw [hnil] at hm; cases hm
  refine ⟨hm, ?_, ?_, ?_, ?_⟩
  · rw [(report_shape env t o hashing rootHist hl hg).2.2.1]
    exact List.mem_map.2 ⟨p, hm, rfl⟩
  · unfold Outcome.exitCode
    rw [run_err env t o hashing rootHist hl hg]
    cases hashing
    · simp only [Bool.false_eq_true, if_false]
      rw [(diffExit_spec _ _).2.1.2 hne, errMissingFiles_eq]; decide
    · simp only [if_true]
      have hr := verifyExit_range ((vMism env t rootHist o true).map posix) ((vNews env t rootHist o true).map posix)
        o.singleFile.isSome (vFoundSingle env t rootHist o true) (vMissing env t rootHist o)
      have hn := (verifyExit_spec ((vMism env t rootHist o true).map posix)
        ((vNews env t rootHist o true).map posix)
        o.singleFile.isSome (vFoundSingle env t rootHist o true) (vMissing env t rootHist o)).1
      generalize verifyExit _ _ _ _ _ = x at hr hn
      simp only [List.mem_cons, List.not_mem_nil, or_false] at hr
      rcases hr with rfl | rfl | rfl | rfl | rfl
      · exact absurd (hn.1 rfl).2.2.2 hne
      · rw [errVerifyFailed_eq]; decide
      · rw [errNewFiles_eq]; decide
      · rw [errSingleFileNotFound_eq]; decide
      · rw [errMissingFiles_eq]; decide
  · intro hf
    apply exitCode_of_err
    rw [run_err env t o hashing rootHist hl hg, hf]
    simp only [Bool.false_eq_true, if_false]
    rw [(diffExit_spec _ _).2.1.2 hne, errMissingFiles_eq]
  · intro ht hmm hnn hsf
    subst ht
    apply exitCode_of_err
    rw [run_err env t o true rootHist hl hg]
    simp only [if_true]
    rw [← errMissingFiles_eq]
    refine (verifyExit_spec _ _ _ _ _).2.2.2.2.2 ⟨?_, ?_, hsf, hne⟩
    · rw [hmm]; rfl
    · rw [hnn]; rfl

/-- nothing to report ⇒ exit 0: no single file asked, every visible file judged ok, every expected path visited or
ignored -/
theorem clean_exit_zero (hl : loadHistory t = .ok rootHist) (hg : rootHist.gens ≠ [])
    (hsf : o.singleFile = none)
    (hok : ∀ p, (p, false) ∈ visiblePaths (vHit env rootHist o) t →
      judgeFile env t rootHist hashing p ≠ .mismatch ∧ judgeFile env t rootHist hashing p ≠ .new)
    (hexp : ∀ p ∈ expectedPaths rootHist,
      (∃ d, (p, d) ∈ visiblePaths (vHit env rootHist o) t) ∨ hitAbove (vHit env rootHist o) p = true) :
    (verifyOrDiff env t o hashing none).err = none ∧
    (verifyOrDiff env t o hashing none).exitCode = 0 ∧
    (verifyOrDiff env t o hashing none).report.mismatch = [] ∧
    (verifyOrDiff env t o hashing none).report.new = [] ∧
    (verifyOrDiff env t o hashing none).report.missing = [] := by
  have h1 : vMism env t rootHist o hashing = [] := by
    apply List.eq_nil_iff_forall_not_mem.2
    intro p hp
    have := (mism_iff env t o hashing rootHist p).1 hp
    exact (hok p this.1).1 this.2.2
  have h2 : vNews env t rootHist o hashing = [] := by
    apply List.eq_nil_iff_forall_not_mem.2
    intro p hp
    have := (news_iff env t o hashing rootHist p).1 hp
    exact (hok p this.1).2 this.2.2
  have h3 : vMissing env t rootHist o = [] := by
    apply List.eq_nil_iff_forall_not_mem.2
    intro p hp
    obtain ⟨he, hnv, hh⟩ := (missing_iff env t o rootHist p).1 hp
    rcases hexp p he with ⟨d, hd⟩ | hi
    · exact hnv d hd
    · rw [hh] at hi; exact Bool.noConfusion hi
  have herr : (verifyOrDiff env t o hashing none).err = none := by
    rw [run_err env t o hashing rootHist hl hg, h1, h2, h3, hsf]
    cases hashing
    · simp only [Bool.false_eq_true, if_false]
      exact (diffExit_spec _ _).1.2 ⟨rfl, rfl⟩
    · simp only [if_true]
      exact (verifyExit_spec _ _ _ _ _).1.2 ⟨rfl, rfl, fun h => by simp at h, rfl⟩
  obtain ⟨r1, r2, r3, -, -⟩ := report_shape env t o hashing rootHist hl hg
  refine ⟨herr, ?_, ?_, ?_, ?_⟩
  · unfold Outcome.exitCode; rw [herr]
  · rw [r1, h1]; rfl
  · rw [r2, h2]; rfl
  · rw [r3, h3]; rfl

/-! ### 5. ignored paths never cause a failure -/

/-- an ignored path is not among the missing ones; a path with an ignored prefix (itself included) is neither among
the new nor among the mismatching ones.  Since the report is the `posix` image of these lists (`report_shape`), no
reported text stems from an ignored path. -/
theorem ignored_irrelevant (p : RelPath) :
    (hitAbove (vHit env rootHist o) p = true → p ∉ vMissing env t rootHist o) ∧
    (∀ k, 0 < k → k ≤ p.length → vHit env rootHist o (p.take k) = true →
      p ∉ vNews env t rootHist o hashing ∧ p ∉ vMism env t rootHist o hashing) := by
  constructor
  · intro hh hm
    have := ((missing_iff env t o rootHist p).1 hm).2.2
    rw [hh] at this; exact Bool.noConfusion this
  · intro k hk0 hk hh
    have hnv := MhlProps.C02.ignored_nowhere (vHit env rootHist o) t p false k hk0 hk hh
    exact ⟨fun hm => hnv ((news_iff env t o hashing rootHist p).1 hm).1,
           fun hm => hnv ((mism_iff env t o hashing rootHist p).1 hm).1⟩

/-- in terms of the report: every reported text has a pre-image no part of which is ignored -/
theorem ignored_irrelevant_report (hl : loadHistory t = .ok rootHist) (hg : rootHist.gens ≠ []) (s : String) :
    (s ∈ (verifyOrDiff env t o hashing none).report.missing →
      ∃ p, s = posix p ∧ hitAbove (vHit env rootHist o) p = false) ∧
    (s ∈ (verifyOrDiff env t o hashing none).report.new ∨ s ∈ (verifyOrDiff env t o hashing none).report.mismatch →
      ∃ p, s = posix p ∧ ∀ k, 0 < k → k ≤ p.length → vHit env rootHist o (p.take k) = false) := by
  constructor
  · intro hs
    obtain ⟨p, rfl, -, -, hh⟩ := reported_missing_genuine env t o hashing rootHist hl hg s hs
    exact ⟨p, rfl, hh⟩
  · rintro (hs | hs)
    · obtain ⟨p, rfl, hv, -, -⟩ := reported_new_genuine env t o hashing rootHist hl hg s hs
      exact ⟨p, rfl, ((MhlProps.C02.visible_iff _ t p false).1 hv).2⟩
    · obtain ⟨p, rfl, hv, -, -⟩ := reported_mismatch_genuine env t o hashing rootHist hl hg s hs
      exact ⟨p, rfl, ((MhlProps.C02.visible_iff _ t p false).1 hv).2⟩

/-- making an ignored path vanish or appear changes nothing in what is missing: `missingAfter` only keeps paths the
matcher does not hit -/
theorem missingAfter_spec (hit : RelPath → Bool) (l : List RelPath) (p : RelPath) :
    p ∈ missingAfter hit l ↔ p ∈ l ∧ hitAbove hit p = false := mem_missingAfter hit l p

end run

/-! ### the two commands -/

/-- `verify` is the hashing run; `diff` the non-hashing run that ignores `-sf` -/
theorem verify_def (env : Env) (t : Node) (o : VerifyOpts) : verify env t o = verifyOrDiff env t o true none := rfl

theorem diff_def (env : Env) (t : Node) (o : VerifyOpts) :
    diff env t o = verifyOrDiff env t { o with singleFile := none } false none := rfl

/-- an altered recorded file: verify ends with 11 and names it -/
theorem verify_altered (env : Env) (t : Node) (o : VerifyOpts) (rootHist : Hist)
    (hl : loadHistory t = .ok rootHist) (hg : rootHist.gens ≠ []) (p : RelPath)
    (hv : (p, false) ∈ visiblePaths (vHit env rootHist o) t) (hsf : o.singleFile = none ∨ o.singleFile = some p)
    (e : Entry)
    (ho : findOriginal (route rootHist p).1.gens
      (recordedName (route rootHist p).1.gens (posix (route rootHist p).2)) = some e)
    (hd : env.H e.fmt (fileContent t p) ≠ e.digest) :
    (verify env t o).exitCode = 11 ∧ posix p ∈ (verify env t o).report.mismatch := by
  have hj : judgeFile env t rootHist true p = .mismatch :=
    (judgeFile_spec env t rootHist true p).2.1.2 ⟨rfl, e, ho, hd⟩
  have := mismatch_complete env t o true rootHist hl hg p hv hsf hj
  exact ⟨this.2.2.2, this.2.1⟩

/-- an unrecorded file: diff ends with 21 (10 if something is missing as well) and names it -/
theorem diff_unrecorded (env : Env) (t : Node) (o : VerifyOpts) (rootHist : Hist)
    (hl : loadHistory t = .ok rootHist) (hg : rootHist.gens ≠ []) (p : RelPath)
    (hv : (p, false) ∈ visiblePaths (vHit env rootHist o) t)
    (ho : findOriginal (route rootHist p).1.gens
      (recordedName (route rootHist p).1.gens (posix (route rootHist p).2)) = none) :
    posix p ∈ (diff env t o).report.new ∧ (diff env t o).exitCode ≠ 0 ∧
    (vMissing env t rootHist o = [] → (diff env t o).exitCode = 21) := by
  have hj : judgeFile env t rootHist false p = .new := (judgeFile_spec env t rootHist false p).1.2 ho
  have := new_complete env t { o with singleFile := none } false rootHist hl hg p hv (Or.inl rfl) hj
  exact ⟨this.2.1, this.2.2.2.2, fun hm => (this.2.2.2.1 rfl hm).2⟩

/-- a removed recorded entry: diff ends with 10 and names it -/
theorem diff_removed (env : Env) (t : Node) (o : VerifyOpts) (rootHist : Hist)
    (hl : loadHistory t = .ok rootHist) (hg : rootHist.gens ≠ []) (p : RelPath)
    (he : p ∈ expectedPaths rootHist) (hnv : ∀ d, (p, d) ∉ visiblePaths (vHit env rootHist o) t)
    (hh : hitAbove (vHit env rootHist o) p = false) :
    posix p ∈ (diff env t o).report.missing ∧ (diff env t o).exitCode = 10 := by
  have := missing_complete env t { o with singleFile := none } false rootHist hl hg p he hnv hh
  exact ⟨this.2.1, this.2.2.2.1 rfl⟩

/-- create (folder mode) with a failed verification ends with 11 whatever else is wrong; with files missing and no
failure, 10 -/
theorem create_failed_11 (failed : Nat) (missing missingHist : List RelPath) (h : 0 < failed) :
    createExit failed missing missingHist = some (.exit 11) := by
  rw [← errVerifyFailed_eq]; exact (createExit_spec _ _ _).2.1.2 h

theorem create_missing_10 (missing missingHist : List RelPath) (h : missing ≠ []) :
    createExit 0 missing missingHist = some (.exit 10) := by
  rw [← errMissingFiles_eq]; exact (createExit_spec _ _ _).2.2.1.2 ⟨rfl, h⟩

/-! ### non-vacuity -/

def exH : HashFn := fun f c => f ++ ":" ++ toString c.length
def exHit : Matcher := fun pats p => p.any fun s => pats.contains s

def exEnv : Env := { H := exH, D := fun _ _ => some [], hit := exHit, rootName := "root" }

/-- generation 1 records `a.txt` (1 byte), `gone.txt` and the ignored `skip.tmp`; it carries the pattern `skip.tmp` -/
def exGen : Generation :=
  { fileName := "0001_root_2020-01-01_000000Z.mhl", ignore := ["skip.tmp"],
    records := [ { path := "a.txt", entries := [{ fmt := "md5", digest := "md5:1", action := "original" }] },
                 { path := "gone.txt", entries := [{ fmt := "md5", digest := "md5:0", action := "original" }] },
                 { path := "skip.tmp", entries := [{ fmt := "md5", digest := "md5:0", action := "original" }] } ] }

def exStore : HistStore := { gens := [exGen], chain := [⟨1, exGen.fileName⟩] }

/-- unchanged: `a.txt` as recorded, `gone.txt` still there -/
def exClean : Node := .dir "root" [.file "a.txt" [7], .file "gone.txt" []] (some exStore)

/-- `a.txt` altered (2 bytes), `gone.txt` removed, `extra.txt` added, the ignored `skip.tmp` absent -/
def exDirty : Node := .dir "root" [.file "a.txt" [7, 8], .file "extra.txt" [1]] (some exStore)

def exHist : Hist := .mk [] [⟨1, exGen⟩] exStore.chain true []

theorem ex_load_clean : loadHistory exClean = .ok exHist := by rfl
theorem ex_load_dirty : loadHistory exDirty = .ok exHist := by rfl
theorem ex_gens : exHist.gens ≠ [] := by decide

/-- `String.splitOn` is defined by well-founded recursion and does not reduce; unrolled by hand for the three names -/
theorem ex_split_a : splitPath "a.txt" = ["a.txt"] := by
  simp only [splitPath, String.splitOn, show ("/" == "") = false by decide,
    show ("a.txt" == ".") = false by decide, Bool.false_eq_true, if_false]
  iterate 6 (rw [String.splitOnAux]; simp (decide := true) only [if_true, if_false])

theorem ex_split_gone : splitPath "gone.txt" = ["gone.txt"] := by
  simp only [splitPath, String.splitOn, show ("/" == "") = false by decide,
    show ("gone.txt" == ".") = false by decide, Bool.false_eq_true, if_false]
  iterate 9 (rw [String.splitOnAux]; simp (decide := true) only [if_true, if_false])

theorem ex_split_skip : splitPath "skip.tmp" = ["skip.tmp"] := by
  simp only [splitPath, String.splitOn, show ("/" == "") = false by decide,
    show ("skip.tmp" == ".") = false by decide, Bool.false_eq_true, if_false]
  iterate 9 (rw [String.splitOnAux]; simp (decide := true) only [if_true, if_false])

theorem ex_expected : expectedPaths exHist = [["a.txt"], ["gone.txt"], ["skip.tmp"]] := by
  simp only [expectedPaths, exHist, allDescendants, descList, expectedOfGens, exGen, Hist.root, Hist.gens,
    List.foldl, List.filterMap, Option.map, List.nil_append, ex_split_a, ex_split_gone, ex_split_skip]
  decide

theorem ex_missing_clean : vMissing exEnv exClean exHist {} = [] := by
  unfold vMissing; rw [ex_expected]; decide

theorem ex_missing_dirty : vMissing exEnv exDirty exHist {} = [["gone.txt"]] := by
  unfold vMissing; rw [ex_expected]; decide

/-- the clean tree: verify and diff end with 0 and report nothing -/
example : (verify exEnv exClean {}).exitCode = 0 ∧ (diff exEnv exClean {}).exitCode = 0 ∧
    (verify exEnv exClean {}).report.missing = [] ∧ (verify exEnv exClean {}).report.new = [] := by
  have hd : diff exEnv exClean {} = verifyOrDiff exEnv exClean {} false none := rfl
  rw [hd, verify_def, verifyOrDiff_eq _ _ _ _ exHist ex_load_clean ex_gens,
    verifyOrDiff_eq _ _ _ _ exHist ex_load_clean ex_gens, ex_missing_clean]
  decide

/-- the dirty tree: verify says 11 and names all three discrepancies, diff says 10; `skip.tmp` is nowhere -/
example : (verify exEnv exDirty {}).exitCode = 11 ∧
    (verify exEnv exDirty {}).report.mismatch = ["a.txt"] ∧
    (verify exEnv exDirty {}).report.new = ["extra.txt"] ∧
    (verify exEnv exDirty {}).report.missing = ["gone.txt"] ∧
    (diff exEnv exDirty {}).exitCode = 10 ∧
    (diff exEnv exDirty {}).report.mismatch = [] := by
  have hd : diff exEnv exDirty {} = verifyOrDiff exEnv exDirty {} false none := rfl
  rw [hd, verify_def, verifyOrDiff_eq _ _ _ _ exHist ex_load_dirty ex_gens,
    verifyOrDiff_eq _ _ _ _ exHist ex_load_dirty ex_gens, ex_missing_dirty]
  decide

/-- the hypotheses of `mismatch_complete`, `new_complete`, `missing_complete`, `ignored_irrelevant` hold for these
paths of the dirty tree -/
example : (["a.txt"], false) ∈ visiblePaths (vHit exEnv exHist {}) exDirty ∧
    judgeFile exEnv exDirty exHist true ["a.txt"] = .mismatch ∧
    (["extra.txt"], false) ∈ visiblePaths (vHit exEnv exHist {}) exDirty ∧
    judgeFile exEnv exDirty exHist true ["extra.txt"] = .new ∧
    (["gone.txt"] : RelPath) ∈ expectedPaths exHist ∧
    (∀ d, ((["gone.txt"] : RelPath), d) ∉ visiblePaths (vHit exEnv exHist {}) exDirty) ∧
    vHit exEnv exHist {} ["gone.txt"] = false ∧
    vHit exEnv exHist {} ["skip.tmp"] = true ∧ (["skip.tmp"] : RelPath) ∈ expectedPaths exHist := by
  rw [ex_expected]
  decide

/-- the conclusions, obtained through the theorems -/
example : (verify exEnv exDirty {}).exitCode = 11 ∧ "a.txt" ∈ (verify exEnv exDirty {}).report.mismatch :=
  verify_altered exEnv exDirty {} exHist ex_load_dirty ex_gens ["a.txt"] (by decide) (Or.inl rfl)
    { fmt := "md5", digest := "md5:1", action := "original" } (by decide) (by decide)

example : "gone.txt" ∈ (diff exEnv exDirty {}).report.missing ∧ (diff exEnv exDirty {}).exitCode = 10 :=
  diff_removed exEnv exDirty {} exHist ex_load_dirty ex_gens ["gone.txt"]
    (by rw [ex_expected]; decide) (by decide) (by decide)

/-- the hypotheses of `clean_exit_zero` hold for the clean tree -/
example : (∀ p, (p, false) ∈ visiblePaths (vHit exEnv exHist {}) exClean →
      judgeFile exEnv exClean exHist true p ≠ .mismatch ∧ judgeFile exEnv exClean exHist true p ≠ .new) ∧
    (∀ p ∈ expectedPaths exHist,
      (∃ d, (p, d) ∈ visiblePaths (vHit exEnv exHist {}) exClean) ∨ vHit exEnv exHist {} p = true) := by
  have hv : visiblePaths (vHit exEnv exHist {}) exClean = [(["a.txt"], false), (["gone.txt"], false)] := by decide
  rw [hv, ex_expected]
  refine ⟨?_, ?_⟩
  · intro p hp
    simp only [List.mem_cons, Prod.mk.injEq, and_true, List.not_mem_nil, or_false] at hp
    rcases hp with rfl | rfl <;> decide
  · intro p hp
    simp only [List.mem_cons, List.not_mem_nil, or_false] at hp
    rcases hp with rfl | rfl | rfl
    · exact Or.inl ⟨false, by decide⟩
    · exact Or.inl ⟨false, by decide⟩
    · exact Or.inr (by decide)

/-- single file asked but only a new file found ⇒ 21; asked and nothing there ⇒ 20 -/
example : verifyExit [] [] true false [["x"]] = some (.exit 20) ∧ verifyExit [] ["n"] true false [["x"]] = some (.exit 21) ∧
    verifyExit [] [] false false [["x"]] = some (.exit 10) ∧ diffExit ["n"] [["x"]] = some (.exit 10) ∧
    createExit 1 [["x"]] [["h"]] = some (.exit 11) ∧ createExit 0 [] [["h"]] = some (.exit 30) := by decide

end MhlProps.C03
