/-
CrashRun — the known finding D6b is accepted only behind the hashing phase.

About `MhlModel/CrashRun.lean`: a whole `create` run as events (`Ev.read` for every media file hashed, `Ev.fs` for the
operations of the commit), the crash points of such a run, and `knownWindow` - the signature under which the harness
accepts the known finding D6b (first-ever create killed inside its commit window: the `ascmhl` folder exists without
chain file, exit 32): the state refuses AND the run reads no media file any more.

* the run as the code performs it (`runEvents`: hash, then commit): the disk is untouched while it reads, no read
  follows the first operation, and EVERY refusing crash point lies in the known window (3);
* the seeded change "make the ascmhl folders first, then hash" (`eagerRunEvents`): a refusing crash point OUTSIDE the
  known window exists as soon as there is one media file (4) - in fact the whole hashing phase is such (4');
* both orders perform the same operations and end in the same disk state (5): only the crash enumeration sees it.
-/
import MhlProps.C15
import MhlProps.Proofs.CrashRunLemmas

namespace MhlProps.CrashRun
open MhlModel.Crash MhlProps.CrashLemmas MhlProps.CrashRunLemmas MhlProps.C15

/-! ### 0. the model-level split of `c.ops` -/

/-- `c.ops` is the mkdir part followed by the rest -/
theorem ops_eq_mkdirPart_rest (c : HistCommit) : c.ops = c.mkdirPart ++ c.rest := by
  simp [HistCommit.ops, HistCommit.mkdirPart, HistCommit.rest]

/-- the model-level `mkdirPart` is the `mkdirOps` of the C15 proofs -/
theorem mkdirPart_eq_mkdirOps (c : HistCommit) : c.mkdirPart = mkdirOps c := rfl

/-- … and `rest` is what C15's `ops_eq` puts behind it -/
theorem rest_eq (c : HistCommit) : c.rest = .create (C15.mt c) :: manifestTail c := by
  simp [HistCommit.rest, manifestTail, chainTail, C15.mt, mp, ct, cp]

theorem mkdirPart_of_first {c : HistCommit} (hex : c.folderExists = false) : c.mkdirPart = [.mkdir c.folder] := by
  simp [HistCommit.mkdirPart, hex]

/-- the crash points are exactly the pairs (k, operations performed by the first k events), k ≤ number of events -/
theorem mem_crashPoints (evs : List Ev) (k : Nat) (ops : List Op) :
    (k, ops) ∈ crashPoints evs ↔ k ≤ evs.length ∧ ops = evOps (evs.take k) := by
  simp only [crashPoints, List.mem_map, List.mem_range, Prod.mk.injEq]
  constructor
  · rintro ⟨a, ha, rfl, rfl⟩; exact ⟨by omega, rfl⟩
  · rintro ⟨hk, rfl⟩; exact ⟨k, by omega, rfl, rfl⟩

/-! ### 1. the operations of the run; nothing happens to the disk while it reads -/

/-- 1a. the file-system operations of the run are exactly those of the commit -/
theorem evOps_runEvents (reads : List String) (cs : List HistCommit) :
    evOps (runEvents reads cs) = createOps cs := by
  simp [runEvents, evOps_append]

/-- 1b. while the run only reads, no operation has been performed -/
theorem evOps_take_reads (reads : List String) (cs : List HistCommit) {k : Nat} (hk : k ≤ reads.length) :
    evOps ((runEvents reads cs).take k) = [] := by
  unfold runEvents
  rw [List.take_append_of_le_length (by simpa using hk), ← List.map_take]
  exact evOps_map_read _

/-- 1b'. … so the disk is the one the run started with -/
theorem disk_unchanged_while_reading (fs : Fs) (reads : List String) (cs : List HistCommit) {k : Nat}
    (hk : k ≤ reads.length) : applyOps fs (evOps ((runEvents reads cs).take k)) = fs := by
  rw [evOps_take_reads reads cs hk]; rfl

/-- 1c. behind the hashing phase the operations performed are a prefix of the commit's: the crash points of the run
are the whole-prefix crash states of `createOps cs` -/
theorem evOps_take_after_reads (reads : List String) (cs : List HistCommit) (j : Nat) :
    evOps ((runEvents reads cs).take (reads.length + j)) = (createOps cs).take j := by
  unfold runEvents
  rw [List.take_append, evOps_append]
  simp [← List.map_take]

/-- 1d. every crash point of the run leaves a crash state of the commit (in the sense of `crashStates`) -/
theorem run_crash_point_mem_crashStates (fs : Fs) (reads : List String) (cs : List HistCommit) (k : Nat) :
    applyOps fs (evOps ((runEvents reads cs).take k)) ∈ crashStates fs (createOps cs) := by
  by_cases hk : k ≤ reads.length
  · rw [disk_unchanged_while_reading fs reads cs hk]; exact self_mem_crashStates _ _
  · obtain ⟨j, rfl⟩ : ∃ j, k = reads.length + j := ⟨k - reads.length, by omega⟩
    rw [evOps_take_after_reads]
    have h2 : crashStates fs (createOps cs) = crashStates fs ((createOps cs).take j ++ (createOps cs).drop j) := by
      rw [List.take_append_drop]
    rw [h2, mem_crashStates_append]
    right
    exact self_mem_crashStates _ _

/-! ### 2. where the reads are -/

/-- 2a. EXACTLY: a read is still to come iff the kill is before the last media file was opened -/
theorem run_readsAfter_iff (reads : List String) (cs : List HistCommit) (k : Nat) :
    readsAfter (runEvents reads cs) k = true ↔ k < reads.length := by
  unfold runEvents
  rw [readsAfter_append, readsAfter_map_fs, Bool.or_false, readsAfter_map_read]

/-- 2b. once the first operation has been performed (indeed: once the last media file was opened) no read follows -/
theorem run_no_read_after_first_op (reads : List String) (cs : List HistCommit) {k : Nat} (hk : k > reads.length) :
    readsAfter (runEvents reads cs) k = false := by
  rw [← Bool.not_eq_true, run_readsAfter_iff]; omega

/-- 2b'. the same at the boundary: with all media read and nothing written yet, no read follows either -/
theorem run_no_read_after_hashing (reads : List String) (cs : List HistCommit) {k : Nat} (hk : k ≥ reads.length) :
    readsAfter (runEvents reads cs) k = false := by
  rw [← Bool.not_eq_true, run_readsAfter_iff]; omega

/-- 2c. during the hashing phase a read is still to come -/
theorem run_read_follows_while_reading (reads : List String) (cs : List HistCommit) {k : Nat}
    (hk : k < reads.length) : readsAfter (runEvents reads cs) k = true :=
  (run_readsAfter_iff reads cs k).2 hk

/-! ### 3. the run as the code performs it: refusal only inside the known window -/

/-- 3 (general form). If the disk the run starts with does not refuse for `folder`, every refusing crash point of
the run - whatever it commits - lies in the known window.  The only hypothesis needed is the one on the start state:
while only reads have happened the disk is `fs` itself. -/
theorem run_refusal_only_in_known_window_of_start (fs : Fs) (reads : List String) (cs : List HistCommit)
    (folder : String) (hstart : refuses32 fs folder = false) (k : Nat)
    (href : refuses32 (applyOps fs (evOps ((runEvents reads cs).take k))) folder = true) :
    knownWindow (runEvents reads cs) k fs folder = true := by
  by_cases hk : k ≤ reads.length
  · rw [disk_unchanged_while_reading fs reads cs hk, hstart] at href
    cases href
  · unfold knownWindow
    rw [href, run_no_read_after_first_op reads cs (by omega)]; rfl

/-- 3. the first-ever commit (the `ascmhl` folder is not there: `c.folder ∉ fs.dirs` - this is what makes the start
state not refuse; `c.folderExists = false` and the missing chain file are the hypotheses of `first_create_window`,
kept so that the statement speaks about exactly that situation, but they are not used): every crash point of the run
whose disk state refuses with 32 lies in the known window -/
theorem run_refusal_only_in_known_window (fs : Fs) (reads : List String) (c : HistCommit)
    (_hex : c.folderExists = false) (_hnone : fsGet fs (cp c) = none) (hdir : c.folder ∉ fs.dirs) (k : Nat)
    (href : refuses32 (applyOps fs (evOps ((runEvents reads [c]).take k))) c.folder = true) :
    knownWindow (runEvents reads [c]) k fs c.folder = true := by
  refine run_refusal_only_in_known_window_of_start fs reads [c] c.folder ?_ k href
  rw [← Bool.not_eq_true, refuses32_iff]
  exact fun h => hdir h.1

/-- 3'. the extra hypothesis `c.folder ∉ fs.dirs` cannot be dropped: with a folder left behind by an earlier killed
first create the start state itself refuses, while reads are still to come -/
theorem run_refusal_needs_fresh_folder :
    ∃ (fs : Fs) (reads : List String) (c : HistCommit) (k : Nat),
      c.folderExists = false ∧ fsGet fs (cp c) = none ∧
      refuses32 (applyOps fs (evOps ((runEvents reads [c]).take k))) c.folder = true ∧
      knownWindow (runEvents reads [c]) k fs c.folder = false :=
  ⟨{ files := [], dirs := ["a/"] }, ["x.mov"],
    { folder := "a/", folderExists := false, manifestName := "1.mhl", manifestChunks := [], chainChunks := [] }, 0,
    by decide⟩

/-- 3''. the known window is not empty: for the run as the code performs it the point right behind the mkdir is in
it (the `first_create_window` state, now with the information that nothing is read any more) -/
theorem run_known_window_nonempty (fs : Fs) (reads : List String) (c : HistCommit)
    (hex : c.folderExists = false) (hnone : fsGet fs (cp c) = none) :
    knownWindow (runEvents reads [c]) (reads.length + 1) fs c.folder = true := by
  unfold knownWindow
  rw [run_no_read_after_first_op reads [c] (by omega), evOps_take_after_reads, createOps_cons, createOps_nil,
    List.append_nil, ops_eq_mkdirPart_rest, mkdirPart_of_first hex]
  simp only [List.singleton_append, List.take_succ_cons, List.take_zero, applyOps_cons, applyOps_nil,
    Bool.not_false, Bool.and_true]
  rw [refuses32_iff]
  exact ⟨mem_dirs_mkdir _ _, by rw [fsGet_mkdir]; exact hnone⟩

/-! ### 4. the seeded variant: a refusing crash point outside the known window -/

/-- the operations of the seeded variant are those of the commit -/
theorem evOps_eagerRunEvents (reads : List String) (c : HistCommit) : evOps (eagerRunEvents reads c) = c.ops := by
  simp [eagerRunEvents, evOps_append, ops_eq_mkdirPart_rest]

/-- inside the hashing phase of the seeded variant exactly the mkdir part has been performed -/
theorem evOps_take_eager_hashing (reads : List String) (c : HistCommit) {j : Nat} (hj : j ≤ reads.length) :
    evOps ((eagerRunEvents reads c).take (c.mkdirPart.length + j)) = c.mkdirPart := by
  unfold eagerRunEvents
  rw [List.append_assoc, List.take_append, evOps_append]
  simp only [List.length_map, Nat.le_add_right, List.take_of_length_le, evOps_map_fs, Nat.add_sub_cancel_left]
  rw [List.take_append_of_le_length (by simpa using hj), ← List.map_take, evOps_map_read, List.append_nil]

/-- 4' (the whole widened window). In the seeded variant EVERY crash point inside the hashing phase - behind the
mkdir, before the last media file was opened - refuses with 32 and is outside the known window -/
theorem eager_hashing_phase_outside_known_window (fs : Fs) (reads : List String) (c : HistCommit)
    (hex : c.folderExists = false) (hnone : fsGet fs (cp c) = none) {j : Nat} (hj : j < reads.length) :
    refuses32 (applyOps fs (evOps ((eagerRunEvents reads c).take (1 + j)))) c.folder = true ∧
    readsAfter (eagerRunEvents reads c) (1 + j) = true ∧
    knownWindow (eagerRunEvents reads c) (1 + j) fs c.folder = false := by
  have hlen : c.mkdirPart.length = 1 := by rw [mkdirPart_of_first hex]; rfl
  have hops : evOps ((eagerRunEvents reads c).take (1 + j)) = [.mkdir c.folder] := by
    rw [← hlen, evOps_take_eager_hashing reads c (Nat.le_of_lt hj), mkdirPart_of_first hex]
  have hread : readsAfter (eagerRunEvents reads c) (1 + j) = true := by
    unfold eagerRunEvents
    rw [readsAfter_append, readsAfter_append, readsAfter_map_fs, Bool.false_or, Bool.or_eq_true]
    left
    rw [readsAfter_map_read]
    simp only [List.length_map, hlen]; omega
  have href : refuses32 (applyOps fs (evOps ((eagerRunEvents reads c).take (1 + j)))) c.folder = true := by
    rw [hops, applyOps_cons, applyOps_nil, refuses32_iff]
    exact ⟨mem_dirs_mkdir _ _, by rw [fsGet_mkdir]; exact hnone⟩
  refine ⟨href, hread, ?_⟩
  unfold knownWindow
  rw [href, hread]; rfl

/-- 4. for the seeded variant with at least one media file there is a crash point (right behind the mkdir) whose state
refuses with 32 and which is NOT covered by the known finding -/
theorem eager_refusal_outside_known_window (fs : Fs) (reads : List String) (c : HistCommit)
    (hreads : reads ≠ []) (hex : c.folderExists = false) (hnone : fsGet fs (cp c) = none) :
    ∃ k, k ≤ (eagerRunEvents reads c).length ∧
      refuses32 (applyOps fs (evOps ((eagerRunEvents reads c).take k))) c.folder = true ∧
      knownWindow (eagerRunEvents reads c) k fs c.folder = false := by
  have hpos : 0 < reads.length := List.length_pos_iff.2 hreads
  obtain ⟨h1, _, h3⟩ := eager_hashing_phase_outside_known_window fs reads c hex hnone hpos
  refine ⟨1 + 0, ?_, h1, h3⟩
  simp [eagerRunEvents, mkdirPart_of_first hex]

/-- 4''. the contrast, in one statement: same start, same commit, same media - the code's order has no refusing crash
point outside the known window, the seeded order has one -/
theorem orders_differ_only_in_crash_points (fs : Fs) (reads : List String) (c : HistCommit)
    (hreads : reads ≠ []) (hex : c.folderExists = false) (hnone : fsGet fs (cp c) = none)
    (hdir : c.folder ∉ fs.dirs) :
    (∀ k, refuses32 (applyOps fs (evOps ((runEvents reads [c]).take k))) c.folder = true →
        knownWindow (runEvents reads [c]) k fs c.folder = true) ∧
    (∃ k, refuses32 (applyOps fs (evOps ((eagerRunEvents reads c).take k))) c.folder = true ∧
        knownWindow (eagerRunEvents reads c) k fs c.folder = false) ∧
    applyOps fs (evOps (eagerRunEvents reads c)) = applyOps fs (evOps (runEvents reads [c])) := by
  refine ⟨fun k => run_refusal_only_in_known_window fs reads c hex hnone hdir k, ?_, ?_⟩
  · obtain ⟨k, _, h⟩ := eager_refusal_outside_known_window fs reads c hreads hex hnone
    exact ⟨k, h⟩
  · rw [evOps_eagerRunEvents, evOps_runEvents, createOps_cons, createOps_nil, List.append_nil]

/-! ### 5. both orders end in the same disk state -/

/-- 5. the variant is indistinguishable for a run that completes -/
theorem eager_same_final_state (fs : Fs) (reads : List String) (c : HistCommit) :
    applyOps fs (evOps (eagerRunEvents reads c)) = applyOps fs c.ops := by
  rw [evOps_eagerRunEvents]

/-- 5'. … and equal to the final state of the run as the code performs it -/
theorem eager_same_final_state_as_run (fs : Fs) (reads : List String) (c : HistCommit) :
    applyOps fs (evOps (eagerRunEvents reads c)) = applyOps fs (evOps (runEvents reads [c])) := by
  rw [evOps_eagerRunEvents, evOps_runEvents, createOps_cons, createOps_nil, List.append_nil]

/-- 5''. same number of events, same reads: nothing but the order differs -/
theorem eager_length (reads : List String) (c : HistCommit) :
    (eagerRunEvents reads c).length = (runEvents reads [c]).length := by
  simp [eagerRunEvents, runEvents, createOps_cons, createOps_nil, ops_eq_mkdirPart_rest]
  omega

/-! ### 6. a concrete run: first create in "a/", two media files -/

section examples

def exC : HistCommit :=
  { folder := "a/", folderExists := false, manifestName := "1.mhl",
    manifestChunks := [[1, 2], [3]], chainChunks := [[7]] }
def exFs : Fs := { files := [("x.mov", [42]), ("y.mov", [43])], dirs := [] }
def exReads : List String := ["x.mov", "y.mov"]

/-- (k, refuses32, knownWindow) for every crash point -/
def exTable (evs : List Ev) : List (Nat × Bool × Bool) :=
  (crashPoints evs).map fun (k, ops) => (k, refuses32 (applyOps exFs ops) "a/", knownWindow evs k exFs "a/")

/-- the crash points of the run as the code performs it: 2 reads, then the 8 operations -/
example : (crashPoints (runEvents exReads [exC])).map (fun p => (p.1, p.2.length)) =
    [(0, 0), (1, 0), (2, 0), (3, 1), (4, 2), (5, 3), (6, 4), (7, 5), (8, 6), (9, 7), (10, 8)] := by decide

/-- the code's order: nothing refuses while it reads (k = 0, 1, 2); behind the mkdir (k = 3) up to the last operation
but one (k = 9) the state refuses and every such point is in the known window; the completed run (k = 10) is fine -/
example : exTable (runEvents exReads [exC]) =
    [(0, false, false), (1, false, false), (2, false, false),
     (3, true, true), (4, true, true), (5, true, true), (6, true, true), (7, true, true), (8, true, true),
     (9, true, true),
     (10, false, false)] := by decide

/-- the seeded order: mkdir (k = 1), then the reads: k = 1 and k = 2 refuse OUTSIDE the known window (a read is still
to come); from k = 3 on (all media read) the points are inside it again -/
example : exTable (eagerRunEvents exReads exC) =
    [(0, false, false),
     (1, true, false), (2, true, false),
     (3, true, true), (4, true, true), (5, true, true), (6, true, true), (7, true, true), (8, true, true),
     (9, true, true),
     (10, false, false)] := by decide

/-- refusing but not in the known window: none in the code's order, two in the seeded order -/
example : ((exTable (runEvents exReads [exC])).filter fun r => r.2.1 && !r.2.2).map (·.1) = [] := by decide
example : ((exTable (eagerRunEvents exReads exC)).filter fun r => r.2.1 && !r.2.2).map (·.1) = [1, 2] := by decide

/-- both end in the same state -/
example : applyOps exFs (evOps (eagerRunEvents exReads exC)) = applyOps exFs (evOps (runEvents exReads [exC])) := by
  decide

end examples

end MhlProps.CrashRun
