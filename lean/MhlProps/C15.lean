/-
C15 — An interrupted `create` never damages what was already recorded.

About `MhlModel/Crash.lean`: the write protocol of one history's commit (`HistCommit.ops`: manifest written to
`<name>.tmp`, atomically replaced into place, then the chain written to `ascmhl_chain.xml.tmp`, atomically replaced),
of a whole `create` (`createOps`, children before parents) and the states a kill can leave (`crashStates`: every
prefix of the operations, the last write possibly torn at any byte).

Trusted base (of the model): kill, not power loss; `os.replace` is atomic.
-/
import MhlProps.Proofs.CrashLemmas

namespace MhlProps.C15
open MhlModel.Crash MhlProps.CrashLemmas

/-! ### the four paths of one history's commit -/

/-- the manifest -/
def mp (c : HistCommit) : String := c.folder ++ c.manifestName
/-- the chain file -/
def cp (c : HistCommit) : String := c.folder ++ chainName
/-- the manifest's temporary -/
def mt (c : HistCommit) : String := c.folder ++ c.manifestName ++ ".tmp"
/-- the chain's temporary -/
def ct (c : HistCommit) : String := c.folder ++ chainName ++ ".tmp"
/-- the complete bytes of the new manifest -/
def newManifest (c : HistCommit) : Bytes := c.manifestChunks.flatten
/-- the complete bytes of the new chain file -/
def newChain (c : HistCommit) : Bytes := c.chainChunks.flatten

def mkdirOps (c : HistCommit) : List Op := if c.folderExists then [] else [.mkdir c.folder]
def chainTail (c : HistCommit) : List Op :=
  c.chainChunks.map (Op.write (ct c)) ++ [.replace (ct c) (cp c)]
def manifestTail (c : HistCommit) : List Op :=
  c.manifestChunks.map (Op.write (mt c)) ++ (.replace (mt c) (mp c) :: .create (ct c) :: chainTail c)

theorem ops_eq (c : HistCommit) : c.ops = mkdirOps c ++ (.create (mt c) :: manifestTail c) := by
  simp [HistCommit.ops, mkdirOps, manifestTail, chainTail, mt, mp, ct, cp]

/-- the four paths are pairwise distinct -/
structure Distinct (c : HistCommit) : Prop where
  mp_cp : mp c ≠ cp c
  mp_mt : mp c ≠ mt c
  mp_ct : mp c ≠ ct c
  cp_mt : cp c ≠ mt c
  cp_ct : cp c ≠ ct c
  mt_ct : mt c ≠ ct c

/-- distinctness follows from conditions on the manifest's NAME: it is not the chain's name and does not end
in ".tmp" -/
theorem distinct_of_names (c : HistCommit) (h1 : c.manifestName ≠ chainName)
    (h2 : c.manifestName.endsWith ".tmp" = false) : Distinct c := by
  have h2' : c.manifestName ≠ chainName ++ ".tmp" := by
    intro h
    have : c.manifestName.endsWith ".tmp" = true := by
      rw [endsWith_iff_suffix, h, String.toList_append]; exact List.suffix_append _ _
    rw [h2] at this; exact Bool.noConfusion this
  refine ⟨?_, ?_, ?_, ?_, ?_, ?_⟩
  · intro h; exact h1 ((String.append_right_inj _).1 h)
  · exact ne_append_tmp _
  · intro h
    unfold mp ct at h
    rw [String.append_assoc] at h
    exact h2' ((String.append_right_inj _).1 h)
  · intro h
    unfold cp mt at h
    rw [String.append_assoc] at h
    exact tmp_ne_chainName _ ((String.append_right_inj _).1 h).symm
  · exact ne_append_tmp _
  · intro h
    exact h1 ((String.append_right_inj _).1 ((String.append_left_inj _).1 h))

/-- in particular every real manifest name (`NNNN_…​.mhl`) gives distinct paths -/
theorem distinct_of_mhl_name (c : HistCommit) (h : c.manifestName.endsWith ".mhl" = true) : Distinct c := by
  rw [endsWith_iff_suffix] at h
  apply distinct_of_names
  · intro he
    rw [he] at h
    revert h; decide
  · rw [← Bool.not_eq_true, endsWith_iff_suffix]
    intro h'
    have := (List.suffix_of_suffix_length_le h h' (by decide)).eq_of_length (by decide)
    revert this; decide

/-- well-formed commit, stale temporaries of an earlier crash ALLOWED: distinct paths, fresh manifest name, the
folder is there if the commit says so -/
structure WfStale (fs : Fs) (c : HistCommit) : Prop where
  distinct : Distinct c
  mp_fresh : fsGet fs (mp c) = none
  dir : c.folderExists = true → c.folder ∈ fs.dirs

/-- well-formed commit on a clean folder: additionally no stale temporaries -/
structure WfCommit (fs : Fs) (c : HistCommit) : Prop extends WfStale fs c where
  mt_fresh : fsGet fs (mt c) = none
  ct_fresh : fsGet fs (ct c) = none

/-! ### the five phases of a commit, as views -/

/-- manifest temporary holds `x` -/
def vB (fs : Fs) (c : HistCommit) (x : Bytes) : String → Option Bytes := upd (fsGet fs) (mt c) (some x)
/-- manifest in place, its temporary gone -/
def vC (fs : Fs) (c : HistCommit) : String → Option Bytes :=
  upd (upd (fsGet fs) (mt c) none) (mp c) (some (newManifest c))
/-- manifest in place, chain temporary holds `y` -/
def vD (fs : Fs) (c : HistCommit) (y : Bytes) : String → Option Bytes := upd (vC fs c) (ct c) (some y)
/-- everything in place, no temporaries -/
def vE (fs : Fs) (c : HistCommit) : String → Option Bytes :=
  upd (upd (vC fs c) (ct c) none) (cp c) (some (newChain c))

/-- EXACT description of what a kill can leave (as far as `fsGet` and the folder's existence go) -/
inductive Phase (fs : Fs) (c : HistCommit) (st : Fs) : Prop
  /-- nothing written yet (the folder may have been made) -/
  | start : fsGet st = fsGet fs → Phase fs c st
  /-- the manifest's temporary holds a prefix of the manifest -/
  | manifestTmp (x : Bytes) : x <+: newManifest c → c.folder ∈ st.dirs → fsGet st = vB fs c x → Phase fs c st
  /-- the manifest is in place, the chain untouched -/
  | manifestDone : c.folder ∈ st.dirs → fsGet st = vC fs c → Phase fs c st
  /-- the manifest is in place, the chain's temporary holds a prefix of the new chain, the chain untouched -/
  | chainTmp (y : Bytes) : y <+: newChain c → c.folder ∈ st.dirs → fsGet st = vD fs c y → Phase fs c st
  /-- the commit is complete -/
  | done : c.folder ∈ st.dirs → fsGet st = vE fs c → Phase fs c st

theorem not_mem_torn_create {s st : Fs} {p : String} : st ∉ torn s (.create p) := by simp [torn]
theorem not_mem_torn_replace {s st : Fs} {p q : String} : st ∉ torn s (.replace p q) := by simp [torn]

theorem phase_chainTail {fs s st : Fs} {c : HistCommit} (hd : c.folder ∈ s.dirs) (hv : fsGet s = vD fs c [])
    (hst : st ∈ crashStates s (chainTail c)) : Phase fs c st := by
  have hx : fsGet s (ct c) = some [] := by rw [hv]; simp [vD]
  rw [chainTail, mem_crashStates_append] at hst
  rcases hst with hw | hst
  · obtain ⟨y, hy, hvy⟩ := writes_crash _ hx hw
    refine .chainTmp y hy (mem_dirs_crash hw hd) ?_
    rw [hvy, hv]; simp [vD]
  · have hv5 : fsGet (applyOps s (c.chainChunks.map (Op.write (ct c)))) = vD fs c (newChain c) := by
      rw [writes_final _ hx, hv]; simp [vD, newChain]
    have hd5 := mem_dirs_applyOps (c.chainChunks.map (Op.write (ct c))) hd
    rw [mem_crashStates_cons] at hst
    rcases hst with rfl | ht | hst
    · exact .chainTmp _ (List.prefix_refl _) hd5 hv5
    · exact absurd ht not_mem_torn_replace
    · simp only [crashStates_nil, List.mem_singleton] at hst
      subst hst
      refine .done (mem_dirs_applyOp _ hd5) ?_
      rw [view_replace _ _ _ (newChain c) (by rw [hv5]; simp [vD]), hv5]
      simp [vD, vE]

theorem final_chainTail {fs s : Fs} {c : HistCommit} (hv : fsGet s = vD fs c []) :
    fsGet (applyOps s (chainTail c)) = vE fs c := by
  have hx : fsGet s (ct c) = some [] := by rw [hv]; simp [vD]
  have hv5 : fsGet (applyOps s (c.chainChunks.map (Op.write (ct c)))) = vD fs c (newChain c) := by
    rw [writes_final _ hx, hv]; simp [vD, newChain]
  rw [chainTail, applyOps_append, applyOps_cons, applyOps_nil,
    view_replace _ _ _ (newChain c) (by rw [hv5]; simp [vD]), hv5]
  simp [vD, vE]

theorem phase_manifestTail {fs s st : Fs} {c : HistCommit} (hd : c.folder ∈ s.dirs) (hv : fsGet s = vB fs c [])
    (hst : st ∈ crashStates s (manifestTail c)) : Phase fs c st := by
  have hx : fsGet s (mt c) = some [] := by rw [hv]; simp [vB]
  rw [manifestTail, mem_crashStates_append] at hst
  rcases hst with hw | hst
  · obtain ⟨y, hy, hvy⟩ := writes_crash _ hx hw
    refine .manifestTmp y hy (mem_dirs_crash hw hd) ?_
    rw [hvy, hv]; simp [vB]
  · have hv2 : fsGet (applyOps s (c.manifestChunks.map (Op.write (mt c)))) = vB fs c (newManifest c) := by
      rw [writes_final _ hx, hv]; simp [vB, newManifest]
    have hd2 := mem_dirs_applyOps (c.manifestChunks.map (Op.write (mt c))) hd
    rw [mem_crashStates_cons] at hst
    rcases hst with rfl | ht | hst
    · exact .manifestTmp _ (List.prefix_refl _) hd2 hv2
    · exact absurd ht not_mem_torn_replace
    · have hv3 : fsGet (applyOp (applyOps s (c.manifestChunks.map (Op.write (mt c)))) (.replace (mt c) (mp c)))
          = vC fs c := by
        rw [view_replace _ _ _ (newManifest c) (by rw [hv2]; simp [vB]), hv2]
        simp [vB, vC]
      have hd3 := mem_dirs_applyOp (.replace (mt c) (mp c)) hd2
      rw [mem_crashStates_cons] at hst
      rcases hst with rfl | ht | hst
      · exact .manifestDone hd3 hv3
      · exact absurd ht not_mem_torn_create
      · exact phase_chainTail (mem_dirs_applyOp _ hd3) (by rw [view_create, hv3]; rfl) hst

theorem final_manifestTail {fs s : Fs} {c : HistCommit} (hv : fsGet s = vB fs c []) :
    fsGet (applyOps s (manifestTail c)) = vE fs c := by
  have hx : fsGet s (mt c) = some [] := by rw [hv]; simp [vB]
  have hv2 : fsGet (applyOps s (c.manifestChunks.map (Op.write (mt c)))) = vB fs c (newManifest c) := by
    rw [writes_final _ hx, hv]; simp [vB, newManifest]
  have hv3 : fsGet (applyOp (applyOps s (c.manifestChunks.map (Op.write (mt c)))) (.replace (mt c) (mp c)))
      = vC fs c := by
    rw [view_replace _ _ _ (newManifest c) (by rw [hv2]; simp [vB]), hv2]
    simp [vB, vC]
  rw [manifestTail, applyOps_append, applyOps_cons, applyOps_cons]
  exact final_chainTail (by rw [view_create, hv3]; rfl)

theorem touches_mkdirOps (c : HistCommit) (q : String) : ∀ op ∈ mkdirOps c, q ∉ touches op := by
  intro op hop
  unfold mkdirOps at hop
  split at hop
  · simp at hop
  · simp only [List.mem_singleton] at hop; subst hop; simp [touches]

theorem view_mkdirOps (fs : Fs) (c : HistCommit) : fsGet (applyOps fs (mkdirOps c)) = fsGet fs :=
  funext fun q => fsGet_applyOps_of_not_touched _ _ _ (touches_mkdirOps c q)

theorem dirs_mkdirOps {fs : Fs} {c : HistCommit} (h : c.folderExists = true → c.folder ∈ fs.dirs) :
    c.folder ∈ (applyOps fs (mkdirOps c)).dirs := by
  unfold mkdirOps
  by_cases he : c.folderExists = true
  · simpa [he] using h he
  · simpa [he] using mem_dirs_mkdir fs c.folder

/-- every crash state of one history's commit is in one of the five phases -/
theorem phase_of_crash {fs st : Fs} {c : HistCommit} (h : c.folderExists = true → c.folder ∈ fs.dirs)
    (hst : st ∈ crashStates fs c.ops) : Phase fs c st := by
  rw [ops_eq, mem_crashStates_append] at hst
  rcases hst with h0 | hst
  · exact .start (funext fun q => fsGet_crash_of_not_touched h0 (touches_mkdirOps c q))
  · rw [mem_crashStates_cons] at hst
    rcases hst with rfl | ht | hst
    · exact .start (view_mkdirOps fs c)
    · exact absurd ht not_mem_torn_create
    · exact phase_manifestTail (mem_dirs_applyOp _ (dirs_mkdirOps h))
        (by rw [view_create, view_mkdirOps]; rfl) hst

/-- the view after the complete commit -/
theorem final_view (fs : Fs) (c : HistCommit) : fsGet (applyOps fs c.ops) = vE fs c := by
  rw [ops_eq, applyOps_append, applyOps_cons]
  exact final_manifestTail (by rw [view_create, view_mkdirOps]; rfl)

/-! ### evaluating the views at the four paths -/

/-- simp set that evaluates a view at a path using the distinctness facts `D` -/
local macro "views" D:term : tactic =>
  `(tactic| simp [vB, vC, vD, vE, upd_apply, ($D).mp_cp, ($D).mp_cp.symm, ($D).mp_mt, ($D).mp_mt.symm,
      ($D).mp_ct, ($D).mp_ct.symm, ($D).cp_mt, ($D).cp_mt.symm, ($D).cp_ct, ($D).cp_ct.symm,
      ($D).mt_ct, ($D).mt_ct.symm])

/-- the paths of one history's commit -/
def paths (c : HistCommit) : List String := [mp c, cp c, mt c, ct c]

theorem not_mem_paths {c : HistCommit} {q : String} :
    q ∉ paths c ↔ q ≠ mp c ∧ q ≠ cp c ∧ q ≠ mt c ∧ q ≠ ct c := by simp [paths]

/-- the operations of a commit touch only its four paths -/
theorem touches_ops (c : HistCommit) : ∀ op ∈ c.ops, ∀ q ∈ touches op, q ∈ paths c := by
  intro op hop q hq
  rw [ops_eq] at hop
  simp only [manifestTail, chainTail, List.mem_append, List.mem_cons, List.mem_map,
    List.not_mem_nil, or_false] at hop
  rcases hop with h | rfl | ⟨d, _, rfl⟩ | rfl | rfl | ⟨d, _, rfl⟩ | rfl
  · exact absurd hq (touches_mkdirOps c q op h)
  all_goals simp only [touches, List.mem_cons, List.not_mem_nil, or_false] at hq
  all_goals rcases hq with rfl | rfl <;> simp [paths]

theorem not_touched_of_not_mem_paths {c : HistCommit} {q : String} (hq : q ∉ paths c) :
    ∀ op ∈ c.ops, q ∉ touches op :=
  fun op hop h => hq (touches_ops c op hop q h)

/-! ## One history -/

section single
variable {fs st : Fs} {c : HistCommit}

/-- 1 (general form, no hypothesis needed): a path that is none of the commit's four paths has in every crash state
exactly what it had before (its content, or its absence) -/
theorem other_paths_untouched (hst : st ∈ crashStates fs c.ops) {p : String} (hp : p ∉ paths c) :
    fsGet st p = fsGet fs p :=
  fsGet_crash_of_not_touched hst (not_touched_of_not_mem_paths hp)

/-- 1. every previously committed manifest — in this and in every other folder — and every media file is
byte-identical in every crash state -/
theorem old_files_intact (hst : st ∈ crashStates fs c.ops) (p : String) (b : Bytes)
    (hb : fsGet fs p = some b) (hcp : p ≠ cp c) (hmt : p ≠ mt c) (hct : p ≠ ct c) (hmp : p ≠ mp c) :
    fsGet st p = some b := by
  rw [other_paths_untouched hst (not_mem_paths.2 ⟨hmp, hcp, hmt, hct⟩), hb]

/-- previously committed manifests of THIS folder are among them: an old manifest has another name than the new
one, the chain and the temporaries -/
theorem old_manifest_intact (hw : WfStale fs c) (hst : st ∈ crashStates fs c.ops) (n : String) (b : Bytes)
    (hb : fsGet fs (c.folder ++ n) = some b) (hn1 : n ≠ chainName) (hn2 : n.endsWith ".tmp" = false) :
    fsGet st (c.folder ++ n) = some b := by
  have hne : ∀ m : String, n ≠ m ++ ".tmp" := by
    intro m h
    have : n.endsWith ".tmp" = true := by
      rw [endsWith_iff_suffix, h, String.toList_append]; exact List.suffix_append _ _
    rw [hn2] at this; exact Bool.noConfusion this
  apply old_files_intact hst _ _ hb
  · intro h; exact hn1 ((String.append_right_inj _).1 h)
  · intro h; unfold mt at h; rw [String.append_assoc] at h
    exact hne _ ((String.append_right_inj _).1 h)
  · intro h; unfold ct at h; rw [String.append_assoc] at h
    exact hne _ ((String.append_right_inj _).1 h)
  · intro h; rw [h, hw.mp_fresh] at hb; cases hb

/-- 2. the chain file is the old one (or still absent) or the complete new one — never truncated or partial.
Stale temporaries allowed. -/
theorem chain_atomic_stale (hw : WfStale fs c) (hst : st ∈ crashStates fs c.ops) :
    fsGet st (cp c) = fsGet fs (cp c) ∨ fsGet st (cp c) = some (newChain c) := by
  have D := hw.distinct
  cases phase_of_crash hw.dir hst with
  | start h => left; rw [h]
  | manifestTmp x _ _ h => left; rw [h]; views D
  | manifestDone _ h => left; rw [h]; views D
  | chainTmp y _ _ h => left; rw [h]; views D
  | done _ h => right; rw [h]; views D

/-- 3. the new manifest is absent or complete. Stale temporaries allowed. -/
theorem manifest_all_or_nothing_stale (hw : WfStale fs c) (hst : st ∈ crashStates fs c.ops) :
    fsGet st (mp c) = none ∨ fsGet st (mp c) = some (newManifest c) := by
  have D := hw.distinct
  cases phase_of_crash hw.dir hst with
  | start h => left; rw [h, hw.mp_fresh]
  | manifestTmp x _ _ h => left; rw [h, ← hw.mp_fresh]; views D
  | manifestDone _ h => right; rw [h]; views D
  | chainTmp y _ _ h => right; rw [h]; views D
  | done _ h => right; rw [h]; views D

/-- 4. the chain never lists a generation whose manifest is not completely there. Stale temporaries allowed. -/
theorem new_chain_implies_manifest_stale (hw : WfStale fs c) (hst : st ∈ crashStates fs c.ops)
    (hnew : fsGet st (cp c) = some (newChain c)) (hne : fsGet fs (cp c) ≠ some (newChain c)) :
    fsGet st (mp c) = some (newManifest c) := by
  have D := hw.distinct
  cases phase_of_crash hw.dir hst with
  | start h => rw [h] at hnew; exact absurd hnew hne
  | manifestTmp x _ _ h =>
    have : fsGet st (cp c) = fsGet fs (cp c) := by rw [h]; views D
    rw [this] at hnew; exact absurd hnew hne
  | manifestDone _ h => rw [h]; views D
  | chainTmp y _ _ h => rw [h]; views D
  | done _ h => rw [h]; views D

/-- the temporaries hold nothing, stale bytes of an earlier crash, or a PREFIX of the new content -/
theorem manifest_tmp_prefix_stale (hw : WfStale fs c) (hst : st ∈ crashStates fs c.ops) :
    fsGet st (mt c) = none ∨ fsGet st (mt c) = fsGet fs (mt c) ∨ ∃ x, x <+: newManifest c ∧ fsGet st (mt c) = some x := by
  have D := hw.distinct
  cases phase_of_crash hw.dir hst with
  | start h => right; left; rw [h]
  | manifestTmp x hx _ h => right; right; exact ⟨x, hx, by rw [h]; views D⟩
  | manifestDone _ h => left; rw [h]; views D
  | chainTmp y _ _ h => left; rw [h]; views D
  | done _ h => left; rw [h]; views D

theorem chain_tmp_prefix_stale (hw : WfStale fs c) (hst : st ∈ crashStates fs c.ops) :
    fsGet st (ct c) = none ∨ fsGet st (ct c) = fsGet fs (ct c) ∨ ∃ y, y <+: newChain c ∧ fsGet st (ct c) = some y := by
  have D := hw.distinct
  cases phase_of_crash hw.dir hst with
  | start h => right; left; rw [h]
  | manifestTmp x hx _ h => right; left; rw [h]; views D
  | manifestDone _ h => right; left; rw [h]; views D
  | chainTmp y hy _ h => right; right; exact ⟨y, hy, by rw [h]; views D⟩
  | done _ h => left; rw [h]; views D

/-- 5a. the loader never looks at a temporary: a name ending in ".tmp" is neither `*.mhl` nor the chain -/
theorem isLoaded_tmp (n : String) : isLoaded (n ++ ".tmp") = false := by
  unfold isLoaded
  rw [Bool.or_eq_false_iff]
  constructor
  · rw [← Bool.not_eq_true, endsWith_iff_suffix, String.toList_append]
    intro h
    have h2 : ".tmp".toList <:+ n.toList ++ ".tmp".toList := List.suffix_append _ _
    have := (List.suffix_of_suffix_length_le h h2 (by decide)).eq_of_length (by decide)
    revert this; decide
  · simpa using tmp_ne_chainName n

theorem isLoaded_manifest_tmp (c : HistCommit) : isLoaded (c.manifestName ++ ".tmp") = false := isLoaded_tmp _
theorem isLoaded_chain_tmp : isLoaded (chainName ++ ".tmp") = false := isLoaded_tmp _

/-- 5. every file of a crash state is an old file with its old content, the complete new manifest, the complete new
chain, or one of the two temporaries (which the loader ignores, `isLoaded_tmp`). Stale temporaries allowed. -/
theorem only_tmp_is_partial_stale (hw : WfStale fs c) (hst : st ∈ crashStates fs c.ops) (q : String)
    (_hq : fsGet st q ≠ none) :
    fsGet st q = fsGet fs q ∨ (q = mp c ∧ fsGet st q = some (newManifest c)) ∨
      (q = cp c ∧ fsGet st q = some (newChain c)) ∨ q = mt c ∨ q = ct c := by
  by_cases h1 : q = mp c
  · subst h1
    rcases manifest_all_or_nothing_stale hw hst with h | h
    · left; rw [h, hw.mp_fresh]
    · right; left; exact ⟨rfl, h⟩
  by_cases h2 : q = cp c
  · subst h2
    rcases chain_atomic_stale hw hst with h | h
    · left; exact h
    · right; right; left; exact ⟨rfl, h⟩
  by_cases h3 : q = mt c
  · right; right; right; left; exact h3
  by_cases h4 : q = ct c
  · right; right; right; right; exact h4
  left; exact other_paths_untouched hst (not_mem_paths.2 ⟨h1, h2, h3, h4⟩)

/-- 6. the complete commit (which is the last crash state): new manifest, new chain, no temporaries — also when
stale temporaries were there before (`create` truncates them, the replace removes them), nothing else changed -/
theorem final_state_stale (hw : WfStale fs c) :
    applyOps fs c.ops ∈ crashStates fs c.ops ∧
    fsGet (applyOps fs c.ops) (mp c) = some (newManifest c) ∧
    fsGet (applyOps fs c.ops) (cp c) = some (newChain c) ∧
    fsGet (applyOps fs c.ops) (mt c) = none ∧
    fsGet (applyOps fs c.ops) (ct c) = none ∧
    (∀ q, q ∉ paths c → fsGet (applyOps fs c.ops) q = fsGet fs q) ∧
    c.folder ∈ (applyOps fs c.ops).dirs := by
  have D := hw.distinct
  refine ⟨applyOps_mem_crashStates _ _, ?_, ?_, ?_, ?_, ?_, ?_⟩
  · rw [final_view]; views D
  · rw [final_view]; views D
  · rw [final_view]; views D
  · rw [final_view]; views D
  · intro q hq; exact fsGet_applyOps_of_not_touched _ _ _ (not_touched_of_not_mem_paths hq)
  · rw [ops_eq, applyOps_append]; exact mem_dirs_applyOps _ (dirs_mkdirOps hw.dir)

/-- stale temporaries make no difference to the result: two starting states that agree except on the temporaries
end up with the same content everywhere -/
theorem stale_same_result {fs' : Fs} (hw : WfStale fs c)
    (hsame : ∀ q, q ≠ mt c → q ≠ ct c → fsGet fs' q = fsGet fs q) :
    ∀ q, fsGet (applyOps fs' c.ops) q = fsGet (applyOps fs c.ops) q := by
  have D := hw.distinct
  intro q
  rw [final_view, final_view]
  by_cases h3 : q = mt c
  · subst h3; views D
  by_cases h4 : q = ct c
  · subst h4; views D
  simp [vE, vC, upd_apply, h3, h4, hsame q h3 h4]

/-! #### the same on a clean folder (`WfCommit`: no stale temporaries) -/

/-- 2. -/
theorem chain_atomic (hw : WfCommit fs c) (hst : st ∈ crashStates fs c.ops) :
    fsGet st (cp c) = fsGet fs (cp c) ∨ fsGet st (cp c) = some (newChain c) :=
  chain_atomic_stale hw.toWfStale hst

/-- 3. -/
theorem manifest_all_or_nothing (hw : WfCommit fs c) (hst : st ∈ crashStates fs c.ops) :
    fsGet st (mp c) = none ∨ fsGet st (mp c) = some (newManifest c) :=
  manifest_all_or_nothing_stale hw.toWfStale hst

/-- 4. -/
theorem new_chain_implies_manifest (hw : WfCommit fs c) (hst : st ∈ crashStates fs c.ops)
    (hnew : fsGet st (cp c) = some (newChain c)) (hne : fsGet fs (cp c) ≠ some (newChain c)) :
    fsGet st (mp c) = some (newManifest c) :=
  new_chain_implies_manifest_stale hw.toWfStale hst hnew hne

/-- on a clean folder a temporary that exists holds a prefix of the new content -/
theorem manifest_tmp_prefix (hw : WfCommit fs c) (hst : st ∈ crashStates fs c.ops) (x : Bytes)
    (hx : fsGet st (mt c) = some x) : x <+: newManifest c := by
  rcases manifest_tmp_prefix_stale hw.toWfStale hst with h | h | ⟨y, hy, h⟩
  · rw [h] at hx; cases hx
  · rw [h, hw.mt_fresh] at hx; cases hx
  · rw [h] at hx; cases hx; exact hy

theorem chain_tmp_prefix (hw : WfCommit fs c) (hst : st ∈ crashStates fs c.ops) (y : Bytes)
    (hy : fsGet st (ct c) = some y) : y <+: newChain c := by
  rcases chain_tmp_prefix_stale hw.toWfStale hst with h | h | ⟨z, hz, h⟩
  · rw [h] at hy; cases hy
  · rw [h, hw.ct_fresh] at hy; cases hy
  · rw [h] at hy; cases hy; exact hz

/-- 5. -/
theorem only_tmp_is_partial (hw : WfCommit fs c) (hst : st ∈ crashStates fs c.ops) (q : String)
    (hq : fsGet st q ≠ none) :
    (fsGet st q = fsGet fs q ∨ (q = mp c ∧ fsGet st q = some (newManifest c)) ∨
      (q = cp c ∧ fsGet st q = some (newChain c)) ∨ q = mt c ∨ q = ct c) ∧
    isLoaded (c.manifestName ++ ".tmp") = false ∧ isLoaded (chainName ++ ".tmp") = false :=
  ⟨only_tmp_is_partial_stale hw.toWfStale hst q hq, isLoaded_tmp _, isLoaded_tmp _⟩

/-- 6. -/
theorem final_state (hw : WfCommit fs c) :
    applyOps fs c.ops ∈ crashStates fs c.ops ∧
    fsGet (applyOps fs c.ops) (mp c) = some (newManifest c) ∧
    fsGet (applyOps fs c.ops) (cp c) = some (newChain c) ∧
    fsGet (applyOps fs c.ops) (mt c) = none ∧
    fsGet (applyOps fs c.ops) (ct c) = none ∧
    (∀ q, q ∉ paths c → fsGet (applyOps fs c.ops) q = fsGet fs q) ∧
    c.folder ∈ (applyOps fs c.ops).dirs :=
  final_state_stale hw.toWfStale

/-! ### 8. the residual: the very first `create` in a folder has a refusing window, later ones have none -/

/-- exactly which crash states refuse: the folder exists and the chain is not (yet) there -/
theorem refuses32_iff (s : Fs) (folder : String) :
    refuses32 s folder = true ↔ folder ∈ s.dirs ∧ fsGet s (folder ++ chainName) = none := by
  simp [refuses32]

/-- 8a. FINDING (documented residual): on the first `create` in a folder (the ascmhl folder does not exist, no chain)
a kill right after the `mkdir` leaves a state in which every command refuses with exit 32, although nothing recorded
is lost -/
theorem first_create_window (hex : c.folderExists = false) (hnone : fsGet fs (cp c) = none) :
    ∃ st ∈ crashStates fs c.ops, refuses32 st c.folder = true := by
  refine ⟨applyOp fs (.mkdir c.folder), ?_, ?_⟩
  · rw [ops_eq, mkdirOps, hex]
    simp only [Bool.false_eq_true, if_false, List.singleton_append]
    rw [mem_crashStates_cons]; right; right; exact self_mem_crashStates _ _
  · rw [refuses32_iff]
    exact ⟨mem_dirs_mkdir _ _, by rw [fsGet_mkdir]; exact hnone⟩

/-- 8a'. … and so does a kill after the manifest was moved into place but before the chain is: the new manifest is
completely there, yet every command refuses -/
theorem first_create_window_manifest (hw : WfStale fs c) (hnone : fsGet fs (cp c) = none) :
    ∃ st ∈ crashStates fs c.ops,
      fsGet st (mp c) = some (newManifest c) ∧ refuses32 st c.folder = true := by
  have D := hw.distinct
  let s2 := applyOps (applyOp (applyOps fs (mkdirOps c)) (.create (mt c)))
    (c.manifestChunks.map (Op.write (mt c)))
  have hv1 : fsGet (applyOp (applyOps fs (mkdirOps c)) (.create (mt c))) = vB fs c [] := by
    rw [view_create, view_mkdirOps]; rfl
  have hv2 : fsGet s2 = vB fs c (newManifest c) := by
    show fsGet (applyOps _ _) = _
    rw [writes_final _ (x := []) (by rw [hv1]; simp [vB]), hv1]; simp [vB, newManifest]
  have hv3 : fsGet (applyOp s2 (.replace (mt c) (mp c))) = vC fs c := by
    rw [view_replace _ _ _ (newManifest c) (by rw [hv2]; simp [vB]), hv2]
    simp [vB, vC]
  refine ⟨applyOp s2 (.replace (mt c) (mp c)), ?_, ?_, ?_⟩
  · rw [ops_eq, mem_crashStates_append]; right
    rw [mem_crashStates_cons]; right; right
    rw [manifestTail, mem_crashStates_append]; right
    rw [mem_crashStates_cons]; right; right
    exact self_mem_crashStates _ _
  · rw [hv3]; views D
  · rw [refuses32_iff]
    refine ⟨mem_dirs_applyOp _ (mem_dirs_applyOps _ (mem_dirs_applyOp _ (dirs_mkdirOps hw.dir))), ?_⟩
    show fsGet _ (cp c) = none
    rw [hv3, ← hnone]; views D

/-- 8a''. on the first create EVERY crash state in which the folder exists refuses, except the completed one -/
theorem first_create_refuses_until_done (hw : WfStale fs c) (hnone : fsGet fs (cp c) = none)
    (hst : st ∈ crashStates fs c.ops) (hdir : c.folder ∈ st.dirs)
    (hnot : fsGet st (cp c) ≠ some (newChain c)) : refuses32 st c.folder = true := by
  rw [refuses32_iff]
  refine ⟨hdir, ?_⟩
  rcases chain_atomic_stale hw hst with h | h
  · show fsGet st (cp c) = none
    rw [h, hnone]
  · exact absurd h hnot

/-- 8b. with at least one prior generation (the chain file exists) no crash state refuses -/
theorem later_create_never_refuses (hw : WfStale fs c) (hsome : fsGet fs (cp c) ≠ none)
    (hst : st ∈ crashStates fs c.ops) : refuses32 st c.folder = false := by
  rw [← Bool.not_eq_true, refuses32_iff]
  rintro ⟨_, h⟩
  have h : fsGet st (cp c) = none := h
  rcases chain_atomic_stale hw hst with h' | h'
  · rw [h'] at h; exact hsome h
  · rw [h'] at h; cases h

end single

/-! ## 7. Several histories (children before parents) -/

theorem createOps_nil : createOps [] = [] := rfl
theorem createOps_cons (c : HistCommit) (cs : List HistCommit) : createOps (c :: cs) = c.ops ++ createOps cs := by
  simp [createOps]
theorem createOps_append (a b : List HistCommit) : createOps (a ++ b) = createOps a ++ createOps b := by
  simp [createOps]

/-- 7. every crash state of a whole `create` is: some complete commits of a prefix of the histories, then a crash
state of the next one -/
theorem crashStates_createOps {fs st : Fs} {cs : List HistCommit} :
    st ∈ crashStates fs (createOps cs) ↔
      st = fs ∨ ∃ done c rest, cs = done ++ c :: rest ∧
        st ∈ crashStates (applyOps fs (createOps done)) c.ops := by
  induction cs generalizing fs with
  | nil => simp [createOps_nil]
  | cons c cs ih =>
    rw [createOps_cons, mem_crashStates_append, ih]
    constructor
    · rintro (h | rfl | ⟨done, c', rest, rfl, h⟩)
      · exact .inr ⟨[], c, cs, rfl, h⟩
      · exact .inr ⟨[], c, cs, rfl, applyOps_mem_crashStates _ _⟩
      · refine .inr ⟨c :: done, c', rest, rfl, ?_⟩
        rw [createOps_cons, applyOps_append]; exact h
    · rintro (rfl | ⟨done, c', rest, heq, h⟩)
      · exact .inl (self_mem_crashStates _ _)
      · cases done with
        | nil =>
          simp only [List.nil_append, List.cons.injEq] at heq
          obtain ⟨rfl, rfl⟩ := heq
          exact .inl h
        | cons d done =>
          simp only [List.cons_append, List.cons.injEq] at heq
          obtain ⟨rfl, rfl⟩ := heq
          rw [createOps_cons, applyOps_append] at h
          exact .inr (.inr ⟨done, c', rest, rfl, h⟩)

/-- two commits use disjoint paths -/
def Disj (c c' : HistCommit) : Prop := ∀ p ∈ paths c, p ∉ paths c'

theorem Disj.symm {c c' : HistCommit} (h : Disj c c') : Disj c' c :=
  fun p hp hp' => h p hp' hp

/-- the histories of one `create`: each commit well-formed (stale temporaries allowed), pairwise disjoint paths -/
structure MultiWf (fs : Fs) (cs : List HistCommit) : Prop where
  wf : ∀ c ∈ cs, WfStale fs c
  disj : cs.Pairwise Disj

/-- a commit is completely on disk -/
def Complete (c : HistCommit) (st : Fs) : Prop :=
  fsGet st (mp c) = some (newManifest c) ∧ fsGet st (cp c) = some (newChain c)

theorem touches_createOps {cs : List HistCommit} {q : String} (hq : ∀ c ∈ cs, q ∉ paths c) :
    ∀ op ∈ createOps cs, q ∉ touches op := by
  intro op hop
  obtain ⟨c, hc, hop⟩ := List.mem_flatMap.1 hop
  exact not_touched_of_not_mem_paths (hq c hc) op hop

/-- paths of no history are untouched in every crash state of the whole `create` -/
theorem multi_other_paths_untouched {fs st : Fs} {cs : List HistCommit}
    (hst : st ∈ crashStates fs (createOps cs)) {q : String} (hq : ∀ c ∈ cs, q ∉ paths c) :
    fsGet st q = fsGet fs q :=
  fsGet_crash_of_not_touched hst (touches_createOps hq)

theorem multi_final_other_paths {fs : Fs} {cs : List HistCommit} {q : String} (hq : ∀ c ∈ cs, q ∉ paths c) :
    fsGet (applyOps fs (createOps cs)) q = fsGet fs q :=
  fsGet_applyOps_of_not_touched _ _ _ (touches_createOps hq)

/-- well-formedness is kept when some disjoint operations ran first -/
theorem WfStale.of_frame {fs fs' : Fs} {c : HistCommit} (hw : WfStale fs c)
    (hv : fsGet fs' (mp c) = fsGet fs (mp c)) (hd : ∀ d ∈ fs.dirs, d ∈ fs'.dirs) : WfStale fs' c :=
  ⟨hw.distinct, by rw [hv, hw.mp_fresh], fun h => hd _ (hw.dir h)⟩

theorem MultiWf.after {fs : Fs} {done rest : List HistCommit} (hm : MultiWf fs (done ++ rest)) :
    MultiWf (applyOps fs (createOps done)) rest := by
  have hp := List.pairwise_append.1 hm.disj
  refine ⟨fun c hc => ?_, hp.2.1⟩
  refine (hm.wf c (List.mem_append_right _ hc)).of_frame ?_ (fun d hd => mem_dirs_applyOps _ hd)
  exact multi_final_other_paths fun d hd => (hp.2.2 d hd c hc).symm _ (by simp [paths])

/-- all commits of a completed prefix are completely on disk -/
theorem complete_done {fs : Fs} {done : List HistCommit} (hm : MultiWf fs done) :
    ∀ d ∈ done, Complete d (applyOps fs (createOps done)) := by
  induction done generalizing fs with
  | nil => intro d hd; cases hd
  | cons d0 done ih =>
    intro d hd
    rw [createOps_cons, applyOps_append]
    have hm' : MultiWf (applyOps fs (createOps [d0])) done := MultiWf.after (done := [d0]) hm
    simp only [createOps, List.flatMap_cons, List.flatMap_nil, List.append_nil] at hm'
    by_cases hmem : d ∈ done
    · exact ih hm' d hmem
    · have hd0 : d = d0 := by
        rcases List.mem_cons.1 hd with h | h
        · exact h
        · exact absurd h hmem
      subst hd0
      have hw := hm.wf d List.mem_cons_self
      have hdisj := (List.pairwise_cons.1 hm.disj).1
      obtain ⟨_, h1, h2, _⟩ := final_state_stale hw
      constructor
      · rw [multi_final_other_paths fun e he => hdisj e he _ (by simp [paths])]; exact h1
      · rw [multi_final_other_paths fun e he => hdisj e he _ (by simp [paths])]; exact h2

/-- 7 (structured). A crash state of the whole `create` splits the histories into: `done` — all completely on disk;
`c` — in a crash state of its own commit, started from a state that is well-formed for it and agrees with the initial
one on `c`'s paths; `rest` — untouched. -/
theorem multi_structure {fs st : Fs} {cs : List HistCommit} (hm : MultiWf fs cs)
    (hst : st ∈ crashStates fs (createOps cs)) :
    st = fs ∨ ∃ done c rest, cs = done ++ c :: rest ∧
      (∀ d ∈ done, Complete d st) ∧
      st ∈ crashStates (applyOps fs (createOps done)) c.ops ∧
      WfStale (applyOps fs (createOps done)) c ∧
      (∀ p ∈ paths c, fsGet (applyOps fs (createOps done)) p = fsGet fs p) ∧
      (∀ r ∈ rest, ∀ p ∈ paths r, fsGet st p = fsGet fs p) := by
  rcases crashStates_createOps.1 hst with h | ⟨done, c, rest, rfl, h⟩
  · exact .inl h
  · refine .inr ⟨done, c, rest, rfl, ?_, h, ?_, ?_, ?_⟩
    · have hp := List.pairwise_append.1 hm.disj
      have hmd : MultiWf fs done := ⟨fun d hd => hm.wf d (List.mem_append_left _ hd), hp.1⟩
      intro d hd
      have hc := complete_done hmd d hd
      have hdc : Disj d c := hp.2.2 d hd c List.mem_cons_self
      constructor
      · rw [other_paths_untouched h (hdc _ (by simp [paths]))]; exact hc.1
      · rw [other_paths_untouched h (hdc _ (by simp [paths]))]; exact hc.2
    · exact (MultiWf.after hm).wf c List.mem_cons_self
    · intro p hp
      have hpw := List.pairwise_append.1 hm.disj
      exact multi_final_other_paths fun d hd => (hpw.2.2 d hd c List.mem_cons_self).symm p hp
    · intro r hr p hp
      have hpw := List.pairwise_append.1 hm.disj
      have hrc : Disj c r := (List.pairwise_cons.1 hpw.2.1).1 r hr
      rw [other_paths_untouched h (hrc.symm p hp)]
      exact multi_final_other_paths fun d hd =>
        (hpw.2.2 d hd r (List.mem_cons_of_mem _ hr)).symm p hp

/-- properties 2–4 for one history -/
structure CrashOk (fs : Fs) (c : HistCommit) (st : Fs) : Prop where
  /-- 2. old or complete new chain -/
  chain : fsGet st (cp c) = fsGet fs (cp c) ∨ fsGet st (cp c) = some (newChain c)
  /-- 3. new manifest absent or complete -/
  manifest : fsGet st (mp c) = none ∨ fsGet st (mp c) = some (newManifest c)
  /-- 4. new chain only with the complete manifest -/
  link : fsGet st (cp c) = some (newChain c) → fsGet fs (cp c) ≠ some (newChain c) →
    fsGet st (mp c) = some (newManifest c)

theorem crashOk_single {fs st : Fs} {c : HistCommit} (hw : WfStale fs c) (hst : st ∈ crashStates fs c.ops) :
    CrashOk fs c st :=
  ⟨chain_atomic_stale hw hst, manifest_all_or_nothing_stale hw hst, new_chain_implies_manifest_stale hw hst⟩

/-- 7 (per history). In every crash state of the whole `create`, 2–4 hold for EVERY history -/
theorem multi_crashOk {fs st : Fs} {cs : List HistCommit} (hm : MultiWf fs cs)
    (hst : st ∈ crashStates fs (createOps cs)) : ∀ c ∈ cs, CrashOk fs c st := by
  intro c' hc'
  rcases multi_structure hm hst with rfl | ⟨done, c, rest, rfl, hdone, hcr, hwf, hsame, hrest⟩
  · exact ⟨.inl rfl, .inl (hm.wf c' hc').mp_fresh, fun h h' => absurd h h'⟩
  · rcases List.mem_append.1 hc' with hd | hc'
    · have := hdone c' hd
      exact ⟨.inr this.2, .inr this.1, fun _ _ => this.1⟩
    rcases List.mem_cons.1 hc' with rfl | hr
    · have h := crashOk_single hwf hcr
      have e : fsGet (applyOps fs (createOps done)) (cp c') = fsGet fs (cp c') := hsame _ (by simp [paths])
      exact ⟨e ▸ h.chain, h.manifest, fun h1 h2 => h.link h1 (by rw [e]; exact h2)⟩
    · have e1 := hrest c' hr (cp c') (by simp [paths])
      have e2 := hrest c' hr (mp c') (by simp [paths])
      exact ⟨.inl e1, .inl (by rw [e2]; exact (hm.wf c' (List.mem_append_right _
        (List.mem_cons_of_mem _ hr))).mp_fresh), fun h h' => absurd (e1 ▸ h) h'⟩

/-- 7 (per history, 1). files that belong to no history's commit are byte-identical -/
theorem multi_old_files_intact {fs st : Fs} {cs : List HistCommit}
    (hst : st ∈ crashStates fs (createOps cs)) (p : String) (b : Bytes) (hb : fsGet fs p = some b)
    (hp : ∀ c ∈ cs, p ∉ paths c) : fsGet st p = some b := by
  rw [multi_other_paths_untouched hst hp, hb]

/-- 7 (order). A parent's chain is new only if all its children's commits are complete: if the history at position
`j` has its new chain, every history at an earlier position `i < j` (children come first) is completely on disk -/
theorem parent_chain_new_children_complete {fs st : Fs} {cs : List HistCommit} (hm : MultiWf fs cs)
    (hst : st ∈ crashStates fs (createOps cs)) {i j : Nat} {child parent : HistCommit} (hij : i < j)
    (hi : cs[i]? = some child) (hj : cs[j]? = some parent)
    (hnew : fsGet st (cp parent) = some (newChain parent))
    (hne : fsGet fs (cp parent) ≠ some (newChain parent)) : Complete child st := by
  rcases multi_structure hm hst with rfl | ⟨done, c, rest, rfl, hdone, hcr, hwf, hsame, hrest⟩
  · exact absurd hnew hne
  · by_cases hjd : j ≤ done.length
    · rw [List.getElem?_append_left (by omega)] at hi
      exact hdone child (List.mem_of_getElem? hi)
    · exfalso
      rw [List.getElem?_append_right (by omega)] at hj
      obtain ⟨k, hk⟩ : ∃ k, j - done.length = k + 1 := ⟨j - done.length - 1, by omega⟩
      rw [hk, List.getElem?_cons_succ] at hj
      have hr := List.mem_of_getElem? hj
      rw [hrest parent hr (cp parent) (by simp [paths])] at hnew
      exact hne hnew

/-- the same with the positions given by a split of the list -/
theorem parent_chain_new_children_complete' {fs st : Fs} {l1 l2 : List HistCommit} {child parent : HistCommit}
    (hm : MultiWf fs (l1 ++ child :: l2)) (hst : st ∈ crashStates fs (createOps (l1 ++ child :: l2)))
    (hp : parent ∈ l2) (hnew : fsGet st (cp parent) = some (newChain parent))
    (hne : fsGet fs (cp parent) ≠ some (newChain parent)) : Complete child st := by
  obtain ⟨k, hk, hk'⟩ := List.getElem_of_mem hp
  refine parent_chain_new_children_complete hm hst (i := l1.length) (j := l1.length + 1 + k) (by omega)
    (by simp) ?_ hnew hne
  rw [List.getElem?_append_right (by omega)]
  have : l1.length + 1 + k - l1.length = k + 1 := by omega
  rw [this, List.getElem?_cons_succ, List.getElem?_eq_getElem hk, hk']

/-- the complete `create`: every history completely on disk, everything else unchanged -/
theorem multi_final_state {fs : Fs} {cs : List HistCommit} (hm : MultiWf fs cs) :
    applyOps fs (createOps cs) ∈ crashStates fs (createOps cs) ∧
    (∀ c ∈ cs, Complete c (applyOps fs (createOps cs))) ∧
    (∀ q, (∀ c ∈ cs, q ∉ paths c) → fsGet (applyOps fs (createOps cs)) q = fsGet fs q) :=
  ⟨applyOps_mem_crashStates _ _, complete_done hm, fun _ hq => multi_final_other_paths hq⟩

/-! ## Concrete instances (non-vacuity, the torn states) -/

section examples

/-- second generation in folder "a/": a two-chunk manifest, a two-chunk chain -/
def exC : HistCommit :=
  { folder := "a/", folderExists := true, manifestName := "2.mhl",
    manifestChunks := [[1, 2], [3]], chainChunks := [[7], [8, 9]] }
/-- a media file, the first generation's manifest, the chain with one generation -/
def exFs : Fs :=
  { files := [("x.mov", [42]), ("a/1.mhl", [5, 6]), ("a/ascmhl_chain.xml", [7])], dirs := ["a/"] }

/-- what a state shows at (manifest, chain, manifest.tmp, chain.tmp) -/
def exShow (c : HistCommit) (st : Fs) : Option Bytes × Option Bytes × Option Bytes × Option Bytes :=
  (fsGet st (mp c), fsGet st (cp c), fsGet st (mt c), fsGet st (ct c))

/-- the hypotheses are satisfiable -/
example : WfCommit exFs exC :=
  { distinct := distinct_of_mhl_name exC (by rw [endsWith_iff_suffix]; decide),
    mp_fresh := by decide,
    dir := fun _ => by decide,
    mt_fresh := by decide,
    ct_fresh := by decide }

/-- ALL 15 crash states, torn writes included (the manifest temporary passes through [], [1], [1,2], [1,2,3]; the
chain temporary through [], [7], [7,8], [7,8,9]); the manifest is always `none` or complete, the chain always the old
`[7]` or the complete `[7,8,9]` -/
example : (crashStates exFs exC.ops).map (exShow exC) =
    [(none, some [7], none, none),
     (none, some [7], some [], none),
     (none, some [7], some [], none),
     (none, some [7], some [1], none),
     (none, some [7], some [1, 2], none),
     (none, some [7], some [1, 2], none),
     (none, some [7], some [1, 2, 3], none),
     (some [1, 2, 3], some [7], none, none),
     (some [1, 2, 3], some [7], none, some []),
     (some [1, 2, 3], some [7], none, some []),
     (some [1, 2, 3], some [7], none, some [7]),
     (some [1, 2, 3], some [7], none, some [7]),
     (some [1, 2, 3], some [7], none, some [7, 8]),
     (some [1, 2, 3], some [7], none, some [7, 8, 9]),
     (some [1, 2, 3], some [7, 8, 9], none, none)] := by decide

/-- the old manifest and the media file are the same in all of them; none refuses -/
example : (crashStates exFs exC.ops).all (fun st =>
    fsGet st "a/1.mhl" == some [5, 6] && fsGet st "x.mov" == some [42] && !refuses32 st "a/") = true := by decide

/-- a torn state (manifest temporary holds the first byte only) really is a crash state -/
example : ∃ st ∈ crashStates exFs exC.ops, fsGet st (mt exC) = some [1] ∧ fsGet st (mp exC) = none := by decide

/-- with STALE temporaries of an earlier crash: same states apart from the stale bytes, same final state -/
def exFsStale : Fs :=
  { exFs with files := exFs.files ++ [("a/2.mhl.tmp", [1, 2, 99, 99]), ("a/ascmhl_chain.xml.tmp", [66])] }

example : WfStale exFsStale exC :=
  { distinct := distinct_of_mhl_name exC (by rw [endsWith_iff_suffix]; decide),
    mp_fresh := by decide,
    dir := fun _ => by decide }

example : ¬ WfCommit exFsStale exC := fun h => absurd h.mt_fresh (by decide)

example : (crashStates exFsStale exC.ops).map (exShow exC) =
    [(none, some [7], some [1, 2, 99, 99], some [66]),
     (none, some [7], some [], some [66]),
     (none, some [7], some [], some [66]),
     (none, some [7], some [1], some [66]),
     (none, some [7], some [1, 2], some [66]),
     (none, some [7], some [1, 2], some [66]),
     (none, some [7], some [1, 2, 3], some [66]),
     (some [1, 2, 3], some [7], none, some [66]),
     (some [1, 2, 3], some [7], none, some []),
     (some [1, 2, 3], some [7], none, some []),
     (some [1, 2, 3], some [7], none, some [7]),
     (some [1, 2, 3], some [7], none, some [7]),
     (some [1, 2, 3], some [7], none, some [7, 8]),
     (some [1, 2, 3], some [7], none, some [7, 8, 9]),
     (some [1, 2, 3], some [7, 8, 9], none, none)] := by decide

/-- FIRST create in a folder (no ascmhl folder, no chain): the refusing window -/
def exC1 : HistCommit :=
  { folder := "a/", folderExists := false, manifestName := "1.mhl",
    manifestChunks := [[1, 2], [3]], chainChunks := [[7], [8, 9]] }
def exFs1 : Fs := { files := [("x.mov", [42])], dirs := [] }

example : WfCommit exFs1 exC1 :=
  { distinct := distinct_of_mhl_name exC1 (by rw [endsWith_iff_suffix]; decide),
    mp_fresh := by decide,
    dir := fun h => by simp [exC1] at h,
    mt_fresh := by decide,
    ct_fresh := by decide }

/-- of the 16 crash states all but the first (nothing done) and the last (complete) refuse with 32 -/
example : (crashStates exFs1 exC1.ops).map (fun st => refuses32 st "a/") =
    [false, true, true, true, true, true, true, true, true, true, true, true, true, true, true, false] := by
  decide

/-- two histories, child "a/b/" before parent "a/": disjoint paths -/
def exChild : HistCommit :=
  { folder := "a/b/", folderExists := true, manifestName := "2.mhl",
    manifestChunks := [[1], [2]], chainChunks := [[3], [4]] }

def exFs2 : Fs :=
  { files := [("a/ascmhl_chain.xml", [7]), ("a/b/ascmhl_chain.xml", [3])], dirs := ["a/", "a/b/"] }

example : MultiWf exFs2 [exChild, exC] :=
  { wf := by
      intro c hc
      simp only [List.mem_cons, List.not_mem_nil, or_false] at hc
      rcases hc with rfl | rfl
      · exact ⟨distinct_of_mhl_name _ (by rw [endsWith_iff_suffix]; decide), by decide, fun _ => by decide⟩
      · exact ⟨distinct_of_mhl_name _ (by rw [endsWith_iff_suffix]; decide), by decide, fun _ => by decide⟩,
    disj := by
      simp only [List.pairwise_cons, List.mem_cons, List.not_mem_nil, or_false, forall_eq, List.Pairwise.nil,
        and_true, false_imp_iff, implies_true]
      unfold Disj; decide }

/-- in every crash state of the two-history create: parent's chain new ⇒ child complete -/
example : (crashStates exFs2 (createOps [exChild, exC])).all (fun st =>
    !(fsGet st (cp exC) == some (newChain exC)) ||
      (fsGet st (mp exChild) == some (newManifest exChild) && fsGet st (cp exChild) == some (newChain exChild)))
    = true := by decide

end examples

end MhlProps.C15
