/-
C19 — `info` reports the recorded history truthfully.

`info` lists, for the history at the root and every nested history (pre-order, children in discovery order), one line
per generation in ascending generation order; `info -sf FILE` lists, generation by generation, exactly the digests
recorded for the file in its NEAREST ENCLOSING history (the root history or a nested one: `ownerHist`, the model of
`find_history_for_path`), looked up under the path relative to that history's root.  Without any generation at the
root both end with 30.

`info -sf` (after the repair of the tool):
  `infoSingleFile_lines`, `infoSingleFile_nearest`, `infoSingleFile_count`, `mem_infoSingleFile`
                                    the lines are those of `ownerHist h f` under `f.drop (ownerHist h f).root.length`;
  `…_root`, `…_no_nested`, `…_flat` the former statements (root history, path `f`) when `ownerHist h f = h`, which
                                    holds when no child root is a prefix of `f` (`ownerHist_eq_self`), in
                                    particular without nested histories (`ownerHist_flat`);
  `ownerHist_root_prefix`, `ownerHist_mem`, `ownerHist_split`
                                    the owner is a loaded history whose root lies on the path;
  `ownerHist_deepest`               on a well-formed tree of histories (`Hist.WF`) it is the deepest such history;
  `loadHistory_WF`                  the loader builds well-formed trees of histories when sibling names are distinct
                                    (`Node.NoDupNames`); without that it is FALSE (`loadHistory_WF_needs_names`).
Helper lemmas: MhlProps/Proofs/OwnerLemmas.lean.
-/
import MhlProps.Proofs.LoadLemmas
import MhlProps.Proofs.OwnerLemmas
import MhlProps.C06

namespace MhlProps.C19
open MhlModel

/-! ### no history -/

theorem errNoHistory_code : errNoHistory = .exit 30 := by decide

theorem info_no_history (t : Node) (h : Hist) (f : RelPath) (hl : loadHistory t = .ok h) (hg : h.gens = []) :
    info t = .error errNoHistory ∧ infoSingleFile t f = .error errNoHistory := by
  constructor
  · simp [info, hl, hg, bind, Except.bind, throw, throwThe, MonadExceptOf.throw]
  · simp [infoSingleFile, hl, hg, bind, Except.bind, throw, throwThe, MonadExceptOf.throw]

/-! ### `info` -/

theorem info_lines (t : Node) (h : Hist) (hl : loadHistory t = .ok h) (hg : h.gens ≠ []) :
    info t = .ok (infoLines h) := by
  have : h.gens.isEmpty = false := by cases hh : h.gens <;> simp_all
  simp [info, hl, this, bind, Except.bind, pure, Except.pure]

/-- `info` in one equation: the error of loading, 30 without generations, else the lines -/
theorem info_spec (t : Node) :
    info t = match loadHistory t with
      | .error e => .error e
      | .ok h => if h.gens = [] then .error errNoHistory else .ok (infoLines h) := by
  cases hl : loadHistory t with
  | error e => simp [info, hl, bind, Except.bind]
  | ok h =>
    by_cases hg : h.gens = []
    · simp [hg, (info_no_history t h [] hl hg).1]
    · simp [hg, info_lines t h hl hg]

theorem infoLinesList_eq (cs : List Hist) : infoLinesList cs = cs.flatMap infoLines := by
  induction cs with
  | nil => simp [infoLinesList]
  | cons c cs ih => simp [infoLinesList, ih]

/-- the history's own generations in stored order, then every nested history in order (pre-order) -/
theorem infoLines_spec (r : RelPath) (gens : List LGen) (c : List ChainEntry) (e : Bool) (cs : List Hist) :
    infoLines (.mk r gens c e cs) = gens.map (fun g => (r, g.number)) ++ cs.flatMap infoLines := by
  rw [infoLines, infoLinesList_eq]

/-- the lines one history contributes itself -/
def ownLines (x : Hist) : List (RelPath × Nat) := x.gens.map fun g => (x.root, g.number)

mutual
theorem infoLines_flat : (h : Hist) → infoLines h = (h :: allDescendants h).flatMap ownLines
  | .mk r gens c e cs => by
    rw [infoLines, allDescendants, List.flatMap_cons, infoLinesList_flat cs]
    rfl
theorem infoLinesList_flat : (cs : List Hist) → infoLinesList cs = (descList cs).flatMap ownLines
  | [] => by simp [infoLinesList, descList]
  | c :: cs => by
    rw [infoLinesList, descList, infoLines_flat c, infoLinesList_flat cs]
    simp [List.flatMap_append]
end

/-- the listing as a whole: history by history in pre-order (`h :: allDescendants h`), each with its generations in
stored order — nothing else, nothing twice -/
theorem infoLines_eq_flatMap (h : Hist) :
    infoLines h = (h :: allDescendants h).flatMap fun x => x.gens.map fun g => (x.root, g.number) :=
  infoLines_flat h

/-- membership: exactly the pairs (root, number) of every history and each of its generations -/
theorem mem_infoLines (h : Hist) (p : RelPath) (n : Nat) :
    (p, n) ∈ infoLines h ↔ ∃ x ∈ h :: allDescendants h, x.root = p ∧ ∃ g ∈ x.gens, g.number = n := by
  rw [infoLines_flat]
  simp only [List.mem_flatMap, ownLines, List.mem_map, Prod.mk.injEq]
  constructor
  · rintro ⟨x, hx, g, hg, rfl, rfl⟩; exact ⟨x, hx, rfl, g, hg, rfl⟩
  · rintro ⟨x, hx, rfl, g, hg, rfl⟩; exact ⟨x, hx, g, hg, rfl, rfl⟩

theorem infoLines_length (h : Hist) :
    (infoLines h).length = ((h :: allDescendants h).map fun x => x.gens.length).sum := by
  rw [infoLines_flat, List.length_flatMap]
  simp [ownLines]

/-- the generations of the loaded root history are those of the root store, numbered by name, ascending -/
theorem loadHistory_gens (t : Node) (h : Hist) (hl : loadHistory t = .ok h) :
    h.gens = (match t.hist with | none => [] | some s => loadGens s) := by
  obtain ⟨kids, _, rfl⟩ := loadHistory_ok_eq t h hl
  cases t.hist <;> rfl

/-- the lines of the root history come first and in ascending generation order -/
theorem info_root_lines_sorted (t : Node) (h : Hist) (hl : loadHistory t = .ok h) :
    (h.gens.map (·.number)).Pairwise (· ≤ ·) := by
  rw [loadHistory_gens t h hl]
  cases t.hist with
  | none => simp
  | some s => exact MhlProps.C06.loadGens_sorted s

/-! ### `info -sf` -/

/-- the entries recorded for a path in one generation (none if the generation does not know the path) -/
def recordEntries (g : LGen) (path : String) : List Entry :=
  match g.gen.find path with
  | none => []
  | some r => r.entries

/-- the lines `info -sf` prints for the path text `sp` over the generations `gens` (the definition formerly in
Proofs/InfoLemmas.lean, moved here unchanged so that the theorems of this file can use it) -/
def _root_.MhlModel.sfLines (gens : List LGen) (sp : String) : List (Nat × String × String × String) :=
  gens.flatMap fun g => (recordEntries g sp).map fun e => (g.number, e.fmt, e.digest, e.action)

/-! #### the nearest enclosing history (`ownerHist`) -/

/-- a loaded history is rooted at the folder the command loaded -/
theorem loadHistory_root (t : Node) (h : Hist) (hl : loadHistory t = .ok h) : h.root = [] :=
  MhlModel.loadHistory_root t h hl

/-- no child history's root lies on the path: the history itself is the owner -/
theorem ownerHist_eq_self (h : Hist) (p : RelPath) (hno : ∀ c ∈ h.children, ¬ c.root <+: p) : ownerHist h p = h :=
  ownerHist_eq_self' h p hno

/-- in particular a history without nested histories owns every path -/
theorem ownerHist_flat (h : Hist) (p : RelPath) (hc : h.children = []) : ownerHist h p = h :=
  ownerHist_of_no_children h p hc

/-- a. the root of the owner lies on the path -/
theorem ownerHist_root_prefix (h : Hist) (p : RelPath) (hp : h.root <+: p) : (ownerHist h p).root <+: p :=
  ownerHist_root_prefix' h p hp

/-- for a loaded history (rooted at `[]`) this holds for every path; so the path splits into the owner's root and the
path relative to it, which is what is looked up -/
theorem ownerHist_split (t : Node) (h : Hist) (hl : loadHistory t = .ok h) (f : RelPath) :
    (ownerHist h f).root <+: f ∧ (ownerHist h f).root ++ f.drop (ownerHist h f).root.length = f := by
  have hp : (ownerHist h f).root <+: f :=
    ownerHist_root_prefix h f (by rw [loadHistory_root t h hl]; exact List.nil_prefix)
  exact ⟨hp, List.prefix_iff_eq_append.1 hp⟩

/-- b. the owner is the history itself or one of its transitive children -/
theorem ownerHist_mem (h : Hist) (p : RelPath) : ownerHist h p ∈ allHists h := ownerHist_mem' h p

/-- c. NEAREST ENCLOSING: in a well-formed tree of histories (`Hist.WF`: every child rooted properly below its parent,
sibling roots not prefixes of one another, hereditarily) no history whose root lies on the path has a longer root
than the owner -/
theorem ownerHist_deepest (h : Hist) (p : RelPath) (hw : h.WF) :
    ∀ k ∈ allHists h, k.root <+: p → k.root.length ≤ (ownerHist h p).root.length :=
  ownerHist_deepest' h p hw

/-- what the loader builds is well formed, provided the names of the children of every directory of the tree are
pairwise distinct (`Node.NoDupNames`, the project's `Node.NamesDistinct`).

`loadHistory_WF_partial`: the statement WITHOUT the hypothesis on the names, `loadHistory t = .ok h → h.WF`, is FALSE
of the model: two sibling folders with the same name that both hold an `ascmhl` folder load as two sibling histories
with the same root (`loadHistory_WF_needs_names` below).  A real file system has no such siblings. -/
theorem loadHistory_WF (t : Node) (h : Hist) (hl : loadHistory t = .ok h) (hd : t.NoDupNames) : h.WF :=
  loadHistory_WF' t h hl hd

/-- so on every tree with distinct sibling names `ownerHist` of the loaded history is the deepest history on the
path -/
theorem ownerHist_deepest_loaded (t : Node) (h : Hist) (hl : loadHistory t = .ok h) (hd : t.NoDupNames) (p : RelPath) :
    ∀ k ∈ allHists h, k.root <+: p → k.root.length ≤ (ownerHist h p).root.length :=
  ownerHist_deepest h p (loadHistory_WF t h hl hd)

/-- two sibling folders named `A`, both with an `ascmhl` folder -/
def dupNamesTree : Node := .dir "root" [.dir "A" [] (some {}), .dir "A" [] (some {})] none

/-- well-formedness of the loaded history WITHOUT distinct sibling names is false of the model -/
theorem loadHistory_WF_needs_names : ∃ t h, loadHistory t = .ok h ∧ ¬ t.NoDupNames ∧ ¬ h.WF := by
  cases hl : loadHistory dupNamesTree with
  | error e =>
    have : (match loadHistory dupNamesTree with | .ok _ => true | .error _ => false) = true := by decide +kernel
    rw [hl] at this
    cases this
  | ok h =>
    refine ⟨dupNamesTree, h, hl, ?_, ?_⟩
    · simp [dupNamesTree, Node.NoDupNames, Node.NamesDistinct, Node.NamesDistinctKids, Node.name]
    · intro hw
      have hp := (hw h (self_mem_allHists h)).2
      have hr : h.children.map (·.root) = [["A"], ["A"]] := by
        have : (loadHistory dupNamesTree).map (fun h => h.children.map (·.root)) = .ok [["A"], ["A"]] := by
          decide +kernel
        rw [hl] at this
        simpa [Except.map] using this
      have hp' : (h.children.map (·.root)).Pairwise (fun a b => ¬ a <+: b ∧ ¬ b <+: a) := by
        rw [List.pairwise_map]
        exact hp
      rw [hr] at hp'
      simp at hp'

/-! #### the lines -/

/-- generation by generation, the entries of the record of the file as (number, format, digest, action) — nothing
added, nothing dropped.

CHANGED (the repaired `info -sf`): the generations are those of the NEAREST ENCLOSING history of the file,
`ownerHist h f` (formerly: `h.gens`, the root history only), and the record is looked up under the path relative to
that history's root, `f.drop (ownerHist h f).root.length` (formerly: `f`).  The former statement is
`infoSingleFile_lines_root` below (when no nested history lies on the path, e.g. `infoSingleFile_lines_flat`). -/
theorem infoSingleFile_lines (t : Node) (h : Hist) (f : RelPath) (hl : loadHistory t = .ok h) (hg : h.gens ≠ []) :
    infoSingleFile t f = .ok ((ownerHist h f).gens.flatMap fun g =>
      (recordEntries g (posix (f.drop (ownerHist h f).root.length))).map fun e =>
        (g.number, e.fmt, e.digest, e.action)) := by
  have : h.gens.isEmpty = false := by cases hh : h.gens <;> simp_all
  simp only [infoSingleFile, hl, this, bind, Except.bind, pure, Except.pure, Bool.false_eq_true, if_false]
  congr 2
  funext g
  unfold recordEntries
  cases g.gen.find (posix (f.drop (ownerHist h f).root.length)) <;> rfl

/-- d. `info -sf` prints the lines of the nearest enclosing history, under the path relative to its root -/
theorem infoSingleFile_nearest (t : Node) (h : Hist) (f : RelPath) (hl : loadHistory t = .ok h) (hg : h.gens ≠ []) :
    infoSingleFile t f = .ok (sfLines (ownerHist h f).gens (posix (f.drop (ownerHist h f).root.length))) :=
  infoSingleFile_lines t h f hl hg

/-- … and that history is one of the loaded ones, rooted on the path, the path splits into its root and the path
looked up, and (distinct sibling names) no loaded history rooted on the path is rooted deeper -/
theorem infoSingleFile_nearest_spec (t : Node) (h : Hist) (f : RelPath) (hl : loadHistory t = .ok h)
    (hg : h.gens ≠ []) :
    ∃ o rel, o = ownerHist h f ∧ infoSingleFile t f = .ok (sfLines o.gens (posix rel)) ∧
      o ∈ allHists h ∧ o.root ++ rel = f ∧
      (t.NoDupNames → ∀ k ∈ allHists h, k.root <+: f → k.root.length ≤ o.root.length) :=
  ⟨_, _, rfl, infoSingleFile_nearest t h f hl hg, ownerHist_mem h f, (ownerHist_split t h hl f).2,
    fun hd => ownerHist_deepest_loaded t h hl hd f⟩

/-- the FORMER statement of `infoSingleFile_lines`, for a path no nested history lies on: the lines of the root
history under the path itself -/
theorem infoSingleFile_lines_root (t : Node) (h : Hist) (f : RelPath) (hl : loadHistory t = .ok h) (hg : h.gens ≠ [])
    (ho : ownerHist h f = h) :
    infoSingleFile t f = .ok (h.gens.flatMap fun g =>
      (recordEntries g (posix f)).map fun e => (g.number, e.fmt, e.digest, e.action)) := by
  rw [infoSingleFile_lines t h f hl hg, ho, loadHistory_root t h hl]
  rfl

/-- … in particular when no child history's root is a prefix of the path -/
theorem infoSingleFile_lines_no_nested (t : Node) (h : Hist) (f : RelPath) (hl : loadHistory t = .ok h)
    (hg : h.gens ≠ []) (hno : ∀ c ∈ h.children, ¬ c.root <+: f) :
    infoSingleFile t f = .ok (h.gens.flatMap fun g =>
      (recordEntries g (posix f)).map fun e => (g.number, e.fmt, e.digest, e.action)) :=
  infoSingleFile_lines_root t h f hl hg (ownerHist_eq_self h f hno)

/-- … and when the loaded history has no nested histories at all -/
theorem infoSingleFile_lines_flat (t : Node) (h : Hist) (f : RelPath) (hl : loadHistory t = .ok h) (hg : h.gens ≠ [])
    (hc : h.children = []) :
    infoSingleFile t f = .ok (h.gens.flatMap fun g =>
      (recordEntries g (posix f)).map fun e => (g.number, e.fmt, e.digest, e.action)) :=
  infoSingleFile_lines_root t h f hl hg (ownerHist_flat h f hc)

/-- CHANGED as `infoSingleFile_lines`: the count is over the generations of the nearest enclosing history and the
relative path (formerly `h.gens` and `posix f`; that statement is `infoSingleFile_count_root`). -/
theorem infoSingleFile_count (t : Node) (h : Hist) (f : RelPath) (ls : List (Nat × String × String × String))
    (hl : loadHistory t = .ok h) (hr : infoSingleFile t f = .ok ls) :
    ls.length = ((ownerHist h f).gens.map fun g =>
      (recordEntries g (posix (f.drop (ownerHist h f).root.length))).length).sum := by
  by_cases hg : h.gens = []
  · rw [(info_no_history t h f hl hg).2] at hr; cases hr
  · rw [infoSingleFile_lines t h f hl hg] at hr
    cases hr
    rw [List.length_flatMap]
    simp

/-- the former statement of `infoSingleFile_count` -/
theorem infoSingleFile_count_root (t : Node) (h : Hist) (f : RelPath) (ls : List (Nat × String × String × String))
    (hl : loadHistory t = .ok h) (hr : infoSingleFile t f = .ok ls) (ho : ownerHist h f = h) :
    ls.length = (h.gens.map fun g => (recordEntries g (posix f)).length).sum := by
  rw [infoSingleFile_count t h f ls hl hr, ho, loadHistory_root t h hl]
  rfl

theorem infoSingleFile_count_flat (t : Node) (h : Hist) (f : RelPath) (ls : List (Nat × String × String × String))
    (hl : loadHistory t = .ok h) (hr : infoSingleFile t f = .ok ls) (hc : h.children = []) :
    ls.length = (h.gens.map fun g => (recordEntries g (posix f)).length).sum :=
  infoSingleFile_count_root t h f ls hl hr (ownerHist_flat h f hc)

/-- membership form: a line is there iff that generation's record of the file has that entry.

CHANGED as `infoSingleFile_lines`: the generation is one of the nearest enclosing history and the record is the one
of the relative path (formerly `g ∈ h.gens` and `posix f`; that statement is `mem_infoSingleFile_root`). -/
theorem mem_infoSingleFile (t : Node) (h : Hist) (f : RelPath) (ls : List (Nat × String × String × String))
    (hl : loadHistory t = .ok h) (hr : infoSingleFile t f = .ok ls) (n : Nat) (fmt dig act : String) :
    (n, fmt, dig, act) ∈ ls ↔
      ∃ g ∈ (ownerHist h f).gens, g.number = n ∧
        ∃ r, g.gen.find (posix (f.drop (ownerHist h f).root.length)) = some r ∧
          ∃ e ∈ r.entries, e.fmt = fmt ∧ e.digest = dig ∧ e.action = act := by
  by_cases hg : h.gens = []
  · rw [(info_no_history t h f hl hg).2] at hr; cases hr
  · rw [infoSingleFile_lines t h f hl hg] at hr
    cases hr
    simp only [List.mem_flatMap, List.mem_map, Prod.mk.injEq]
    constructor
    · rintro ⟨g, hg', e, he, rfl, rfl, rfl, rfl⟩
      unfold recordEntries at he
      cases hf : g.gen.find (posix (f.drop (ownerHist h f).root.length)) with
      | none => simp [hf] at he
      | some r => simp only [hf] at he; exact ⟨g, hg', rfl, r, hf, e, he, rfl, rfl, rfl⟩
    · rintro ⟨g, hg', rfl, r, hf, e, he, rfl, rfl, rfl⟩
      exact ⟨g, hg', e, by simp [recordEntries, hf, he], rfl, rfl, rfl, rfl⟩

/-- the former statement of `mem_infoSingleFile` -/
theorem mem_infoSingleFile_root (t : Node) (h : Hist) (f : RelPath) (ls : List (Nat × String × String × String))
    (hl : loadHistory t = .ok h) (hr : infoSingleFile t f = .ok ls) (ho : ownerHist h f = h)
    (n : Nat) (fmt dig act : String) :
    (n, fmt, dig, act) ∈ ls ↔
      ∃ g ∈ h.gens, g.number = n ∧ ∃ r, g.gen.find (posix f) = some r ∧
        ∃ e ∈ r.entries, e.fmt = fmt ∧ e.digest = dig ∧ e.action = act := by
  rw [mem_infoSingleFile t h f ls hl hr, ho, loadHistory_root t h hl]
  rfl

theorem mem_infoSingleFile_flat (t : Node) (h : Hist) (f : RelPath) (ls : List (Nat × String × String × String))
    (hl : loadHistory t = .ok h) (hr : infoSingleFile t f = .ok ls) (hc : h.children = [])
    (n : Nat) (fmt dig act : String) :
    (n, fmt, dig, act) ∈ ls ↔
      ∃ g ∈ h.gens, g.number = n ∧ ∃ r, g.gen.find (posix f) = some r ∧
        ∃ e ∈ r.entries, e.fmt = fmt ∧ e.digest = dig ∧ e.action = act :=
  mem_infoSingleFile_root t h f ls hl hr (ownerHist_flat h f hc) n fmt dig act

/-! ### non-vacuity -/

section Examples

def g1 : Generation :=
  { fileName := "0001_root_2020-01-01_000000Z.mhl",
    records := [{ path := "a.txt", entries := [{ fmt := "md5", digest := "d1", action := "original" }] }] }
def g2 : Generation :=
  { fileName := "0002_root_2020-01-02_000000Z.mhl",
    records := [{ path := "a.txt", entries := [{ fmt := "md5", digest := "d1", action := "verified" },
                                               { fmt := "sha1", digest := "d2", action := "new" }] }] }
def gN : Generation := { fileName := "0001_card_2020-01-01_000000Z.mhl" }

/-- stored in the "wrong" order: the listing is by number -/
def sRoot : HistStore :=
  { gens := [g2, g1], chain := [⟨1, g1.fileName⟩, ⟨2, g2.fileName⟩] }
def sCard : HistStore := { gens := [gN], chain := [⟨1, gN.fileName⟩] }

def tree : Node := .dir "root" [.file "a.txt" [1], .dir "card" [] (some sCard)] (some sRoot)

def okVal {α : Type} : Except Err α → Option α
  | .ok a => some a
  | .error _ => none

example : okVal (info tree) = some [([], 1), ([], 2), (["card"], 1)] := by decide +kernel

example : okVal (infoSingleFile tree ["a.txt"]) =
    some [(1, "md5", "d1", "original"), (2, "md5", "d1", "verified"), (2, "sha1", "d2", "new")] := by
  decide +kernel

/-! #### nested histories: `card` (one generation) inside the root, `card/reel` (two generations) inside `card`; every
one of the three records a file `a.txt` of its own -/

def gC1 : Generation :=
  { fileName := "0001_card_2020-01-01_000000Z.mhl",
    records := [{ path := "a.txt", entries := [{ fmt := "md5", digest := "c1", action := "original" }] },
                { path := "sub/b.txt", entries := [{ fmt := "md5", digest := "c2", action := "original" }] }] }
def gR1 : Generation :=
  { fileName := "0001_reel_2020-01-01_000000Z.mhl",
    records := [{ path := "a.txt", entries := [{ fmt := "xxh64", digest := "r1", action := "original" }] }] }
def gR2 : Generation :=
  { fileName := "0002_reel_2020-01-02_000000Z.mhl",
    records := [{ path := "a.txt", entries := [{ fmt := "xxh64", digest := "r1", action := "verified" }] }] }
def sCardN : HistStore := { gens := [gC1], chain := [⟨1, gC1.fileName⟩] }
def sReel : HistStore := { gens := [gR1, gR2], chain := [⟨1, gR1.fileName⟩, ⟨2, gR2.fileName⟩] }

def treeN : Node :=
  .dir "root" [.file "a.txt" [1],
               .dir "card" [.file "a.txt" [2], .dir "sub" [.file "b.txt" [3]] none,
                            .dir "reel" [.file "a.txt" [4]] (some sReel)] (some sCardN)] (some sRoot)

example : okVal (info treeN) =
    some [([], 1), ([], 2), (["card"], 1), (["card", "reel"], 1), (["card", "reel"], 2)] := by decide +kernel

/-- a file below the nested history, asked at the root: the lines of the NESTED history `card` (under `a.txt`, the
path relative to `card`) — before the repair this printed nothing -/
example : okVal (infoSingleFile treeN ["card", "a.txt"]) = some [(1, "md5", "c1", "original")] := by decide +kernel

/-- the file with the same name in the root: the lines of the ROOT history -/
example : okVal (infoSingleFile treeN ["a.txt"]) =
    some [(1, "md5", "d1", "original"), (2, "md5", "d1", "verified"), (2, "sha1", "d2", "new")] := by
  decide +kernel

/-- a file in a sub-folder of the nested history: looked up as `sub/b.txt` in `card` -/
example : okVal (infoSingleFile treeN ["card", "sub", "b.txt"]) = some [(1, "md5", "c2", "original")] := by
  decide +kernel

/-- two levels down: the DEEPEST history on the path (`card/reel`), not `card` -/
example : okVal (infoSingleFile treeN ["card", "reel", "a.txt"]) =
    some [(1, "xxh64", "r1", "original"), (2, "xxh64", "r1", "verified")] := by decide +kernel

/-- a folder whose name merely starts with `card` is not below `card` (roots are compared component by component) -/
example : okVal (infoSingleFile treeN ["cardx", "a.txt"]) = some [] := by decide +kernel

/-- the owners, and the hypotheses of `ownerHist_deepest_loaded` -/
example : (okVal (loadHistory treeN)).map (fun h =>
      ((allHists h).map (·.root), (ownerHist h ["a.txt"]).root, (ownerHist h ["card", "a.txt"]).root,
        (ownerHist h ["card", "reel", "a.txt"]).root)) =
    some ([[], ["card"], ["card", "reel"]], [], ["card"], ["card", "reel"]) := by decide +kernel

example : treeN.NoDupNames := by
  simp [treeN, Node.NoDupNames, Node.NamesDistinct, Node.NamesDistinctKids, Node.name]

/-- a folder without `ascmhl`: 30 -/
example : exceptErr (info (.dir "root" [.file "a.txt" [1]] none)) = some (.exit 30) := by decide +kernel

end Examples

end MhlProps.C19
