/-
C19 — `info` reports the recorded history truthfully.

`info` lists, for the history at the root and every nested history (pre-order, children in discovery order), one line
per generation in ascending generation order; `info -sf FILE` lists, generation by generation, exactly the digests
recorded for the file in the root history.  Without any generation both end with 30.
-/
import MhlProps.Proofs.LoadLemmas
import MhlProps.C06

namespace MhlProps.C19
open MhlModel

/-! ### no history -/

theorem errNoHistory_code : errNoHistory = .exit 30 := by decide

theorem info_no_history (t : Node) (h : Hist) (f : RelPath) (hl : loadHistory t = .ok h) (hg : h.gens = []) :
    info t = .error errNoHistory ∧ infoSingleFile t f = .error errNoHistory := by
  constructor
  · simp [info, hl, hg, bind, Except.bind, throw, throwThe, MonadExceptOf.throw]
  · simp [infoSingleFile, hl, hg, bind, Except.bind, throw, throwThe, MonadExceptOf.throw]

/-! ### `info` -/

theorem info_lines (t : Node) (h : Hist) (hl : loadHistory t = .ok h) (hg : h.gens ≠ []) :
    info t = .ok (infoLines h) := by
  have : h.gens.isEmpty = false := by cases hh : h.gens <;> simp_all
  simp [info, hl, this, bind, Except.bind, pure, Except.pure]

/-- `info` in one equation: the error of loading, 30 without generations, else the lines -/
theorem info_spec (t : Node) :
    info t = match loadHistory t with
      | .error e => .error e
      | .ok h => if h.gens = [] then .error errNoHistory else .ok (infoLines h) := by
  cases hl : loadHistory t with
  | error e => simp [info, hl, bind, Except.bind]
  | ok h =>
    by_cases hg : h.gens = []
    · simp [hg, (info_no_history t h [] hl hg).1]
    · simp [hg, info_lines t h hl hg]

theorem infoLinesList_eq (cs : List Hist) : infoLinesList cs = cs.flatMap infoLines := by
  induction cs with
  | nil => simp [infoLinesList]
  | cons c cs ih => simp [infoLinesList, ih]

/-- the history's own generations in stored order, then every nested history in order (pre-order) -/
theorem infoLines_spec (r : RelPath) (gens : List LGen) (c : List ChainEntry) (e : Bool) (cs : List Hist) :
    infoLines (.mk r gens c e cs) = gens.map (fun g => (r, g.number)) ++ cs.flatMap infoLines := by
  rw [infoLines, infoLinesList_eq]

/-- the lines one history contributes itself -/
def ownLines (x : Hist) : List (RelPath × Nat) := x.gens.map fun g => (x.root, g.number)

mutual
theorem infoLines_flat : (h : Hist) → infoLines h = (h :: allDescendants h).flatMap ownLines
  | .mk r gens c e cs => by
    rw [infoLines, allDescendants, List.flatMap_cons, infoLinesList_flat cs]
    rfl
theorem infoLinesList_flat : (cs : List Hist) → infoLinesList cs = (descList cs).flatMap ownLines
  | [] => by simp [infoLinesList, descList]
  | c :: cs => by
    rw [infoLinesList, descList, infoLines_flat c, infoLinesList_flat cs]
    simp [List.flatMap_append]
end

/-- the listing as a whole: history by history in pre-order (`h :: allDescendants h`), each with its generations in
stored order — nothing else, nothing twice -/
theorem infoLines_eq_flatMap (h : Hist) :
    infoLines h = (h :: allDescendants h).flatMap fun x => x.gens.map fun g => (x.root, g.number) :=
  infoLines_flat h

/-- membership: exactly the pairs (root, number) of every history and each of its generations -/
theorem mem_infoLines (h : Hist) (p : RelPath) (n : Nat) :
    (p, n) ∈ infoLines h ↔ ∃ x ∈ h :: allDescendants h, x.root = p ∧ ∃ g ∈ x.gens, g.number = n := by
  rw [infoLines_flat]
  simp only [List.mem_flatMap, ownLines, List.mem_map, Prod.mk.injEq]
  constructor
  · rintro ⟨x, hx, g, hg, rfl, rfl⟩; exact ⟨x, hx, rfl, g, hg, rfl⟩
  · rintro ⟨x, hx, rfl, g, hg, rfl⟩; exact ⟨x, hx, g, hg, rfl, rfl⟩

theorem infoLines_length (h : Hist) :
    (infoLines h).length = ((h :: allDescendants h).map fun x => x.gens.length).sum := by
  rw [infoLines_flat, List.length_flatMap]
  simp [ownLines]

/-- the generations of the loaded root history are those of the root store, numbered by name, ascending -/
theorem loadHistory_gens (t : Node) (h : Hist) (hl : loadHistory t = .ok h) :
    h.gens = (match t.hist with | none => [] | some s => loadGens s) := by
  obtain ⟨kids, _, rfl⟩ := loadHistory_ok_eq t h hl
  cases t.hist <;> rfl

/-- the lines of the root history come first and in ascending generation order -/
theorem info_root_lines_sorted (t : Node) (h : Hist) (hl : loadHistory t = .ok h) :
    (h.gens.map (·.number)).Pairwise (· ≤ ·) := by
  rw [loadHistory_gens t h hl]
  cases t.hist with
  | none => simp
  | some s => exact MhlProps.C06.loadGens_sorted s

/-! ### `info -sf` -/

/-- the entries recorded for a path in one generation (none if the generation does not know the path) -/
def recordEntries (g : LGen) (path : String) : List Entry :=
  match g.gen.find path with
  | none => []
  | some r => r.entries

/-- generation by generation, the entries of the record of the file as (number, format, digest, action) — nothing
added, nothing dropped -/
theorem infoSingleFile_lines (t : Node) (h : Hist) (f : RelPath) (hl : loadHistory t = .ok h) (hg : h.gens ≠ []) :
    infoSingleFile t f = .ok (h.gens.flatMap fun g =>
      (recordEntries g (posix f)).map fun e => (g.number, e.fmt, e.digest, e.action)) := by
  have : h.gens.isEmpty = false := by cases hh : h.gens <;> simp_all
  simp only [infoSingleFile, hl, this, bind, Except.bind, pure, Except.pure, Bool.false_eq_true, if_false]
  congr 2
  funext g
  unfold recordEntries
  cases g.gen.find (posix f) <;> rfl

theorem infoSingleFile_count (t : Node) (h : Hist) (f : RelPath) (ls : List (Nat × String × String × String))
    (hl : loadHistory t = .ok h) (hr : infoSingleFile t f = .ok ls) :
    ls.length = (h.gens.map fun g => (recordEntries g (posix f)).length).sum := by
  by_cases hg : h.gens = []
  · rw [(info_no_history t h f hl hg).2] at hr; cases hr
  · rw [infoSingleFile_lines t h f hl hg] at hr
    cases hr
    rw [List.length_flatMap]
    simp

/-- membership form: a line is there iff that generation's record of the file has that entry -/
theorem mem_infoSingleFile (t : Node) (h : Hist) (f : RelPath) (ls : List (Nat × String × String × String))
    (hl : loadHistory t = .ok h) (hr : infoSingleFile t f = .ok ls) (n : Nat) (fmt dig act : String) :
    (n, fmt, dig, act) ∈ ls ↔
      ∃ g ∈ h.gens, g.number = n ∧ ∃ r, g.gen.find (posix f) = some r ∧
        ∃ e ∈ r.entries, e.fmt = fmt ∧ e.digest = dig ∧ e.action = act := by
  by_cases hg : h.gens = []
  · rw [(info_no_history t h f hl hg).2] at hr; cases hr
  · rw [infoSingleFile_lines t h f hl hg] at hr
    cases hr
    simp only [List.mem_flatMap, List.mem_map, Prod.mk.injEq]
    constructor
    · rintro ⟨g, hg', e, he, rfl, rfl, rfl, rfl⟩
      unfold recordEntries at he
      cases hf : g.gen.find (posix f) with
      | none => simp [hf] at he
      | some r => simp only [hf] at he; exact ⟨g, hg', rfl, r, hf, e, he, rfl, rfl, rfl⟩
    · rintro ⟨g, hg', rfl, r, hf, e, he, rfl, rfl, rfl⟩
      exact ⟨g, hg', e, by simp [recordEntries, hf, he], rfl, rfl, rfl, rfl⟩

/-! ### non-vacuity -/

section Examples

def g1 : Generation :=
  { fileName := "0001_root_2020-01-01_000000Z.mhl",
    records := [{ path := "a.txt", entries := [{ fmt := "md5", digest := "d1", action := "original" }] }] }
def g2 : Generation :=
  { fileName := "0002_root_2020-01-02_000000Z.mhl",
    records := [{ path := "a.txt", entries := [{ fmt := "md5", digest := "d1", action := "verified" },
                                               { fmt := "sha1", digest := "d2", action := "new" }] }] }
def gN : Generation := { fileName := "0001_card_2020-01-01_000000Z.mhl" }

/-- stored in the "wrong" order: the listing is by number -/
def sRoot : HistStore :=
  { gens := [g2, g1], chain := [⟨1, g1.fileName⟩, ⟨2, g2.fileName⟩] }
def sCard : HistStore := { gens := [gN], chain := [⟨1, gN.fileName⟩] }

def tree : Node := .dir "root" [.file "a.txt" [1], .dir "card" [] (some sCard)] (some sRoot)

def okVal {α : Type} : Except Err α → Option α
  | .ok a => some a
  | .error _ => none

example : okVal (info tree) = some [([], 1), ([], 2), (["card"], 1)] := by decide +kernel

example : okVal (infoSingleFile tree ["a.txt"]) =
    some [(1, "md5", "d1", "original"), (2, "md5", "d1", "verified"), (2, "sha1", "d2", "new")] := by
  decide +kernel

/-- a folder without `ascmhl`: 30 -/
example : exceptErr (info (.dir "root" [.file "a.txt" [1]] none)) = some (.exit 30) := by decide +kernel

end Examples

end MhlProps.C19
