/-
C06seq — C06 (and the monotone part of C12) as an INVARIANT BY INDUCTION over arbitrary sequences of operations.

  Whatever sequence of media edits and `create` runs (any options; folder mode, `-sf`, `-n`, `-dr`, `-i`; whether a
  run ends normally or with an error) is applied to a folder, its history only ever grows at the end: generations
  are numbered 1..n without gaps, every earlier generation and chain entry is unchanged, and each generation's
  ignore list extends the previous one's.

Setting: ONE history, at the root (`noNested t`: no `ascmhl` folder anywhere below the root), the root is a folder,
`env.rootName` and every step's stamp free of '\n' (else the manifest name does not parse, C06).  The digest
function, the decoder and the matcher of `env` are arbitrary.

Definitions
  `MediaEdit edit`     the edit leaves the root's `hist` alone, keeps the root a folder, keeps `noNested`
                       (instances: `mediaEdit_id`, `mediaEdit_comp`, `mediaEdit_replaceKids`, `mediaEdit_editFile`)
  `Step`, `Step.Ok`    edit + options + stamp; the edit is a `MediaEdit`, the stamp has no line feed
  `stepTree env t st`  `applyWritten (edit t) (create {env with stamp} (edit t) opts).written`
  `run env t steps`    the fold of `stepTree`
  `GoodHist t n gs`    `loadHistory t = .ok h`, numbers = 1..n, stored generations = `gs`, chain = one entry per
                       generation (number, file name), every stored manifest present and unaltered
  `StoreExact t gs`    the root's `ascmhl` folder holds exactly `gs` and `chainFrom 1 gs` (or does not exist)
  `gensOf t`, `chainOf t`  what `loadHistory t` yields (no existential)

Theorems (all for folder mode AND `-sf`; nothing is restricted to `singleFiles = []`)
  1. `step_appends_partial`, `step_appends`   one step: nothing written and same `gs`, or exactly one generation
       `g` written and `GoodHist t₂ (n+1) (gs ++ [g])`, `g` named `genFileName (n+1) rootName stamp`, `g.ignore`
       duplicate-free, containing every recorded and every given pattern, equal to `newIgnore gs opts`, and having
       the latest recorded list as a PREFIX.
       The prefix clause is FALSE for a hand-made history whose latest list repeats a line
       (`step_prefix_needs_nodup`), so `step_appends_partial` states it under `(lastIgnore gs).Nodup` and
       `step_appends` carries the invariant `NodupIgnores gs` (and re-establishes it); everything else is
       unconditional.  In a run from a folder without history the invariant always holds.
  2. `run_good`, `run_invariant`, `run_append_only`   the induction: `GoodHist (run env t steps) n gs` with
       `n ≤ steps.length`, and for every split `steps₁ ++ steps₂` the generations / chain after `steps₁` are a
       prefix of those after `steps`.
  3. `run_numbers_contiguous`   numbers exactly 1..n, every manifest numbered by its own name, names pairwise
       different, what is on disk is what is loaded, and the name a next step writes is not on disk yet.
  4. `run_ignore_monotone`      consecutive (hence any two ordered) pattern lists are prefixes; all duplicate-free.
Non-vacuity: `exSteps` (create; alter a file + create with other formats and `-i`, ending with exit code 11;
create -n; add a file + create -sf), evaluated by `decide +kernel`; `exSteps5` adds a step that writes nothing.

Helper lemmas: MhlProps/Proofs/SeqLemmas.lean.
-/
import MhlProps.Proofs.SeqLemmas

namespace MhlProps.C06seq
open MhlModel

/-! ### definitions -/

/-- an edit of the media: it leaves the root's `ascmhl` folder alone, keeps the root a folder and puts no `ascmhl`
folder anywhere below the root -/
structure MediaEdit (edit : Node → Node) : Prop where
  hist_eq : ∀ t, t.isDir = true → (edit t).hist = t.hist
  isDir : ∀ t, t.isDir = true → (edit t).isDir = true
  noNested : ∀ t, t.isDir = true → noNested t = true → noNested (edit t) = true

/-- one step of a run: an edit of the media followed by a `create` with some options at some time -/
structure Step where
  edit : Node → Node
  opts : CreateOpts
  stamp : String

/-- the step is admissible: a media edit, and a time stamp without line feed -/
structure Step.Ok (st : Step) : Prop where
  edit : MediaEdit st.edit
  stamp : '\n' ∉ st.stamp.toList

/-- `create` at time `stamp`, its manifests written back into the tree.  A run that ends with an error still leaves
whatever it wrote (`written` is `[]` exactly when nothing was committed). -/
def createStep (env : Env) (stamp : String) (o : CreateOpts) (t : Node) : Node :=
  applyWritten t (create { env with stamp := stamp } t o).written

def stepTree (env : Env) (t : Node) (st : Step) : Node := createStep env st.stamp st.opts (st.edit t)

def run (env : Env) (t : Node) (steps : List Step) : Node := steps.foldl (stepTree env) t

/-- the history of `t` loads, as generations 1..n = `gs` (the stored `Generation` values, in order), the chain has
exactly one entry per generation with its number and file name, and every manifest in the root's `ascmhl` folder
is present and unaltered.  `n = 0`: no generation (e.g. no `ascmhl` folder at all). -/
def GoodHist (t : Node) (n : Nat) (gs : List Generation) : Prop :=
  ∃ h, loadHistory t = .ok h ∧
    h.gens.map (·.number) = List.range' 1 n ∧
    h.gens.map (·.gen) = gs ∧
    h.chain = h.gens.map chainEntryOf ∧
    ∀ s, t.hist = some s → ∀ g ∈ s.gens, g.state = .ok

/-- the generations / chain entries a tree loads with ([] if it does not load) -/
def gensOf (t : Node) : List Generation :=
  match loadHistory t with
  | .ok h => h.gens.map (·.gen)
  | .error _ => []

def chainOf (t : Node) : List ChainEntry :=
  match loadHistory t with
  | .ok h => h.chain
  | .error _ => []

/-- every pattern list is duplicate-free (true of every list the tool writes) -/
def NodupIgnores (gs : List Generation) : Prop := ∀ g ∈ gs, g.ignore.Nodup

/-- each generation's pattern list extends the one before -/
def IgnoreMonotone (gs : List Generation) : Prop :=
  ∀ i (h : i + 1 < gs.length), gs[i].ignore <+: gs[i + 1].ignore

/-! ### `GoodHist` on a flat tree is a statement about the root's `ascmhl` folder -/

theorem goodHist_iff_store (t : Node) (hn : noNested t = true) (n : Nat) (gs : List Generation) :
    GoodHist t n gs ↔ GoodStore t.hist n gs := by
  unfold GoodHist GoodStore
  rw [loadHistory_noNested_seq t hn, buildHist_flat_seq]
  constructor
  · rintro ⟨h, hl, h1, h2, h3, h4⟩
    cases hc : checkStore t.hist with
    | error e => rw [hc] at hl; cases hl
    | ok u =>
      rw [hc] at hl
      cases hl
      exact ⟨rfl, h1, h2, h3, h4⟩
  · rintro ⟨hc, h1, h2, h3, h4⟩
    rw [hc]
    exact ⟨_, rfl, h1, h2, h3, h4⟩

theorem goodHist_load (t : Node) (n : Nat) (gs : List Generation) (h : GoodHist t n gs) :
    gensOf t = gs ∧ gs.length = n ∧ (chainOf t).length = n ∧
      (chainOf t).map (·.seq) = List.range' 1 n ∧ (chainOf t).map (·.fileName) = gs.map (·.fileName) := by
  obtain ⟨hh, hl, h1, h2, h3, -⟩ := h
  unfold gensOf chainOf
  rw [hl]
  simp only
  have hlen : hh.gens.length = n := by
    have := congrArg List.length h1
    simpa using this
  refine ⟨h2, ?_, ?_, ?_, ?_⟩
  · rw [← h2, List.length_map, hlen]
  · rw [h3, List.length_map, hlen]
  · rw [h3, List.map_map, ← h1]; rfl
  · rw [h3, ← h2, List.map_map, List.map_map]; rfl

/-- `GoodHist` determines `n` and `gs` -/
theorem goodHist_unique (t : Node) (n m : Nat) (gs gs' : List Generation) (h : GoodHist t n gs)
    (h' : GoodHist t m gs') : n = m ∧ gs = gs' := by
  obtain ⟨a1, a2, -⟩ := goodHist_load t n gs h
  obtain ⟨b1, b2, -⟩ := goodHist_load t m gs' h'
  have : gs = gs' := a1.symm.trans b1
  subst this
  exact ⟨a2.symm.trans b2, rfl⟩

/-- a flat folder without `ascmhl` folder is in order, with no generation -/
theorem goodHist_fresh (t : Node) (hn : noNested t = true) (hh : t.hist = none) : GoodHist t 0 [] := by
  rw [goodHist_iff_store t hn, hh]
  exact ⟨rfl, rfl, rfl, rfl, fun s hs => by cases hs⟩

theorem loaded_gens_eq (t : Node) (h : Hist) (hl : loadHistory t = .ok h) : h.gens = storeGens t.hist := by
  obtain ⟨kids, -, rfl⟩ := loadHistory_ok_eq t h hl
  cases t.hist <;> rfl

/-- in a folder in order every manifest is numbered by its own file name, so the names are pairwise different -/
theorem goodHist_names (t : Node) (n : Nat) (gs : List Generation) (hg : GoodHist t n gs) :
    (gs.map (·.fileName)).Nodup ∧
      ∀ i (hi : i < gs.length), parseGenName gs[i].fileName = some (i + 1) := by
  obtain ⟨h, hl, h1, h2, -, -⟩ := hg
  have hparse : ∀ g ∈ h.gens, parseGenName g.gen.fileName = some g.number := by
    rw [loaded_gens_eq t h hl]; exact storeGens_parse_seq _
  subst h2
  constructor
  · have hnd : (h.gens.map (·.number)).Nodup := by rw [h1]; exact List.nodup_range'
    have heq : h.gens.map (·.number)
        = ((h.gens.map (·.gen)).map (·.fileName)).map (fun s => (parseGenName s).getD 0) := by
      rw [List.map_map, List.map_map]
      apply List.map_congr_left
      intro g hg
      simp [hparse g hg]
    rw [heq] at hnd
    exact List.Nodup.of_map _ hnd
  · intro i hi
    simp only [List.length_map] at hi
    simp only [List.getElem_map]
    rw [hparse _ (List.getElem_mem hi)]
    have : (h.gens.map (·.number))[i]'(by simpa using hi) = (List.range' 1 n)[i]'(by rw [← h1]; simpa using hi) := by
      simp only [h1]
    simp only [List.getElem_map, List.getElem_range'] at this
    rw [this]; congr 1; omega


/-! ### one `create` on a folder in order -/

theorem create_written_cases (env : Env) (t : Node) (o : CreateOpts) (rootHist : Hist)
    (hl : loadHistory t = .ok rootHist) :
    (create env t o).written = [] ∨
      ∃ s, s.patterns = setPatterns (latestIgnore rootHist.gens) o.ignoreCli o.ignoreFile ∧
        commit rootHist s env.rootName env.stamp "in-place" none = .ok (create env t o).written := by
  unfold create
  split
  · exact createFolder_written_pats_seq env t o rootHist hl
  · exact createSingleFiles_written_pats_seq env t o rootHist hl

/-- the pattern list of the generation a `create` with options `o` writes on top of the generations `gs`: the
run's list (latest recorded list, or the defaults, plus `-i` patterns, plus the lines of the pattern file) laid
over the latest recorded list once more (`write_new_generation`) -/
def newIgnore (gs : List Generation) (o : CreateOpts) : List String :=
  setPatterns (gs.getLast?.map (·.ignore)) (setPatterns (gs.getLast?.map (·.ignore)) o.ignoreCli o.ignoreFile) []

theorem newIgnore_contains_options (gs : List Generation) (o : CreateOpts) :
    ∀ p, p ∈ o.ignoreCli ∨ p ∈ o.ignoreFile → p ∈ newIgnore gs o := by
  intro p hp
  unfold newIgnore
  apply (C12.setPatterns_contains_new _ _ _).1
  rcases hp with hp | hp
  · exact (C12.setPatterns_contains_new _ _ _).1 p hp
  · exact (C12.setPatterns_contains_new _ _ _).2 p hp

/-- what one `create` does to a flat folder in order -/
theorem createStep_appends (env : Env) (hrn : '\n' ∉ env.rootName.toList) (stamp : String)
    (hstamp : '\n' ∉ stamp.toList) (o : CreateOpts) (t : Node) (hdir : t.isDir = true)
    (hn : noNested t = true) (n : Nat) (gs : List Generation) (hg : GoodHist t n gs) :
    (createStep env stamp o t).isDir = true ∧ noNested (createStep env stamp o t) = true ∧
    (((create { env with stamp := stamp } t o).written = [] ∧ createStep env stamp o t = t) ∨
      ∃ w, (create { env with stamp := stamp } t o).written = [w] ∧ w.histRoot = [] ∧ w.number = n + 1 ∧
        w.gen.fileName = genFileName (n + 1) env.rootName stamp ∧ w.gen.state = .ok ∧
        w.gen.ignore = newIgnore gs o ∧
        (createStep env stamp o t).hist = some ((t.hist.getD {}).add w) ∧
        GoodHist (createStep env stamp o t) (n + 1) (gs ++ [w.gen])) := by
  have hgs := (goodHist_iff_store t hn n gs).1 hg
  have hl : loadHistory t = .ok (buildHist [] t.hist []) := by
    rw [loadHistory_noNested_seq t hn, hgs.1]; rfl
  unfold createStep
  rcases create_written_cases { env with stamp := stamp } t o _ hl with h0 | ⟨s, hpats, hcm⟩
  · rw [h0]
    exact ⟨hdir, hn, Or.inl ⟨rfl, rfl⟩⟩
  · rcases commit_goodStore_seq t.hist n gs hgs s env.rootName stamp hrn hstamp _ hcm with h0 | ⟨w, hw, hroot,
      hnum, hname, hparse, hstate, hign⟩
    · rw [h0]
      exact ⟨hdir, hn, Or.inl ⟨rfl, rfl⟩⟩
    · rw [hw]
      cases t with
      | file nm c => cases hdir
      | dir nm cs hs =>
        rw [applyWritten_root nm cs hs w hroot]
        have hign' : w.gen.ignore = newIgnore gs o := by
          rw [hign, hpats, buildHist_flat_seq]
          simp only [Hist.gens]
          rw [latestIgnore_map_seq, hgs.2.2.1]; rfl
        refine ⟨rfl, hn, Or.inr ⟨w, rfl, hroot, hnum, hname, hstate, hign', rfl, ?_⟩⟩
        rw [goodHist_iff_store _ (by exact hn)]
        exact goodStore_add_seq hs n gs hgs w hparse hstate hnum


/-! ### bookkeeping of the pattern lists -/

theorem lastIgnore_append (gs : List Generation) (g : Generation) : lastIgnore (gs ++ [g]) = g.ignore := by
  simp [lastIgnore]

theorem lastIgnore_nodup (gs : List Generation) (h : NodupIgnores gs) : (lastIgnore gs).Nodup := by
  unfold lastIgnore
  cases hl : gs.getLast? with
  | none => simp
  | some g => exact h g (List.mem_of_getLast? hl)

theorem nodupIgnores_append (gs : List Generation) (g : Generation) (h : NodupIgnores gs) (hg : g.ignore.Nodup) :
    NodupIgnores (gs ++ [g]) := by
  intro x hx
  rcases List.mem_append.1 hx with hx | hx
  · exact h x hx
  · simp only [List.mem_singleton] at hx; subst hx; exact hg

theorem ignoreMonotone_append (gs : List Generation) (g : Generation) (h : IgnoreMonotone gs)
    (hg : lastIgnore gs <+: g.ignore) : IgnoreMonotone (gs ++ [g]) := by
  intro i hi
  simp only [List.length_append, List.length_singleton] at hi
  by_cases hlt : i + 1 < gs.length
  · rw [List.getElem_append_left (by omega), List.getElem_append_left hlt]
    exact h i hlt
  · have hi1 : i + 1 = gs.length := by omega
    rw [List.getElem_append_left (by omega), List.getElem_append_right (by omega)]
    simp only [hi1, Nat.sub_self, List.getElem_cons_zero]
    have : lastIgnore gs = gs[i].ignore := by
      unfold lastIgnore
      rw [List.getLast?_eq_getElem?]
      have : gs.length - 1 = i := by omega
      rw [this, List.getElem?_eq_getElem (by omega)]
      rfl
    rw [← this]; exact hg


/-! ### 1. one step appends -/

/-- the root's `ascmhl` folder holds exactly the generations `gs` and their chain, nothing else (no folder at all
when there is no generation) -/
def StoreExact (t : Node) (gs : List Generation) : Prop :=
  (t.hist = none ∧ gs = []) ∨ t.hist = some { gens := gs, chain := chainFrom 1 gs, chainPresent := true }

theorem mediaEdit_good (edit : Node → Node) (he : MediaEdit edit) (t : Node) (hdir : t.isDir = true)
    (hn : noNested t = true) (n : Nat) (gs : List Generation) (hg : GoodHist t n gs) :
    GoodHist (edit t) n gs := by
  rw [goodHist_iff_store _ (he.noNested t hdir hn), he.hist_eq t hdir]
  exact (goodHist_iff_store t hn n gs).1 hg

/-
1. `step_appends` AS LITERALLY STATED IN THE TASK (hypotheses `GoodHist t n gs` and `MediaEdit edit` only) is FALSE
of the model in one clause: the PREFIX clause `lastIgnore gs <+: g.ignore` needs the previous generation's pattern
list to be duplicate-free, because `basePatterns` re-reads the recorded list through `appendPatterns []`, which drops
repeated lines (`["a","a"]` is recorded, `["a", …]` is written next).  `step_prefix_needs_nodup` below is the
concrete witness.  A list with duplicates can only come from a hand-made manifest: every list the tool writes is
duplicate-free (`C12.setPatterns_nodup`), so the hypothesis is an invariant of every run (`run_invariant`).

`step_appends_partial` is the statement with the prefix clause conditional on exactly that; everything else is
unconditional.  `step_appends` is the statement as given, with the invariant `NodupIgnores gs` as a hypothesis, and
it re-establishes it.
-/
theorem step_appends_partial (env : Env) (hrn : '\n' ∉ env.rootName.toList) (t : Node) (hdir : t.isDir = true)
    (hn : noNested t = true) (n : Nat) (gs : List Generation) (hg : GoodHist t n gs) (st : Step) (hst : st.Ok) :
    (stepTree env t st).isDir = true ∧ noNested (stepTree env t st) = true ∧
    (((create { env with stamp := st.stamp } (st.edit t) st.opts).written = [] ∧
        stepTree env t st = st.edit t ∧ GoodHist (stepTree env t st) n gs) ∨
      ∃ w, (create { env with stamp := st.stamp } (st.edit t) st.opts).written = [w] ∧
        w.histRoot = [] ∧ w.number = n + 1 ∧
        GoodHist (stepTree env t st) (n + 1) (gs ++ [w.gen]) ∧
        (stepTree env t st).hist = some ((t.hist.getD {}).add w) ∧
        ((lastIgnore gs).Nodup → lastIgnore gs <+: w.gen.ignore) ∧
        (∀ p ∈ lastIgnore gs, p ∈ w.gen.ignore) ∧
        w.gen.ignore.Nodup ∧
        w.gen.ignore = newIgnore gs st.opts ∧
        (∀ p, p ∈ st.opts.ignoreCli ∨ p ∈ st.opts.ignoreFile → p ∈ w.gen.ignore) ∧
        w.gen.fileName = genFileName (n + 1) env.rootName st.stamp ∧ w.gen.state = .ok) := by
  have hdir' := hst.edit.isDir t hdir
  have hn' := hst.edit.noNested t hdir hn
  have hg' := mediaEdit_good st.edit hst.edit t hdir hn n gs hg
  obtain ⟨h1, h2, h3⟩ := createStep_appends env hrn st.stamp hst.stamp st.opts (st.edit t) hdir' hn' n gs hg'
  refine ⟨h1, h2, ?_⟩
  rcases h3 with ⟨h0, heq⟩ | ⟨w, hw, hroot, hnum, hname, hstate, hign, hhist, hgood⟩
  · left
    refine ⟨h0, heq, ?_⟩
    show GoodHist (createStep env st.stamp st.opts (st.edit t)) n gs
    rw [heq]; exact hg'
  · right
    refine ⟨w, hw, hroot, hnum, hgood, ?_, ?_, ?_, ?_, hign, ?_, hname, hstate⟩
    · rw [← hst.edit.hist_eq t hdir]; exact hhist
    · intro hnd
      rw [hign]; exact setPatterns_extends_last_seq gs _ [] hnd
    · intro p hp
      rw [hign]
      exact setPatterns_contains_last_seq gs _ [] p hp
    · rw [hign]; exact C12.setPatterns_nodup _ _ _
    · rw [hign]; exact newIgnore_contains_options gs st.opts


/-- `step_appends`, the statement of the task: if the folder is in order with generations `gs` (and, the invariant
the prefix clause needs, duplicate-free pattern lists), then after a media edit and a `create` (any options, folder
mode or `-sf`, whether or not it ends with an error) either nothing was written and the folder is in order with
the same `gs`, or exactly one generation `g` was written and the folder is in order with `gs ++ [g]`, where
`g.ignore` has the latest recorded pattern list as a prefix and `g` is named `genFileName (n+1) rootName stamp`. -/
theorem step_appends (env : Env) (hrn : '\n' ∉ env.rootName.toList) (t : Node) (hdir : t.isDir = true)
    (hn : noNested t = true) (n : Nat) (gs : List Generation) (hg : GoodHist t n gs) (hnd : NodupIgnores gs)
    (st : Step) (hst : st.Ok) :
    ((create { env with stamp := st.stamp } (st.edit t) st.opts).written = [] ∧
        GoodHist (stepTree env t st) n gs) ∨
      ∃ w, (create { env with stamp := st.stamp } (st.edit t) st.opts).written = [w] ∧
        GoodHist (stepTree env t st) (n + 1) (gs ++ [w.gen]) ∧ NodupIgnores (gs ++ [w.gen]) ∧
        lastIgnore gs <+: w.gen.ignore ∧ w.gen.ignore = newIgnore gs st.opts ∧
        w.gen.fileName = genFileName (n + 1) env.rootName st.stamp := by
  obtain ⟨-, -, h⟩ := step_appends_partial env hrn t hdir hn n gs hg st hst
  rcases h with ⟨h0, -, hg'⟩ | ⟨w, hw, -, -, hg', -, hpre, -, hnd', hign, -, hname, -⟩
  · exact Or.inl ⟨h0, hg'⟩
  · exact Or.inr ⟨w, hw, hg', nodupIgnores_append gs _ hnd hnd', hpre (lastIgnore_nodup gs hnd), hign, hname⟩

/-- everything that holds of a folder at every point of a run -/
structure RunInv (t : Node) (n : Nat) (gs : List Generation) : Prop where
  isDir : t.isDir = true
  flat : noNested t = true
  good : GoodHist t n gs
  nodup : NodupIgnores gs
  mono : IgnoreMonotone gs
  exact : StoreExact t gs

theorem runInv_fresh (t : Node) (hdir : t.isDir = true) (hn : noNested t = true) (hh : t.hist = none) :
    RunInv t 0 [] :=
  ⟨hdir, hn, goodHist_fresh t hn hh, (fun g hg => by cases hg), (fun i hi => by simp at hi), Or.inl ⟨hh, rfl⟩⟩

theorem storeExact_add (hs : Option HistStore) (gs : List Generation) (w : Written)
    (hex : (hs = none ∧ gs = []) ∨ hs = some { gens := gs, chain := chainFrom 1 gs, chainPresent := true })
    (hnum : w.number = gs.length + 1) (hfresh : w.gen.fileName ∉ gs.map (·.fileName)) :
    (hs.getD {}).add w = { gens := gs ++ [w.gen], chain := chainFrom 1 (gs ++ [w.gen]), chainPresent := true } := by
  have hc : chainFrom 1 (gs ++ [w.gen]) = chainFrom 1 gs ++ [⟨w.number, w.gen.fileName⟩] := by
    rw [chainFrom_append, hnum, Nat.add_comm]; rfl
  rw [hc]
  rcases hex with ⟨h1, h2⟩ | h1
  · subst h1; subst h2; rfl
  · subst h1
    show HistStore.mk (gs.filter (fun g => g.fileName != w.gen.fileName) ++ [w.gen]) _ true = _
    rw [List.filter_eq_self.2 (fun g hg => by
      simp only [bne_iff_ne, ne_eq]
      intro h; exact hfresh (List.mem_map.2 ⟨g, hg, h⟩))]
    rfl

/-- one step keeps the invariant; the generations stay or get one more at the end -/
theorem step_inv (env : Env) (hrn : '\n' ∉ env.rootName.toList) (t : Node) (n : Nat) (gs : List Generation)
    (h : RunInv t n gs) (st : Step) (hst : st.Ok) :
    RunInv (stepTree env t st) n gs ∨
      ∃ g, RunInv (stepTree env t st) (n + 1) (gs ++ [g]) ∧
        g.fileName = genFileName (n + 1) env.rootName st.stamp ∧ g.fileName ∉ gs.map (·.fileName) := by
  obtain ⟨h1, h2, h3⟩ := step_appends_partial env hrn t h.isDir h.flat n gs h.good st hst
  have hlen := (goodHist_load t n gs h.good).2.1
  rcases h3 with ⟨-, heq, hg'⟩ | ⟨w, -, -, hnum, hg', hhist, hpre, -, hnd', -, -, hname, -⟩
  · left
    refine ⟨h1, h2, hg', h.nodup, h.mono, ?_⟩
    have := hst.edit.hist_eq t h.isDir
    unfold StoreExact
    rw [heq, this]; exact h.exact
  · right
    have hpre' := hpre (lastIgnore_nodup gs h.nodup)
    -- the new name parses to n+1, every old name to its number ≤ n
    have hfresh : w.gen.fileName ∉ gs.map (·.fileName) := by
      intro hmem
      have hnames := (goodHist_names (stepTree env t st) (n + 1) (gs ++ [w.gen]) hg').1
      rw [List.map_append, List.nodup_append] at hnames
      exact hnames.2.2 _ hmem w.gen.fileName (by simp) rfl
    refine ⟨w.gen, ⟨h1, h2, hg', nodupIgnores_append gs _ h.nodup hnd', ignoreMonotone_append gs _ h.mono hpre',
      Or.inr ?_⟩, hname, hfresh⟩
    rw [hhist, storeExact_add t.hist gs w h.exact (by rw [hnum, hlen]) hfresh]


/-! ### 2. the induction over runs -/

theorem run_nil (env : Env) (t : Node) : run env t [] = t := rfl
theorem run_cons (env : Env) (t : Node) (st : Step) (steps : List Step) :
    run env t (st :: steps) = run env (stepTree env t st) steps := rfl
theorem run_append (env : Env) (t : Node) (s₁ s₂ : List Step) :
    run env t (s₁ ++ s₂) = run env (run env t s₁) s₂ := by
  unfold run; rw [List.foldl_append]

/-- the induction: from any point of a run, any further steps keep the invariant and only append -/
theorem run_good (env : Env) (hrn : '\n' ∉ env.rootName.toList) (steps : List Step) :
    ∀ (t : Node) (n : Nat) (gs : List Generation), RunInv t n gs → (∀ st ∈ steps, st.Ok) →
      ∃ n' gs', RunInv (run env t steps) n' gs' ∧ n ≤ n' ∧ n' ≤ n + steps.length ∧ gs <+: gs' := by
  induction steps with
  | nil =>
    intro t n gs h _
    exact ⟨n, gs, h, Nat.le_refl _, Nat.le_refl _, List.prefix_refl _⟩
  | cons st steps ih =>
    intro t n gs h hok
    have hst := hok st (by simp)
    have hrest : ∀ x ∈ steps, x.Ok := fun x hx => hok x (by simp [hx])
    rw [run_cons]
    rcases step_inv env hrn t n gs h st hst with h' | ⟨g, h', -, -⟩
    · obtain ⟨n', gs', hi, h1, h2, h3⟩ := ih _ n gs h' hrest
      exact ⟨n', gs', hi, h1, by simp only [List.length_cons]; omega, h3⟩
    · obtain ⟨n', gs', hi, h1, h2, h3⟩ := ih _ (n + 1) (gs ++ [g]) h' hrest
      exact ⟨n', gs', hi, by omega, by simp only [List.length_cons]; omega,
        (List.prefix_append gs [g]).trans h3⟩

theorem goodHist_chain (t : Node) (n : Nat) (gs : List Generation) (h : GoodHist t n gs) :
    chainOf t = chainFrom 1 gs := by
  obtain ⟨hh, hl, h1, h2, h3, -⟩ := h
  unfold chainOf
  rw [hl]
  simp only
  rw [h3, map_chainEntryOf_seq _ 1 n h1, h2]

/-- 2. `run_invariant`.  Start from a folder without any `ascmhl` folder and apply ANY list of admissible steps.
Then the folder is in order with some `n ≤ steps.length` generations `gs`, its `ascmhl` folder holds exactly `gs`
and their chain; and for every split `steps = steps₁ ++ steps₂` the folder after `steps₁` was in order with
generations `gs₁`, where `gs₁` is a PREFIX of `gs` (equal `Generation` values: names, records, pattern lists,
states, …) and the chain after `steps₁` is a prefix of the final chain. -/
theorem run_invariant (env : Env) (hrn : '\n' ∉ env.rootName.toList) (t : Node) (hdir : t.isDir = true)
    (hn : noNested t = true) (hh : t.hist = none) (steps : List Step) (hok : ∀ st ∈ steps, st.Ok) :
    ∃ n gs, GoodHist (run env t steps) n gs ∧ n ≤ steps.length ∧ StoreExact (run env t steps) gs ∧
      ∀ steps₁ steps₂, steps₁ ++ steps₂ = steps →
        ∃ n₁ gs₁, GoodHist (run env t steps₁) n₁ gs₁ ∧ n₁ ≤ steps₁.length ∧ StoreExact (run env t steps₁) gs₁ ∧
          n₁ ≤ n ∧ n ≤ n₁ + steps₂.length ∧ gs₁ <+: gs ∧ chainOf (run env t steps₁) <+: chainOf (run env t steps) := by
  obtain ⟨n, gs, hi, -, hle, -⟩ := run_good env hrn steps t 0 [] (runInv_fresh t hdir hn hh) hok
  refine ⟨n, gs, hi.good, by omega, hi.exact, ?_⟩
  intro s₁ s₂ hs
  subst hs
  obtain ⟨n₁, gs₁, hi₁, -, hle₁, -⟩ := run_good env hrn s₁ t 0 [] (runInv_fresh t hdir hn hh)
    (fun x hx => hok x (by simp [hx]))
  obtain ⟨n₂, gs₂, hi₂, h1, h2, h3⟩ := run_good env hrn s₂ _ n₁ gs₁ hi₁ (fun x hx => hok x (by simp [hx]))
  rw [← run_append] at hi₂
  obtain ⟨rfl, rfl⟩ := goodHist_unique _ _ _ _ _ hi.good hi₂.good
  refine ⟨n₁, gs₁, hi₁.good, by omega, hi₁.exact, h1, h2, h3, ?_⟩
  rw [goodHist_chain _ _ _ hi₁.good, goodHist_chain _ _ _ hi.good]
  exact chainFrom_prefix 1 _ _ h3

/-- the same without existentials: what is loaded after a prefix of the run is a prefix of what is loaded after
the whole run -/
theorem run_append_only (env : Env) (hrn : '\n' ∉ env.rootName.toList) (t : Node) (hdir : t.isDir = true)
    (hn : noNested t = true) (hh : t.hist = none) (steps₁ steps₂ : List Step)
    (hok : ∀ st ∈ steps₁ ++ steps₂, st.Ok) :
    gensOf (run env t steps₁) <+: gensOf (run env t (steps₁ ++ steps₂)) ∧
    chainOf (run env t steps₁) <+: chainOf (run env t (steps₁ ++ steps₂)) ∧
    (gensOf (run env t steps₁)).length ≤ steps₁.length := by
  obtain ⟨n, gs, hg, -, -, hsplit⟩ := run_invariant env hrn t hdir hn hh _ hok
  obtain ⟨n₁, gs₁, hg₁, hle, -, -, -, hp, hc⟩ := hsplit steps₁ steps₂ rfl
  obtain ⟨e1, l1, -⟩ := goodHist_load _ _ _ hg
  obtain ⟨e2, l2, -⟩ := goodHist_load _ _ _ hg₁
  rw [e1, e2]
  exact ⟨hp, hc, by omega⟩


/-! ### 3. and 4. corollaries -/

/-- the invariant at the end of a run from a folder without history -/
theorem run_inv (env : Env) (hrn : '\n' ∉ env.rootName.toList) (t : Node) (hdir : t.isDir = true)
    (hn : noNested t = true) (hh : t.hist = none) (steps : List Step) (hok : ∀ st ∈ steps, st.Ok) :
    ∃ n, n ≤ steps.length ∧ RunInv (run env t steps) n (gensOf (run env t steps)) := by
  obtain ⟨n, gs, hi, -, hle, -⟩ := run_good env hrn steps t 0 [] (runInv_fresh t hdir hn hh) hok
  have := (goodHist_load _ _ _ hi.good).1
  rw [this]
  exact ⟨n, by omega, hi⟩

/-- the manifests in the root's `ascmhl` folder as stored (none when there is no folder) -/
def storedGens (t : Node) : List Generation := (t.hist.getD {}).gens

theorem storeExact_stored (t : Node) (gs : List Generation) (h : StoreExact t gs) : storedGens t = gs := by
  unfold storedGens
  rcases h with ⟨h1, h2⟩ | h1
  · rw [h1, h2]; rfl
  · rw [h1]; rfl

/-- 3. `run_numbers_contiguous`.  After any run from a folder without history: the history loads, the generation
numbers are exactly 1..n (ascending, no gap, no repeat), `n` at most the number of steps; every manifest is numbered
by its own file name and the names are pairwise different; the manifests on disk are exactly the loaded ones; and
whatever admissible step comes next, a manifest it writes is number n+1, named `genFileName (n+1) rootName stamp`,
and that name is not the name of any manifest already there. -/
theorem run_numbers_contiguous (env : Env) (hrn : '\n' ∉ env.rootName.toList) (t : Node) (hdir : t.isDir = true)
    (hn : noNested t = true) (hh : t.hist = none) (steps : List Step) (hok : ∀ st ∈ steps, st.Ok) :
    ∃ h n, loadHistory (run env t steps) = .ok h ∧ n ≤ steps.length ∧
      h.gens.map (·.number) = List.range' 1 n ∧
      (h.gens.map (·.number)).Nodup ∧
      (∀ k, k ∈ h.gens.map (·.number) ↔ 1 ≤ k ∧ k ≤ n) ∧
      (∀ g ∈ h.gens, parseGenName g.gen.fileName = some g.number) ∧
      (h.gens.map (·.gen.fileName)).Nodup ∧
      storedGens (run env t steps) = h.gens.map (·.gen) ∧
      h.chain.map (·.seq) = List.range' 1 n ∧
      ∀ st : Step, st.Ok →
        ∀ w ∈ (create { env with stamp := st.stamp } (st.edit (run env t steps)) st.opts).written,
          w.number = n + 1 ∧ w.gen.fileName = genFileName (n + 1) env.rootName st.stamp ∧
          w.gen.fileName ∉ (storedGens (run env t steps)).map (·.fileName) := by
  obtain ⟨n, hle, hi⟩ := run_inv env hrn t hdir hn hh steps hok
  have hgood := hi.good
  obtain ⟨h, hl, h1, h2, h3, h4⟩ := hgood
  have hparse : ∀ g ∈ h.gens, parseGenName g.gen.fileName = some g.number := by
    rw [loaded_gens_eq _ h hl]; exact storeGens_parse_seq _
  have hstored := storeExact_stored _ _ hi.exact
  refine ⟨h, n, hl, hle, h1, by rw [h1]; exact List.nodup_range', ?_, hparse, ?_, by rw [hstored, h2], ?_, ?_⟩
  · intro k
    rw [h1, List.mem_range'_1]; omega
  · have := (goodHist_names _ _ _ hi.good).1
    rw [← h2, List.map_map] at this
    exact this
  · rw [h3, List.map_map, ← h1]; rfl
  · intro st hst w hw
    obtain ⟨-, -, hc⟩ := step_appends_partial env hrn _ hi.isDir hi.flat n _ hi.good st hst
    rcases hc with ⟨h0, -, -⟩ | ⟨w', hw', -, hnum, hg', -, -, -, -, -, -, hname, -⟩
    · rw [h0] at hw; cases hw
    · rw [hw'] at hw
      simp only [List.mem_singleton] at hw
      subst hw
      refine ⟨hnum, hname, ?_⟩
      rw [hstored]
      intro hmem
      have hnames := (goodHist_names _ _ _ hg').1
      rw [List.map_append, List.nodup_append] at hnames
      exact hnames.2.2 _ hmem w.gen.fileName (by simp) rfl

/-! ### the shape a run leaves, and a `create` killed between its two replaces -/

/-- a store whose chain lists its manifests one by one is in the shape `C06.Listed`: names pairwise different (given),
every manifest listed -/
theorem listed_of_chainFrom (gs : List Generation) (k0 : Nat) (b : Bool) (hnd : (gs.map (·.fileName)).Nodup) :
    C06.Listed { gens := gs, chain := chainFrom k0 gs, chainPresent := b } := by
  refine ⟨hnd, ?_⟩
  intro g hg
  rw [C06.lists_iff]
  have hm : g.fileName ∈ (chainFrom k0 gs).map (·.fileName) := by
    rw [chainFrom_names]; exact List.mem_map.2 ⟨g, hg, rfl⟩
  obtain ⟨e, he, hn⟩ := List.mem_map.1 hm
  exact ⟨e, he, hn⟩

/-- … and it lists nothing else -/
theorem chainFrom_lists (gs : List Generation) (k0 : Nat) (b : Bool) (nm : String) :
    ({ gens := gs, chain := chainFrom k0 gs, chainPresent := b } : HistStore).lists nm = true ↔
      nm ∈ gs.map (·.fileName) := by
  rw [C06.lists_iff, ← chainFrom_names k0 gs]
  constructor
  · rintro ⟨e, he, rfl⟩; exact List.mem_map.2 ⟨e, he, rfl⟩
  · intro h
    obtain ⟨e, he, hn⟩ := List.mem_map.1 h
    exact ⟨e, he, hn⟩

/-- THE STORE A RUN LEAVES IS `Listed` (the invariant under which `HistStore.add` and `loadGens` behave as before the
repair of `load_from_path`: `C06.dropUnlisted_of_listed`, `C06.add_appends`), AND A KILLED `create` LEAVES NO TRACE IN
THE HISTORY.  After any run from a folder without history that left at least one generation (`s` = the root's `ascmhl`
folder), whatever admissible step comes next: the manifest `w` it writes has a name the chain does not list; if the
step is killed after that manifest was moved into place and before the chain file was replaced, the folder — now
holding `C06.withLeftover s w.gen` — loads as exactly the same history as before the step.  (What the re-run then
does: `C06.interrupted_generation_absent`.  The very first `create` in a folder is different: there is no chain file
yet and every command refuses with 32 until it is completed, `C15.first_create_window_manifest`.) -/
theorem run_interrupted_absent (env : Env) (hrn : '\n' ∉ env.rootName.toList) (t : Node) (hdir : t.isDir = true)
    (hn : noNested t = true) (hh : t.hist = none) (steps : List Step) (hok : ∀ st ∈ steps, st.Ok)
    (s : HistStore) (hs : (run env t steps).hist = some s) :
    C06.Listed s ∧
    ∀ st : Step, st.Ok →
      ∀ w ∈ (create { env with stamp := st.stamp } (st.edit (run env t steps)) st.opts).written,
        s.lists w.gen.fileName = false ∧
        loadGens (C06.withLeftover s w.gen) = loadGens s ∧
        checkStore (some (C06.withLeftover s w.gen)) = checkStore (some s) ∧
        ∀ nm cs, loadHistory (.dir nm cs (some (C06.withLeftover s w.gen))) = loadHistory (.dir nm cs (some s)) := by
  obtain ⟨n, -, hi⟩ := run_inv env hrn t hdir hn hh steps hok
  obtain ⟨_, n', -, -, -, -, -, -, -, -, -, hnext⟩ := run_numbers_contiguous env hrn t hdir hn hh steps hok
  have hstored := storeExact_stored _ _ hi.exact
  have hnd := (goodHist_names _ _ _ hi.good).1
  generalize gensOf (run env t steps) = gs at hi hstored hnd
  have hse : s = { gens := gs, chain := chainFrom 1 gs, chainPresent := true } := by
    rcases hi.exact with ⟨h1, -⟩ | h1
    · rw [h1] at hs; cases hs
    · rw [h1] at hs; exact (Option.some.inj hs).symm
  have hl : C06.Listed s := by rw [hse]; exact listed_of_chainFrom gs 1 true hnd
  refine ⟨hl, ?_⟩
  intro st hst w hw
  obtain ⟨-, -, hfresh⟩ := hnext st hst w hw
  rw [hstored] at hfresh
  have hun : s.lists w.gen.fileName = false := by
    rw [← Bool.not_eq_true, hse, chainFrom_lists]
    exact hfresh
  obtain ⟨h1, h2, -, h4, -⟩ := C06.interrupted_generation_absent s hl w hun
  exact ⟨hun, h1, h2, h4⟩

theorem ignoreMonotone_le (gs : List Generation) (h : IgnoreMonotone gs) :
    ∀ (d i : Nat) (hj : i + d < gs.length), gs[i].ignore <+: gs[i + d].ignore := by
  intro d
  induction d with
  | zero => intro i hj; exact List.prefix_refl _
  | succ d ih =>
    intro i hj
    exact (ih i (by omega)).trans (h (i + d) (by omega))

/-- 4. `run_ignore_monotone`.  In the history after any run from a folder without history, every generation's
pattern list is a prefix of the next one's (hence of every later one's), and every list is duplicate-free. -/
theorem run_ignore_monotone (env : Env) (hrn : '\n' ∉ env.rootName.toList) (t : Node) (hdir : t.isDir = true)
    (hn : noNested t = true) (hh : t.hist = none) (steps : List Step) (hok : ∀ st ∈ steps, st.Ok) :
    let gs := gensOf (run env t steps)
    (∀ i (h : i + 1 < gs.length), gs[i].ignore <+: gs[i + 1].ignore) ∧
    (∀ i j (hij : i ≤ j) (hj : j < gs.length), gs[i].ignore <+: gs[j].ignore) ∧
    (∀ g ∈ gs, g.ignore.Nodup) := by
  intro gs
  obtain ⟨n, -, hi⟩ := run_inv env hrn t hdir hn hh steps hok
  refine ⟨hi.mono, ?_, hi.nodup⟩
  intro i j hij hj
  obtain ⟨d, rfl⟩ := Nat.exists_eq_add_of_le hij
  exact ignoreMonotone_le _ hi.mono d i hj


/-! ### media edits -/

theorem mediaEdit_id : MediaEdit id := ⟨fun _ _ => rfl, fun _ h => h, fun _ _ h => h⟩

theorem mediaEdit_comp (f g : Node → Node) (hf : MediaEdit f) (hg : MediaEdit g) : MediaEdit (f ∘ g) :=
  ⟨fun t h => (hf.hist_eq _ (hg.isDir t h)).trans (hg.hist_eq t h),
   fun t h => hf.isDir _ (hg.isDir t h),
   fun t h hn => hf.noNested _ (hg.isDir t h) (hg.noNested t h hn)⟩

/-- replace everything in the folder (add, delete, rename, alter files and sub-folders) by entries that hold no
`ascmhl` folder -/
def replaceKids (cs' : List Node) : Node → Node
  | .dir nm _ h => .dir nm cs' h
  | x => x

theorem mediaEdit_replaceKids (cs' : List Node) (h : noHistList cs' = true) : MediaEdit (replaceKids cs') := by
  refine ⟨?_, ?_, ?_⟩ <;> intro t ht <;> cases t with
  | file n c => cases ht
  | dir nm cs hs => first | rfl | (intro _; exact h)

/-- alter the content of the file at `p` (`Node.updateAt` on a file node) -/
def editFile (p : RelPath) (c' : Bytes) : Node → Node := fun t => Node.updateAt (setContent c') t p

theorem mediaEdit_editFile (p : RelPath) (c' : Bytes) : MediaEdit (editFile p c') := by
  refine ⟨?_, ?_, ?_⟩
  · intro t ht
    cases t with
    | file n c => cases ht
    | dir nm cs hs =>
      cases p with
      | nil => rfl
      | cons n rest => unfold editFile; rw [updateAt_dir_cons]; rfl
  · intro t ht
    unfold editFile
    rw [(updateAt_setContent c' (fun _ => false) p t).1]; exact ht
  · intro t ht hn
    cases t with
    | file n c => cases ht
    | dir nm cs hs =>
      cases p with
      | nil => exact hn
      | cons n rest =>
        unfold editFile
        rw [updateAt_dir_cons]
        have h1 := (updateAt_setContent c' (fun _ => false) (n :: rest) (.dir nm cs none)).2.1
        rw [updateAt_dir_cons] at h1
        simp only [noHist, Option.isNone_none, Bool.true_and] at h1
        show noHistList _ = true
        rw [h1]; exact hn


/-! ### non-vacuity: a concrete run -/

/-- toy parameters: the "digest" is the format name and the content length; a path is ignored when its last
component is literally one of the patterns -/
def exEnv : Env :=
  { H := fun f c => f ++ ":" ++ toString c.length, D := fun _ _ => some [],
    hit := fun pats p => match p.getLast? with
      | some nm => pats.contains nm
      | none => false,
    rootName := "root" }

def exTree : Node :=
  .dir "root" [.file "a.txt" [1], .dir "sub" [.file "x" []] none, .file ".DS_Store" [], .file "b.tmp" [7]] none

/-- create; alter `a.txt` and create with other formats and an extra ignore pattern (this run ends with exit code
11 and still writes its manifest); create -n; add a file and create -sf on it -/
def exSteps : List Step :=
  [ ⟨id, {}, "2020-01-01_000000Z"⟩,
    ⟨editFile ["a.txt"] [1, 2], { formats := ["sha1", "md5"], ignoreCli := ["b.tmp"] }, "2020-01-02_000000Z"⟩,
    ⟨id, { noDirHashes := true }, "2020-01-03_000000Z"⟩,
    ⟨replaceKids [.file "a.txt" [1, 2], .file "new.txt" [5]], { singleFiles := [["new.txt"]] },
      "2020-01-04_000000Z"⟩ ]

theorem exSteps_ok : ∀ st ∈ exSteps, st.Ok := by
  intro st hst
  simp only [exSteps, List.mem_cons, List.not_mem_nil, or_false] at hst
  rcases hst with rfl | rfl | rfl | rfl
  · exact ⟨mediaEdit_id, by decide⟩
  · exact ⟨mediaEdit_editFile _ _, by decide⟩
  · exact ⟨mediaEdit_id, by decide⟩
  · exact ⟨mediaEdit_replaceKids _ (by rfl), by decide⟩

/-- the hypotheses of `run_invariant`, `run_numbers_contiguous`, `run_ignore_monotone` hold on this run -/
example : '\n' ∉ exEnv.rootName.toList ∧ exTree.isDir = true ∧ noNested exTree = true ∧ exTree.hist = none ∧
    ∀ st ∈ exSteps, st.Ok :=
  ⟨by decide, rfl, by rfl, rfl, exSteps_ok⟩

/-- … and every step writes: four generations, numbered 1, 2, 3, 4, named after number, folder and time -/
example : (gensOf (run exEnv exTree exSteps)).map (·.fileName) =
      ["0001_root_2020-01-01_000000Z.mhl", "0002_root_2020-01-02_000000Z.mhl",
       "0003_root_2020-01-03_000000Z.mhl", "0004_root_2020-01-04_000000Z.mhl"] ∧
    (chainOf (run exEnv exTree exSteps)).map (·.seq) = [1, 2, 3, 4] := by
  decide +kernel

example : (match loadHistory (run exEnv exTree exSteps) with
    | .ok h => h.gens.map (·.number)
    | .error _ => []) = [1, 2, 3, 4] := by
  decide +kernel

/-- the second step ends with exit code 11 (the altered `a.txt` fails verification) and still writes its manifest -/
example : (create { exEnv with stamp := "2020-01-02_000000Z" }
      (editFile ["a.txt"] [1, 2] (run exEnv exTree (exSteps.take 1)))
      { formats := ["sha1", "md5"], ignoreCli := ["b.tmp"] }).exitCode = 11 := by
  decide +kernel

/-- the prefix relations, evaluated: what is loaded after k steps is a prefix of what is loaded after all four -/
example : ∀ k ∈ [0, 1, 2, 3, 4],
    gensOf (run exEnv exTree (exSteps.take k)) <+: gensOf (run exEnv exTree exSteps) ∧
    chainOf (run exEnv exTree (exSteps.take k)) <+: chainOf (run exEnv exTree exSteps) ∧
    (gensOf (run exEnv exTree (exSteps.take k))).length = k := by
  decide +kernel

/-- the pattern lists only grow -/
example : (gensOf (run exEnv exTree exSteps)).map (·.ignore) =
    [[".DS_Store", "ascmhl", "ascmhl/"], [".DS_Store", "ascmhl", "ascmhl/", "b.tmp"],
     [".DS_Store", "ascmhl", "ascmhl/", "b.tmp"], [".DS_Store", "ascmhl", "ascmhl/", "b.tmp"]] := by
  decide +kernel

/-- a fifth step that writes nothing (`create -sf` on an empty folder): the history stays as it is, so `n` can be
smaller than the number of steps -/
def exSteps5 : List Step :=
  exSteps ++ [⟨replaceKids [.dir "empty" [] none], { singleFiles := [["empty"]] }, "2020-01-05_000000Z"⟩]

example : gensOf (run exEnv exTree exSteps5) = gensOf (run exEnv exTree exSteps) ∧
    (gensOf (run exEnv exTree exSteps5)).length = 4 ∧ exSteps5.length = 5 := by
  decide +kernel

/-- `run_invariant` applied to the run -/
example : ∃ n gs, GoodHist (run exEnv exTree exSteps) n gs ∧ n ≤ 4 ∧ StoreExact (run exEnv exTree exSteps) gs := by
  obtain ⟨n, gs, h1, h2, h3, -⟩ := run_invariant exEnv (by decide) exTree rfl (by rfl) rfl exSteps exSteps_ok
  exact ⟨n, gs, h1, h2, h3⟩


/-! ### the prefix clause needs duplicate-free recorded lists -/

/-- a hand-made first manifest whose pattern list repeats a line -/
def dupGen : Generation := { fileName := "0001_root_2020-01-01_000000Z.mhl", ignore := ["x", "x"] }

def dupTree : Node :=
  .dir "root" [.file "a.txt" [1]]
    (some { gens := [dupGen], chain := [⟨1, "0001_root_2020-01-01_000000Z.mhl"⟩] })

def dupStep : Step := ⟨id, {}, "2020-01-02_000000Z"⟩

theorem dupTree_good : GoodHist dupTree 1 [dupGen] := by
  rw [goodHist_iff_store _ (by rfl)]
  refine ⟨by decide +kernel, by decide +kernel, by decide +kernel, by decide +kernel, ?_⟩
  intro s hs g hg
  cases hs
  simp only [List.mem_singleton] at hg
  subst hg; rfl

/-- `step_appends` WITHOUT the hypothesis on duplicates is false: all hypotheses of the literal statement hold
(`GoodHist`, a media edit, newline-free names), one generation is written and the folder is in order with two
generations, but the recorded list `["x", "x"]` is not a prefix of the new list `["x"]` -/
theorem step_prefix_needs_nodup :
    dupTree.isDir = true ∧ noNested dupTree = true ∧ GoodHist dupTree 1 [dupGen] ∧ dupStep.Ok ∧
    '\n' ∉ exEnv.rootName.toList ∧
    (create { exEnv with stamp := dupStep.stamp } (dupStep.edit dupTree) dupStep.opts).written.length = 1 ∧
    ∀ w ∈ (create { exEnv with stamp := dupStep.stamp } (dupStep.edit dupTree) dupStep.opts).written,
      ¬ lastIgnore [dupGen] <+: w.gen.ignore ∧ w.gen.ignore = ["x"] := by
  refine ⟨rfl, by rfl, dupTree_good, ⟨mediaEdit_id, by decide⟩, by decide, by decide +kernel, by decide +kernel⟩


end MhlProps.C06seq
