/-
C04 — Digests are always judged against the first recorded value.

About `MhlModel.sealEntries` / `decideAction` / `validateRecord` (the per-file core of `seal_file_path`,
`append_file_hash`, `_validate_new_hash_list`) and the lookups over the generations of one history.
`dig f` is the digest of the file's current content in format `f`; nothing is assumed about digests.
-/
import MhlProps.Proofs.SealLemmas

namespace MhlProps.C04
open MhlModel

/-! ### helper facts about the lookups -/

theorem findSome_append {α β : Type} (f : α → Option β) (l₁ l₂ : List α) :
    (l₁ ++ l₂).findSome? f = (l₁.findSome? f).orElse fun _ => l₂.findSome? f := by
  induction l₁ with
  | nil => simp
  | cons a as ih =>
    simp only [List.cons_append, List.findSome?_cons]
    cases f a <;> simp [ih]

/-! ### 'original' only in the first generation that records the path -/

/-- a digest is marked `original` exactly when no earlier generation of the history holds an `original` entry for
the path -/
theorem original_iff_first (gens : List LGen) (p fmt d : String) :
    decideAction gens p fmt d = "original" ↔ findOriginal gens p = none := by
  unfold decideAction
  cases findOriginal gens p with
  | none => simp
  | some e =>
    simp only [reduceCtorEq, iff_false]
    cases findFirstOfFormat gens p fmt with
    | none => simp
    | some e' => by_cases h : e'.digest = d <;> simp [h]

/-- for a format already recorded: `verified` exactly when the digest equals the EARLIEST recorded digest of that
format, `failed` otherwise -/
theorem verified_iff_equal_first (gens : List LGen) (p fmt d : String) (o e : Entry)
    (ho : findOriginal gens p = some o) (he : findFirstOfFormat gens p fmt = some e) :
    (decideAction gens p fmt d = "verified" ↔ d = e.digest) ∧
    (decideAction gens p fmt d = "failed" ↔ d ≠ e.digest) := by
  unfold decideAction
  simp only [ho, he]
  by_cases h : e.digest = d
  · simp [h]
  · have h' : ¬ d = e.digest := fun x => h x.symm
    simp [h, h']

/-- a digest in a format that is new for the file is provisionally `new` (turned into `verified` at commit) -/
theorem new_format_action (gens : List LGen) (p fmt d : String) (o : Entry)
    (ho : findOriginal gens p = some o) (he : findFirstOfFormat gens p fmt = none) :
    decideAction gens p fmt d = "new" := by
  unfold decideAction; simp [ho, he]

/-! ### a later generation never becomes the reference -/

/-- appending generations never changes the earliest entry of a format where it is defined -/
theorem reference_is_monotone (gens more : List LGen) (p fmt : String) (e : Entry)
    (h : findFirstOfFormat gens p fmt = some e) : findFirstOfFormat (gens ++ more) p fmt = some e := by
  unfold findFirstOfFormat at *
  rw [findSome_append, h]; rfl

theorem original_is_monotone (gens more : List LGen) (p : String) (e : Entry)
    (h : findOriginal gens p = some e) : findOriginal (gens ++ more) p = some e := by
  unfold findOriginal at *
  rw [findSome_append, h]; rfl

/-- hence a (possibly failed) later generation does not influence how a digest is judged -/
theorem later_generation_irrelevant (gens more : List LGen) (p fmt d : String) (o e : Entry)
    (ho : findOriginal gens p = some o) (he : findFirstOfFormat gens p fmt = some e) :
    decideAction (gens ++ more) p fmt d = decideAction gens p fmt d := by
  unfold decideAction
  rw [original_is_monotone gens more p o ho, reference_is_monotone gens more p fmt e he, ho, he]

/-! ### gating of new formats -/

/-- the entries `seal_file_path` appends, split as the two loops produce them -/
theorem sealEntries_shape (gens : List LGen) (p : String) (dig : String → String) (req : List String) :
    ∃ ents1 ents2 : List Entry, (sealEntries gens p dig req).1 = ents1 ++ ents2 ∧
      (∀ e ∈ ents1, e.fmt ∈ existingFormats gens p ∧ e.digest = dig e.fmt ∧
          e.action = decideAction gens p e.fmt e.digest) ∧
      (∀ e ∈ ents2, e.fmt ∉ existingFormats gens p ∧ e.digest = dig e.fmt ∧
          e.action = decideAction gens p e.fmt e.digest) ∧
      ((∃ e ∈ ents1, e.action = "failed") → ents2 = []) := by
  refine ⟨_, _, rfl, ?_, ?_, ?_⟩
  · intro e he
    simp only [List.mem_map, List.mem_filter] at he
    obtain ⟨f, ⟨hf, _⟩, rfl⟩ := he
    exact ⟨hf, rfl, rfl⟩
  · intro e he
    split at he
    · simp only [List.mem_map, List.mem_filter] at he
      obtain ⟨f, ⟨_, hf⟩, rfl⟩ := he
      refine ⟨?_, rfl, rfl⟩
      simpa using hf
    · simp at he
  · rintro ⟨e, he, hfail⟩
    split
    · next hv =>
      exfalso
      rw [List.all_eq_true] at hv
      have := hv e he
      simp [hfail] at this
    · rfl

/-- a digest in a format that is new for the file is recorded only in a run in which no check of an already
recorded format failed; when a check fails, nothing in a new format is recorded -/
theorem new_format_gated (gens : List LGen) (p : String) (dig : String → String) (req : List String)
    (hfail : ∃ e ∈ (sealEntries gens p dig req).1, e.action = "failed") :
    ∀ e ∈ (sealEntries gens p dig req).1, e.fmt ∈ existingFormats gens p := by
  obtain ⟨ents1, ents2, heq, h1, h2, hgate⟩ := sealEntries_shape gens p dig req
  rw [heq] at hfail ⊢
  obtain ⟨e, he, hf⟩ := hfail
  have hin1 : e ∈ ents1 := by
    rcases List.mem_append.mp he with h | h
    · exact h
    · exfalso
      obtain ⟨hne, _, hact⟩ := h2 e h
      -- an entry of the second loop is never `failed`
      rw [hact] at hf
      unfold decideAction at hf
      cases ho : findOriginal gens p with
      | none => simp [ho] at hf
      | some o =>
        simp only [ho] at hf
        cases hff : findFirstOfFormat gens p e.fmt with
        | none => simp [hff] at hf
        | some e' =>
          -- then the format is an existing one
          have : findFirstOfFormat gens p e.fmt = none := (findFirstOfFormat_none_iff gens p e.fmt).mpr hne
          rw [hff] at this; cases this
  have : ents2 = [] := hgate ⟨e, hin1, hf⟩
  subst this
  intro x hx
  simp only [List.append_nil] at hx
  exact (h1 x hx).1
/-! ### an unaltered file never fails, whatever formats are requested -/

/-- "the file is unaltered with respect to its references": the earliest recorded digest of every format equals the
digest of the current content in that format.  (Established by the first seal, see `firstOk_nil`.) -/
def FirstOk (dig : String → String) (gens : List LGen) (p : String) : Prop :=
  ∀ fmt e, findFirstOfFormat gens p fmt = some e → e.digest = dig fmt

theorem firstOk_nil (dig : String → String) (p : String) : FirstOk dig [] p := by
  intro fmt e h; simp [findFirstOfFormat] at h

theorem action_of_firstOk (dig : String → String) (gens : List LGen) (p fmt : String)
    (h : FirstOk dig gens p) : decideAction gens p fmt (dig fmt) ≠ "failed" := by
  unfold decideAction
  cases findOriginal gens p with
  | none => simp
  | some o =>
    cases hf : findFirstOfFormat gens p fmt with
    | none => simp
    | some e => simp [h fmt e hf]

/-- on an unaltered file no entry of the new generation is `failed`, for EVERY list of requested formats -/
theorem unaltered_no_failed (dig : String → String) (gens : List LGen) (p : String) (req : List String)
    (h : FirstOk dig gens p) : ∀ e ∈ (sealEntries gens p dig req).1, e.action ≠ "failed" := by
  obtain ⟨ents1, ents2, heq, h1, h2, _⟩ := sealEntries_shape gens p dig req
  rw [heq]
  intro e he
  have : e.digest = dig e.fmt ∧ e.action = decideAction gens p e.fmt e.digest := by
    rcases List.mem_append.mp he with h' | h'
    · exact ⟨(h1 e h').2.1, (h1 e h').2.2⟩
    · exact ⟨(h2 e h').2.1, (h2 e h').2.2⟩
  rw [this.2, this.1]
  exact action_of_firstOk dig gens p e.fmt h

/-- and every requested format is reported as a success (this is what the exit code is computed from) -/
theorem unaltered_all_success (dig : String → String) (gens : List LGen) (p : String) (req : List String)
    (h : FirstOk dig gens p) : ∀ r ∈ (sealEntries gens p dig req).2, r.2.2 = true := by
  intro r hr
  unfold sealEntries at hr
  simp only [List.mem_append, List.mem_map, List.mem_filter] at hr
  rcases hr with ⟨f, _, rfl⟩ | ⟨f, _, rfl⟩
  · simpa using action_of_firstOk dig gens p f h
  · simp only [Bool.and_eq_true, List.all_eq_true, List.mem_map, List.mem_filter]
    refine ⟨?_, by simpa using action_of_firstOk dig gens p f h⟩
    rintro e ⟨f', _, rfl⟩
    simpa using action_of_firstOk dig gens p f' h

/-! ### validation before writing never aborts on an unaltered file; sequences of generations -/

theorem existing_ne_of_original (gens : List LGen) (p : String) (o : Entry)
    (h : findOriginal gens p = some o) : existingFormats gens p ≠ [] := by
  unfold findOriginal at h
  obtain ⟨g, hg, hh⟩ := List.exists_of_findSome?_eq_some h
  cases hf : g.gen.find p with
  | none => simp [hf] at hh
  | some r =>
    simp only [hf] at hh
    have hmem : o.fmt ∈ existingFormats gens p :=
      (mem_existingFormats gens p o.fmt).mpr ⟨g, hg, r, hf, o, List.mem_of_find?_eq_some hh, rfl⟩
    intro hnil; rw [hnil] at hmem; simp at hmem

theorem base_subset_toGen (existing req : List String) (x : String) (hx : x ∈ baseFormats existing req) :
    x ∈ formatsToGenerate existing req := by
  unfold formatsToGenerate
  have := (mem_foldl_appendNew (fun (s : String) => s) req (baseFormats existing req) x).mpr (Or.inl hx)
  simpa using this

theorem base_subset_existing (existing req : List String) (x : String) (hx : x ∈ baseFormats existing req) :
    x ∈ existing := by
  unfold baseFormats at hx
  simp only at hx
  split at hx
  · exact List.mem_of_mem_take hx
  · exact (List.mem_filter.mp hx).1

theorem base_ne (existing req : List String) (h : existing ≠ []) : baseFormats existing req ≠ [] := by
  unfold baseFormats
  simp only
  split
  · cases existing with
    | nil => exact absurd rfl h
    | cons a as => simp
  · next hc => intro hnil; apply hc; rw [hnil]; rfl

theorem checked_ne (existing req : List String) (h : existing ≠ []) :
    existing.filter ((formatsToGenerate existing req).contains ·) ≠ [] := by
  obtain ⟨x, hx⟩ : ∃ x, x ∈ baseFormats existing req := by
    cases hl : baseFormats existing req with
    | nil => exact absurd hl (base_ne existing req h)
    | cons a as => exact ⟨a, by simp⟩
  intro hnil
  have : x ∈ existing.filter ((formatsToGenerate existing req).contains ·) := by
    simp only [List.mem_filter]
    exact ⟨base_subset_existing _ _ _ hx, by simpa using base_subset_toGen _ _ _ hx⟩
  rw [hnil] at this; simp at this

/-- on an unaltered file the mandatory check before serialising succeeds and only turns `new` into `verified` -/
theorem unaltered_validate_ok (dig : String → String) (gens : List LGen) (p : String) (req : List String)
    (h : FirstOk dig gens p) (size : Option Nat) :
    ∃ r', validateRecord { path := p, size := size, entries := (sealEntries gens p dig req).1 } = .ok r' ∧
      r'.path = p ∧ (∀ e ∈ r'.entries, e.digest = dig e.fmt ∧ e.action ≠ "failed" ∧ e.action ≠ "new") := by
  obtain ⟨ents1, ents2, heq, h1, h2, _⟩ := sealEntries_shape gens p dig req
  have hnf := unaltered_no_failed dig gens p req h
  have hdig : ∀ e ∈ (sealEntries gens p dig req).1, e.digest = dig e.fmt := by
    rw [heq]; intro e he
    rcases List.mem_append.mp he with h' | h'
    · exact (h1 e h').2.1
    · exact (h2 e h').2.1
  unfold validateRecord
  simp only
  split
  · next hnew =>
    -- some entry is `new`: then an original exists, so a recorded format was checked and verified
    obtain ⟨en, hen, hact⟩ := List.any_eq_true.mp hnew
    have hact : en.action = "new" := by simpa using hact
    have horig : ∃ o, findOriginal gens p = some o := by
      rw [heq] at hen
      have hd : en.action = decideAction gens p en.fmt en.digest := by
        rcases List.mem_append.mp hen with h' | h'
        · exact (h1 en h').2.2
        · exact (h2 en h').2.2
      cases ho : findOriginal gens p with
      | none =>
        rw [hact] at hd; unfold decideAction at hd; simp [ho] at hd
      | some o => exact ⟨o, rfl⟩
    obtain ⟨o, ho⟩ := horig
    have hex := existing_ne_of_original gens p o ho
    have hch := checked_ne (existingFormats gens p) req hex
    -- the first checked format gives a verified entry
    obtain ⟨f0, hf0⟩ : ∃ f0, f0 ∈ (existingFormats gens p).filter ((formatsToGenerate (existingFormats gens p) req).contains ·) := by
      cases hl : (existingFormats gens p).filter ((formatsToGenerate (existingFormats gens p) req).contains ·) with
      | nil => exact absurd hl hch
      | cons a as => exact ⟨a, by simp⟩
    have hf0ex : f0 ∈ existingFormats gens p := (List.mem_filter.mp hf0).1
    have hver : decideAction gens p f0 (dig f0) = "verified" := by
      unfold decideAction
      simp only [ho]
      cases hff : findFirstOfFormat gens p f0 with
      | none => exact absurd hf0ex ((findFirstOfFormat_none_iff gens p f0).mp hff)
      | some e' => simp [h f0 e' hff]
    have hmem : ({ fmt := f0, digest := dig f0, action := decideAction gens p f0 (dig f0) } : Entry)
        ∈ (sealEntries gens p dig req).1 := by
      unfold sealEntries
      simp only [List.mem_append, List.mem_map]
      exact Or.inl ⟨f0, hf0, rfl⟩
    have hreq_ne : ((sealEntries gens p dig req).1.filter fun e => e.action == "verified" || e.action == "failed") ≠ [] := by
      intro hnil
      have : ({ fmt := f0, digest := dig f0, action := decideAction gens p f0 (dig f0) } : Entry)
          ∈ (sealEntries gens p dig req).1.filter fun e => e.action == "verified" || e.action == "failed" := by
        rw [List.mem_filter]
        exact ⟨hmem, by simp [hver]⟩
      rw [hnil] at this; simp at this
    rw [if_neg (by simpa using hreq_ne)]
    have hall : ¬ (((sealEntries gens p dig req).1.filter fun e => e.action == "verified" || e.action == "failed").any
        fun e => e.action != "verified") = true := by
      intro hany
      obtain ⟨e, he, hne⟩ := List.any_eq_true.mp hany
      have he' := List.mem_filter.mp he
      have hnf' := hnf e he'.1
      have : e.action = "verified" ∨ e.action = "failed" := by simpa using he'.2
      rcases this with hv | hf
      · simp [hv] at hne
      · exact hnf' hf
    rw [if_neg hall]
    refine ⟨_, rfl, rfl, ?_⟩
    intro e he
    simp only [List.mem_map] at he
    obtain ⟨e0, he0, rfl⟩ := he
    split
    · next hn => exact ⟨by simpa using hdig e0 he0, by simp, by simp⟩
    · next hn => exact ⟨hdig e0 he0, hnf e0 he0, by simpa using hn⟩
  · next hnew =>
    refine ⟨_, rfl, rfl, ?_⟩
    intro e he
    refine ⟨hdig e he, hnf e he, ?_⟩
    intro hn
    apply hnew
    exact List.any_eq_true.mpr ⟨e, he, by simp [hn]⟩

/-- one `create` seen from one file: seal, validate, append the generation -/
def stepFile (dig : String → String) (p : String) (gens : List LGen) (req : List String) : Except Err (List LGen) :=
  match validateRecord { path := p, entries := (sealEntries gens p dig req).1 } with
  | .ok r => .ok (gens ++ [⟨latestGenerationNumber gens + 1, { fileName := "", records := [r] }⟩])
  | .error e => .error e

theorem find_single (r : Record) : ({ fileName := "", records := [r] } : Generation).find r.path = some r := by
  simp [Generation.find]

theorem firstOk_append (dig : String → String) (gens : List LGen) (p : String) (n : Nat) (r : Record)
    (hp : r.path = p) (h : FirstOk dig gens p) (hr : ∀ e ∈ r.entries, e.digest = dig e.fmt) :
    FirstOk dig (gens ++ [⟨n, { fileName := "", records := [r] }⟩]) p := by
  intro fmt e he
  cases hold : findFirstOfFormat gens p fmt with
  | some e1 =>
    rw [reference_is_monotone gens _ p fmt e1 hold] at he
    cases he; exact h fmt e hold
  | none =>
    unfold findFirstOfFormat at he hold
    rw [findSome_append, hold] at he
    subst hp
    simp only [Option.orElse, List.findSome?_cons, List.findSome?_nil, find_single] at he
    cases hf : r.entries.find? (fun e => e.fmt == fmt) with
    | none => simp [hf] at he
    | some e0 =>
      simp [hf] at he; subst he
      have := List.find?_some hf
      have hfmt : e0.fmt = fmt := by simpa using this
      rw [← hfmt]; exact hr e0 (List.mem_of_find?_eq_some hf)

/-- EVERY sequence of format choices over an unaltered file succeeds: no abort, no failed entry, in any number of
generations (the statement of the property's last sentence, for all lengths and all format lists at once) -/
theorem unaltered_sequences_succeed (dig : String → String) (p : String) (reqs : List (List String))
    (gens : List LGen) (h : FirstOk dig gens p) :
    ∃ gens', reqs.foldlM (stepFile dig p) gens = .ok gens' ∧ FirstOk dig gens' p := by
  induction reqs generalizing gens with
  | nil => exact ⟨gens, rfl, h⟩
  | cons req rest ih =>
    obtain ⟨r', hv, hpath, hents⟩ := unaltered_validate_ok dig gens p req h none
    have hstep : stepFile dig p gens req
        = .ok (gens ++ [⟨latestGenerationNumber gens + 1, { fileName := "", records := [r'] }⟩]) := by
      unfold stepFile; rw [hv]
    have hok := firstOk_append dig gens p (latestGenerationNumber gens + 1) r' hpath h (fun e he => (hents e he).1)
    obtain ⟨g', hg', hf'⟩ := ih _ hok
    refine ⟨g', ?_, hf'⟩
    simp only [List.foldlM_cons, hstep]
    exact hg'

/-! ### non-vacuity and the former defect -/

/-- a toy digest function: the format name itself (every file "unaltered") -/
def digId : String → String := fun f => "d-" ++ f

/-- the two-generation sequence that used to abort (DESIGN.md D1) goes through in the model of the repaired code,
and the third format is recorded as `verified` -/
example : Except.toOption (do
    let g1 ← stepFile digId "a.txt" [] ["md5", "xxh64"]
    let g2 ← stepFile digId "a.txt" g1 ["sha1", "xxh64"]
    pure (g2.map fun (g : LGen) => g.gen.records.map fun (r : Record) => r.entries.map fun (e : Entry) => (e.fmt, e.action)))
    = some [[[("md5", "original"), ("xxh64", "original")]], [[("xxh64", "verified"), ("sha1", "verified")]]] := by
  decide +kernel

/-- an altered file: the check fails, the failure is recorded and no new format is added -/
example : ((sealEntries [⟨1, { fileName := "", records := [{ path := "a", entries := [{ fmt := "md5", digest := "old", action := "original" }] }] }⟩]
      "a" (fun _ => "new") ["md5", "sha1"]).1.map fun e => (e.fmt, e.action)) = [("md5", "failed")] := by
  decide

end MhlProps.C04
