/-
C16 — Recorded size and timestamps describe the real file in any time zone.

About `MhlModel.Time`: `fromTimestamp` (CPython `datetime.fromtimestamp`, incl. fold detection), `mktime` (CPython
`datetime._mktime`), `isoParts` (what the repaired `datetime_isostring` prints), `isoPartsOld` (the former formatter:
offset of NOW for every date), `offsetText`, `sizeAttr`.

Zones: constant zones and zones with one transition `oneTransition T a b` (offset `a` before instant `T`, `b` from `T`
on).  Spring-forward is `a < b`, fall-back is `a > b`.

EXACT CONDITION for the round trip in a one-transition zone: `a - b ≤ 86400`, i.e. the offset must not DROP by more
than CPython's probe window `max_fold_seconds` = 24 h.  A rise of the offset (spring-forward) may be arbitrarily large.
`|a - b| ≤ 86400` is therefore sufficient but not necessary; `a - b ≤ 86400` is necessary and sufficient
(`mktime_fromTimestamp_oneTransition_iff`), and at `a - b = 86401` the round trip fails (`roundtrip_fails_beyond_window`).
-/
import MhlProps.Proofs.TimeLemmas

namespace MhlProps.C16
open MhlModel.Time

/-! ### 1. constant zone -/

/-- constant zone: resolving the naive local time of an instant gives the instant back -/
theorem mktime_fromTimestamp_const (c t : Int) :
    mktime (fun _ => c) (fromTimestamp (fun _ => c) t) = t := by
  rw [fromTimestamp_eta, mktime_const]; omega

/-! ### 2. one transition -/

/-- one-transition zone whose offset drops by at most 24 h (any spring-forward, fall-back up to 24 h): for ALL
instants `t` — before, inside and after the gap / the repeated interval — the round trip is exact -/
theorem mktime_fromTimestamp_oneTransition (T a b t : Int) (h : a - b ≤ 86400) :
    mktime (oneTransition T a b) (fromTimestamp (oneTransition T a b) t) = t := by
  rw [fromTimestamp_eta]
  exact mktime_oneTransition T a b t _ _ h (fromTimestamp_fold_oneTransition T a b t h) rfl

/-- the statement as asked, with the symmetric bound -/
theorem mktime_fromTimestamp_oneTransition_abs (T a b t : Int) (h : (a - b).natAbs ≤ 86400) :
    mktime (oneTransition T a b) (fromTimestamp (oneTransition T a b) t) = t :=
  mktime_fromTimestamp_oneTransition T a b t (by omega)

/-- if the offset drops by MORE than 24 h the round trip fails at `T - 1` (when `a ≥ 1`: first pass of the repeated
interval, CPython's probe `u1 - 24 h` does not reach back before the transition) or at `T` (when `b < 0`: fold is
detected, but the probe `u1 + 24 h` does not reach the transition); one of the two always applies -/
theorem roundtrip_fails_of_large_drop (T a b : Int) (h : 86400 < a - b) :
    ∃ t, mktime (oneTransition T a b) (fromTimestamp (oneTransition T a b) t) ≠ t := by
  by_cases ha : 1 ≤ a
  · refine ⟨T - 1, ?_⟩
    have hfold : (fromTimestamp (oneTransition T a b) (T - 1)).fold = false := by
      have hf := fromTimestamp_fold (oneTransition T a b) (T - 1)
      cases hc : (fromTimestamp (oneTransition T a b) (T - 1)).fold
      · rfl
      · rw [hc] at hf; simp only [true_iff] at hf
        have k1 := oneTransition_cases T a b (T - 1)
        have k2 := oneTransition_cases T a b (T - 1 - 86400)
        omega
    rw [fromTimestamp_eta, hfold, mktime_false]
    have key := oneTransition_cases T a b
    generalize oneTransition T a b = z at key ⊢
    generalize hs : T - 1 + z (T - 1) = s
    have k1 := key (T - 1)
    have k2 := key s
    have k3 := key (s - z s)
    have k6 := key (s - z (s - z s))
    have k4 := key (s - z s + -86400)
    have k5 := key (s - z (s - z s + -86400))
    repeat' split
    all_goals omega
  · refine ⟨T, ?_⟩
    have hfold : (fromTimestamp (oneTransition T a b) T).fold = true := by
      rw [fromTimestamp_fold]
      have k1 := oneTransition_cases T a b T
      have k2 := oneTransition_cases T a b (T - 86400)
      have k3 := oneTransition_cases T a b (T + (oneTransition T a b T - oneTransition T a b (T - 86400)))
      omega
    rw [fromTimestamp_eta, hfold, mktime_true]
    have key := oneTransition_cases T a b
    generalize oneTransition T a b = z at key ⊢
    generalize hs : T + z T = s
    have k1 := key T
    have k2 := key s
    have k3 := key (s - z s)
    have k6 := key (s - z (s - z s))
    have k4 := key (s - z s + 86400)
    have k5 := key (s - z (s - z s + 86400))
    repeat' split
    all_goals omega

/-- the exact condition CPython's algorithm needs in a one-transition zone -/
theorem mktime_fromTimestamp_oneTransition_iff (T a b : Int) :
    (∀ t, mktime (oneTransition T a b) (fromTimestamp (oneTransition T a b) t) = t) ↔ a - b ≤ 86400 := by
  constructor
  · intro hall
    by_cases h : a - b ≤ 86400
    · exact h
    · obtain ⟨t, ht⟩ := roundtrip_fails_of_large_drop T a b (by omega)
      exact absurd (hall t) ht
  · intro h t; exact mktime_fromTimestamp_oneTransition T a b t h

/-- boundary witnesses: a drop of exactly 24 h is still fine at the critical instants, one second more is not -/
example : mktime (oneTransition 1000000 90000 3600) (fromTimestamp (oneTransition 1000000 90000 3600) 999999) = 999999 := by
  decide
example : mktime (oneTransition 1000000 90000 3600) (fromTimestamp (oneTransition 1000000 90000 3600) 1086399) = 1086399 := by
  decide

theorem roundtrip_fails_beyond_window :
    mktime (oneTransition 1000000 90001 3600) (fromTimestamp (oneTransition 1000000 90001 3600) 999999) ≠ 999999 ∧
    mktime (oneTransition 1000000 0 (-86401)) (fromTimestamp (oneTransition 1000000 0 (-86401)) 1000000) ≠ 1000000 := by
  decide

/-! ### 3. the printed value denotes the instant, with the offset in force at that instant -/

/-- in ANY zone: wherever the round trip is exact, the printed value denotes the instant and carries the offset in force
at that instant; no notion of "now" enters -/
theorem iso_denotes_of_roundtrip (z : Zone) (t : Int) (h : mktime z (fromTimestamp z t) = t) :
    denote (isoParts z (fromTimestamp z t)) = t ∧ (isoParts z (fromTimestamp z t)).2 = z t := by
  simp only [isoParts, denote, localSecs, h, and_true]; omega

theorem iso_denotes (T a b t : Int) (h : a - b ≤ 86400) :
    denote (isoParts (oneTransition T a b) (fromTimestamp (oneTransition T a b) t)) = t ∧
    (isoParts (oneTransition T a b) (fromTimestamp (oneTransition T a b) t)).2 = oneTransition T a b t :=
  iso_denotes_of_roundtrip _ t (mktime_fromTimestamp_oneTransition T a b t h)

theorem iso_denotes_const (c t : Int) :
    denote (isoParts (fun _ => c) (fromTimestamp (fun _ => c) t)) = t ∧
    (isoParts (fun _ => c) (fromTimestamp (fun _ => c) t)).2 = c :=
  iso_denotes_of_roundtrip _ t (mktime_fromTimestamp_const c t)

/-- the rendered local second count is the one `fromtimestamp` produced (the civil fields are not altered) -/
theorem iso_local_fields (T a b t : Int) (h : a - b ≤ 86400) :
    (isoParts (oneTransition T a b) (fromTimestamp (oneTransition T a b) t)).1 =
      (fromTimestamp (oneTransition T a b) t).secs := by
  simp only [isoParts, mktime_fromTimestamp_oneTransition T a b t h, fromTimestamp_secs, localSecs]

/-- file time and current time on whichever sides of the switch: each printed date carries its own offset -/
theorem iso_file_and_now (T a b t now : Int) (h : a - b ≤ 86400) :
    let z := oneTransition T a b
    denote (isoParts z (fromTimestamp z t)) = t ∧ (isoParts z (fromTimestamp z t)).2 = z t ∧
    denote (isoParts z (fromTimestamp z now)) = now ∧ (isoParts z (fromTimestamp z now)).2 = z now := by
  intro z
  exact ⟨(iso_denotes T a b t h).1, (iso_denotes T a b t h).2, (iso_denotes T a b now h).1, (iso_denotes T a b now h).2⟩

/-! ### 4. the former formatter -/

/-- the former formatter (offset of NOW): file written before the switch, hashed after it — the printed value denotes
an instant one hour (the DST difference) before the file's real modification time -/
theorem old_formatter_wrong :
    denote (isoPartsOld (oneTransition 1000000 3600 7200) 1000001
      (fromTimestamp (oneTransition 1000000 3600 7200) 999999)) ≠ 999999 ∧
    denote (isoPartsOld (oneTransition 1000000 3600 7200) 1000001
      (fromTimestamp (oneTransition 1000000 3600 7200) 999999)) = 999999 - 3600 := by
  decide

/-- in ANY zone the error of the former formatter is exactly the difference of the two offsets -/
theorem old_formatter_error (z : Zone) (now t : Int) :
    denote (isoPartsOld z now (fromTimestamp z t)) = t + (z t - z now) := by
  simp only [isoPartsOld, denote, fromTimestamp_secs]; omega

/-- in ANY zone: the former formatter denotes the file's instant iff the offset now equals the offset then -/
theorem old_formatter_right_iff' (z : Zone) (now t : Int) :
    denote (isoPartsOld z now (fromTimestamp z t)) = t ↔ z now = z t := by
  rw [old_formatter_error]; omega

/-- the former formatter agrees with the instant `mktime` resolves iff NOW and the file time are on the same side of
the switch (or the switch does not change the offset) -/
theorem old_formatter_right_iff (T a b now t : Int) (h : a - b ≤ 86400) :
    denote (isoPartsOld (oneTransition T a b) now (fromTimestamp (oneTransition T a b) t)) =
        mktime (oneTransition T a b) (fromTimestamp (oneTransition T a b) t) ↔
      oneTransition T a b now = oneTransition T a b t := by
  rw [mktime_fromTimestamp_oneTransition T a b t h]; exact old_formatter_right_iff' _ now t

theorem old_formatter_right_iff_sides (T a b now t : Int) (h : a - b ≤ 86400) (hab : a ≠ b) :
    denote (isoPartsOld (oneTransition T a b) now (fromTimestamp (oneTransition T a b) t)) =
        mktime (oneTransition T a b) (fromTimestamp (oneTransition T a b) t) ↔ (now < T ↔ t < T) := by
  rw [old_formatter_right_iff T a b now t h]
  simp only [oneTransition]
  repeat' split
  all_goals omega

/-- the repaired formatter on the same witness -/
example : denote (isoParts (oneTransition 1000000 3600 7200)
      (fromTimestamp (oneTransition 1000000 3600 7200) 999999)) = 999999 := by decide

/-! ### 5. the fold bit -/

/-- fall-back 7200 → 3600 at T = 1000000: instant 1000600 is in the second pass; without the fold bit `mktime`
resolves to the first pass, one hour earlier -/
theorem fold_is_needed :
    (fromTimestamp (oneTransition 1000000 7200 3600) 1000600).fold = true ∧
    mktime (oneTransition 1000000 7200 3600) ⟨(fromTimestamp (oneTransition 1000000 7200 3600) 1000600).secs, false⟩
      ≠ 1000600 ∧
    mktime (oneTransition 1000000 7200 3600) ⟨(fromTimestamp (oneTransition 1000000 7200 3600) 1000600).secs, false⟩
      = 1000600 - 3600 := by
  decide

/-- in the second pass of the repeated interval `fromtimestamp` sets fold = 1 -/
theorem fold_set_in_second_pass (T a b t : Int) (h : a - b ≤ 86400) (h1 : T ≤ t) (h2 : t < T + (a - b)) :
    (fromTimestamp (oneTransition T a b) t).fold = true :=
  (fromTimestamp_fold_oneTransition T a b t h).mpr ⟨h1, h2⟩

/-- and only there -/
theorem fold_iff_second_pass (T a b t : Int) (h : a - b ≤ 86400) :
    (fromTimestamp (oneTransition T a b) t).fold = true ↔ (T ≤ t ∧ t < T + (a - b)) :=
  fromTimestamp_fold_oneTransition T a b t h

/-- in general: dropping the fold bit in the second pass resolves to the FIRST pass, `a - b` seconds earlier -/
theorem fold_dropped_gives_first_pass (T a b t : Int) (h : a - b ≤ 86400) (h1 : T ≤ t) (h2 : t < T + (a - b)) :
    mktime (oneTransition T a b) ⟨(fromTimestamp (oneTransition T a b) t).secs, false⟩ = t - (a - b) := by
  rw [fromTimestamp_secs, mktime_false]
  have key := oneTransition_cases T a b
  generalize oneTransition T a b = z at key ⊢
  generalize hs : t + z t = s
  have k1 := key t
  have k2 := key s
  have k3 := key (s - z s)
  have k6 := key (s - z (s - z s))
  have k4 := key (s - z s + -86400)
  have k5 := key (s - z (s - z s + -86400))
  repeat' split
  all_goals omega

theorem fold_is_needed_general (T a b t : Int) (h : a - b ≤ 86400) (h1 : T ≤ t) (h2 : t < T + (a - b)) :
    mktime (oneTransition T a b) ⟨(fromTimestamp (oneTransition T a b) t).secs, false⟩ ≠ t := by
  rw [fold_dropped_gives_first_pass T a b t h h1 h2]; omega

/-- both passes of the repeated interval have the same local second count: only the fold bit tells them apart -/
theorem passes_share_local_time (T a b t : Int) (h1 : T ≤ t) (h2 : t < T + (a - b)) :
    (fromTimestamp (oneTransition T a b) t).secs = (fromTimestamp (oneTransition T a b) (t - (a - b))).secs := by
  simp only [fromTimestamp_secs, oneTransition]
  repeat' split
  all_goals omega

/-! ### 6. the offset text -/

/-- whole-minute offset below 24 h: sign, two digits, ':', two digits -/
theorem offsetText_shape (off : Int) (h : off.natAbs < 86400) (hm : off.natAbs % 60 = 0) :
    (offsetText off).toList =
      [if off < 0 then '-' else '+',
       Nat.digitChar (off.natAbs / 3600 / 10), Nat.digitChar (off.natAbs / 3600 % 10), ':',
       Nat.digitChar (off.natAbs % 3600 / 60 / 10), Nat.digitChar (off.natAbs % 3600 / 60 % 10)] ∧
    off.natAbs / 3600 / 10 < 3 ∧ off.natAbs / 3600 % 10 < 10 ∧
    off.natAbs % 3600 / 60 / 10 < 6 ∧ off.natAbs % 3600 / 60 % 10 < 10 := by
  refine ⟨?_, by omega, by omega, by omega, by omega⟩
  rw [offsetText_toList off (by omega)]
  simp [offsetChars, pad2Chars, hm]

theorem offsetText_length (off : Int) (h : off.natAbs < 86400) (hm : off.natAbs % 60 = 0) :
    (offsetText off).length = 6 := by
  rw [← String.length_toList, (offsetText_shape off h hm).1]; rfl

/-- the four digit positions hold decimal digits -/
theorem offsetText_digits (off : Int) (h : off.natAbs < 86400) (hm : off.natAbs % 60 = 0) :
    ∃ s d1 d2 d3 d4 : Char, (offsetText off).toList = [s, d1, d2, ':', d3, d4] ∧ (s = '-' ∨ s = '+') ∧
      d1.isDigit = true ∧ d2.isDigit = true ∧ d3.isDigit = true ∧ d4.isDigit = true := by
  obtain ⟨e, b1, b2, b3, b4⟩ := offsetText_shape off h hm
  refine ⟨_, _, _, _, _, e, ?_, digitChar_isDigit _ (by omega), digitChar_isDigit _ b2,
    digitChar_isDigit _ (by omega), digitChar_isDigit _ b4⟩
  split <;> simp

/-- offsets with seconds (historical zones): ±HH:MM:SS, nine characters -/
theorem offsetText_length_seconds (off : Int) (h : off.natAbs < 86400) (hm : off.natAbs % 60 ≠ 0) :
    (offsetText off).length = 9 := by
  rw [← String.length_toList, offsetText_toList off (by omega)]
  simp [offsetChars, pad2Chars, hm]

/-- the text determines the offset (below 100 h): two different offsets are never printed alike -/
theorem offsetText_injective (x y : Int) (hx : x.natAbs < 360000) (hy : y.natAbs < 360000)
    (e : offsetText x = offsetText y) : x = y := by
  have e' : offsetChars x = offsetChars y := by
    rw [← offsetText_toList x hx, ← offsetText_toList y hy, e]
  simp only [offsetChars, List.cons.injEq, List.cons_append, List.append_assoc] at e'
  obtain ⟨es, e1⟩ := e'
  simp only [pad2Chars, List.cons_append, List.nil_append, List.cons.injEq, true_and] at e1
  obtain ⟨d1, d2, d3, d4, e2⟩ := e1
  have q1 := digitChar_inj _ _ (by omega) (by omega) d1
  have q2 := digitChar_inj _ _ (by omega) (by omega) d2
  have q3 := digitChar_inj _ _ (by omega) (by omega) d3
  have q4 := digitChar_inj _ _ (by omega) (by omega) d4
  have hsign : x < 0 ↔ y < 0 := by
    by_cases h1 : x < 0 <;> by_cases h2 : y < 0 <;> simp [h1, h2] at es ⊢
  have hsec : x.natAbs % 60 = y.natAbs % 60 := by
    by_cases h1 : x.natAbs % 60 = 0 <;> by_cases h2 : y.natAbs % 60 = 0
    · omega
    · simp [h1, h2] at e2
    · simp [h1, h2] at e2
    · simp only [h1, h2, if_false, List.cons.injEq, true_and, and_true] at e2
      have q5 := digitChar_inj _ _ (by omega) (by omega) e2.1
      have q6 := digitChar_inj _ _ (by omega) (by omega) e2.2
      omega
  omega

/-- the character-level restatement agrees with the model's `offsetText` on a table of real-world offsets
(UTC, CET, India, Nepal, Newfoundland-like, Chatham, ±14 h, an offset with seconds) -/
example : ∀ off ∈ [(0 : Int), 3600, -3600, 19800, -19800, 20700, -12600, 45900, 50400, -50400, 5*3600+45*60+8],
    offsetText off = String.ofList (offsetChars off) := by decide

example : offsetText 0 = "+00:00" ∧ offsetText 3600 = "+01:00" ∧ offsetText (-3600) = "-01:00" ∧
    offsetText 19800 = "+05:30" ∧ offsetText (-19800) = "-05:30" ∧ offsetText 20700 = "+05:45" ∧
    offsetText (-12600) = "-03:30" ∧ offsetText 45900 = "+12:45" ∧ offsetText 50400 = "+14:00" ∧
    offsetText (-50400) = "-14:00" ∧ offsetText (5*3600+45*60+8) = "+05:45:08" := by decide

/-! ### 7. the size attribute -/

/-- the size attribute is present for every length — also 0, which the former code omitted — and distinct sizes give
distinct texts -/
theorem size_present :
    (∀ n, sizeAttr n ≠ none) ∧ sizeAttr 0 = some "0" ∧ (∀ n m, sizeAttr n = sizeAttr m → n = m) := by
  refine ⟨fun n => by simp [sizeAttr], by decide, ?_⟩
  intro n m e
  simp only [sizeAttr, Option.some.injEq] at e
  exact toString_nat_inj n m e

/-- the text is the decimal numeral of the size: reading the digits back gives the size -/
theorem size_decodes (n : Nat) : ∃ s, sizeAttr n = some s ∧ Nat.ofDigitChars 10 s.toList 0 = n := by
  refine ⟨toString n, rfl, ?_⟩
  simp [Nat.ofDigitChars_ten_toDigits]

/-! ### non-vacuity -/

/-- CET/CEST-like spring-forward (3600 → 7200) and fall-back (7200 → 3600) satisfy the hypothesis; instants before,
inside and after the critical window -/
example : (3600 : Int) - 7200 ≤ 86400 ∧ (7200 : Int) - 3600 ≤ 86400 := by decide

example : let z := oneTransition 1000000 7200 3600
    [999000, 999999, 1000000, 1003599, 1003600, 1090000].map (fun t => mktime z (fromTimestamp z t)) =
      [999000, 999999, 1000000, 1003599, 1003600, 1090000] ∧
    [999000, 999999, 1000000, 1003599, 1003600, 1090000].map (fun t => (fromTimestamp z t).fold) =
      [false, false, true, true, false, false] ∧
    [999000, 999999, 1000000, 1003599, 1003600].map (fun t => isoParts z (fromTimestamp z t)) =
      [(1006200, 7200), (1007199, 7200), (1003600, 3600), (1007199, 3600), (1007200, 3600)] := by decide

example : let z := oneTransition 1000000 3600 7200
    [999999, 1000000, 1086400].map (fun t => isoParts z (fromTimestamp z t)) =
      [(1003599, 3600), (1007200, 7200), (1093600, 7200)] := by decide

example : sizeAttr 0 = some "0" ∧ sizeAttr 1234567 = some "1234567" := by decide

end MhlProps.C16
