/-
C02 — A sealed generation records exactly the tree that is on disk.

About `MhlModel.traverse` / `traverseKids` / `visiblePaths` (ascmhl/traverse.py `post_order_lexicographic`), the
enumeration through which create, verify, verify -dh and diff see the tree.  `hit p` says whether the root-relative
path `p` is matched by the ignore patterns; nothing is assumed about it.

`Node.paths here t` (MhlProps/Proofs/TraverseLemmas.lean) lists every proper descendant of `t` as (path, is_dir),
`here` being the path of `t` itself; `Node.mem_paths_iff_at` ties it to the model's own lookup `Node.at?`.
-/
import MhlProps.Proofs.TraverseLemmas

namespace MhlProps.C02
open MhlModel

/-! ### 1. `isort` only reorders -/

/-- `isort` is a permutation of its input -/
theorem isort_perm {α : Type} (le : α → α → Bool) (l : List α) : (isort le l).Perm l :=
  MhlModel.isort_perm le l

/-- sorting neither drops nor invents elements -/
theorem mem_isort {α : Type} (le : α → α → Bool) (l : List α) (x : α) : x ∈ isort le l ↔ x ∈ l :=
  MhlModel.mem_isort le l x

/-! ### 2. visited = in the tree, and neither the entry nor an ancestor below the root is ignored -/

/-- general starting path: the traversal of the node whose own path is `here` yields exactly the descendants none of
whose path prefixes strictly longer than `here` is ignored -/
theorem visible_iff_from (hit : RelPath → Bool) (t : Node) (here p : RelPath) (d : Bool) :
    (p, d) ∈ visFrom hit here t ↔
      (p, d) ∈ Node.paths here t ∧ ∀ k, here.length < k → k ≤ p.length → hit (p.take k) = false :=
  mem_visFrom_iff hit t here p d

theorem visible_iff (hit : RelPath → Bool) (t : Node) (p : RelPath) (d : Bool) :
    (p, d) ∈ visiblePaths hit t ↔
      (p, d) ∈ Node.paths [] t ∧ ∀ k, 0 < k → k ≤ p.length → hit (p.take k) = false := by
  rw [visiblePaths_eq]
  exact mem_visFrom_iff hit t [] p d

/-- the same with the model's own lookup in place of `Node.paths`, for trees a file system can hold (sibling names
distinct): the records are exactly the entries on disk that the ignore patterns do not exclude -/
theorem visible_iff_at (hit : RelPath → Bool) (t : Node) (hd : t.NamesDistinct) (p : RelPath) (d : Bool) :
    (p, d) ∈ visiblePaths hit t ↔
      (p ≠ [] ∧ ∃ c, t.at? p = some c ∧ c.isDir = d) ∧
        ∀ k, 0 < k → k ≤ p.length → hit (p.take k) = false := by
  rw [visible_iff]
  have := Node.mem_paths_iff_at t [] p d hd
  simp only [List.nil_append] at this
  rw [this]

/-! ### 3. paths are relative to the root and made of names of nodes of the tree -/

theorem visible_relative (hit : RelPath → Bool) (t : Node) (p : RelPath) (d : Bool)
    (h : (p, d) ∈ visiblePaths hit t) :
    (p, d) ∈ Node.paths [] t ∧ p ≠ [] ∧ ∀ s ∈ p, s ∈ t.descNames := by
  have hp := ((visible_iff hit t p d).1 h).1
  obtain ⟨q, hq, hne, hs⟩ := Node.paths_shape t [] p d hp
  simp only [List.nil_append] at hq
  subst hq
  exact ⟨hp, hne, hs⟩

/-- no `..` component (nor any other name) unless a node of the tree is literally named so -/
theorem visible_no_foreign_component (hit : RelPath → Bool) (t : Node) (p : RelPath) (d : Bool) (s : String)
    (hs : s ∉ t.descNames) (h : (p, d) ∈ visiblePaths hit t) : s ∉ p :=
  fun hm => hs ((visible_relative hit t p d h).2.2 s hm)

/-- every visited path resolves in the tree, to a node of the recorded kind -/
theorem visible_on_disk (hit : RelPath → Bool) (t : Node) (hd : t.NamesDistinct) (p : RelPath) (d : Bool)
    (h : (p, d) ∈ visiblePaths hit t) : ∃ c, t.at? p = some c ∧ c.isDir = d :=
  ((visible_iff_at hit t hd p d).1 h).1.2

/-! ### 4. each entry is visited once -/

theorem visible_nodup (hit : RelPath → Bool) (t : Node) (hd : t.NamesDistinct) :
    (visiblePaths hit t).Nodup := by
  rw [visiblePaths_eq]
  exact nodup_visFrom hit t [] hd

/-! ### 5. nothing at or below an ignored path is visited -/

theorem ignored_nowhere (hit : RelPath → Bool) (t : Node) (p : RelPath) (d : Bool) (k : Nat)
    (hk0 : 0 < k) (hk : k ≤ p.length) (hh : hit (p.take k) = true) : (p, d) ∉ visiblePaths hit t := by
  intro h
  have := ((visible_iff hit t p d).1 h).2 k hk0 hk
  rw [hh] at this
  exact Bool.noConfusion this

/-- the same for the raw visits (what `verify -dh` and `diff` fold over): no visit of an ignored folder or of a
folder below one, and no ignored name among the children of a visit -/
theorem ignored_no_child (hit : RelPath → Bool) (t : Node) (v : Visit) (c : String × Bool)
    (hv : v ∈ traverse hit [] t) (hc : c ∈ v.children) :
    ∀ k, 0 < k → k ≤ v.folder.length + 1 → hit ((v.folder ++ [c.1]).take k) = false := by
  have hm : (v.folder ++ [c.1], c.2) ∈ visiblePaths hit t := by
    unfold visiblePaths
    exact List.mem_flatMap.2 ⟨v, hv, List.mem_map.2 ⟨c, hc, rfl⟩⟩
  intro k hk0 hk
  exact ((visible_iff hit t _ _).1 hm).2 k hk0 (by simpa using hk)

/-! ### 6. post-order -/

/-- the last visit is the one of the directory itself, listing its visible children in sorted order -/
theorem traverse_last (hit : RelPath → Bool) (here : RelPath) (n : String) (cs : List Node)
    (h : Option HistStore) :
    (traverse hit here (.dir n cs h)).getLast? =
      some ⟨here, ((isort (fun a b => strLe a.name b.name) (traverseKids hit here cs)).filter
        (fun k => !hit (here ++ [k.name]))).map fun k => (k.name, k.isDir)⟩ := by
  simp [traverse]

/-- which children the visit of a directory lists: those not ignored -/
theorem traverse_last_children (hit : RelPath → Bool) (here : RelPath) (n : String) (cs : List Node)
    (h : Option HistStore) (v : Visit) (hv : (traverse hit here (.dir n cs h)).getLast? = some v)
    (nm : String) (d : Bool) :
    v.folder = here ∧
      ((nm, d) ∈ v.children ↔ ∃ c ∈ cs, c.name = nm ∧ c.isDir = d ∧ hit (here ++ [nm]) = false) := by
  rw [traverse_dir] at hv
  simp only [List.getLast?_append, List.getLast?_singleton, Option.some_or, Option.some.injEq] at hv
  subst hv
  refine ⟨rfl, ?_⟩
  simp only [List.mem_map, mem_visKids, Prod.mk.injEq]
  constructor
  · rintro ⟨k, ⟨c, hc, hh, rfl⟩, rfl, rfl⟩
    exact ⟨c, hc, rfl, rfl, hh⟩
  · rintro ⟨c, hc, rfl, rfl, hh⟩
    exact ⟨_, ⟨c, hc, hh, rfl⟩, rfl, rfl⟩

/-- everything before the last visit belongs to a visible child: its folder is strictly below `here` -/
theorem traverse_front (hit : RelPath → Bool) (here : RelPath) (n : String) (cs : List Node)
    (h : Option HistStore) (v : Visit) (hv : v ∈ (traverse hit here (.dir n cs h)).dropLast) :
    ∃ c ∈ cs, hit (here ++ [c.name]) = false ∧ ∃ q, v.folder = here ++ c.name :: q := by
  rw [traverse_dir, List.dropLast_concat] at hv
  obtain ⟨k, hk, hv⟩ := List.mem_flatMap.1 hv
  obtain ⟨q, hq⟩ := kid_visit_shape hk hv
  obtain ⟨c, hc, hh, rfl⟩ := (mem_visKids _ _ _ _).1 hk
  exact ⟨c, hc, hh, q, hq⟩

/-- the whole traversal of each visible child is a contiguous block before the visit of the directory -/
theorem traverse_child_infix (hit : RelPath → Bool) (here : RelPath) (n : String) (cs : List Node)
    (h : Option HistStore) (c : Node) (hc : c ∈ cs) (hh : hit (here ++ [c.name]) = false) :
    traverse hit (here ++ [c.name]) c <:+: (traverse hit here (.dir n cs h)).dropLast := by
  rw [traverse_dir, List.dropLast_concat]
  have hk : kidOf hit here c ∈ visKids hit here cs := (mem_visKids _ _ _ _).2 ⟨c, hc, hh, rfl⟩
  exact infix_flatMap_of_mem (f := (·.visits)) hk

/-- post-order, for trees with distinct sibling names: a visit is never followed by the visit of a folder at or
below its own, i.e. every directory is visited exactly once and after all its visible sub-directories -/
theorem traverse_postorder (hit : RelPath → Bool) (here : RelPath) (t : Node) (hd : t.NamesDistinct) :
    (traverse hit here t).Pairwise (fun v w => ¬ v.folder <+: w.folder) :=
  traverse_pairwise hit t here hd

/-- the hypothesis of `traverse_postorder` is needed: with two siblings of the same name (which no file system
holds) the model visits `a` and later `a/x` -/
theorem traverse_postorder_needs_distinct :
    ¬ (traverse (fun _ => false) []
        (.dir "" [.dir "a" [] none, .dir "a" [.dir "x" [] none] none] none)).Pairwise
        (fun v w => ¬ v.folder <+: w.folder) := by
  decide

/-! ### non-vacuity -/

/-- a tree with an ignored file, an ignored directory with content, an empty directory and a nested one -/
def exTree : Node :=
  .dir "root"
    [ .file "b.txt" [1],
      .dir "sub" [.file "x" [], .dir ".git" [.file "cfg" []] none, .dir "deep" [.file "y" [2]] none] none,
      .dir "A" [] none,
      .file ".DS_Store" [] ] none

def exHit (p : RelPath) : Bool := p.getLast? == some ".DS_Store" || p.getLast? == some ".git"

example : visiblePaths exHit exTree =
    [ (["sub", "deep", "y"], false),
      (["sub", "deep"], true), (["sub", "x"], false),
      (["A"], true), (["b.txt"], false), (["sub"], true) ] := by decide

example : exTree.NamesDistinct := by
  simp [exTree, Node.NamesDistinct, Node.NamesDistinctKids, Node.name]

example : (["sub", ".git", "cfg"], false) ∈ Node.paths [] exTree := by decide

/-- `ignored_nowhere` applies with `k = 2`: the file is in the tree but below an ignored directory -/
example : (["sub", ".git", "cfg"], false) ∉ visiblePaths exHit exTree :=
  ignored_nowhere exHit exTree _ _ 2 (by decide) (by decide) (by decide)

/-- the right-hand side of `visible_iff` holds for a nested file -/
example : (["sub", "deep", "y"], false) ∈ Node.paths [] exTree ∧
    ∀ k, 0 < k → k ≤ 3 → exHit ((["sub", "deep", "y"] : RelPath).take k) = false := by
  refine ⟨by decide, fun k h0 h3 => ?_⟩
  have : k = 1 ∨ k = 2 ∨ k = 3 := by omega
  rcases this with rfl | rfl | rfl <;> decide

example : (traverse exHit [] exTree).map (·.folder) = [["A"], ["sub", "deep"], ["sub"], []] := by decide

end MhlProps.C02
