/-
C18e2e — the END-TO-END statements of C18 (flatten):

  the packing list written by `flatten` contains, for every file ever recorded, its earliest non-failed digest per
  format; verifying a tree against it (`verify -pl`) succeeds exactly when the files still have those digests

obtained by COMPOSING the model's own `createFolder`, `applyWritten`, `flatten` and `verifyOrDiff … (some g)`
(`verify -pl FILE` is `verifyOrDiff env t o true (some g)`).  The setting of 1.–4. is C03e2e's `Setting env rn cs o`
(a tree `t = .dir rn cs none` without `ascmhl` folder, sealed once: `w` is the written generation,
`t' = sealedTree env rn cs o`); `hit0 env o` is the matcher of that first `create`.

  1. `flatten_after_seal`, `flatten_after_seal'`, `packingList_records`
        `flatten env t' [] []` EQUALS `{ written := if no file record then [] else [⟨[], 1, packingList env w⟩] }`:
        no error; process "flatten"; no root hash; the ignore list of the sealed generation (= the pattern list of
        the create); records = the sealed generation's FILE records, unchanged and in order (folder records dropped)
  2. `verify_pl_after_seal` (+ `verify_pl_unchanged`, `verify_pl_after_seal'`)
        `verify -pl` of the sealed tree AND of the original, unsealed tree: exit code 0, empty reports
  3. `verify_pl_any_tree`  the complete characterisation of `verify -pl` on ANY tree `t2` (mismatch / new / missing
        lists, report, exit code), and from it
        `verify_pl_altered` (+ `_trees`)   altered file          ⇒ 11, mismatch = [p]
        `verify_pl_removed` (+ `_root`)    removed file          ⇒ 10, missing  = [p]
        `verify_pl_added`   (+ `_root`)    added visible file    ⇒ 21, new      = {p}
        `verify_pl_precedence`             11 (mismatch) over 21 (new) over 10 (missing) over 0, exactly
  4. `flatten_two_generations`
        seal, reseal with ANY other non-empty format list, flatten: generations 1 and 2 load, `flatten` cannot fail,
        one record per visible file with exactly the union of the formats of both runs (each once, sorted), every
        digest `env.H fmt content`, none failed, first-run formats `original`, the others `verified`
  5. `flatten_verify_pl_judges_first` (+ `flatten_verify_pl_judge`, `flatten_verify_pl_unrecorded`)
        for ANY history: which entry `verify -pl` compares (the `original` entry with the LEAST format name among the
        earliest non-failed entries; none ⇒ the file is called NEW);
        `not_coincide_resorted`, `not_coincide_later_original`, `not_coincide_shadowed`: it does NOT always coincide
        with what `verify` against the full history compares (`coincide_failed_later`: a failed entry is harmless);
        `flatten_verify_pl_coincides`: it does under `OriginalsFirst` (the shape of every history this tool writes),
        instantiated by `verify_pl_same_entry_after_seal`, `verify_pl_same_entry_two_generations`
  FALSE in general: `flatten_verify_pl_rename_fails` — for a history with a RENAME the unchanged tree verifies
        against its history (0) but not against its flattened history (10, the old path is reported missing):
        `flatten` keeps the record of the old path and drops `previousPath`.

All statements of 1.–5. are at full strength; nothing is partial.  Hypotheses beyond the setting: for 3. that the
digest in the format `verify -pl` compares differs (as in C03e2e; `env.H` is arbitrary); for 4. that the ignore
options of the second run only name recorded patterns and `-dr` is off (as C03e2e `reseal_ok`).

Helper lemmas are in MhlProps/Proofs/FlattenE2ELemmas.lean.  The last sections evaluate the pipeline on C03e2e's
example by `decide +kernel`.
-/
import MhlProps.Proofs.FlattenE2ELemmas

namespace MhlProps.C18e2e
open MhlModel MhlProps.C02rec MhlProps.C04 MhlProps.C03e2e MhlProps.C18

section
variable {env : Env} {rn : String} {cs : List Node} {o : CreateOpts}

/-! ### 0. the sealed generation, record by record -/

/-- the FILE records of a generation -/
def fileRecords (g : Generation) : List Record := g.records.filter fun r => !r.isDir

theorem mem_fileRecords (g : Generation) (r : Record) : r ∈ fileRecords g ↔ r ∈ g.records ∧ r.isDir = false := by
  simp [fileRecords]

/-- the records of the generation a first seal writes: distinct paths, no previous paths; the file records are
exactly the records of the visible files, each with the content length and one `original` entry per requested
format, sorted by format name -/
theorem sealed_records (hS : Setting env rn cs o) (w : Written)
    (hw : (createFolder env (.dir rn cs none) o).written = [w]) :
    (w.gen.records.map (·.path)).Nodup ∧
    (∀ r ∈ w.gen.records, r.prev = none) ∧
    (∀ r ∈ fileRecords w.gen, ∃ p, (p, false) ∈ visiblePaths (hit0 env o) (.dir rn cs none) ∧ r.path = posix p ∧
      r.size = some (fileContent (.dir rn cs none) p).length ∧
      r.entries = origEntries env (fileContent (.dir rn cs none) p) o.formats) ∧
    (∀ p, (p, false) ∈ visiblePaths (hit0 env o) (.dir rn cs none) → ∃ r ∈ fileRecords w.gen, r.path = posix p ∧
      r.size = some (fileContent (.dir rn cs none) p).length ∧
      r.entries = origEntries env (fileContent (.dir rn cs none) p) o.formats) := by
  obtain ⟨-, -, -, -, -, -, hsg⟩ := written_facts hS w hw
  obtain ⟨-, hnd, hperm, -, -, hfiles⟩ := create_records_exact env (.dir rn cs none) o emptyHist (load_fresh hS) rfl
    hS.distinct hS.namesOk hS.formats hS.noRename w hw
  rw [cHit_fresh] at hperm hfiles
  have hfile : ∀ p, (p, false) ∈ visiblePaths (hit0 env o) (.dir rn cs none) → ∃ r ∈ fileRecords w.gen,
      r.path = posix p ∧ r.size = some (fileContent (.dir rn cs none) p).length ∧
      r.entries = origEntries env (fileContent (.dir rn cs none) p) o.formats := by
    intro p hp
    obtain ⟨r, hr, hpath, hdir, -, hsize, -⟩ := hfiles p hp
    obtain ⟨r', hr', hpath', hents'⟩ := hsg.files p hp
    have : r' = r := record_unique hnd hr' hr (hpath'.trans hpath.symm)
    subst this
    exact ⟨r', (mem_fileRecords _ _).2 ⟨hr, hdir⟩, hpath, hsize, hents'⟩
  refine ⟨hnd, hsg.prev, ?_, hfile⟩
  intro r hr
  obtain ⟨hr1, hr2⟩ := (mem_fileRecords _ _).1 hr
  have hm : (r.path, r.isDir) ∈ w.gen.records.map fun r => (r.path, r.isDir) := List.mem_map.2 ⟨r, hr1, rfl⟩
  obtain ⟨x, hx, hxe⟩ := List.mem_map.1 (hperm.mem_iff.1 hm)
  obtain ⟨p, d⟩ := x
  simp only [Prod.mk.injEq] at hxe
  obtain ⟨hxp, hxd⟩ := hxe
  rw [hr2] at hxd
  subst hxd
  obtain ⟨r', hr', hpath', hsize', hents'⟩ := hfile p hx
  have : r' = r := record_unique hnd ((mem_fileRecords _ _).1 hr').1 hr1 (hpath'.trans hxp)
  subst this
  exact ⟨p, hx, hpath', hsize', hents'⟩

/-- there is a file record iff there is a visible file -/
theorem fileRecords_ne_nil_iff (hS : Setting env rn cs o) (w : Written)
    (hw : (createFolder env (.dir rn cs none) o).written = [w]) :
    fileRecords w.gen ≠ [] ↔ ∃ p, (p, false) ∈ visiblePaths (hit0 env o) (.dir rn cs none) := by
  obtain ⟨-, -, h3, h4⟩ := sealed_records hS w hw
  constructor
  · intro hne
    obtain ⟨r, hr⟩ := List.exists_mem_of_ne_nil _ hne
    obtain ⟨p, hp, -⟩ := h3 r hr
    exact ⟨p, hp⟩
  · rintro ⟨p, hp⟩
    obtain ⟨r, hr, -⟩ := h4 p hp
    exact List.ne_nil_of_mem hr

/-! ### 1. flatten after the first seal -/

/-- the packing list `flatten` writes for the tree sealed once: named after folder and stamp, process `flatten`, no
root hash, the ignore list and the FILE records of the sealed generation -/
def packingList (env : Env) (w : Written) : Generation :=
  { fileName := "packinglist_" ++ env.rootName ++ "_" ++ env.stamp ++ Gen.fileExtension,
    process := "flatten", rootHash := none, ignore := w.gen.ignore, records := fileRecords w.gen }

/-- the records `flatten` writes after one seal are the file records of the sealed generation, unchanged: same
order, same paths, sizes, entries (the sort by format name finds them sorted) -/
theorem sortedRecords_after_seal (hS : Setting env rn cs o) (w : Written)
    (hw : (createFolder env (.dir rn cs none) o).written = [w]) :
    sortedRecords (sealedHist w).gens = fileRecords w.gen := by
  obtain ⟨hnd, hprev, h3, -⟩ := sealed_records hS w hw
  have hclean : ∀ r ∈ w.gen.records, r.isDir = false →
      (r.entries.map (·.fmt)).Nodup ∧ r.entries ≠ [] ∧ ∀ e ∈ r.entries, e.action ≠ "failed" := by
    intro r hr hd
    obtain ⟨p, -, -, -, hents⟩ := h3 r ((mem_fileRecords _ _).2 ⟨hr, hd⟩)
    rw [hents]
    exact origEntries_clean env _ o.formats hS.formats
  unfold sortedRecords
  rw [show (sealedHist w).gens = [⟨1, w.gen⟩] from rfl, flattenRecords_single 1 w.gen hnd hclean, List.map_map]
  conv => rhs; rw [← List.map_id (fileRecords w.gen)]
  apply List.map_congr_left
  intro r hr
  obtain ⟨hr1, hr2⟩ := (mem_fileRecords _ _).1 hr
  obtain ⟨p, -, -, -, hents⟩ := h3 r hr
  simp only [Function.comp, id]
  rw [stripRec_eq r hr2 (hprev r hr1)]
  have : isort (fun a b => strLe a.fmt b.fmt) r.entries = r.entries := by
    rw [hents]; exact origEntries_sorted_idem env _ o.formats
  rw [this]

/-- 1. `flatten_after_seal`: on the tree sealed once `flatten` (without ignore options) cannot fail; what it returns
is determined completely: no error, no report, and — when the sealed generation has a file record, i.e. when the
tree has a visible file — exactly one generation, number 1 at the root: `packingList env w`; else nothing -/
theorem flatten_after_seal (hS : Setting env rn cs o) (w : Written)
    (hw : (createFolder env (.dir rn cs none) o).written = [w]) :
    flatten env (sealedTree env rn cs o) [] [] =
      { err := none, report := {},
        written := if (fileRecords w.gen).isEmpty then [] else [⟨[], 1, packingList env w⟩] } := by
  obtain ⟨hl, -⟩ := sealed_tree_loads hS w hw
  obtain ⟨hign, hset, -, -⟩ := sealed_ignore_stable hS w hw
  rw [flatten_eq env _ [] [] (sealedHist w) hl (sealedHist_gens_ne w), sortedRecords_after_seal hS w hw]
  have hg : flattenGen env (sealedHist w).gens [] [] = packingList env w := by
    unfold flattenGen packingList
    rw [sortedRecords_after_seal hS w hw, hset, hign, setPatterns_none_own]
  rw [hg]

/-- the same spelled out as in the task: `err = none`; with a visible file exactly one generation `[⟨[], 1, g⟩]`
with `g.process = "flatten"`, the ignore list of the sealed generation (which is the pattern list of the first
`create`), and the sealed generation's file records (directory records dropped); without a visible file nothing is
written -/
theorem flatten_after_seal' (hS : Setting env rn cs o) (w : Written)
    (hw : (createFolder env (.dir rn cs none) o).written = [w]) :
    (flatten env (sealedTree env rn cs o) [] []).err = none ∧
    (flatten env (sealedTree env rn cs o) [] []).exitCode = 0 ∧
    ((∃ p, (p, false) ∈ visiblePaths (hit0 env o) (.dir rn cs none)) →
      ∃ g, (flatten env (sealedTree env rn cs o) [] []).written = [⟨[], 1, g⟩] ∧ g = packingList env w ∧
        g.process = "flatten" ∧ g.rootHash = none ∧ g.refs = [] ∧
        g.ignore = w.gen.ignore ∧ g.ignore = setPatterns none o.ignoreCli o.ignoreFile ∧
        g.records = w.gen.records.filter (fun r => !r.isDir) ∧
        (∀ r ∈ g.records, r.isDir = false ∧ r.prev = none)) ∧
    ((¬ ∃ p, (p, false) ∈ visiblePaths (hit0 env o) (.dir rn cs none)) →
      (flatten env (sealedTree env rn cs o) [] []).written = []) := by
  rw [flatten_after_seal hS w hw]
  obtain ⟨hign, -⟩ := sealed_ignore_stable hS w hw
  obtain ⟨-, hprev, -, -⟩ := sealed_records hS w hw
  refine ⟨rfl, rfl, ?_, ?_⟩
  · intro hex
    have hne := (fileRecords_ne_nil_iff hS w hw).2 hex
    have he : (fileRecords w.gen).isEmpty = false := (isEmpty_eq_false_iff _).2 hne
    simp only [he, Bool.false_eq_true, if_false]
    refine ⟨_, rfl, rfl, rfl, rfl, rfl, rfl, hign, rfl, ?_⟩
    intro r hr
    obtain ⟨hr1, hr2⟩ := (mem_fileRecords _ _).1 hr
    exact ⟨hr2, hprev r hr1⟩
  · intro hex
    have : fileRecords w.gen = [] := by
      by_contra hne
      exact hex ((fileRecords_ne_nil_iff hS w hw).1 hne)
    simp [this]

/-- and record by record: every visible file has its record in the packing list, with its size and one `original`
entry `H fmt content` per requested format -/
theorem packingList_records (hS : Setting env rn cs o) (w : Written)
    (hw : (createFolder env (.dir rn cs none) o).written = [w]) :
    ((packingList env w).records.map (·.path)).Nodup ∧
    (∀ p, (p, false) ∈ visiblePaths (hit0 env o) (.dir rn cs none) → ∃ r ∈ (packingList env w).records,
      r.path = posix p ∧ r.size = some (fileContent (.dir rn cs none) p).length ∧
      r.entries = origEntries env (fileContent (.dir rn cs none) p) o.formats) ∧
    (∀ r ∈ (packingList env w).records, ∃ p, (p, false) ∈ visiblePaths (hit0 env o) (.dir rn cs none) ∧
      r.path = posix p ∧ r.size = some (fileContent (.dir rn cs none) p).length ∧
      r.entries = origEntries env (fileContent (.dir rn cs none) p) o.formats) := by
  obtain ⟨hnd, -, h3, h4⟩ := sealed_records hS w hw
  refine ⟨?_, h4, h3⟩
  exact List.Nodup.sublist (List.Sublist.map _ List.filter_sublist) hnd

/-! ### 2. / 3. `verify -pl` against that packing list, on ANY tree -/

theorem packingList_clean (hS : Setting env rn cs o) (w : Written)
    (hw : (createFolder env (.dir rn cs none) o).written = [w]) : PlClean (packingList env w) := by
  obtain ⟨-, hprev, -, -⟩ := sealed_records hS w hw
  refine ⟨rfl, (packingList_records hS w hw).1, ?_⟩
  intro r hr
  exact hprev r ((mem_fileRecords _ _).1 hr).1

/-- the matcher of a `verify -pl` run without ignore options is the matcher of the `create` that sealed the tree -/
theorem pl_hit (hS : Setting env rn cs o) (w : Written)
    (hw : (createFolder env (.dir rn cs none) o).written = [w]) :
    vHit env (plHist (packingList env w)) {} = hit0 env o := by
  obtain ⟨-, hset, -, -⟩ := sealed_ignore_stable hS w hw
  have : setPatterns (latestIgnore (plHist (packingList env w)).gens) [] [] = pats o := hset
  unfold vHit
  rw [show ({} : VerifyOpts).ignoreCli = [] from rfl, show ({} : VerifyOpts).ignoreFile = [] from rfl, this]

/-- the verdict of `verify -pl` (`hashing = true`) on a file `p` of ANY tree `t2`: if the POSIX text of `p` is that
of a file `q` that was visible when the tree was sealed, the digest of the content of `p` in `t2` in the LEAST
requested format name is compared with that of `q` at seal time; otherwise the file is new -/
theorem pl_judge (hS : Setting env rn cs o) (w : Written)
    (hw : (createFolder env (.dir rn cs none) o).written = [w]) (t2 : Node) (hashing : Bool) (p : RelPath) :
    (∀ q, (q, false) ∈ visiblePaths (hit0 env o) (.dir rn cs none) → posix q = posix p →
      judgeFile env t2 (plHist (packingList env w)) hashing p =
        if hashing && env.H (firstFormat o.formats) (fileContent t2 p) !=
            env.H (firstFormat o.formats) (fileContent (.dir rn cs none) q) then .mismatch else .ok) ∧
    ((∀ q, (q, false) ∈ visiblePaths (hit0 env o) (.dir rn cs none) → posix q ≠ posix p) →
      judgeFile env t2 (plHist (packingList env w)) hashing p = .new) := by
  have hc := packingList_clean hS w hw
  obtain ⟨-, h2, h3⟩ := packingList_records hS w hw
  constructor
  · intro q hq hqp
    obtain ⟨r, hr, hpath, -, hents⟩ := h2 q hq
    rw [hc.judgeFile_mem env t2 hashing p r hr (hpath.trans hqp), hents,
      origEntries_find_original env _ o.formats hS.formats]
    rfl
  · intro hno
    apply hc.judgeFile_new
    intro r hr hrp
    obtain ⟨q, hq, hpath, -⟩ := h3 r hr
    exact hno q hq (hpath.symm.trans hrp)

/-- the paths the packing list expects: the files that were visible when the tree was sealed -/
theorem pl_expected (hS : Setting env rn cs o) (w : Written)
    (hw : (createFolder env (.dir rn cs none) o).written = [w]) (p : RelPath) :
    p ∈ expectedPaths (plHist (packingList env w)) ↔ (p, false) ∈ visiblePaths (hit0 env o) (.dir rn cs none) := by
  obtain ⟨-, h2, h3⟩ := packingList_records hS w hw
  rw [mem_expectedPaths_pl]
  constructor
  · rintro ⟨r, hr, rfl⟩
    obtain ⟨q, hq, hpath, -⟩ := h3 r hr
    rw [hpath, splitPath_posix (visible_names_ok _ _ hS.namesOk _ hq).2]
    exact hq
  · intro hp
    obtain ⟨r, hr, hpath, -⟩ := h2 p hp
    exact ⟨r, hr, by rw [hpath, splitPath_posix (visible_names_ok _ _ hS.namesOk _ hp).2]⟩

/-- THE CHARACTERISATION of a `verify -pl` run (and of the non-hashing run) against the packing list of the tree
sealed once, on ANY tree `t2` (no `ascmhl` folder is needed, none is looked at): with `hit` the matcher of the
first `create`, `t` the tree at seal time and `ff` the least requested format name,

* mismatch: the visible files of `t2` whose text is that of a file `q` visible in `t` and whose digest in `ff`
  differs from that of `q` at seal time (never without hashing);
* new: the visible files of `t2` whose text is not that of a file visible in `t`;
* missing: the files visible in `t` that are not visible in `t2`;

the report is the `posix` image of these, and the run ends as `verifyExit` says: mismatch (11) over new (21) over
missing (10). -/
theorem verify_pl_any_tree (hS : Setting env rn cs o) (w : Written)
    (hw : (createFolder env (.dir rn cs none) o).written = [w]) (t2 : Node) (hashing : Bool) :
    (∀ p, p ∈ vMism env t2 (plHist (packingList env w)) {} hashing ↔
      hashing = true ∧ (p, false) ∈ visiblePaths (hit0 env o) t2 ∧
        ∃ q, (q, false) ∈ visiblePaths (hit0 env o) (.dir rn cs none) ∧ posix q = posix p ∧
          env.H (firstFormat o.formats) (fileContent t2 p) ≠
            env.H (firstFormat o.formats) (fileContent (.dir rn cs none) q)) ∧
    (∀ p, p ∈ vNews env t2 (plHist (packingList env w)) {} hashing ↔
      (p, false) ∈ visiblePaths (hit0 env o) t2 ∧
        ∀ q, (q, false) ∈ visiblePaths (hit0 env o) (.dir rn cs none) → posix q ≠ posix p) ∧
    (∀ p, p ∈ vMissing env t2 (plHist (packingList env w)) {} ↔
      (p, false) ∈ visiblePaths (hit0 env o) (.dir rn cs none) ∧ ∀ d, (p, d) ∉ visiblePaths (hit0 env o) t2) ∧
    (verifyOrDiff env t2 {} hashing (some (packingList env w))).report =
      { mismatch := (vMism env t2 (plHist (packingList env w)) {} hashing).map posix,
        missing := (vMissing env t2 (plHist (packingList env w)) {}).map posix,
        new := (vNews env t2 (plHist (packingList env w)) {} hashing).map posix } ∧
    (verifyOrDiff env t2 {} true (some (packingList env w))).err =
      (if vMism env t2 (plHist (packingList env w)) {} true ≠ [] then some errVerifyFailed
       else if vNews env t2 (plHist (packingList env w)) {} true ≠ [] then some errNewFiles
       else if vMissing env t2 (plHist (packingList env w)) {} ≠ [] then some errMissingFiles
       else none) := by
  have hhit := pl_hit hS w hw
  refine ⟨?_, ?_, ?_, ?_, ?_⟩
  · intro p
    rw [MhlProps.C03.mism_iff, hhit]
    constructor
    · rintro ⟨hv, -, hj⟩
      by_cases hex : ∃ q, (q, false) ∈ visiblePaths (hit0 env o) (.dir rn cs none) ∧ posix q = posix p
      · obtain ⟨q, hq, hqp⟩ := hex
        rw [(pl_judge hS w hw t2 hashing p).1 q hq hqp] at hj
        cases hashing with
        | false => simp at hj
        | true =>
          refine ⟨rfl, hv, q, hq, hqp, ?_⟩
          intro heq
          simp [heq] at hj
      · rw [(pl_judge hS w hw t2 hashing p).2 (fun q hq hqp => hex ⟨q, hq, hqp⟩)] at hj
        cases hj
    · rintro ⟨hh, hv, q, hq, hqp, hne⟩
      refine ⟨hv, Or.inl rfl, ?_⟩
      rw [(pl_judge hS w hw t2 hashing p).1 q hq hqp, hh]
      simp [hne]
  · intro p
    rw [MhlProps.C03.news_iff, hhit]
    constructor
    · rintro ⟨hv, -, hj⟩
      refine ⟨hv, ?_⟩
      intro q hq hqp
      rw [(pl_judge hS w hw t2 hashing p).1 q hq hqp] at hj
      split at hj <;> cases hj
    · rintro ⟨hv, hno⟩
      exact ⟨hv, Or.inl rfl, (pl_judge hS w hw t2 hashing p).2 hno⟩
  · intro p
    rw [MhlProps.C03.missing_iff, hhit, pl_expected hS w hw p]
    constructor
    · rintro ⟨he, hnv, -⟩
      exact ⟨he, hnv⟩
    · rintro ⟨he, hnv⟩
      refine ⟨he, hnv, ?_⟩
      exact MhlProps.C03.hitAbove_false_of_visible _ _ p false he
  · rw [verifyOrDiff_pl_eq]
  · rw [verifyOrDiff_pl_eq]
    simp only [if_true, verifyExit, Option.isSome_none, Bool.false_and, Bool.false_eq_true, if_false,
      List.isEmpty_map]
    by_cases h1 : vMism env t2 (plHist (packingList env w)) {} true = []
    · by_cases h2 : vNews env t2 (plHist (packingList env w)) {} true = []
      · by_cases h3 : vMissing env t2 (plHist (packingList env w)) {} = []
        · simp [h1, h2, h3]
        · simp [h1, h2, h3]
      · simp [h1, h2]
    · simp [h1]

/-- the visited files of a tree are listed once each when they are those of the sealed tree -/
theorem vMism_nodup_of_vis (hS : Setting env rn cs o) (w : Written)
    (hw : (createFolder env (.dir rn cs none) o).written = [w]) (t2 : Node) (hashing : Bool)
    (hvis : visiblePaths (hit0 env o) t2 = visiblePaths (hit0 env o) (.dir rn cs none)) :
    (vMism env t2 (plHist (packingList env w)) {} hashing).Nodup := by
  unfold vMism vConsidered vFiles
  rw [pl_hit hS w hw, hvis]
  exact List.Nodup.sublist (List.filter_sublist.trans List.filter_sublist)
    (visibleFiles_nodup _ _ hS.distinct hS.namesOk)

/-- two visible paths of the sealed tree with the same POSIX text are the same path -/
theorem visible_posix_inj (hS : Setting env rn cs o) {p q : RelPath} {d e : Bool}
    (hp : (p, d) ∈ visiblePaths (hit0 env o) (.dir rn cs none))
    (hq : (q, e) ∈ visiblePaths (hit0 env o) (.dir rn cs none)) (h : posix q = posix p) : q = p :=
  posix_inj (visible_names_ok _ _ hS.namesOk _ hq).2 (visible_names_ok _ _ hS.namesOk _ hp).2 h

/-- `verify -pl` (and the non-hashing run) on ANY tree that shows the same visible paths as the tree at seal time
and whose files have the contents they had then: exit code 0, nothing reported -/
theorem verify_pl_unchanged (hS : Setting env rn cs o) (w : Written)
    (hw : (createFolder env (.dir rn cs none) o).written = [w]) (t2 : Node) (hashing : Bool)
    (hvis : ∀ x, x ∈ visiblePaths (hit0 env o) t2 ↔ x ∈ visiblePaths (hit0 env o) (.dir rn cs none))
    (hcont : ∀ p, (p, false) ∈ visiblePaths (hit0 env o) (.dir rn cs none) →
      env.H (firstFormat o.formats) (fileContent t2 p) =
        env.H (firstFormat o.formats) (fileContent (.dir rn cs none) p)) :
    (verifyOrDiff env t2 {} hashing (some (packingList env w))).err = none ∧
    (verifyOrDiff env t2 {} hashing (some (packingList env w))).exitCode = 0 ∧
    (verifyOrDiff env t2 {} hashing (some (packingList env w))).report.mismatch = [] ∧
    (verifyOrDiff env t2 {} hashing (some (packingList env w))).report.new = [] ∧
    (verifyOrDiff env t2 {} hashing (some (packingList env w))).report.missing = [] := by
  obtain ⟨h1, h2, h3, -, -⟩ := verify_pl_any_tree hS w hw t2 hashing
  have e1 : vMism env t2 (plHist (packingList env w)) {} hashing = [] := by
    apply eq_nil_of_forall_not_mem
    intro p hp
    obtain ⟨-, hv, q, hq, hqp, hne⟩ := (h1 p).1 hp
    have : q = p := visible_posix_inj hS ((hvis _).1 hv) hq hqp
    subst this
    exact hne (hcont q hq)
  have e2 : vNews env t2 (plHist (packingList env w)) {} hashing = [] := by
    apply eq_nil_of_forall_not_mem
    intro p hp
    obtain ⟨hv, hno⟩ := (h2 p).1 hp
    exact hno p ((hvis _).1 hv) rfl
  have e3 : vMissing env t2 (plHist (packingList env w)) {} = [] := by
    apply eq_nil_of_forall_not_mem
    intro p hp
    obtain ⟨hv, hno⟩ := (h3 p).1 hp
    exact hno false ((hvis _).2 hv)
  have herr : (verifyOrDiff env t2 {} hashing (some (packingList env w))).err = none := by
    rw [verifyOrDiff_pl_eq, e1, e2, e3]
    cases hashing <;> rfl
  refine ⟨herr, ?_, ?_, ?_, ?_⟩
  · unfold Outcome.exitCode; rw [herr]
  · rw [verifyOrDiff_pl_eq, e1]; rfl
  · rw [verifyOrDiff_pl_eq, e2]; rfl
  · rw [verifyOrDiff_pl_eq, e3]; rfl

/-- 2. `verify_pl_after_seal`: the packing list of the unchanged tree verifies — on the sealed tree `t'`, and on the
ORIGINAL tree `t` without any `ascmhl` folder (the packing list is self-contained); exit code 0, empty reports -/
theorem verify_pl_after_seal (hS : Setting env rn cs o) (w : Written)
    (hw : (createFolder env (.dir rn cs none) o).written = [w]) :
    ((verifyOrDiff env (sealedTree env rn cs o) {} true (some (packingList env w))).err = none ∧
     (verifyOrDiff env (sealedTree env rn cs o) {} true (some (packingList env w))).exitCode = 0 ∧
     (verifyOrDiff env (sealedTree env rn cs o) {} true (some (packingList env w))).report.mismatch = [] ∧
     (verifyOrDiff env (sealedTree env rn cs o) {} true (some (packingList env w))).report.new = [] ∧
     (verifyOrDiff env (sealedTree env rn cs o) {} true (some (packingList env w))).report.missing = []) ∧
    ((verifyOrDiff env (.dir rn cs none) {} true (some (packingList env w))).err = none ∧
     (verifyOrDiff env (.dir rn cs none) {} true (some (packingList env w))).exitCode = 0 ∧
     (verifyOrDiff env (.dir rn cs none) {} true (some (packingList env w))).report.mismatch = [] ∧
     (verifyOrDiff env (.dir rn cs none) {} true (some (packingList env w))).report.new = [] ∧
     (verifyOrDiff env (.dir rn cs none) {} true (some (packingList env w))).report.missing = []) := by
  constructor
  · apply verify_pl_unchanged hS w hw
    · intro x
      rw [sealedTree_eq hS w hw, visiblePaths_root_hist _ rn cs _ none]
    · intro p _
      rw [sealedTree_eq hS w hw, fileContent_root_hist rn cs _ none]
  · exact verify_pl_unchanged hS w hw _ true (fun _ => Iff.rfl) (fun _ _ => rfl)

/-- in the words of the task: the generation `flatten` wrote verifies the tree it was made from -/
theorem verify_pl_after_seal' (hS : Setting env rn cs o)
    (hex : ∃ p, (p, false) ∈ visiblePaths (hit0 env o) (.dir rn cs none)) :
    ∃ g, (flatten env (sealedTree env rn cs o) [] []).written = [⟨[], 1, g⟩] ∧
      (verifyOrDiff env (sealedTree env rn cs o) {} true (some g)).err = none ∧
      (verifyOrDiff env (sealedTree env rn cs o) {} true (some g)).report.mismatch = [] ∧
      (verifyOrDiff env (sealedTree env rn cs o) {} true (some g)).report.new = [] ∧
      (verifyOrDiff env (sealedTree env rn cs o) {} true (some g)).report.missing = [] ∧
      (verifyOrDiff env (.dir rn cs none) {} true (some g)).err = none := by
  obtain ⟨w, -, hw, -⟩ := first_seal_core hS
  obtain ⟨-, -, hwr, -⟩ := flatten_after_seal' hS w hw
  obtain ⟨g, hg, rfl, -⟩ := hwr hex
  obtain ⟨⟨a1, -, a3, a4, a5⟩, ⟨b1, -⟩⟩ := verify_pl_after_seal hS w hw
  exact ⟨_, hg, a1, a3, a4, a5, b1⟩

/-! ### 3. altered / removed / added -/

/-- 3a. `verify_pl_altered`: a tree `t2` that shows the same visible paths, in which the visible file `p` has a
content whose digest in the least requested format name differs from the sealed one, all other files keeping
theirs: `verify -pl` ends with `VerificationFailedException` (exit code 11) and reports exactly `p`, as a mismatch -/
theorem verify_pl_altered (hS : Setting env rn cs o) (w : Written)
    (hw : (createFolder env (.dir rn cs none) o).written = [w]) (t2 : Node) (p : RelPath)
    (hvis : visiblePaths (hit0 env o) t2 = visiblePaths (hit0 env o) (.dir rn cs none))
    (hp : (p, false) ∈ visiblePaths (hit0 env o) (.dir rn cs none))
    (hdig : env.H (firstFormat o.formats) (fileContent t2 p) ≠
      env.H (firstFormat o.formats) (fileContent (.dir rn cs none) p))
    (hother : ∀ q, (q, false) ∈ visiblePaths (hit0 env o) (.dir rn cs none) → q ≠ p →
      env.H (firstFormat o.formats) (fileContent t2 q) =
        env.H (firstFormat o.formats) (fileContent (.dir rn cs none) q)) :
    (verifyOrDiff env t2 {} true (some (packingList env w))).err = some errVerifyFailed ∧
    (verifyOrDiff env t2 {} true (some (packingList env w))).exitCode = 11 ∧
    (verifyOrDiff env t2 {} true (some (packingList env w))).report.mismatch = [posix p] ∧
    (verifyOrDiff env t2 {} true (some (packingList env w))).report.new = [] ∧
    (verifyOrDiff env t2 {} true (some (packingList env w))).report.missing = [] := by
  obtain ⟨h1, h2, h3, hrep, herr⟩ := verify_pl_any_tree hS w hw t2 true
  have e1 : vMism env t2 (plHist (packingList env w)) {} true = [p] := by
    apply eq_singleton_of_nodup (vMism_nodup_of_vis hS w hw t2 true hvis)
    intro x
    rw [h1 x]
    constructor
    · rintro ⟨-, hv, q, hq, hqx, hne⟩
      rw [hvis] at hv
      have : q = x := visible_posix_inj hS hv hq hqx
      subst this
      by_contra hqp
      exact hne (hother q hq hqp)
    · rintro rfl
      exact ⟨rfl, by rw [hvis]; exact hp, x, hp, rfl, hdig⟩
  have e2 : vNews env t2 (plHist (packingList env w)) {} true = [] := by
    apply eq_nil_of_forall_not_mem
    intro x hx
    obtain ⟨hv, hno⟩ := (h2 x).1 hx
    rw [hvis] at hv
    exact hno x hv rfl
  have e3 : vMissing env t2 (plHist (packingList env w)) {} = [] := by
    apply eq_nil_of_forall_not_mem
    intro x hx
    obtain ⟨hv, hno⟩ := (h3 x).1 hx
    exact hno false (by rw [hvis]; exact hv)
  have he : (verifyOrDiff env t2 {} true (some (packingList env w))).err = some errVerifyFailed := by
    rw [herr, e1]; simp
  refine ⟨he, MhlProps.C03.exitCode_of_err _ 11 (by rw [he, errVerifyFailed_eq]), ?_, ?_, ?_⟩
  · rw [hrep, e1]; rfl
  · rw [hrep, e2]; rfl
  · rw [hrep, e3]; rfl

/-- 3a on the model's own trees: the sealed tree with the content of `p` replaced (C03e2e's `alteredTree`), and
the original, unsealed tree with the content of `p` replaced -/
theorem verify_pl_altered_trees (hS : Setting env rn cs o) (w : Written)
    (hw : (createFolder env (.dir rn cs none) o).written = [w]) (p : RelPath)
    (hp : (p, false) ∈ visiblePaths (hit0 env o) (.dir rn cs none)) (c' : Bytes)
    (hdig : env.H (firstFormat o.formats) c' ≠
      env.H (firstFormat o.formats) (fileContent (.dir rn cs none) p)) :
    ((verifyOrDiff env (alteredTree env rn cs o p c') {} true (some (packingList env w))).err =
        some errVerifyFailed ∧
     (verifyOrDiff env (alteredTree env rn cs o p c') {} true (some (packingList env w))).exitCode = 11 ∧
     (verifyOrDiff env (alteredTree env rn cs o p c') {} true (some (packingList env w))).report.mismatch =
        [posix p] ∧
     (verifyOrDiff env (alteredTree env rn cs o p c') {} true (some (packingList env w))).report.new = [] ∧
     (verifyOrDiff env (alteredTree env rn cs o p c') {} true (some (packingList env w))).report.missing = []) := by
  obtain ⟨-, hvis, -, hcont⟩ := alteredTree_facts hS w hw p hp c'
  apply verify_pl_altered hS w hw _ p (hvis _) hp
  · rw [hcont]; exact hdig
  · intro q hq hqp
    rw [alteredTree_other hS p hp c' q hq hqp]

/-- 3b. `verify_pl_removed`: a tree `t2` in which the visible file `p` is gone (its visible paths are those of the
sealed tree except `p`; every other file keeps its digest): `verify -pl` ends with `CompletenessCheckFailedException`
(exit code 10) and reports exactly `p`, as missing -/
theorem verify_pl_removed (hS : Setting env rn cs o) (w : Written)
    (hw : (createFolder env (.dir rn cs none) o).written = [w]) (t2 : Node) (p : RelPath)
    (hp : (p, false) ∈ visiblePaths (hit0 env o) (.dir rn cs none))
    (hvis : ∀ x, x ∈ visiblePaths (hit0 env o) t2 ↔
      x ∈ visiblePaths (hit0 env o) (.dir rn cs none) ∧ x.1 ≠ p)
    (hother : ∀ q, (q, false) ∈ visiblePaths (hit0 env o) (.dir rn cs none) → q ≠ p →
      env.H (firstFormat o.formats) (fileContent t2 q) =
        env.H (firstFormat o.formats) (fileContent (.dir rn cs none) q)) :
    (verifyOrDiff env t2 {} true (some (packingList env w))).err = some errMissingFiles ∧
    (verifyOrDiff env t2 {} true (some (packingList env w))).exitCode = 10 ∧
    (verifyOrDiff env t2 {} true (some (packingList env w))).report.mismatch = [] ∧
    (verifyOrDiff env t2 {} true (some (packingList env w))).report.new = [] ∧
    (verifyOrDiff env t2 {} true (some (packingList env w))).report.missing = [posix p] := by
  obtain ⟨h1, h2, h3, hrep, herr⟩ := verify_pl_any_tree hS w hw t2 true
  have e1 : vMism env t2 (plHist (packingList env w)) {} true = [] := by
    apply eq_nil_of_forall_not_mem
    intro x hx
    obtain ⟨-, hv, q, hq, hqx, hne⟩ := (h1 x).1 hx
    obtain ⟨hv1, hv2⟩ := (hvis _).1 hv
    have : q = x := visible_posix_inj hS hv1 hq hqx
    subst this
    exact hne (hother q hq hv2)
  have e2 : vNews env t2 (plHist (packingList env w)) {} true = [] := by
    apply eq_nil_of_forall_not_mem
    intro x hx
    obtain ⟨hv, hno⟩ := (h2 x).1 hx
    exact hno x ((hvis _).1 hv).1 rfl
  have e3 : vMissing env t2 (plHist (packingList env w)) {} = [p] := by
    apply eq_singleton_of_nodup (vMissing_pl_nodup env t2 _ _)
    intro x
    rw [h3 x]
    constructor
    · rintro ⟨hv, hno⟩
      by_contra hxp
      exact hno false ((hvis _).2 ⟨hv, hxp⟩)
    · rintro rfl
      exact ⟨hp, fun d hd => ((hvis _).1 hd).2 rfl⟩
  have he : (verifyOrDiff env t2 {} true (some (packingList env w))).err = some errMissingFiles := by
    rw [herr, e1, e2, e3]; simp
  refine ⟨he, MhlProps.C03.exitCode_of_err _ 10 (by rw [he, errMissingFiles_eq]), ?_, ?_, ?_⟩
  · rw [hrep, e1]; rfl
  · rw [hrep, e2]; rfl
  · rw [hrep, e3]; rfl

/-- 3c. `verify_pl_added`: a tree `t2` with one more visible file `p` whose text is not that of a sealed file (its
visible paths are those of the sealed tree and `p`; every sealed file keeps its digest): `verify -pl` ends with
`NewFilesFoundException` (exit code 21) and reports exactly `p`, as new -/
theorem verify_pl_added (hS : Setting env rn cs o) (w : Written)
    (hw : (createFolder env (.dir rn cs none) o).written = [w]) (t2 : Node) (p : RelPath)
    (hp : ∀ q, (q, false) ∈ visiblePaths (hit0 env o) (.dir rn cs none) → posix q ≠ posix p)
    (hvis : ∀ x, x ∈ visiblePaths (hit0 env o) t2 ↔
      x ∈ visiblePaths (hit0 env o) (.dir rn cs none) ∨ x = (p, false))
    (hother : ∀ q, (q, false) ∈ visiblePaths (hit0 env o) (.dir rn cs none) →
      env.H (firstFormat o.formats) (fileContent t2 q) =
        env.H (firstFormat o.formats) (fileContent (.dir rn cs none) q)) :
    (verifyOrDiff env t2 {} true (some (packingList env w))).err = some errNewFiles ∧
    (verifyOrDiff env t2 {} true (some (packingList env w))).exitCode = 21 ∧
    (verifyOrDiff env t2 {} true (some (packingList env w))).report.mismatch = [] ∧
    (∀ s, s ∈ (verifyOrDiff env t2 {} true (some (packingList env w))).report.new ↔ s = posix p) ∧
    (verifyOrDiff env t2 {} true (some (packingList env w))).report.missing = [] := by
  obtain ⟨h1, h2, h3, hrep, herr⟩ := verify_pl_any_tree hS w hw t2 true
  have e1 : vMism env t2 (plHist (packingList env w)) {} true = [] := by
    apply eq_nil_of_forall_not_mem
    intro x hx
    obtain ⟨-, hv, q, hq, hqx, hne⟩ := (h1 x).1 hx
    rcases (hvis _).1 hv with hv1 | hv1
    · have : q = x := visible_posix_inj hS hv1 hq hqx
      subst this
      exact hne (hother q hq)
    · simp only [Prod.mk.injEq, and_true] at hv1
      subst hv1
      exact hp q hq hqx
  have e2 : ∀ x, x ∈ vNews env t2 (plHist (packingList env w)) {} true ↔ x = p := by
    intro x
    rw [h2 x]
    constructor
    · rintro ⟨hv, hno⟩
      rcases (hvis _).1 hv with hv1 | hv1
      · exact absurd rfl (hno x hv1)
      · simpa using hv1
    · rintro rfl
      exact ⟨(hvis _).2 (Or.inr rfl), hp⟩
  have e3 : vMissing env t2 (plHist (packingList env w)) {} = [] := by
    apply eq_nil_of_forall_not_mem
    intro x hx
    obtain ⟨hv, hno⟩ := (h3 x).1 hx
    exact hno false ((hvis _).2 (Or.inl hv))
  have hne : vNews env t2 (plHist (packingList env w)) {} true ≠ [] :=
    List.ne_nil_of_mem ((e2 p).2 rfl)
  have he : (verifyOrDiff env t2 {} true (some (packingList env w))).err = some errNewFiles := by
    rw [herr, e1]; simp [hne]
  refine ⟨he, MhlProps.C03.exitCode_of_err _ 21 (by rw [he, errNewFiles_eq]), ?_, ?_, ?_⟩
  · rw [hrep, e1]; rfl
  · intro s
    rw [hrep]
    simp only [List.mem_map]
    constructor
    · rintro ⟨x, hx, rfl⟩
      rw [(e2 x).1 hx]
    · rintro rfl
      exact ⟨p, (e2 p).2 rfl, rfl⟩
  · rw [hrep, e3]; rfl

/-- 3d. the precedence, exactly (`verifyExit`): on any tree, `verify -pl` ends with 11 as soon as one visible file
mismatches (whatever is new or missing); with 21 when nothing mismatches and a file is new (whatever is missing);
with 10 when only files are missing; with 0 otherwise -/
theorem verify_pl_precedence (hS : Setting env rn cs o) (w : Written)
    (hw : (createFolder env (.dir rn cs none) o).written = [w]) (t2 : Node) :
    ((verifyOrDiff env t2 {} true (some (packingList env w))).exitCode = 11 ↔
      (verifyOrDiff env t2 {} true (some (packingList env w))).report.mismatch ≠ []) ∧
    ((verifyOrDiff env t2 {} true (some (packingList env w))).exitCode = 21 ↔
      (verifyOrDiff env t2 {} true (some (packingList env w))).report.mismatch = [] ∧
      (verifyOrDiff env t2 {} true (some (packingList env w))).report.new ≠ []) ∧
    ((verifyOrDiff env t2 {} true (some (packingList env w))).exitCode = 10 ↔
      (verifyOrDiff env t2 {} true (some (packingList env w))).report.mismatch = [] ∧
      (verifyOrDiff env t2 {} true (some (packingList env w))).report.new = [] ∧
      (verifyOrDiff env t2 {} true (some (packingList env w))).report.missing ≠ []) ∧
    ((verifyOrDiff env t2 {} true (some (packingList env w))).exitCode = 0 ↔
      (verifyOrDiff env t2 {} true (some (packingList env w))).report.mismatch = [] ∧
      (verifyOrDiff env t2 {} true (some (packingList env w))).report.new = [] ∧
      (verifyOrDiff env t2 {} true (some (packingList env w))).report.missing = []) := by
  obtain ⟨-, -, -, hrep, herr⟩ := verify_pl_any_tree hS w hw t2 true
  unfold Outcome.exitCode
  rw [herr, hrep, errVerifyFailed_eq, errNewFiles_eq, errMissingFiles_eq]
  simp only [List.map_eq_nil_iff, ne_eq]
  by_cases a : vMism env t2 (plHist (packingList env w)) {} true = [] <;>
  by_cases b : vNews env t2 (plHist (packingList env w)) {} true = [] <;>
  by_cases c : vMissing env t2 (plHist (packingList env w)) {} = [] <;> simp [a, b, c]

/-! ### 4. seal, reseal with other formats, flatten -/

/-- the tree after the second `create` (options `o₂`) on the sealed tree -/
def resealedTree (env : Env) (rn : String) (cs : List Node) (o o₂ : CreateOpts) : Node :=
  applyWritten (sealedTree env rn cs o) (createFolder env (sealedTree env rn cs o) o₂).written

/-- the history that tree loads as -/
def twoHist (w w₂ : Written) : Hist :=
  .mk [] [⟨1, w.gen⟩, ⟨2, w₂.gen⟩] [⟨w.number, w.gen.fileName⟩, ⟨w₂.number, w₂.gen.fileName⟩] true []

/-- the second run, with the equation that defines what it writes -/
theorem reseal_core (hS : Setting env rn cs o) (w : Written)
    (hw : (createFolder env (.dir rn cs none) o).written = [w]) (o₂ : CreateOpts) (hf₂ : o₂.formats ≠ [])
    (hdr₂ : o₂.detectRenaming = false)
    (hcli : ∀ x ∈ o₂.ignoreCli, x ∈ setPatterns none o.ignoreCli o.ignoreFile)
    (hfile : ∀ x ∈ o₂.ignoreFile, x ∈ setPatterns none o.ignoreCli o.ignoreFile) :
    ∃ w₂, (createFolder env (sealedTree env rn cs o) o₂).written = [w₂] ∧
      writeOne (sealedHist w) (cSession env (sealedTree env rn cs o) (sealedHist w) o₂) env.rootName env.stamp
        "in-place" none (sealedHist w) [] = .ok w₂ := by
  obtain ⟨hl, -⟩ := sealed_tree_loads hS w hw
  obtain ⟨-, -, -, -, hrefs, -, hsg⟩ := written_facts hS w hw
  obtain ⟨hd', hn', hdir'⟩ := sealedTree_names hS w hw
  have hhit := sealed_ignore_stable_create hS w hw o₂ hcli hfile
  have hvis : visiblePaths (cHit env (sealedHist w) o₂) (sealedTree env rn cs o) =
      visiblePaths (hit0 env o) (.dir rn cs none) := by
    rw [hhit, sealedTree_eq hS w hw]
    exact visiblePaths_root_hist _ _ _ _ _
  obtain ⟨w₂, -, h2, -, -, -, hw₂⟩ := createFolder_flat_ok env (sealedTree env rn cs o) o₂ (sealedHist w) hl rfl
    hd' hn' hf₂ hdr₂ hdir'
    (by
      intro p hp
      rw [hvis] at hp
      have := hsg.firstOk hS.namesOk 1 p hp
      rw [sealedTree_eq hS w hw, fileContent_root_hist rn cs _ none]
      exact this)
    (by
      intro p hp
      left
      rw [hvis]
      exact hsg.expected hS.namesOk 1 _ _ p hp)
    (by
      intro g hg
      have : g = ⟨1, w.gen⟩ := by
        simp [sealedHist, Hist.gens] at hg
        exact hg.symm
      rw [this]
      exact hrefs)
  exact ⟨w₂, h2, hw₂⟩

/-- the facts about the second generation: root history, number 2, present and unaltered, named so that it is
loaded as number 2, carrying the unchanged pattern list -/
theorem reseal_facts (hS : Setting env rn cs o) (w w₂ : Written) (o₂ : CreateOpts)
    (hcli : ∀ x ∈ o₂.ignoreCli, x ∈ setPatterns none o.ignoreCli o.ignoreFile)
    (hfile : ∀ x ∈ o₂.ignoreFile, x ∈ setPatterns none o.ignoreCli o.ignoreFile)
    (hf₂ : o₂.formats ≠ [])
    (hw : (createFolder env (.dir rn cs none) o).written = [w])
    (hw₂ : writeOne (sealedHist w) (cSession env (sealedTree env rn cs o) (sealedHist w) o₂) env.rootName env.stamp
        "in-place" none (sealedHist w) [] = .ok w₂) :
    w₂.histRoot = [] ∧ w₂.number = 2 ∧ w₂.gen.state = .ok ∧ parseGenName w₂.gen.fileName = some 2 ∧
      w₂.gen.ignore = pats o := by
  obtain ⟨hnum, hroot, hname⟩ := MhlProps.C06.writeOne_number _ _ _ _ _ _ _ _ hw₂
  obtain ⟨hstate, -, -⟩ := MhlProps.C06.writeOne_state _ _ _ _ _ _ _ _ _ hw₂
  have hnum2 : w₂.number = 2 := hnum
  obtain ⟨hd', hn', -⟩ := sealedTree_names hS w hw
  obtain ⟨-, -, -, -, -, hign, -⟩ := written_facts hS w hw
  refine ⟨hroot, hnum2, hstate, ?_, ?_⟩
  · rw [hname, hnum2]
    exact MhlProps.C06.parseGenName_genFileName 2 _ _ hS.rootName hS.stamp
  · rw [MhlProps.C12.written_ignore _ _ _ _ _ _ _ _ _ hw₂]
    have hlat : latestIgnore (sealedHist w).gens = some (pats o) := by
      simp [latestIgnore, sealedHist, Hist.gens, hign]
    have hp : (cSession env (sealedTree env rn cs o) (sealedHist w) o₂).patterns =
        setPatterns (latestIgnore (sealedHist w).gens) o₂.ignoreCli o₂.ignoreFile :=
      (createVisit_records env (sealedTree env rn cs o) (sealedHist w) rfl rfl hd' hn' (isort strLe o₂.formats)
        (by
          intro h0
          have := length_isort strLe o₂.formats
          rw [h0] at this
          exact hf₂ (List.length_eq_zero_iff.1 this.symm))
        o₂.noDirHashes _ (cHit env (sealedHist w) o₂)).1
    rw [hp, hlat, setPatterns_some_own (pats o) _ _ (setPatterns_fresh_ne_nil _ _)
      (MhlProps.C12.setPatterns_nodup _ _ _) hcli hfile]
    exact setPatterns_some_own (pats o) (pats o) [] (setPatterns_fresh_ne_nil _ _)
      (MhlProps.C12.setPatterns_nodup _ _ _) (fun _ h => h) (by simp)

/-- the tree with both generations loads as the history with generations 1 and 2 -/
theorem resealed_tree_loads (hS : Setting env rn cs o) (w w₂ : Written) (o₂ : CreateOpts)
    (hcli : ∀ x ∈ o₂.ignoreCli, x ∈ setPatterns none o.ignoreCli o.ignoreFile)
    (hfile : ∀ x ∈ o₂.ignoreFile, x ∈ setPatterns none o.ignoreCli o.ignoreFile)
    (hf₂ : o₂.formats ≠ [])
    (hw : (createFolder env (.dir rn cs none) o).written = [w])
    (hwr₂ : (createFolder env (sealedTree env rn cs o) o₂).written = [w₂])
    (hw₂ : writeOne (sealedHist w) (cSession env (sealedTree env rn cs o) (sealedHist w) o₂) env.rootName env.stamp
        "in-place" none (sealedHist w) [] = .ok w₂) :
    loadHistory (resealedTree env rn cs o o₂) = .ok (twoHist w w₂) := by
  obtain ⟨-, -, hstate, hparse, -⟩ := written_facts hS w hw
  obtain ⟨hroot₂, -, hstate₂, hparse₂, -⟩ := reseal_facts hS w w₂ o₂ hcli hfile hf₂ hw hw₂
  unfold resealedTree
  rw [hwr₂, sealedTree_eq hS w hw, applyWritten_root rn cs _ w₂ hroot₂]
  exact loadHistory_secondStore rn cs hS.flat w w₂ hparse hstate hparse₂ hstate₂

/-- the record the second generation has for a visible file: its formats are recorded or requested ones, every
digest is that of the (unchanged) content, nothing failed, a format that is new for the file is `verified`, and
every requested format is there -/
theorem reseal_records (hS : Setting env rn cs o) (w w₂ : Written) (o₂ : CreateOpts)
    (hcli : ∀ x ∈ o₂.ignoreCli, x ∈ setPatterns none o.ignoreCli o.ignoreFile)
    (hfile : ∀ x ∈ o₂.ignoreFile, x ∈ setPatterns none o.ignoreCli o.ignoreFile)
    (hf₂ : o₂.formats ≠ []) (hdr₂ : o₂.detectRenaming = false)
    (hw : (createFolder env (.dir rn cs none) o).written = [w])
    (hwr₂ : (createFolder env (sealedTree env rn cs o) o₂).written = [w₂]) :
    (w₂.gen.records.map (·.path)).Nodup ∧
    (∀ r ∈ w₂.gen.records, r.isDir = false →
      ∃ p, (p, false) ∈ visiblePaths (hit0 env o) (.dir rn cs none) ∧ r.path = posix p) ∧
    (∀ p, (p, false) ∈ visiblePaths (hit0 env o) (.dir rn cs none) →
      ∃ r ∈ w₂.gen.records, r.path = posix p ∧ r.isDir = false ∧
        r.size = some (fileContent (.dir rn cs none) p).length ∧
        (∀ e ∈ r.entries, (e.fmt ∈ o.formats ∨ e.fmt ∈ o₂.formats) ∧
          e.digest = env.H e.fmt (fileContent (.dir rn cs none) p) ∧ e.action ≠ "failed" ∧
          (e.fmt ∉ o.formats → e.action = "verified") ∧ e.action ≠ "original") ∧
        (∀ f ∈ o₂.formats, ∃ e ∈ r.entries, e.fmt = f)) := by
  obtain ⟨hl, -⟩ := sealed_tree_loads hS w hw
  obtain ⟨-, -, -, -, -, -, hsg⟩ := written_facts hS w hw
  obtain ⟨hd', hn', -⟩ := sealedTree_names hS w hw
  have hhit := sealed_ignore_stable_create hS w hw o₂ hcli hfile
  have hvis : visiblePaths (cHit env (sealedHist w) o₂) (sealedTree env rn cs o) =
      visiblePaths (hit0 env o) (.dir rn cs none) := by
    rw [hhit, sealedTree_eq hS w hw]
    exact visiblePaths_root_hist _ _ _ _ _
  have hcont : ∀ p, fileContent (sealedTree env rn cs o) p = fileContent (.dir rn cs none) p := by
    intro p
    rw [sealedTree_eq hS w hw, fileContent_root_hist rn cs _ none]
  obtain ⟨-, hnd, hperm, -, -, hfiles⟩ := create_records_exact env (sealedTree env rn cs o) o₂ (sealedHist w) hl rfl
    hd' hn' hf₂ hdr₂ w₂ hwr₂
  rw [hvis] at hperm hfiles
  refine ⟨hnd, ?_, ?_⟩
  · intro r hr hd
    have hm : (r.path, r.isDir) ∈ w₂.gen.records.map fun r => (r.path, r.isDir) := List.mem_map.2 ⟨r, hr, rfl⟩
    obtain ⟨x, hx, hxe⟩ := List.mem_map.1 (hperm.mem_iff.1 hm)
    obtain ⟨p, d⟩ := x
    simp only [Prod.mk.injEq] at hxe
    obtain ⟨hxp, hxd⟩ := hxe
    rw [hd] at hxd
    subst hxd
    exact ⟨p, hx, hxp.symm⟩
  · intro p hp
    obtain ⟨r, hr, hpath, hdir, -, hsize, hpe, hdig, hall⟩ := hfiles p hp
    rw [hcont] at hsize hpe hdig
    have hfirst : FirstOk (fun f => env.H f (fileContent (.dir rn cs none) p)) (sealedHist w).gens (posix p) :=
      hsg.firstOk hS.namesOk 1 p hp
    have hnf0 := unaltered_no_failed _ _ _ (isort strLe o₂.formats) hfirst
    have hnf : ∀ e ∈ r.entries, e.action ≠ "failed" := by
      intro e he hfail
      obtain ⟨e0, he0, rfl⟩ := List.mem_map.1 (hpe.mem_iff.1 he)
      exact hnf0 e0 he0 ((relabel_failed e0).1 hfail)
    -- the recorded formats of the path are requested formats of the first run
    have hex : ∀ f, f ∈ existingFormats (sealedHist w).gens (posix p) → f ∈ o.formats := by
      intro f hf
      obtain ⟨g, hg, r', hr', e, he, rfl⟩ := (mem_existingFormats _ _ _).1 hf
      have : g = ⟨1, w.gen⟩ := by
        simp [sealedHist, Hist.gens] at hg
        exact hg
      subst this
      obtain ⟨r1, hfind, -, -, hents⟩ := hsg.find_file hS.namesOk p hp
      rw [hfind] at hr'
      cases hr'
      rw [hents] at he
      exact (origEntries_spec env _ o.formats e he).2.2
    refine ⟨r, hr, hpath, hdir, hsize, ?_, hall hnf⟩
    intro e he
    obtain ⟨e0, he0, rfl⟩ := List.mem_map.1 (hpe.mem_iff.1 he)
    obtain ⟨ents1, ents2, heq, h1, h2, -⟩ := sealEntries_shape (sealedHist w).gens (posix p)
      (fun f => env.H f (fileContent (.dir rn cs none) p)) (isort strLe o₂.formats)
    have hact0 : e0.action = decideAction (sealedHist w).gens (posix p) e0.fmt e0.digest := by
      rw [heq] at he0
      rcases List.mem_append.1 he0 with h | h
      · exact (h1 e0 h).2.2
      · exact (h2 e0 h).2.2
    have hno0 : e0.action ≠ "original" := by
      rw [hact0]
      intro hc
      have := (original_iff_first _ _ _ _).1 hc
      have h' : findOriginal (sealedHist w).gens (posix p) = _ := hsg.findOriginal_eq hS.namesOk hS.formats 1 p hp
      rw [h'] at this
      cases this
    refine ⟨?_, hdig _ he, hnf _ he, ?_, ?_⟩
    · rw [relabel_fmt]
      rcases sealEntries_fmt_mem _ _ _ _ e0 he0 with h | h
      · exact Or.inl (hex _ h)
      · exact Or.inr ((mem_isort strLe o₂.formats _).1 h)
    · rw [relabel_fmt]
      intro hno
      have hne : e0.fmt ∉ existingFormats (sealedHist w).gens (posix p) := fun h => hno (hex _ h)
      obtain ⟨ents1, ents2, heq, h1, h2, -⟩ := sealEntries_shape (sealedHist w).gens (posix p)
        (fun f => env.H f (fileContent (.dir rn cs none) p)) (isort strLe o₂.formats)
      rw [heq] at he0
      have hact : e0.action = decideAction (sealedHist w).gens (posix p) e0.fmt e0.digest := by
        rcases List.mem_append.1 he0 with h | h
        · exact absurd (h1 e0 h).1 hne
        · exact (h2 e0 h).2.2
      have hnew : e0.action = "new" := by
        rw [hact]
        exact new_format_action _ _ _ _ _ (hsg.findOriginal_eq hS.namesOk hS.formats 1 p hp)
          ((findFirstOfFormat_none_iff _ _ _).2 hne)
      unfold relabel
      simp [hnew]
    · unfold relabel
      split
      · simp
      · exact hno0

/-- 4. `flatten_two_generations`: seal with the formats of `o`, seal again (the tree unchanged) with the formats of
`o₂` (any non-empty list), flatten.  The two generations load as numbers 1 and 2; `flatten` cannot fail and its
result is determined (`flattenGen`); the packing list carries the unchanged pattern list; and it has exactly one
record per visible file, in which

* the formats are exactly the union of the formats of both runs, each once, sorted by name;
* every entry carries `env.H fmt content`; none is `failed`; the formats of the first run are `original`, those
  only the second run brought are `verified` -/
theorem flatten_two_generations (hS : Setting env rn cs o) (w : Written)
    (hw : (createFolder env (.dir rn cs none) o).written = [w]) (o₂ : CreateOpts) (hf₂ : o₂.formats ≠ [])
    (hdr₂ : o₂.detectRenaming = false)
    (hcli : ∀ x ∈ o₂.ignoreCli, x ∈ setPatterns none o.ignoreCli o.ignoreFile)
    (hfile : ∀ x ∈ o₂.ignoreFile, x ∈ setPatterns none o.ignoreCli o.ignoreFile) :
    ∃ w₂, (createFolder env (sealedTree env rn cs o) o₂).written = [w₂] ∧ w₂.number = 2 ∧
      loadHistory (resealedTree env rn cs o o₂) = .ok (twoHist w w₂) ∧
      flatten env (resealedTree env rn cs o o₂) [] [] =
        { written := if (sortedRecords (twoHist w w₂).gens).isEmpty then []
                     else [⟨[], 1, flattenGen env (twoHist w w₂).gens [] []⟩] } ∧
      (flattenGen env (twoHist w w₂).gens [] []).process = "flatten" ∧
      (flattenGen env (twoHist w w₂).gens [] []).ignore = setPatterns none o.ignoreCli o.ignoreFile ∧
      (flattenGen env (twoHist w w₂).gens [] []).records = sortedRecords (twoHist w w₂).gens ∧
      ((sortedRecords (twoHist w w₂).gens).map (·.path)).Nodup ∧
      (∀ r ∈ sortedRecords (twoHist w w₂).gens,
        ∃ p, (p, false) ∈ visiblePaths (hit0 env o) (.dir rn cs none) ∧ r.path = posix p) ∧
      (∀ p, (p, false) ∈ visiblePaths (hit0 env o) (.dir rn cs none) →
        ∃ r ∈ sortedRecords (twoHist w w₂).gens, r.path = posix p ∧ r.isDir = false ∧ r.prev = none ∧
          r.size = some (fileContent (.dir rn cs none) p).length ∧
          (∀ f, f ∈ r.entries.map (·.fmt) ↔ f ∈ o.formats ∨ f ∈ o₂.formats) ∧
          (r.entries.map (·.fmt)).Nodup ∧
          r.entries.Pairwise (fun a b => strLe a.fmt b.fmt = true) ∧
          (∀ e ∈ r.entries, e.digest = env.H e.fmt (fileContent (.dir rn cs none) p) ∧ e.action ≠ "failed" ∧
            (e.fmt ∈ o.formats → e.action = "original") ∧ (e.fmt ∉ o.formats → e.action = "verified"))) := by
  obtain ⟨w₂, hwr₂, hw₂⟩ := reseal_core hS w hw o₂ hf₂ hdr₂ hcli hfile
  obtain ⟨-, hnum₂, -, -, hign₂⟩ := reseal_facts hS w w₂ o₂ hcli hfile hf₂ hw hw₂
  have hl := resealed_tree_loads hS w w₂ o₂ hcli hfile hf₂ hw hwr₂ hw₂
  obtain ⟨hnd1, -, h13, h14⟩ := sealed_records hS w hw
  obtain ⟨hnd2, h22, h23⟩ := reseal_records hS w w₂ o₂ hcli hfile hf₂ hdr₂ hw hwr₂
  have hgens : (twoHist w w₂).gens = [⟨1, w.gen⟩, ⟨2, w₂.gen⟩] := rfl
  have hgne : (twoHist w w₂).gens ≠ [] := by rw [hgens]; simp
  -- the earliest non-failed entry of a visible file, format by format
  have hfnf : ∀ p, (p, false) ∈ visiblePaths (hit0 env o) (.dir rn cs none) → ∃ r₂ ∈ w₂.gen.records,
      r₂.path = posix p ∧ r₂.isDir = false ∧ ∀ f, firstNonFailed (twoHist w w₂).gens (posix p) f =
        if f ∈ o.formats then some (mkOrig env (fileContent (.dir rn cs none) p) f)
        else r₂.entries.find? (fun e => e.fmt == f && e.action != "failed") := by
    intro p hp
    obtain ⟨r1, hr1, hpath1, -, hents1⟩ := h14 p hp
    obtain ⟨hr1a, hr1b⟩ := (mem_fileRecords _ _).1 hr1
    obtain ⟨r₂, hr₂, hpath₂, hdir₂, -⟩ := h23 p hp
    refine ⟨r₂, hr₂, hpath₂, hdir₂, ?_⟩
    intro f
    rw [hgens, firstNonFailed_two, ← hpath1,
      findSome_record_unique w.gen.records hnd1 r1 hr1a hr1b
        (fun r => r.entries.find? (fun e => e.fmt == f && e.action != "failed")),
      hents1, origEntries_find_fmt, hpath1, ← hpath₂,
      findSome_record_unique w₂.gen.records hnd2 r₂ hr₂ hdir₂
        (fun r => r.entries.find? (fun e => e.fmt == f && e.action != "failed"))]
    split <;> simp
  refine ⟨w₂, hwr₂, hnum₂, hl, flatten_eq env _ [] [] _ hl hgne, rfl, ?_, rfl, ?_, ?_, ?_⟩
  · -- the pattern list
    have hlat : latestIgnore (twoHist w w₂).gens = some (pats o) := by
      simp [latestIgnore, twoHist, Hist.gens, hign₂]
    change setPatterns none (setPatterns (latestIgnore (twoHist w w₂).gens) [] []) [] = _
    rw [hlat, setPatterns_some_own (pats o) [] [] (setPatterns_fresh_ne_nil _ _)
      (MhlProps.C12.setPatterns_nodup _ _ _) (by simp) (by simp)]
    exact setPatterns_none_own _ _
  · rw [sortedRecords_paths]
    exact flatten_paths_unique _
  · intro r' hr'
    obtain ⟨R, hR, hpath, -⟩ := (sortedRecords_spec _ r').1 hr'
    obtain ⟨-, -, g, hg, r, hr, hd, hrp, -⟩ := flattenRecords_meta _ R hR
    rw [hpath, ← hrp]
    rw [hgens] at hg
    simp only [List.mem_cons, List.not_mem_nil, or_false] at hg
    rcases hg with rfl | rfl
    · obtain ⟨p, hp, hpp, -⟩ := h13 r ((mem_fileRecords _ _).2 ⟨hr, hd⟩)
      exact ⟨p, hp, hpp⟩
    · exact h22 r hr hd
  · intro p hp
    obtain ⟨r₂, hr₂, hpath₂, hdir₂, hf⟩ := hfnf p hp
    obtain ⟨r₂', hr₂', hpath₂', -, hsize₂, hents₂, hall₂⟩ := h23 p hp
    have : r₂' = r₂ := record_unique hnd2 hr₂' hr₂ (hpath₂'.trans hpath₂.symm)
    subst this
    obtain ⟨r1, hr1, hpath1, hsize1, hents1⟩ := h14 p hp
    obtain ⟨hr1a, hr1b⟩ := (mem_fileRecords _ _).1 hr1
    -- the record of `flattenRecords`
    obtain ⟨f0, hf0⟩ := List.exists_mem_of_ne_nil _ hS.formats
    have hfirst0 : firstNonFailed (twoHist w w₂).gens (posix p) f0 =
        some (mkOrig env (fileContent (.dir rn cs none) p) f0) := by rw [hf f0]; simp [hf0]
    obtain ⟨R, hR, hRp, -⟩ := flatten_entry_is_earliest_complete _ _ _ _ hfirst0
    have hRe : ∀ e, e ∈ R.entries ↔ ∃ f, firstNonFailed (twoHist w w₂).gens (posix p) f = some e := by
      intro e
      rw [flatten_entries_exact _ R hR e, hRp]
    obtain ⟨hRd, hRprev, g, hg, r, hr, hd, hrp, hrs⟩ := flattenRecords_meta _ R hR
    have hRsize : R.size = some (fileContent (.dir rn cs none) p).length := by
      rw [← hrs]
      rw [hgens] at hg
      simp only [List.mem_cons, List.not_mem_nil, or_false] at hg
      rcases hg with rfl | rfl
      · have : r = r1 := record_unique hnd1 hr hr1a (hrp.trans (hRp.trans hpath1.symm))
        rw [this, hsize1]
      · have : r = r₂' := record_unique hnd2 hr hr₂ (hrp.trans (hRp.trans hpath₂.symm))
        rw [this, hsize₂]
    -- every entry of that record, described
    have hdesc : ∀ e ∈ R.entries, (e.fmt ∈ o.formats ∨ e.fmt ∈ o₂.formats) ∧
        e.digest = env.H e.fmt (fileContent (.dir rn cs none) p) ∧ e.action ≠ "failed" ∧
        (e.fmt ∈ o.formats → e.action = "original") ∧ (e.fmt ∉ o.formats → e.action = "verified") := by
      intro e he
      obtain ⟨f, hfe⟩ := (hRe e).1 he
      have hef : e.fmt = f := (firstNonFailed_some _ _ _ _ hfe).1
      rw [hf f] at hfe
      split at hfe
      · next hin =>
        simp only [Option.some.injEq] at hfe
        subst hfe
        refine ⟨Or.inl hin, rfl, by simp [mkOrig], fun _ => rfl, fun h => absurd hin h⟩
      · next hnin =>
        have hmem := List.mem_of_find?_eq_some hfe
        obtain ⟨a1, a2, a3, a4, -⟩ := hents₂ e hmem
        rw [hef] at a1 a4 ⊢
        exact ⟨a1, hef ▸ a2, a3, fun h => absurd h hnin, a4⟩
    have hfm : ∀ f, f ∈ R.entries.map (·.fmt) ↔ f ∈ o.formats ∨ f ∈ o₂.formats := by
      intro f
      constructor
      · intro hm
        obtain ⟨e, he, rfl⟩ := List.mem_map.1 hm
        exact (hdesc e he).1
      · intro hm
        by_cases hin : f ∈ o.formats
        · exact List.mem_map.2 ⟨mkOrig env (fileContent (.dir rn cs none) p) f,
            (hRe _).2 ⟨f, by rw [hf f]; simp [hin]⟩, rfl⟩
        · have hin₂ : f ∈ o₂.formats := hm.resolve_left hin
          obtain ⟨e, he, hef⟩ := hall₂ f hin₂
          have hsome : (r₂'.entries.find? (fun e => e.fmt == f && e.action != "failed")).isSome := by
            rw [List.find?_isSome]
            exact ⟨e, he, by simp [hef, (hents₂ e he).2.2.1]⟩
          obtain ⟨e', he'⟩ := Option.isSome_iff_exists.1 hsome
          have hp' := List.find?_some he'
          simp only [Bool.and_eq_true, beq_iff_eq] at hp'
          exact List.mem_map.2 ⟨e', (hRe _).2 ⟨f, by rw [hf f]; simp [hin, he']⟩, hp'.1⟩
    -- the written record: the entries sorted
    refine ⟨{ R with entries := isort (fun a b => strLe a.fmt b.fmt) R.entries },
      List.mem_map.2 ⟨R, hR, rfl⟩, hRp, hRd, hRprev, hRsize, ?_, ?_, ?_, ?_⟩
    · intro f
      rw [← hfm f]
      exact ((isort_perm (fun (a b : Entry) => strLe a.fmt b.fmt) R.entries).map (·.fmt)).mem_iff
    · exact ((isort_perm (fun (a b : Entry) => strLe a.fmt b.fmt) R.entries).map (·.fmt)).nodup_iff.2
        (flatten_formats_unique _ R hR)
    · exact isort_key_sorted (fun e : Entry => e.fmt) R.entries
    · intro e he
      exact (hdesc e ((mem_isort _ _ _).1 he)).2

end

/-! ### 5. the general statement: which entry `verify -pl` compares, for ANY history

`gens : List LGen` is arbitrary (nothing is assumed about it), and so are the ignore options of `flatten`. -/

/-- the written record of a record of `flattenRecords` -/
theorem sorted_mem (gens : List LGen) (R : Record) (hR : R ∈ flattenRecords gens) :
    ({ R with entries := isort (fun a b => strLe a.fmt b.fmt) R.entries } : Record) ∈ sortedRecords gens :=
  List.mem_map.2 ⟨R, hR, rfl⟩

/-- 5. `flatten_verify_pl_judges_first`.  Let `R` be the record `flattenRecords gens` has for a path.  Under the
packing list `flatten` writes (`verify -pl` judges against the one-generation history `plHist g`):

* no rename is followed: the recorded name of the path is the path;
* the entry the file is compared with — `findOriginal` — is the first `original` entry of `R`'s entries SORTED BY
  FORMAT NAME; so it is `some e` exactly when `e` is `original`, is the earliest non-failed entry of its format for
  the path in the history (an entry of a file record of the path, in the earliest generation that has a non-failed
  entry of that format: `C18.firstNonFailed_some`), and has the LEAST format name among such entries;
* there is none exactly when no earliest-non-failed entry of the path is `original` — then `verify -pl` calls the
  file NEW although the packing list has a record for it. -/
theorem flatten_verify_pl_judges_first (env : Env) (gens : List LGen) (ic ifl : List String) (R : Record)
    (hR : R ∈ flattenRecords gens) :
    recordedName (plHist (flattenGen env gens ic ifl)).gens R.path = R.path ∧
    findOriginal (plHist (flattenGen env gens ic ifl)).gens R.path =
      (isort (fun a b => strLe a.fmt b.fmt) R.entries).find? (fun e => e.action == "original") ∧
    (∀ e, findOriginal (plHist (flattenGen env gens ic ifl)).gens R.path = some e ↔
      e.action = "original" ∧ firstNonFailed gens R.path e.fmt = some e ∧
        ∀ e', e'.action = "original" → firstNonFailed gens R.path e'.fmt = some e' →
          strLe e.fmt e'.fmt = true) ∧
    (findOriginal (plHist (flattenGen env gens ic ifl)).gens R.path = none ↔
      ∀ f e, firstNonFailed gens R.path f = some e → e.action ≠ "original") := by
  have hc := flattenGen_clean env gens ic ifl
  have hfo : findOriginal (plHist (flattenGen env gens ic ifl)).gens R.path =
      (isort (fun a b => strLe a.fmt b.fmt) R.entries).find? (fun e => e.action == "original") :=
    hc.findOriginal_mem 1 _ (sorted_mem gens R hR)
  have hperm := isort_perm (fun (a b : Entry) => strLe a.fmt b.fmt) R.entries
  have hsorted : (isort (fun a b => strLe a.fmt b.fmt) R.entries).Pairwise (fun a b => strLe a.fmt b.fmt = true) :=
    isort_key_sorted (fun e : Entry => e.fmt) R.entries
  have hnd : ((isort (fun a b => strLe a.fmt b.fmt) R.entries).map (·.fmt)).Nodup :=
    (hperm.map (·.fmt)).nodup_iff.2 (flatten_formats_unique gens R hR)
  have hmem : ∀ e, e ∈ isort (fun a b => strLe a.fmt b.fmt) R.entries ↔ firstNonFailed gens R.path e.fmt = some e := by
    intro e
    rw [hperm.mem_iff]
    constructor
    · exact flatten_entry_is_earliest_sound gens R hR e
    · intro h
      exact (flatten_entries_exact gens R hR e).2 ⟨_, h⟩
  refine ⟨hc.recordedName_eq 1 _, hfo, ?_, ?_⟩
  · intro e
    rw [hfo]
    constructor
    · intro hf
      have he := List.mem_of_find?_eq_some hf
      have hP := List.find?_some hf
      refine ⟨by simpa using hP, (hmem e).1 he, ?_⟩
      intro e' ha' hf'
      rcases find?_pairwise hsorted hf ((hmem e').2 hf') (by simp [ha']) with rfl | h
      · rcases strLe_total e.fmt e.fmt with h | h <;> exact h
      · exact h
    · rintro ⟨ha, hf, hle⟩
      apply find?_least_fmt hsorted ((hmem e).2 hf) (by simp [ha])
      intro e' he' hP'
      have ha' : e'.action = "original" := by simpa using hP'
      exact ⟨hle e' ha' ((hmem e').1 he'),
        fun hfm => eq_of_key_eq_of_nodup (fun e : Entry => e.fmt) hnd he' ((hmem e).2 hf) hfm⟩
  · rw [hfo, List.find?_eq_none]
    constructor
    · intro h f e hf
      have hef : e.fmt = f := (firstNonFailed_some gens _ _ e hf).1
      have := h e ((hmem e).2 (hef ▸ hf))
      simpa using this
    · intro h e he
      have := h e.fmt e ((hmem e).1 he)
      simpa using this

/-- the verdict of `verify -pl` on a file (of any tree) whose POSIX text is the path of `R`: new if `R` has no
`original` entry; else the digest of the file in the format of the first `original` entry of the SORTED entries is
compared with that entry -/
theorem flatten_verify_pl_judge (env : Env) (gens : List LGen) (ic ifl : List String) (R : Record)
    (hR : R ∈ flattenRecords gens) (t2 : Node) (hashing : Bool) (q : RelPath) (hq : R.path = posix q) :
    judgeFile env t2 (plHist (flattenGen env gens ic ifl)) hashing q =
      match (isort (fun a b => strLe a.fmt b.fmt) R.entries).find? (fun e => e.action == "original") with
      | none => .new
      | some e => if hashing && env.H e.fmt (fileContent t2 q) != e.digest then .mismatch else .ok :=
  (flattenGen_clean env gens ic ifl).judgeFile_mem env t2 hashing q _ (sorted_mem gens R hR) hq

/-- a file whose text is not the path of a record of the packing list is new -/
theorem flatten_verify_pl_unrecorded (env : Env) (gens : List LGen) (ic ifl : List String) (t2 : Node)
    (hashing : Bool) (q : RelPath) (hq : ∀ R ∈ flattenRecords gens, R.path ≠ posix q) :
    judgeFile env t2 (plHist (flattenGen env gens ic ifl)) hashing q = .new := by
  apply (flattenGen_clean env gens ic ifl).judgeFile_new
  intro r' hr'
  obtain ⟨R, hR, hp, -⟩ := (sortedRecords_spec gens r').1 hr'
  rw [hp]
  exact hq R hR

/-! #### it does NOT always coincide with the entry `verify` against the full history uses -/

/-- (a) entries re-sorted by format name.  One generation whose record lists `xxh64` before `md5` (a manifest not
written by this tool; the schema does not fix the order): `verify` compares the FIRST `original` entry (xxh64),
`verify -pl` the one with the least format name (md5) -/
def exUnsorted : List LGen :=
  [⟨1, { fileName := "0001.mhl", records :=
    [{ path := "a.mov", size := some 5,
       entries := [⟨"xxh64", "x1", "original", none⟩, ⟨"md5", "m1", "original", none⟩] }] }⟩]

theorem not_coincide_resorted (env : Env) :
    findOriginal exUnsorted "a.mov" = some ⟨"xxh64", "x1", "original", none⟩ ∧
    findOriginal (plHist (flattenGen env exUnsorted [] [])).gens "a.mov" = some ⟨"md5", "m1", "original", none⟩ := by
  constructor
  · decide
  · rw [(flatten_verify_pl_judges_first env exUnsorted [] []
      { path := "a.mov", size := some 5,
        entries := [⟨"xxh64", "x1", "original", none⟩, ⟨"md5", "m1", "original", none⟩] } (by decide)).2.1]
    decide

/-- (b) an `original` entry in a later generation, in a format with a smaller name: `verify` compares the entry of
the EARLIER generation, `verify -pl` the one with the least format name -/
def exLaterOriginal : List LGen :=
  [⟨1, { fileName := "0001.mhl", records :=
    [{ path := "a.mov", size := some 5, entries := [⟨"xxh64", "x1", "original", none⟩] }] }⟩,
   ⟨2, { fileName := "0002.mhl", records :=
    [{ path := "a.mov", size := some 5, entries := [⟨"md5", "m1", "original", none⟩] }] }⟩]

theorem not_coincide_later_original (env : Env) :
    findOriginal exLaterOriginal "a.mov" = some ⟨"xxh64", "x1", "original", none⟩ ∧
    findOriginal (plHist (flattenGen env exLaterOriginal [] [])).gens "a.mov" =
      some ⟨"md5", "m1", "original", none⟩ := by
  constructor
  · decide
  · rw [(flatten_verify_pl_judges_first env exLaterOriginal [] []
      { path := "a.mov", size := some 5,
        entries := [⟨"xxh64", "x1", "original", none⟩, ⟨"md5", "m1", "original", none⟩] } (by decide)).2.1]
    decide

/-- (c) the `original` entry is shadowed by an earlier non-failed entry of the same format that is not `original`:
the packing list keeps the earlier one, so its record has NO `original` entry; `verify` compares with the
`original` digest, `verify -pl` calls the file NEW -/
def exShadowed : List LGen :=
  [⟨1, { fileName := "0001.mhl", records :=
    [{ path := "a.mov", size := some 5, entries := [⟨"md5", "m0", "verified", none⟩] }] }⟩,
   ⟨2, { fileName := "0002.mhl", records :=
    [{ path := "a.mov", size := some 5, entries := [⟨"md5", "m1", "original", none⟩] }] }⟩]

theorem not_coincide_shadowed (env : Env) (t2 : Node) :
    findOriginal exShadowed "a.mov" = some ⟨"md5", "m1", "original", none⟩ ∧
    flattenRecords exShadowed = [{ path := "a.mov", size := some 5, entries := [⟨"md5", "m0", "verified", none⟩] }] ∧
    findOriginal (plHist (flattenGen env exShadowed [] [])).gens "a.mov" = none ∧
    judgeFile env t2 (plHist (flattenGen env exShadowed [] [])) true ["a.mov"] = .new := by
  refine ⟨by decide, by decide, ?_, ?_⟩
  · rw [(flatten_verify_pl_judges_first env exShadowed [] []
      { path := "a.mov", size := some 5, entries := [⟨"md5", "m0", "verified", none⟩] } (by decide)).2.1]
    decide
  · rw [flatten_verify_pl_judge env exShadowed [] []
      { path := "a.mov", size := some 5, entries := [⟨"md5", "m0", "verified", none⟩] } (by decide) t2 true
      ["a.mov"] (by decide)]
    rfl

/-- (d) "a record whose first entry failed" is NOT a counterexample: the failed entry is dropped by `flatten` and
skipped by `findOriginal` alike (it is not `original`) -/
def exFailedFirst : List LGen :=
  [⟨1, { fileName := "0001.mhl", records :=
    [{ path := "a.mov", size := some 5, entries := [⟨"md5", "m1", "original", none⟩] }] }⟩,
   ⟨2, { fileName := "0002.mhl", records :=
    [{ path := "a.mov", size := some 5,
       entries := [⟨"md5", "zz", "failed", none⟩, ⟨"xxh64", "x1", "verified", none⟩] }] }⟩]

theorem coincide_failed_later (env : Env) :
    findOriginal exFailedFirst "a.mov" = some ⟨"md5", "m1", "original", none⟩ ∧
    findOriginal (plHist (flattenGen env exFailedFirst [] [])).gens "a.mov" =
      some ⟨"md5", "m1", "original", none⟩ := by
  constructor
  · decide
  · rw [(flatten_verify_pl_judges_first env exFailedFirst [] []
      { path := "a.mov", size := some 5,
        entries := [⟨"md5", "m1", "original", none⟩, ⟨"xxh64", "x1", "verified", none⟩] } (by decide)).2.1]
    decide

/-! #### the condition under which it coincides -/

/-- the shape every history written by this tool has for a path `p` (and that the three counterexamples violate,
each in one point): the FIRST generation in which the look-up of `p` finds anything finds a file record of `p`, the
only one of that path in the generation, whose entries are sorted by format name (each format once), none failed,
one at least `original`; and no LATER file record of `p` has an `original` entry -/
structure OriginalsFirst (gens : List LGen) (p : String) (pre : List LGen) (g : LGen) (post : List LGen)
    (r : Record) : Prop where
  split : gens = pre ++ g :: post
  before : ∀ g' ∈ pre, g'.gen.find p = none
  found : g.gen.find p = some r
  mem : r ∈ g.gen.records
  file : r.isDir = false
  path : r.path = p
  unique : ∀ r' ∈ g.gen.records, r'.isDir = false → r'.path = p → r' = r
  sorted : r.entries.Pairwise (fun a b => strLe a.fmt b.fmt = true)
  fmts : (r.entries.map (·.fmt)).Nodup
  noFailed : ∀ e ∈ r.entries, e.action ≠ "failed"
  original : ∃ e ∈ r.entries, e.action = "original"
  after : ∀ g' ∈ post, ∀ r' ∈ g'.gen.records, r'.isDir = false → r'.path = p →
    ∀ e ∈ r'.entries, e.action ≠ "original"

/-- `flatten_verify_pl_coincides`: under `OriginalsFirst`, `verify -pl` and `verify` compare the file with the SAME
entry: the first `original` entry of the first record of the path -/
theorem flatten_verify_pl_coincides (env : Env) (gens : List LGen) (ic ifl : List String) (p : String)
    (pre : List LGen) (g : LGen) (post : List LGen) (r : Record) (h : OriginalsFirst gens p pre g post r) :
    findOriginal (plHist (flattenGen env gens ic ifl)).gens p = findOriginal gens p ∧
    findOriginal gens p = r.entries.find? (fun e => e.action == "original") ∧
    (findOriginal gens p).isSome = true := by
  -- the first original entry of `r`
  obtain ⟨eo, heo, hao⟩ := h.original
  have hsome : (r.entries.find? (fun e => e.action == "original")).isSome := by
    rw [List.find?_isSome]
    exact ⟨eo, heo, by simp [hao]⟩
  obtain ⟨e0, he0⟩ := Option.isSome_iff_exists.1 hsome
  have he0m := List.mem_of_find?_eq_some he0
  have he0a : e0.action = "original" := by simpa using List.find?_some he0
  -- the full history
  have hfull : findOriginal gens p = some e0 := by
    rw [h.split, findOriginal_append_none pre _ p h.before]
    exact findOriginal_cons_some g post p r e0 h.found he0
  -- no file record of `p` before
  have hpre : ∀ f, firstNonFailed pre p f = none := by
    intro f
    apply firstNonFailed_none_of_no_record
    intro g' hg' r' hr' _
    exact find_none_no_record _ _ (h.before g' hg') r' hr'
  have hfnf : ∀ f, firstNonFailed gens p f =
      (r.entries.find? (fun e => e.fmt == f && e.action != "failed")).or (firstNonFailed post p f) := by
    intro f
    rw [h.split, firstNonFailed_append, hpre f, Option.none_or, firstNonFailed_cons,
      findSome_record_unique' g.gen.records r h.mem h.file p h.path h.unique
        (fun r => r.entries.find? (fun e => e.fmt == f && e.action != "failed"))]
  have hfnf_r : ∀ e ∈ r.entries, firstNonFailed gens p e.fmt = some e := by
    intro e he
    rw [hfnf, find?_fmt_of_nodup h.fmts he (h.noFailed e he)]
    rfl
  -- an original earliest entry of `p` is an entry of `r`
  have horig : ∀ e, e.action = "original" → firstNonFailed gens p e.fmt = some e → e ∈ r.entries := by
    intro e ha hf
    rw [hfnf] at hf
    cases hfr : r.entries.find? (fun x => x.fmt == e.fmt && x.action != "failed") with
    | some x =>
      rw [hfr] at hf
      simp only [Option.some_or, Option.some.injEq] at hf
      subst hf
      exact List.mem_of_find?_eq_some hfr
    | none =>
      rw [hfr] at hf
      simp only [Option.none_or] at hf
      obtain ⟨-, -, g', hg', r', hr', hd', hp', he'⟩ := firstNonFailed_some post p e.fmt e hf
      exact absurd ha (h.after g' hg' r' hr' hd' hp' e he')
  -- the record of the packing list
  obtain ⟨R, hR, hRp, -⟩ := flatten_entry_is_earliest_complete gens p e0.fmt e0 (hfnf_r e0 he0m)
  obtain ⟨-, -, hiff, -⟩ := flatten_verify_pl_judges_first env gens ic ifl R hR
  rw [hRp] at hiff
  have hpl : findOriginal (plHist (flattenGen env gens ic ifl)).gens p = some e0 := by
    rw [hiff e0]
    refine ⟨he0a, hfnf_r e0 he0m, ?_⟩
    intro e' ha' hf'
    have hm' := horig e' ha' hf'
    rcases find?_pairwise h.sorted he0 hm' (by simp [ha']) with rfl | hlt
    · rcases strLe_total e0.fmt e0.fmt with h | h <;> exact h
    · exact hlt
  exact ⟨by rw [hpl, hfull], by rw [hfull, he0], by rw [hfull]; rfl⟩

/-! #### the histories of 1.–4. satisfy the condition: `verify -pl` compares what `verify` compares -/

section
variable {env : Env} {rn : String} {cs : List Node} {o : CreateOpts}

theorem flattenGen_after_seal (hS : Setting env rn cs o) (w : Written)
    (hw : (createFolder env (.dir rn cs none) o).written = [w]) :
    flattenGen env (sealedHist w).gens [] [] = packingList env w := by
  obtain ⟨hign, hset, -, -⟩ := sealed_ignore_stable hS w hw
  unfold flattenGen packingList
  rw [sortedRecords_after_seal hS w hw, hset, hign, setPatterns_none_own]

/-- the first generation's record of a visible file has the shape `OriginalsFirst` asks for -/
theorem sealed_first_record (hS : Setting env rn cs o) (w : Written)
    (hw : (createFolder env (.dir rn cs none) o).written = [w]) (p : RelPath)
    (hp : (p, false) ∈ visiblePaths (hit0 env o) (.dir rn cs none)) :
    ∃ r, w.gen.find (posix p) = some r ∧ r ∈ w.gen.records ∧ r.isDir = false ∧ r.path = posix p ∧
      (∀ r' ∈ w.gen.records, r'.isDir = false → r'.path = posix p → r' = r) ∧
      r.entries.Pairwise (fun a b => strLe a.fmt b.fmt = true) ∧ (r.entries.map (·.fmt)).Nodup ∧
      (∀ e ∈ r.entries, e.action ≠ "failed") ∧ (∃ e ∈ r.entries, e.action = "original") ∧
      r.entries.find? (fun e => e.action == "original") =
        some (mkOrig env (fileContent (.dir rn cs none) p) (firstFormat o.formats)) := by
  obtain ⟨-, -, -, -, -, -, hsg⟩ := written_facts hS w hw
  obtain ⟨hnd, -, -, h4⟩ := sealed_records hS w hw
  obtain ⟨r, hfind, hr, hpath, hents⟩ := hsg.find_file hS.namesOk p hp
  obtain ⟨r', hr', hpath', -⟩ := h4 p hp
  obtain ⟨hr'1, hr'2⟩ := (mem_fileRecords _ _).1 hr'
  have : r' = r := record_unique hnd hr'1 hr (hpath'.trans hpath.symm)
  subst this
  obtain ⟨c1, c2, c3⟩ := origEntries_clean env (fileContent (.dir rn cs none) p) o.formats hS.formats
  refine ⟨r', hfind, hr, hr'2, hpath, ?_, ?_, ?_, ?_, ?_, ?_⟩
  · intro x hx _ hxp
    exact record_unique hnd hx hr (hxp.trans hpath.symm)
  · rw [hents]
    exact isort_key_sorted (fun e : Entry => e.fmt) _
  · rw [hents]; exact c1
  · rw [hents]; exact c3
  · rw [hents]
    obtain ⟨e, he⟩ := List.exists_mem_of_ne_nil _ c2
    exact ⟨e, he, (origEntries_spec env _ o.formats e he).1⟩
  · rw [hents]
    exact origEntries_find_original env _ o.formats hS.formats

/-- after one seal: the entry `verify -pl` compares a visible file with is the entry `verify` compares it with -/
theorem verify_pl_same_entry_after_seal (hS : Setting env rn cs o) (w : Written)
    (hw : (createFolder env (.dir rn cs none) o).written = [w]) (p : RelPath)
    (hp : (p, false) ∈ visiblePaths (hit0 env o) (.dir rn cs none)) :
    findOriginal (plHist (packingList env w)).gens (posix p) = findOriginal (sealedHist w).gens (posix p) ∧
    findOriginal (sealedHist w).gens (posix p) =
      some (mkOrig env (fileContent (.dir rn cs none) p) (firstFormat o.formats)) := by
  obtain ⟨r, a1, a2, a3, a4, a5, a6, a7, a8, a9, a10⟩ := sealed_first_record hS w hw p hp
  have hof : OriginalsFirst (sealedHist w).gens (posix p) [] ⟨1, w.gen⟩ [] r :=
    { split := rfl, before := by simp, found := a1, mem := a2, file := a3, path := a4, unique := a5, sorted := a6,
      fmts := a7, noFailed := a8, original := a9, after := by simp }
  obtain ⟨h1, h2, -⟩ := flatten_verify_pl_coincides env _ [] [] _ _ _ _ _ hof
  rw [flattenGen_after_seal hS w hw] at h1
  exact ⟨h1, by rw [h2, a10]⟩

/-- after seal and reseal: the same -/
theorem verify_pl_same_entry_two_generations (hS : Setting env rn cs o) (w : Written)
    (hw : (createFolder env (.dir rn cs none) o).written = [w]) (o₂ : CreateOpts) (hf₂ : o₂.formats ≠ [])
    (hdr₂ : o₂.detectRenaming = false)
    (hcli : ∀ x ∈ o₂.ignoreCli, x ∈ setPatterns none o.ignoreCli o.ignoreFile)
    (hfile : ∀ x ∈ o₂.ignoreFile, x ∈ setPatterns none o.ignoreCli o.ignoreFile) (w₂ : Written)
    (hwr₂ : (createFolder env (sealedTree env rn cs o) o₂).written = [w₂]) (p : RelPath)
    (hp : (p, false) ∈ visiblePaths (hit0 env o) (.dir rn cs none)) :
    findOriginal (plHist (flattenGen env (twoHist w w₂).gens [] [])).gens (posix p) =
      findOriginal (twoHist w w₂).gens (posix p) ∧
    findOriginal (twoHist w w₂).gens (posix p) =
      some (mkOrig env (fileContent (.dir rn cs none) p) (firstFormat o.formats)) := by
  obtain ⟨r, a1, a2, a3, a4, a5, a6, a7, a8, a9, a10⟩ := sealed_first_record hS w hw p hp
  obtain ⟨hnd2, -, h23⟩ := reseal_records hS w w₂ o₂ hcli hfile hf₂ hdr₂ hw hwr₂
  have hof : OriginalsFirst (twoHist w w₂).gens (posix p) [] ⟨1, w.gen⟩ [⟨2, w₂.gen⟩] r :=
    { split := rfl, before := by simp, found := a1, mem := a2, file := a3, path := a4, unique := a5, sorted := a6,
      fmts := a7, noFailed := a8, original := a9,
      after := by
        intro g' hg' r' hr' _ hp' e he
        simp only [List.mem_singleton] at hg'
        subst hg'
        obtain ⟨r₂, hr₂, hpath₂, -, -, hents₂, -⟩ := h23 p hp
        have : r' = r₂ := record_unique hnd2 hr' hr₂ (hp'.trans hpath₂.symm)
        subst this
        exact (hents₂ e he).2.2.2.2 }
  obtain ⟨h1, h2, -⟩ := flatten_verify_pl_coincides env _ [] [] _ _ _ _ _ hof
  exact ⟨h1, by rw [h2, a10]⟩

/-! #### 3b / 3c on the model's own trees: a root-level file removed / added -/

/-- 3b for a root-level file: the tree without the visible file `n` (no `ascmhl` folder needed) — `verify -pl` ends
with exit code 10 and reports exactly `n` as missing -/
theorem verify_pl_removed_root (hS : Setting env rn cs o) (w : Written)
    (hw : (createFolder env (.dir rn cs none) o).written = [w]) (n : String)
    (hp : ([n], false) ∈ visiblePaths (hit0 env o) (.dir rn cs none)) :
    (verifyOrDiff env (removeRoot rn cs n) {} true (some (packingList env w))).err = some errMissingFiles ∧
    (verifyOrDiff env (removeRoot rn cs n) {} true (some (packingList env w))).exitCode = 10 ∧
    (verifyOrDiff env (removeRoot rn cs n) {} true (some (packingList env w))).report.mismatch = [] ∧
    (verifyOrDiff env (removeRoot rn cs n) {} true (some (packingList env w))).report.new = [] ∧
    (verifyOrDiff env (removeRoot rn cs n) {} true (some (packingList env w))).report.missing = [posix [n]] := by
  have hnd : (cs.map Node.name).Nodup := ((Node.namesDistinct_dir rn cs none).1 hS.distinct).1
  have hpp := ((MhlProps.C02.visible_iff _ _ _ _).1 hp).1
  apply verify_pl_removed hS w hw _ [n] hp
  · intro x
    obtain ⟨q, d⟩ := x
    rw [MhlProps.C02.visible_iff, MhlProps.C02.visible_iff, paths_removeRoot hnd hpp]
    constructor
    · rintro ⟨⟨h1, h2⟩, h3⟩
      exact ⟨⟨h1, h3⟩, h2⟩
    · rintro ⟨⟨h1, h3⟩, h2⟩
      exact ⟨⟨h1, h2⟩, h3⟩
  · intro q hq hne
    obtain ⟨x, hat, hfile⟩ := MhlProps.C02.visible_on_disk _ _ hS.distinct q false hq
    cases q with
    | nil => exact absurd rfl (visible_names_ok _ _ hS.namesOk _ hq).1
    | cons m rest =>
      by_cases hm : m = n
      · subst hm
        exfalso
        obtain ⟨c0, hc0, hn0, hd0⟩ := root_path_child hpp
        rw [Node.at?_dir_cons, ← hn0, findChild_of_mem hnd hc0] at hat
        cases c0 with
        | dir _ _ _ => cases hd0
        | file nm b =>
          cases rest with
          | nil => exact hne rfl
          | cons r rs => simp [Node.at?] at hat
      · rw [fileContent_removeRoot rn cs n m rest hm]

/-- 3c for a root-level file: the tree with one more file `n` that is not ignored, whose name is well-formed and
not yet in the folder — `verify -pl` ends with exit code 21 and reports exactly `n` as new -/
theorem verify_pl_added_root (hS : Setting env rn cs o) (w : Written)
    (hw : (createFolder env (.dir rn cs none) o).written = [w]) (n : String) (b : Bytes)
    (hn : NameOk n) (hfresh : ∀ c ∈ cs, c.name ≠ n) (hvisible : hit0 env o [n] = false) :
    (verifyOrDiff env (addRoot rn cs n b) {} true (some (packingList env w))).err = some errNewFiles ∧
    (verifyOrDiff env (addRoot rn cs n b) {} true (some (packingList env w))).exitCode = 21 ∧
    (verifyOrDiff env (addRoot rn cs n b) {} true (some (packingList env w))).report.mismatch = [] ∧
    (∀ s, s ∈ (verifyOrDiff env (addRoot rn cs n b) {} true (some (packingList env w))).report.new ↔
      s = posix [n]) ∧
    (verifyOrDiff env (addRoot rn cs n b) {} true (some (packingList env w))).report.missing = [] := by
  have hnot : ∀ d, ([n], d) ∉ Node.paths [] (.dir rn cs none) := by
    intro d hd
    obtain ⟨c, hc, hcn, -⟩ := root_path_child hd
    exact hfresh c hc hcn
  apply verify_pl_added hS w hw _ [n]
  · intro q hq hqp
    have hok : ∀ s ∈ [n], NameOk s := by
      intro s hs
      simp only [List.mem_singleton] at hs
      subst hs
      exact hn
    have : q = [n] := posix_inj (visible_names_ok _ _ hS.namesOk _ hq).2 hok hqp
    subst this
    exact hnot false ((MhlProps.C02.visible_iff _ _ _ _).1 hq).1
  · intro x
    obtain ⟨q, d⟩ := x
    rw [MhlProps.C02.visible_iff, MhlProps.C02.visible_iff, paths_addRoot]
    constructor
    · rintro ⟨h1 | h1, h2⟩
      · exact Or.inl ⟨h1, h2⟩
      · exact Or.inr h1
    · rintro (⟨h1, h2⟩ | h1)
      · exact ⟨Or.inl h1, h2⟩
      · simp only [Prod.mk.injEq] at h1
        obtain ⟨rfl, rfl⟩ := h1
        refine ⟨Or.inr rfl, ?_⟩
        intro k hk0 hk
        have : k = 1 := by simp at hk; omega
        subst this
        simpa using hvisible
  · intro q hq
    obtain ⟨x, hat, -⟩ := MhlProps.C02.visible_on_disk _ _ hS.distinct q false hq
    rw [fileContent_addRoot rn cs n b q x (visible_names_ok _ _ hS.namesOk _ hq).1 hat]

end

end MhlProps.C18e2e

namespace MhlProps.C18e2e
open MhlModel MhlProps.C03e2e

/-! ### non-vacuity and an independent evaluation of the pipeline

C03e2e's example: the tree `exTree` (two files, a sub-folder with a file, two ignored files), sealed with the
formats xxh64 and md5 (`exSetting`, `exW`, `exSealed`). -/

/-- the packing list of the example -/
def exPL : Generation := packingList exEnv exW

/-- `flatten` on the sealed tree, EVALUATED: exit code 0, one generation, number 1 at the root, process `flatten`,
the pattern list of the seal, one record per visible FILE (the folder record `sub` is dropped) with size and the two
`original` digests sorted by format name -/
example : (flatten exEnv exSealed [] []).err = none ∧
    ((flatten exEnv exSealed [] []).written.map fun w => (w.histRoot, w.number, w.gen.process.toList)) =
      [([], 1, "flatten".toList)] ∧
    ((flatten exEnv exSealed [] []).written.map fun w => w.gen.fileName.toList) =
      ["packinglist_root_2020-01-16_091500Z.mhl".toList] ∧
    ((flatten exEnv exSealed [] []).written.map fun w => (w.gen.ignore, w.gen.rootHash.isNone)) =
      [([".DS_Store", "ascmhl", "ascmhl/", "skip.tmp"], true)] ∧
    ((flatten exEnv exSealed [] []).written.map fun w =>
      w.gen.records.map fun r => (r.path, r.isDir, r.size)) =
      [[("sub/x", false, some 1), ("a.txt", false, some 2), ("b.txt", false, some 1)]] ∧
    ((flatten exEnv exSealed [] []).written.map fun w =>
      w.gen.records.map fun r => (r.prev, r.entries.map fun e => (e.digest, e.action))) =
      [[(none, [("md5:1", "original"), ("xxh64:1", "original")]),
        (none, [("md5:2", "original"), ("xxh64:2", "original")]),
        (none, [("md5:1", "original"), ("xxh64:1", "original")])]] :=
  ⟨by decide +kernel, by decide +kernel, by decide +kernel, by decide +kernel, by decide +kernel, by decide +kernel⟩

/-- the same through the theorem: what `flatten` returns is `packingList exEnv exW` -/
example : flatten exEnv exSealed [] [] = { written := [⟨[], 1, exPL⟩] } := by
  have h := flatten_after_seal exSetting exW exW_written
  have he : (fileRecords exW.gen).isEmpty = false := by decide +kernel
  rw [he] at h
  exact h

/-- the hypothesis "the tree has a visible file" holds of the example -/
example : ∃ p, (p, false) ∈ visiblePaths (hit0 exEnv exOpts) (.dir "root" exKids none) :=
  ⟨["a.txt"], by decide +kernel⟩

theorem ex_expected_pl : expectedPaths (plHist exPL) = [["sub", "x"], ["a.txt"], ["b.txt"]] := by
  unfold plHist
  rw [expectedPaths_single]
  decide +kernel

/-- `verify -pl` on the sealed tree and on the original tree, EVALUATED: exit code 0, empty reports -/
example : (verifyOrDiff exEnv exSealed {} true (some exPL)).exitCode = 0 ∧
    (verifyOrDiff exEnv exSealed {} true (some exPL)).report.mismatch = [] ∧
    (verifyOrDiff exEnv exSealed {} true (some exPL)).report.new = [] ∧
    (verifyOrDiff exEnv exSealed {} true (some exPL)).report.missing = [] ∧
    (verifyOrDiff exEnv exTree {} true (some exPL)).exitCode = 0 := by
  have m1 : vMissing exEnv exSealed (plHist exPL) {} = [] := by
    unfold vMissing; rw [ex_expected_pl]; decide +kernel
  have m2 : vMissing exEnv exTree (plHist exPL) {} = [] := by
    unfold vMissing; rw [ex_expected_pl]; decide +kernel
  rw [verifyOrDiff_pl_eq, verifyOrDiff_pl_eq, m1, m2]
  decide +kernel

/-- the same through the theorem -/
example : (verifyOrDiff exEnv exSealed {} true (some exPL)).err = none ∧
    (verifyOrDiff exEnv exTree {} true (some exPL)).err = none :=
  ⟨(verify_pl_after_seal exSetting exW exW_written).1.1, (verify_pl_after_seal exSetting exW exW_written).2.1⟩

/-- `a.txt` altered (three bytes instead of two), by the theorem: exit code 11, exactly `a.txt` reported … -/
example : (verifyOrDiff exEnv exAltered {} true (some exPL)).err = some errVerifyFailed ∧
    (verifyOrDiff exEnv exAltered {} true (some exPL)).exitCode = 11 ∧
    (verifyOrDiff exEnv exAltered {} true (some exPL)).report.mismatch = ["a.txt"] ∧
    (verifyOrDiff exEnv exAltered {} true (some exPL)).report.new = [] ∧
    (verifyOrDiff exEnv exAltered {} true (some exPL)).report.missing = [] :=
  verify_pl_altered_trees exSetting exW exW_written ["a.txt"] (by decide +kernel) [1, 2, 3] (by decide +kernel)

/-- … and EVALUATED -/
example : (verifyOrDiff exEnv exAltered {} true (some exPL)).exitCode = 11 ∧
    (verifyOrDiff exEnv exAltered {} true (some exPL)).report.mismatch = ["a.txt"] := by
  have m : vMissing exEnv exAltered (plHist exPL) {} = [] := by
    unfold vMissing; rw [ex_expected_pl]; decide +kernel
  rw [verifyOrDiff_pl_eq, m]
  decide +kernel

/-- `a.txt` removed from the (unsealed) tree; a file `new.bin` added; both and `b.txt` altered -/
def exRemoved : Node :=
  .dir "root" [.file "b.txt" [7], .dir "sub" [.file "x" [3]] none, .file "skip.tmp" [9], .file ".DS_Store" []] none

def exAdded : Node := .dir "root" (exKids ++ [.file "new.bin" [1]]) none

def exAll : Node :=
  .dir "root" [.file "b.txt" [7, 7], .dir "sub" [.file "x" [3]] none, .file "new.bin" [1]] none

/-- EVALUATED: removed ⇒ exit code 10 naming the file; added ⇒ 21 naming it; a mismatch, a new file and a missing
file together ⇒ 11 (mismatch over new over missing), all three reported -/
example : (verifyOrDiff exEnv exRemoved {} true (some exPL)).exitCode = 10 ∧
    (verifyOrDiff exEnv exRemoved {} true (some exPL)).report.missing = ["a.txt"] ∧
    (verifyOrDiff exEnv exAdded {} true (some exPL)).exitCode = 21 ∧
    (verifyOrDiff exEnv exAdded {} true (some exPL)).report.new = ["new.bin"] ∧
    (verifyOrDiff exEnv exAll {} true (some exPL)).exitCode = 11 ∧
    (verifyOrDiff exEnv exAll {} true (some exPL)).report.mismatch = ["b.txt"] ∧
    (verifyOrDiff exEnv exAll {} true (some exPL)).report.new = ["new.bin"] ∧
    (verifyOrDiff exEnv exAll {} true (some exPL)).report.missing = ["a.txt"] := by
  have m1 : vMissing exEnv exRemoved (plHist exPL) {} = [["a.txt"]] := by
    unfold vMissing; rw [ex_expected_pl]; decide +kernel
  have m2 : vMissing exEnv exAdded (plHist exPL) {} = [] := by
    unfold vMissing; rw [ex_expected_pl]; decide +kernel
  have m3 : vMissing exEnv exAll (plHist exPL) {} = [["a.txt"]] := by
    unfold vMissing; rw [ex_expected_pl]; decide +kernel
  rw [verifyOrDiff_pl_eq, verifyOrDiff_pl_eq, verifyOrDiff_pl_eq, m1, m2, m3]
  decide +kernel

theorem ex_vis : visiblePaths (hit0 exEnv exOpts) (.dir "root" exKids none) =
    [(["sub", "x"], false), (["a.txt"], false), (["b.txt"], false), (["sub"], true)] := by decide +kernel

/-- the hypotheses of `verify_pl_removed` / `verify_pl_added` hold of these trees: through the theorems -/
example : (verifyOrDiff exEnv exRemoved {} true (some exPL)).err = some errMissingFiles ∧
    (verifyOrDiff exEnv exRemoved {} true (some exPL)).report.missing = ["a.txt"] := by
  have hv : visiblePaths (hit0 exEnv exOpts) exRemoved =
      [(["sub", "x"], false), (["b.txt"], false), (["sub"], true)] := by decide +kernel
  obtain ⟨h1, -, -, -, h5⟩ := verify_pl_removed exSetting exW exW_written exRemoved ["a.txt"] (by decide +kernel)
    (by
      intro x
      rw [hv, ex_vis]
      obtain ⟨q, d⟩ := x
      simp only [List.mem_cons, Prod.mk.injEq, List.not_mem_nil, or_false, ne_eq]
      constructor
      · rintro (⟨rfl, rfl⟩ | ⟨rfl, rfl⟩ | ⟨rfl, rfl⟩) <;> simp
      · rintro ⟨(⟨rfl, rfl⟩ | ⟨rfl, rfl⟩ | ⟨rfl, rfl⟩ | ⟨rfl, rfl⟩), h⟩ <;> simp at h ⊢)
    (by
      intro q hq hne
      rw [ex_vis] at hq
      simp only [List.mem_cons, Prod.mk.injEq, and_true, List.not_mem_nil, or_false, reduceCtorEq, and_false] at hq
      rcases hq with rfl | rfl | rfl
      · decide +kernel
      · exact absurd rfl hne
      · decide +kernel)
  exact ⟨h1, h5⟩

example : (verifyOrDiff exEnv exAdded {} true (some exPL)).err = some errNewFiles ∧
    "new.bin" ∈ (verifyOrDiff exEnv exAdded {} true (some exPL)).report.new := by
  have hv : visiblePaths (hit0 exEnv exOpts) exAdded =
      [(["sub", "x"], false), (["a.txt"], false), (["b.txt"], false), (["new.bin"], false), (["sub"], true)] := by
    decide +kernel
  obtain ⟨h1, -, -, h4, -⟩ := verify_pl_added exSetting exW exW_written exAdded ["new.bin"]
    (by
      intro q hq
      rw [ex_vis] at hq
      simp only [List.mem_cons, Prod.mk.injEq, and_true, List.not_mem_nil, or_false, reduceCtorEq, and_false] at hq
      rcases hq with rfl | rfl | rfl <;> decide +kernel)
    (by
      intro x
      rw [hv, ex_vis]
      obtain ⟨q, d⟩ := x
      simp only [List.mem_cons, Prod.mk.injEq, List.not_mem_nil, or_false]
      constructor
      · rintro (⟨rfl, rfl⟩ | ⟨rfl, rfl⟩ | ⟨rfl, rfl⟩ | ⟨rfl, rfl⟩ | ⟨rfl, rfl⟩) <;> simp
      · rintro ((⟨rfl, rfl⟩ | ⟨rfl, rfl⟩ | ⟨rfl, rfl⟩ | ⟨rfl, rfl⟩) | ⟨rfl, rfl⟩) <;> simp)
    (by
      intro q hq
      rw [ex_vis] at hq
      simp only [List.mem_cons, Prod.mk.injEq, and_true, List.not_mem_nil, or_false, reduceCtorEq, and_false] at hq
      rcases hq with rfl | rfl | rfl <;> decide +kernel)
  exact ⟨h1, (h4 _).2 rfl⟩

/-- the root-level constructions `removeRoot` / `addRoot`, through `verify_pl_removed_root` / `verify_pl_added_root` -/
example : (verifyOrDiff exEnv (removeRoot "root" exKids "a.txt") {} true (some exPL)).exitCode = 10 ∧
    (verifyOrDiff exEnv (removeRoot "root" exKids "a.txt") {} true (some exPL)).report.missing = ["a.txt"] :=
  let h := verify_pl_removed_root exSetting exW exW_written "a.txt" (by decide +kernel)
  ⟨h.2.1, h.2.2.2.2⟩

example : (verifyOrDiff exEnv (addRoot "root" exKids "new.bin" [1]) {} true (some exPL)).exitCode = 21 ∧
    "new.bin" ∈ (verifyOrDiff exEnv (addRoot "root" exKids "new.bin" [1]) {} true (some exPL)).report.new :=
  let h := verify_pl_added_root exSetting exW exW_written "new.bin" [1] (by decide) (by decide) (by decide +kernel)
  ⟨h.2.1, (h.2.2.2.1 _).2 rfl⟩

/-- an ignored file added is not "visible": the hypothesis `hit … [n] = false` fails for it, and indeed nothing is
reported -/
example : hit0 exEnv exOpts ["skip.tmp"] = true := by decide +kernel

/-- seal (xxh64, md5), reseal with sha1 (`exOpts2`), flatten — EVALUATED: each record has the union of the formats,
sorted by name; the formats of the first run `original`, the one the second run brought `verified`; no `failed` -/
def exResealed : Node := resealedTree exEnv "root" exKids exOpts exOpts2

example : (flatten exEnv exResealed [] []).err = none ∧
    ((flatten exEnv exResealed [] []).written.map fun w => (w.histRoot, w.number, w.gen.ignore)) =
      [([], 1, [".DS_Store", "ascmhl", "ascmhl/", "skip.tmp"])] ∧
    ((flatten exEnv exResealed [] []).written.map fun w =>
      w.gen.records.map fun r => (r.path, r.size, r.entries.map fun e => (e.digest, e.action))) =
      [[("sub/x", some 1, [("md5:1", "original"), ("sha1:1", "verified"), ("xxh64:1", "original")]),
        ("a.txt", some 2, [("md5:2", "original"), ("sha1:2", "verified"), ("xxh64:2", "original")]),
        ("b.txt", some 1, [("md5:1", "original"), ("sha1:1", "verified"), ("xxh64:1", "original")])]] :=
  ⟨by decide +kernel, by decide +kernel, by decide +kernel⟩

/-- the hypotheses of `flatten_two_generations` hold of the example -/
example : ∃ w₂, (createFolder exEnv exSealed exOpts2).written = [w₂] ∧ w₂.number = 2 ∧
    loadHistory exResealed = .ok (twoHist exW w₂) :=
  let ⟨w₂, h1, h2, h3, _⟩ := flatten_two_generations exSetting exW exW_written exOpts2 (by decide) rfl
    (by simp [exOpts2]) (by simp [exOpts2])
  ⟨w₂, h1, h2, h3⟩

/-- `OriginalsFirst` is satisfiable: the history of C18's example, for "b.mov" -/
example : OriginalsFirst MhlProps.C18.exGens "b.mov" [] (MhlProps.C18.exGens.headD default)
    (MhlProps.C18.exGens.drop 1)
    { path := "b.mov", size := some 7, entries := [⟨"xxh64", "b0", "original", none⟩] } :=
  { split := rfl, before := by simp, found := by decide, mem := by decide, file := rfl, path := rfl,
    unique := by decide, sorted := by simp, fmts := by simp, noFailed := by decide, original := by decide,
    after := by decide }

/-! ### a history with a RENAME: the end-to-end property FAILS (witness)

`flatten` takes over the file records of every generation but not their previous paths (`flattenRecords` builds
records with `prev = none`, see `flattenRecords_meta`), and it keeps the record of the OLD path.  So for a tree that
is unchanged since its last seal, in whose history a file was renamed (recorded with `-dr`), `verify` ends with 0
but `verify -pl` against the flattened history reports the old path as MISSING and ends with 10. -/

def exRenG1 : Generation :=
  { fileName := "0001_root_2020-01-16_091500Z.mhl", ignore := [".DS_Store", "ascmhl", "ascmhl/"],
    records := [{ path := "a.mov", size := some 1, entries := [⟨"md5", "md5:1", "original", none⟩] }] }

def exRenG2 : Generation :=
  { fileName := "0002_root_2020-01-17_091500Z.mhl", ignore := [".DS_Store", "ascmhl", "ascmhl/"],
    records := [{ path := "b.mov", size := some 1, prev := some "a.mov",
                  entries := [⟨"md5", "md5:1", "original", none⟩] }] }

def exRenStore : HistStore :=
  { gens := [exRenG1, exRenG2], chain := [⟨1, exRenG1.fileName⟩, ⟨2, exRenG2.fileName⟩] }

/-- the tree after the rename: only `b.mov` is there -/
def exRenTree : Node := .dir "root" [.file "b.mov" [7]] (some exRenStore)

def exRenHist : Hist := .mk [] [⟨1, exRenG1⟩, ⟨2, exRenG2⟩] exRenStore.chain true []

theorem exRen_load : loadHistory exRenTree = .ok exRenHist := by rfl

theorem exRen_expected : expectedPaths exRenHist = [["b.mov"]] := by
  simp only [expectedPaths, expectedOfGens, splitPath_eq_splitPathL]
  decide +kernel

/-- `verify` against the history: exit code 0, nothing reported -/
theorem exRen_verify : (verify exEnv exRenTree {}).exitCode = 0 ∧ (verify exEnv exRenTree {}).report.missing = [] := by
  have m : vMissing exEnv exRenTree exRenHist {} = [] := by
    unfold vMissing; rw [exRen_expected]; decide +kernel
  rw [MhlProps.C03.verify_def, verifyOrDiff_eq _ _ _ _ exRenHist exRen_load (by decide), m]
  decide +kernel

/-- what `flatten` writes for it: a record for the old path and one for the new path, no previous path -/
theorem exRen_flatten :
    ((flatten exEnv exRenTree [] []).written.map fun w => w.gen.records.map fun r => (r.path, r.prev)) =
      [[("a.mov", none), ("b.mov", none)]] := by decide +kernel

def exRenPL : Generation := flattenGen exEnv exRenHist.gens [] []

theorem exRen_flatten_eq : flatten exEnv exRenTree [] [] = { written := [⟨[], 1, exRenPL⟩] } := by
  rw [flatten_eq exEnv exRenTree [] [] exRenHist exRen_load (by decide)]
  have : (MhlProps.C18.sortedRecords exRenHist.gens).isEmpty = false := by decide +kernel
  rw [this]
  rfl

/-- `verify -pl` of the SAME, unchanged tree against that packing list: exit code 10, `a.mov` reported missing.
The end-to-end property "verify -pl succeeds exactly when the files still have those digests" does not hold for a
history with a rename. -/
theorem flatten_verify_pl_rename_fails :
    (verify exEnv exRenTree {}).exitCode = 0 ∧
    (verifyOrDiff exEnv exRenTree {} true (some exRenPL)).exitCode = 10 ∧
    (verifyOrDiff exEnv exRenTree {} true (some exRenPL)).err = some errMissingFiles ∧
    (verifyOrDiff exEnv exRenTree {} true (some exRenPL)).report.missing = ["a.mov"] ∧
    (verifyOrDiff exEnv exRenTree {} true (some exRenPL)).report.mismatch = [] ∧
    (verifyOrDiff exEnv exRenTree {} true (some exRenPL)).report.new = [] := by
  have e : expectedPaths (plHist exRenPL) = [["a.mov"], ["b.mov"]] := by
    unfold plHist
    rw [expectedPaths_single]
    decide +kernel
  have m : vMissing exEnv exRenTree (plHist exRenPL) {} = [["a.mov"]] := by
    unfold vMissing; rw [e]; decide +kernel
  refine ⟨exRen_verify.1, ?_⟩
  rw [verifyOrDiff_pl_eq, m]
  decide +kernel

end MhlProps.C18e2e
