/-
C18 — A flattened manifest faithfully summarises the history.

About `MhlModel.flattenRecords` (the record list that `flatten` writes, before the entries of every record are
sorted by format name): for the generations `gens` of ONE history (no nested histories, renames not modelled) it
holds one record for every file path ever recorded with a digest that did not fail, and in that record, for each
format ever recorded (without failing) for that path, exactly one entry - the earliest one that did not fail - and
there are no directory records.  `gens : List LGen` is arbitrary throughout: nothing is assumed about it.

The proofs are in `MhlProps/Proofs/FlattenLemmas.lean`: `flattenRecords gens = (items gens).foldl ins []` where
`items gens` lists the non-failed entries of the file records in order, and the fold keeps the invariant `Inv`.
-/
import MhlProps.Proofs.FlattenLemmas

namespace MhlProps.C18
open MhlModel

/-- the definition of "earliest entry that did not fail", spelled out: generations in order, records in order,
entries in order; only file records with path `p`; the entry has format `fmt` and an action other than "failed" -/
example (gens : List LGen) (p fmt : String) :
    firstNonFailed gens p fmt =
      gens.findSome? fun g => g.gen.records.findSome? fun r =>
        if r.isDir = false ∧ r.path = p then r.entries.find? (fun e => e.fmt == fmt && e.action != "failed")
        else none := rfl

/-- what `firstNonFailed … = some e` says in words that do not mention `find?`: the history splits at the entry;
nothing before it (in an earlier generation, in an earlier record of the generation, or earlier in the record)
qualifies -/
theorem firstNonFailed_some (gens : List LGen) (p fmt : String) (e : Entry)
    (h : firstNonFailed gens p fmt = some e) :
    e.fmt = fmt ∧ e.action ≠ "failed" ∧
      ∃ g ∈ gens, ∃ r ∈ g.gen.records, r.isDir = false ∧ r.path = p ∧ e ∈ r.entries := by
  unfold firstNonFailed at h
  obtain ⟨g, hg, h⟩ := List.exists_of_findSome?_eq_some h
  obtain ⟨r, hr, h⟩ := List.exists_of_findSome?_eq_some h
  split at h
  · next hc =>
    have hp := List.find?_some h
    simp only [Bool.and_eq_true, beq_iff_eq, bne_iff_ne] at hp
    exact ⟨hp.1, hp.2, g, hg, r, hr, hc.1, hc.2, List.mem_of_find?_eq_some h⟩
  · cases h

/-! ### 1. no directory records -/

theorem flatten_no_dirs (gens : List LGen) : ∀ r ∈ flattenRecords gens, r.isDir = false :=
  (flattenRecords_inv gens).noDir

/-! ### 2. one record per path -/

theorem flatten_paths_unique (gens : List LGen) : ((flattenRecords gens).map (·.path)).Nodup :=
  (flattenRecords_inv gens).pathsNodup

/-! ### 3. one entry per format in every record -/

theorem flatten_formats_unique (gens : List LGen) :
    ∀ r ∈ flattenRecords gens, (r.entries.map (·.fmt)).Nodup :=
  (flattenRecords_inv gens).fmtsNodup

/-! ### 5. every entry is the earliest non-failed one of its path and format, and all of those are there -/

/-- every entry of every record is the earliest non-failed entry of that path and format in the history -/
theorem flatten_entry_is_earliest_sound (gens : List LGen) :
    ∀ r ∈ flattenRecords gens, ∀ e ∈ r.entries, firstNonFailed gens r.path e.fmt = some e := by
  intro r hr e he
  rw [firstNonFailed_eq_firstItem]
  exact (flattenRecords_inv gens).sound r hr e he

/-- the earliest non-failed entry of a path and a format is in the record of that path -/
theorem flatten_entry_is_earliest_complete (gens : List LGen) (p fmt : String) (e : Entry)
    (h : firstNonFailed gens p fmt = some e) :
    ∃ r ∈ flattenRecords gens, r.path = p ∧ e ∈ r.entries := by
  rw [firstNonFailed_eq_firstItem] at h
  exact (flattenRecords_inv gens).complete p fmt e h

/-- both directions -/
theorem flatten_entry_is_earliest (gens : List LGen) :
    (∀ r ∈ flattenRecords gens, ∀ e ∈ r.entries, firstNonFailed gens r.path e.fmt = some e) ∧
    (∀ p fmt e, firstNonFailed gens p fmt = some e → ∃ r ∈ flattenRecords gens, r.path = p ∧ e ∈ r.entries) :=
  ⟨flatten_entry_is_earliest_sound gens, flatten_entry_is_earliest_complete gens⟩

/-- so the entries of the record of a path are exactly the earliest non-failed entries of that path, one for each
format -/
theorem flatten_entries_exact (gens : List LGen) (r : Record) (hr : r ∈ flattenRecords gens) (e : Entry) :
    e ∈ r.entries ↔ ∃ fmt, firstNonFailed gens r.path fmt = some e := by
  constructor
  · exact fun he => ⟨e.fmt, flatten_entry_is_earliest_sound gens r hr e he⟩
  · rintro ⟨fmt, h⟩
    obtain ⟨r', hr', hp, he⟩ := flatten_entry_is_earliest_complete gens _ _ _ h
    rw [eq_of_nodup_map_path (flatten_paths_unique gens) hr hr' hp.symm]
    exact he

/-- no record is empty -/
theorem flatten_entries_nonempty (gens : List LGen) : ∀ r ∈ flattenRecords gens, r.entries ≠ [] :=
  (flattenRecords_inv gens).nonempty

/-! ### 6. no failed entry is taken over -/

theorem flatten_no_failed (gens : List LGen) :
    ∀ r ∈ flattenRecords gens, ∀ e ∈ r.entries, e.action ≠ "failed" := by
  intro r hr e he
  exact (firstNonFailed_some gens _ _ e (flatten_entry_is_earliest_sound gens r hr e he)).2.1

/-! ### 4. exactly the paths that were ever recorded with a digest that did not fail -/

theorem flatten_paths_exact (gens : List LGen) (p : String) :
    (∃ r ∈ flattenRecords gens, r.path = p) ↔
      ∃ g ∈ gens, ∃ r ∈ g.gen.records, r.isDir = false ∧ r.path = p ∧ ∃ e ∈ r.entries, e.action ≠ "failed" := by
  constructor
  · rintro ⟨r, hr, rfl⟩
    obtain ⟨e, he⟩ := List.exists_mem_of_ne_nil _ (flatten_entries_nonempty gens r hr)
    have h := firstNonFailed_some gens _ _ e (flatten_entry_is_earliest_sound gens r hr e he)
    obtain ⟨_, hf, g, hg, r', hr', hd, hp, he'⟩ := h
    exact ⟨g, hg, r', hr', hd, hp, e, he', hf⟩
  · rintro ⟨g, hg, r, hr, hd, rfl, e, he, hf⟩
    have hmem : (⟨r.path, r.size, e⟩ : Item) ∈ items gens :=
      (mem_items gens _).mpr ⟨g, hg, r, hr, hd, e, he, hf, rfl⟩
    obtain ⟨e', h⟩ := firstItem_isSome_of_mem hmem
    obtain ⟨r', hr', hp, _⟩ := (flattenRecords_inv gens).complete _ _ _ h
    exact ⟨r', hr', hp⟩

/-- the same with membership in the list of paths -/
theorem flatten_paths_exact' (gens : List LGen) (p : String) :
    p ∈ (flattenRecords gens).map (·.path) ↔
      ∃ g ∈ gens, ∃ r ∈ g.gen.records, r.isDir = false ∧ r.path = p ∧ ∃ e ∈ r.entries, e.action ≠ "failed" := by
  rw [← flatten_paths_exact, List.mem_map]

/-! ### the sorting that `flatten` applies afterwards changes nothing of the above -/

/-- the records as `flatten` writes them -/
def sortedRecords (gens : List LGen) : List Record :=
  (flattenRecords gens).map fun r => { r with entries := isort (fun a b => strLe a.fmt b.fmt) r.entries }

theorem sortedRecords_paths (gens : List LGen) :
    (sortedRecords gens).map (·.path) = (flattenRecords gens).map (·.path) := by
  unfold sortedRecords
  rw [List.map_map]
  rfl

/-- every written record is a record of `flattenRecords` with the same path, kind and size and the same entries
in another order -/
theorem sortedRecords_spec (gens : List LGen) (r' : Record) :
    r' ∈ sortedRecords gens ↔
      ∃ r ∈ flattenRecords gens, r'.path = r.path ∧ r'.isDir = r.isDir ∧ r'.size = r.size ∧ r'.prev = r.prev ∧
        r'.entries = isort (fun a b => strLe a.fmt b.fmt) r.entries := by
  unfold sortedRecords
  rw [List.mem_map]
  constructor
  · rintro ⟨r, hr, rfl⟩
    exact ⟨r, hr, rfl, rfl, rfl, rfl, rfl⟩
  · rintro ⟨r, hr, h1, h2, h3, h4, h5⟩
    refine ⟨r, hr, ?_⟩
    cases r'; cases r
    simp_all

theorem sortedRecords_entries_perm (gens : List LGen) (r' : Record) (h : r' ∈ sortedRecords gens) :
    ∃ r ∈ flattenRecords gens, r'.path = r.path ∧ r'.entries.Perm r.entries := by
  obtain ⟨r, hr, hp, _, _, _, he⟩ := (sortedRecords_spec gens r').mp h
  exact ⟨r, hr, hp, he ▸ isort_perm_f _ _⟩

/-! ### non-vacuity: a history with two generations, a directory record, a failed entry, a repeated format and a
format that is added later -/

def exGens : List LGen :=
  [ ⟨1, { fileName := "0001.mhl",
          records := [ { path := "a.mov", size := some 5, entries := [⟨"md5", "aa", "original", none⟩] },
                       { path := "sub", isDir := true, entries := [⟨"md5", "dd", "original", none⟩] },
                       { path := "b.mov", size := some 7, entries := [⟨"xxh64", "b0", "original", none⟩] } ] }⟩,
    ⟨2, { fileName := "0002.mhl",
          records := [ { path := "a.mov", size := some 5,
                         entries := [⟨"md5", "ab", "failed", none⟩, ⟨"xxh64", "a1", "new", none⟩] },
                       { path := "b.mov", size := some 7, entries := [⟨"xxh64", "b0", "verified", none⟩] },
                       { path := "c.mov", size := some 1, entries := [⟨"md5", "cc", "failed", none⟩] } ] }⟩ ]

example : flattenRecords exGens =
    [ { path := "a.mov", size := some 5, entries := [⟨"md5", "aa", "original", none⟩, ⟨"xxh64", "a1", "new", none⟩] },
      { path := "b.mov", size := some 7, entries := [⟨"xxh64", "b0", "original", none⟩] } ] := by decide

example : firstNonFailed exGens "a.mov" "xxh64" = some ⟨"xxh64", "a1", "new", none⟩ := by decide
example : firstNonFailed exGens "a.mov" "md5" = some ⟨"md5", "aa", "original", none⟩ := by decide
/-- a path whose only digest failed has no record, and a directory has none -/
example : firstNonFailed exGens "c.mov" "md5" = none ∧ firstNonFailed exGens "sub" "md5" = none := by decide
/-- the right-hand side of `flatten_paths_exact` holds of "a.mov" (and so does the left-hand side) -/
example : ∃ g ∈ exGens, ∃ r ∈ g.gen.records, r.isDir = false ∧ r.path = "a.mov" ∧
    ∃ e ∈ r.entries, e.action ≠ "failed" := by decide
example : ∃ r ∈ flattenRecords exGens, r.path = "a.mov" := (flatten_paths_exact exGens "a.mov").mpr (by decide)

end MhlProps.C18
